package fakemy

import (
	"encoding/binary"
	"encoding/hex"
	"fmt"
	"net"
	"strconv"
	"strings"
	"sync"

	"github.com/cossacklabs/acra/sqlparser"
)

// Column is a table column of the fake database.
type Column struct {
	Name string
	Type byte // TypeLong, TypeBlob, TypeVarString
}

// TableDef is a table; the column named "id" is its primary key (ON DUPLICATE KEY UPDATE).
type TableDef struct {
	Name string
	Cols []Column
}

func (t *TableDef) col(name string) int {
	for i, c := range t.Cols {
		if strings.EqualFold(c.Name, name) {
			return i
		}
	}
	return -1
}

// ExecRec is what one COM_STMT_EXECUTE carried.
type ExecRec struct {
	StmtID  uint32
	SQL     string
	NewBind bool
	Types   []byte
	Params  []Val
}

// DB is the fake database: tables, everything received and sent, and a log of statements.
type DB struct {
	mu   sync.Mutex
	defs map[string]*TableDef
	rows map[string][][]Val
	// In / Out: every byte received from / sent to the proxy (all connections)
	In, Out Tape
	// Log: statement texts received with COM_QUERY; Prepares: with COM_STMT_PREPARE
	Log      []string
	Prepares []string
	Execs    []ExecRec
	// Sent: rows of result sets as stored (before protocol encoding)
	Sent [][]Val
	// Canned: when set, the next SELECT returns these rows instead of table contents
	Canned [][]Val
	// Notes: problems the database noticed (statements it could not evaluate)
	Notes  []string
	nextID uint32
	// EchoErrors makes every ERR packet quote the failing statement and its parameter values, the way a real
	// server quotes values ("Incorrect integer value: 'abc' for column …", "Duplicate entry '…' for key …")
	EchoErrors bool
	// FailNext makes the next executed statement fail with an ERR packet
	FailNext bool
}

func NewDB(defs []TableDef) *DB {
	db := &DB{defs: map[string]*TableDef{}, rows: map[string][][]Val{}, nextID: 1}
	for i := range defs {
		d := defs[i]
		db.defs[d.Name] = &d
	}
	return db
}

// Parser returns a parser of the dialect the database speaks.
func (db *DB) Parser() *sqlparser.Parser { return sqlparser.New(sqlparser.ModeDefault) }

// SetCanned makes the next SELECT return the given rows.
func (db *DB) SetCanned(rows [][]Val) {
	db.mu.Lock()
	db.Canned = rows
	db.mu.Unlock()
}

// Rows returns a copy of the stored rows of a table.
func (db *DB) Rows(table string) [][]Val {
	db.mu.Lock()
	defer db.mu.Unlock()
	return append([][]Val{}, db.rows[table]...)
}

type dbError struct {
	code uint16
	msg  string
}

func (e *dbError) Error() string { return e.msg }

func errf(f string, a ...any) *dbError { return &dbError{1064, fmt.Sprintf(f, a...)} }

type prepared struct {
	sql    string
	stmt   sqlparser.Statement
	nparam int
	types  []byte
}

type dbConn struct {
	db       *DB
	p        *pconn
	caps     uint32
	stmts    map[uint32]*prepared
	parser   *sqlparser.Parser
}

func (c *dbConn) deprecateEOF() bool { return c.caps&CapDeprecateEOF != 0 }

// Serve handles one connection until it closes.
func (db *DB) Serve(conn net.Conn) {
	defer conn.Close()
	c := &dbConn{db: db, p: &pconn{c: conn, in: &db.In, out: &db.Out}, stmts: map[uint32]*prepared{}, parser: sqlparser.New(sqlparser.ModeDefault)}
	// handshake v10
	var hs []byte
	hs = append(hs, 10)
	hs = append(hs, []byte("8.0.0-fakemy\x00")...)
	hs = append(hs, 1, 0, 0, 0)                       // connection id
	hs = append(hs, []byte("abcdefgh")...)            // auth-plugin-data-part-1
	hs = append(hs, 0)                                // filler
	caps := CapProtocol41 | CapSecureConnection | CapDeprecateEOF | 0x00080000 /* PLUGIN_AUTH */
	hs = append(hs, byte(caps), byte(caps>>8))        // capability flags (lower)
	hs = append(hs, 33)                               // character set
	hs = append(hs, 2, 0)                             // status flags
	hs = append(hs, byte(caps>>16), byte(caps>>24))   // capability flags (upper)
	hs = append(hs, 21)                               // length of auth-plugin-data
	hs = append(hs, make([]byte, 10)...)              // reserved
	hs = append(hs, []byte("ijklmnopqrst\x00")...)    // auth-plugin-data-part-2
	hs = append(hs, []byte("mysql_native_password\x00")...)
	c.p.seq = 0
	if c.p.write(hs) != nil {
		return
	}
	resp, err := c.p.read()
	if err != nil || len(resp) < 4 {
		return
	}
	c.caps = binary.LittleEndian.Uint32(resp) & caps
	if c.p.write(okPacket(0, 0)) != nil {
		return
	}
	for {
		pkt, err := c.p.read()
		if err != nil || len(pkt) == 0 {
			return
		}
		switch pkt[0] {
		case ComQuit:
			return
		case ComQuery:
			sql := string(pkt[1:])
			db.mu.Lock()
			db.Log = append(db.Log, sql)
			db.mu.Unlock()
			if c.query(sql) != nil {
				return
			}
		case ComStmtPrepare:
			sql := string(pkt[1:])
			db.mu.Lock()
			db.Prepares = append(db.Prepares, sql)
			db.mu.Unlock()
			if c.prepare(sql) != nil {
				return
			}
		case ComStmtExecute:
			if c.execute(pkt) != nil {
				return
			}
		case ComStmtClose:
			if len(pkt) >= 5 {
				delete(c.stmts, binary.LittleEndian.Uint32(pkt[1:]))
			}
		default:
			if c.p.write(errPacket(1047, "unknown command")) != nil {
				return
			}
		}
	}
}

func okPacket(affected uint64, header byte) []byte {
	b := []byte{header}
	b = putLenInt(b, affected)
	b = putLenInt(b, 0)
	return append(b, 2, 0, 0, 0) // status, warnings
}

func eofPacket() []byte { return []byte{0xfe, 0, 0, 2, 0} }

func errPacket(code uint16, msg string) []byte {
	b := []byte{0xff, byte(code), byte(code >> 8), '#'}
	b = append(b, []byte("42000")...)
	return append(b, []byte(msg)...)
}

func (c *dbConn) note(s string) {
	c.db.mu.Lock()
	c.db.Notes = append(c.db.Notes, s)
	c.db.mu.Unlock()
}

func (c *dbConn) fail(err error, sql string, params ...Val) error {
	c.note(err.Error() + ": " + sql)
	code := uint16(1064)
	if e, ok := err.(*dbError); ok {
		code = e.code
	}
	msg := err.Error()
	if c.db.EchoErrors {
		msg += " near '" + sql + "'"
		for i, p := range params {
			if p != nil {
				msg += fmt.Sprintf("; parameter %d = '%s'", i+1, *p)
			}
		}
	}
	return c.p.write(errPacket(code, msg))
}

// failNext consumes the FailNext flag.
func (c *dbConn) failNext() bool {
	c.db.mu.Lock()
	defer c.db.mu.Unlock()
	f := c.db.FailNext
	c.db.FailNext = false
	return f
}

func (c *dbConn) query(sql string) error {
	stmt, err := c.parser.Parse(sql)
	if err != nil {
		return c.fail(errf("syntax error: %v", err), sql)
	}
	if c.failNext() {
		return c.fail(&dbError{1062, "fakemy: injected failure"}, sql)
	}
	res, err := c.db.exec(stmt, nil)
	if err != nil {
		return c.fail(err, sql)
	}
	if res.cols == nil {
		return c.p.write(okPacket(res.affected, 0))
	}
	return c.resultSet(res, false)
}

func (c *dbConn) prepare(sql string) error {
	stmt, err := c.parser.Parse(sql)
	if err != nil {
		return c.fail(errf("syntax error: %v", err), sql)
	}
	np := countParams(stmt)
	cols, err := c.db.shape(stmt)
	if err != nil {
		return c.fail(err, sql)
	}
	c.db.mu.Lock()
	id := c.db.nextID
	c.db.nextID++
	c.db.mu.Unlock()
	c.stmts[id] = &prepared{sql: sql, stmt: stmt, nparam: np}
	b := []byte{0}
	b = binary.LittleEndian.AppendUint32(b, id)
	b = binary.LittleEndian.AppendUint16(b, uint16(len(cols)))
	b = binary.LittleEndian.AppendUint16(b, uint16(np))
	b = append(b, 0, 0, 0)
	if err := c.p.write(b); err != nil {
		return err
	}
	if np > 0 {
		for i := 0; i < np; i++ {
			d := ColDef{Name: "?", Type: TypeVarString, Charset: 63, Flags: 0x80}
			if err := c.p.write(d.encode()); err != nil {
				return err
			}
		}
		if !c.deprecateEOF() {
			if err := c.p.write(eofPacket()); err != nil {
				return err
			}
		}
	}
	if len(cols) > 0 {
		for i := range cols {
			if err := c.p.write(cols[i].def.encode()); err != nil {
				return err
			}
		}
		if !c.deprecateEOF() {
			if err := c.p.write(eofPacket()); err != nil {
				return err
			}
		}
	}
	return nil
}

func countParams(stmt sqlparser.Statement) int {
	n := 0
	_ = sqlparser.Walk(func(node sqlparser.SQLNode) (bool, error) {
		if v, ok := node.(*sqlparser.SQLVal); ok && v.Type == sqlparser.ValArg {
			n++
		}
		return true, nil
	}, stmt)
	return n
}

func (c *dbConn) execute(pkt []byte) error {
	if len(pkt) < 10 {
		return c.p.write(errPacket(1835, "malformed packet"))
	}
	id := binary.LittleEndian.Uint32(pkt[1:])
	ps := c.stmts[id]
	if ps == nil {
		return c.p.write(errPacket(1243, "unknown prepared statement handler"))
	}
	rec := ExecRec{StmtID: id, SQL: ps.sql}
	pos := 10
	var params []Val
	if ps.nparam > 0 {
		nb := (ps.nparam + 7) / 8
		if len(pkt) < pos+nb+1 {
			return c.p.write(errPacket(1835, "malformed packet"))
		}
		bitmap := pkt[pos : pos+nb]
		pos += nb
		rec.NewBind = pkt[pos] == 1
		pos++
		if rec.NewBind {
			if len(pkt) < pos+2*ps.nparam {
				return c.p.write(errPacket(1835, "malformed packet"))
			}
			ps.types = make([]byte, ps.nparam)
			for i := range ps.types {
				ps.types[i] = pkt[pos]
				pos += 2
			}
		}
		if len(ps.types) != ps.nparam {
			return c.p.write(errPacket(1210, "parameter types never sent"))
		}
		rec.Types = append([]byte{}, ps.types...)
		for i := 0; i < ps.nparam; i++ {
			if bitmap[i/8]&(1<<(uint(i)%8)) != 0 || ps.types[i] == TypeNull {
				params = append(params, nil)
				continue
			}
			if w := fixedWidth(ps.types[i]); w > 0 {
				if len(pkt) < pos+w {
					return c.p.write(errPacket(1835, "malformed packet"))
				}
				var n int64
				switch w {
				case 1:
					n = int64(int8(pkt[pos]))
				case 2:
					n = int64(int16(binary.LittleEndian.Uint16(pkt[pos:])))
				case 4:
					n = int64(int32(binary.LittleEndian.Uint32(pkt[pos:])))
				case 8:
					n = int64(binary.LittleEndian.Uint64(pkt[pos:]))
				}
				params = append(params, V([]byte(strconv.FormatInt(n, 10))))
				pos += w
				continue
			}
			s, _, n, err := lenStr(pkt[pos:])
			if err != nil {
				return c.p.write(errPacket(1835, "malformed packet"))
			}
			params = append(params, V(s))
			pos += n
		}
	}
	rec.Params = params
	c.db.mu.Lock()
	c.db.Execs = append(c.db.Execs, rec)
	c.db.mu.Unlock()
	if c.failNext() {
		return c.fail(&dbError{1062, "fakemy: injected failure"}, ps.sql, params...)
	}
	res, err := c.db.exec(ps.stmt, params)
	if err != nil {
		return c.fail(err, ps.sql, params...)
	}
	if res.cols == nil {
		return c.p.write(okPacket(res.affected, 0))
	}
	return c.resultSet(res, true)
}

// ---- evaluation ----

type outCol struct {
	def ColDef
	idx int    // index into the table's columns, -1 = constant
	k   []byte // constant value
}

type result struct {
	cols     []outCol
	rows     [][]Val
	affected uint64
}

func tableOf(te sqlparser.TableExprs) (string, string, error) {
	if len(te) != 1 {
		return "", "", errf("unsupported table expression")
	}
	at, ok := te[0].(*sqlparser.AliasedTableExpr)
	if !ok {
		return "", "", errf("unsupported table expression")
	}
	tn, ok := at.Expr.(sqlparser.TableName)
	if !ok {
		return "", "", errf("unsupported table expression")
	}
	return tn.Name.String(), at.As.String(), nil
}

func colDefOf(t *TableDef, alias string, i int) ColDef {
	c := t.Cols[i]
	tn := t.Name
	if alias != "" {
		tn = alias
	}
	d := ColDef{Table: tn, OrgTable: t.Name, Name: c.Name, OrgName: c.Name, Type: c.Type}
	switch c.Type {
	case TypeLong:
		d.Charset, d.Length = 63, 11
	case TypeBlob:
		d.Charset, d.Length, d.Flags = 63, 65535, 0x80|0x10
	default:
		d.Charset, d.Length = 33, 765
	}
	return d
}

// targets resolves a select list over one table.
func targets(list sqlparser.SelectExprs, t *TableDef, alias string) ([]outCol, error) {
	var out []outCol
	qualOK := func(q string) bool { return q == "" || q == t.Name || (alias != "" && q == alias) }
	for _, e := range list {
		switch x := e.(type) {
		case *sqlparser.StarExpr:
			if !qualOK(x.TableName.Name.String()) {
				return nil, errf("unknown table %s", x.TableName.Name.String())
			}
			for i := range t.Cols {
				out = append(out, outCol{def: colDefOf(t, alias, i), idx: i})
			}
		case *sqlparser.AliasedExpr:
			if cn, ok := x.Expr.(*sqlparser.ColName); ok {
				if !qualOK(cn.Qualifier.Name.String()) {
					return nil, errf("unknown table %s", cn.Qualifier.Name.String())
				}
				i := t.col(cn.Name.String())
				if i < 0 {
					return nil, errf("unknown column %s", cn.Name.String())
				}
				d := colDefOf(t, alias, i)
				if !x.As.IsEmpty() {
					d.Name = x.As.String()
				}
				out = append(out, outCol{def: d, idx: i})
				continue
			}
			// any other expression: a constant integer column
			out = append(out, outCol{def: ColDef{Name: "expr", Type: TypeLongLong, Charset: 63, Length: 20, Flags: 0x80}, idx: -1, k: []byte("2")})
		default:
			return nil, errf("unsupported select expression")
		}
	}
	return out, nil
}

// shape: the result columns of a statement (nil for statements without result set).
func (db *DB) shape(stmt sqlparser.Statement) ([]outCol, error) {
	sel, ok := stmt.(*sqlparser.Select)
	if !ok {
		return nil, nil
	}
	name, alias, err := tableOf(sel.From)
	if err != nil {
		return nil, err
	}
	if name == "dual" {
		return nil, errf("unsupported")
	}
	t := db.defs[name]
	if t == nil {
		return nil, &dbError{1146, "table " + name + " doesn't exist"}
	}
	return targets(sel.SelectExprs, t, alias)
}

// value evaluates a VALUES / SET expression. inserted: the row being inserted (for VALUES(col)).
func value(e sqlparser.Expr, params []Val, t *TableDef, inserted []Val) (Val, error) {
	switch v := e.(type) {
	case *sqlparser.NullVal:
		return nil, nil
	case *sqlparser.ParenExpr:
		return value(v.Expr, params, t, inserted)
	case *sqlparser.ValuesFuncExpr:
		if inserted == nil {
			return nil, errf("VALUES() outside ON DUPLICATE KEY UPDATE")
		}
		i := t.col(v.Name.Name.String())
		if i < 0 {
			return nil, errf("unknown column %s", v.Name.Name.String())
		}
		return inserted[i], nil
	case *sqlparser.SQLVal:
		switch v.Type {
		case sqlparser.StrVal, sqlparser.IntVal, sqlparser.FloatVal:
			return V(v.Val), nil
		case sqlparser.HexVal:
			b, err := hex.DecodeString(string(v.Val))
			if err != nil {
				return nil, errf("bad hex literal")
			}
			return V(b), nil
		case sqlparser.HexNum:
			s := strings.TrimPrefix(string(v.Val), "0x")
			if len(s)%2 == 1 {
				s = "0" + s
			}
			b, err := hex.DecodeString(s)
			if err != nil {
				return nil, errf("bad hex number")
			}
			return V(b), nil
		case sqlparser.ValArg:
			n, err := strconv.Atoi(strings.TrimPrefix(string(v.Val), ":v"))
			if err != nil || n < 1 || n > len(params) {
				return nil, errf("no value for parameter %s", v.Val)
			}
			return params[n-1], nil
		}
	}
	return nil, errf("unsupported expression %s", sqlparser.String(e))
}

type cond struct {
	col int
	val []byte
}

func where(w *sqlparser.Where, t *TableDef, params []Val) (*cond, error) {
	if w == nil {
		return nil, nil
	}
	ce, ok := w.Expr.(*sqlparser.ComparisonExpr)
	if !ok || ce.Operator != "=" {
		return nil, errf("unsupported WHERE")
	}
	cn, ok := ce.Left.(*sqlparser.ColName)
	if !ok {
		return nil, errf("unsupported WHERE")
	}
	i := t.col(cn.Name.String())
	if i < 0 {
		return nil, errf("unknown column %s", cn.Name.String())
	}
	v, err := value(ce.Right, params, t, nil)
	if err != nil || v == nil {
		return nil, errf("unsupported WHERE value")
	}
	return &cond{i, *v}, nil
}

func (c *cond) match(row []Val) bool {
	return c == nil || (row[c.col] != nil && string(*row[c.col]) == string(c.val))
}

func (db *DB) exec(stmt sqlparser.Statement, params []Val) (*result, error) {
	db.mu.Lock()
	defer db.mu.Unlock()
	switch s := stmt.(type) {
	case *sqlparser.Insert:
		t := db.defs[s.Table.Name.String()]
		if t == nil {
			return nil, &dbError{1146, "table doesn't exist"}
		}
		var idx []int
		if len(s.Columns) > 0 {
			for _, c := range s.Columns {
				i := t.col(c.String())
				if i < 0 {
					return nil, errf("unknown column %s", c.String())
				}
				idx = append(idx, i)
			}
		} else {
			for i := range t.Cols {
				idx = append(idx, i)
			}
		}
		var tuples [][]sqlparser.Expr
		switch rows := s.Rows.(type) {
		case sqlparser.Values:
			for _, tup := range rows {
				tuples = append(tuples, tup)
			}
		case *sqlparser.Select:
			// INSERT … SELECT <expressions> [FROM dual]
			var tup []sqlparser.Expr
			for _, e := range rows.SelectExprs {
				ae, ok := e.(*sqlparser.AliasedExpr)
				if !ok {
					return nil, errf("unsupported INSERT … SELECT")
				}
				tup = append(tup, ae.Expr)
			}
			tuples = append(tuples, tup)
		default:
			return nil, errf("unsupported INSERT source")
		}
		var n uint64
		for _, tup := range tuples {
			if len(tup) != len(idx) {
				return nil, &dbError{1136, "column count doesn't match value count"}
			}
			row := make([]Val, len(t.Cols))
			for j, e := range tup {
				v, err := value(e, params, t, nil)
				if err != nil {
					return nil, err
				}
				row[idx[j]] = v
			}
			// duplicate key?
			dup := -1
			if k := t.col("id"); k >= 0 && row[k] != nil {
				for ri, r := range db.rows[t.Name] {
					if r[k] != nil && string(*r[k]) == string(*row[k]) {
						dup = ri
					}
				}
			}
			switch {
			case dup >= 0 && len(s.OnDup) > 0:
				old := append([]Val{}, db.rows[t.Name][dup]...)
				for _, ue := range s.OnDup {
					i := t.col(ue.Name.Name.String())
					if i < 0 {
						return nil, errf("unknown column %s", ue.Name.Name.String())
					}
					v, err := value(ue.Expr, params, t, row)
					if err != nil {
						return nil, err
					}
					old[i] = v
				}
				db.rows[t.Name][dup] = old
				n += 2
			case dup >= 0 && s.Action == sqlparser.ReplaceStr:
				db.rows[t.Name][dup] = row
				n += 2
			case dup >= 0:
				return nil, &dbError{1062, "duplicate entry"}
			default:
				db.rows[t.Name] = append(db.rows[t.Name], row)
				n++
			}
		}
		return &result{affected: n}, nil
	case *sqlparser.Update:
		name, _, err := tableOf(s.TableExprs)
		if err != nil {
			return nil, err
		}
		t := db.defs[name]
		if t == nil {
			return nil, &dbError{1146, "table doesn't exist"}
		}
		cnd, err := where(s.Where, t, params)
		if err != nil {
			return nil, err
		}
		type set struct {
			i int
			v Val
		}
		var sets []set
		for _, ue := range s.Exprs {
			i := t.col(ue.Name.Name.String())
			if i < 0 {
				return nil, errf("unknown column %s", ue.Name.Name.String())
			}
			v, err := value(ue.Expr, params, t, nil)
			if err != nil {
				return nil, err
			}
			sets = append(sets, set{i, v})
		}
		var n uint64
		for ri, r := range db.rows[name] {
			if !cnd.match(r) {
				continue
			}
			nr := append([]Val{}, r...)
			for _, st := range sets {
				nr[st.i] = st.v
			}
			db.rows[name][ri] = nr
			n++
		}
		return &result{affected: n}, nil
	case *sqlparser.Select:
		name, alias, err := tableOf(s.From)
		if err != nil {
			return nil, err
		}
		t := db.defs[name]
		if t == nil {
			return nil, &dbError{1146, "table doesn't exist"}
		}
		cols, err := targets(s.SelectExprs, t, alias)
		if err != nil {
			return nil, err
		}
		cnd, err := where(s.Where, t, params)
		if err != nil {
			return nil, err
		}
		res := &result{cols: cols}
		if db.Canned != nil {
			res.rows = db.Canned
			db.Canned = nil
			for _, r := range res.rows {
				db.Sent = append(db.Sent, r)
			}
			return res, nil
		}
		for _, r := range db.rows[name] {
			if !cnd.match(r) {
				continue
			}
			var o []Val
			for _, c := range cols {
				if c.idx < 0 {
					o = append(o, V(c.k))
				} else {
					o = append(o, r[c.idx])
				}
			}
			res.rows = append(res.rows, o)
			db.Sent = append(db.Sent, o)
		}
		return res, nil
	}
	return nil, errf("unsupported statement")
}

// ---- result sets ----

func (c *dbConn) resultSet(res *result, binaryRows bool) error {
	if err := c.p.write(putLenInt(nil, uint64(len(res.cols)))); err != nil {
		return err
	}
	for i := range res.cols {
		if err := c.p.write(res.cols[i].def.encode()); err != nil {
			return err
		}
	}
	if !c.deprecateEOF() {
		if err := c.p.write(eofPacket()); err != nil {
			return err
		}
	}
	for _, row := range res.rows {
		var b []byte
		if binaryRows {
			b = append(b, 0)
			bitmap := make([]byte, (len(row)+7+2)/8)
			for i, v := range row {
				if v == nil {
					bitmap[(i+2)/8] |= 1 << (uint(i+2) % 8)
				}
			}
			b = append(b, bitmap...)
			for i, v := range row {
				if v == nil {
					continue
				}
				switch res.cols[i].def.Type {
				case TypeLong:
					n, _ := strconv.ParseInt(string(*v), 10, 32)
					b = binary.LittleEndian.AppendUint32(b, uint32(int32(n)))
				case TypeLongLong:
					n, _ := strconv.ParseInt(string(*v), 10, 64)
					b = binary.LittleEndian.AppendUint64(b, uint64(n))
				default:
					b = putLenStr(b, *v)
				}
			}
		} else {
			for _, v := range row {
				if v == nil {
					b = append(b, 0xfb)
				} else {
					b = putLenStr(b, *v)
				}
			}
		}
		if err := c.p.write(b); err != nil {
			return err
		}
	}
	if c.deprecateEOF() {
		return c.p.write(okPacket(0, 0xfe))
	}
	return c.p.write(eofPacket())
}
