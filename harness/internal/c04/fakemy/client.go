package fakemy

import (
	"encoding/binary"
	"errors"
	"fmt"
	"net"
	"strconv"
	"time"
)

// Result is what the client received for one command.
type Result struct {
	OK       bool
	Err      string // error message of an ERR packet
	ErrCode  uint16
	Cols     []*ColDef
	Rows     [][]Val // values as the client decodes them by the received column types (integers as decimal text)
	Wire     [][]Val // the raw value bytes per column (binary protocol: fixed-width bytes as sent)
	Affected uint64
}

// Param is a COM_STMT_EXECUTE parameter.
type Param struct {
	Type byte
	Null bool
	Data []byte // string-like types: the bytes; integer types: decimal text
}

// Stmt is a prepared statement handle.
type Stmt struct {
	ID      uint32
	NParams int
	NCols   int
	bound   bool
}

// Client is a fake MySQL client on one connection.
type Client struct {
	p       *pconn
	In, Out Tape
	Caps    uint32
	Timeout time.Duration
	conn    net.Conn
}

func NewClient(conn net.Conn) *Client {
	c := &Client{conn: conn, Caps: CapProtocol41 | CapSecureConnection, Timeout: 5 * time.Second}
	c.p = &pconn{c: conn, in: &c.In, out: &c.Out}
	return c
}

func (c *Client) deadline() { c.conn.SetDeadline(time.Now().Add(c.Timeout)) }

// Marks returns the current lengths of the received / sent byte logs.
func (c *Client) Marks() (in, out int) { return c.In.Len(), c.Out.Len() }

// Handshake reads the server greeting, answers it and waits for OK.
func (c *Client) Handshake() error {
	c.deadline()
	if _, err := c.p.read(); err != nil {
		return err
	}
	// HandshakeResponse41; the first byte (low byte of the capability flags) must not look like a command
	// the proxy interprets, it is 0 for the flags used here
	resp := make([]byte, 32)
	binary.LittleEndian.PutUint32(resp, c.Caps)
	binary.LittleEndian.PutUint32(resp[4:], 1<<24-1)
	resp[8] = 33
	resp = append(resp, []byte("user\x00")...)
	resp = append(resp, 0) // empty auth response
	if err := c.p.write(resp); err != nil {
		return err
	}
	pkt, err := c.p.read()
	if err != nil {
		return err
	}
	if len(pkt) == 0 || pkt[0] != 0 {
		return errors.New("fakemy: handshake not accepted")
	}
	return nil
}

func (c *Client) deprecateEOF() bool { return c.Caps&CapDeprecateEOF != 0 }

func isEOF(pkt []byte) bool { return len(pkt) > 0 && pkt[0] == 0xfe && len(pkt) < 9 }

func parseErr(pkt []byte) *Result {
	r := &Result{Err: "error"}
	if len(pkt) >= 3 {
		r.ErrCode = binary.LittleEndian.Uint16(pkt[1:])
		msg := pkt[3:]
		if len(msg) >= 6 && msg[0] == '#' {
			msg = msg[6:]
		}
		r.Err = string(msg)
		if r.Err == "" {
			r.Err = "error"
		}
	}
	return r
}

// readDefs reads n column definitions and the EOF after them.
func (c *Client) readDefs(n int) ([]*ColDef, error) {
	var out []*ColDef
	for i := 0; i < n; i++ {
		pkt, err := c.p.read()
		if err != nil {
			return nil, err
		}
		d, err := parseColDef(pkt)
		if err != nil {
			return nil, err
		}
		out = append(out, d)
	}
	if !c.deprecateEOF() {
		pkt, err := c.p.read()
		if err != nil {
			return nil, err
		}
		if !isEOF(pkt) {
			return nil, fmt.Errorf("fakemy: expected EOF after column definitions, got %x", pkt)
		}
	}
	return out, nil
}

// readResult reads the response to COM_QUERY / COM_STMT_EXECUTE.
func (c *Client) readResult(binaryRows bool) (*Result, error) {
	pkt, err := c.p.read()
	if err != nil {
		return nil, err
	}
	if len(pkt) == 0 {
		return nil, errors.New("fakemy: empty packet")
	}
	switch pkt[0] {
	case 0xff:
		return parseErr(pkt), nil
	case 0x00:
		r := &Result{OK: true}
		r.Affected, _, _, _ = lenInt(pkt[1:])
		return r, nil
	}
	n, _, _, err := lenInt(pkt)
	if err != nil {
		return nil, err
	}
	r := &Result{OK: true}
	if r.Cols, err = c.readDefs(int(n)); err != nil {
		return nil, err
	}
	for {
		pkt, err := c.p.read()
		if err != nil {
			return nil, err
		}
		if isEOF(pkt) {
			return r, nil
		}
		if len(pkt) > 0 && pkt[0] == 0xff {
			e := parseErr(pkt)
			e.Cols, e.Rows, e.Wire = r.Cols, r.Rows, r.Wire
			return e, nil
		}
		var row, wire []Val
		if binaryRows {
			nb := (len(r.Cols) + 7 + 2) / 8
			if len(pkt) < 1+nb || pkt[0] != 0 {
				return nil, fmt.Errorf("fakemy: malformed binary row %x", pkt)
			}
			bitmap := pkt[1 : 1+nb]
			pos := 1 + nb
			for i, col := range r.Cols {
				if bitmap[(i+2)/8]&(1<<(uint(i+2)%8)) != 0 {
					row, wire = append(row, nil), append(wire, nil)
					continue
				}
				if w := fixedWidth(col.Type); w > 0 {
					if len(pkt) < pos+w {
						return nil, fmt.Errorf("fakemy: malformed binary row %x", pkt)
					}
					var v int64
					switch w {
					case 1:
						v = int64(int8(pkt[pos]))
					case 2:
						v = int64(int16(binary.LittleEndian.Uint16(pkt[pos:])))
					case 4:
						v = int64(int32(binary.LittleEndian.Uint32(pkt[pos:])))
					case 8:
						v = int64(binary.LittleEndian.Uint64(pkt[pos:]))
					}
					row = append(row, V([]byte(strconv.FormatInt(v, 10))))
					wire = append(wire, V(pkt[pos:pos+w]))
					pos += w
					continue
				}
				s, _, k, err := lenStr(pkt[pos:])
				if err != nil {
					return nil, fmt.Errorf("fakemy: malformed binary row %x", pkt)
				}
				row, wire = append(row, V(s)), append(wire, V(s))
				pos += k
			}
			if pos != len(pkt) {
				return nil, fmt.Errorf("fakemy: %d trailing bytes in binary row %x", len(pkt)-pos, pkt)
			}
		} else {
			pos := 0
			for range r.Cols {
				s, null, k, err := lenStr(pkt[pos:])
				if err != nil {
					return nil, fmt.Errorf("fakemy: malformed text row %x", pkt)
				}
				if null {
					row, wire = append(row, nil), append(wire, nil)
				} else {
					row, wire = append(row, V(s)), append(wire, V(s))
				}
				pos += k
			}
			if pos != len(pkt) {
				return nil, fmt.Errorf("fakemy: %d trailing bytes in text row %x", len(pkt)-pos, pkt)
			}
		}
		r.Rows = append(r.Rows, row)
		r.Wire = append(r.Wire, wire)
	}
}

// Query sends COM_QUERY.
func (c *Client) Query(sql string) (*Result, error) {
	c.deadline()
	c.p.seq = 0
	if err := c.p.write(append([]byte{ComQuery}, sql...)); err != nil {
		return nil, err
	}
	return c.readResult(false)
}

// Prepare sends COM_STMT_PREPARE.
func (c *Client) Prepare(sql string) (*Stmt, *Result, error) {
	c.deadline()
	c.p.seq = 0
	if err := c.p.write(append([]byte{ComStmtPrepare}, sql...)); err != nil {
		return nil, nil, err
	}
	pkt, err := c.p.read()
	if err != nil {
		return nil, nil, err
	}
	if len(pkt) > 0 && pkt[0] == 0xff {
		return nil, parseErr(pkt), nil
	}
	if len(pkt) < 12 || pkt[0] != 0 {
		return nil, nil, fmt.Errorf("fakemy: malformed COM_STMT_PREPARE_OK %x", pkt)
	}
	st := &Stmt{ID: binary.LittleEndian.Uint32(pkt[1:]), NCols: int(binary.LittleEndian.Uint16(pkt[5:])), NParams: int(binary.LittleEndian.Uint16(pkt[7:]))}
	res := &Result{OK: true}
	if st.NParams > 0 {
		if _, err := c.readDefs(st.NParams); err != nil {
			return nil, nil, err
		}
	}
	if st.NCols > 0 {
		if res.Cols, err = c.readDefs(st.NCols); err != nil {
			return nil, nil, err
		}
	}
	return st, res, nil
}

// Execute sends COM_STMT_EXECUTE. rebind=false on a statement executed before sends new_params_bind_flag = 0
// (the types are not repeated).
func (c *Client) Execute(st *Stmt, params []Param, rebind bool) (*Result, error) {
	c.deadline()
	c.p.seq = 0
	b := []byte{ComStmtExecute}
	b = binary.LittleEndian.AppendUint32(b, st.ID)
	b = append(b, 0)          // flags
	b = append(b, 1, 0, 0, 0) // iteration count
	if len(params) > 0 {
		bitmap := make([]byte, (len(params)+7)/8)
		for i, p := range params {
			if p.Null {
				bitmap[i/8] |= 1 << (uint(i) % 8)
			}
		}
		b = append(b, bitmap...)
		if rebind || !st.bound {
			b = append(b, 1)
			for _, p := range params {
				b = append(b, p.Type, 0)
			}
		} else {
			b = append(b, 0)
		}
		st.bound = true
		for _, p := range params {
			if p.Null {
				continue
			}
			if w := fixedWidth(p.Type); w > 0 {
				n, _ := strconv.ParseInt(string(p.Data), 10, 64)
				switch w {
				case 1:
					b = append(b, byte(n))
				case 2:
					b = binary.LittleEndian.AppendUint16(b, uint16(n))
				case 4:
					b = binary.LittleEndian.AppendUint32(b, uint32(n))
				case 8:
					b = binary.LittleEndian.AppendUint64(b, uint64(n))
				}
				continue
			}
			b = putLenStr(b, p.Data)
		}
	}
	if err := c.p.write(b); err != nil {
		return nil, err
	}
	return c.readResult(true)
}

// CloseStmt sends COM_STMT_CLOSE (no response).
func (c *Client) CloseStmt(st *Stmt) error {
	c.deadline()
	c.p.seq = 0
	b := []byte{ComStmtClose}
	b = binary.LittleEndian.AppendUint32(b, st.ID)
	return c.p.write(b)
}

func (c *Client) Close() { c.conn.Close() }
