// Package fakemy: a fake MySQL client and a fake MySQL database speaking the client/server protocol
// (handshake v10, COM_QUERY with text result sets, COM_STMT_PREPARE / COM_STMT_EXECUTE with binary
// result sets) over a net.Conn, used to drive Acra's real MySQL proxy in process. The database stores
// the values it receives literally and evaluates INSERT / UPDATE / SELECT over single tables.
package fakemy

import (
	"bytes"
	"encoding/binary"
	"errors"
	"io"
	"net"
	"sync"
)

// column / parameter types of the protocol
const (
	TypeTiny      byte = 0x01
	TypeShort     byte = 0x02
	TypeLong      byte = 0x03
	TypeNull      byte = 0x06
	TypeLongLong  byte = 0x08
	TypeVarchar   byte = 0x0f
	TypeBlob      byte = 0xfc
	TypeVarString byte = 0xfd
	TypeString    byte = 0xfe
)

const (
	CapProtocol41       uint32 = 0x00000200
	CapSecureConnection uint32 = 0x00008000
	CapDeprecateEOF     uint32 = 0x01000000
)

const (
	ComQuit        byte = 0x01
	ComQuery       byte = 0x03
	ComStmtPrepare byte = 0x16
	ComStmtExecute byte = 0x17
	ComStmtClose   byte = 0x19
)

// Val is a column value; nil = NULL.
type Val = *[]byte

// V copies b into a fresh value.
func V(b []byte) Val { c := append([]byte{}, b...); return &c }

// Tape is a byte log shared by the connections of one side (guarded).
type Tape struct {
	mu sync.Mutex
	b  bytes.Buffer
}

func (t *Tape) Write(p []byte) { t.mu.Lock(); t.b.Write(p); t.mu.Unlock() }
func (t *Tape) Len() int       { t.mu.Lock(); defer t.mu.Unlock(); return t.b.Len() }
func (t *Tape) Bytes() []byte {
	t.mu.Lock()
	defer t.mu.Unlock()
	return append([]byte{}, t.b.Bytes()...)
}

// pconn reads and writes whole packets and records the raw bytes.
type pconn struct {
	c       net.Conn
	in, out *Tape
	seq     byte
}

func (p *pconn) read() ([]byte, error) {
	var hdr [4]byte
	if _, err := io.ReadFull(p.c, hdr[:]); err != nil {
		return nil, err
	}
	n := int(hdr[0]) | int(hdr[1])<<8 | int(hdr[2])<<16
	data := make([]byte, n)
	if _, err := io.ReadFull(p.c, data); err != nil {
		return nil, err
	}
	p.in.Write(hdr[:])
	p.in.Write(data)
	p.seq = hdr[3] + 1
	return data, nil
}

func (p *pconn) write(payload []byte) error {
	n := len(payload)
	if n >= 1<<24-1 {
		return errors.New("fakemy: payload too large")
	}
	buf := append([]byte{byte(n), byte(n >> 8), byte(n >> 16), p.seq}, payload...)
	p.seq++
	p.out.Write(buf)
	_, err := p.c.Write(buf)
	return err
}

// ---- length-encoded integers / strings ----

func putLenInt(b []byte, n uint64) []byte {
	switch {
	case n < 251:
		return append(b, byte(n))
	case n < 1<<16:
		return append(b, 0xfc, byte(n), byte(n>>8))
	case n < 1<<24:
		return append(b, 0xfd, byte(n), byte(n>>8), byte(n>>16))
	}
	b = append(b, 0xfe)
	return binary.LittleEndian.AppendUint64(b, n)
}

func putLenStr(b []byte, s []byte) []byte { return append(putLenInt(b, uint64(len(s))), s...) }

var errShort = errors.New("fakemy: short packet")

// lenInt reads a length-encoded integer: value, isNull, bytes consumed.
func lenInt(b []byte) (uint64, bool, int, error) {
	if len(b) == 0 {
		return 0, false, 0, errShort
	}
	switch b[0] {
	case 0xfb:
		return 0, true, 1, nil
	case 0xfc:
		if len(b) < 3 {
			return 0, false, 0, errShort
		}
		return uint64(b[1]) | uint64(b[2])<<8, false, 3, nil
	case 0xfd:
		if len(b) < 4 {
			return 0, false, 0, errShort
		}
		return uint64(b[1]) | uint64(b[2])<<8 | uint64(b[3])<<16, false, 4, nil
	case 0xfe:
		if len(b) < 9 {
			return 0, false, 0, errShort
		}
		return binary.LittleEndian.Uint64(b[1:]), false, 9, nil
	}
	return uint64(b[0]), false, 1, nil
}

// lenStr reads a length-encoded string (nil, true = NULL).
func lenStr(b []byte) ([]byte, bool, int, error) {
	n, null, k, err := lenInt(b)
	if err != nil || null {
		return nil, null, k, err
	}
	if uint64(len(b)-k) < n {
		return nil, false, 0, errShort
	}
	return b[k : k+int(n)], false, k + int(n), nil
}

// ColDef is a column definition as it travels in a result set.
type ColDef struct {
	Table, OrgTable, Name, OrgName string
	Type                           byte
	Charset                        uint16
	Length                         uint32
	Flags                          uint16
}

func (c *ColDef) encode() []byte {
	var b []byte
	b = putLenStr(b, []byte("def"))
	b = putLenStr(b, []byte("db"))
	b = putLenStr(b, []byte(c.Table))
	b = putLenStr(b, []byte(c.OrgTable))
	b = putLenStr(b, []byte(c.Name))
	b = putLenStr(b, []byte(c.OrgName))
	b = append(b, 0x0c)
	b = binary.LittleEndian.AppendUint16(b, c.Charset)
	b = binary.LittleEndian.AppendUint32(b, c.Length)
	b = append(b, c.Type)
	b = binary.LittleEndian.AppendUint16(b, c.Flags)
	b = append(b, 0, 0, 0)
	return b
}

func parseColDef(b []byte) (*ColDef, error) {
	c := &ColDef{}
	pos := 0
	var strs [6][]byte
	for i := range strs {
		s, _, n, err := lenStr(b[pos:])
		if err != nil {
			return nil, err
		}
		strs[i] = s
		pos += n
	}
	c.Table, c.OrgTable, c.Name, c.OrgName = string(strs[2]), string(strs[3]), string(strs[4]), string(strs[5])
	if len(b) < pos+13 {
		return nil, errShort
	}
	pos++ // 0x0c
	c.Charset = binary.LittleEndian.Uint16(b[pos:])
	c.Length = binary.LittleEndian.Uint32(b[pos+2:])
	c.Type = b[pos+6]
	c.Flags = binary.LittleEndian.Uint16(b[pos+7:])
	return c, nil
}

// fixedWidth is the size of a binary-protocol value of a fixed-width type (0 = length-encoded).
func fixedWidth(t byte) int {
	switch t {
	case TypeTiny:
		return 1
	case TypeShort:
		return 2
	case TypeLong:
		return 4
	case TypeLongLong:
		return 8
	}
	return 0
}
