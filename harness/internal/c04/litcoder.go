package c04

import (
	"bytes"
	"fmt"
	"strings"
	"unicode"
	"unicode/utf8"

	pg_query "github.com/cossacklabs/pg_query_go/v5"

	"github.com/cossacklabs/acra/encryptor/base/config"
	myenc "github.com/cossacklabs/acra/encryptor/mysql"
	pgenc "github.com/cossacklabs/acra/encryptor/postgresql"
	"github.com/cossacklabs/acra/sqlparser"
	"github.com/cossacklabs/acra/utils"

	"verifharness/internal/core"
)

// ---- the literal coders (Lean: Proxy/LitCoder.lean) ----

var litSettings = map[string]config.ColumnEncryptionSetting{}

// litSetting returns a real column setting with the given data_type (none | bytes | str).
func litSetting(dtype string) config.ColumnEncryptionSetting {
	if s, ok := litSettings[dtype]; ok {
		return s
	}
	sch := Schema{&Tab{Name: "t", Configured: true, Cols: []Col{{Name: "id"}, {Name: "c", Set: &Setting{Kind: "block", DType: dtype, Reenc: true}}}}}
	store, err := config.MapTableSchemaStoreFromConfig([]byte(sch.YAML()), config.UsePostgreSQL)
	if err != nil {
		panic("harness: " + err.Error())
	}
	s := store.GetTableSchema("t").GetColumnEncryptionSettings("c")
	if s == nil {
		panic("harness: no setting for t.c")
	}
	litSettings[dtype] = s
	return s
}

func init() {
	// escapedgo <data> → utils.DecodeEscaped with BOTH results: the slice and the error
	core.Register("C04.escapedgo", func(a []string) string {
		in := core.UnHex(a[0])
		out, err := utils.DecodeEscaped(append([]byte{}, in...))
		switch {
		case err == nil:
			return "ok " + core.Hex(out)
		case err == utils.ErrDecodeOctalString:
			return "octalerr " + core.Hex(out)
		}
		return "hexerr " + core.Hex(out)
	})
	// litdecode <none|bytes|str> <literal text> → PgQueryDBDataCoder.Decode of a string literal
	core.Register("C04.litdecode", func(a []string) string {
		text := core.UnHex(a[1])
		ac := &pg_query.A_Const{Val: &pg_query.A_Const_Sval{Sval: &pg_query.String{Sval: string(text)}}}
		out, err := (&pgenc.PgQueryDBDataCoder{}).Decode(ac, litSetting(a[0]))
		if err != nil {
			return "err"
		}
		return "ok " + core.Hex(out)
	})
	// mylitdecode <str|int|hexval|hexnum> <literal value> → mysql.DBDataCoder.Decode
	core.Register("C04.mylitdecode", func(a []string) string {
		v := &sqlparser.SQLVal{Val: append([]byte{}, core.UnHex(a[1])...)}
		switch a[0] {
		case "str":
			v.Type = sqlparser.StrVal
		case "int":
			v.Type = sqlparser.IntVal
		case "hexval":
			v.Type = sqlparser.HexVal
		case "hexnum":
			v.Type = sqlparser.HexNum
		default:
			panic("harness: bad literal kind " + a[0])
		}
		out, err := (&myenc.DBDataCoder{}).Decode(v, nil)
		if err != nil {
			return "err"
		}
		return "ok " + core.Hex(out)
	})
}

// ---- literal texts: an alphabet with a backslash in every position class ----

// litTokens: pieces a literal text is assembled from. Classes: doubled backslash, `\ooo` (in range, out of byte
// range, non-octal digit inside), `\x` in the middle, backslash + other character, control characters, C1 controls
// (valid UTF-8, unicode.IsControl), quotes, multi-byte UTF-8, plain text.
var litTokens = []string{
	`\\`, `\\`, `\101`, `\000`, `\377`, `\400`, `\777`, `\18`, `\1`, `\x`, `\x41`, `\k`, `\n`, `\'`, `\ `, `\é`,
	"\n", "\t", "\r", "\x01", "\x1f", "\x7f", "\u0080", "\u009f", " ",
	"'", `"`, "''", "é", "€", "😀", "ß",
	"a", "Z", "0", "7", "8", " ", "x", "C:", "keys", ".pem", "-", "/", "%", "_", "--", ";",
}

// invalidUTF8 pieces: only for the value-level ops (a statement text with such bytes never reaches the coder:
// pg_query's protobuf result is rejected as invalid UTF-8).
var litBadUTF8 = []string{"\xff", "\xc0", "\x80", "\xc3", "\xe2\x82", "\xf0\x9f\x98", "\xed\xa0\x80", "\x00"}

// genLitText assembles a literal text of n tokens; trailing: end it with a lone backslash.
func genLitText(rd *core.Rand, n int, badUTF8 bool, trailing bool) []byte {
	var b []byte
	for i := 0; i < n; i++ {
		if badUTF8 && rd.Chance(15) {
			b = append(b, core.Pick(rd, litBadUTF8)...)
			continue
		}
		b = append(b, core.Pick(rd, litTokens)...)
	}
	if trailing {
		b = append(b, '\\')
	}
	return b
}

// refDecodeOctal is an independent reading of utils.DecodeOctal (rune level), used only to compute what the
// owner must read back for a generated literal; nil = ErrDecodeOctalString.
func refDecodeOctal(text []byte) ([]byte, bool) {
	rs := []rune(string(text))
	var out []byte
	for i := 0; i < len(rs); i++ {
		ch := rs[i]
		if unicode.IsControl(ch) {
			return nil, false
		}
		if ch != '\\' {
			out = utf8.AppendRune(out, ch)
			continue
		}
		if i+1 >= len(rs) {
			return nil, false
		}
		if rs[i+1] == '\\' {
			out = append(out, '\\')
			i++
			continue
		}
		if i+3 >= len(rs) {
			return nil, false
		}
		v := 0
		for j := 1; j <= 3; j++ {
			d := rs[i+j]
			if d < '0' || d > '7' {
				return nil, false
			}
			v = v*8 + int(d-'0')
		}
		out = append(out, byte(v))
		i += 3
	}
	return out, true
}

// refLitValue: the bytes a string literal of a protected column WITHOUT text data type stands for, as the property
// reads Acra's contract: valid bytea hex / escape text is decoded, anything else is taken as it is.
// hexErr: `\x` followed by invalid hex – the coder returns an error (fail-open, not generated in sessions).
func refLitValue(text []byte) (val []byte, hexErr bool) {
	if len(text) >= 2 && text[0] == '\\' && text[1] == 'x' {
		h := text[2:]
		if len(h)%2 != 0 {
			return nil, true
		}
		out := make([]byte, 0, len(h)/2)
		for i := 0; i < len(h); i += 2 {
			hi, lo := strings.IndexByte("0123456789abcdef", lower(h[i])), strings.IndexByte("0123456789abcdef", lower(h[i+1]))
			if hi < 0 || lo < 0 {
				return nil, true
			}
			out = append(out, byte(hi<<4|lo))
		}
		return out, false
	}
	if dec, ok := refDecodeOctal(text); ok {
		return dec, false
	}
	return append([]byte{}, text...), false
}

func lower(c byte) byte {
	if c >= 'A' && c <= 'F' {
		return c + 32
	}
	return c
}

// litOps: value-level correspondence and oracle for the literal coders, over every position class.
func litOps(r *core.Run) {
	rd := r.Rand
	n := r.N(260, 6000)
	for i := 0; i < n; i++ {
		var text []byte
		switch x := rd.Intn(100); {
		case x < 55:
			text = genLitText(rd, 1+rd.Intn(6), false, rd.Chance(12))
		case x < 75:
			text = genLitText(rd, 1+rd.Intn(6), true, rd.Chance(12))
		case x < 85: // hex literals, valid and broken
			text = []byte(`\x` + strings.Repeat("4a", rd.Intn(4)))
			if rd.Bool() {
				text = append(text, genLitText(rd, 1, false, false)...)
			}
		case x < 93: // valid escape text of random bytes
			text = escapeBytea(rd.Bytes(rd.Intn(8)))
		default:
			text = nil
			if rd.Bool() {
				text = []byte(`\x`)
			}
		}
		// a marker inside, as in the sessions
		if len(text) > 0 && rd.Chance(50) && !bytes.HasPrefix(text, []byte(`\x`)) {
			k := rd.Intn(len(text) + 1)
			for k > 0 && k < len(text) && !utf8.RuneStart(text[k]) {
				k--
			}
			text = append(append(append([]byte{}, text[:k]...), marker(rd, true)...), text[k:]...)
		}
		h := core.Hex(text)
		r.Begin("lit-"+h, true, "case:literal-coder", litClass(text))
		r.Do("C04.escapedgo " + h)
		for _, dt := range []string{"none", "bytes", "str"} {
			out := r.Do(fmt.Sprintf("C04.litdecode %s %s", dt, h))
			// ORACLE (write_never_plain for every literal text): a non-empty literal that does not denote the empty
			// byte string reaches the chain as a NON-EMPTY value (the chain skips empty values: the statement would be
			// forwarded with the literal in clear)
			if out == "ok -" {
				denotesEmpty := len(text) == 0 || (dt != "str" && string(text) == `\x`)
				r.Check(denotesEmpty, "literal-value-lost", fmt.Sprintf("PgQueryDBDataCoder.Decode (data_type %s) hands the encryption chain an EMPTY value for the literal text %q: the chain skips empty values, the literal is forwarded in clear", dt, text))
			}
			if strings.HasPrefix(out, "ok ") && dt != "str" && utf8.Valid(text) {
				want, hexErr := refLitValue(text)
				if !hexErr {
					r.Check(out == "ok "+core.Hex(want), "literal-value-lost", fmt.Sprintf("PgQueryDBDataCoder.Decode (data_type %s) of literal text %q: chain receives %s, the literal stands for %x", dt, text, out, want))
				}
			}
		}
		r.Do("C04.mylitdecode str " + h)
		if rd.Chance(30) {
			r.Do("C04.mylitdecode int " + h)
			r.Do("C04.mylitdecode hexval " + core.Hex([]byte(strings.TrimPrefix(string(text), `\x`))))
			r.Do("C04.mylitdecode hexnum " + core.Hex([]byte("0x"+strings.TrimPrefix(string(text), `\x`))))
		}
	}
}

func litClass(text []byte) string {
	switch {
	case len(text) == 0:
		return "lit:empty"
	case bytes.HasPrefix(text, []byte(`\x`)):
		return "lit:hex-prefix"
	case !utf8.Valid(text):
		return "lit:invalid-utf8"
	}
	if _, ok := refDecodeOctal(text); ok {
		if bytes.IndexByte(text, '\\') >= 0 {
			return "lit:valid-escape"
		}
		return "lit:plain-text"
	}
	return "lit:not-escape-text"
}
