package c04

import (
	"context"
	crand "crypto/rand"
	"errors"
	"net"
	"sync"
	"time"

	acracensor "github.com/cossacklabs/acra/acra-censor"
	"github.com/cossacklabs/acra/decryptor/base"
	"github.com/cossacklabs/acra/decryptor/postgresql"
	"github.com/cossacklabs/acra/encryptor/base/config"
	"github.com/cossacklabs/acra/poison"
	"github.com/cossacklabs/acra/pseudonymization"
	"github.com/cossacklabs/acra/pseudonymization/storage"
	"github.com/cossacklabs/acra/sqlparser"

	"verifharness/internal/c04/fakepg"
	env "verifharness/internal/envops"
)

// ---- deterministic crypto/rand for a whole world (all sessions of one case) ----

// stream is a crypto/rand replacement that hands out a fixed byte string and remembers how far it got.
type stream struct {
	mu   sync.Mutex
	data []byte
	pos  int
}

func (s *stream) Read(p []byte) (int, error) {
	s.mu.Lock()
	defer s.mu.Unlock()
	if s.pos+len(p) > len(s.data) {
		return 0, errors.New("verif: random stream exhausted")
	}
	copy(p, s.data[s.pos:])
	s.pos += len(p)
	return len(p), nil
}

func (s *stream) Pos() int {
	s.mu.Lock()
	defer s.mu.Unlock()
	return s.pos
}

// Worlds nest (a stateless op run in the middle of a session builds its own world): crypto/rand.Reader is
// swapped on creation and restored on Close; the harness drives one world at a time from one goroutine.

// session is the harness' base.ClientSession: the same holder of connections, context and
// per-session data as cmd/acra-server/common.ClientSession (which can only dial TCP).
type session struct {
	mu     sync.RWMutex
	client net.Conn
	db     net.Conn
	ctx    context.Context
	state  interface{}
	data   map[string]interface{}
}

func (s *session) Context() context.Context         { return s.ctx }
func (s *session) ClientConnection() net.Conn       { return s.client }
func (s *session) DatabaseConnection() net.Conn     { return s.db }
func (s *session) ProtocolState() interface{}       { return s.state }
func (s *session) SetProtocolState(st interface{})  { s.state = st }
func (s *session) SetData(k string, v interface{})  { s.mu.Lock(); s.data[k] = v; s.mu.Unlock() }
func (s *session) DeleteData(k string)              { s.mu.Lock(); delete(s.data, k); s.mu.Unlock() }
func (s *session) GetData(k string) (interface{}, bool) {
	s.mu.RLock()
	defer s.mu.RUnlock()
	v, ok := s.data[k]
	return v, ok
}
func (s *session) HasData(k string) bool { _, ok := s.GetData(k); return ok }

// World is one case: key store, schema store, fake database, random stream.
type World struct {
	KS      *env.TKS
	Store   config.TableSchemaStore
	DB      *fakepg.DB
	Rnd     *stream
	factory base.ProxyFactory
	oldRand interface{ Read([]byte) (int, error) }
	sess    []*Sess
}

// NewWorld builds the real proxy factory over the given encryptor config (YAML), key views and
// database tables. It must be Closed (it holds the process-wide crypto/rand lock).
func NewWorld(yaml string, ks *env.TKS, tables []fakepg.TableDef, rnd []byte) (*World, error) {
	store, err := config.MapTableSchemaStoreFromConfig([]byte(yaml), config.UsePostgreSQL)
	if err != nil {
		return nil, err
	}
	tokenStorage, err := storage.NewMemoryTokenStorage()
	if err != nil {
		return nil, err
	}
	tokenizer, err := pseudonymization.NewPseudoanonymizer(tokenStorage)
	if err != nil {
		return nil, err
	}
	setting := base.NewProxySetting(sqlparser.New(sqlparser.ModeDefault), store, ks, nil, acracensor.NewAcraCensor(), poison.NewCallbackStorage())
	factory, err := postgresql.NewProxyFactory(setting, ks, tokenizer)
	if err != nil {
		return nil, err
	}
	w := &World{KS: ks, Store: store, DB: fakepg.NewDB(tables), Rnd: &stream{data: rnd}, factory: factory, oldRand: crand.Reader}
	crand.Reader = w.Rnd
	return w, nil
}

func (w *World) Close() {
	for _, s := range w.sess {
		s.Close()
	}
	crand.Reader = w.oldRand
}

// Sess is one client connection through the real proxy to the fake database.
type Sess struct {
	C      *fakepg.Client
	Proxy  base.Proxy
	errCh  chan base.ProxyError
	conns  []net.Conn
	closed bool
	done   sync.WaitGroup
	Panic  interface{}
}

// newProxy builds the proxy of one client connection: what SServer.handleClientSession does before it
// starts the two goroutines.
func (w *World) newProxy(clientID string) (base.Proxy, context.Context, error) {
	c1, c2 := net.Pipe()
	d1, d2 := net.Pipe()
	cs := &session{client: c2, db: d1, data: map[string]interface{}{}}
	_, _ = c1, d2
	return w.proxyFor(clientID, cs)
}

func (w *World) proxyFor(clientID string, cs *session) (base.Proxy, context.Context, error) {
	ctx := base.SetClientSessionToContext(context.Background(), cs)
	cs.ctx = ctx
	proxy, err := w.factory.New([]byte(clientID), cs)
	if err != nil {
		return nil, nil, err
	}
	accessContext := base.NewAccessContext(base.WithClientID([]byte(clientID)))
	proxy.AddClientIDObserver(accessContext)
	cs.ctx = base.SetAccessContextToContext(cs.ctx, accessContext)
	return proxy, cs.ctx, nil
}

// Open connects a new client with the given client id: what SServer.handleClientSession does, with
// net.Pipe instead of TCP.
func (w *World) Open(clientID string) (*Sess, error) {
	c1, c2 := net.Pipe() // client <-> proxy
	d1, d2 := net.Pipe() // proxy <-> database
	cs := &session{client: c2, db: d1, data: map[string]interface{}{}}
	proxy, _, err := w.proxyFor(clientID, cs)
	if err != nil {
		return nil, err
	}
	s := &Sess{C: fakepg.NewClient(c1), Proxy: proxy, errCh: make(chan base.ProxyError, 4), conns: []net.Conn{c1, c2, d1, d2}}
	go w.DB.Serve(d2)
	run := func(f func(context.Context, chan<- base.ProxyError)) {
		s.done.Add(1)
		go func() {
			defer s.done.Done()
			defer func() {
				if r := recover(); r != nil {
					// SServer.recoverConnection: log and close the session
					s.Panic = r
					for _, c := range s.conns {
						c.Close()
					}
				}
			}()
			f(cs.ctx, s.errCh)
		}()
	}
	run(proxy.ProxyClientConnection)
	run(proxy.ProxyDatabaseConnection)
	w.sess = append(w.sess, s)
	if err := s.C.Startup(); err != nil {
		return s, err
	}
	return s, nil
}

func (s *Sess) Close() {
	if s.closed {
		return
	}
	s.closed = true
	for _, c := range s.conns {
		c.Close()
	}
	ch := make(chan struct{})
	go func() { s.done.Wait(); close(ch) }()
	select {
	case <-ch:
	case <-time.After(3 * time.Second):
	}
}
