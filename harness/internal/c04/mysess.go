package c04

import (
	"bytes"
	"fmt"
	"strings"

	"verifharness/internal/c04/fakemy"
	"verifharness/internal/c04/fakepg"
	"verifharness/internal/core"
	env "verifharness/internal/envops"
)

// MySQL sessions through the real proxy (myworld.go): the same generator vocabulary and the same oracles as
// for PostgreSQL – plaintext markers never in database-side packets, the owner reads back the original, the
// key-less client never receives a marker, uncovered traffic byte-identical in both directions – plus the
// stateless correspondence ops C04.myfwd / C04.mybind / C04.myrow against the Lean model of the MySQL chains.

type myParam struct {
	typ  byte
	null bool
	data []byte
}

func myParamsTok(ps []myParam) string {
	var out []string
	for _, p := range ps {
		if p.null {
			out = append(out, fmt.Sprintf("%02xZ", p.typ))
		} else {
			out = append(out, fmt.Sprintf("%02x%s", p.typ, core.Hex(p.data)))
		}
	}
	return orNone(out, ",")
}

func parseMyParamsTok(tok string) []myParam {
	var out []myParam
	for _, p := range splitTok(tok, ",") {
		x := myParam{typ: core.UnHex(p[:2])[0]}
		if p[2:] == "Z" {
			x.null = true
		} else {
			x.data = core.UnHex(p[2:])
		}
		out = append(out, x)
	}
	return out
}

func toClientParams(ps []myParam) []fakemy.Param {
	var out []fakemy.Param
	for _, p := range ps {
		out = append(out, fakemy.Param{Type: p.typ, Null: p.null, Data: p.data})
	}
	return out
}

// modelParamsTok renders the parameters for the model: every MySQL parameter is a binary-format value.
func modelParamsTok(ps []myParam) string {
	var out []string
	for _, p := range ps {
		if p.null {
			out = append(out, "bZ")
		} else {
			out = append(out, "b"+core.Hex(p.data))
		}
	}
	return orNone(out, ",")
}

func myValsTok(vs []fakemy.Val) string {
	var out []string
	for _, v := range vs {
		if v == nil {
			out = append(out, "Z")
		} else {
			out = append(out, "V"+core.Hex(*v))
		}
	}
	return orNone(out, ",")
}

type myCase struct {
	r       *core.Run
	rd      *core.Rand
	sch     Schema
	kv      *env.KV
	w       *MyWorld
	a, bob  *MySess
	shadow  map[string][]*shadowRow
	nextID  int
	secrets [][]byte
	key     string
	// typedPH: placeholder indices (0-based) an earlier prepared INSERT/UPDATE of this session bound to a column
	// with data_type – the proxy keeps those settings for the rest of the session (known finding my-paramdef-stale-settings)
	typedPH map[int]bool
}

// packetsOf splits a byte stream into MySQL packets (header included).
func packetsOf(b []byte) [][]byte {
	var out [][]byte
	for len(b) >= 4 {
		n := 4 + int(b[0]) | int(b[1])<<8 | int(b[2])<<16
		n = 4 + (int(b[0]) | int(b[1])<<8 | int(b[2])<<16)
		if n > len(b) {
			break
		}
		out = append(out, b[:n])
		b = b[n:]
	}
	return out
}

// onlyStaleParamDefs: the two streams (response to COM_STMT_PREPARE + COM_STMT_EXECUTE) differ only in definitions
// of parameters whose index carries the setting of an earlier statement.
func (cs *myCase) onlyStaleParamDefs(client, db []byte, nparams int) bool {
	a, b := packetsOf(client), packetsOf(db)
	if len(a) != len(b) {
		return false
	}
	diff := false
	for i := range a {
		if bytes.Equal(a[i], b[i]) {
			continue
		}
		if i < 1 || i > nparams || !cs.typedPH[i-1] {
			return false
		}
		diff = true
	}
	return diff
}

func (cs *myCase) scanSecrets(what string, class string) bool {
	in := cs.w.DB.In.Bytes()
	for _, v := range cs.secrets {
		if len(v) < 8 {
			continue
		}
		for fi, f := range Forms(v) {
			if bytes.Contains(in, f) {
				cs.r.Fail(class, fmt.Sprintf("%s: plaintext %x written to a protected column reached the MySQL database (form %d)", what, v, fi))
				return false
			}
		}
	}
	return true
}

// myPlan: a value for a column with its literal and parameter representations.
type myPlan struct {
	col   *Col
	plain []byte
	null  bool
	lit   Cell
	par   myParam
}

func (cs *myCase) planCell(c *Col, id int) myPlan {
	rd := cs.rd
	p := myPlan{col: c}
	if c.Name == "id" {
		s := fmt.Sprint(id)
		p.plain = []byte(s)
		p.lit = Cell{K: 'N', B: []byte(s)}
		p.par = myParam{typ: core.Pick(rd, []byte{fakemy.TypeLong, fakemy.TypeLongLong, fakemy.TypeVarString}), data: []byte(s)}
		return p
	}
	if rd.Chance(8) {
		p.null = true
		p.lit = Cell{K: 'Z'}
		p.par = myParam{typ: core.Pick(rd, []byte{fakemy.TypeNull, fakemy.TypeVarString}), null: true}
		return p
	}
	textual := c.Type == fakepg.Text || (c.Set != nil && c.Set.DType == "str")
	v := marker(rd, textual)
	if rd.Chance(3) {
		v = []byte{}
	}
	p.plain = v
	p.lit = Cell{K: 'L', B: v, Spell: rd.Intn(3)}
	p.par = myParam{typ: core.Pick(rd, []byte{fakemy.TypeVarString, fakemy.TypeBlob, fakemy.TypeString, fakemy.TypeVarchar}), data: v}
	return p
}

func (cs *myCase) begin(st *Stmt, covered bool, tags ...string) {
	cs.r.Begin("my|"+cs.sch.Token()+"|"+st.Token(), covered, tags...)
}

// run sends a statement: COM_QUERY, or COM_STMT_PREPARE + COM_STMT_EXECUTE.
func (cs *myCase) run(s *MySess, sql string, prep bool, params []myParam) (*fakemy.Result, error) {
	if !prep {
		return s.C.Query(sql)
	}
	st, res, err := s.C.Prepare(sql)
	if err != nil {
		return nil, err
	}
	if st == nil {
		return res, nil
	}
	// the statement is not closed: COM_STMT_CLOSE has no response, the byte-identity oracles compare whole exchanges
	return s.C.Execute(st, toClientParams(params), true)
}

// protectedParams: which parameters (0-based) the statement binds to protected columns, in statement order.
func (cs *myCase) protectedParams(st *Stmt) []int {
	var prot []int
	t := cs.sch.tab(st.Table)
	if t == nil || !t.Configured {
		return nil
	}
	seen := map[int]bool{}
	mark := func(col string, c Cell) {
		if cc := t.col(col); cc != nil && cc.Set != nil && c.K == 'P' && !seen[c.N-1] {
			seen[c.N-1] = true
			prot = append(prot, c.N-1)
		}
	}
	switch st.Kind {
	case 'I':
		names := st.Cols
		if len(names) == 0 && !t.NoColumns {
			for _, c := range t.Cols {
				names = append(names, c.Name)
			}
		}
		if !st.SelSrc {
			for _, row := range st.Rows {
				for j, c := range row {
					if j < len(names) {
						mark(names[j], c)
					}
				}
			}
		}
		for j, c := range st.OnDupV {
			mark(st.OnDup[j], c)
		}
	case 'U':
		for j, c := range st.SetV {
			mark(st.Sets[j], c)
		}
	}
	return prot
}

// correspond runs the stateless ops for a written statement (implementation in a fresh world, and the model).
func (cs *myCase) correspond(st *Stmt, prep bool, params []myParam, rnd []byte) {
	r := cs.r
	tok, sch := st.Token(), cs.sch.Token()
	proto := "q"
	if prep {
		proto = "p"
	}
	tail := core.Hex(rnd[:min(len(rnd), 2048)])
	r.Do(fmt.Sprintf("C04.myfwd %s %s %s %s %s", proto, sch, kvToks(cs.kv), tok, tail))
	if prep && len(params) > 0 {
		prot := cs.protectedParams(st)
		base := fmt.Sprintf("C04.mybind %s %s %s %s %s", sch, kvToks(cs.kv), tok, myParamsTok(params), modelParamsTok(params))
		first := fmt.Sprintf("%s %s %s", base, intsTok(prot), tail)
		impl := r.Impl(first)
		line, found := first, len(prot) <= 1
		if len(prot) > 1 && len(prot) <= 5 {
			for _, p := range perms(prot) {
				l := fmt.Sprintf("%s %s %s", base, intsTok(p), tail)
				if r.ModelOnly(l) == impl {
					line, found = l, true
					break
				}
			}
		}
		if found || len(prot) <= 5 {
			r.Diff(line, impl)
		}
	}
}

// write executes a generated INSERT/UPDATE with the write-side oracles.
func (cs *myCase) write(st *Stmt, plans [][]myPlan, covered, prep bool, params []myParam, tags ...string) bool {
	r := cs.r
	cs.begin(st, covered, tags...)
	for _, row := range plans {
		for _, p := range row {
			if !p.null && p.col.Name != "id" && p.col.Set != nil {
				cs.secrets = append(cs.secrets, p.plain)
			}
		}
	}
	sql := st.MySQL()
	p0 := cs.w.Rnd.Pos()
	_, cout0 := cs.a.C.Marks()
	din0 := cs.w.DB.In.Len()
	res, err := cs.run(cs.a, sql, prep, params)
	if err != nil {
		r.Fail("session-broken", fmt.Sprintf("MySQL statement %q (params %s): the session broke: %v (panic: %v)", sql, myParamsTok(params), err, cs.a.panicked()))
		return false
	}
	if res.Err != "" {
		r.Fail("statement-rejected", fmt.Sprintf("MySQL statement %q was rejected after the proxy (%d %s); forwarded: %q", sql, res.ErrCode, res.Err, cs.lastSQL()))
		return false
	}
	cs.correspond(st, prep, params, cs.w.Rnd.data[p0:])
	if prep {
		if t := cs.sch.tab(st.Table); t != nil {
			for _, i := range cs.protectedParams(st) {
				// which column the parameter belongs to: the typed ones leave their setting in the session
				for j, c := range st.SetV {
					if c.K == 'P' && c.N-1 == i {
						if cc := t.col(st.Sets[j]); cc != nil && cc.Set != nil && cc.Set.DType != "none" {
							cs.typedPH[i] = true
						}
					}
				}
				names := st.Cols
				if len(names) == 0 {
					for _, c := range t.Cols {
						names = append(names, c.Name)
					}
				}
				for _, row := range st.Rows {
					for j, c := range row {
						if c.K == 'P' && c.N-1 == i && j < len(names) {
							if cc := t.col(names[j]); cc != nil && cc.Set != nil && cc.Set.DType != "none" {
								cs.typedPH[i] = true
							}
						}
					}
				}
			}
		}
	}
	if t := cs.sch.tab(st.Table); t != nil && !t.Configured {
		_, cout1 := cs.a.C.Marks()
		sent := cs.a.C.Out.Bytes()[cout0:cout1]
		got := cs.w.DB.In.Bytes()[din0:]
		r.Check(bytes.Equal(sent, got), "uncovered-statement-altered", fmt.Sprintf("MySQL statement on an unconfigured table reached the database altered: %q", sql))
	}
	cs.scanSecrets(sql, "plaintext-at-database")
	return true
}

func (cs *myCase) lastSQL() string {
	if n := len(cs.w.DB.Prepares); n > 0 {
		return cs.w.DB.Prepares[n-1]
	}
	if n := len(cs.w.DB.Log); n > 0 {
		return cs.w.DB.Log[n-1]
	}
	return ""
}

func (cs *myCase) doInsert(t *Tab) {
	rd := cs.rd
	st := &Stmt{Kind: 'I', Table: t.Name, Upper: rd.Bool(), Wide: rd.Chance(30)}
	var cols []*Col
	if rd.Chance(65) || (t.Configured && t.NoColumns) {
		var others []*Col
		for i := range t.Cols[1:] {
			if rd.Chance(75) {
				others = append(others, &t.Cols[1+i])
			}
		}
		for i := len(others) - 1; i > 0; i-- {
			j := rd.Intn(i + 1)
			others[i], others[j] = others[j], others[i]
		}
		if rd.Bool() {
			cols = append(append(cols, &t.Cols[0]), others...)
		} else {
			cols = append(append(cols, others...), &t.Cols[0])
		}
		for _, c := range cols {
			st.Cols = append(st.Cols, c.Name)
		}
	} else {
		for i := range t.Cols {
			cols = append(cols, &t.Cols[i])
		}
	}
	prep := rd.Chance(45)
	nrows := 1 + rd.Intn(3)
	var plans [][]myPlan
	var params []myParam
	covered := false
	cell := func(p myPlan) Cell {
		if prep && rd.Chance(70) {
			params = append(params, p.par)
			return Cell{K: 'P', N: len(params)}
		}
		return p.lit
	}
	// ON DUPLICATE KEY UPDATE: a single-row insert that hits an existing id (or not)
	var dup *shadowRow
	onDup := rd.Chance(18)
	if onDup {
		nrows = 1
		if rows := cs.shadow[t.Name]; len(rows) > 0 && rd.Chance(70) {
			dup = core.Pick(rd, rows)
		}
	}
	for i := 0; i < nrows; i++ {
		id := cs.nextID
		if dup != nil {
			id = dup.id
		} else {
			cs.nextID++
		}
		var row []Cell
		var prow []myPlan
		for _, c := range cols {
			p := cs.planCell(c, id)
			prow = append(prow, p)
			covered = covered || (c.Set != nil && !p.null)
			row = append(row, cell(p))
		}
		st.Rows = append(st.Rows, row)
		plans = append(plans, prow)
	}
	var dupPlans []myPlan
	if onDup {
		for _, c := range cols {
			if c.Name == "id" || !rd.Chance(60) {
				continue
			}
			st.OnDup = append(st.OnDup, c.Name)
			if rd.Chance(30) {
				// c = VALUES(c): the value proposed for insertion
				for _, p := range plans[0] {
					if p.col == c {
						dupPlans = append(dupPlans, myPlan{col: c, plain: p.plain, null: p.null})
					}
				}
				st.OnDupV = append(st.OnDupV, Cell{K: 'V'})
				continue
			}
			p := cs.planCell(c, 0)
			covered = covered || (c.Set != nil && !p.null)
			dupPlans = append(dupPlans, p)
			// literals only: placeholders in ON DUPLICATE KEY UPDATE are exercised by the form cases (forms.go)
			st.OnDupV = append(st.OnDupV, p.lit)
		}
		if len(st.OnDup) == 0 {
			if dup != nil {
				return // a plain INSERT of an existing id would be rejected
			}
			onDup = false
		}
	}
	all := append([][]myPlan{}, plans...)
	if len(dupPlans) > 0 {
		all = append(all, dupPlans)
	}
	tags := []string{"stmt:insert", myProtoTag(prep)}
	if onDup {
		tags = append(tags, "form:on-duplicate-key")
	}
	if !cs.write(st, all, covered, prep, params, tags...) {
		return
	}
	if dup != nil {
		for _, p := range dupPlans {
			if p.null {
				delete(dup.vals, p.col.Name)
			} else {
				dup.vals[p.col.Name] = p.plain
			}
		}
		return
	}
	for _, prow := range plans {
		sr := &shadowRow{vals: map[string][]byte{}}
		for _, p := range prow {
			if p.col.Name == "id" {
				sr.id = core.Atoi(string(p.plain))
			}
			if !p.null {
				sr.vals[p.col.Name] = p.plain
			}
		}
		cs.shadow[t.Name] = append(cs.shadow[t.Name], sr)
	}
}

func myProtoTag(prep bool) string {
	if prep {
		return "proto:my-binary"
	}
	return "proto:my-text"
}

func (cs *myCase) doUpdate(t *Tab) {
	rd := cs.rd
	target := core.Pick(rd, cs.shadow[t.Name])
	st := &Stmt{Kind: 'U', Table: t.Name, Upper: rd.Bool(), Wide: rd.Chance(30)}
	if rd.Chance(25) {
		st.Alias = "x"
	}
	st.QualSets = rd.Chance(25)
	prep := rd.Chance(45)
	var params []myParam
	var prow []myPlan
	covered := false
	for i := range t.Cols[1:] {
		c := &t.Cols[1+i]
		if !rd.Chance(60) {
			continue
		}
		p := cs.planCell(c, 0)
		prow = append(prow, p)
		covered = covered || (c.Set != nil && !p.null)
		st.Sets = append(st.Sets, c.Name)
		if prep && rd.Chance(70) {
			params = append(params, p.par)
			st.SetV = append(st.SetV, Cell{K: 'P', N: len(params)})
		} else {
			st.SetV = append(st.SetV, p.lit)
		}
	}
	if len(st.Sets) == 0 {
		return
	}
	idp := cs.planCell(&t.Cols[0], target.id)
	if prep && rd.Bool() {
		params = append(params, idp.par)
		st.Where = &Cell{K: 'P', N: len(params)}
	} else {
		st.Where = &idp.lit
	}
	if !cs.write(st, [][]myPlan{prow}, covered, prep, params, "stmt:update", myProtoTag(prep)) {
		return
	}
	for _, p := range prow {
		if p.null {
			delete(target.vals, p.col.Name)
		} else {
			target.vals[p.col.Name] = p.plain
		}
	}
}

func (cs *myCase) genTargets(t *Tab, alias string) []string {
	rd := cs.rd
	q := t.Name
	if alias != "" {
		q = alias
	}
	switch rd.Intn(4) {
	case 0:
		return []string{"*"}
	case 1:
		return []string{q + ".*"}
	}
	var out []string
	for _, c := range t.Cols {
		if rd.Chance(70) {
			if rd.Chance(35) {
				out = append(out, q+"."+c.Name)
			} else {
				out = append(out, c.Name)
			}
		}
	}
	if rd.Chance(15) {
		out = append(out, "?")
	}
	if len(out) == 0 {
		out = []string{t.Cols[len(t.Cols)-1].Name}
	}
	return out
}

func targetColsOf(t *Tab, items []string) []*Col {
	var out []*Col
	for _, it := range items {
		switch {
		case it == "*" || strings.HasSuffix(it, ".*"):
			for i := range t.Cols {
				out = append(out, &t.Cols[i])
			}
		case it == "?":
			out = append(out, nil)
		default:
			name := it
			if i := strings.IndexByte(it, '.'); i >= 0 {
				name = it[i+1:]
			}
			out = append(out, t.col(name))
		}
	}
	return out
}

// myTypesTok: the column types of a result set as the model needs them (s = length-encoded, i4/i8 = integers).
func myTypesTok(cols []*Col) string {
	var out []string
	for _, c := range cols {
		switch {
		case c == nil:
			out = append(out, "i8")
		case c.Type == fakepg.Int4:
			out = append(out, "i4")
		default:
			out = append(out, "s")
		}
	}
	return orNone(out, ",")
}

func (cs *myCase) doSelect(t *Tab) {
	rd := cs.rd
	st := &Stmt{Kind: 'S', Table: t.Name, Upper: rd.Bool(), Wide: rd.Chance(30)}
	if rd.Chance(30) {
		st.Alias = "y"
	}
	st.Ret = cs.genTargets(t, st.Alias)
	prep := rd.Chance(45)
	var params []myParam
	if rd.Chance(40) {
		target := core.Pick(rd, cs.shadow[t.Name])
		idp := cs.planCell(&t.Cols[0], target.id)
		if prep && rd.Bool() {
			params = append(params, idp.par)
			st.Where = &Cell{K: 'P', N: 1}
		} else {
			st.Where = &idp.lit
		}
	}
	cs.doSelectStmt(t, st, prep, params)
}

func myWhereID(st *Stmt, params []myParam) int {
	if st.Where == nil {
		return -1
	}
	if st.Where.K == 'P' {
		return core.Atoi(string(params[st.Where.N-1].data))
	}
	return core.Atoi(string(st.Where.B))
}

// wireTok: the values of a row as the database put them on the wire, per column (model input).
func wireTok(cols []*Col, row []fakemy.Val, binaryRows bool) string {
	var out []string
	for j, v := range row {
		if v == nil {
			out = append(out, "Z")
			continue
		}
		b := *v
		if binaryRows && j < len(cols) {
			w := 0
			if cols[j] == nil {
				w = 8
			} else if cols[j].Type == fakepg.Int4 {
				w = 4
			}
			if w > 0 {
				n := int64(core.Atoi(string(b)))
				x := make([]byte, w)
				for k := 0; k < w; k++ {
					x[k] = byte(uint64(n) >> (8 * uint(k)))
				}
				b = x
			}
		}
		out = append(out, "V"+core.Hex(b))
	}
	return orNone(out, ",")
}

func (cs *myCase) doSelectStmt(t *Tab, st *Stmt, prep bool, params []myParam) {
	r := cs.r
	cols := targetColsOf(t, st.Ret)
	covered := false
	for _, c := range cols {
		covered = covered || (c != nil && c.Set != nil)
	}
	cs.begin(st, covered, "stmt:select", myProtoTag(prep))
	sql := st.MySQL()
	sent0 := len(cs.w.DB.Sent)
	cin0, cout0 := cs.a.C.Marks()
	din0, dout0 := cs.w.DB.In.Len(), cs.w.DB.Out.Len()
	res, err := cs.run(cs.a, sql, prep, params)
	if err != nil || res.Err != "" {
		r.Fail("session-broken", fmt.Sprintf("MySQL SELECT %q failed through the proxy: %v %v (panic: %v)", sql, err, res, cs.a.panicked()))
		return
	}
	cin1, cout1 := cs.a.C.Marks()
	dout1 := cs.w.DB.Out.Len()
	din1 := cs.w.DB.In.Len()
	// rows: model of the delivery of every row the database sent
	sentRows := cs.w.DB.Sent[sent0:]
	fm := "t"
	if prep {
		fm = "b"
	}
	for i, row := range sentRows {
		if i >= len(res.Wire) {
			break
		}
		line := fmt.Sprintf("C04.myrow %s %s %s %s %s %s", cs.sch.Token(), kvToks(cs.kv), st.Token(), fm, myTypesTok(cols), wireTok(cols, row, prep))
		if i < 2 {
			r.Do(line)
		}
		r.Diff(line, "ok "+myValsTok(res.Wire[i]))
	}
	var expect []*shadowRow
	for _, sr := range cs.shadow[t.Name] {
		if st.Where == nil || myWhereID(st, params) == sr.id {
			expect = append(expect, sr)
		}
	}
	cs.checkRows(t, cols, res, expect, sql, true)
	if !t.Configured {
		// the close of the prepared statement is sent after the marks were taken
		r.Check(bytes.Equal(cs.a.C.Out.Bytes()[cout0:cout1], cs.w.DB.In.Bytes()[din0:din1]), "uncovered-statement-altered", "MySQL SELECT on an unconfigured table reached the database altered: "+sql)
		got, want := cs.a.C.In.Bytes()[cin0:cin1], cs.w.DB.Out.Bytes()[dout0:dout1]
		if !bytes.Equal(got, want) {
			if prep && cs.onlyStaleParamDefs(got, want, len(params)) {
				r.Fail("my-paramdef-stale-settings", "parameter definitions of the COM_STMT_PREPARE response of a statement on an unconfigured table were rewritten with the data_type of an earlier statement's column: "+sql)
			} else {
				r.Fail("uncovered-result-altered", "result of a MySQL SELECT on an unconfigured table came back altered: "+sql)
			}
		}
	}
	// the keyless client never receives a protected plaintext …
	b0, _ := cs.bob.C.Marks()
	bres, err := cs.run(cs.bob, sql, prep, params)
	if err != nil || bres.Err != "" {
		r.Fail("session-broken", fmt.Sprintf("MySQL SELECT %q by the keyless client failed: %v %v (panic: %v)", sql, err, bres, cs.bob.panicked()))
		return
	}
	b1, _ := cs.bob.C.Marks()
	got := cs.bob.C.In.Bytes()[b0:b1]
	for _, v := range cs.secrets {
		if len(v) < 8 {
			continue
		}
		for _, f := range Forms(v) {
			if bytes.Contains(got, f) {
				r.Fail("plaintext-to-keyless-client", fmt.Sprintf("MySQL client without keys received plaintext %x of a protected column: %s", v, sql))
				break
			}
		}
	}
	// … and uncovered columns reach it unchanged
	cs.checkRows(t, cols, bres, expect, sql, false)
}

// checkRows: owner – every column equals what was written; keyless client – the uncovered columns do.
func (cs *myCase) checkRows(t *Tab, cols []*Col, res *fakemy.Result, expect []*shadowRow, sql string, owner bool) {
	r := cs.r
	who := "owner"
	if !owner {
		who = "keyless client"
	}
	if !r.Check(len(res.Rows) == len(expect), "row-count", fmt.Sprintf("%s: expected %d rows, %s got %d", sql, len(expect), who, len(res.Rows))) {
		return
	}
	for i, sr := range expect {
		row := res.Rows[i]
		if !r.Check(len(row) == len(cols), "column-count", fmt.Sprintf("%s: expected %d columns, got %d", sql, len(cols), len(row))) {
			return
		}
		for j, c := range cols {
			if c == nil || (!owner && c.Set != nil) {
				continue
			}
			class := "uncovered-column-altered"
			if c.Set != nil {
				class = "owner-read-mismatch"
			}
			want, ok := sr.vals[c.Name]
			if !ok {
				r.Check(row[j] == nil, class, fmt.Sprintf("%s: column %s expected NULL (%s)", sql, c.Name, who))
				continue
			}
			if row[j] == nil {
				r.Fail(class, fmt.Sprintf("%s: column %s came back NULL, wrote %x (%s)", sql, c.Name, want, who))
				continue
			}
			r.Check(bytes.Equal(*row[j], want), class, fmt.Sprintf("%s: column %s.%s wrote %x, %s read %x", sql, t.Name, c.Name, want, who, *row[j]))
		}
	}
}

func mySessionCase(r *core.Run, idx int) {
	rd := r.Rand
	cs := &myCase{r: r, rd: rd, sch: genSchema(rd), shadow: map[string][]*shadowRow{}, nextID: 1, typedPH: map[int]bool{}}
	cs.kv = env.NewKV(rd, 1, 1)
	ks := &env.TKS{Clients: map[string]*env.KV{"alice": cs.kv}}
	w, err := NewMyWorld(cs.sch.YAML(), ks, cs.sch.MyDefs(), rd.Bytes(1<<15))
	if err != nil {
		panic("harness: " + err.Error() + "\n" + cs.sch.YAML())
	}
	cs.w = w
	defer w.Close()
	cs.key = fmt.Sprintf("mysess-%d", idx)
	if cs.a, err = w.Open("alice", 0); err != nil {
		panic("harness: open " + err.Error())
	}
	if cs.bob, err = w.Open("bob", 0); err != nil {
		panic("harness: open " + err.Error())
	}
	nst := 1 + rd.Intn(12)
	for k := 0; k < nst; k++ {
		t := core.Pick(rd, cs.sch)
		switch x := rd.Intn(100); {
		case x < 45 || len(cs.shadow[t.Name]) == 0:
			cs.doInsert(t)
		case x < 60:
			cs.doUpdate(t)
		default:
			cs.doSelect(t)
		}
		if !r.Thorough() && len(r.Failures) > 3 {
			break
		}
	}
	for _, t := range cs.sch {
		if len(cs.shadow[t.Name]) > 0 {
			cs.doSelectStmt(t, &Stmt{Kind: 'S', Table: t.Name, Ret: []string{"*"}}, rd.Bool(), nil)
		}
	}
	cs.scanSecrets("end of MySQL session", "plaintext-at-database")
	for _, n := range cs.w.DB.Notes {
		r.Note("fakemy: " + n)
	}
}
