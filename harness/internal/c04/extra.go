package c04

import (
	"bufio"
	"bytes"
	"context"
	"fmt"
	"io"
	"strings"
	"time"
	"unicode/utf8"

	"github.com/jackc/pgx/v5/pgproto3"
	"github.com/sirupsen/logrus"

	"github.com/cossacklabs/acra/decryptor/postgresql"
	"github.com/cossacklabs/acra/utils"

	"verifharness/internal/c04/fakemy"
	"verifharness/internal/c04/fakepg"
	"verifharness/internal/core"
	env "verifharness/internal/envops"
)

func init() {
	// escaped <data> → utils.DecodeEscaped
	core.Register("C04.escaped", func(a []string) string {
		in := core.UnHex(a[0])
		out, err := utils.DecodeEscaped(append([]byte{}, in...))
		if err == utils.ErrDecodeOctalString {
			return "octalerr"
		}
		if err != nil {
			return "hexerr"
		}
		return "ok " + core.Hex(out)
	})
	core.Register("C04.utf8", func(a []string) string { return fmt.Sprint(utils.IsPrintablePostgresqlString(core.UnHex(a[0])) && (len(core.UnHex(a[0])) == 0 || utf8.Valid(core.UnHex(a[0])))) })

	// pending <events>: the protocol-state machine of a real PgProxy driven packet by packet (no goroutines)
	core.Register("C04.pending", func(a []string) string {
		sch := Schema{}
		ks := &env.TKS{Clients: map[string]*env.KV{}}
		w, err := NewWorld(sch.YAML(), ks, nil, nil)
		if err != nil {
			panic("harness: " + err.Error())
		}
		defer w.Close()
		px, ctx := w.bareProxy("alice")
		logger := logrus.NewEntry(logrus.StandardLogger())
		var out []string
		binds := 0
		describe := func() string {
			var q []string
			for _, e := range px.VerifPendingQueries() {
				q = append(q, pendingName(e))
			}
			return orNone(q, ",")
		}
		for _, ev := range splitTok(a[0], ",") {
			var fm pgproto3.FrontendMessage
			var bm pgproto3.BackendMessage
			arg := ev[1:]
			name := func(s string) string {
				if s == "~" {
					return ""
				}
				return s
			}
			switch ev[0] {
			case 'q':
				fm = &pgproto3.Query{String: "select " + arg}
			case 'p':
				kv := strings.SplitN(arg, "=", 2)
				fm = &pgproto3.Parse{Name: name(kv[0]), Query: "select " + kv[1]}
			case 'b':
				kv := strings.SplitN(arg, "=", 2)
				fm = &pgproto3.Bind{DestinationPortal: name(kv[0]), PreparedStatement: name(kv[1]), ResultFormatCodes: make([]int16, binds)}
			case 'e':
				fm = &pgproto3.Execute{Portal: name(arg)}
			case 's':
				fm = &pgproto3.Sync{}
			case 'o':
				fm = &pgproto3.Flush{}
			case 'D':
				bm = &pgproto3.DataRow{Values: [][]byte{[]byte("x")}}
			case 'C':
				bm = &pgproto3.CommandComplete{CommandTag: []byte("SELECT 1")}
			case 'S':
				bm = &pgproto3.PortalSuspended{}
			case 'E':
				bm = &pgproto3.ErrorResponse{Severity: "ERROR", Code: "XX000", Message: "m"}
			case 'Z':
				bm = &pgproto3.ReadyForQuery{TxStatus: 'I'}
			case 'O':
				bm = &pgproto3.ParseComplete{}
			default:
				panic("harness: bad event " + ev)
			}
			if fm != nil {
				raw, _ := fm.Encode(nil)
				ph, _ := postgresql.NewClientSidePacketHandler(bytes.NewReader(raw), bufio.NewWriter(io.Discard), logger)
				ph.SetStarted()
				if err := ph.ReadClientPacket(); err != nil {
					panic("harness: " + err.Error())
				}
				if _, err := px.VerifHandleClientPacket(ctx, ph, logger); err != nil {
					out = append(out, "closed")
					return strings.Join(out, "|")
				}
				if ev[0] == 'b' {
					binds++
				}
				out = append(out, describe())
				continue
			}
			raw, _ := bm.Encode(nil)
			ph, _ := postgresql.NewDbSidePacketHandler(bytes.NewReader(raw), bufio.NewWriter(io.Discard), logger)
			if err := ph.ReadPacket(); err != nil {
				panic("harness: " + err.Error())
			}
			if ev[0] == 'D' {
				q := px.VerifPendingQueries()
				if len(q) > 0 && q[0] != "sync" {
					out = append(out, "row:"+pendingName(q[0]))
				} else {
					out = append(out, "row:none")
				}
				if err := px.VerifHandleDatabasePacket(ctx, ph, logger); err != nil {
					out = append(out, "closed")
					return strings.Join(out, "|")
				}
				continue
			}
			if err := px.VerifHandleDatabasePacket(ctx, ph, logger); err != nil {
				out = append(out, "closed")
				return strings.Join(out, "|")
			}
			out = append(out, describe())
		}
		return strings.Join(out, "|")
	})
}

func pendingName(e string) string {
	switch {
	case e == "sync":
		return "sync"
	case strings.HasPrefix(e, "simple:select "):
		return "simple" + strings.TrimPrefix(e, "simple:select ")
	case strings.HasPrefix(e, "ext:select "):
		f := strings.Split(strings.TrimPrefix(e, "ext:select "), ":")
		return "ext" + f[0] + "." + f[1]
	}
	return "?" + e
}

// bareProxy creates a proxy object for a client without running its goroutines.
func (w *World) bareProxy(clientID string) (*postgresql.PgProxy, context.Context) {
	s, ctx, err := w.newProxy(clientID)
	if err != nil {
		panic("harness: " + err.Error())
	}
	return s.(*postgresql.PgProxy), ctx
}

// ---- value-level ops ----

func valueOps(r *core.Run) {
	rd := r.Rand
	n := r.N(150, 4000)
	alphabet := []byte(`\\\\xX0123456789abcdefABCDEFgz '"` + "\n\t\x00\x7f\x80\xc3\xa9\xe2\x82\xac\xf0\x9f\x98\x80\xff\xc0")
	for i := 0; i < n; i++ {
		l := rd.Intn(14)
		b := make([]byte, l)
		for j := range b {
			b[j] = alphabet[rd.Intn(len(alphabet))]
		}
		switch rd.Intn(4) {
		case 0:
			b = append([]byte("\\x"), b...)
		case 1:
			b = escapeBytea(rd.Bytes(rd.Intn(10)))
		}
		r.Begin("esc-"+core.Hex(b), true, "case:codec")
		// the model is byte-level: only inputs that are valid UTF-8 without C1 controls are in its domain
		if utf8.Valid(b) && !hasC1(b) {
			r.Do("C04.escaped " + core.Hex(b))
		}
		r.Do("C04.utf8 " + core.Hex(b))
	}
	// serialized containers through the bytea text decoder (the binary-format path of a column without
	// data type, Lean `decodeEscaped_protect`): containers are not valid UTF-8, yet model and code agree –
	// both stop at the control byte in the length field – and the outcome is ErrDecodeOctalString
	for i := 0; i < r.N(30, 600); i++ {
		kv := env.NewKV(rd, 1, 1)
		m := rd.Bytes(1 + rd.Intn(300))
		kind := core.Pick(rd, []string{"struct", "block"})
		r.Begin("esc-container-"+core.Hex(m[:min(len(m), 12)]), true, "case:codec-container")
		p, ok := env.Protect(r, kind, kv, m)
		if !ok {
			continue
		}
		out := r.Do("C04.escaped " + core.Hex(p))
		r.Check(out == "octalerr", "container-decoded-as-bytea-text", fmt.Sprintf("DecodeEscaped accepted a serialized container (%s): the binary path of an untyped column would hand the detector other bytes than stored", out))
	}
}

func hasC1(b []byte) bool {
	for _, c := range string(b) {
		if c >= 0x80 && c <= 0x9f {
			return true
		}
	}
	return false
}

// ---- protocol-state scripts ----

func pendingOps(r *core.Run) {
	rd := r.Rand
	n := r.N(120, 3000)
	names := []string{"~", "s1", "s2"}
	for i := 0; i < n; i++ {
		var evs []string
		stmts := map[string]bool{}
		portals := map[string]bool{}
		// database responses are generated by a little conforming backend so that the scripts are realistic
		// (pipelining: the client may be ahead of the database by any number of messages)
		type req struct {
			kind byte // 'q' query, 'e' execute, 's' sync, 'f' failing non-exec message
		}
		var dbq []req
		skipping := false
		id := 0
		steps := 3 + rd.Intn(25)
		drain := func(all bool) {
			for len(dbq) > 0 && (all || rd.Chance(50)) {
				x := dbq[0]
				dbq = dbq[1:]
				switch x.kind {
				case 's':
					evs = append(evs, "Z")
					skipping = false
				case 'q':
					if rd.Chance(20) {
						evs = append(evs, "E")
					} else {
						for k := rd.Intn(3); k > 0; k-- {
							evs = append(evs, "D")
						}
						evs = append(evs, "C")
						if rd.Chance(10) { // multi-statement simple query: a second result
							evs = append(evs, "D", "C")
						}
					}
					evs = append(evs, "Z")
				case 'e':
					if skipping {
						continue
					}
					if rd.Chance(20) {
						evs = append(evs, "E")
						skipping = true
					} else {
						for k := rd.Intn(3); k > 0; k-- {
							evs = append(evs, "D")
						}
						if rd.Chance(30) {
							evs = append(evs, "D", "S") // row-limited Execute: the portal is left suspended
						} else {
							evs = append(evs, "C")
						}
					}
				case 'f':
					if !skipping {
						evs = append(evs, "E")
						skipping = true
					}
				case 'o':
					if !skipping {
						evs = append(evs, "O")
					}
				}
			}
		}
		for k := 0; k < steps; k++ {
			switch x := rd.Intn(100); {
			case x < 20:
				id++
				evs = append(evs, fmt.Sprintf("q%d", id))
				dbq = append(dbq, req{'q'})
			case x < 40:
				id++
				nme := core.Pick(rd, names)
				evs = append(evs, fmt.Sprintf("p%s=%d", nme, id))
				stmts[nme] = true
				if rd.Chance(10) {
					dbq = append(dbq, req{'f'})
				} else {
					dbq = append(dbq, req{'o'})
				}
			case x < 60:
				st := core.Pick(rd, names)
				if !stmts[st] && rd.Chance(90) {
					continue
				}
				po := core.Pick(rd, names)
				evs = append(evs, fmt.Sprintf("b%s=%s", po, st))
				if stmts[st] {
					portals[po] = true
				}
				dbq = append(dbq, req{'o'})
			case x < 80:
				po := core.Pick(rd, names)
				if !portals[po] && rd.Chance(90) {
					continue
				}
				evs = append(evs, "e"+po)
				dbq = append(dbq, req{'e'})
			case x < 92:
				evs = append(evs, "s")
				dbq = append(dbq, req{'s'})
			default:
				evs = append(evs, "o")
			}
			drain(false)
		}
		evs = append(evs, "s")
		dbq = append(dbq, req{'s'})
		drain(true)
		line := "C04.pending " + strings.Join(evs, ",")
		r.Begin(line, true, "case:protocol-state")
		out := r.Do(line)
		// ORACLE (FIFO alignment): every DataRow of a conforming run is processed with the entry of the
		// statement that produced it or – for the extra results of multi-statement queries – with none;
		// and the queue is empty once the database has answered everything
		if !strings.Contains(out, "closed") {
			parts := strings.Split(out, "|")
			r.Check(parts[len(parts)-1] == "_", "pending-not-empty", "pending queue not empty after the final ReadyForQuery: "+parts[len(parts)-1]+" script "+strings.Join(evs, ","))
		}
	}
}

// ---- regression corpus: the witnesses of the repaired defects, run first on every run ----

const corpusYAML = `
schemas:
  - table: t1
    columns: [id, data, note]
    encrypted:
      - column: data
  - table: t2
    columns: [id, data, note]
    encrypted:
      - column: data
        crypto_envelope: acrastruct
        data_type: str
`

func corpus(r *core.Run) {
	rd := core.NewRand(424242)
	kv := env.NewKV(rd, 1, 1)
	ks := &env.TKS{Clients: map[string]*env.KV{"alice": kv}}
	tabs := []fakepg.TableDef{
		{Name: "t1", Cols: []fakepg.Column{{Name: "id", Type: fakepg.Int4}, {Name: "data", Type: fakepg.Bytea}, {Name: "note", Type: fakepg.Text}}},
		{Name: "t2", Cols: []fakepg.Column{{Name: "id", Type: fakepg.Int4}, {Name: "data", Type: fakepg.Bytea}, {Name: "note", Type: fakepg.Text}}},
	}
	open := func() (*World, *Sess) {
		w, err := NewWorld(corpusYAML, ks, tabs, rd.Bytes(1<<14))
		if err != nil {
			panic("harness: " + err.Error())
		}
		a, err := w.Open("alice")
		if err != nil {
			panic("harness: " + err.Error())
		}
		return w, a
	}
	// 1. text-format parameter with a line break for an encrypted column (fixed: was forwarded in clear)
	{
		r.Begin("corpus-text-param-linebreak", true, "case:corpus")
		w, a := open()
		secret := []byte("line1\nSECRETMARKER01 \\ tail")
		rs, err := a.C.Extended(fakepg.Ext{Parse: true, Name: "s", SQL: "insert into t1 (id, data) values ($1, $2)", Bind: true, Params: [][]byte{[]byte("1"), secret}, Execute: true})
		ok := err == nil && len(rs) > 0 && rs[len(rs)-1].Err == ""
		r.Check(ok, "session-broken", fmt.Sprintf("corpus 1: insert failed: %v", err))
		r.Check(!bytes.Contains(w.DB.In.Bytes(), []byte("SECRETMARKER01")), "plaintext-at-database", "text-format bound parameter containing a line break was forwarded to the database in clear (decryptor/postgresql/prepared_statements.go GetData)")
		if ok {
			rs, err = a.C.Simple("select data from t1 where id = 1")
			good := err == nil && len(rs) == 1 && len(rs[0].Rows) == 1 && rs[0].Rows[0][0] != nil
			if good {
				dec, _ := fakepg.DecodeByteaText(*rs[0].Rows[0][0])
				good = bytes.Equal(dec, secret)
			}
			r.Check(good, "owner-read-mismatch", "corpus 1: the owner does not read back the text parameter with a line break")
		}
		w.Close()
	}
	// 2. literal for an encrypted column inside a prepared statement (fixed: Bind panicked with index -1)
	{
		r.Begin("corpus-literal-in-prepared", true, "case:corpus")
		w, a := open()
		a.C.Simple("insert into t1 (id, data) values (5, 'old')")
		rs, err := a.C.Extended(fakepg.Ext{Parse: true, Name: "s", SQL: "update t1 set data = 'SECRETMARKER02' where id = $1", Bind: true, Params: [][]byte{[]byte("5")}, Execute: true})
		r.Check(err == nil && a.Panic == nil && len(rs) > 0 && rs[len(rs)-1].Tag == "UPDATE 1", "session-broken", fmt.Sprintf("prepared UPDATE with a literal in an encrypted column: Bind handling failed (%v, panic %v)", err, a.Panic))
		rs, err = a.C.Extended(fakepg.Ext{Parse: true, Name: "s2", SQL: "insert into t1 (id, data) values ($1, 'SECRETMARKER03')", Bind: true, Params: [][]byte{[]byte("6")}, Execute: true})
		r.Check(err == nil && a.Panic == nil && len(rs) > 0 && rs[len(rs)-1].Tag == "INSERT 0 1", "session-broken", fmt.Sprintf("prepared INSERT with a literal in an encrypted column: Bind handling failed (%v, panic %v)", err, a.Panic))
		r.Check(!bytes.Contains(w.DB.In.Bytes(), []byte("SECRETMARKER0")), "plaintext-at-database", "corpus 2: literal of a prepared statement reached the database in clear")
		w.Close()
	}
	// 3. error inside a pipelined batch (fixed: stale pending entries shifted every later result)
	{
		r.Begin("corpus-pending-after-batch-error", true, "case:corpus")
		w, a := open()
		a.C.Simple("insert into t2 (id, data, note) values (1, 'TYPEDVALUE0001', 'n')")
		w.DB.FailNext = true
		a.C.Pipeline([]fakepg.Ext{
			{Parse: true, Name: "s1", SQL: "insert into t1 (id, data, note) values ($1, $2, $3)", Bind: true, Params: [][]byte{[]byte("11"), []byte("a"), []byte("x")}, Execute: true, NoSync: true},
			{Bind: true, Name: "s1", Params: [][]byte{[]byte("12"), []byte("b"), []byte("x")}, Execute: true},
		})
		r.Check(len(pendingOf(a)) == 0, "pending-not-empty", fmt.Sprintf("after an error inside a pipelined batch the pending queue keeps entries the database will never answer: %v", pendingOf(a)))
		rs, err := a.C.Simple("select data from t2")
		good := err == nil && len(rs) == 1 && len(rs[0].Rows) == 1 && rs[0].Rows[0][0] != nil && string(*rs[0].Rows[0][0]) == "TYPEDVALUE0001"
		r.Check(good, "owner-read-mismatch", "after an error inside a pipelined batch the next result set is processed with the settings of another statement (text-typed column not delivered as text)")
		w.Close()
	}
	// 4. a pipelining client re-uses the unnamed statement before the results arrive (fixed: the pending entry lost its text)
	{
		r.Begin("corpus-pending-text-after-reparse", true, "case:corpus")
		w, a := open()
		a.C.Simple("insert into t2 (id, data, note) values (1, 'TYPEDVALUE0002', 'n')")
		rs, err := a.C.Pipeline([]fakepg.Ext{
			{Parse: true, SQL: "select data from t2", Bind: true, Execute: true},
			{Parse: true, SQL: "select note from t1", Bind: true, Execute: true},
		})
		good := err == nil && len(rs) >= 1 && len(rs[0].Rows) == 1 && rs[0].Rows[0][0] != nil && string(*rs[0].Rows[0][0]) == "TYPEDVALUE0002"
		r.Check(good, "owner-read-mismatch", "pipelined Parse of the next unnamed statement before the results of the previous Execute: its rows are processed without the settings of their statement")
		w.Close()
	}
	// 5. KNOWN: a text value that starts with \\x but is not hex, in a column the configuration does not cover
	{
		r.Begin("corpus-uncovered-hex-lookalike", true, "case:corpus")
		w, a := open()
		a.C.Timeout = 700 * time.Millisecond
		a.C.Simple("insert into t1 (id, note) values (4, '\\xZZ')")
		rs, err := a.C.Simple("select note from t1 where id = 4")
		good := err == nil && len(rs) == 1 && len(rs[0].Rows) == 1 && rs[0].Rows[0][0] != nil && string(*rs[0].Rows[0][0]) == "\\xZZ"
		r.Check(good, "pg-uncovered-hex-lookalike", "a text value `\\xZZ` in an uncovered column cannot be read through the proxy: the column decoder fails the whole response")
		w.Close()
	}
	// 6. KNOWN: the settings remembered for one statement are applied to the RowDescription of another one
	{
		r.Begin("corpus-rowdescription-stale-settings", true, "case:corpus")
		w, a := open()
		a.C.Simple("insert into t2 (id, data, note) values (1, 'TYPEDVALUE0003', 'n')")
		a.C.Simple("select data from t2")
		rs, err := a.C.Simple("insert into t1 (id, note) values (7, 'n') returning id")
		good := err == nil && len(rs) == 1 && len(rs[0].Fields) == 1 && rs[0].Fields[0].DataTypeOID == 23
		r.Check(good, "rowdescription-stale-settings", "INSERT … RETURNING id right after a SELECT of a text-typed protected column: the int4 column is described as text (type OID of the earlier statement's setting)")
		w.Close()
	}
	// 7. ON CONFLICT … DO UPDATE SET on an encrypted column, literal and parameter (fixed: forwarded in clear)
	{
		r.Begin("corpus-pg-on-conflict", true, "case:corpus")
		w, a := open()
		a.C.Simple("insert into t1 (id, data) values (1, 'old')")
		_, err := a.C.Simple("insert into t1 (id) values (1) on conflict (id) do update set data = 'SECRETMARKER07'")
		rs, err2 := a.C.Extended(fakepg.Ext{Parse: true, Name: "s", SQL: "insert into t1 (id, note) values ($1, 'n') on conflict (id) do update set data = $2", Bind: true, Params: [][]byte{[]byte("1"), []byte("SECRETMARKER08")}, Execute: true})
		r.Check(err == nil && err2 == nil && a.Panic == nil && len(rs) > 0 && rs[len(rs)-1].Err == "", "session-broken", fmt.Sprintf("corpus 7: upsert failed (%v, %v, panic %v)", err, err2, a.Panic))
		r.Check(!bytes.Contains(w.DB.In.Bytes(), []byte("SECRETMARKER0")), "plaintext-at-database", "INSERT … ON CONFLICT (id) DO UPDATE SET data = <value>: the value of the encrypted column reached the database in clear (encryptor/postgresql/queryDataEncryptor.go)")
		rs, err = a.C.Simple("select data from t1 where id = 1")
		good := err == nil && len(rs) == 1 && len(rs[0].Rows) == 1 && rs[0].Rows[0][0] != nil
		if good {
			dec, _ := fakepg.DecodeByteaText(*rs[0].Rows[0][0])
			good = string(dec) == "SECRETMARKER08"
		}
		r.Check(good, "owner-read-mismatch", "corpus 7: the owner does not read back the value assigned by ON CONFLICT DO UPDATE")
		w.Close()
	}
	myTabs := []fakemy.TableDef{
		{Name: "t1", Cols: []fakemy.Column{{Name: "id", Type: fakemy.TypeLong}, {Name: "data", Type: fakemy.TypeBlob}, {Name: "note", Type: fakemy.TypeVarString}}},
		{Name: "t2", Cols: []fakemy.Column{{Name: "id", Type: fakemy.TypeLong}, {Name: "data", Type: fakemy.TypeBlob}, {Name: "note", Type: fakemy.TypeVarString}}},
	}
	myOpen := func() (*MyWorld, *MySess) {
		w, err := NewMyWorld(corpusYAML, ks, myTabs, rd.Bytes(1<<14))
		if err != nil {
			panic("harness: " + err.Error())
		}
		a, err := w.Open("alice", 0)
		if err != nil {
			panic("harness: " + err.Error())
		}
		return w, a
	}
	// 8. MySQL: parameter assigned in ON DUPLICATE KEY UPDATE (fixed: forwarded in clear)
	{
		r.Begin("corpus-my-on-duplicate-parameter", true, "case:corpus")
		w, a := myOpen()
		a.C.Query("insert into t1 (id, data) values (1, 'old')")
		st, _, err := a.C.Prepare("insert into t1 (id, note) values (?, 'n') on duplicate key update data = ?")
		var res *fakemy.Result
		if err == nil && st != nil {
			res, err = a.C.Execute(st, []fakemy.Param{{Type: fakemy.TypeLong, Data: []byte("1")}, {Type: fakemy.TypeVarString, Data: []byte("SECRETMARKER09")}}, true)
		}
		r.Check(err == nil && res != nil && res.Err == "", "session-broken", fmt.Sprintf("corpus 8: prepared upsert failed (%v %v, panic %v)", err, res, a.panicked()))
		r.Check(!bytes.Contains(w.DB.In.Bytes(), []byte("SECRETMARKER09")), "plaintext-at-database", fmt.Sprintf("COM_STMT_EXECUTE parameter assigned in ON DUPLICATE KEY UPDATE to an encrypted column reached the database in clear (encryptor/mysql/queryDataEncryptor.go encryptInsertValues) [prepares %q, notes %v, rnd pos %d]", w.DB.Prepares, w.DB.Notes, w.Rnd.Pos()))
		res, err = a.C.Query("select data from t1 where id = 1")
		r.Check(err == nil && res.Err == "" && len(res.Rows) == 1 && res.Rows[0][0] != nil && string(*res.Rows[0][0]) == "SECRETMARKER09", "owner-read-mismatch", "corpus 8: the owner does not read back the value assigned by ON DUPLICATE KEY UPDATE")
		w.Close()
	}
	// 8b. a command sent the moment the previous response arrives keeps its response handler (fixed: the
	// database-side goroutine reset the handler after writing the response; the COM_STMT_PREPARE_OK was relayed
	// unregistered and the parameters of the COM_STMT_EXECUTE were forwarded in clear – about 1 free-running attempt in 7)
	{
		r.Begin("corpus-my-response-handler-race", true, "case:corpus")
		leaked, broken := 0, 0
		for k := 0; k < 3; k++ {
			// gated schedule: the database-side goroutine is held after each packet it wrote to the client until
			// the client-side goroutine has handled the client's next command – the order in which the defect shows
			w, err := NewMyWorld(corpusYAML, ks, myTabs, rd.Bytes(1<<14))
			if err != nil {
				panic("harness: " + err.Error())
			}
			w.Gated = true
			a, err := w.Open("alice", 0)
			if err != nil {
				panic("harness: " + err.Error())
			}
			a.C.Query("insert into t1 (id, data) values (1, 'old')")
			st, _, err := a.C.Prepare("insert into t1 (id, data) values (?, ?)")
			if err == nil && st != nil {
				_, err = a.C.Execute(st, []fakemy.Param{{Type: fakemy.TypeLong, Data: []byte("2")}, {Type: fakemy.TypeVarString, Data: []byte("SECRETMARKER13")}}, true)
			}
			if err != nil {
				broken++
			}
			if bytes.Contains(w.DB.In.Bytes(), []byte("SECRETMARKER13")) {
				leaked++
			}
			// a result set right after a prepared statement without parameters and columns: relayed by the right handler
			if err == nil {
				if st2, _, err2 := a.C.Prepare("insert into t1 (id, data) values (3, 'x')"); err2 == nil && st2 != nil {
					a.C.Execute(st2, nil, true)
				}
				res, err2 := a.C.Query("select data from t1 where id = 2")
				if err2 != nil || res.Err != "" || len(res.Rows) != 1 || res.Rows[0][0] == nil || string(*res.Rows[0][0]) != "SECRETMARKER13" {
					broken++
				}
			}
			w.Close()
		}
		r.Check(broken == 0, "owner-read-mismatch", fmt.Sprintf("corpus 8b: %d of 3 gated sessions broke or delivered an undecrypted result", broken))
		r.Check(leaked == 0, "plaintext-at-database", fmt.Sprintf("COM_STMT_PREPARE sent right after the response of a COM_QUERY: in %d of 3 gated sessions the statement was not registered and the COM_STMT_EXECUTE parameter of the encrypted column reached the database in clear (decryptor/mysql/response_proxy.go: handler reset after the response was written)", leaked))
	}
	// 8c. a text row whose first column is the empty string (fixed: taken for the end of the result set, the rows
	// were relayed undecrypted)
	{
		r.Begin("corpus-my-text-row-leading-empty", true, "case:corpus")
		w, a := myOpen()
		a.C.Query("insert into t1 (id, data, note) values (1, 'SECRETMARKER14', '')")
		a.C.Query("insert into t1 (id, data, note) values (2, 'SECRETMARKER15', 'x')")
		res, err := a.C.Query("select note, data from t1")
		good := err == nil && res.Err == "" && len(res.Rows) == 2 && res.Rows[0][1] != nil && res.Rows[1][1] != nil &&
			string(*res.Rows[0][1]) == "SECRETMARKER14" && string(*res.Rows[1][1]) == "SECRETMARKER15"
		r.Check(good, "owner-read-mismatch", "select note, data from t1 with note = '' in the first row: the text row that begins with an empty string ends the result set for the proxy, the owner reads ciphertext (decryptor/mysql/response_proxy.go QueryResponseHandler)")
		w.Close()
	}
	// 8d. KNOWN: the placeholder settings of an earlier prepared statement rewrite the parameter definitions of a later one
	{
		r.Begin("corpus-my-paramdef-stale-settings", true, "case:corpus")
		w, a := myOpen()
		st, _, err := a.C.Prepare("insert into t2 (id, data) values (?, ?)")
		if err == nil && st != nil {
			a.C.Execute(st, []fakemy.Param{{Type: fakemy.TypeLong, Data: []byte("1")}, {Type: fakemy.TypeVarString, Data: []byte("TYPEDVALUE0004")}}, true)
		}
		cin0, _ := a.C.Marks()
		dout0 := w.DB.Out.Len()
		_, _, err = a.C.Prepare("select note from t1 where id = ? and note = ?")
		cin1, _ := a.C.Marks()
		r.Check(err == nil && bytes.Equal(a.C.In.Bytes()[cin0:cin1], w.DB.Out.Bytes()[dout0:]), "my-paramdef-stale-settings", "COM_STMT_PREPARE of a statement without protected parameters after a prepared INSERT into a data_type column: the definition of the parameter with the same index comes back rewritten")
		w.Close()
	}
	// 8e. KNOWN: re-execution of a prepared statement without repeating the parameter types
	{
		r.Begin("corpus-my-execute-rebind-flag-0", true, "case:corpus")
		w, a := myOpen()
		st, _, err := a.C.Prepare("insert into t1 (id, data) values (?, ?)")
		ok := false
		if err == nil && st != nil {
			a.C.Execute(st, []fakemy.Param{{Type: fakemy.TypeLong, Data: []byte("1")}, {Type: fakemy.TypeVarString, Data: []byte("SECRETMARKER16")}}, true)
			res, err := a.C.Execute(st, []fakemy.Param{{Type: fakemy.TypeLong, Data: []byte("2")}, {Type: fakemy.TypeVarString, Data: []byte("SECRETMARKER17")}}, false)
			ok = err == nil && res != nil && res.Err == "" && a.panicked() == nil
		}
		r.Check(!bytes.Contains(w.DB.In.Bytes(), []byte("SECRETMARKER1")), "plaintext-at-database", "corpus 8e: re-executed prepared INSERT: plaintext reached the database")
		r.Check(ok, "my-execute-rebind-flag-0", "second COM_STMT_EXECUTE of a prepared INSERT with new_params_bind_flag = 0: the proxy panics on the nil bound values and drops the connection")
		w.Close()
	}
	// 9. KNOWN: INSERT … SELECT is not analysed (both front ends)
	{
		r.Begin("corpus-insert-select", true, "case:corpus")
		w, a := open()
		a.C.Simple("insert into t1 (id, data) select 2, 'SECRETMARKER10'")
		r.Check(!bytes.Contains(w.DB.In.Bytes(), []byte("SECRETMARKER10")), "insert-select-plaintext", "PostgreSQL: insert into t1 (id, data) select 2, '<value>' stores the value of the encrypted column in clear")
		w.Close()
		mw, ma := myOpen()
		ma.C.Query("insert into t1 (id, data) select 2, 'SECRETMARKER11'")
		r.Check(!bytes.Contains(mw.DB.In.Bytes(), []byte("SECRETMARKER11")), "insert-select-plaintext", "MySQL: insert into t1 (id, data) select 2, '<value>' stores the value of the encrypted column in clear")
		mw.Close()
	}
	// 10. KNOWN: PostgreSQL multi-column assignment
	{
		r.Begin("corpus-pg-update-multiassign", true, "case:corpus")
		w, a := open()
		a.C.Simple("insert into t1 (id, data) values (1, 'old')")
		a.C.Simple("update t1 set (data, note) = ('SECRETMARKER12', 'n') where id = 1")
		r.Check(!bytes.Contains(w.DB.In.Bytes(), []byte("SECRETMARKER12")), "pg-update-multiassign-plaintext", "update t1 set (data, note) = ('<value>', 'n') stores the value of the encrypted column in clear")
		w.Close()
	}
}
