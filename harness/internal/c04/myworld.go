package c04

import (
	"context"
	crand "crypto/rand"
	"encoding/hex"
	"fmt"
	"net"
	"strings"
	"sync"
	"time"

	acracensor "github.com/cossacklabs/acra/acra-censor"
	"github.com/cossacklabs/acra/decryptor/base"
	"github.com/cossacklabs/acra/decryptor/mysql"
	"github.com/cossacklabs/acra/encryptor/base/config"
	"github.com/cossacklabs/acra/poison"
	"github.com/cossacklabs/acra/pseudonymization"
	"github.com/cossacklabs/acra/pseudonymization/storage"
	"github.com/cossacklabs/acra/sqlparser"

	"verifharness/internal/c04/fakemy"
	"verifharness/internal/c04/fakepg"
	env "verifharness/internal/envops"
)

// MySQL sessions: the REAL MySQL proxy (decryptor/mysql proxyFactory.New → Handler with both goroutines
// ProxyClientConnection / ProxyDatabaseConnection) over net.Pipe between a fake client and a fake database.

// MyWorld is one case of the MySQL front end: key store, schema store, fake database, random stream.
type MyWorld struct {
	// Gated: a deterministic adversarial schedule for the two proxy goroutines – every packet the proxy writes to
	// the client is delivered, and then the writing (database-side) goroutine is held until the client-side
	// goroutine has forwarded the client's next command (or 25 ms passed)
	Gated   bool
	KS      *env.TKS
	DB      *fakemy.DB
	Rnd     *stream
	factory base.ProxyFactory
	oldRand interface{ Read([]byte) (int, error) }
	sess    []*MySess
}

// myType maps the column types of the shared schema generator to MySQL column types.
func myType(t fakepg.ColType) byte {
	switch t {
	case fakepg.Int4:
		return fakemy.TypeLong
	case fakepg.Text:
		return fakemy.TypeVarString
	}
	return fakemy.TypeBlob
}

func (s Schema) MyDefs() []fakemy.TableDef {
	var out []fakemy.TableDef
	for _, t := range s {
		d := fakemy.TableDef{Name: t.Name}
		for _, c := range t.Cols {
			d.Cols = append(d.Cols, fakemy.Column{Name: c.Name, Type: myType(c.Type)})
		}
		out = append(out, d)
	}
	return out
}

func NewMyWorld(yaml string, ks *env.TKS, tables []fakemy.TableDef, rnd []byte) (*MyWorld, error) {
	store, err := config.MapTableSchemaStoreFromConfig([]byte(yaml), config.UseMySQL)
	if err != nil {
		return nil, err
	}
	tokenStorage, err := storage.NewMemoryTokenStorage()
	if err != nil {
		return nil, err
	}
	tokenizer, err := pseudonymization.NewPseudoanonymizer(tokenStorage)
	if err != nil {
		return nil, err
	}
	setting := base.NewProxySetting(sqlparser.New(sqlparser.ModeDefault), store, ks, nil, acracensor.NewAcraCensor(), poison.NewCallbackStorage())
	factory, err := mysql.NewProxyFactory(setting, ks, tokenizer)
	if err != nil {
		return nil, err
	}
	w := &MyWorld{KS: ks, DB: fakemy.NewDB(tables), Rnd: &stream{data: rnd}, factory: factory, oldRand: crand.Reader}
	crand.Reader = w.Rnd
	return w, nil
}

func (w *MyWorld) Close() {
	for _, s := range w.sess {
		s.Close()
	}
	crand.Reader = w.oldRand
}

// MySess is one client connection through the real MySQL proxy to the fake database.
type MySess struct {
	C      *fakemy.Client
	Proxy  base.Proxy
	errCh  chan base.ProxyError
	conns  []net.Conn
	closed bool
	done   sync.WaitGroup
	mu     sync.Mutex
	Panic  interface{}
}

func (s *MySess) panicked() interface{} {
	s.mu.Lock()
	defer s.mu.Unlock()
	return s.Panic
}

type gate struct{ ch chan struct{} }

// gatedConn is the proxy's connection to the client in a Gated world.
type gatedConn struct {
	net.Conn
	g *gate
}

func (c gatedConn) Write(p []byte) (int, error) {
	n, err := c.Conn.Write(p)
	select {
	case <-c.g.ch:
	case <-time.After(25 * time.Millisecond):
	}
	return n, err
}

// notifyConn is the proxy's connection to the database in a Gated world.
type notifyConn struct {
	net.Conn
	g *gate
}

func (c notifyConn) Write(p []byte) (int, error) {
	select {
	case c.g.ch <- struct{}{}:
	default:
	}
	return c.Conn.Write(p)
}

// Open connects a new client: what SServer.handleClientSession does, with net.Pipe instead of TCP.
func (w *MyWorld) Open(clientID string, caps uint32) (*MySess, error) {
	c1, c2 := net.Pipe() // client <-> proxy
	d1, d2 := net.Pipe() // proxy <-> database
	cs := &session{client: c2, db: d1, data: map[string]interface{}{}}
	if w.Gated {
		g := &gate{ch: make(chan struct{})}
		cs.client, cs.db = gatedConn{c2, g}, notifyConn{d1, g}
	}
	ctx := base.SetClientSessionToContext(context.Background(), cs)
	cs.ctx = ctx
	proxy, err := w.factory.New([]byte(clientID), cs)
	if err != nil {
		return nil, err
	}
	accessContext := base.NewAccessContext(base.WithClientID([]byte(clientID)))
	proxy.AddClientIDObserver(accessContext)
	cs.ctx = base.SetAccessContextToContext(cs.ctx, accessContext)
	s := &MySess{C: fakemy.NewClient(c1), Proxy: proxy, errCh: make(chan base.ProxyError, 4), conns: []net.Conn{c1, c2, d1, d2}}
	if caps != 0 {
		s.C.Caps = caps
	}
	go w.DB.Serve(d2)
	run := func(f func(context.Context, chan<- base.ProxyError)) {
		s.done.Add(1)
		go func() {
			defer s.done.Done()
			defer func() {
				if r := recover(); r != nil {
					// SServer.recoverConnection: log and close the session
					s.mu.Lock()
					s.Panic = r
					s.mu.Unlock()
					for _, c := range s.conns {
						c.Close()
					}
				}
			}()
			f(cs.ctx, s.errCh)
			// the server closes both connections when either direction ends
			for _, c := range s.conns {
				c.Close()
			}
		}()
	}
	run(proxy.ProxyClientConnection)
	run(proxy.ProxyDatabaseConnection)
	w.sess = append(w.sess, s)
	if err := s.C.Handshake(); err != nil {
		return s, err
	}
	return s, nil
}

func (s *MySess) Close() {
	if s.closed {
		return
	}
	s.closed = true
	for _, c := range s.conns {
		c.Close()
	}
	ch := make(chan struct{})
	go func() { s.done.Wait(); close(ch) }()
	select {
	case <-ch:
	case <-time.After(3 * time.Second):
	}
}

// ---- MySQL spelling of generated statements ----

func plainASCII(b []byte) bool {
	for _, c := range b {
		if !(c >= '0' && c <= '9' || c >= 'a' && c <= 'z' || c >= 'A' && c <= 'Z' || c == ' ' || c == '_' || c == '-' || c == '.') {
			return false
		}
	}
	return true
}

// MySQL prints a value expression: string literals as '…' when harmless, else X'…' / 0x… .
func (c Cell) MySQL() string {
	switch c.K {
	case 'L':
		switch {
		case c.Spell == 0 && plainASCII(c.B):
			return "'" + string(c.B) + "'"
		case c.Spell == 2 && len(c.B) > 0:
			return "0x" + strings.ToUpper(hex.EncodeToString(c.B))
		}
		return "X'" + hex.EncodeToString(c.B) + "'"
	case 'N':
		return string(c.B)
	case 'P':
		return "?"
	case 'Z':
		return "NULL"
	}
	return "now()"
}

// MySQL prints the statement for the MySQL front end.
func (s *Stmt) MySQL() string {
	sp := " "
	if s.Wide {
		sp = "  \n "
	}
	var b strings.Builder
	sets := func(names []string, vals []Cell, qual string) {
		for i, c := range names {
			if i > 0 {
				b.WriteString(", ")
			}
			if vals[i].K == 'V' { // the value proposed for insertion
				b.WriteString(qual + c + " = values(" + c + ")")
			} else {
				b.WriteString(qual + c + " = " + vals[i].MySQL())
			}
		}
	}
	switch s.Kind {
	case 'I':
		b.WriteString(s.kw("insert into") + " " + s.Table)
		if len(s.Cols) > 0 {
			b.WriteString(" (" + strings.Join(s.Cols, ", ") + ")")
		}
		if s.SelSrc {
			var cs []string
			for _, c := range s.Rows[0] {
				cs = append(cs, c.MySQL())
			}
			b.WriteString(sp + s.kw("select") + " " + strings.Join(cs, ", "))
		} else {
			b.WriteString(sp + s.kw("values") + " ")
			for i, r := range s.Rows {
				if i > 0 {
					b.WriteString("," + sp)
				}
				var cs []string
				for _, c := range r {
					cs = append(cs, c.MySQL())
				}
				b.WriteString("(" + strings.Join(cs, ", ") + ")")
			}
		}
		if len(s.OnDup) > 0 {
			b.WriteString(sp + s.kw("on duplicate key update") + " ")
			sets(s.OnDup, s.OnDupV, "")
		}
	case 'U':
		b.WriteString(s.kw("update") + " " + s.Table)
		q := ""
		if s.Alias != "" {
			b.WriteString(" " + s.kw("as") + " " + s.Alias)
			if s.QualSets {
				q = s.Alias + "."
			}
		} else if s.QualSets {
			q = s.Table + "."
		}
		b.WriteString(sp + s.kw("set") + " ")
		sets(s.Sets, s.SetV, q)
		if s.Where != nil {
			b.WriteString(sp + s.kw("where") + " id = " + s.Where.MySQL())
		}
	case 'S':
		b.WriteString(s.kw("select") + " " + targetsSQL(s.Ret) + sp + s.kw("from") + " " + s.Table)
		if s.Alias != "" {
			b.WriteString(" " + s.Alias)
		}
		if s.Where != nil {
			b.WriteString(sp + s.kw("where") + " id = " + s.Where.MySQL())
		}
	default:
		return s.Raw
	}
	return b.String()
}

var _ = fmt.Sprint
