package c04

import (
	"encoding/hex"
	"fmt"
	"strings"

	"verifharness/internal/c04/fakepg"
	"verifharness/internal/core"
)

// ---- the Go twin of the model's vocabulary (lean/AcraModel/Proxy/Placement.lean) ----

type Setting struct {
	Kind  string // struct | block
	DType string // none | bytes | str
	Reenc bool
}

func (s *Setting) Token() string {
	r := "0"
	if s.Reenc {
		r = "1"
	}
	return s.Kind + "." + s.DType + "." + r
}

// Col is a database column; Set != nil means the encryptor config protects it.
type Col struct {
	Name string
	Type fakepg.ColType
	Set  *Setting
}

type Tab struct {
	Name       string
	Cols       []Col
	Configured bool // has a `schemas:` entry
	NoColumns  bool // the entry has no `columns:` list
}

func (t *Tab) col(name string) *Col {
	for i := range t.Cols {
		if t.Cols[i].Name == name {
			return &t.Cols[i]
		}
	}
	return nil
}

type Schema []*Tab

func (s Schema) tab(name string) *Tab {
	for _, t := range s {
		if t.Name == name {
			return t
		}
	}
	return nil
}

// Token renders the encryptor config as the model's schema token.
func (s Schema) Token() string {
	var ts []string
	for _, t := range s {
		if !t.Configured {
			continue
		}
		var cols, enc []string
		for _, c := range t.Cols {
			if !t.NoColumns {
				cols = append(cols, c.Name)
			}
			if c.Set != nil {
				enc = append(enc, c.Name+"="+c.Set.Token())
			}
		}
		ts = append(ts, t.Name+":"+orNone(cols, ",")+":"+orNone(enc, "+"))
	}
	return orNone(ts, "/")
}

func orNone(l []string, sep string) string {
	if len(l) == 0 {
		return "_"
	}
	return strings.Join(l, sep)
}

// YAML renders the encryptor config file.
func (s Schema) YAML() string {
	var b strings.Builder
	b.WriteString("schemas:\n")
	for _, t := range s {
		if !t.Configured {
			continue
		}
		fmt.Fprintf(&b, "  - table: %s\n", t.Name)
		if !t.NoColumns {
			b.WriteString("    columns:\n")
			for _, c := range t.Cols {
				fmt.Fprintf(&b, "      - %s\n", c.Name)
			}
		}
		b.WriteString("    encrypted:\n")
		for _, c := range t.Cols {
			if c.Set == nil {
				continue
			}
			fmt.Fprintf(&b, "      - column: %s\n        crypto_envelope: %s\n        reencrypting_to_acrablocks: %v\n", c.Name, map[string]string{"struct": "acrastruct", "block": "acrablock"}[c.Set.Kind], c.Set.Reenc)
			if c.Set.DType != "none" {
				fmt.Fprintf(&b, "        data_type: %s\n", c.Set.DType)
			}
		}
	}
	return b.String()
}

func (s Schema) Defs() []fakepg.TableDef {
	var out []fakepg.TableDef
	for _, t := range s {
		d := fakepg.TableDef{Name: t.Name}
		for _, c := range t.Cols {
			d.Cols = append(d.Cols, fakepg.Column{Name: c.Name, Type: c.Type})
		}
		out = append(out, d)
	}
	return out
}

// Cell is a value expression of a generated statement.
type Cell struct {
	K     byte   // 'L' string literal, 'N' number, 'P' placeholder, 'Z' NULL, 'O' other
	B     []byte // literal text (after SQL lexing) / number text
	N     int    // placeholder number (1-based)
	Cast  string // optional cast printed after a literal
	Spell int    // how a string literal is printed: 0 plain '…', 1 E'…'
}

func (c Cell) Token() string {
	switch c.K {
	case 'L':
		return "L" + core.Hex(c.B)
	case 'N':
		return "N" + core.Hex(c.B)
	case 'P':
		return fmt.Sprintf("P%d", c.N)
	case 'Z':
		return "Z"
	case 'V':
		return "O1"
	}
	return "O0"
}

func sqlQuote(b []byte, spell int) string {
	s := strings.ReplaceAll(string(b), "'", "''")
	if spell == 1 {
		return "E'" + strings.ReplaceAll(s, `\`, `\\`) + "'"
	}
	return "'" + s + "'"
}

func (c Cell) SQL() string {
	switch c.K {
	case 'L':
		s := sqlQuote(c.B, c.Spell)
		if c.Cast != "" {
			s += "::" + c.Cast
		}
		return s
	case 'N':
		return string(c.B)
	case 'P':
		return fmt.Sprintf("$%d", c.N)
	case 'Z':
		return "NULL"
	}
	return "now()"
}

// Stmt is a generated statement: structure first, text second.
type Stmt struct {
	Kind  byte // 'I', 'U', 'S', 'X'
	Table string
	Alias string
	Cols  []string // INSERT column list (nil = none)
	Rows  [][]Cell
	Sets  []string // UPDATE: column names
	SetV  []Cell   // UPDATE: values
	Where *Cell    // `WHERE id = <cell>` (UPDATE, SELECT), nil = none
	Ret   []string // RETURNING / SELECT items as target tokens
	Raw   string   // Kind 'X': the text
	Upper bool     // spelling: upper-case keywords
	Wide  bool     // spelling: extra white space
	// INSERT … ON CONFLICT (id) DO UPDATE SET / ON DUPLICATE KEY UPDATE: column names and values
	OnDup  []string
	OnDupV []Cell
	// INSERT … SELECT <Rows[0]> instead of VALUES
	SelSrc bool
	// UPDATE: SET targets qualified with the alias / table name (MySQL); SET (a, b) = (x, y) (PostgreSQL)
	QualSets bool
	MultiSet bool
}

// setsTok renders SET-like lists as tokens.
func setsTok(names []string, vals []Cell) string {
	var sets []string
	for i, c := range names {
		sets = append(sets, c+"="+vals[i].Token())
	}
	return orNone(sets, ",")
}

func (s *Stmt) Token() string {
	switch s.Kind {
	case 'I':
		var rows []string
		for _, r := range s.Rows {
			var cs []string
			for _, c := range r {
				cs = append(cs, c.Token())
			}
			rows = append(rows, orNone(cs, ","))
		}
		tok := "I:" + s.Table + ":" + orNone(s.Cols, ",") + ":" + orNone(rows, ";") + ":" + orNone(s.Ret, ",")
		if len(s.OnDup) > 0 || s.SelSrc {
			src := "V"
			if s.SelSrc {
				src = "S"
			}
			tok += ":" + setsTok(s.OnDup, s.OnDupV) + ":" + src
		}
		return tok
	case 'U':
		var sets []string
		for i, c := range s.Sets {
			sets = append(sets, c+"="+s.SetV[i].Token())
		}
		if s.MultiSet {
			return "U:" + s.Table + ":" + aliasTok(s.Alias) + ":" + orNone(sets, ",") + ":" + orNone(s.Ret, ",") + ":M"
		}
		return "U:" + s.Table + ":" + aliasTok(s.Alias) + ":" + orNone(sets, ",") + ":" + orNone(s.Ret, ",")
	case 'S':
		return "S:" + s.Table + ":" + aliasTok(s.Alias) + ":" + orNone(s.Ret, ",")
	}
	return "X"
}

func aliasTok(a string) string {
	if a == "" {
		return "_"
	}
	return a
}

func (s *Stmt) kw(w string) string {
	if s.Upper {
		return strings.ToUpper(w)
	}
	return w
}

func targetsSQL(ts []string) string {
	var out []string
	for _, t := range ts {
		if t == "?" {
			out = append(out, "1 + 1")
		} else {
			out = append(out, t)
		}
	}
	return strings.Join(out, ", ")
}

// SQL prints the statement.
func (s *Stmt) SQL() string {
	sp := " "
	if s.Wide {
		sp = "  \n "
	}
	var b strings.Builder
	switch s.Kind {
	case 'I':
		b.WriteString(s.kw("insert into") + " " + s.Table)
		if len(s.Cols) > 0 {
			b.WriteString(" (" + strings.Join(s.Cols, ", ") + ")")
		}
		if s.SelSrc {
			var cs []string
			for _, c := range s.Rows[0] {
				cs = append(cs, c.SQL())
			}
			b.WriteString(sp + s.kw("select") + " " + strings.Join(cs, ", "))
		} else {
			b.WriteString(sp + s.kw("values") + " ")
			for i, r := range s.Rows {
				if i > 0 {
					b.WriteString("," + sp)
				}
				var cs []string
				for _, c := range r {
					cs = append(cs, c.SQL())
				}
				b.WriteString("(" + strings.Join(cs, ", ") + ")")
			}
		}
		if len(s.OnDup) > 0 {
			b.WriteString(sp + s.kw("on conflict") + " (id) " + s.kw("do update set") + " ")
			for i, c := range s.OnDup {
				if i > 0 {
					b.WriteString(", ")
				}
				if s.OnDupV[i].K == 'V' { // the value proposed for insertion
					b.WriteString(c + " = excluded." + c)
				} else {
					b.WriteString(c + " = " + s.OnDupV[i].SQL())
				}
			}
		}
		if len(s.Ret) > 0 {
			b.WriteString(sp + s.kw("returning") + " " + targetsSQL(s.Ret))
		}
	case 'U':
		b.WriteString(s.kw("update") + " " + s.Table)
		if s.Alias != "" {
			b.WriteString(" " + s.kw("as") + " " + s.Alias)
		}
		b.WriteString(sp + s.kw("set") + " ")
		if s.MultiSet {
			var vs []string
			for _, v := range s.SetV {
				vs = append(vs, v.SQL())
			}
			b.WriteString("(" + strings.Join(s.Sets, ", ") + ") = (" + strings.Join(vs, ", ") + ")")
		} else {
			for i, c := range s.Sets {
				if i > 0 {
					b.WriteString(", ")
				}
				b.WriteString(c + " = " + s.SetV[i].SQL())
			}
		}
		if s.Where != nil {
			b.WriteString(sp + s.kw("where") + " id = " + s.Where.SQL())
		}
		if len(s.Ret) > 0 {
			b.WriteString(sp + s.kw("returning") + " " + targetsSQL(s.Ret))
		}
	case 'S':
		b.WriteString(s.kw("select") + " " + targetsSQL(s.Ret) + sp + s.kw("from") + " " + s.Table)
		if s.Alias != "" {
			b.WriteString(" " + s.Alias)
		}
		if s.Where != nil {
			b.WriteString(sp + s.kw("where") + " id = " + s.Where.SQL())
		}
	default:
		return s.Raw
	}
	return b.String()
}

// ---- values ----

// Forms returns the encodings in which a plaintext could show up in database-side traffic.
func Forms(v []byte) [][]byte {
	h := hex.EncodeToString(v)
	return [][]byte{v, []byte(h), []byte(strings.ToUpper(h)), escapeBytea(v)}
}

// escapeBytea renders bytes in PostgreSQL's bytea escape format (printable ASCII stays, the rest is \ooo).
func escapeBytea(v []byte) []byte {
	var out []byte
	for _, c := range v {
		switch {
		case c == '\\':
			out = append(out, '\\', '\\')
		case c < 0x20 || c > 0x7e:
			out = append(out, '\\', '0'+(c>>6), '0'+((c>>3)&7), '0'+(c&7))
		default:
			out = append(out, c)
		}
	}
	return out
}

const alnum = "abcdefghijklmnopqrstuvwxyzABCDEFGHIJKLMNOPQRSTUVWXYZ0123456789"

// marker draws a 12-byte plaintext marker: random bytes for binary columns, random letters/digits for
// text-typed ones (their values travel as SQL text). Random markers never look like a protected value.
func marker(rd *core.Rand, textual bool) []byte {
	b := make([]byte, 12)
	for i := range b {
		if textual {
			b[i] = alnum[rd.Intn(len(alnum))]
		} else {
			b[i] = byte(rd.U64())
		}
	}
	if rd.Chance(25) { // longer values too
		extra := rd.Bytes(rd.Intn(40))
		if textual {
			for i := range extra {
				extra[i] = alnum[int(extra[i])%len(alnum)]
			}
		}
		b = append(b, extra...)
	}
	return b
}

// textForm renders a binary value as the text a client puts into a literal / text parameter of a bytea column.
func textForm(rd *core.Rand, v []byte) []byte {
	switch rd.Intn(3) {
	case 0:
		return []byte("\\x" + hex.EncodeToString(v))
	case 1:
		return []byte("\\x" + strings.ToUpper(hex.EncodeToString(v)))
	default:
		return escapeBytea(v)
	}
}

// ---- schema generator ----

func genSchema(rd *core.Rand) Schema {
	var s Schema
	nt := 1 + rd.Intn(3)
	for i := 0; i < nt; i++ {
		t := &Tab{Name: fmt.Sprintf("t%d", i), Configured: true}
		t.Cols = append(t.Cols, Col{Name: "id", Type: fakepg.Int4})
		nc := 1 + rd.Intn(4)
		for j := 0; j < nc; j++ {
			c := Col{Name: fmt.Sprintf("c%d", j)}
			switch rd.Intn(5) {
			case 0:
				c.Type = fakepg.Text
			case 1:
				c.Type = fakepg.Bytea
			default:
				c.Type = fakepg.Bytea
				c.Set = &Setting{Kind: core.Pick(rd, []string{"struct", "block"}), DType: core.Pick(rd, []string{"none", "none", "bytes", "str"}), Reenc: rd.Bool()}
				if c.Set.DType != "none" {
					c.Set.Reenc = true // the configuration validator accepts data_type only together with re-encryption
				}
			}
			t.Cols = append(t.Cols, c)
		}
		s = append(s, t)
	}
	// a table the configuration does not know at all
	if rd.Chance(60) {
		s = append(s, &Tab{Name: "plain", Cols: []Col{{Name: "id", Type: fakepg.Int4}, {Name: "c0", Type: fakepg.Bytea}, {Name: "c1", Type: fakepg.Text}}})
	}
	// every configuration protects at least one column
	prot := false
	for _, t := range s {
		for _, c := range t.Cols {
			prot = prot || c.Set != nil
		}
	}
	if !prot {
		s[0].Cols[1].Type = fakepg.Bytea
		s[0].Cols[1].Set = &Setting{Kind: "block", DType: "none", Reenc: true}
	}
	return s
}
