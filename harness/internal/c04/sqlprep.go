package c04

import (
	"bufio"
	"bytes"
	"encoding/binary"
	"fmt"
	"io"
	"regexp"
	"strings"

	"github.com/jackc/pgx/v5/pgproto3"
	"github.com/sirupsen/logrus"

	"github.com/cossacklabs/acra/decryptor/postgresql"

	"verifharness/internal/c04/fakepg"
	"verifharness/internal/core"
	env "verifharness/internal/envops"
)

// ---- SQL-level prepared statements of the simple protocol (Lean: Proxy/SqlPrepared.lean) ----

// The statements of the packet-level op: statement k (1..7) selects three columns of table t; column j is the
// text-typed protected column s<j> when bit j of k is set and the unprotected p<j> otherwise. A DataRow whose three
// values are the escape text `a\\b` comes back with `a\b` exactly in the columns that were processed with a text-typed
// setting – so the row itself tells which statement's settings the proxy used.
const sqlprepYAML = `
schemas:
  - table: t
    columns: [p1, p2, p3, s1, s2, s3]
    encrypted:
      - column: s1
        data_type: str
      - column: s2
        data_type: str
      - column: s3
        data_type: str
`

func sqlprepStmt(k int) string {
	var cols []string
	for j := 0; j < 3; j++ {
		if k>>j&1 == 1 {
			cols = append(cols, fmt.Sprintf("s%d", j+1))
		} else {
			cols = append(cols, fmt.Sprintf("p%d", j+1))
		}
	}
	return "select " + strings.Join(cols, ", ") + " from t"
}

var sqlprepSel = regexp.MustCompile(`(?i)select ([ps])1, ([ps])2, ([ps])3 from t`)

func sqlprepID(sql string) string {
	m := sqlprepSel.FindStringSubmatch(sql)
	if m == nil {
		return "?"
	}
	k := 0
	for j := 0; j < 3; j++ {
		if strings.ToLower(m[j+1]) == "s" {
			k |= 1 << j
		}
	}
	return fmt.Sprint(k)
}

var (
	rePrep    = regexp.MustCompile(`^simple:prepare (\w+) as (.*)$`)
	reExec    = regexp.MustCompile(`^simple:execute (\w+)$`)
	reDealloc = regexp.MustCompile(`^simple:deallocate (\w+)$`)
)

func sqlprepName(e string) string {
	switch {
	case e == "sync":
		return "sync"
	case e == "simple:deallocate all":
		return "deallocall"
	case rePrep.MatchString(e):
		m := rePrep.FindStringSubmatch(e)
		return "prep" + m[1] + "=" + sqlprepID(m[2])
	case reExec.MatchString(e):
		return "exec" + reExec.FindStringSubmatch(e)[1]
	case reDealloc.MatchString(e):
		return "dealloc" + reDealloc.FindStringSubmatch(e)[1]
	case strings.HasPrefix(e, "simple:"):
		return "simple" + sqlprepID(e)
	case strings.HasPrefix(e, "ext:"):
		return "ext" + sqlprepID(e)
	}
	return "?" + e
}

var sqlprepKV = env.NewKV(core.NewRand(7), 1, 1)

func init() {
	// sqlprep <events>: a real PgProxy driven packet by packet (no goroutines) through simple-protocol statements
	// incl. PREPARE / EXECUTE / DEALLOCATE, extended-protocol messages and database responses; every DataRow shows
	// which statement's settings it was processed with
	core.Register("C04.sqlprep", func(a []string) string {
		ks := &env.TKS{Clients: map[string]*env.KV{"alice": sqlprepKV}}
		w, err := NewWorld(sqlprepYAML, ks, nil, nil)
		if err != nil {
			panic("harness: " + err.Error())
		}
		defer w.Close()
		px, ctx := w.bareProxy("alice")
		logger := logrus.NewEntry(logrus.StandardLogger())
		var out []string
		describe := func() string {
			var q []string
			for _, e := range px.VerifPendingQueries() {
				q = append(q, sqlprepName(e))
			}
			return orNone(q, ",")
		}
		name := func(s string) string {
			if s == "~" {
				return ""
			}
			return s
		}
		for _, ev := range splitTok(a[0], ",") {
			var fm pgproto3.FrontendMessage
			var bm pgproto3.BackendMessage
			arg := ev[1:]
			switch ev[0] {
			case 'q':
				fm = &pgproto3.Query{String: sqlprepStmt(core.Atoi(arg))}
			case 'r':
				kv := strings.SplitN(arg, "=", 2)
				fm = &pgproto3.Query{String: "prepare " + kv[0] + " as " + sqlprepStmt(core.Atoi(kv[1]))}
			case 'x':
				fm = &pgproto3.Query{String: "execute " + arg}
			case 'd':
				fm = &pgproto3.Query{String: "deallocate " + arg}
			case 'a':
				fm = &pgproto3.Query{String: "deallocate all"}
			case 'p':
				kv := strings.SplitN(arg, "=", 2)
				fm = &pgproto3.Parse{Name: name(kv[0]), Query: sqlprepStmt(core.Atoi(kv[1]))}
			case 'b':
				kv := strings.SplitN(arg, "=", 2)
				fm = &pgproto3.Bind{DestinationPortal: name(kv[0]), PreparedStatement: name(kv[1])}
			case 'e':
				fm = &pgproto3.Execute{Portal: name(arg)}
			case 's':
				fm = &pgproto3.Sync{}
			case 'o':
				fm = &pgproto3.Flush{}
			case 'D':
				v := []byte(`a\\b`)
				bm = &pgproto3.DataRow{Values: [][]byte{v, v, v}}
			case 'C':
				bm = &pgproto3.CommandComplete{CommandTag: []byte("SELECT 1")}
			case 'S':
				bm = &pgproto3.PortalSuspended{}
			case 'E':
				bm = &pgproto3.ErrorResponse{Severity: "ERROR", Code: "XX000", Message: "m"}
			case 'Z':
				bm = &pgproto3.ReadyForQuery{TxStatus: 'I'}
			case 'O':
				bm = &pgproto3.ParseComplete{}
			default:
				panic("harness: bad event " + ev)
			}
			if fm != nil {
				raw, _ := fm.Encode(nil)
				ph, _ := postgresql.NewClientSidePacketHandler(bytes.NewReader(raw), bufio.NewWriter(io.Discard), logger)
				ph.SetStarted()
				if err := ph.ReadClientPacket(); err != nil {
					panic("harness: " + err.Error())
				}
				if _, err := px.VerifHandleClientPacket(ctx, ph, logger); err != nil {
					out = append(out, "closed")
					return strings.Join(out, "|")
				}
				out = append(out, describe())
				continue
			}
			raw, _ := bm.Encode(nil)
			ph, _ := postgresql.NewDbSidePacketHandler(bytes.NewReader(raw), bufio.NewWriter(io.Discard), logger)
			if err := ph.ReadPacket(); err != nil {
				panic("harness: " + err.Error())
			}
			if err := px.VerifHandleDatabasePacket(ctx, ph, logger); err != nil {
				out = append(out, "closed")
				return strings.Join(out, "|")
			}
			if ev[0] == 'D' {
				out = append(out, "row:"+fmt.Sprint(rowPattern(ph.VerifBody())))
				continue
			}
			out = append(out, describe())
		}
		return strings.Join(out, "|")
	})
}

// rowPattern reads the DataRow body back: bit j is set when column j was decoded (`a\\b` → `a\b`).
func rowPattern(body []byte) int {
	if len(body) < 2 {
		return -1
	}
	n := int(binary.BigEndian.Uint16(body))
	p, k := 2, 0
	for j := 0; j < n; j++ {
		if p+4 > len(body) {
			return -1
		}
		l := int(int32(binary.BigEndian.Uint32(body[p:])))
		p += 4
		if l < 0 {
			continue
		}
		if p+l > len(body) {
			return -1
		}
		switch string(body[p : p+l]) {
		case `a\b`:
			k |= 1 << j
		case `a\\b`:
		default:
			return -2
		}
		p += l
	}
	return k
}

// sqlprepOps: scripts of client messages and the answers of a little PostgreSQL-conforming backend that keeps its
// own table of prepared statements. ORACLE: every DataRow is processed with the settings of the statement the
// backend is answering – for EXECUTE the statement the name is bound to at that moment in the backend.
func sqlprepOps(r *core.Run) {
	rd := r.Rand
	// fixed scripts first: the run of the seeded change (same text `EXECUTE q1` twice, the name re-bound in between,
	// nothing with rows in between), DEALLOCATE ALL (repaired), and the two documented deviations (correspondence only)
	fixed := []struct {
		evs    string
		expect []int
	}{
		{"rq1=1,C,Z,xq1,D,C,Z,dq1,C,Z,rq1=6,C,Z,xq1,D,D,C,Z", []int{1, 6, 6}},
		{"rq1=5,C,Z,xq1,D,C,Z,a,C,Z,rq1=2,C,Z,xq1,D,C,Z", []int{5, 2}},
		{"rq1=3,C,Z,rq2=4,C,Z,xq2,D,C,Z,xq1,D,C,Z,q7,D,C,Z,xq2,D,C,Z", []int{4, 3, 7, 4}},
		{"p~=2,b~=~,e~,s,O,O,D,C,Z,rq1=1,C,Z,a,C,Z,b~=~,e~,s,O,D,C,Z", []int{2, 2}},
		// pipelined re-definition behind an unanswered EXECUTE (Lean overtake_counterexample): model = code, no oracle
		{"rq1=1,xq1,dq1,rq1=2,C,Z,D,C,Z,C,Z,C,Z", nil},
		// PREPARE rejected by the database, then accepted under the same name (Lean rejected_prepare_counterexample)
		{"rq1=1,E,Z,rq1=2,C,Z,xq1,D,C,Z", nil},
	}
	for _, f := range fixed {
		line := "C04.sqlprep " + f.evs
		r.Begin(line, true, "case:sql-prepared-script")
		out := r.Do(line)
		sqlprepCheck(r, f.evs, out, f.expect)
	}
	n := r.N(140, 3000)
	sqlNames := []string{"q1", "q2"}
	extNames := []string{"~", "s1"}
	for i := 0; i < n; i++ {
		type req struct {
			kind byte // 'q' plain, 'r' prepare, 'x' execute, 'd' deallocate, 'a' deallocate all, 'e' extended Execute, 's' sync, 'o' ok message, 'f' failing message
			name string
			k    int
		}
		var evs []string
		var expect []int
		var dbq []req
		dreg := map[string]int{}
		skipping := false
		oracle := true
		openBatch := false
		cstmts := map[string]int{}  // client's view: protocol-level statements
		cportal := map[string]int{} // portal → statement id
		// portal → names of ALL statements it was ever bound to: the registry lists a portal under every statement it was
		// created from and drops it when any of them is deleted or parsed again (a client must close a named portal before
		// binding it again, so for conforming clients "ever" = "now")
		cportalOf := map[string]map[string]bool{}
		dropPortalsOf := func(stn string) {
			for po, set := range cportalOf {
				if set[stn] {
					delete(cportal, po)
				}
			}
		}
		tainted := map[string]bool{}
		row := func(k int) {
			evs = append(evs, "D")
			expect = append(expect, k)
		}
		drain := func(all bool) {
			for len(dbq) > 0 && (all || rd.Chance(55)) {
				x := dbq[0]
				dbq = dbq[1:]
				switch x.kind {
				case 's':
					evs = append(evs, "Z")
					skipping = false
				case 'q':
					if rd.Chance(15) {
						evs = append(evs, "E")
					} else {
						for c := rd.Intn(3); c > 0; c-- {
							row(x.k)
						}
						evs = append(evs, "C")
					}
				case 'r':
					_, bound := dreg[x.name]
					switch {
					case bound:
						evs = append(evs, "E")
					case x.k < 0: // rejected for a reason the proxy cannot see (unknown table …)
						evs = append(evs, "E")
					default:
						dreg[x.name] = x.k
						evs = append(evs, "C")
					}
				case 'x':
					k, bound := dreg[x.name]
					if !bound || rd.Chance(10) {
						evs = append(evs, "E")
					} else {
						if tainted[x.name] {
							k = -2 // known finding: the proxy may still hold the rejected statement
						}
						for c := 1 + rd.Intn(2); c > 0; c-- {
							row(k)
						}
						evs = append(evs, "C")
					}
				case 'd':
					if _, bound := dreg[x.name]; bound {
						delete(dreg, x.name)
						evs = append(evs, "C")
					} else {
						evs = append(evs, "E")
					}
				case 'a':
					for k := range dreg {
						delete(dreg, k)
					}
					evs = append(evs, "C")
				case 'e':
					if skipping {
						continue
					}
					if rd.Chance(15) {
						evs = append(evs, "E")
						skipping = true
					} else {
						for c := rd.Intn(3); c > 0; c-- {
							row(x.k)
						}
						if rd.Chance(25) {
							row(x.k)
							evs = append(evs, "S")
						} else {
							evs = append(evs, "C")
						}
					}
				case 'f':
					if !skipping {
						evs = append(evs, "E")
						skipping = true
					}
				case 'o':
					if !skipping {
						evs = append(evs, "O")
					}
				}
			}
		}
		simple := func(ev string, q req) {
			if openBatch { // a simple query is sent after the extended batch has been closed by a Sync
				evs = append(evs, "s")
				dbq = append(dbq, req{kind: 's'})
				openBatch = false
			}
			changes := q.kind == 'r' || q.kind == 'd' || q.kind == 'a'
			if changes {
				if rd.Chance(88) {
					drain(true)
				} else if len(dbq) > 0 {
					oracle = false // re-definition pipelined behind unanswered requests: outside the theorem's rule
				}
			}
			if q.kind == 'a' {
				// DEALLOCATE ALL drops the named protocol-level statements too (the proxy forgets their portals with them)
				for nme := range cstmts {
					if nme != "~" {
						delete(cstmts, nme)
					}
				}
				for po, set := range cportalOf {
					for stn := range set {
						if stn != "~" {
							delete(cportal, po)
							break
						}
					}
				}
			}
			delete(cportal, "~") // the unnamed portal does not survive the Sync (the registry still lists it: cportalOf stays)
			evs = append(evs, ev)
			dbq = append(dbq, q, req{kind: 's'})
		}
		steps := 4 + rd.Intn(22)
		for s := 0; s < steps; s++ {
			switch x := rd.Intn(100); {
			case x < 12:
				k := 1 + rd.Intn(7)
				simple(fmt.Sprintf("q%d", k), req{kind: 'q', k: k})
			case x < 34:
				nme := core.Pick(rd, sqlNames)
				k := 1 + rd.Intn(7)
				q := req{kind: 'r', name: nme, k: k}
				if rd.Chance(4) {
					// the database will reject this PREPARE although the name is free
					if _, bound := dreg[nme]; !bound {
						q.k = -1
						tainted[nme] = true
					}
				}
				simple(fmt.Sprintf("r%s=%d", nme, k), q)
			case x < 58:
				nme := core.Pick(rd, sqlNames)
				simple("x"+nme, req{kind: 'x', name: nme})
			case x < 68:
				nme := core.Pick(rd, sqlNames)
				simple("d"+nme, req{kind: 'd', name: nme})
			case x < 73:
				simple("a", req{kind: 'a'})
			case x < 80:
				nme := core.Pick(rd, extNames)
				if rd.Chance(8) {
					// a protocol-level statement under a name SQL-level PREPARE uses too: the registry is shared (the model
					// has it); the little backend keeps the two apart, so such a script is correspondence only
					nme = core.Pick(rd, sqlNames)
					oracle = false
				}
				k := 1 + rd.Intn(7)
				evs = append(evs, fmt.Sprintf("p%s=%d", nme, k))
				cstmts[nme] = k
				dropPortalsOf(nme) // re-defining a statement drops the portals created from the old one
				dbq = append(dbq, req{kind: 'o'})
				openBatch = true
			case x < 88:
				st := core.Pick(rd, extNames)
				k, ok := cstmts[st]
				if !ok {
					continue
				}
				po := core.Pick(rd, extNames)
				evs = append(evs, fmt.Sprintf("b%s=%s", po, st))
				cportal[po] = k
				if cportalOf[po] == nil {
					cportalOf[po] = map[string]bool{}
				}
				cportalOf[po][st] = true
				dbq = append(dbq, req{kind: 'o'})
				openBatch = true
			case x < 95:
				po := core.Pick(rd, extNames)
				k, ok := cportal[po]
				if !ok {
					continue
				}
				evs = append(evs, "e"+po)
				dbq = append(dbq, req{kind: 'e', k: k})
				openBatch = true
			default:
				evs = append(evs, "s")
				dbq = append(dbq, req{kind: 's'})
				openBatch = false
				// the unnamed portal does not survive the Sync
				delete(cportal, "~")
			}
			drain(false)
		}
		evs = append(evs, "s")
		dbq = append(dbq, req{kind: 's'})
		drain(true)
		line := "C04.sqlprep " + strings.Join(evs, ",")
		r.Begin(line, true, "case:sql-prepared-script")
		out := r.Do(line)
		if !oracle {
			expect = nil
		}
		sqlprepCheck(r, strings.Join(evs, ","), out, expect)
	}
}

// sqlprepCheck judges the rows of a script: expect[i] is the statement the backend answered with its i-th DataRow
// (-2: a name whose PREPARE the database rejected earlier – known finding when the proxy uses the rejected statement).
func sqlprepCheck(r *core.Run, evs, out string, expect []int) {
	if expect == nil {
		return
	}
	parts := strings.Split(out, "|")
	events := strings.Split(evs, ",")
	i := 0
	for j, p := range parts {
		if p == "closed" {
			r.Fail("sql-prepared-wrong-settings", fmt.Sprintf("the proxy closed the connection at event %d (%s) of a conforming run: %s → %s", j, events[min(j, len(events)-1)], evs, out))
			return
		}
		if j >= len(events) || events[j] != "D" {
			continue
		}
		if i >= len(expect) {
			break
		}
		want := expect[i]
		i++
		if want == -2 {
			continue
		}
		if p != fmt.Sprintf("row:%d", want) {
			r.Fail("sql-prepared-wrong-settings", fmt.Sprintf("DataRow %d (event %d) of the script %s: the database answered statement %d (%s), the proxy processed the row with the settings of %s (all rows: %s)", i, j, evs, want, sqlprepStmt(want), p, out))
			return
		}
	}
	last := parts[len(parts)-1]
	r.Check(last == "_", "pending-not-empty", "pending queue not empty after the final ReadyForQuery: "+last+" script "+evs)
}

// ---- sessions with SQL-level prepared statements through fakepg ----

type sqlPrep struct {
	st   *Stmt
	tab  *Tab
	cols []*Col
}

// sqlPreparedCase: one owner session and one keyless session run the same PREPARE / EXECUTE / DEALLOCATE sequence
// (names reused with different statements – different column counts and protected positions), interleaved with
// ordinary statements and with nothing in between. ORACLE: the owner reads the originals, every column is
// processed with the settings of the statement the name is bound to now; the keyless client never sees a plaintext
// and reads uncovered columns unchanged; nothing protected reaches the database in clear.
func sqlPreparedCase(r *core.Run, idx int) {
	rd := r.Rand
	cs := &caseState{r: r, rd: rd, sch: genSchema(rd), shadow: map[string][]*shadowRow{}, nextID: 1}
	cs.kv = env.NewKV(rd, 1, 1)
	ks := &env.TKS{Clients: map[string]*env.KV{"alice": cs.kv}}
	w, err := NewWorld(cs.sch.YAML(), ks, cs.sch.Defs(), rd.Bytes(1<<15))
	if err != nil {
		panic("harness: " + err.Error() + "\n" + cs.sch.YAML())
	}
	cs.w = w
	defer w.Close()
	cs.key = fmt.Sprintf("sqlprep-%d", idx)
	a, err := w.Open("alice")
	if err != nil {
		panic("harness: open " + err.Error())
	}
	cs.a = a
	bob, err := w.Open("bob")
	if err != nil {
		panic("harness: open " + err.Error())
	}
	// some rows first
	for k := 0; k < 2+rd.Intn(3); k++ {
		cs.doInsert(core.Pick(rd, cs.sch))
	}
	names := []string{"q", "r"}
	bound := map[string]*sqlPrep{}
	steps := 4 + rd.Intn(10)
	both := func(sql string) ([]*fakepg.Result, []*fakepg.Result, bool) {
		ra, ea := cs.a.C.Simple(sql)
		rb, eb := bob.C.Simple(sql)
		if ea != nil || eb != nil {
			r.Begin(cs.key+"|"+sql, true, "case:sql-prepared-session")
			r.Fail("session-broken", fmt.Sprintf("%q: the session broke: %v / %v (panic: %v / %v)", sql, ea, eb, cs.a.Panic, bob.Panic))
			return nil, nil, false
		}
		return ra, rb, true
	}
	// prepare sends `PREPARE nme AS <a generated SELECT>` in both sessions; false = the session is unusable
	prepare := func(nme string) bool {
		t := core.Pick(rd, cs.sch)
		for tries := 0; len(cs.shadow[t.Name]) == 0 && tries < 8; tries++ {
			t = core.Pick(rd, cs.sch)
		}
		if len(cs.shadow[t.Name]) == 0 {
			return true
		}
		st := cs.styled(&Stmt{Kind: 'S', Table: t.Name})
		if rd.Chance(30) {
			st.Alias = "y"
		}
		st.Ret = cs.genTargets(t, st.Alias, true)
		sql := "prepare " + nme + " as " + st.SQL()
		if st.Upper {
			sql = "PREPARE " + nme + " AS " + st.SQL()
		}
		cs.stmtSeq++
		r.Begin(cs.sch.Token()+"|prepare|"+st.Token(), t.Configured, "case:sql-prepared-session", "stmt:prepare")
		ra, _, ok := both(sql)
		if !ok {
			return false
		}
		_, taken := bound[nme]
		if taken {
			r.Check(len(ra) == 1 && ra[0].Err == "42P05", "session-broken", fmt.Sprintf("%q with the name in use: expected the database's duplicate error, got %v", sql, ra))
			return true
		}
		if !r.Check(len(ra) == 1 && ra[0].Err == "", "statement-rejected", fmt.Sprintf("%q was rejected after the proxy: %v; forwarded %q", sql, ra, lastSQL(cs.w.DB))) {
			return false
		}
		bound[nme] = &sqlPrep{st: st, tab: t, cols: cs.targetCols(t, st.Alias, st.Ret)}
		// the inner SELECT went through the query encryptor: the session remembers its column settings
		cs.lastItems = cs.itemsOf(t, bound[nme].cols)
		return true
	}
	deallocate := func(nme string, all bool, k int) bool {
		sql := "deallocate " + nme
		if all {
			sql = "deallocate all"
		}
		r.Begin(cs.key+fmt.Sprintf("|%d|%s", k, sql), false, "case:sql-prepared-session", "stmt:deallocate")
		ra, _, ok := both(sql)
		if !ok {
			return false
		}
		if all {
			r.Check(len(ra) == 1 && ra[0].Err == "", "session-broken", fmt.Sprintf("%q failed: %v", sql, ra))
			for n := range bound {
				delete(bound, n)
			}
			return true
		}
		if _, taken := bound[nme]; taken {
			r.Check(len(ra) == 1 && ra[0].Err == "", "session-broken", fmt.Sprintf("%q failed: %v", sql, ra))
			delete(bound, nme)
		}
		return true
	}
	for k := 0; k < steps; k++ {
		if !r.Thorough() && len(r.Failures) > 3 {
			break
		}
		nme := core.Pick(rd, names)
		switch x := rd.Intn(100); {
		case x < 14: // the name re-bound to another statement with NOTHING that returns rows in between
			if bound[nme] == nil && !prepare(nme) {
				return
			}
			if p := bound[nme]; p != nil {
				cs.execPrepared(p, nme, bob)
			}
			if !deallocate(nme, rd.Chance(25), k) || !prepare(nme) {
				return
			}
			if p := bound[nme]; p != nil {
				cs.execPrepared(p, nme, bob)
			}
		case x < 32: // PREPARE
			if !prepare(nme) {
				return
			}
		case x < 65: // EXECUTE
			p, ok := bound[nme]
			sql := "execute " + nme
			if !ok {
				if rd.Chance(70) {
					continue
				}
				r.Begin(cs.key+fmt.Sprintf("|%d|execute-unbound", k), false, "case:sql-prepared-session", "stmt:execute-unbound")
				ra, _, ok := both(sql)
				if ok {
					r.Check(len(ra) == 1 && ra[0].Err == "26000", "session-broken", fmt.Sprintf("%q without such a statement: expected the database's error, got %v", sql, ra))
				}
				continue
			}
			cs.execPrepared(p, nme, bob)
		case x < 77: // DEALLOCATE
			if !deallocate(nme, rd.Chance(25), k) {
				return
			}
		case x < 85:
			t := core.Pick(rd, cs.sch)
			if len(cs.shadow[t.Name]) > 0 {
				cs.doSelect(t, bob)
			}
		case x < 93:
			cs.doInsert(core.Pick(rd, cs.sch))
		default:
			t := core.Pick(rd, cs.sch)
			if len(cs.shadow[t.Name]) > 0 {
				cs.doUpdate(t)
			}
		}
	}
	if pq := pendingOf(a); len(pq) != 0 {
		r.Begin(cs.key+"-pending", true, "case:pending-quiescent")
		r.Fail("pending-not-empty", fmt.Sprintf("pending-query queue not empty after the last ReadyForQuery: %v", pq))
	}
	cs.scanSecrets("end of session")
}

// execPrepared runs `EXECUTE name` in both sessions and judges the rows against the statement bound to the name.
func (cs *caseState) execPrepared(p *sqlPrep, nme string, bob *Sess) {
	r := cs.r
	t, st, cols := p.tab, p.st, p.cols
	covered := false
	for _, c := range cols {
		covered = covered || (c != nil && c.Set != nil)
	}
	sql := "execute " + nme
	cs.stmtSeq++
	r.Begin(cs.sch.Token()+"|execute|"+st.Token(), covered, "case:sql-prepared-session", "stmt:execute")
	sent0 := len(cs.w.DB.Sent)
	rs, err := cs.a.C.Simple(sql)
	if err != nil || len(rs) == 0 || rs[len(rs)-1].Err != "" {
		r.Fail("session-broken", fmt.Sprintf("%q (= %s) failed through the proxy: %v %v (panic: %v)", sql, st.SQL(), err, rs, cs.a.Panic))
		return
	}
	res := rs[len(rs)-1]
	// model of the delivery of every DataRow: the settings of the statement the name is bound to
	for i, row := range cs.w.DB.Sent[sent0:] {
		if i >= len(res.Rows) {
			break
		}
		line := fmt.Sprintf("C04.row %s %s %s %s %s", cs.sch.Token(), kvToks(cs.kv), st.Token(), "_", valsTok(row))
		if i < 2 {
			r.Do(line)
		}
		r.Diff(line, "ok "+valsTok(res.Rows[i]))
	}
	expect := cs.shadow[t.Name]
	what := fmt.Sprintf("%s (= %s)", sql, st.SQL())
	cs.checkOwnerRowsFmt(t, st.Alias, st.Ret, res, expect, what, nil)
	if len(res.Rows) > 0 {
		// the settings extractor of the row handler ran the statement through onSelect
		cs.lastItems = cs.itemsOf(t, cols)
	}
	// the keyless session
	b0, _ := bob.C.Marks()
	brs, err := bob.C.Simple(sql)
	if err != nil || len(brs) == 0 || brs[len(brs)-1].Err != "" {
		r.Fail("session-broken", fmt.Sprintf("%q by the keyless client failed: %v %v (panic: %v)", what, err, brs, bob.Panic))
		return
	}
	b1, _ := bob.C.Marks()
	got := bob.C.In.Bytes()[b0:b1]
	for _, v := range cs.secrets {
		if len(v) < 8 {
			continue
		}
		for _, f := range Forms(v) {
			if bytes.Contains(got, f) {
				r.Fail("plaintext-to-keyless-client", fmt.Sprintf("client without keys received plaintext %x of a protected column: %s", v, what))
				break
			}
		}
	}
	bres := brs[len(brs)-1]
	for i, sr := range expect {
		if i >= len(bres.Rows) {
			break
		}
		for j, c := range cols {
			if c == nil || c.Set != nil || j >= len(bres.Rows[i]) {
				continue
			}
			want, ok := sr.vals[c.Name]
			gotv := bres.Rows[i][j]
			if !ok {
				r.Check(gotv == nil, "uncovered-column-altered", "NULL in an uncovered column came back non-NULL: "+what)
				continue
			}
			if gotv == nil {
				r.Fail("uncovered-column-altered", "uncovered column came back NULL: "+what)
				continue
			}
			dec, _ := clientDecode(c.Type.OID(), false, *gotv)
			r.Check(bytes.Equal(dec, want), "uncovered-column-altered", fmt.Sprintf("%s: uncovered column %s.%s: wrote %x, keyless client read %x", what, t.Name, c.Name, want, dec))
		}
	}
}

// ---- regression corpus of round 5: witnesses of the defects found with the SQL-level prepared statements and the
// literal coders; run first on every run ----

func corpusRound5(r *core.Run) {
	rd := core.NewRand(535353)
	kv := env.NewKV(rd, 1, 1)
	ks := &env.TKS{Clients: map[string]*env.KV{"alice": kv}}
	tabs := []fakepg.TableDef{
		{Name: "t1", Cols: []fakepg.Column{{Name: "id", Type: fakepg.Int4}, {Name: "data", Type: fakepg.Bytea}, {Name: "note", Type: fakepg.Text}}},
		{Name: "t2", Cols: []fakepg.Column{{Name: "id", Type: fakepg.Int4}, {Name: "data", Type: fakepg.Bytea}, {Name: "note", Type: fakepg.Text}}},
	}
	open := func() (*World, *Sess) {
		w, err := NewWorld(corpusYAML, ks, tabs, rd.Bytes(1<<14))
		if err != nil {
			panic("harness: " + err.Error())
		}
		a, err := w.Open("alice")
		if err != nil {
			panic("harness: " + err.Error())
		}
		return w, a
	}
	one := func(a *Sess, sql string) *fakepg.Result {
		rs, err := a.C.Simple(sql)
		if err != nil || len(rs) == 0 {
			return &fakepg.Result{Err: "broken"}
		}
		return rs[len(rs)-1]
	}
	cell := func(res *fakepg.Result, i, j int) string {
		if i < len(res.Rows) && j < len(res.Rows[i]) && res.Rows[i][j] != nil {
			return string(*res.Rows[i][j])
		}
		return "<none>"
	}
	// R5-1. literal that is not bytea escape text in a protected column without data type (C04-7): protected as it is
	{
		r.Begin("corpus-literal-not-escape-text", true, "case:corpus")
		w, a := open()
		vals := []string{`C:\keys\SECRETMARKER07.pem`, "card SECRETMARKER08\nexp 12/29", "tab\tSECRETMARKER09 \\", `quote ' SECRETMARKER10 \8 é`}
		for i, v := range vals {
			lit := strings.ReplaceAll(v, "'", "''")
			res := one(a, fmt.Sprintf("insert into t1 (id, data, note) values (%d, '%s', 'n')", i+1, lit))
			r.Check(res.Err == "", "session-broken", fmt.Sprintf("corpus R5-1: insert of %q failed: %s %s", v, res.Err, res.ErrMsg))
		}
		r.Check(!bytes.Contains(w.DB.In.Bytes(), []byte("SECRETMARKER")), "plaintext-at-database", "a string literal that is not valid bytea escape text (backslash / line break / tab) written to a protected column reached the database in clear (PgQueryDBDataCoder.Decode uses what DecodeEscaped returns next to ErrDecodeOctalString)")
		res := one(a, "select id, data from t1")
		for i, v := range vals {
			want := v
			dec, _ := fakepg.DecodeByteaText([]byte(cell(res, i, 1)))
			r.Check(string(dec) == want, "owner-read-mismatch", fmt.Sprintf("corpus R5-1: wrote the literal %q, the owner reads %q", want, dec))
		}
		w.Close()
	}
	// R5-2. DEALLOCATE ALL (fixed: the names stayed registered; the next PREPARE of the name was refused and EXECUTE used
	// the settings of the deallocated statement)
	{
		r.Begin("corpus-deallocate-all", true, "case:corpus")
		w, a := open()
		one(a, "insert into t2 (id, data, note) values (1, 'TYPEDVALUE0002', 'n')")
		one(a, "prepare q as select id, data from t2")
		res := one(a, "execute q")
		r.Check(cell(res, 0, 1) == "TYPEDVALUE0002", "owner-read-mismatch", "corpus R5-2: EXECUTE q (select id, data): the owner reads "+cell(res, 0, 1))
		one(a, "deallocate all")
		one(a, "prepare q as select data, id from t2")
		res = one(a, "execute q")
		r.Check(res.Err == "" && cell(res, 0, 0) == "TYPEDVALUE0002" && cell(res, 0, 1) == "1", "owner-read-mismatch:deallocate-all-keeps-names",
			fmt.Sprintf("after DEALLOCATE ALL and PREPARE q AS select data, id …, EXECUTE q was processed with the settings of the deallocated statement: the owner reads data = %q, id = %q", cell(res, 0, 0), cell(res, 0, 1)))
		w.Close()
	}
	// R5-3. the seeded change C04-6 as a session: same text `EXECUTE q` twice, the name re-bound in between
	{
		r.Begin("corpus-execute-name-rebound", true, "case:corpus")
		w, a := open()
		one(a, "insert into t2 (id, data, note) values (1, 'TYPEDVALUE0003', 'n')")
		one(a, "prepare q as select data from t2")
		res := one(a, "execute q")
		r.Check(cell(res, 0, 0) == "TYPEDVALUE0003", "owner-read-mismatch", "corpus R5-3: first EXECUTE q: the owner reads "+cell(res, 0, 0))
		one(a, "deallocate q")
		one(a, "prepare q as select id, note, data from t2")
		res = one(a, "execute q")
		r.Check(res.Err == "" && cell(res, 0, 0) == "1" && cell(res, 0, 1) == "n" && cell(res, 0, 2) == "TYPEDVALUE0003", "owner-read-mismatch",
			fmt.Sprintf("second EXECUTE q (name re-bound to select id, note, data): the owner reads id = %q, note = %q, data = %q", cell(res, 0, 0), cell(res, 0, 1), cell(res, 0, 2)))
		w.Close()
	}
	// R5-4. known: a PREPARE the database rejects leaves the name bound in the proxy
	{
		r.Begin("corpus-prepare-rejected-name-sticky", true, "case:corpus")
		w, a := open()
		one(a, "insert into t2 (id, data, note) values (1, 'TYPEDVALUE0004', 'n')")
		res := one(a, "prepare q as select note from missing")
		r.Check(res.Err != "", "session-broken", "corpus R5-4: the fake database accepted a PREPARE on a missing table")
		res = one(a, "prepare q as select data from t2")
		r.Check(res.Err == "", "session-broken", "corpus R5-4: second PREPARE failed: "+res.Err)
		res = one(a, "execute q")
		if !(res.Err == "" && cell(res, 0, 0) == "TYPEDVALUE0004") {
			r.Fail("sql-prepare-rejected-name-sticky", fmt.Sprintf("PREPARE q (rejected by the database), PREPARE q AS select data from t2 (accepted), EXECUTE q: the rows are processed with the settings of the REJECTED statement, the owner reads %q", cell(res, 0, 0)))
		}
		w.Close()
	}
}

// ---- fail-open witnesses (known findings): inputs of a supported shape on which the real proxy forwards the
// plaintext of a protected column; each has its own decidable class, any other plaintext-at-database is a violation ----

func corpusFailOpen(r *core.Run) {
	rd := core.NewRand(646464)
	kv := env.NewKV(rd, 1, 1)
	ks := &env.TKS{Clients: map[string]*env.KV{"alice": kv}} // "bob" has no keys
	tabs := []fakepg.TableDef{
		{Name: "t1", Cols: []fakepg.Column{{Name: "id", Type: fakepg.Int4}, {Name: "data", Type: fakepg.Bytea}, {Name: "note", Type: fakepg.Text}}},
		{Name: "t2", Cols: []fakepg.Column{{Name: "id", Type: fakepg.Int4}, {Name: "data", Type: fakepg.Bytea}, {Name: "note", Type: fakepg.Text}}},
	}
	run := func(key, client, class, what string, marker string, do func(a *Sess)) {
		r.Begin("corpus-fail-open-"+key, true, "case:corpus", "case:fail-open")
		w, err := NewWorld(corpusYAML, ks, tabs, rd.Bytes(1<<14))
		if err != nil {
			panic("harness: " + err.Error())
		}
		defer w.Close()
		a, err := w.Open(client)
		if err != nil {
			panic("harness: " + err.Error())
		}
		do(a)
		if bytes.Contains(w.DB.In.Bytes(), []byte(marker)) {
			r.Fail(class, what+": the plaintext "+marker+" of the protected column t1.data reached the database")
		}
	}
	run("multi-statement", "alice", "plaintext-at-database:multi-statement-query",
		"simple Query with two INSERTs (only the first statement is analysed)", "FAILOPENMARK01", func(a *Sess) {
			a.C.Simple("insert into t1 (id, data) values (31, 'first'); insert into t1 (id, data) values (32, 'FAILOPENMARK01')")
		})
	run("invalid-hex-literal", "alice", "plaintext-at-database:invalid-hex-literal",
		`literal '\xZZ…' (\x + invalid hex) for a protected column without data type: the coder returns an error, the statement is forwarded as received`, "FAILOPENMARK02", func(a *Sess) {
			a.C.Simple(`insert into t1 (id, data) values (33, '\xZZFAILOPENMARK02')`)
		})
	run("invalid-hex-parameter", "alice", "plaintext-at-database:invalid-hex-literal",
		`text-format parameter '\xZZ…' (\x + invalid hex) bound to a protected column: the Bind is forwarded as received`, "FAILOPENMARK03", func(a *Sess) {
			a.C.Extended(fakepg.Ext{Parse: true, Name: "s", SQL: "insert into t1 (id, data) values ($1, $2)", Bind: true, Params: [][]byte{[]byte("34"), []byte(`\xZZFAILOPENMARK03`)}, Execute: true})
		})
	run("non-utf8-statement", "alice", "plaintext-at-database:non-utf8-statement",
		"statement text with a byte that is not valid UTF-8 (pg_query's parse tree is rejected, the statement is not analysed)", "FAILOPENMARK04", func(a *Sess) {
			a.C.Simple("insert into t1 (id, data, note) values (35, 'FAILOPENMARK04', 'bad\xff')")
		})
	run("no-key-for-client", "bob", "plaintext-at-database:no-key-for-client",
		"INSERT by a client id for which the keystore returns no usable key (error other than not-exist): the chain fails, the statement is forwarded as received", "FAILOPENMARK05", func(a *Sess) {
			a.C.Simple("insert into t1 (id, data) values (36, 'FAILOPENMARK05')")
		})
}
