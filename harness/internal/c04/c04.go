// Package c04: the SQL proxy stores only protected forms and restores originals on read (C04).
//
// Sessions run a fake PostgreSQL client against a fake database through the REAL proxy objects
// (proxyFactory.New / PgProxy with both proxy goroutines) over net.Pipe. Statements are generated
// from structured descriptions, so the harness knows which cells are protected without parsing.
package c04

import (
	"bytes"
	"encoding/binary"
	"fmt"
	"sort"
	"strings"
	"unicode/utf8"

	"verifharness/internal/c04/fakepg"
	"verifharness/internal/core"
	env "verifharness/internal/envops"
)

type shadowRow struct {
	id   int
	vals map[string][]byte // plaintext per column; missing key = NULL
}

type caseState struct {
	r       *core.Run
	rd      *core.Rand
	sch     Schema
	kv      *env.KV
	w       *World
	a       *Sess
	shadow  map[string][]*shadowRow
	nextID  int
	secrets [][]byte // every plaintext written into a protected column
	publics [][]byte // values written into uncovered columns (must arrive unchanged)
	stmtSeq int
	key     string
	// lastItems: the per-column settings the proxy's session currently remembers (set by the last SELECT
	// and by the last RETURNING that delivered rows)
	lastItems []*Setting
}

func kvToks(kv *env.KV) string { return kv.Tokens() }

// scanSecrets checks that no plaintext written to a protected column shows up in the bytes the database received.
func (cs *caseState) scanSecrets(what string) {
	in := cs.w.DB.In.Bytes()
	for _, v := range cs.secrets {
		if len(v) < 8 {
			continue
		}
		for fi, f := range Forms(v) {
			if bytes.Contains(in, f) {
				cs.r.Fail("plaintext-at-database", fmt.Sprintf("%s: plaintext %x written to a protected column reached the database (form %d)", what, v, fi))
				return
			}
		}
	}
}

func clientDecode(oid uint32, binaryFmt bool, v []byte) ([]byte, bool) {
	if oid == 17 && !binaryFmt {
		b, err := fakepg.DecodeByteaText(v)
		return b, err == nil
	}
	if oid == 23 && binaryFmt && len(v) == 4 {
		return []byte(fmt.Sprint(int32(binary.BigEndian.Uint32(v)))), true
	}
	return v, true
}

// genCellValue picks a value for a column and its literal / parameter representations.
type cellPlan struct {
	col    *Col
	plain  []byte // nil = NULL
	null   bool
	lit    Cell  // literal spelling
	ptext  []byte // text-format parameter
	pbin   []byte // binary-format parameter
	mark    []byte // a marker embedded in a raw-text literal (scanned for on the database side like the value itself)
	noParam bool   // the value is only written as a literal (its text is outside the byte-level model of bound parameters)
}

func (cs *caseState) planCell(c *Col, id int) cellPlan {
	rd := cs.rd
	p := cellPlan{col: c}
	if c.Name == "id" {
		s := fmt.Sprint(id)
		p.plain = []byte(s)
		p.lit = Cell{K: 'N', B: []byte(s)}
		p.ptext = []byte(s)
		p.pbin = make([]byte, 4)
		binary.BigEndian.PutUint32(p.pbin, uint32(id))
		return p
	}
	if rd.Chance(8) {
		p.null = true
		p.lit = Cell{K: 'Z'}
		return p
	}
	textual := c.Type == fakepg.Text || (c.Set != nil && c.Set.DType == "str")
	v := marker(rd, textual)
	if rd.Chance(3) {
		v = []byte{}
	}
	p.plain = v
	if !textual && c.Set != nil && rd.Chance(28) {
		// a string literal that is NOT (necessarily) bytea escape text: backslashes in every position class, control
		// characters, quotes, multi-byte UTF-8 – Acra's contract: valid escape text is decoded, anything else is
		// protected as it is
		text := genLitText(rd, 1+rd.Intn(5), false, rd.Chance(12))
		p.mark = marker(rd, true)[:12]
		k := rd.Intn(len(text) + 1)
		for k > 0 && k < len(text) && !utf8.RuneStart(text[k]) {
			k--
		}
		text = append(append(append([]byte{}, text[:k]...), p.mark...), text[k:]...)
		if val, hexErr := refLitValue(text); !hexErr && !bytes.HasPrefix(text, []byte(`\x`)) {
			p.plain = val
			p.lit = Cell{K: 'L', B: text, Spell: rd.Intn(2)}
			p.ptext, p.pbin = text, val
			p.noParam = hasC1(text)
			return p
		}
		p.mark = nil
	}
	if textual {
		p.lit = Cell{K: 'L', B: v, Spell: rd.Intn(2)}
		p.ptext, p.pbin = v, v
	} else {
		t := textForm(rd, v)
		p.lit = Cell{K: 'L', B: t, Spell: rd.Intn(2)}
		if rd.Chance(30) {
			p.lit.Cast = "bytea"
		}
		p.ptext, p.pbin = textForm(rd, v), v
	}
	return p
}

// round is one statement sent by the client.
type round struct {
	st       *Stmt
	extended bool
	params   []param
	rfmt     []int16
	named    string
	poids    []uint32    // explicit parameter type OIDs of the Parse (nil = none declared)
	prefix   *fakepg.Ext // a row-limited Execute of another statement pipelined in front, under the same Sync
}

func (cs *caseState) send(s *Sess, rd round) ([]*fakepg.Result, error) {
	sql := rd.st.SQL()
	if !rd.extended {
		return s.C.Simple(sql)
	}
	vals, fm := extParams(rd.params)
	main := fakepg.Ext{Parse: true, Name: rd.named, SQL: sql, ParamOIDs: rd.poids, Bind: true, Params: vals, PFmt: fm, RFmt: rd.rfmt, DescribeP: cs.rd.Bool(), Execute: true}
	if rd.prefix != nil {
		return s.C.Pipeline([]fakepg.Ext{*rd.prefix, main})
	}
	return s.C.Extended(main)
}

// declareOIDs picks explicit parameter type OIDs for a Parse: what a driver that knows its argument types sends.
func (cs *caseState) declareOIDs(params []param) []uint32 {
	if len(params) == 0 || !cs.rd.Chance(40) {
		return nil
	}
	out := make([]uint32, len(params))
	for i, p := range params {
		switch {
		case cs.rd.Chance(15):
			out[i] = 0 // unspecified
		case p.bin:
			out[i] = 17
		default:
			out[i] = 25
		}
	}
	return out
}

// perms enumerates the orders in which the protected parameters may have drawn randomness.
func perms(xs []int) [][]int {
	if len(xs) <= 1 {
		return [][]int{append([]int{}, xs...)}
	}
	var out [][]int
	for i := range xs {
		rest := append(append([]int{}, xs[:i]...), xs[i+1:]...)
		for _, p := range perms(rest) {
			out = append(out, append([]int{xs[i]}, p...))
		}
	}
	return out
}

func intsTok(xs []int) string {
	var out []string
	for _, x := range xs {
		out = append(out, fmt.Sprint(x))
	}
	return orNone(out, ",")
}

// correspond runs the stateless ops for a statement (implementation in a fresh one-statement world, and the model).
func (cs *caseState) correspond(rd round, rnd []byte) {
	r := cs.r
	tok := rd.st.Token()
	sch := cs.sch.Token()
	proto := "q"
	if rd.extended {
		proto = "p"
		if rd.poids != nil {
			proto = "o" // Parse with explicit parameter type OIDs
		}
	}
	r.Do(fmt.Sprintf("C04.stmt %s %s %s %s %s", proto, sch, kvToks(cs.kv), tok, core.Hex(rnd[:min(len(rnd), 2048)])))
	if rd.extended && len(rd.params) > 0 {
		// which parameters are protected (from the generator's knowledge) → candidate orders
		var prot []int
		if t := cs.sch.tab(rd.st.Table); t != nil && t.Configured && (rd.st.Kind == 'I' || rd.st.Kind == 'U') {
			seen := map[int]bool{}
			mark := func(col string, c Cell) {
				if cc := t.col(col); cc != nil && cc.Set != nil && c.K == 'P' && !seen[c.N-1] {
					seen[c.N-1] = true
					prot = append(prot, c.N-1)
				}
			}
			if rd.st.Kind == 'I' {
				names := rd.st.Cols
				if len(names) == 0 && !t.NoColumns {
					for _, c := range t.Cols {
						names = append(names, c.Name)
					}
				}
				for _, row := range rd.st.Rows {
					if len(row) != len(names) {
						continue
					}
					for j, c := range row {
						mark(names[j], c)
					}
				}
			} else {
				for j, c := range rd.st.SetV {
					mark(rd.st.Sets[j], c)
				}
			}
		}
		base := fmt.Sprintf("C04.bind %s %s %s %s", sch, kvToks(cs.kv), tok, paramsTok(rd.params))
		tail := core.Hex(rnd[:min(len(rnd), 2048)])
		first := fmt.Sprintf("%s %s %s", base, intsTok(prot), tail)
		impl := r.Impl(first)
		line := first
		found := len(prot) <= 1
		if len(prot) > 1 && len(prot) <= 5 {
			for _, p := range perms(prot) {
				l := fmt.Sprintf("%s %s %s", base, intsTok(p), tail)
				if r.ModelOnly(l) == impl {
					line, found = l, true
					break
				}
			}
		}
		// the Go code encrypts the parameters in map-iteration order: with more than five protected
		// parameters the order is not searched for
		if found || len(prot) <= 5 {
			r.Diff(line, impl)
		}
		r.Do(fmt.Sprintf("C04.plan %s %s %d", sch, tok, len(rd.params)))
	}
}

// expectRows computes, from the shadow tables, what the owner must read for a row-returning statement.
func (cs *caseState) targetCols(t *Tab, alias string, items []string) []*Col {
	var out []*Col
	for _, it := range items {
		switch {
		case it == "*" || strings.HasSuffix(it, ".*"):
			for i := range t.Cols {
				out = append(out, &t.Cols[i])
			}
		case it == "?":
			out = append(out, nil)
		default:
			name := it
			if i := strings.IndexByte(it, '.'); i >= 0 {
				name = it[i+1:]
			}
			out = append(out, t.col(name))
		}
	}
	return out
}

func run(r *core.Run) {
	r.Rule = "sessions of 1–12 statements generated FROM structured descriptions (INSERT with/without column list, 1–3 rows, casts, NULLs; UPDATE; SELECT star/list/qualified/alias; RETURNING), printed in several spellings, sent over the simple or the extended protocol (text and binary parameters and results) by a fake client through the real proxyFactory.New/PgProxy to a fake database; schemas of 1–4 tables with plain, AcraStruct and AcraBlock columns (untyped, bytes, str) and an unconfigured table; non-trivial = a statement that writes or reads a protected column; distinct by schema+statement tokens; plus value-level codec ops, protocol-state scripts (pipelining, errors, Sync), generated INSERT/UPDATE statements through the MySQL query encryptor, and the regression corpus of the three repaired defects"
	corpus(r)
	corpusRound5(r)
	corpusFailOpen(r)
	valueOps(r)
	pendingOps(r)
	mysqlOps(r)
	formsOps(r)
	litOps(r)
	sqlprepOps(r)
	n := r.N(40, 1500)
	for i := 0; i < n; i++ {
		sessionCase(r, i)
	}
	for i := 0; i < r.N(24, 900); i++ {
		sqlPreparedCase(r, i)
	}
	m := r.N(40, 1500)
	for i := 0; i < m; i++ {
		mySessionCase(r, i)
	}
}

func sessionCase(r *core.Run, idx int) {
	rd := r.Rand
	cs := &caseState{r: r, rd: rd, sch: genSchema(rd), shadow: map[string][]*shadowRow{}, nextID: 1}
	cs.kv = env.NewKV(rd, 1, 1)
	ks := &env.TKS{Clients: map[string]*env.KV{"alice": cs.kv}}
	w, err := NewWorld(cs.sch.YAML(), ks, cs.sch.Defs(), rd.Bytes(1<<15))
	if err != nil {
		panic("harness: " + err.Error() + "\n" + cs.sch.YAML())
	}
	cs.w = w
	defer w.Close()
	cs.key = fmt.Sprintf("sess-%d", idx)
	a, err := w.Open("alice")
	if err != nil {
		panic("harness: open " + err.Error())
	}
	cs.a = a
	bob, err := w.Open("bob")
	if err != nil {
		panic("harness: open " + err.Error())
	}
	nst := 1 + rd.Intn(12)
	for k := 0; k < nst; k++ {
		t := core.Pick(rd, cs.sch)
		switch x := rd.Intn(100); {
		case x < 45 || len(cs.shadow[t.Name]) == 0:
			cs.doInsert(t)
		case x < 60:
			cs.doUpdate(t)
		default:
			cs.doSelect(t, bob)
		}
		if r.Thorough() == false && len(r.Failures) > 3 {
			break
		}
	}
	// the queue of pending statements is empty when nothing is in flight
	if pq := pendingOf(a); len(pq) != 0 {
		r.Begin(cs.key+"-pending", true, "case:pending-quiescent")
		r.Fail("pending-not-empty", fmt.Sprintf("pending-query queue not empty after the last ReadyForQuery: %v", pq))
	}
	// final sweep: every table, read by the owner and by the keyless client
	for _, t := range cs.sch {
		if len(cs.shadow[t.Name]) > 0 {
			cs.doSelectStmt(t, &Stmt{Kind: 'S', Table: t.Name, Ret: []string{"*"}}, false, nil, bob)
		}
	}
	cs.scanSecrets("end of session")
}

func pendingOf(s *Sess) []string {
	type pv interface{ VerifPendingQueries() []string }
	if p, ok := s.Proxy.(pv); ok {
		return p.VerifPendingQueries()
	}
	panic("harness: proxy without VerifPendingQueries (build with -tags verif)")
}

func (cs *caseState) styled(st *Stmt) *Stmt {
	st.Upper = cs.rd.Bool()
	st.Wide = cs.rd.Chance(30)
	return st
}

func (cs *caseState) begin(st *Stmt, covered bool, tags ...string) {
	cs.stmtSeq++
	cs.r.Begin(cs.sch.Token()+"|"+st.Token(), covered, tags...)
}

// write executes a generated INSERT/UPDATE, runs the correspondence ops and the write-side oracles.
func (cs *caseState) write(st *Stmt, plans [][]cellPlan, covered bool, ext bool, params []param, tags ...string) ([]*fakepg.Result, []int16, bool) {
	r := cs.r
	cs.begin(st, covered, tags...)
	rd := round{st: st, extended: ext, params: params}
	if ext {
		rd.named = core.Pick(cs.rd, []string{"", "s1", "s2"})
		rd.poids = cs.declareOIDs(params)
		if len(st.Ret) > 0 && cs.rd.Bool() {
			rd.rfmt = []int16{int16(cs.rd.Intn(2))}
		}
	}
	for _, row := range plans {
		for _, p := range row {
			if p.null || p.col.Name == "id" {
				continue
			}
			if p.col.Set != nil {
				cs.secrets = append(cs.secrets, p.plain)
				if p.mark != nil {
					cs.secrets = append(cs.secrets, p.mark)
				}
			}
		}
	}
	p0 := cs.w.Rnd.Pos()
	cin0, cout0 := cs.a.C.Marks()
	_ = cin0
	din0 := cs.w.DB.In.Len()
	rs, err := cs.send(cs.a, rd)
	if err != nil {
		r.Fail("session-broken", fmt.Sprintf("statement %q: the session broke: %v (panic: %v)", st.SQL(), err, cs.a.Panic))
		return nil, nil, false
	}
	for _, x := range rs {
		if x.Err != "" {
			// what reached the database is judged first: a statement forwarded with a plaintext is the failure to report
			cs.scanSecrets(st.SQL())
			r.Fail("statement-rejected", fmt.Sprintf("statement %q was rejected by the database after the proxy (%s %s); forwarded: %q", st.SQL(), x.Err, x.ErrMsg, lastSQL(cs.w.DB)))
			return nil, nil, false
		}
	}
	rnd := cs.w.Rnd.data[p0:]
	cs.correspond(rd, rnd)
	// uncovered statements travel byte-identical
	if t := cs.sch.tab(st.Table); t != nil && !t.Configured {
		_, cout1 := cs.a.C.Marks()
		sent := cs.a.C.Out.Bytes()[cout0:cout1]
		got := cs.w.DB.In.Bytes()[din0:]
		r.Check(bytes.Equal(sent, got), "uncovered-statement-altered", fmt.Sprintf("statement on an unconfigured table reached the database altered: %q", st.SQL()))
	}
	cs.scanSecrets(st.SQL())
	return rs, rd.rfmt, true
}

func lastSQL(db *fakepg.DB) string {
	if len(db.Log) == 0 {
		return ""
	}
	return db.Log[len(db.Log)-1].SQL
}

func (cs *caseState) doInsert(t *Tab) {
	rd := cs.rd
	st := cs.styled(&Stmt{Kind: 'I', Table: t.Name})
	cols := make([]*Col, 0, len(t.Cols))
	if rd.Chance(65) || (t.Configured && t.NoColumns) {
		// explicit column list: id first or last, a random subset of the others in random order
		var others []*Col
		for i := range t.Cols[1:] {
			if rd.Chance(75) {
				others = append(others, &t.Cols[1+i])
			}
		}
		for i := len(others) - 1; i > 0; i-- {
			j := rd.Intn(i + 1)
			others[i], others[j] = others[j], others[i]
		}
		if rd.Bool() {
			cols = append(append(cols, &t.Cols[0]), others...)
		} else {
			cols = append(append(cols, others...), &t.Cols[0])
		}
		for _, c := range cols {
			st.Cols = append(st.Cols, c.Name)
		}
	} else {
		for i := range t.Cols {
			cols = append(cols, &t.Cols[i])
		}
	}
	ext := rd.Chance(45)
	nrows := 1 + rd.Intn(3)
	var plans [][]cellPlan
	var params []param
	covered := false
	for i := 0; i < nrows; i++ {
		id := cs.nextID
		cs.nextID++
		var row []Cell
		var prow []cellPlan
		for _, c := range cols {
			p := cs.planCell(c, id)
			prow = append(prow, p)
			covered = covered || (c.Set != nil && !p.null)
			if ext && !p.null && !p.noParam && rd.Chance(70) {
				bin := rd.Chance(40)
				pp := param{bin: bin, data: p.ptext}
				if bin {
					pp.data = p.pbin
				}
				params = append(params, pp)
				row = append(row, Cell{K: 'P', N: len(params)})
			} else {
				row = append(row, p.lit)
			}
		}
		st.Rows = append(st.Rows, row)
		plans = append(plans, prow)
	}
	if rd.Chance(25) {
		st.Ret = cs.genTargets(t, "", true)
	}
	rs, rfmt, ok := cs.write(st, plans, covered, ext, params, "stmt:insert", protoTag(ext))
	if !ok {
		return
	}
	for _, prow := range plans {
		sr := &shadowRow{vals: map[string][]byte{}}
		for _, p := range prow {
			if p.col.Name == "id" {
				sr.id = core.Atoi(string(p.plain))
			}
			if !p.null {
				sr.vals[p.col.Name] = p.plain
			}
		}
		cs.shadow[t.Name] = append(cs.shadow[t.Name], sr)
	}
	if len(st.Ret) > 0 {
		n := len(cs.shadow[t.Name])
		cs.checkOwnerRows(t, "", st.Ret, rs, cs.shadow[t.Name][n-len(plans):], st.SQL(), rfmt)
	}
}

func protoTag(ext bool) string {
	if ext {
		return "proto:extended"
	}
	return "proto:simple"
}

func (cs *caseState) genTargets(t *Tab, alias string, allowExpr bool) []string {
	rd := cs.rd
	q := t.Name
	if alias != "" {
		q = alias
	}
	switch rd.Intn(4) {
	case 0:
		return []string{"*"}
	case 1:
		return []string{q + ".*"}
	}
	var out []string
	for _, c := range t.Cols {
		if rd.Chance(70) {
			if rd.Chance(35) {
				out = append(out, q+"."+c.Name)
			} else {
				out = append(out, c.Name)
			}
		}
	}
	if allowExpr && rd.Chance(15) {
		out = append(out, "?")
	}
	if len(out) == 0 {
		out = []string{t.Cols[len(t.Cols)-1].Name}
	}
	return out
}

func (cs *caseState) doUpdate(t *Tab) {
	rd := cs.rd
	rows := cs.shadow[t.Name]
	target := core.Pick(rd, rows)
	st := cs.styled(&Stmt{Kind: 'U', Table: t.Name})
	if rd.Chance(25) {
		st.Alias = "x"
	}
	ext := rd.Chance(45)
	var params []param
	var prow []cellPlan
	covered := false
	for i := range t.Cols[1:] {
		c := &t.Cols[1+i]
		if !rd.Chance(60) {
			continue
		}
		p := cs.planCell(c, 0)
		prow = append(prow, p)
		covered = covered || (c.Set != nil && !p.null)
		st.Sets = append(st.Sets, c.Name)
		if ext && !p.null && !p.noParam && rd.Chance(70) {
			bin := rd.Chance(40)
			pp := param{bin: bin, data: p.ptext}
			if bin {
				pp.data = p.pbin
			}
			params = append(params, pp)
			st.SetV = append(st.SetV, Cell{K: 'P', N: len(params)})
		} else {
			st.SetV = append(st.SetV, p.lit)
		}
	}
	if len(st.Sets) == 0 {
		return
	}
	idp := cs.planCell(&t.Cols[0], target.id)
	if ext && rd.Bool() {
		params = append(params, param{data: idp.ptext})
		st.Where = &Cell{K: 'P', N: len(params)}
	} else {
		st.Where = &idp.lit
	}
	if rd.Chance(25) {
		st.Ret = cs.genTargets(t, st.Alias, true)
	}
	rs, rfmt, ok := cs.write(st, [][]cellPlan{prow}, covered, ext, params, "stmt:update", protoTag(ext))
	if !ok {
		return
	}
	for _, p := range prow {
		if p.null {
			delete(target.vals, p.col.Name)
		} else {
			target.vals[p.col.Name] = p.plain
		}
	}
	if len(st.Ret) > 0 {
		cs.checkOwnerRows(t, st.Alias, st.Ret, rs, []*shadowRow{target}, st.SQL(), rfmt)
	}
}

func (cs *caseState) doSelect(t *Tab, bob *Sess) {
	rd := cs.rd
	st := cs.styled(&Stmt{Kind: 'S', Table: t.Name})
	if rd.Chance(30) {
		st.Alias = "y"
	}
	st.Ret = cs.genTargets(t, st.Alias, true)
	ext := rd.Chance(45)
	var params []param
	if rd.Chance(40) {
		target := core.Pick(rd, cs.shadow[t.Name])
		idp := cs.planCell(&t.Cols[0], target.id)
		if ext && rd.Bool() {
			params = append(params, param{data: idp.ptext})
			st.Where = &Cell{K: 'P', N: 1}
		} else {
			st.Where = &idp.lit
		}
	}
	cs.doSelectStmt(t, st, ext, params, bob)
}

func (cs *caseState) doSelectStmt(t *Tab, st *Stmt, ext bool, params []param, bob *Sess) {
	r := cs.r
	rd := cs.rd
	cols := cs.targetCols(t, st.Alias, st.Ret)
	covered := false
	for _, c := range cols {
		covered = covered || (c != nil && c.Set != nil)
	}
	cs.begin(st, covered, "stmt:select", protoTag(ext))
	rnd := round{st: st, extended: ext, params: params}
	if ext {
		switch rd.Intn(3) {
		case 0:
			rnd.rfmt = []int16{1}
		case 1:
			for range cols {
				rnd.rfmt = append(rnd.rfmt, int16(rd.Intn(2)))
			}
		}
	}
	// a batch under ONE Sync: a row-limited Execute of another statement (its portal stays suspended), then this SELECT
	prefixRows := 0
	if ext && t.Configured && rd.Chance(35) {
		for _, tp := range cs.sch {
			if len(cs.shadow[tp.Name]) >= 2 {
				prefixRows = len(cs.shadow[tp.Name])
				rnd.prefix = &fakepg.Ext{Parse: true, Name: "lim", SQL: "select id from " + tp.Name, Bind: true, Portal: "plim", Execute: true, MaxRows: 1, NoSync: true}
				break
			}
		}
	}
	if ext {
		rnd.poids = cs.declareOIDs(params)
	}
	sent0 := len(cs.w.DB.Sent)
	cin0, cout0 := cs.a.C.Marks()
	din0, dout0 := cs.w.DB.In.Len(), cs.w.DB.Out.Len()
	rs, err := cs.send(cs.a, rnd)
	if err == nil && rnd.prefix != nil {
		if !r.Check(len(rs) >= 2 && rs[0].Suspended && len(rs[0].Rows) == 1 && rs[0].Rows[0][0] != nil, "session-broken", fmt.Sprintf("row-limited Execute in front of %q: the portal was not reported suspended after one row (%v)", st.SQL(), rs)) {
			return
		}
	}
	if err != nil || len(rs) == 0 || rs[len(rs)-1].Err != "" {
		r.Fail("session-broken", fmt.Sprintf("SELECT %q failed through the proxy: %v %v (panic: %v)", st.SQL(), err, rs, cs.a.Panic))
		return
	}
	cin1, cout1 := cs.a.C.Marks()
	res := rs[len(rs)-1]
	// rows: model of the delivery of every DataRow the database sent
	sentRows := cs.w.DB.Sent[sent0:]
	if rnd.prefix != nil {
		// the fake database evaluates the whole row-limited statement when its portal is first executed
		sentRows = sentRows[min(prefixRows, len(sentRows)):]
	}
	fm := fmtsTok(rnd.rfmt)
	for i, row := range sentRows {
		if i >= len(res.Rows) {
			break
		}
		if !ext || len(params) > 0 || true {
			line := fmt.Sprintf("C04.row %s %s %s %s %s", cs.sch.Token(), kvToks(cs.kv), st.Token(), fm, valsTok(row))
			if i < 2 { // stateless op: fresh world per row; two rows per statement are enough
				r.Do(line)
			}
			r.Diff(line, "ok "+valsTok(res.Rows[i]))
		}
	}
	r.Do(fmt.Sprintf("C04.stmt %s %s %s %s %s", map[bool]string{false: "q", true: "p"}[ext], cs.sch.Token(), kvToks(cs.kv), st.Token(), "-"))
	// owner reads the originals
	var expect []*shadowRow
	for _, sr := range cs.shadow[t.Name] {
		if st.Where == nil || whereID(st, params) == sr.id {
			expect = append(expect, sr)
		}
	}
	own := cs.itemsOf(t, cols)
	cs.lastItems = own
	if rnd.prefix != nil {
		// the DataRow of the suspended portal made the proxy remember the settings of THAT statement (one column
		// without setting) before the RowDescription of this one arrived: known finding rowdescription-stale-settings
		cs.lastItems = []*Setting{nil}
	}
	cs.checkRowDescription(t, cols, res, own, st.SQL())
	cs.lastItems = own
	cs.checkOwnerRowsFmt(t, st.Alias, st.Ret, res, expect, st.SQL(), rnd.rfmt)
	// unconfigured table: both directions byte-identical
	if !t.Configured {
		r.Check(bytes.Equal(cs.a.C.Out.Bytes()[cout0:cout1], cs.w.DB.In.Bytes()[din0:]), "uncovered-statement-altered", "SELECT on an unconfigured table reached the database altered: "+st.SQL())
		r.Check(bytes.Equal(cs.a.C.In.Bytes()[cin0:cin1], cs.w.DB.Out.Bytes()[dout0:]), "uncovered-result-altered", "result of a SELECT on an unconfigured table came back altered: "+st.SQL())
	}
	// the keyless client never receives a protected plaintext
	b0, _ := bob.C.Marks()
	brs, err := cs.send(bob, rnd)
	if err != nil || len(brs) == 0 {
		r.Fail("session-broken", fmt.Sprintf("SELECT %q by the keyless client failed: %v (panic: %v)", st.SQL(), err, bob.Panic))
		return
	}
	b1, _ := bob.C.Marks()
	got := bob.C.In.Bytes()[b0:b1]
	for _, v := range cs.secrets {
		if len(v) < 8 {
			continue
		}
		for _, f := range Forms(v) {
			if bytes.Contains(got, f) {
				r.Fail("plaintext-to-keyless-client", fmt.Sprintf("client without keys received plaintext %x of a protected column: %s", v, st.SQL()))
				break
			}
		}
	}
	// … and uncovered columns reach it unchanged
	bres := brs[len(brs)-1]
	for i, sr := range expect {
		if i >= len(bres.Rows) {
			break
		}
		for j, c := range cols {
			if c == nil || c.Set != nil || j >= len(bres.Rows[i]) {
				continue
			}
			want, ok := sr.vals[c.Name]
			gotv := bres.Rows[i][j]
			if !ok {
				r.Check(gotv == nil, "uncovered-column-altered", "NULL in an uncovered column came back non-NULL")
				continue
			}
			if gotv == nil {
				r.Fail("uncovered-column-altered", "uncovered column came back NULL")
				continue
			}
			dec, _ := clientDecode(c.Type.OID(), fmtAt(rnd.rfmt, j), *gotv)
			r.Check(bytes.Equal(dec, want), "uncovered-column-altered", fmt.Sprintf("uncovered column %s.%s: wrote %x, keyless client read %x", t.Name, c.Name, want, dec))
		}
	}
	_ = sort.Ints
}

func fieldOID(res *fakepg.Result, c *Col, j int) uint32 {
	if j < len(res.Fields) {
		return res.Fields[j].DataTypeOID
	}
	return c.Type.OID()
}

func fmtAt(f []int16, i int) bool {
	if len(f) == 0 {
		return false
	}
	if len(f) == 1 {
		return f[0] == 1
	}
	return i < len(f) && f[i] == 1
}

func whereID(st *Stmt, params []param) int {
	if st.Where == nil {
		return -1
	}
	if st.Where.K == 'P' {
		return core.Atoi(string(params[st.Where.N-1].data))
	}
	return core.Atoi(string(st.Where.B))
}

func (cs *caseState) checkOwnerRows(t *Tab, alias string, items []string, rs []*fakepg.Result, expect []*shadowRow, sql string, rfmt []int16) {
	if len(rs) == 0 {
		return
	}
	cols := cs.targetCols(t, alias, items)
	// the settings of a RETURNING list are collected only when its first DataRow is processed
	cs.checkRowDescription(t, cols, rs[len(rs)-1], nil, sql)
	if len(rs[len(rs)-1].Rows) > 0 && t.Configured {
		cs.lastItems = cs.itemsOf(t, cols)
	}
	cs.checkOwnerRowsFmt(t, alias, items, rs[len(rs)-1], expect, sql, rfmt)
}

// typedOID is the type OID handleRowDescription puts in place of the database's for a column setting.
func typedOID(s *Setting, dbOID uint32) uint32 {
	if s == nil {
		return dbOID
	}
	switch s.DType {
	case "str":
		return 25
	case "bytes":
		return 17
	}
	return dbOID
}

// itemsOf is the per-result-column setting list the proxy remembers for a statement (`query_data_items`).
func (cs *caseState) itemsOf(t *Tab, cols []*Col) []*Setting {
	if !t.Configured {
		return nil
	}
	out := make([]*Setting, len(cols))
	for i, c := range cols {
		if c != nil {
			out[i] = c.Set
		}
	}
	return out
}

// checkRowDescription: the RowDescription the client received differs from the database's only in the type
// OIDs of typed protected columns of THIS statement.
func (cs *caseState) checkRowDescription(t *Tab, cols []*Col, res *fakepg.Result, own []*Setting, sql string) {
	if len(res.Fields) == 0 {
		return
	}
	if !cs.r.Check(len(res.Fields) == len(cols), "rowdescription-altered", fmt.Sprintf("%s: RowDescription with %d fields for %d columns", sql, len(res.Fields), len(cols))) {
		return
	}
	for j, c := range cols {
		db := uint32(23)
		if c != nil {
			db = c.Type.OID()
		}
		cur := db
		if len(own) == len(cols) {
			cur = typedOID(own[j], db)
		}
		got := res.Fields[j].DataTypeOID
		if got == cur {
			continue
		}
		stale := db
		if len(cs.lastItems) == len(cols) {
			stale = typedOID(cs.lastItems[j], db)
		}
		if got == stale {
			cs.r.Fail("rowdescription-stale-settings", fmt.Sprintf("%s: column %d is described with type OID %d (database: %d): the settings remembered from an earlier statement were applied", sql, j, got, db))
		} else {
			cs.r.Fail("rowdescription-altered", fmt.Sprintf("%s: column %d is described with type OID %d, expected %d", sql, j, got, cur))
		}
	}
}

// checkOwnerRowsFmt: the owner reads back exactly what was written (every column, protected or not).
func (cs *caseState) checkOwnerRowsFmt(t *Tab, alias string, items []string, res *fakepg.Result, expect []*shadowRow, sql string, rfmt []int16) {
	r := cs.r
	cols := cs.targetCols(t, alias, items)
	if !r.Check(len(res.Rows) == len(expect), "row-count", fmt.Sprintf("%s: expected %d rows, client got %d", sql, len(expect), len(res.Rows))) {
		return
	}
	for i, sr := range expect {
		row := res.Rows[i]
		if !r.Check(len(row) == len(cols), "column-count", fmt.Sprintf("%s: expected %d columns, got %d", sql, len(cols), len(row))) {
			return
		}
		for j, c := range cols {
			if c == nil {
				continue
			}
			want, ok := sr.vals[c.Name]
			class := "uncovered-column-altered"
			if c.Set != nil {
				class = "owner-read-mismatch"
			}
			if !ok {
				r.Check(row[j] == nil, class, fmt.Sprintf("%s: column %s expected NULL", sql, c.Name))
				continue
			}
			if row[j] == nil {
				r.Fail(class, fmt.Sprintf("%s: column %s came back NULL, wrote %x", sql, c.Name, want))
				continue
			}
			// a text-typed protected column is delivered as text only if the proxy knew the statement's
			// settings; the RowDescription the client got says how to read the bytes
			dec, okd := clientDecode(c.Type.OID(), fmtAt(rfmt, j), *row[j])
			if c.Set != nil && c.Set.DType == "str" {
				dec, okd = *row[j], true
			}
			r.Check(okd && bytes.Equal(dec, want), class, fmt.Sprintf("%s: column %s.%s wrote %x, owner read %x (wire %x)", sql, t.Name, c.Name, want, dec, *row[j]))
		}
	}
}
