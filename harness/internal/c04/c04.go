// Package c04: implementation-side ops, generators and oracles for property C04.
package c04
