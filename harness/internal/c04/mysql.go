package c04

import (
	"context"
	crand "crypto/rand"
	"encoding/hex"
	"fmt"
	"strings"

	"github.com/cossacklabs/acra/crypto"
	"github.com/cossacklabs/acra/decryptor/base"
	encryptor "github.com/cossacklabs/acra/encryptor/base"
	"github.com/cossacklabs/acra/encryptor/base/config"
	mysqlenc "github.com/cossacklabs/acra/encryptor/mysql"
	"github.com/cossacklabs/acra/sqlparser"

	"verifharness/internal/core"
	env "verifharness/internal/envops"
)

// MySQL front end at query-encryptor level: the real encryptor/mysql.QueryDataEncryptor over the chain of
// data encryptors decryptor/mysql/proxy.go builds for encryption-only settings, on generated statements.

func mySQL(st *Stmt) string {
	cell := func(c Cell) string {
		switch c.K {
		case 'L':
			return "'" + string(c.B) + "'"
		case 'N':
			return string(c.B)
		case 'P':
			return "?"
		case 'Z':
			return "NULL"
		}
		return "now()"
	}
	var b strings.Builder
	switch st.Kind {
	case 'I':
		b.WriteString("insert into " + st.Table)
		if len(st.Cols) > 0 {
			b.WriteString(" (" + strings.Join(st.Cols, ", ") + ")")
		}
		b.WriteString(" values ")
		for i, r := range st.Rows {
			if i > 0 {
				b.WriteString(", ")
			}
			var cs []string
			for _, c := range r {
				cs = append(cs, cell(c))
			}
			b.WriteString("(" + strings.Join(cs, ", ") + ")")
		}
	case 'U':
		b.WriteString("update " + st.Table)
		if st.Alias != "" {
			b.WriteString(" as " + st.Alias)
		}
		b.WriteString(" set ")
		for i, c := range st.Sets {
			if i > 0 {
				b.WriteString(", ")
			}
			b.WriteString(c + " = " + cell(st.SetV[i]))
		}
		b.WriteString(" where id = 1")
	default:
		return "select 1"
	}
	return b.String()
}

func myCellTok(e sqlparser.Expr, nparam *int) string {
	switch v := e.(type) {
	case *sqlparser.NullVal:
		return "Z"
	case *sqlparser.ValuesFuncExpr:
		return "O1"
	case *sqlparser.ParenExpr:
		return myCellTok(v.Expr, nparam)
	case *sqlparser.SQLVal:
		switch v.Type {
		case sqlparser.StrVal:
			return "L" + core.Hex(v.Val)
		case sqlparser.HexVal:
			b, err := hex.DecodeString(string(v.Val))
			if err != nil {
				return "O0"
			}
			return "L" + core.Hex(b)
		case sqlparser.HexNum:
			b, err := hex.DecodeString(strings.TrimPrefix(string(v.Val), "0x"))
			if err != nil {
				return "O0"
			}
			return "L" + core.Hex(b)
		case sqlparser.IntVal:
			return "N" + core.Hex(v.Val)
		case sqlparser.ValArg:
			*nparam++
			return fmt.Sprintf("P%d", *nparam)
		}
	}
	return "O0"
}

func myDescribe(parser *sqlparser.Parser, sql string) string {
	stmt, err := parser.Parse(sql)
	if err != nil {
		return "X"
	}
	np := 0
	switch s := stmt.(type) {
	case *sqlparser.Insert:
		var cols, rows []string
		for _, c := range s.Columns {
			cols = append(cols, c.String())
		}
		src := "V"
		switch src0 := s.Rows.(type) {
		case sqlparser.Values:
			for _, tup := range src0 {
				var cs []string
				for _, e := range tup {
					cs = append(cs, myCellTok(e, &np))
				}
				rows = append(rows, orNone(cs, ","))
			}
		case *sqlparser.Select:
			src = "S"
			var cs []string
			for _, e := range src0.SelectExprs {
				ae, ok := e.(*sqlparser.AliasedExpr)
				if !ok {
					return "X"
				}
				cs = append(cs, myCellTok(ae.Expr, &np))
			}
			rows = append(rows, orNone(cs, ","))
		default:
			return "X"
		}
		tok := "I:" + s.Table.Name.String() + ":" + orNone(cols, ",") + ":" + orNone(rows, ";") + ":_"
		if len(s.OnDup) > 0 || src == "S" {
			var sets []string
			for _, e := range s.OnDup {
				sets = append(sets, e.Name.Name.String()+"="+myCellTok(e.Expr, &np))
			}
			tok += ":" + orNone(sets, ",") + ":" + src
		}
		return tok
	case *sqlparser.Update:
		if len(s.TableExprs) != 1 {
			return "X"
		}
		at, ok := s.TableExprs[0].(*sqlparser.AliasedTableExpr)
		if !ok {
			return "X"
		}
		tn, ok := at.Expr.(sqlparser.TableName)
		if !ok {
			return "X"
		}
		alias := "_"
		if !at.As.IsEmpty() {
			alias = at.As.String()
		}
		var sets []string
		for _, e := range s.Exprs {
			sets = append(sets, e.Name.Name.String()+"="+myCellTok(e.Expr, &np))
		}
		return "U:" + tn.Name.String() + ":" + alias + ":" + orNone(sets, ",") + ":_"
	}
	return "X"
}

func init() {
	// mystmt schema [kv×4] stmt rnd → the statement after the MySQL query encryptor (literals by value)
	core.Register("C04.mystmt", func(a []string) string {
		sch := parseSchemaTok(a[0])
		ks := &env.TKS{Clients: map[string]*env.KV{"alice": env.ParseKV(a[1:5])}}
		store, err := config.MapTableSchemaStoreFromConfig([]byte(sch.YAML()), config.UseMySQL)
		if err != nil {
			panic("harness: " + err.Error())
		}
		parser := sqlparser.New(sqlparser.ModeDefault)
		registry := crypto.NewRegistryHandler(ks)
		chain := encryptor.NewChainDataEncryptor(crypto.NewEncryptHandler(registry), crypto.NewReEncryptHandler(ks))
		qe, err := mysqlenc.NewQueryEncryptor(store, parser, chain)
		if err != nil {
			panic("harness: " + err.Error())
		}
		cs := &session{data: map[string]interface{}{}}
		ctx := base.SetClientSessionToContext(context.Background(), cs)
		ctx = base.SetAccessContextToContext(ctx, base.NewAccessContext(base.WithClientID([]byte("alice"))))
		cs.ctx = ctx
		sql := mySQL(parseStmtTok(a[5]))
		old := crand.Reader
		crand.Reader = &stream{data: core.UnHex(a[6])}
		defer func() { crand.Reader = old }()
		obj, changed, err := qe.OnQuery(ctx, mysqlenc.NewOnQueryObjectFromQuery(sql, parser))
		out := sql
		if err == nil && changed {
			out = obj.Query()
		}
		return "ok " + myDescribe(parser, out)
	})
}

// mysqlOps: generated INSERT / UPDATE statements (rows of matching and of wrong arity, literals, numbers, NULLs,
// placeholders) through the MySQL query encryptor and the model.
func mysqlOps(r *core.Run) {
	rd := r.Rand
	n := r.N(60, 1500)
	for i := 0; i < n; i++ {
		sch := genSchema(rd)
		kv := env.NewKV(rd, 1, 1)
		t := core.Pick(rd, sch)
		st := &Stmt{Kind: 'I', Table: t.Name}
		val := func(c *Col) Cell {
			switch x := rd.Intn(100); {
			case c.Name == "id":
				return Cell{K: 'N', B: []byte(fmt.Sprint(1 + rd.Intn(1000)))}
			case x < 8:
				return Cell{K: 'Z'}
			case x < 20:
				return Cell{K: 'P'}
			case x < 28:
				return Cell{K: 'N', B: []byte(fmt.Sprint(rd.Intn(100000)))}
			case x < 31:
				return Cell{K: 'L', B: []byte{}}
			}
			return Cell{K: 'L', B: marker(rd, true)}
		}
		covered := false
		if rd.Chance(70) {
			cols := t.Cols
			if rd.Bool() {
				for j := range cols {
					if rd.Chance(75) || j == 0 {
						st.Cols = append(st.Cols, cols[j].Name)
					}
				}
			}
			names := st.Cols
			if len(names) == 0 {
				for _, c := range cols {
					names = append(names, c.Name)
				}
			}
			np := 0
			for k := 1 + rd.Intn(3); k > 0; k-- {
				var row []Cell
				m := len(names)
				if rd.Chance(15) { // wrong arity
					m = 1 + rd.Intn(len(names)+1)
				}
				for j := 0; j < m; j++ {
					c := t.col(names[j%len(names)])
					if j >= len(names) {
						c = &Col{Name: "extra"}
					}
					v := val(c)
					if v.K == 'P' {
						np++
						v.N = np
					}
					covered = covered || c.Set != nil
					row = append(row, v)
				}
				st.Rows = append(st.Rows, row)
			}
		} else {
			st.Kind = 'U'
			if rd.Chance(25) {
				st.Alias = "x"
			}
			np := 0
			for j := range t.Cols[1:] {
				c := &t.Cols[1+j]
				if rd.Chance(60) {
					v := val(c)
					if v.K == 'P' {
						np++
						v.N = np
					}
					covered = covered || c.Set != nil
					st.Sets = append(st.Sets, c.Name)
					st.SetV = append(st.SetV, v)
				}
			}
			if len(st.Sets) == 0 {
				continue
			}
		}
		line := fmt.Sprintf("C04.mystmt %s %s %s %s", sch.Token(), kv.Tokens(), st.Token(), core.Hex(rd.Bytes(2048)))
		r.Begin("my|"+sch.Token()+"|"+st.Token(), covered, "case:mysql-query-encryptor")
		out := r.Do(line)
		// ORACLE: no protected literal survives in the forwarded statement
		if tt := sch.tab(st.Table); tt != nil && tt.Configured {
			fw := parseStmtTok(strings.TrimPrefix(out, "ok "))
			check := func(col string, before Cell, after Cell) {
				c := tt.col(col)
				if c == nil || c.Set == nil || before.K != 'L' && before.K != 'N' || len(before.B) == 0 {
					return
				}
				r.Check(string(after.B) != string(before.B), "plaintext-at-database", fmt.Sprintf("MySQL query encryptor left the value of protected column %s.%s in clear: %s", st.Table, col, mySQL(st)))
			}
			if st.Kind == 'I' && fw.Kind == 'I' && len(fw.Rows) == len(st.Rows) {
				names := st.Cols
				if len(names) == 0 && !tt.NoColumns {
					for _, c := range tt.Cols {
						names = append(names, c.Name)
					}
				}
				for ri, row := range st.Rows {
					for j, c := range row {
						if j < len(names) && j < len(fw.Rows[ri]) {
							check(names[j], c, fw.Rows[ri][j])
						}
					}
				}
			}
			if st.Kind == 'U' && fw.Kind == 'U' && len(fw.SetV) == len(st.SetV) {
				for j, c := range st.SetV {
					check(st.Sets[j], c, fw.SetV[j])
				}
			}
		}
	}
}
