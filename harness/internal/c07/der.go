package c07

import (
	stdasn1 "encoding/asn1"
	"fmt"
	"strings"
	"time"

	"github.com/cossacklabs/acra/keystore/v2/keystore/asn1"

	"verifharness/internal/core"
)

// ring tokens (shared syntax with the C18 driver): <path hex>;<current>;<key>|…  key =
// <seq>,<state>,<since>,<until>,<data>&…  data = <format>:<pub>:<priv>:<sym>
func parseRingToken(s string) asn1.KeyRing {
	f := strings.Split(s, ";")
	r := asn1.KeyRing{Purpose: core.UnHex(f[0]), Current: core.Atoi(f[1]), Keys: []asn1.Key{}}
	if f[2] == "-" {
		return r
	}
	for _, ks := range strings.Split(f[2], "|") {
		g := strings.Split(ks, ",")
		k := asn1.Key{Seqnum: core.Atoi(g[0]), State: asn1.KeyState(core.Atoi(g[1])),
			ValidSince: time.Unix(int64(core.Atoi(g[2])), 0).UTC(), ValidUntil: time.Unix(int64(core.Atoi(g[3])), 0).UTC(), Data: []asn1.KeyData{}}
		if g[4] != "-" {
			for _, ds := range strings.Split(g[4], "&") {
				h := strings.Split(ds, ":")
				d := asn1.KeyData{Format: asn1.KeyFormat(core.Atoi(h[0]))}
				if b := core.UnHex(h[1]); len(b) > 0 {
					d.PublicKey = b
				}
				if b := core.UnHex(h[2]); len(b) > 0 {
					d.PrivateKey = b
				}
				if b := core.UnHex(h[3]); len(b) > 0 {
					d.SymmetricKey = b
				}
				k.Data = append(k.Data, d)
			}
		}
		r.Keys = append(r.Keys, k)
	}
	return r
}

func init() {
	core.Register("C07.der.int", func(a []string) string {
		b, err := stdasn1.Marshal(core.Atoi(a[0]))
		if err != nil {
			return core.Err
		}
		return core.Hex(b)
	})
	core.Register("C07.der.time", func(a []string) string {
		b, err := stdasn1.MarshalWithParams(time.Unix(int64(core.Atoi(a[0])), 0).UTC(), "utc")
		if err != nil {
			return core.Err
		}
		return core.Hex(b)
	})
	core.Register("C07.der.ring", func(a []string) string {
		b, err := stdasn1.Marshal(parseRingToken(a[0]))
		if err != nil {
			return core.Err
		}
		return core.Hex(b)
	})
	core.Register("C07.der.keys", func(a []string) string {
		ek := asn1.EncryptedKeys{KeyRings: []asn1.KeyRing{}}
		for _, t := range a[1:] {
			ek.KeyRings = append(ek.KeyRings, parseRingToken(t))
		}
		b, err := ek.Marshal()
		if err != nil {
			return core.Err
		}
		return core.Hex(b)
	})
}

func genRingToken(rd *core.Rand) string {
	paths := []string{"a", "client/alice/storage", "poison-record", strings.Repeat("p", 130), ""}
	var keys []string
	nk := rd.Intn(4)
	for i := 0; i < nk; i++ {
		var data []string
		nd := rd.Intn(3)
		for j := 0; j < nd; j++ {
			lens := []int{0, 1, 32, 45, 76, 89, 120, 127, 128, 200, 300}
			f := core.Pick(rd, []int{1, 3, 2, 0, 127, 128, 255, 256})
			data = append(data, fmt.Sprintf("%d:%s:%s:%s", f, core.Hex(rd.Bytes(core.Pick(rd, lens))), core.Hex(rd.Bytes(core.Pick(rd, lens))), core.Hex(rd.Bytes(core.Pick(rd, lens)))))
		}
		ds := "-"
		if len(data) > 0 {
			ds = strings.Join(data, "&")
		}
		seq := core.Pick(rd, []int{1, 2, 3, 127, 128, 255, 256, 32767, 32768, 65536, 1 << 31, -1, -128, -129, 0})
		since := int64(rd.Intn(2000000000)) // 1970..2033
		keys = append(keys, fmt.Sprintf("%d,%d,%d,%d,%s", seq, 1+rd.Intn(6), since, since+int64(rd.Intn(400000000)), ds))
	}
	ks := "-"
	if len(keys) > 0 {
		ks = strings.Join(keys, "|")
	}
	return fmt.Sprintf("%s;%d;%s", core.Hex([]byte(core.Pick(rd, paths))), core.Pick(rd, []int{-1, 1, 2, 3, 200}), ks)
}

func runDer(r *core.Run) {
	rd := r.Rand.Fork()
	for _, n := range []int{0, 1, -1, 127, 128, -128, -129, 255, 256, 32767, 32768, -32768, -32769, 1 << 23, 1<<31 - 1, 1 << 31, -(1 << 31), 1 << 40, -(1 << 40), 1<<62 + 5} {
		r.Begin(fmt.Sprint("int", n), true, "stream:der")
		r.Do(fmt.Sprintf("C07.der.int %d", n))
	}
	for _, t := range []int64{0, 1, 59, 86399, 86400, 951782400, 951868800, 1078099200, 1582934400, 1583020800, 1600000000, 2524607999, 946684799, 946684800, 4102444799 % 2524608000} {
		r.Begin(fmt.Sprint("time", t), true, "stream:der")
		r.Do(fmt.Sprintf("C07.der.time %d", t))
	}
	n := r.N(150, 5000)
	for i := 0; i < n; i++ {
		r.Begin(fmt.Sprint("der", i), true, "stream:der")
		r.Do(fmt.Sprintf("C07.der.int %d", int64(rd.U64()>>uint(rd.Intn(64)))*int64(1-2*rd.Intn(2))))
		r.Do(fmt.Sprintf("C07.der.time %d", rd.Intn(2524608000)))
		tok := genRingToken(rd)
		r.Do("C07.der.ring " + tok)
		k := rd.Intn(4)
		l := fmt.Sprintf("C07.der.keys %d", k)
		for j := 0; j < k; j++ {
			l += " " + genRingToken(rd)
		}
		r.Do(l)
	}
}
