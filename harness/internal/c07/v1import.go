package c07

import (
	"bytes"
	"context"
	"encoding/gob"
	"fmt"
	"os"
	"path/filepath"
	"sort"
	"strings"

	keystoreV1 "github.com/cossacklabs/acra/keystore"
	fsV1 "github.com/cossacklabs/acra/keystore/filesystem"

	"verifharness/internal/core"
)

// KeyBackuper.Import of the v1 key store writes every key of the bundle to filepath.Join(key folder,
// key.Name): the NAMES inside a bundle are key paths handed to the key store. A bundle is sealed under
// keys that travel with it (KeysBackup.Keys), so whoever makes the bundle chooses the names.
// Model: Path.importPath (the same join-and-Rel containment as the v2 back end's osPath, without the
// separator replacement); op C07.v1.import.

func sealBundle(name string, content []byte) *keystoreV1.KeysBackup {
	keys := []*keystoreV1.Key{{Name: name, Content: append([]byte{}, content...)}}
	var buf bytes.Buffer
	if err := gob.NewEncoder(&buf).Encode(keys); err != nil {
		panic("harness: " + err.Error())
	}
	access := []byte("c07-v1-bundle-access-key-32bytes")
	enc, _ := keystoreV1.NewSCellKeyEncryptor(access)
	data, err := enc.Encrypt(context.Background(), buf.Bytes(), keystoreV1.NewEmptyKeyContext(nil))
	if err != nil {
		panic("harness: " + err.Error())
	}
	return &keystoreV1.KeysBackup{Data: data, Keys: access}
}

// importOnce: the real Import of a one-key bundle into a fresh key folder; returns ok/err and every
// file of the sandbox afterwards, relative to the key folder ("../x" = outside)
func importOnce(name string) (string, []string) {
	sb := newSandbox()
	defer sb.close()
	if err := os.MkdirAll(sb.root, 0o700); err != nil {
		panic("harness: " + err.Error())
	}
	enc, _ := keystoreV1.NewSCellKeyEncryptor(v1Master)
	bk, err := fsV1.NewKeyBackuper(sb.root, "", &fsV1.DummyStorage{}, enc, nil)
	if err != nil {
		panic("harness: " + err.Error())
	}
	_, ierr := bk.Import(sealBundle(name, []byte("imported-key-material-0123456789abcdefghijklm")))
	var files []string
	for _, f := range sb.files() {
		rel, _ := filepath.Rel(sb.root, filepath.Join(sb.top, f))
		files = append(files, rel)
	}
	sort.Strings(files)
	if ierr != nil {
		return core.Err, files
	}
	return "ok", files
}

func init() {
	// C07.v1.import <name>: "ok|err <n> <file hex>…"
	core.Register("C07.v1.import", func(a []string) string {
		name := string(core.UnHex(a[0]))
		full := filepath.Join(newSandboxRootTemplate, name)
		if full != newSandboxTopTemplate && !strings.HasPrefix(full, newSandboxTopTemplate+"/") {
			return "unsafe"
		}
		res, files := importOnce(name)
		out := fmt.Sprintf("%s %d", res, len(files))
		for _, f := range files {
			out += " " + core.Hex([]byte(f))
		}
		return out
	})
}

var importNames = []string{
	"../escaped.pub", "../escaped_storage", "a/../../x.pub", "../../victim_storage_sym", "..", "../", ".", "", "/abs_storage.pub", "/abs/olute_hmac",
	"x/../y_storage.pub", "client_a_storage", "client_a_storage.pub", "client_a_storage_sym", ".poison_key/poison_key", ".poison_key/poison_key.pub",
	"client_a_storage.old/2024-01-02T03:04:05.6", "sub/dir/client_a_hmac", "../root/client_a_hmac", "..a_storage", "a/..b_hmac", "client\\a_hmac", "..\\x_hmac",
}

func runV1Import(r *core.Run) {
	rd := r.Rand.Fork()
	one := func(name, tag string) {
		r.Begin("v1import:"+name, isNontrivialPath(name), "stream:v1-import", tag)
		out := r.Impl("C07.v1.import " + core.Hex([]byte(name)))
		if out == "unsafe" {
			r.Tag("import:skipped-unsafe")
			return
		}
		f := strings.Fields(out)
		var files []string
		for _, h := range f[2:] {
			files = append(files, string(core.UnHex(h)))
		}
		for _, c := range files {
			r.Check(c != ".." && !strings.HasPrefix(c, "../"), "v1-import-name-escapes", fmt.Sprintf("KeyBackuper.Import of a bundle with the key name %q created %q (relative to the key folder): a file outside the key folder", name, c))
		}
		// the model: where the key goes, or the refusal
		mod := r.ModelOnly("C07.importpath " + core.Hex([]byte(newSandboxRootTemplate)) + " " + core.Hex([]byte(name)))
		want := ""
		if strings.HasPrefix(mod, "ok ") {
			want, _ = filepath.Rel(newSandboxRootTemplate, string(core.UnHex(strings.TrimPrefix(mod, "ok "))))
		}
		switch {
		case f[0] == "ok" && (len(files) != 1 || files[0] != want):
			r.Disagreements = append(r.Disagreements, core.Disagreement{Op: "C07.v1.import " + core.Hex([]byte(name)), Impl: out, Model: mod, Case: name})
		case f[0] == core.Err && strings.HasPrefix(mod, "ok ") && knownImportable(name):
			r.Disagreements = append(r.Disagreements, core.Disagreement{Op: "C07.v1.import " + core.Hex([]byte(name)), Impl: out, Model: mod, Case: name})
		}
		r.Tag("import:" + f[0])
	}
	for _, n := range importNames {
		one(n, "corpus")
	}
	for i := r.N(60, 3000); i > 0; i-- {
		n := genKeyPath(rd, sandboxDepth)
		if rd.Chance(60) {
			n += core.Pick(rd, []string{"_storage", "_storage.pub", "_hmac", "_storage_sym", ".pub"})
		}
		one(n, "generated")
	}
}

// knownImportable: names Import accepts for other reasons too (DescribeKeyFile recognises the base
// name, no component is a file): only these are compared in the "model says ok, Import failed" direction
func knownImportable(name string) bool {
	switch name {
	case "client_a_storage", "client_a_storage.pub", "client_a_storage_sym", ".poison_key/poison_key", ".poison_key/poison_key.pub", "sub/dir/client_a_hmac":
		return true
	}
	return false
}
