package c07

import (
	"bytes"
	"fmt"
	"os"
	"path/filepath"
	"sort"
	"strconv"
	"strings"
	"syscall"

	keystoreV1 "github.com/cossacklabs/acra/keystore"
	fsV1 "github.com/cossacklabs/acra/keystore/filesystem"
	"github.com/cossacklabs/acra/keystore/v2/keystore/filesystem/backend"

	"verifharness/internal/core"
)

// Permission discipline and symbolic links (model: lean/AcraModel/KeystoreSec/Perms.lean, driver ops
// C07.perm.*). Real key stores of both formats over the real file system, under real umasks.

func octal(m os.FileMode) string { return strconv.FormatUint(uint64(m.Perm()), 8) }

func parseOctal(s string) os.FileMode {
	v, err := strconv.ParseUint(s, 8, 32)
	if err != nil {
		panic("harness: bad octal " + s)
	}
	return os.FileMode(v)
}

// withUmask runs f under the given process umask (the harness runs its cases sequentially)
func withUmask(u os.FileMode, f func()) {
	old := syscall.Umask(int(u))
	defer syscall.Umask(old)
	f()
}

// classifyV1 / classifyV2: which creation site of the model an entry of the key folder belongs to
func classifyV1(rel string, isDir bool) string {
	if isDir {
		if rel == "." || rel == ".poison_key" || strings.HasSuffix(rel, ".old") {
			return "v1.dir"
		}
		return "unknown"
	}
	name := rel
	if d := filepath.Dir(rel); strings.HasSuffix(d, ".old") { // a rotated key: judged by the file it was
		name = strings.TrimSuffix(d, ".old")
	}
	if strings.HasSuffix(name, ".pub") {
		return "v1.public"
	}
	return "v1.private"
}

func classifyV2(rel string, isDir bool) string {
	switch {
	case isDir:
		return "v2.dir"
	case rel == ".lock":
		return "v2.lock"
	case rel == "version":
		return "v2.version"
	case strings.HasSuffix(rel, ".keyring"):
		return "v2.file"
	}
	return "unknown"
}

// statTree: every entry of the key folder (the folder itself is "."), as "<site>:<octal mode>:<hex rel>"
func statTree(root string, classify func(string, bool) string) []string {
	var out []string
	filepath.Walk(root, func(p string, info os.FileInfo, err error) error {
		if err != nil {
			return nil
		}
		rel, _ := filepath.Rel(root, p)
		out = append(out, fmt.Sprintf("%s:%s:%s", classify(rel, info.IsDir()), octal(info.Mode()), core.Hex([]byte(rel))))
		return nil
	})
	sort.Strings(out)
	return out
}

func permHistory(format string, umask os.FileMode, seed int) []string {
	sb := newSandbox()
	defer sb.close()
	rd := core.NewRand(uint64(seed)*7919 + uint64(umask))
	var out []string
	withUmask(umask, func() {
		switch format {
		case "v1":
			enc, _ := keystoreV1.NewSCellKeyEncryptor(v1Master)
			cache := core.Pick(rd, []int{keystoreV1.WithoutCache, keystoreV1.InfiniteCacheSize, 2})
			// the key folder does not exist yet: the key store creates it with its first write
			ks, err := fsV1.NewCustomFilesystemKeyStore().KeyDirectory(sb.root).Encryptor(enc).CacheSize(cache).Build()
			if err != nil {
				panic("harness: " + err.Error())
			}
			ids := []string{"client_a", "client-b", "x y z 1"}
			for n := 8 + rd.Intn(25); n > 0; n-- {
				id := []byte(core.Pick(rd, ids))
				switch rd.Intn(14) {
				case 0, 1:
					ks.GenerateDataEncryptionKeys(id)
				case 2, 3:
					ks.GenerateClientIDSymmetricKey(id)
				case 4:
					ks.GenerateHmacKey(id)
				case 5:
					ks.GeneratePoisonKeyPair()
				case 6:
					ks.GeneratePoisonSymmetricKey()
				case 7:
					ks.GenerateLogKey()
				case 8:
					ks.GenerateConnectorKeys(id)
					ks.GenerateServerKeys(id)
					ks.GenerateTranslatorKeys(id)
				case 9:
					ks.DestroyClientIDSymmetricKey(id)
				case 10:
					ks.DestroyRotatedClientIDEncryptionKeyPair(id, 2)
				case 11:
					ks.GetClientIDSymmetricKeys(id)
					ks.GetServerDecryptionPrivateKeys(id)
				case 12:
					ks.DestroyClientIDEncryptionKeyPair(id)
				case 13:
					ks.GenerateDataEncryptionKeys(id)
					ks.GenerateDataEncryptionKeys(id)
				}
			}
			ks.GenerateDataEncryptionKeys([]byte("client_a")) // never empty
			out = statTree(sb.root, classifyV1)
		case "v2":
			w := newV2World(sb.root)
			for n := 6 + rd.Intn(20); n > 0; n-- {
				w.randomOp(rd)
			}
			out = statTree(sb.root, classifyV2)
			w.lb.Backend.Close()
		default:
			panic("harness: format " + format)
		}
	})
	return out
}

// permOpen: a key store opened over an existing directory of the given mode
func permOpen(kind string, mode os.FileMode) string {
	sb := newSandbox()
	defer sb.close()
	defer os.Chmod(sb.root, 0o700)
	res := core.Err
	switch kind {
	case "v1":
		if err := os.Mkdir(sb.root, 0o700); err != nil {
			panic("harness: " + err.Error())
		}
		os.Chmod(sb.root, mode)
		enc, _ := keystoreV1.NewSCellKeyEncryptor(v1Master)
		if _, err := fsV1.NewCustomFilesystemKeyStore().KeyDirectory(sb.root).Encryptor(enc).Build(); err == nil {
			res = "ok"
		}
	case "v2create":
		if err := os.Mkdir(sb.root, 0o700); err != nil {
			panic("harness: " + err.Error())
		}
		os.Chmod(sb.root, mode)
		if b, err := backend.CreateDirectoryBackend(sb.root); err == nil {
			b.Close()
			res = "ok"
		}
	case "v2open":
		b, err := backend.CreateDirectoryBackend(sb.root)
		if err != nil {
			panic("harness: " + err.Error())
		}
		b.Close()
		os.Chmod(sb.root, mode)
		if b, err := backend.OpenDirectoryBackend(sb.root); err == nil {
			b.Close()
			res = "ok"
		}
	default:
		panic("harness: kind " + kind)
	}
	return res
}

// permLoad: the private key of a key pair read back after its file was given another mode
func permLoad(mode os.FileMode) string {
	sb := newSandbox()
	defer sb.close()
	enc, _ := keystoreV1.NewSCellKeyEncryptor(v1Master)
	ks, err := fsV1.NewCustomFilesystemKeyStore().KeyDirectory(sb.root).Encryptor(enc).CacheSize(keystoreV1.WithoutCache).Build()
	if err != nil {
		panic("harness: " + err.Error())
	}
	id := []byte("client_a")
	if err := ks.GenerateDataEncryptionKeys(id); err != nil {
		panic("harness: " + err.Error())
	}
	if err := os.Chmod(filepath.Join(sb.root, "client_a_storage"), mode); err != nil {
		panic("harness: " + err.Error())
	}
	if _, err := ks.GetServerDecryptionPrivateKey(id); err != nil {
		return core.Err
	}
	return "ok"
}

func init() {
	core.Register("C07.perm.hist", func(a []string) string {
		out := permHistory(a[0], parseOctal(a[1]), core.Atoi(a[2]))
		return fmt.Sprintf("%d %s", len(out), strings.Join(out, " "))
	})
	core.Register("C07.perm.open", func(a []string) string { return permOpen(a[0], parseOctal(a[1])) })
	core.Register("C07.perm.load", func(a []string) string { return permLoad(parseOctal(a[0])) })
	// replayable form of the per-entry comparison: <site> <umask> => <observed mode>
	core.Register("C07.perm.effective", func(a []string) string { return a[len(a)-1] })
}

// quickMode: the modes whose three octal digits are 0, 7, 6 or `mid` (64 of the 512)
func quickMode(m int, mid int) bool {
	for i := 0; i < 3; i++ {
		d := (m >> (3 * i)) & 7
		if d != 0 && d != 7 && d != 6 && d != mid {
			return false
		}
	}
	return true
}

var permUmasks = []os.FileMode{0o022, 0o000, 0o027, 0o077}

func runPerms(r *core.Run) {
	rd := r.Rand.Fork()
	uid0 := b01(os.Geteuid() == 0)
	// 1. modes of everything the key stores create, after random histories, under real umasks
	for _, format := range []string{"v1", "v2"} {
		for _, um := range permUmasks {
			for k := r.N(1, 12); k > 0; k-- {
				seed := rd.Intn(1 << 20)
				r.Begin(fmt.Sprintf("perm:%s:%o:%d", format, um, seed), true, "stream:perm-history", "format:"+format, fmt.Sprintf("umask:%03o", um))
				out := r.Impl(fmt.Sprintf("C07.perm.hist %s %o %d", format, um, seed))
				seen := map[string]bool{}
				for _, e := range strings.Fields(out)[1:] {
					f := strings.SplitN(e, ":", 3)
					site, mode, rel := f[0], f[1], string(core.UnHex(f[2]))
					r.Tag("site:" + site)
					if !r.Check(site != "unknown", "perm-unclassified-entry", fmt.Sprintf("%s key store left %q (mode %s): not a file or directory the model knows", format, rel, mode)) {
						continue
					}
					m := parseOctal(mode)
					if site == "v1.dir" || site == "v1.private" || site == "v2.dir" || site == "v2.file" {
						r.Check(m&0o077 == 0, "perm-private-material-exposed", fmt.Sprintf("%s key store, umask %03o: %q holds private material and has mode %s (group/other bits set)", format, um, rel, mode))
					}
					if site == "v1.dir" || site == "v2.dir" {
						r.Check(m&0o700 == 0o700, "perm-directory-unusable", fmt.Sprintf("%s key store, umask %03o: directory %q has mode %s", format, um, rel, mode))
					}
					if !seen[site+mode] {
						seen[site+mode] = true
						r.Diff(fmt.Sprintf("C07.perm.effective %s %o => %s", site, um, mode), mode)
					}
				}
			}
		}
	}
	// 2. an existing directory with other permissions: every one of the 512 modes
	for _, kind := range []string{"v1", "v2create", "v2open"} {
		for m := 0; m < 512; m++ {
			if !r.Thorough() && !quickMode(m, 0o5) && m != 0o701 && m != 0o710 && !rd.Chance(4) {
				continue
			}
			r.Begin(fmt.Sprintf("permopen:%s:%o", kind, m), m != 0o700, "stream:perm-open", "kind:"+kind)
			out := r.Do(fmt.Sprintf("C07.perm.open %s %o", kind, m))
			if m&0o077 != 0 {
				r.Check(out == core.Err, "perm-wide-directory-accepted", fmt.Sprintf("%s: a key directory of mode %03o is accepted", kind, m))
			}
			if m == 0o700 {
				r.Check(out == "ok", "perm-proper-directory-refused", kind+": a key directory of mode 0700 is refused")
			}
			r.Tag("open:" + out)
		}
	}
	// 3. loadPrivateKey's check on the key file (numeric comparison – modelled as it is)
	for m := 0; m < 512; m++ {
		if !r.Thorough() && !quickMode(m, 0o4) && m != 0o601 && m != 0o577 && !rd.Chance(4) {
			continue
		}
		r.Begin(fmt.Sprintf("permload:%o", m), m != 0o600, "stream:perm-load")
		out := r.Impl(fmt.Sprintf("C07.perm.load %o", m))
		r.Diff(fmt.Sprintf("C07.perm.load %o %s", m, uid0), out)
		if m&0o077 != 0 && out == "ok" {
			r.Tag("load:group-other-readable-file-accepted") // 0444 < 0600 numerically: see docs/selftest-C07.md
		}
		if m == 0o600 {
			r.Check(out == "ok", "perm-proper-file-refused", "a private key file of mode 0600 is refused")
		}
	}
}

// runSymlinks documents what the code does with symbolic links somebody with write access to the
// key folder has planted (no O_NOFOLLOW, no Lstat anywhere): they are followed. This is outside the
// attacker model of the property (hostile ids / key paths, not a hostile file system) and is part of
// the trusted base; the observations are recorded as tags and extras, never as failures. What IS
// checked: the key stores themselves never create a symbolic link (tree walks of the access stream).
func runSymlinks(r *core.Run) {
	r.Begin("symlink:v1", true, "stream:symlink")
	func() {
		sb := newSandbox()
		defer sb.close()
		os.MkdirAll(sb.root, 0o700)
		enc, _ := keystoreV1.NewSCellKeyEncryptor(v1Master)
		ks, err := fsV1.NewCustomFilesystemKeyStore().KeyDirectory(sb.root).Encryptor(enc).CacheSize(keystoreV1.WithoutCache).Build()
		if err != nil {
			panic("harness: " + err.Error())
		}
		secret := []byte("outside-key-material-0123456789a")
		outside := filepath.Join(filepath.Dir(sb.root), "outside_key")
		sealed, _ := enc.Encrypt(nil, secret, keystoreV1.NewClientIDKeyContext(keystoreV1.PurposeStorageClientSymmetricKey, []byte("linkd")))
		os.WriteFile(outside, sealed, 0o600)
		if os.Symlink(outside, filepath.Join(sb.root, "linkd_storage_sym")) != nil {
			r.Tag("symlink:unsupported")
			return
		}
		k, err := ks.GetClientIDSymmetricKey([]byte("linkd"))
		followed := err == nil && bytes.Equal(k, secret)
		r.Extra["symlink_v1_read_followed"] = followed
		r.Tag(fmt.Sprintf("symlink:v1-read-followed=%v", followed))
		// a write goes to a temporary file that is renamed over the link: the target stays as it was
		werr := ks.GenerateClientIDSymmetricKey([]byte("linkd"))
		after, _ := os.ReadFile(outside)
		li, _ := os.Lstat(filepath.Join(sb.root, "linkd_storage_sym"))
		replaced := werr == nil && bytes.Equal(after, sealed) && li != nil && li.Mode()&os.ModeSymlink == 0
		r.Extra["symlink_v1_write_replaces_link"] = replaced
		r.Tag(fmt.Sprintf("symlink:v1-write-replaces-link=%v", replaced))
		// (a write THROUGH the link would change the file outside; planted links are outside the attacker
		// model of the statement, so this too is recorded, not judged)
		r.Extra["symlink_v1_outside_file_unchanged"] = bytes.Equal(after, sealed)
	}()
	r.Begin("symlink:v2", true, "stream:symlink")
	func() {
		sb := newSandbox()
		defer sb.close()
		b, err := backend.CreateDirectoryBackend(sb.root)
		if err != nil {
			panic("harness: " + err.Error())
		}
		defer b.Close()
		outdir := filepath.Join(filepath.Dir(sb.root), "outside_dir")
		os.Mkdir(outdir, 0o700)
		os.MkdirAll(filepath.Join(sb.root, "client"), 0o700)
		if os.Symlink(outdir, filepath.Join(sb.root, "client", "mallory")) != nil {
			r.Tag("symlink:unsupported")
			return
		}
		perr := b.Put("client/mallory/storage.keyring", []byte("ring"))
		_, serr := os.Stat(filepath.Join(outdir, "storage.keyring"))
		followed := perr == nil && serr == nil
		r.Extra["symlink_v2_put_followed"] = followed
		r.Tag(fmt.Sprintf("symlink:v2-put-followed=%v", followed))
	}()
}
