package c07

import (
	"fmt"
	"os"
	"path/filepath"
	"sort"
	"strings"

	"github.com/cossacklabs/acra/keystore/v2/keystore/filesystem/backend"

	"verifharness/internal/core"
)

// The sandbox: <S>/l1/l2/l3/root is the keystore root. Key paths with at most `sandboxDepth`
// leading ".." stay inside <S> even when the back end lets them escape the root, so the harness can
// run the real Put on them and look where the file went.
const sandboxDepth = 3

type sandbox struct {
	top  string // <S>
	root string // <S>/l1/l2/l3/root
}

func newSandbox() *sandbox {
	top, err := os.MkdirTemp("", "verif-c07-")
	if err != nil {
		panic("harness: " + err.Error())
	}
	top, _ = filepath.EvalSymlinks(top)
	root := filepath.Join(top, "l1", "l2", "l3", "root")
	if err := os.MkdirAll(filepath.Dir(root), 0o700); err != nil {
		panic("harness: " + err.Error())
	}
	return &sandbox{top: top, root: root}
}

func (s *sandbox) close() { os.RemoveAll(s.top) }

// files lists all regular files under the sandbox top, relative to it.
func (s *sandbox) files() []string {
	var out []string
	filepath.Walk(s.top, func(p string, info os.FileInfo, err error) error {
		if err == nil && !info.IsDir() {
			rel, _ := filepath.Rel(s.top, p)
			out = append(out, rel)
		}
		return nil
	})
	sort.Strings(out)
	return out
}

var (
	pathSandbox *sandbox
	pathBackend *backend.DirectoryBackend
)

func sharedBackend() (*sandbox, *backend.DirectoryBackend) {
	if pathSandbox == nil {
		pathSandbox = newSandbox()
		b, err := backend.CreateDirectoryBackend(pathSandbox.root)
		if err != nil {
			panic("harness: " + err.Error())
		}
		pathBackend = b
	}
	return pathSandbox, pathBackend
}

func closeShared() {
	if pathSandbox != nil {
		pathBackend.Close()
		pathSandbox.close()
		pathSandbox, pathBackend = nil, nil
	}
}

// staysInSandbox says whether the lexically resolved path stays inside the sandbox top even if the
// back end performs no containment check at all (safety guard of the harness itself).
func staysInSandbox(s *sandbox, keyPath string) bool {
	full := filepath.Join(s.root, strings.NewReplacer("\\", "/").Replace(keyPath))
	return full == s.top || strings.HasPrefix(full, s.top+"/")
}

func init() {
	core.Register("C07.clean", func(a []string) string { return core.Hex([]byte(filepath.Clean(string(core.UnHex(a[0]))))) })
	core.Register("C07.join", func(a []string) string {
		return core.Hex([]byte(filepath.Join(string(core.UnHex(a[0])), string(core.UnHex(a[1])))))
	})
	core.Register("C07.rel", func(a []string) string {
		r, err := filepath.Rel(string(core.UnHex(a[0])), string(core.UnHex(a[1])))
		if err != nil {
			return core.Err
		}
		return core.OkHex([]byte(r))
	})
	// C07.ospath <root> <keypath>: the real DirectoryBackend.osPath of a back end rooted at <root>.
	// The root argument is symbolic: "-" stands for the shared sandbox root; the answer is rendered
	// relative to the sandbox so that it does not depend on the temp dir name.
	core.Register("C07.ospath.real", func(a []string) string {
		_, b := sharedBackend()
		p, err := b.VerifOSPath(string(core.UnHex(a[0])))
		if err != nil {
			return core.Err
		}
		return core.OkHex([]byte(p))
	})
	// C07.put <keypath> <data>: real Put into a fresh back end; reports every file that exists
	// afterwards in the whole sandbox except the two bookkeeping files, relative to the ROOT
	// ("../x" = outside the root), or "err".
	core.Register("C07.put", func(a []string) string {
		keyPath := string(core.UnHex(a[0]))
		s := newSandbox()
		defer s.close()
		if !staysInSandbox(s, keyPath) {
			return "unsafe"
		}
		b, err := backend.CreateDirectoryBackend(s.root)
		if err != nil {
			panic("harness: " + err.Error())
		}
		defer b.Close()
		perr := b.Put(keyPath, core.UnHex(a[1]))
		var created []string
		for _, f := range s.files() {
			rel, _ := filepath.Rel(s.root, filepath.Join(s.top, f))
			if rel == ".lock" || rel == "version" {
				continue
			}
			created = append(created, rel)
		}
		res := "ok"
		if perr != nil {
			res = "err"
		}
		return fmt.Sprintf("%s %d %s", res, len(created), core.Hex([]byte(strings.Join(created, "\n"))))
	})
}

var compAlphabet = []string{"..", "..", "..", ".", "", "a", "b", "client", "storage.keyring", "..a", "a..", "...", ". .", ".lock", "version", "x y", "-", "_"}

func genKeyPath(rd *core.Rand, maxDD int) string {
	n := 1 + rd.Intn(6)
	var sb strings.Builder
	if rd.Chance(15) {
		sb.WriteByte("/\\"[rd.Intn(2)])
	}
	dd := 0
	for i := 0; i < n; i++ {
		c := core.Pick(rd, compAlphabet)
		if c == ".." {
			if dd >= maxDD {
				c = "a"
			} else {
				dd++
			}
		}
		if i > 0 {
			sb.WriteByte("/\\"[rd.Intn(2)])
		}
		sb.WriteString(c)
	}
	if rd.Chance(15) {
		sb.WriteByte("/\\"[rd.Intn(2)])
	}
	return sb.String()
}

// witnesses of DESIGN §8 #5 and neighbours: run first on every run
var pathCorpus = []string{"../escaped", "..\\escaped", "a/../../escaped", "../../x", "..", "../", "a/../..", "./../x", "..//x", "../root2/x", "../root/x", "", ".", "a/..", "/", "\\", "a", "client/a/storage.keyring", "..a", "a/..b", "...", ".../x"}

func isNontrivialPath(p string) bool { return strings.ContainsAny(p, "/\\.") }

func runPaths(r *core.Run) {
	defer closeShared()
	rd := r.Rand.Fork()
	s, _ := sharedBackend()
	rootHex := core.Hex([]byte(s.root))

	// 1. stdlib path functions vs the model (validates the model of Clean/Join/Rel on arbitrary strings)
	n := r.N(300, 20000)
	for i := 0; i < n; i++ {
		p := genKeyPath(rd, 99)
		q := genKeyPath(rd, 99)
		if rd.Chance(30) {
			p = "/" + p
		}
		if rd.Chance(30) {
			q = "/" + q
		}
		if rd.Chance(5) {
			p = ""
		}
		r.Begin("clean:"+p, isNontrivialPath(p), "stream:stdlib")
		r.Do("C07.clean " + core.Hex([]byte(p)))
		r.Do("C07.join " + core.Hex([]byte(p)) + " " + core.Hex([]byte(q)))
		r.Do("C07.rel " + core.Hex([]byte(p)) + " " + core.Hex([]byte(q)))
		if rd.Chance(50) { // related pair: targ below/next to base
			t := filepath.Join(p, q)
			r.Do("C07.rel " + core.Hex([]byte(p)) + " " + core.Hex([]byte(t)))
		}
	}

	// 2. osPath: real function (hook) vs model; oracle = confinement of the returned path
	checkOSPath := func(p string, tag string) {
		r.Begin("ospath:"+p, isNontrivialPath(p), "stream:"+tag)
		impl := r.Impl("C07.ospath.real " + core.Hex([]byte(p)))
		r.Diff("C07.ospath "+rootHex+" "+core.Hex([]byte(p)), impl)
		if strings.HasPrefix(impl, "ok ") {
			got := string(core.UnHex(strings.TrimPrefix(impl, "ok ")))
			inside := got == s.root || strings.HasPrefix(got, s.root+"/")
			r.Check(inside, "ospath-escape", fmt.Sprintf("DirectoryBackend.osPath(%q) = %q lies outside the keystore root %q", p, got, s.root))
			r.Tag("ospath:accepted")
		} else {
			r.Tag("ospath:rejected")
		}
	}
	for _, p := range pathCorpus {
		checkOSPath(p, "corpus")
	}
	n = r.N(600, 40000)
	for i := 0; i < n; i++ {
		checkOSPath(genKeyPath(rd, 99), "ospath")
	}

	// 3. real Put in a fresh sandbox: nothing may appear outside the root
	checkPut := func(p string, tag string) {
		r.Begin("put:"+p, isNontrivialPath(p), "stream:"+tag)
		out := r.Impl("C07.put " + core.Hex([]byte(p)) + " 5345435245542d4b4559")
		if out == "unsafe" {
			r.Tag("put:skipped-unsafe")
			return
		}
		f := strings.Fields(out)
		var created []string
		if f[2] != "-" {
			created = strings.Split(string(core.UnHex(f[2])), "\n")
		}
		for _, c := range created {
			r.Check(c != ".." && !strings.HasPrefix(c, "../"), "put-escape", fmt.Sprintf("DirectoryBackend.Put(%q) created %q (relative to the keystore root): a file outside the root", p, c))
		}
		// tie to the model: Put succeeded => the model accepts the path and the file is where the model says
		mod := r.ModelOnly("C07.ospath " + rootHex + " " + core.Hex([]byte(p)))
		if f[0] == "ok" {
			want := ""
			if strings.HasPrefix(mod, "ok ") {
				want, _ = filepath.Rel(s.root, string(core.UnHex(strings.TrimPrefix(mod, "ok "))))
			}
			if len(created) != 1 || created[0] != want {
				r.Disagreements = append(r.Disagreements, core.Disagreement{Op: "C07.put " + core.Hex([]byte(p)), Impl: out, Model: mod, Case: p})
			}
			r.Tag("put:ok")
		} else {
			r.Check(len(created) == 0, "put-failed-leftover", fmt.Sprintf("failed Put(%q) left files %v", p, created))
			r.Tag("put:err")
		}
	}
	for _, p := range pathCorpus {
		checkPut(p, "corpus-put")
	}
	n = r.N(150, 4000)
	for i := 0; i < n; i++ {
		checkPut(genKeyPath(rd, sandboxDepth), "put")
	}
}
