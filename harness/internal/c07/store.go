package c07

import (
	"bytes"
	"context"
	"fmt"
	"strings"
	"time"

	keystoreV1 "github.com/cossacklabs/acra/keystore"
	"github.com/cossacklabs/acra/keystore/v2/keystore/api"
	"github.com/cossacklabs/acra/keystore/v2/keystore/asn1"
	"github.com/cossacklabs/acra/keystore/v2/keystore/crypto"
	"github.com/cossacklabs/acra/keystore/v2/keystore/filesystem"
	"github.com/cossacklabs/acra/keystore/v2/keystore/filesystem/backend"
	backendAPI "github.com/cossacklabs/acra/keystore/v2/keystore/filesystem/backend/api"
	"github.com/cossacklabs/acra/keystore/v2/keystore/signature"

	"verifharness/internal/core"
)

// ---------- logging back end: every byte string handed to Put is recorded ----------

type putRec struct {
	path string
	data []byte
}

type loggingBackend struct {
	backendAPI.Backend
	puts []putRec
}

func (b *loggingBackend) Put(path string, data []byte) error {
	b.puts = append(b.puts, putRec{path, append([]byte{}, data...)})
	return b.Backend.Put(path, data)
}

// overwrite replaces the content of a stored path (the back-end API has no delete: Put a temporary
// and rename it over the target)
func overwrite(b backendAPI.Backend, path string, data []byte) {
	tmp := path + ".verif-tmp"
	if err := b.Put(tmp, data); err != nil {
		panic("harness: " + err.Error())
	}
	if err := b.Rename(tmp, path); err != nil {
		panic("harness: " + err.Error())
	}
}

var (
	v2Enc = []byte("c07-v2-master-encryption-key-32b")
	v2Sig = []byte("c07-v2-master-signature--key-32b")
)

func v2Suite() *crypto.KeyStoreSuite {
	s, err := crypto.NewSCellSuite(v2Enc, v2Sig)
	if err != nil {
		panic("harness: " + err.Error())
	}
	return s
}

type v2World struct {
	lb      *loggingBackend
	ks      api.MutableKeyStore
	secrets [][]byte
	rings   map[string]api.MutableKeyRing
}

func newV2World(dir string) *v2World {
	var inner backendAPI.Backend
	if dir == "" {
		inner = backend.NewInMemory()
	} else {
		b, err := backend.CreateDirectoryBackend(dir)
		if err != nil {
			panic("harness: " + err.Error())
		}
		inner = b
	}
	lb := &loggingBackend{Backend: inner}
	ks, err := filesystem.CustomKeyStore(lb, v2Suite())
	if err != nil {
		panic("harness: " + err.Error())
	}
	return &v2World{lb: lb, ks: ks, rings: map[string]api.MutableKeyRing{}}
}

func (w *v2World) ring(path string) api.MutableKeyRing {
	if r, ok := w.rings[path]; ok {
		return r
	}
	r, err := w.ks.OpenKeyRingRW(path)
	if err != nil {
		panic("harness: open ring: " + err.Error())
	}
	w.rings[path] = r
	return r
}

var v2Paths = []string{"client/alice/storage", "client/alice/storage-sym", "client/bob/storage-sym", "poison-record", "audit-log"}

// randomOp performs one mutating API call; returns a tag
func (w *v2World) randomOp(rd *core.Rand) string {
	path := core.Pick(rd, v2Paths)
	ring := w.ring(path)
	seqs, _ := ring.AllKeys()
	switch k := rd.Intn(10); {
	case k < 5 || len(seqs) == 0:
		since := time.Unix(int64(1500000000+rd.Intn(100000000)), 0).UTC()
		desc := api.KeyDescription{ValidSince: since, ValidUntil: since.Add(time.Duration(1+rd.Intn(1000)) * time.Hour)}
		if strings.HasSuffix(path, "storage") || path == "poison-record" || rd.Chance(10) {
			priv := rd.Bytes(45)
			w.secrets = append(w.secrets, priv)
			d := api.KeyData{Format: api.ThemisKeyPairFormat, PublicKey: rd.Bytes(45), PrivateKey: priv}
			if rd.Chance(10) {
				d.PrivateKey = nil
			}
			desc.Data = append(desc.Data, d)
		}
		if len(desc.Data) == 0 || rd.Chance(10) {
			sym := rd.Bytes(32)
			w.secrets = append(w.secrets, sym)
			desc.Data = append(desc.Data, api.KeyData{Format: api.ThemisSymmetricKeyFormat, SymmetricKey: sym})
		}
		if _, err := ring.AddKey(desc); err != nil {
			return "add-err"
		}
		return "add"
	case k < 7:
		if ring.SetCurrent(core.Pick(rd, seqs)) != nil {
			return "current-err"
		}
		return "current"
	case k < 9:
		if ring.SetState(core.Pick(rd, seqs), api.KeyState(1+rd.Intn(6))) != nil {
			return "state-err"
		}
		return "state"
	default:
		if ring.DestroyKey(core.Pick(rd, seqs)) != nil {
			return "destroy-err"
		}
		return "destroy"
	}
}

func privCtx(path string, seq int) []byte {
	return []byte(fmt.Sprintf("AKSv2 keystore: key ring %s: private key %d", path, seq))
}
func symCtx(path string, seq int) []byte {
	return []byte(fmt.Sprintf("AKSv2 keystore: key ring %s: symmetric key %d", path, seq))
}

// explainPut turns the bytes handed to Put into the model op line that must reproduce them: the
// ring in plaintext (decrypted with the master key under the expected contexts), the time stamp and
// the nonce of every encrypted field. ok=false when the bytes are not even a well-formed ring whose
// secrets decrypt under their own contexts.
func explainPut(p putRec) (line string, ok bool, why string) {
	path := strings.TrimSuffix(strings.TrimSuffix(p.path, ".new"), ".keyring")
	c, err := asn1.UnmarshalVerifiedContainer(p.data)
	if err != nil {
		return "", false, "not a signed container"
	}
	kr, err := asn1.UnmarshalKeyRing(c.Payload.Data.FullBytes)
	if err != nil {
		return "", false, "payload is not a key ring"
	}
	enc, _ := keystoreV1.NewSCellKeyEncryptor(v2Enc)
	var keys, nonces []string
	for _, k := range kr.Keys {
		var data []string
		for _, d := range k.Data {
			var priv, sym []byte
			if len(d.PrivateKey) > 0 {
				ctx := privCtx(path, k.Seqnum)
				priv, err = enc.Decrypt(context.Background(), d.PrivateKey, keystoreV1.NewEmptyKeyContext(ctx))
				if err != nil || len(d.PrivateKey) < 28 {
					return "", false, fmt.Sprintf("private key %d of %s does not decrypt under its own context", k.Seqnum, path)
				}
				nonces = append(nonces, core.Hex(ctx)+"="+core.Hex(d.PrivateKey[16:28]))
			}
			if len(d.SymmetricKey) > 0 {
				ctx := symCtx(path, k.Seqnum)
				sym, err = enc.Decrypt(context.Background(), d.SymmetricKey, keystoreV1.NewEmptyKeyContext(ctx))
				if err != nil || len(d.SymmetricKey) < 28 {
					return "", false, fmt.Sprintf("symmetric key %d of %s does not decrypt under its own context", k.Seqnum, path)
				}
				nonces = append(nonces, core.Hex(ctx)+"="+core.Hex(d.SymmetricKey[16:28]))
			}
			data = append(data, fmt.Sprintf("%d:%s:%s:%s", d.Format, core.Hex(d.PublicKey), core.Hex(priv), core.Hex(sym)))
		}
		ds := "-"
		if len(data) > 0 {
			ds = strings.Join(data, "&")
		}
		keys = append(keys, fmt.Sprintf("%d,%d,%d,%d,%s", k.Seqnum, k.State, k.ValidSince.Unix(), k.ValidUntil.Unix(), ds))
	}
	ks := "-"
	if len(keys) > 0 {
		ks = strings.Join(keys, "|")
	}
	if string(kr.Purpose) != path {
		return "", false, "ring purpose differs from its path"
	}
	line = fmt.Sprintf("C07.ringfile %s %s %d %s;%d;%s", core.Hex(v2Enc), core.Hex(v2Sig), c.Payload.LastModified.Unix(), core.Hex([]byte(path)), kr.Current, ks)
	if len(nonces) > 0 {
		line += " " + strings.Join(nonces, " ")
	}
	return line, true, ""
}

func init() {
	// replayable form of the write-log check: the model must reproduce the given file bytes
	core.Register("C07.ringfile.check", func(a []string) string { return "ok " + a[0] })
}

func runV2Store(r *core.Run) {
	rd := r.Rand.Fork()
	histories := r.N(12, 250)
	for h := 0; h < histories; h++ {
		dir := ""
		var sb *sandbox
		if rd.Chance(25) {
			sb = newSandbox()
			dir = sb.root
		}
		w := newV2World(dir)
		nops := 4 + rd.Intn(14)
		for i := 0; i < nops; i++ {
			before := len(w.lb.puts)
			tag := w.randomOp(rd)
			for _, p := range w.lb.puts[before:] {
				r.Begin(fmt.Sprintf("put:%d:%d:%s", h, i, p.path), true, "stream:writelog", "v2op:"+tag)
				// (1) byte scan
				for _, s := range w.secrets {
					r.Check(!bytes.Contains(p.data, s), "secret-in-write", fmt.Sprintf("Backend.Put(%q) carries a private/symmetric key in clear", p.path))
				}
				// (2) the model reproduces the written bytes from (master key, contexts, secrets, nonces)
				line, ok, why := explainPut(p)
				if !r.Check(ok, "write-not-sealed", fmt.Sprintf("Backend.Put(%q): %s", p.path, why)) {
					continue
				}
				r.Impl("C07.ringfile.check " + core.Hex(p.data))
				r.Diff(line, "ok "+core.Hex(p.data))
			}
		}
		// (3) swap / copy / forge and (4) tamper, on the final state of this history
		if h < r.N(4, 40) {
			// all 255 values of every byte only for the first in-memory histories of the thorough tier
			swapAndTamper(r, rd, w, dir == "" || (r.Thorough() && h < 12), r.Thorough() && dir == "" && exhaustiveTampers < 3)
		}
		if sb != nil {
			w.ks.Close()
			sb.close()
		}
	}
}

// noClose shields a shared back end from KeyStore.Close (also run by the key store's finalizer)
type noClose struct{ backendAPI.Backend }

func (noClose) Close() error { return nil }

// reader opens a fresh read-only view over the same back end (fresh snapshot every time)
func (w *v2World) readerOpens(path string) (api.KeyRing, error) {
	ks, err := filesystem.CustomKeyStore(noClose{w.lb.Backend}, v2Suite())
	if err != nil {
		panic("harness: " + err.Error())
	}
	return ks.OpenKeyRing(path)
}

var exhaustiveTampers int

func swapAndTamper(r *core.Run, rd *core.Rand, w *v2World, tamper bool, allValues bool) {
	inner := w.lb.Backend
	files := map[string][]byte{}
	var paths []string
	for p := range w.rings {
		if d, err := inner.Get(p + ".keyring"); err == nil {
			files[p] = d
			paths = append(paths, p)
		}
	}
	if len(paths) == 0 {
		return
	}
	restore := func() {
		for p, d := range files {
			overwrite(inner, p+".keyring", d)
		}
	}
	// --- every ordered pair: ring file of A stored at B's path must not load
	for _, a := range paths {
		for _, b := range paths {
			if a == b {
				continue
			}
			r.Begin("swap:"+a+">"+b, true, "stream:swap")
			overwrite(inner, b+".keyring", files[a])
			_, err := w.readerOpens(b)
			r.Check(err != nil, "swap-accepted", fmt.Sprintf("key ring file of %q copied to %q loads", a, b))
			restore()
		}
		// copy to a fresh identity
		r.Begin("copy:"+a, true, "stream:swap")
		fresh := "client/mallory/" + strings.ReplaceAll(a, "/", "_")
		overwrite(inner, fresh+".keyring", files[a])
		_, err := w.readerOpens(fresh)
		r.Check(err != nil, "copy-accepted", fmt.Sprintf("key ring file of %q copied to new path %q loads", a, fresh))
	}
	// --- forged but correctly signed ring: key data moved to another ring / slot / purpose must not decrypt
	notary, _ := signature.NewNotary(v2Suite().SignatureAlgorithms)
	for _, a := range paths {
		c, err := asn1.UnmarshalVerifiedContainer(files[a])
		if err != nil {
			continue
		}
		kr, err := asn1.UnmarshalKeyRing(c.Payload.Data.FullBytes)
		if err != nil || len(kr.Keys) == 0 {
			continue
		}
		forge := func(name string, ring asn1.KeyRing, path string, seq int, format api.KeyFormat) {
			r.Begin("forge:"+name+":"+a, true, "stream:forge")
			cont := asn1.SignedContainer{Payload: asn1.SignedPayload{ContentType: asn1.TypeKeyRing, Version: asn1.KeyRingVersion2, LastModified: time.Unix(1600000000, 0).UTC(), Data: ring}}
			data, err := notary.Sign(&cont, []byte("AKSv2 keystore: key ring signature: "+path))
			if err != nil {
				panic("harness: " + err.Error())
			}
			overwrite(inner, path+".keyring", data)
			rg, err := w.readerOpens(path)
			if err != nil {
				r.Tag("forge:not-loaded:" + name + ":" + err.Error())
				return
			}
			var e1, e2 error
			_, e1 = rg.PrivateKey(seq, format)
			_, e2 = rg.SymmetricKey(seq, format)
			r.Check(e1 != nil && e2 != nil, "owner-binding", fmt.Sprintf("%s: key data sealed for ring %q still opens as seq %d of ring %q", name, a, seq, path))
		}
		// (i) whole ring re-signed for another path
		other := "client/mallory/forged"
		moved := *kr
		moved.Purpose = []byte(other)
		for _, k := range kr.Keys {
			for _, d := range k.Data {
				if len(d.PrivateKey) > 0 || len(d.SymmetricKey) > 0 {
					forge("other-ring", moved, other, k.Seqnum, api.KeyFormat(d.Format))
				}
			}
		}
		// (ii) same ring, key data moved to another sequence number
		for _, k := range kr.Keys {
			for _, d := range k.Data {
				if len(d.PrivateKey) == 0 && len(d.SymmetricKey) == 0 {
					continue
				}
				shifted := *kr
				shifted.Keys = append([]asn1.Key{}, kr.Keys...)
				nk := k
				nk.Seqnum = k.Seqnum + 100
				shifted.Keys = append(shifted.Keys, nk)
				forge("other-slot", shifted, a, nk.Seqnum, api.KeyFormat(d.Format))
				// (iii) purpose swap: private <-> symmetric field
				sw := *kr
				sw.Keys = nil
				for _, k2 := range kr.Keys {
					if k2.Seqnum != k.Seqnum {
						sw.Keys = append(sw.Keys, k2)
						continue
					}
					k3 := k2
					k3.Data = nil
					for _, d2 := range k2.Data {
						d3 := d2
						d3.PrivateKey, d3.SymmetricKey = asn1.PrivateKey(d2.SymmetricKey), asn1.SymmetricKey(d2.PrivateKey)
						if d3.Format == asn1.ThemisKeyPairFormat {
							d3.Format = asn1.ThemisSymmetricKeyFormat
						} else {
							d3.Format = asn1.ThemisKeyPairFormat
							d3.PublicKey = []byte("public")
						}
						k3.Data = append(k3.Data, d3)
					}
					sw.Keys = append(sw.Keys, k3)
				}
				f2 := api.ThemisKeyPairFormat
				if d.Format == asn1.ThemisKeyPairFormat {
					f2 = api.ThemisSymmetricKeyFormat
				}
				forge("other-purpose", sw, a, k.Seqnum, f2)
			}
		}
		restore()
	}
	// --- every single-byte modification of every stored ring file
	if !tamper {
		return
	}
	if allValues {
		exhaustiveTampers++
	}
	for ai, a := range paths {
		if !r.Thorough() && ai >= 2 {
			break
		}
		d := files[a]
		vals := []byte{0x01}
		if allValues {
			vals = nil
		}
		undetected := 0
		r.Begin("tamper:"+a, true, "stream:tamper")
		for pos := range d {
			try := func(delta byte) {
				m := append([]byte{}, d...)
				m[pos] ^= delta
				overwrite(inner, a+".keyring", m)
				_, err := w.readerOpens(a)
				r.Tag("tamper-try")
				if err == nil {
					undetected++
					r.Fail("tamper-undetected", fmt.Sprintf("ring file %q with byte %d of %d changed (xor %#x) still loads", a, pos, len(d), delta))
				}
			}
			if vals == nil {
				for v := 1; v < 256; v++ {
					try(byte(v))
				}
			} else {
				try(vals[0])
				try(0x80)
				try(byte(1 + rd.Intn(255)))
			}
		}
		// a byte change is also an insertion, an appended tail or a truncation: every such file must be refused
		tryFile := func(what string, m []byte) {
			overwrite(inner, a+".keyring", m)
			_, err := w.readerOpens(a)
			r.Tag("tamper-try")
			if err == nil {
				undetected++
				r.Fail("tamper-undetected:resize", fmt.Sprintf("ring file %q %s (now %d of %d bytes) still loads", a, what, len(m), len(d)))
			}
		}
		for _, tail := range [][]byte{{0}, {0xff}, {0x30, 0x00}, rd.Bytes(1 + rd.Intn(16)), d[:min(len(d), 8)]} {
			tryFile(fmt.Sprintf("with %d bytes appended", len(tail)), append(append([]byte{}, d...), tail...))
		}
		for _, cut := range []int{1, 2, 1 + rd.Intn(len(d)-1), len(d) / 2} {
			tryFile(fmt.Sprintf("truncated by %d bytes", cut), append([]byte{}, d[:len(d)-cut]...))
		}
		ins := 1 + rd.Intn(len(d)-1)
		tryFile(fmt.Sprintf("with a byte inserted at %d", ins), append(append(append([]byte{}, d[:ins]...), byte(rd.Intn(256))), d[ins:]...))
		restore()
	}
}
