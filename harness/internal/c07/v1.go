package c07

import (
	"bytes"
	"fmt"
	"os"
	"path/filepath"
	"strings"

	"github.com/cossacklabs/themis/gothemis/keys"

	keystoreV1 "github.com/cossacklabs/acra/keystore"
	fsV1 "github.com/cossacklabs/acra/keystore/filesystem"

	"verifharness/internal/core"
)

// v1 key store write path (model: lean/AcraModel/KeystoreSec/V1WriteLog.lean, driver ops C07.v1.*):
// the real key store runs over a logging filesystem.Storage that records every byte string handed to
// WriteFile; the model recomputes each write from (master key, key context, secret, nonce carried by
// the ciphertext).

type v1Write struct {
	path string // as given to WriteFile (temporary name)
	data []byte
	perm os.FileMode
}

type loggingStorage struct {
	fsV1.DummyStorage
	writes  []v1Write
	renames map[string]string // temporary name -> final name
	touched []string          // every path handed to a mutating call
}

func (s *loggingStorage) WriteFile(path string, data []byte, perm os.FileMode) error {
	s.writes = append(s.writes, v1Write{path, append([]byte{}, data...), perm})
	s.touched = append(s.touched, path)
	return s.DummyStorage.WriteFile(path, data, perm)
}
func (s *loggingStorage) Rename(oldpath, newpath string) error {
	s.renames[oldpath] = newpath
	s.touched = append(s.touched, oldpath, newpath)
	return s.DummyStorage.Rename(oldpath, newpath)
}
func (s *loggingStorage) TempFile(pattern string, perm os.FileMode) (string, error) {
	n, err := s.DummyStorage.TempFile(pattern, perm)
	if err == nil {
		s.touched = append(s.touched, n)
	}
	return n, err
}
func (s *loggingStorage) MkdirAll(path string, perm os.FileMode) error {
	s.touched = append(s.touched, path)
	return s.DummyStorage.MkdirAll(path, perm)
}
func (s *loggingStorage) Link(oldpath, newpath string) error {
	s.touched = append(s.touched, oldpath, newpath)
	return s.DummyStorage.Link(oldpath, newpath)
}
func (s *loggingStorage) Copy(src, dst string) error {
	s.touched = append(s.touched, src, dst)
	return s.DummyStorage.Copy(src, dst)
}

var v1Master = []byte("c07-v1-master-encryption-key-32b")

type v1World struct {
	sb  *sandbox
	st  *loggingStorage
	ks  *fsV1.KeyStore
	enc keystoreV1.KeyEncryptor
}

func newV1World() *v1World {
	sb := newSandbox()
	if err := os.MkdirAll(sb.root, 0o700); err != nil {
		panic("harness: " + err.Error())
	}
	st := &loggingStorage{renames: map[string]string{}}
	enc, _ := keystoreV1.NewSCellKeyEncryptor(v1Master)
	ks, err := fsV1.NewCustomFilesystemKeyStore().KeyDirectory(sb.root).Encryptor(enc).Storage(st).CacheSize(keystoreV1.WithoutCache).Build()
	if err != nil {
		panic("harness: " + err.Error())
	}
	return &v1World{sb: sb, st: st, ks: ks, enc: enc}
}

type v1Op struct {
	name   string
	id     string
	secret []byte // filled after the run for generating operations
	pub    []byte
}

// run performs the operation on the real key store and returns the observed writes in model
// notation (final path relative to the key folder, data, private mode) or nil when it failed
func (w *v1World) run(op *v1Op) (ok bool, obs []string, raw []v1Write) {
	before := len(w.st.writes)
	id := []byte(op.id)
	var err error
	switch op.name {
	case "gen-data-keys":
		err = w.ks.GenerateDataEncryptionKeys(id)
	case "save-data-keys":
		kp, e := keys.New(keys.TypeEC)
		if e != nil {
			panic("harness: " + e.Error())
		}
		op.secret, op.pub = append([]byte{}, kp.Private.Value...), append([]byte{}, kp.Public.Value...)
		err = w.ks.SaveDataEncryptionKeys(id, kp)
	case "gen-sym-key":
		err = w.ks.GenerateClientIDSymmetricKey(id)
	case "gen-hmac-key":
		err = w.ks.GenerateHmacKey(id)
	case "gen-log-key":
		err = w.ks.GenerateLogKey()
	case "gen-poison-pair":
		err = w.ks.GeneratePoisonKeyPair()
	case "gen-poison-sym":
		err = w.ks.GeneratePoisonSymmetricKey()
	default:
		panic("harness: unknown v1 op " + op.name)
	}
	raw = w.st.writes[before:]
	if err != nil {
		return false, nil, raw
	}
	// the secrets, through the read API
	switch op.name {
	case "gen-data-keys":
		if k, e := w.ks.GetServerDecryptionPrivateKey(id); e == nil {
			op.secret = k.Value
		}
		if k, e := w.ks.GetClientIDEncryptionPublicKey(id); e == nil {
			op.pub = k.Value
		}
	case "gen-sym-key":
		op.secret, _ = w.ks.GetClientIDSymmetricKey(id)
	case "gen-hmac-key":
		op.secret, _ = w.ks.GetHMACSecretKey(id)
	case "gen-log-key":
		op.secret, _ = w.ks.GetLogSecretKey()
	case "gen-poison-pair":
		if kp, e := w.ks.GetPoisonKeyPair(); e == nil {
			op.secret, op.pub = kp.Private.Value, kp.Public.Value
		}
	case "gen-poison-sym":
		op.secret, _ = w.ks.GetPoisonSymmetricKey()
	}
	for _, wr := range raw {
		final, renamed := w.st.renames[wr.path]
		if !renamed {
			final = wr.path
		}
		rel := final
		if strings.HasPrefix(final, w.sb.root+"/") {
			rel = final[len(w.sb.root)+1:] // textual, as the key store builds it (no cleaning)
		}
		obs = append(obs, fmt.Sprintf("%s:%s:%s", core.Hex([]byte(rel)), core.Hex(wr.data), b01(wr.perm == fsV1.PrivateFileMode)))
	}
	return true, obs, raw
}

func b01(b bool) string {
	if b {
		return "1"
	}
	return "0"
}

func v1WriteLine(op *v1Op, obs []string) string {
	l := fmt.Sprintf("C07.v1.write %s %s %s %s %s %d", core.Hex(v1Master), op.name, core.Hex([]byte(op.id)), core.Hex(op.secret), core.Hex(op.pub), len(obs))
	for _, o := range obs {
		l += " " + o
	}
	return l
}

func init() {
	// replayable form: the observed writes are part of the line, the model must reproduce them
	core.Register("C07.v1.write", func(a []string) string {
		n := core.Atoi(a[5])
		if n == 0 {
			return "err"
		}
		return fmt.Sprintf("ok %d %s", n, strings.Join(a[6:6+n], " "))
	})
	// load a stored blob under a key context with the real encryptor
	core.Register("C07.v1.load", func(a []string) string {
		enc, _ := keystoreV1.NewSCellKeyEncryptor(core.UnHex(a[0]))
		f := strings.Split(a[1], ":")
		var kc keystoreV1.KeyContext
		switch f[0] {
		case "c":
			kc = keystoreV1.NewClientIDKeyContext(keystoreV1.PurposeUndefined, nonNil(core.UnHex(f[1])))
		case "x":
			kc = keystoreV1.NewKeyContext(keystoreV1.PurposeUndefined, nonNil(core.UnHex(f[1])))
		default:
			kc = keystoreV1.NewEmptyKeyContext(nil)
		}
		k, err := enc.Decrypt(nil, core.UnHex(a[2]), kc)
		if err != nil {
			return "err"
		}
		return "ok " + core.Hex(k)
	})
}

func nonNil(b []byte) []byte {
	if b == nil {
		return []byte{}
	}
	return b
}

// inside reports whether a path is lexically inside the key folder
func (w *v1World) inside(p string) bool {
	c := filepath.Clean(p)
	return c == w.sb.root || strings.HasPrefix(c, w.sb.root+"/")
}

var v1GoodIDs = []string{"client_a", "client-b", "x y z 1", "alpha_hmac", "beta_storage", "_sym_keygamma", "00000", "UPPER_lower-9", strings.Repeat("k", 256)}
var v1BadIDs = []string{"../escaped", "a/b/c/d/e", "..", "....", "abc", "", "../../../x", "client.a", "cli/../../../ent", "client\\a", "/abs/olute", strings.Repeat("k", 257), "client\x00a", "é-client"}

func runV1Store(r *core.Run) {
	rd := r.Rand.Fork()
	perClient := []string{"gen-data-keys", "save-data-keys", "gen-sym-key", "gen-hmac-key"}
	global := []string{"gen-log-key", "gen-poison-pair", "gen-poison-sym"}
	rounds := r.N(3, 40)
	for round := 0; round < rounds; round++ {
		w := newV1World()
		var secrets [][]byte
		type stored struct {
			op   v1Op
			file string
			ctx  string // c:<hex> / x:<hex>
		}
		var stock []stored
		var ops []v1Op
		for _, id := range v1GoodIDs {
			if round > 0 && !rd.Chance(50) {
				continue
			}
			for _, n := range perClient {
				for k := 1 + rd.Intn(2); k > 0; k-- { // second time = rotation
					ops = append(ops, v1Op{name: n, id: id})
				}
			}
		}
		for _, n := range global {
			ops = append(ops, v1Op{name: n}, v1Op{name: n})
		}
		for _, id := range v1BadIDs {
			for _, n := range perClient {
				if round == 0 || rd.Chance(30) {
					ops = append(ops, v1Op{name: n, id: id})
				}
			}
		}
		for i := range ops {
			op := &ops[i]
			isGlobal := op.name == "gen-log-key" || op.name == "gen-poison-pair" || op.name == "gen-poison-sym"
			valid := isGlobal || keystoreV1.ValidateID([]byte(op.id))
			touchedBefore := len(w.st.touched)
			ok, obs, raw := w.run(op)
			tag := "id:valid"
			if !valid {
				tag = "id:invalid"
			}
			r.Begin(fmt.Sprintf("v1w:%d:%d:%s:%s", round, i, op.name, op.id), true, "stream:v1-writelog", "v1op:"+op.name, tag)
			// (1) the model reproduces every written byte string
			line := v1WriteLine(op, obs)
			r.Impl(line)
			impl := "err"
			if ok {
				impl = fmt.Sprintf("ok %d %s", len(obs), strings.Join(obs, " "))
			}
			r.Diff(line, impl)
			// (2) byte scan of everything handed to the storage
			if ok && len(op.secret) >= 16 {
				secrets = append(secrets, op.secret)
			}
			for _, wr := range raw {
				for _, s := range secrets {
					r.Check(!bytes.Contains(wr.data, s), "v1-secret-in-write", fmt.Sprintf("Storage.WriteFile(%q) carries a private/symmetric key in clear", wr.path))
				}
				if wr.perm == fsV1.PrivateFileMode {
					r.Check(len(wr.data) >= 44+16, "v1-write-not-sealed", fmt.Sprintf("private write to %q is too short to be a sealed key", wr.path))
					// bound to its owner: it must not open without a context nor under a foreign client id
					for _, kc := range []keystoreV1.KeyContext{keystoreV1.NewEmptyKeyContext(nil), keystoreV1.NewClientIDKeyContext(keystoreV1.PurposeUndefined, []byte("some_other_client"))} {
						if _, err := w.enc.Decrypt(nil, wr.data, kc); err == nil {
							r.Fail("v1-write-not-bound-to-owner", fmt.Sprintf("%s(%q): the private write to %q opens under the key context %q", op.name, op.id, wr.path, kc.String()))
						}
					}
				}
			}
			// (3) confinement: every path touched stays inside the key folder
			for _, p := range w.st.touched[touchedBefore:] {
				if w.inside(p) {
					continue
				}
				if !valid {
					r.Fail("v1-writer-unvalidated-client-id", fmt.Sprintf("%s(%q) touches %s outside the key folder %s", op.name, op.id, p, w.sb.root))
				} else {
					r.Fail("v1-path-escape", fmt.Sprintf("%s(%q) touches %s outside the key folder %s", op.name, op.id, p, w.sb.root))
				}
			}
			if ok && valid && len(obs) > 0 {
				f := strings.Split(obs[0], ":")
				ctx := "c:" + core.Hex([]byte(op.id))
				switch op.name {
				case "gen-log-key":
					ctx = "x:" + core.Hex([]byte("secure_log_key"))
				case "gen-poison-pair":
					ctx = "x:" + core.Hex([]byte(".poison_key/poison_key"))
				case "gen-poison-sym":
					ctx = "x:" + core.Hex([]byte(".poison_key/poison_key_sym"))
				}
				stock = append(stock, stored{*op, f[1], ctx})
			}
		}
		// (4) bound to owner: every stored secret file under every other stored context
		r.Begin(fmt.Sprintf("v1w:%d:swap", round), true, "stream:v1-swap")
		for i, a := range stock {
			for j, b := range stock {
				if i == j || (round > 0 && !rd.Chance(15)) {
					continue
				}
				out := r.Do(fmt.Sprintf("C07.v1.load %s %s %s", core.Hex(v1Master), b.ctx, a.file))
				if a.ctx != b.ctx {
					r.Check(out == "err", "v1-foreign-context-loads", fmt.Sprintf("key file of %s(%q) loads under the context of %s(%q)", a.op.name, a.op.id, b.op.name, b.op.id))
				} else if a.op.name != b.op.name && a.op.name != "save-data-keys" && b.op.name != "save-data-keys" && out != "err" {
					r.Fail("v1-purpose-not-bound", fmt.Sprintf("key file of %s(%q) loads as the key of %s(%q): the purpose is not part of the key context", a.op.name, a.op.id, b.op.name, b.op.id))
				}
			}
		}
		// wrong master key
		for i, a := range stock {
			if i < 3 {
				k2 := append([]byte{}, v1Master...)
				k2[rd.Intn(len(k2))] ^= byte(1 + rd.Intn(255))
				out := r.Do(fmt.Sprintf("C07.v1.load %s %s %s", core.Hex(k2), a.ctx, a.file))
				r.Check(out == "err", "v1-foreign-master-loads", "key file loads under a different master key")
			}
		}
		// (5) through the real getters: copy the file of one client over another client's file
		if round == 0 {
			a, b := "client_a", "client-b"
			src := filepath.Join(w.sb.root, a+"_storage_sym")
			dst := filepath.Join(w.sb.root, b+"_storage_sym")
			if data, err := os.ReadFile(src); err == nil {
				if err := os.WriteFile(dst, data, 0o600); err == nil {
					_, err := w.ks.GetClientIDSymmetricKey([]byte(b))
					r.Check(err != nil, "v1-foreign-file-loads", "symmetric key file of client_a copied to client-b's name loads through GetClientIDSymmetricKey")
				}
			}
			// readers / destroyers take the id as given (known finding): plant a sealed file outside the folder
			esc := "../escaped"
			outside := filepath.Join(filepath.Dir(w.sb.root), "escaped_storage_sym")
			planted, _ := w.enc.Encrypt(nil, []byte("planted-key-material-0123456789ab"), keystoreV1.NewClientIDKeyContext(keystoreV1.PurposeStorageClientSymmetricKey, []byte(esc)))
			if os.WriteFile(outside, planted, 0o600) == nil {
				r.Begin("v1w:escape-read", true, "stream:v1-escape")
				if k, err := w.ks.GetClientIDSymmetricKey([]byte(esc)); err == nil && len(k) > 0 {
					r.Fail("v1-unvalidated-client-id-escapes", "GetClientIDSymmetricKey(\"../escaped\") reads a key file outside the key folder")
				}
				w.ks.DestroyClientIDSymmetricKey([]byte(esc))
				if _, err := os.Stat(outside); err != nil {
					r.Fail("v1-unvalidated-client-id-escapes", "DestroyClientIDSymmetricKey(\"../escaped\") removes a file outside the key folder")
				}
			}
			// files left in the sandbox: nothing outside the key folder except what the known finding made
			for _, f := range w.sb.files() {
				if !strings.HasPrefix(f, "l1/l2/l3/root/") {
					r.Tag("v1-stray-file")
				}
			}
		}
		w.sb.close()
	}
}
