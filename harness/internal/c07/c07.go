// Package c07: implementation-side ops, generators and oracles for property C07.
package c07
