// Package c07: implementation-side ops, generators and oracles for property C07
// (keys at rest are encrypted, bound to their owner, tamper-evident and confined).
package c07

import (
	"time"

	"verifharness/internal/core"
)

func init() { core.RegisterProp("C07", run) }

func run(r *core.Run) {
	r.Rule = "path stream: key paths built from a component alphabet (.., ., empty, ordinary, look-alikes such as '..a', '...', reserved names) with / and \\ separators, run through the real directory back end inside a nested sandbox; " +
		"a case is non-trivial when the path has at least one separator or dot component; distinct by path bytes. " +
		"write-log stream: random histories (add key pair / symmetric key, set current, set state, destroy) on 5 rings of a real v2 key store over a logging back end (in-memory or directory); every Put is byte-scanned for the generated secrets and must be reproduced byte for byte by the model from (master key, contexts, secrets, nonces); " +
		"swap stream: every ordered pair of ring files swapped / copied to a fresh path; forge stream: correctly re-signed rings with key data moved to another ring, slot or purpose; tamper stream: every byte of every ring file modified (3 values quick, all 255 thorough); " +
		"v1 write-log stream: every key-producing operation of a real v1 key store (valid ids incl. look-alikes such as 'alpha_hmac', rotations, poison and log keys; invalid ids with separators, '..', too short/long, non-ASCII) over a logging filesystem.Storage: every WriteFile is byte-scanned and must be reproduced by the model from (master key, key context, secret, nonce); every touched path must stay inside the key folder; every stored file is loaded under every other stored key context" +
		"; v1 access stream: each of the 23 id-taking methods of the real v1 key store / translator key store (generators, getters, read-all, destroyers, rotated-key destroyers) over a recording filesystem.Storage in a key folder nested three levels deep, sandbox tree listed before and after: adversarial ids (../x, a/../../x, /abs, .., empty, NUL, 257 bytes, x/, look-alikes of the store's own names, random strings over a separator-rich alphabet) with victim files planted where the id points, and valid ids with all keys present (0-2 rotations) or absent; the model predicts the exact set of paths handed to the storage or the refusal; distinct by (method, id, scenario, index)" +
		"; permission streams: random histories on real v1 and v2 key stores under umask 022/000/027/077 with every created entry stat'ed and compared with the model's mode for its creation site; opening both formats over an existing directory of each of the 512 modes (quick: 64 + boundary + sample); loadPrivateKey on a key file of each mode; symlink stream: planted links (observation only, trusted base) and write-through check" +
		"; ring-open streams: every read-write method of the v2 ServerKeyStore (26 rows of the regenerated table: generators, savers, destroyers, rotated-key destroyers, poison getters, the importers behind ImportKeyFileV1) and OpenKeyRingRW / OpenKeyRing / AddKey on an open handle / ImportKeyRings of the file-system key store, each on a fresh in-memory or directory back end holding ONE ring file built through the real API (three generations) and then left untouched, removed, or tampered: one byte changed inside the signed span, inside the signature, in the DER framing; replaced by the ring of another identity; truncated; random bytes; emptied; bytes appended. The back end is read directly (os.ReadFile / the in-memory object) before and after: a tampered ring must make the call fail with every stored byte unchanged; distinct by (method, tamper kind, index)" +
		"; framing stream: a valid ring file rebuilt around its untouched payload with 20 DER framings outside the signed span (bytes after the signature set / inside the signature element, extra unknown-algorithm or duplicate signatures – accepted by Go's reader, recorded; non-minimal / indefinite lengths, wrong tags, missing or unknown-only signatures, trailing bytes, malformed OIDs – refused), OpenKeyRing and OpenKeyRingRW against the model of the reader; rwopen-modes stream: the mode of `<ring>.keyring.new` just before the rename, of the ring file and of the created directories under umask 022/000/027/077"
	for _, st := range []struct {
		name string
		f    func(*core.Run)
	}{{"paths", runPaths}, {"der", runDer}, {"v2store", runV2Store}, {"v1store", runV1Store}, {"v1access", runV1Access}, {"v1import", runV1Import}, {"perms", runPerms}, {"symlinks", runSymlinks}, {"ringopen", runRingOpen}, {"ringframing", runRingFraming}} {
		t0 := time.Now()
		st.f(r)
		r.Extra["wall_s_"+st.name] = float64(int(time.Since(t0).Seconds()*10)) / 10
	}
}
