// Package c07: implementation-side ops, generators and oracles for property C07
// (keys at rest are encrypted, bound to their owner, tamper-evident and confined).
package c07

import "verifharness/internal/core"

func init() { core.RegisterProp("C07", run) }

func run(r *core.Run) {
	r.Rule = "path stream: key paths built from a component alphabet (.., ., empty, ordinary, look-alikes such as '..a', '...', reserved names) with / and \\ separators, run through the real directory back end inside a nested sandbox; " +
		"a case is non-trivial when the path has at least one separator or dot component; distinct by path bytes. " +
		"write-log stream: random histories (add key pair / symmetric key, set current, set state, destroy) on 5 rings of a real v2 key store over a logging back end (in-memory or directory); every Put is byte-scanned for the generated secrets and must be reproduced byte for byte by the model from (master key, contexts, secrets, nonces); " +
		"swap stream: every ordered pair of ring files swapped / copied to a fresh path; forge stream: correctly re-signed rings with key data moved to another ring, slot or purpose; tamper stream: every byte of every ring file modified (3 values quick, all 255 thorough); " +
		"v1 write-log stream: every key-producing operation of a real v1 key store (valid ids incl. look-alikes such as 'alpha_hmac', rotations, poison and log keys; invalid ids with separators, '..', too short/long, non-ASCII) over a logging filesystem.Storage: every WriteFile is byte-scanned and must be reproduced by the model from (master key, key context, secret, nonce); every touched path must stay inside the key folder; every stored file is loaded under every other stored key context"
	runPaths(r)
	runDer(r)
	runV2Store(r)
	runV1Store(r)
	runV1Access(r)
	runPerms(r)
	runSymlinks(r)
}
