// Package c07: implementation-side ops, generators and oracles for property C07
// (keys at rest are encrypted, bound to their owner, tamper-evident and confined).
package c07

import "verifharness/internal/core"

func init() { core.RegisterProp("C07", run) }

func run(r *core.Run) {
	r.Rule = "path stream: key paths built from a component alphabet (.., ., empty, ordinary, look-alikes such as '..a', '...', reserved names) with / and \\ separators, run through the real directory back end inside a nested sandbox; " +
		"a case is non-trivial when the path has at least one separator or dot component; distinct by path bytes"
	runPaths(r)
	runDer(r)
}
