package c07

import (
	"errors"
	"fmt"
	"os"
	"path/filepath"
	"sort"
	"strings"

	"github.com/cossacklabs/themis/gothemis/keys"

	keystoreV1 "github.com/cossacklabs/acra/keystore"
	fsV1 "github.com/cossacklabs/acra/keystore/filesystem"

	"verifharness/internal/core"
)

// Confinement of EVERY id-taking method of the v1 key store – readers and destroyers included
// (model: lean/AcraModel/KeystoreSec/V1Methods.lean, driver op C07.v1.access).
//
// The real key store (and the translator key store on top of it) runs over a recording
// filesystem.Storage that logs every path handed to any Storage method. The key folder is nested
// three levels deep in a sandbox whose whole tree is listed before and after each call.

type recCall struct {
	fn   string
	path string
}

type recStorage struct {
	inner   fsV1.DummyStorage
	calls   []recCall
	temps   []string   // names returned by TempFile, in order
	links   []string   // newpath of Link, in order
	listing [][]string // regular-file names returned by ReadDir, in order
	renames map[string]string
}

func (s *recStorage) rec(fn string, paths ...string) {
	for _, p := range paths {
		s.calls = append(s.calls, recCall{fn, p})
	}
}
func (s *recStorage) Stat(path string) (os.FileInfo, error) {
	s.rec("Stat", path)
	return s.inner.Stat(path)
}
func (s *recStorage) Exists(path string) (bool, error) {
	s.rec("Exists", path)
	return s.inner.Exists(path)
}
func (s *recStorage) ReadDir(path string) ([]os.FileInfo, error) {
	s.rec("ReadDir", path)
	fis, err := s.inner.ReadDir(path)
	var names []string
	for _, fi := range fis {
		if fi.Mode()&os.ModeType == 0 {
			names = append(names, fi.Name())
		}
	}
	s.listing = append(s.listing, names)
	return fis, err
}
func (s *recStorage) MkdirAll(path string, perm os.FileMode) error {
	s.rec("MkdirAll", path)
	return s.inner.MkdirAll(path, perm)
}
func (s *recStorage) Rename(oldpath, newpath string) error {
	s.rec("Rename", oldpath, newpath)
	if s.renames == nil {
		s.renames = map[string]string{}
	}
	s.renames[oldpath] = newpath
	return s.inner.Rename(oldpath, newpath)
}
func (s *recStorage) TempFile(pattern string, perm os.FileMode) (string, error) {
	n, err := s.inner.TempFile(pattern, perm)
	if err == nil {
		s.rec("TempFile", n)
		s.temps = append(s.temps, n)
	} else {
		s.rec("TempFile", pattern)
	}
	return n, err
}
func (s *recStorage) TempDir(pattern string, perm os.FileMode) (string, error) {
	n, err := s.inner.TempDir(pattern, perm)
	if err == nil {
		s.rec("TempDir", n)
	} else {
		s.rec("TempDir", pattern)
	}
	return n, err
}
func (s *recStorage) Link(oldpath, newpath string) error {
	s.rec("Link", oldpath, newpath)
	s.links = append(s.links, newpath)
	return s.inner.Link(oldpath, newpath)
}
func (s *recStorage) Copy(src, dst string) error {
	s.rec("Copy", src, dst)
	return s.inner.Copy(src, dst)
}
func (s *recStorage) ReadFile(path string) ([]byte, error) {
	s.rec("ReadFile", path)
	return s.inner.ReadFile(path)
}
func (s *recStorage) WriteFile(path string, data []byte, perm os.FileMode) error {
	s.rec("WriteFile", path)
	return s.inner.WriteFile(path, data, perm)
}
func (s *recStorage) Remove(path string) error {
	s.rec("Remove", path)
	return s.inner.Remove(path)
}
func (s *recStorage) RemoveAll(path string) error {
	s.rec("RemoveAll", path)
	return s.inner.RemoveAll(path)
}

type accWorld struct {
	sb  *sandbox
	st  *recStorage
	ks  *fsV1.KeyStore
	tks *fsV1.TranslatorFileSystemKeyStore
	enc keystoreV1.KeyEncryptor
}

func newAccWorld() *accWorld {
	sb := newSandbox()
	if err := os.MkdirAll(sb.root, 0o700); err != nil {
		panic("harness: " + err.Error())
	}
	st := &recStorage{}
	enc, _ := keystoreV1.NewSCellKeyEncryptor(v1Master)
	ks, err := fsV1.NewCustomFilesystemKeyStore().KeyDirectory(sb.root).Encryptor(enc).Storage(st).CacheSize(keystoreV1.WithoutCache).Build()
	if err != nil {
		panic("harness: " + err.Error())
	}
	tks, err := fsV1.NewTranslatorFileSystemKeyStoreFromServerStore(sb.root, enc, ks)
	if err != nil {
		panic("harness: " + err.Error())
	}
	return &accWorld{sb: sb, st: st, ks: ks, tks: tks, enc: enc}
}

// the id-taking methods, named as in the regenerated table (Generated/V1Methods.lean)
var accMethods = []string{
	"KeyStore.GetClientIDEncryptionPublicKey", "KeyStore.GetPeerPublicKey", "KeyStore.GetPrivateKey",
	"KeyStore.GetServerDecryptionPrivateKey", "KeyStore.GetServerDecryptionPrivateKeys",
	"KeyStore.GenerateConnectorKeys", "KeyStore.GenerateServerKeys", "KeyStore.GenerateTranslatorKeys",
	"KeyStore.GenerateDataEncryptionKeys", "KeyStore.SaveDataEncryptionKeys", "KeyStore.GetHMACSecretKey",
	"KeyStore.GenerateHmacKey", "KeyStore.GenerateClientIDSymmetricKey", "KeyStore.GetClientIDSymmetricKeys",
	"KeyStore.GetClientIDSymmetricKey", "KeyStore.DestroyClientIDEncryptionKeyPair",
	"KeyStore.DestroyClientIDSymmetricKey", "KeyStore.DestroyHmacSecretKey",
	"KeyStore.DestroyRotatedClientIDEncryptionKeyPair", "KeyStore.DestroyRotatedClientIDSymmetricKey",
	"KeyStore.DestroyRotatedHmacSecretKey",
	"TranslatorFileSystemKeyStore.CheckIfPrivateKeyExists", "TranslatorFileSystemKeyStore.GetPrivateKey",
}

func (w *accWorld) call(method string, id []byte, index int) error {
	var err error
	switch strings.TrimPrefix(strings.TrimPrefix(method, "KeyStore."), "TranslatorFileSystemKeyStore.") {
	case "GetClientIDEncryptionPublicKey":
		_, err = w.ks.GetClientIDEncryptionPublicKey(id)
	case "GetPeerPublicKey":
		_, err = w.ks.GetPeerPublicKey(id)
	case "GetPrivateKey":
		if strings.HasPrefix(method, "Translator") {
			_, err = w.tks.GetPrivateKey(id)
		} else {
			_, err = w.ks.GetPrivateKey(id)
		}
	case "GetServerDecryptionPrivateKey":
		_, err = w.ks.GetServerDecryptionPrivateKey(id)
	case "GetServerDecryptionPrivateKeys":
		_, err = w.ks.GetServerDecryptionPrivateKeys(id)
	case "GenerateConnectorKeys":
		err = w.ks.GenerateConnectorKeys(id)
	case "GenerateServerKeys":
		err = w.ks.GenerateServerKeys(id)
	case "GenerateTranslatorKeys":
		err = w.ks.GenerateTranslatorKeys(id)
	case "GenerateDataEncryptionKeys":
		err = w.ks.GenerateDataEncryptionKeys(id)
	case "SaveDataEncryptionKeys":
		kp, e := keys.New(keys.TypeEC)
		if e != nil {
			panic("harness: " + e.Error())
		}
		err = w.ks.SaveDataEncryptionKeys(id, kp)
	case "GetHMACSecretKey":
		_, err = w.ks.GetHMACSecretKey(id)
	case "GenerateHmacKey":
		err = w.ks.GenerateHmacKey(id)
	case "GenerateClientIDSymmetricKey":
		err = w.ks.GenerateClientIDSymmetricKey(id)
	case "GetClientIDSymmetricKeys":
		_, err = w.ks.GetClientIDSymmetricKeys(id)
	case "GetClientIDSymmetricKey":
		_, err = w.ks.GetClientIDSymmetricKey(id)
	case "DestroyClientIDEncryptionKeyPair":
		err = w.ks.DestroyClientIDEncryptionKeyPair(id)
	case "DestroyClientIDSymmetricKey":
		err = w.ks.DestroyClientIDSymmetricKey(id)
	case "DestroyHmacSecretKey":
		err = w.ks.DestroyHmacSecretKey(id)
	case "DestroyRotatedClientIDEncryptionKeyPair":
		err = w.ks.DestroyRotatedClientIDEncryptionKeyPair(id, index)
	case "DestroyRotatedClientIDSymmetricKey":
		err = w.ks.DestroyRotatedClientIDSymmetricKey(id, index)
	case "DestroyRotatedHmacSecretKey":
		err = w.ks.DestroyRotatedHmacSecretKey(id, index)
	case "CheckIfPrivateKeyExists":
		_, err = w.tks.CheckIfPrivateKeyExists(id)
	default:
		panic("harness: unknown v1 method " + method)
	}
	return err
}

// populate: every key kind of a valid client, each written rot+1 times (rot rotations)
func (w *accWorld) populate(id []byte, rot int) {
	for i := 0; i <= rot; i++ {
		for _, e := range []error{
			w.ks.GenerateDataEncryptionKeys(id), w.ks.GenerateClientIDSymmetricKey(id), w.ks.GenerateHmacKey(id),
			w.ks.GenerateConnectorKeys(id), w.ks.GenerateServerKeys(id), w.ks.GenerateTranslatorKeys(id),
		} {
			if e != nil {
				panic("harness: populate: " + e.Error())
			}
		}
	}
}

// tree lists every entry of the sandbox (files, directories, symbolic links) with its content hash
// stand-in: size and mode type – enough to see a creation, removal or replacement outside the root
func (w *accWorld) tree() map[string]string {
	out := map[string]string{}
	filepath.Walk(w.sb.top, func(p string, info os.FileInfo, err error) error {
		if err != nil {
			return nil
		}
		rel, _ := filepath.Rel(w.sb.top, p)
		kind := "f"
		if info.IsDir() {
			kind = "d"
		}
		if li, e := os.Lstat(p); e == nil && li.Mode()&os.ModeSymlink != 0 {
			kind = "l"
		}
		sz := info.Size()
		if info.IsDir() {
			sz = 0
		}
		out[rel] = fmt.Sprintf("%s:%d", kind, sz)
		return nil
	})
	return out
}

// canon: a recorded path relative to the key folder, as the key store spelled it (no cleaning);
// the key folder itself is dropped; anything not textually below the folder is kept absolute
func (w *accWorld) canon(p string) (string, bool) {
	if p == w.sb.root {
		return "", false
	}
	if strings.HasPrefix(p, w.sb.root+"/") {
		return p[len(w.sb.root)+1:], true
	}
	return p, true
}

func (w *accWorld) inside(p string) bool {
	c := filepath.Clean(p)
	return c == w.sb.root || strings.HasPrefix(c, w.sb.root+"/")
}

// victims planted outside the key folder: files a careless accessor would read / remove
func (w *accWorld) plantVictims(id string) []string {
	var planted []string
	for _, suf := range []string{"_storage", "_storage.pub", "_storage_sym", "_hmac", "_server", "_translator", ".pub"} {
		p := filepath.Clean(filepath.Join(w.sb.root, id+suf))
		if w.inside(p) || !strings.HasPrefix(p, w.sb.top+"/") {
			continue
		}
		if err := os.MkdirAll(filepath.Dir(p), 0o700); err != nil {
			continue
		}
		sealed, _ := w.enc.Encrypt(nil, []byte("victim-key-material-0123456789ab"), keystoreV1.NewClientIDKeyContext(keystoreV1.PurposeUndefined, []byte(id)))
		if os.WriteFile(p, sealed, 0o600) == nil {
			planted = append(planted, p)
		}
	}
	return planted
}

type accResult struct {
	answer   string // "rejected" | "touched n <hex>…"
	env      string // present index tmpPriv tmpPub tsPriv tsPub nPriv h… nPub h…
	outside  []recCall
	changed  []string // sandbox entries outside the key folder that appeared / vanished / changed
	readOut  bool     // a planted victim was returned (err == nil on a reader)
	err      error
	symlinks []string
}

// runAccess: fresh world; scenario "A<rot>" = all keys of the id exist with rot rotations,
// "B" = empty key folder, "V" = empty key folder + victims planted where the id points outside
func runAccess(method string, id []byte, scenario string, index int) accResult {
	w := newAccWorld()
	defer w.sb.close()
	present := false
	if strings.HasPrefix(scenario, "A") {
		w.populate(id, core.Atoi(scenario[1:]))
		present = true
	}
	if scenario == "V" {
		w.plantVictims(string(id))
	}
	before := w.tree()
	w.st.calls, w.st.temps, w.st.links, w.st.listing = nil, nil, nil, nil
	err := w.call(method, id, index)
	after := w.tree()

	res := accResult{err: err}
	set := map[string]bool{}
	for _, c := range w.st.calls {
		if !w.inside(c.path) {
			res.outside = append(res.outside, c)
		}
		if rel, ok := w.canon(c.path); ok {
			set[core.Hex([]byte(rel))] = true
		}
	}
	for k, v := range before {
		if !strings.HasPrefix(k+"/", "l1/l2/l3/root/") && after[k] != v {
			res.changed = append(res.changed, k)
		}
	}
	for k, v := range after {
		if !strings.HasPrefix(k+"/", "l1/l2/l3/root/") && before[k] == "" {
			res.changed = append(res.changed, k)
		}
		if strings.HasPrefix(v, "l:") {
			res.symlinks = append(res.symlinks, k)
		}
	}
	sort.Strings(res.changed)
	if errors.Is(err, keystoreV1.ErrInvalidClientID) && len(w.st.calls) == 0 {
		res.answer = "rejected"
	} else {
		var hs []string
		for h := range set {
			hs = append(hs, h)
		}
		sort.Strings(hs)
		res.answer = fmt.Sprintf("touched %d", len(hs))
		if len(hs) > 0 {
			res.answer += " " + strings.Join(hs, " ")
		}
	}
	// what the environment contributed
	suffixOf := func(i int) string { // digits TempFile appended to the final name
		if i >= len(w.st.temps) {
			return "-"
		}
		t := w.st.temps[i]
		if final, ok := w.st.renames[t]; ok && strings.HasPrefix(t, final) {
			return core.Hex([]byte(t[len(final):]))
		}
		return "-"
	}
	ts := func(i int) string {
		if i >= len(w.st.links) {
			// a syntactically valid stamp for the unused slot
			return core.Hex([]byte("2006-01-02T15:04:05"))
		}
		return core.Hex([]byte(filepath.Base(w.st.links[i])))
	}
	list := func(i int) string {
		if i >= len(w.st.listing) {
			return "0"
		}
		s := fmt.Sprintf("%d", len(w.st.listing[i]))
		for _, n := range w.st.listing[i] {
			s += " " + core.Hex([]byte(n))
		}
		return s
	}
	res.env = fmt.Sprintf("%s %d %s %s %s %s %s %s", b01(present), index, suffixOf(0), suffixOf(1), ts(0), ts(1), list(0), list(1))
	res.readOut = err == nil && scenario == "V"
	return res
}

func (res accResult) String() string {
	out := ""
	for _, c := range res.outside {
		out += " " + c.fn + ":" + core.Hex([]byte(c.path))
	}
	ch := ""
	for _, c := range res.changed {
		ch += " " + core.Hex([]byte(c))
	}
	return fmt.Sprintf("%s | %s | %d%s | %d%s | %d | %s", res.answer, res.env, len(res.outside), out, len(res.changed), ch, len(res.symlinks), b01(res.readOut))
}

func parseAccResult(s string) accResult {
	f := strings.Split(s, " | ")
	if len(f) != 6 {
		panic("harness: C07.v1.access.run: " + s)
	}
	res := accResult{answer: f[0], env: f[1], readOut: f[5] == "1"}
	for _, t := range strings.Fields(f[2])[1:] {
		i := strings.IndexByte(t, ':')
		res.outside = append(res.outside, recCall{t[:i], string(core.UnHex(t[i+1:]))})
	}
	for _, t := range strings.Fields(f[3])[1:] {
		res.changed = append(res.changed, string(core.UnHex(t)))
	}
	for i := core.Atoi(f[4]); i > 0; i-- {
		res.symlinks = append(res.symlinks, "?")
	}
	return res
}

func init() {
	// C07.v1.access.run <method> <id> <scenario> <index>: the real call over the recording storage
	core.Register("C07.v1.access.run", func(a []string) string {
		res := runAccess(a[0], core.UnHex(a[1]), a[2], core.Atoi(a[3]))
		return res.String()
	})
	// replayable form of the model comparison: the observed answer travels at the end of the line
	core.Register("C07.v1.access", func(a []string) string {
		for i, t := range a {
			if t == "=>" {
				return strings.Join(a[i+1:], " ")
			}
		}
		return "bad-line"
	})
}

// adversarial client ids (the writers' list and more): separators, dot components, absolute paths,
// empty, NUL, too short / too long, trailing separator, look-alikes of the key store's own names
var accBadIDs = []string{
	"../x", "../escaped", "a/../../x", "/abs", "/abs/olute", "..", ".", "", "x/", "x\x00y", "client\x00", "abc",
	"../../victim", "cli/../../../ent", "client/../../x", "./client", "client/.", "a/b/c/d/e", "client.a", "client\\a", "....",
	strings.Repeat("k", 257), strings.Repeat("../", 3) + "zzzzz", ".poison_key/poison_key", "é-client", "client\n", "%2e%2e%2fx",
}

var accGoodIDs = []string{"client_a", "x y z 1", "alpha_hmac", "beta_storage", "00000", "UPPER_lower-9", strings.Repeat("k", 200)}

func staysInTop(root, top, id string) bool {
	for _, suf := range []string{"", "_storage.pub.old/x"} {
		p := filepath.Clean(root + "/" + id + suf)
		if p != top && !strings.HasPrefix(p, top+"/") {
			return false
		}
	}
	return true
}

func runV1Access(r *core.Run) {
	rd := r.Rand.Fork()
	one := func(method, id, scenario string, index int, tag string) {
		valid := keystoreV1.ValidateID([]byte(id))
		vt := "id:valid"
		if !valid {
			vt = "id:invalid"
		}
		r.Begin(fmt.Sprintf("v1acc:%s:%s:%s:%d", method, id, scenario, index), true, "stream:v1-access", "v1m:"+method, "scenario:"+scenario[:1], vt, tag)
		line := fmt.Sprintf("C07.v1.access.run %s %s %s %d", method, core.Hex([]byte(id)), scenario, index)
		res := parseAccResult(r.Impl(line))
		// (1) the model predicts the exact set of paths handed to the storage, or the rejection
		mline := fmt.Sprintf("C07.v1.access %s %s %s => %s", method, core.Hex([]byte(id)), res.env, res.answer)
		r.Diff(mline, res.answer)
		// (2) the property: nothing outside the key folder is read, written, listed or removed
		class := "v1-path-escape"
		if !valid {
			class = "v1-unvalidated-client-id-escapes"
		}
		for _, c := range res.outside {
			r.Fail(class, fmt.Sprintf("%s(%q): Storage.%s(%q) – outside the key folder", method, id, c.fn, c.path))
			break
		}
		for _, k := range res.changed {
			r.Fail(class, fmt.Sprintf("%s(%q) changed %s outside the key folder", method, id, k))
			break
		}
		if res.readOut && len(res.outside) > 0 {
			r.Fail(class, fmt.Sprintf("%s(%q) returned a key read from outside the key folder", method, id))
		}
		// a hostile id never makes Acra create a symbolic link
		r.Check(len(res.symlinks) == 0, "v1-created-symlink", fmt.Sprintf("%s(%q) left a symbolic link in the sandbox: %v", method, id, res.symlinks))
		// (that an invalid id is refused before the storage is touched is the model's prediction, compared
		// above; the oracle judges only what the property says: nothing outside the key folder)
		if res.answer == "rejected" {
			r.Tag("access:rejected")
		} else {
			r.Tag("access:touched")
		}
	}
	// regression corpus: the witnesses of the finding, every method
	for _, m := range accMethods {
		one(m, "../../victim", "V", 2, "corpus")
		one(m, "../escaped", "V", 2, "corpus")
	}
	// every method × every adversarial id (quick: a seeded third of the ids per method beyond the corpus)
	for _, m := range accMethods {
		for _, id := range accBadIDs {
			if !r.Thorough() && !rd.Chance(22) {
				continue
			}
			sc := "V"
			if rd.Chance(25) {
				sc = "B"
			}
			one(m, id, sc, 2+rd.Intn(2), "adversarial")
		}
	}
	// every method on valid ids: exact path sets with and without keys, rotated 0..2 times
	for _, m := range accMethods {
		for i, id := range accGoodIDs {
			if !r.Thorough() && i != rd.Intn(len(accGoodIDs)) && i != 0 {
				continue
			}
			rot := rd.Intn(3)
			one(m, id, fmt.Sprintf("A%d", rot), 1+rd.Intn(rot+3), "valid")
			if r.Thorough() || rd.Chance(40) {
				one(m, id, "B", 2, "valid")
			}
		}
	}
	// random ids: bytes from an alphabet rich in separators and dots
	n := r.N(30, 1500)
	alphabet := []string{"/", "/", ".", "..", "a", "b", "_", "-", " ", "\\", "\x00", "client", "storage", "_storage", ".old", ".pub", "0"}
	for i := 0; i < n; i++ {
		var sb strings.Builder
		for k := 1 + rd.Intn(6); k > 0; k-- {
			sb.WriteString(core.Pick(rd, alphabet))
		}
		id := sb.String()
		if !staysInTop(newSandboxRootTemplate, newSandboxTopTemplate, id) {
			id = strings.ReplaceAll(id, "..", "x")
		}
		one(core.Pick(rd, accMethods), id, core.Pick(rd, []string{"V", "B"}), 2, "random")
	}
}

// templates for the lexical "stays inside the sandbox" guard of the generator (depth of the key
// folder below the sandbox top)
const (
	newSandboxTopTemplate  = "/S"
	newSandboxRootTemplate = "/S/l1/l2/l3/root"
)
