package c07

import (
	"bytes"
	"fmt"
	"os"
	"path/filepath"
	"strings"

	"github.com/cossacklabs/acra/keystore/v2/keystore/asn1"
	"github.com/cossacklabs/acra/keystore/v2/keystore/filesystem"
	backendAPI "github.com/cossacklabs/acra/keystore/v2/keystore/filesystem/backend/api"

	"verifharness/internal/core"
)

// DER framing of a ring file OUTSIDE the signed span (model KeystoreSec/DerParse.lean = Go's encoding/asn1
// reader for VerifiedContainer), and the mode of the temporary `<ring>.keyring.new` a creation goes through.

func derLenBytes(n int) []byte {
	switch {
	case n < 128:
		return []byte{byte(n)}
	case n < 256:
		return []byte{0x81, byte(n)}
	default:
		return []byte{0x82, byte(n >> 8), byte(n)}
	}
}

func derTLV(tag byte, content []byte) []byte {
	return append(append([]byte{tag}, derLenBytes(len(content))...), content...)
}

func cat(parts ...[]byte) []byte {
	var out []byte
	for _, p := range parts {
		out = append(out, p...)
	}
	return out
}

type framing struct {
	name string
	data []byte
	// does Go's reader + the notary accept it (what the model must say too); the key ring a reader gets is the original one
	loads bool
}

var sha256OIDBytes = []byte{0x60, 0x86, 0x48, 0x01, 0x65, 0x03, 0x04, 0x02, 0x01}

// framingsOf rebuilds a valid ring file around its untouched payload with different framings
func framingsOf(rd *core.Rand, d []byte) []framing {
	c, err := asn1.UnmarshalVerifiedContainer(d)
	if err != nil || len(c.Signatures) != 1 {
		panic("harness: generated ring does not parse")
	}
	raw := []byte(c.Payload.RawContent)
	sig := c.Signatures[0].Signature
	oid := derTLV(0x06, sha256OIDBytes)
	sigEl := derTLV(0x30, cat(oid, derTLV(0x04, sig)))
	unknown := derTLV(0x30, cat(derTLV(0x06, []byte{0x2a, 0x03, 0x04}), derTLV(0x04, rd.Bytes(1+rd.Intn(40)))))
	junk := rd.Bytes(1 + rd.Intn(6))
	file := func(sigs []byte, tail []byte) []byte { return derTLV(0x30, cat(raw, derTLV(0x31, sigs), tail)) }
	nonMinimal := func(tag byte, content []byte) []byte {
		// long form where the short form is due / a leading zero length octet
		if len(content) < 128 {
			return cat([]byte{tag, 0x81, byte(len(content))}, content)
		}
		return cat([]byte{tag, 0x83, 0x00, byte(len(content) >> 8), byte(len(content))}, content)
	}
	out := []framing{
		{"rebuilt", file(sigEl, nil), true},
		{"bytes-after-signature-set", file(sigEl, junk), true},
		{"bytes-inside-signature-element", file(derTLV(0x30, cat(oid, derTLV(0x04, sig), junk)), nil), true},
		{"unknown-algorithm-signature-after", file(cat(sigEl, unknown), nil), true},
		{"unknown-algorithm-signature-before", file(cat(unknown, sigEl), nil), true},
		{"duplicate-signature", file(cat(sigEl, sigEl), nil), true},
		// what the reader refuses
		{"only-unknown-algorithm-signature", file(unknown, nil), false},
		{"empty-signature-set", file(nil, nil), false},
		{"no-signature-set", derTLV(0x30, raw), false},
		{"bytes-after-container", cat(file(sigEl, nil), junk), false},
		{"signature-set-as-sequence", derTLV(0x30, cat(raw, derTLV(0x30, sigEl))), false},
		{"non-minimal-outer-length", nonMinimal(0x30, cat(raw, derTLV(0x31, sigEl))), false},
		{"non-minimal-signature-length", file(derTLV(0x30, cat(oid, nonMinimal(0x04, sig))), nil), false},
		{"indefinite-outer-length", cat([]byte{0x30, 0x80}, raw, derTLV(0x31, sigEl), []byte{0, 0}), false},
		{"oid-leading-0x80", file(derTLV(0x30, cat(derTLV(0x06, cat([]byte{0x60, 0x80, 0x86, 0x48}, sha256OIDBytes[3:])), derTLV(0x04, sig))), nil), false},
		{"oid-truncated", file(derTLV(0x30, cat(derTLV(0x06, sha256OIDBytes[:2]), derTLV(0x04, sig))), nil), false},
		{"signature-as-bit-string", file(derTLV(0x30, cat(oid, derTLV(0x03, sig))), nil), false},
		{"long-form-tag", cat([]byte{0x3f, 0x10}, derLenBytes(len(raw)+len(derTLV(0x31, sigEl))), raw, derTLV(0x31, sigEl)), false},
		{"payload-then-second-payload", derTLV(0x30, cat(raw, raw, derTLV(0x31, sigEl))), false},
		{"signature-one-byte-short", file(derTLV(0x30, cat(oid, derTLV(0x04, sig[:len(sig)-1]))), nil), false},
	}
	return out
}

// statBackend records the mode of the source of every Rename just before it happens (the temporary of a push)
type statBackend struct {
	backendAPI.Backend
	root  string
	modes []string
}

func (b *statBackend) Rename(oldpath, newpath string) error {
	if fi, err := os.Stat(filepath.Join(b.root, filepath.FromSlash(oldpath))); err == nil {
		b.modes = append(b.modes, octal(fi.Mode()))
	} else {
		b.modes = append(b.modes, "missing")
	}
	return b.Backend.Rename(oldpath, newpath)
}

func init() {
	// C07.rwopen.modes <umask> <path>: OpenKeyRingRW(path) on an empty directory back end under a real umask:
	// "<mode of <path>.keyring.new just before the rename> <mode of <path>.keyring> <modes of the directories created for it…>"
	core.Register("C07.rwopen.modes", func(a []string) string {
		um := parseOctal(a[0])
		path := string(core.UnHex(a[1]))
		var out string
		withUmask(um, func() {
			w := newRWWorld("dir")
			defer w.close()
			sb := &statBackend{Backend: noClose{w.inner}, root: w.sb.root}
			ks, err := filesystem.CustomKeyStore(sb, rwSuite(v2Sig))
			if err != nil {
				panic("harness: " + err.Error())
			}
			if _, err := ks.OpenKeyRingRW(path); err != nil {
				out = "err"
				return
			}
			fi, err := os.Stat(filepath.Join(w.sb.root, filepath.FromSlash(path)+".keyring"))
			if err != nil || len(sb.modes) != 1 {
				out = "err"
				return
			}
			res := []string{sb.modes[0], octal(fi.Mode())}
			for dir := filepath.Dir(filepath.FromSlash(path)); dir != "." && dir != "/"; dir = filepath.Dir(dir) {
				di, err := os.Stat(filepath.Join(w.sb.root, dir))
				if err != nil {
					res = append(res, "missing")
				} else {
					res = append(res, octal(di.Mode()))
				}
			}
			out = strings.Join(res, " ")
		})
		return out
	})
}

func runRingFraming(r *core.Run) {
	rd := r.Rand.Fork()
	sig := core.Hex(v2Sig)
	malleable := 0
	n := r.N(2, 12)
	for i := 0; i < n; i++ {
		m := &rwMethods[rd.Intn(len(rwMethods))]
		id := []byte("alice")
		path := m.path(id)
		d := richRing(m, id)
		hp := core.Hex([]byte(path))
		for _, f := range framingsOf(rd, d) {
			kind := "mem"
			if rd.Chance(25) {
				kind = "dir"
			}
			r.Begin(fmt.Sprintf("framing:%s:%d", f.name, i), true, "stream:framing", "framing:"+f.name)
			ro := r.Do(fmt.Sprintf("C07.roopen %s %s %s %s", kind, hp, core.Hex(f.data), sig))
			rw := r.Do(fmt.Sprintf("C07.rwopen %s %s %s 0 %s", kind, hp, core.Hex(f.data), sig))
			// whatever the reader makes of the framing, the read-write open must not replace the file
			r.Check(rw == "ok unchanged" || rw == "err unchanged", classOverwrite,
				fmt.Sprintf("OpenKeyRingRW(%q) on a ring file with framing %q: result %q – the stored bytes must stay", path, f.name, rw))
			r.Check((ro == "ok unchanged") == (rw == "ok unchanged"), "rw-open-and-ro-open-disagree",
				fmt.Sprintf("ring file with framing %q: OpenKeyRing says %q, OpenKeyRingRW says %q", f.name, ro, rw))
			if ro == "ok unchanged" && !bytes.Equal(f.data, d) {
				malleable++
				r.Tag("framing-accepted:" + f.name) // recorded, not reported: see der_outside_span_counterexample
			}
			if (ro == "ok unchanged") != f.loads {
				r.Tag("framing-unexpected:" + f.name)
			}
		}
	}
	r.Extra["ring_file_framings_accepted_outside_signed_span"] = malleable

	// the temporary of a creation and what it becomes, under real umasks
	for _, um := range permUmasks {
		path := core.Pick(rd, []string{"client/alice/storage", "poison-record", "client/bobby/hmac-sym", "a/b/c/d"})
		r.Begin(fmt.Sprintf("rwopen-modes:%o:%s", um, path), true, "stream:rwopen-modes", fmt.Sprintf("umask:%03o", um))
		out := r.Impl(fmt.Sprintf("C07.rwopen.modes %o %s", um, core.Hex([]byte(path))))
		f := strings.Fields(out)
		if !r.Check(len(f) >= 2 && out != "err", "rw-open-does-not-create-missing-ring", fmt.Sprintf("OpenKeyRingRW(%q) on an empty directory back end under umask %03o: %s", path, um, out)) {
			continue
		}
		for k, mode := range f {
			site, what := "v2.file", "the temporary "+path+".keyring.new"
			if k == 1 {
				what = path + ".keyring"
			} else if k > 1 {
				site, what = "v2.dir", "a directory created for "+path
			}
			r.Check(parseOctal(mode)&0o077 == 0, "perm-private-material-exposed", fmt.Sprintf("v2 key store, umask %03o: %s has mode %s (group/other bits set)", um, what, mode))
			r.Diff(fmt.Sprintf("C07.perm.effective %s %o => %s", site, um, mode), mode)
		}
	}
}
