package c07

import (
	"bytes"
	"fmt"
	"os"
	"path/filepath"
	"strconv"
	"strings"
	"time"

	keystoreV1 "github.com/cossacklabs/acra/keystore"
	filesystemV1 "github.com/cossacklabs/acra/keystore/filesystem"
	keystoreV2 "github.com/cossacklabs/acra/keystore/v2/keystore"
	"github.com/cossacklabs/acra/keystore/v2/keystore/api"
	"github.com/cossacklabs/acra/keystore/v2/keystore/asn1"
	"github.com/cossacklabs/acra/keystore/v2/keystore/crypto"
	"github.com/cossacklabs/acra/keystore/v2/keystore/filesystem"
	"github.com/cossacklabs/acra/keystore/v2/keystore/filesystem/backend"
	backendAPI "github.com/cossacklabs/acra/keystore/v2/keystore/filesystem/backend/api"
	"github.com/cossacklabs/themis/gothemis/keys"

	"verifharness/internal/core"
)

// The read-write open of a v2 key ring (model KeystoreSec/RingOpen.lean): a ring file that does not load
// – one changed byte, the ring of another identity, a truncated / emptied / garbage file – must make
// OpenKeyRingRW, and with it every read-write method of the v2 ServerKeyStore, FAIL and leave the file as
// it is. Every op below is self-contained (replayable from its line alone): it builds a fresh back end
// (`mem` = backend.InMemory, `dir` = backend.DirectoryBackend in a sandbox), plants the given bytes at
// `<path>.keyring`, runs the real call on a fresh key store over that back end, and judges the result by
// reading the back end's bytes DIRECTLY (os.ReadFile over the directory tree / the in-memory back end
// object) before and after – never through the key store under test.

// ---------- a back end whose content is read directly ----------

type rwWorld struct {
	kind  string
	sb    *sandbox
	inner backendAPI.Backend
}

func newRWWorld(kind string) *rwWorld {
	w := &rwWorld{kind: kind}
	if kind == "dir" {
		w.sb = newSandbox()
		b, err := backend.CreateDirectoryBackend(w.sb.root)
		if err != nil {
			panic("harness: " + err.Error())
		}
		w.inner = b
	} else {
		w.inner = backend.NewInMemory()
	}
	return w
}

func (w *rwWorld) close() {
	w.inner.Close()
	if w.sb != nil {
		w.sb.close()
	}
}

// plant stores bytes at a key path without going through any key store
func (w *rwWorld) plant(path string, data []byte) {
	if w.kind == "dir" {
		full := filepath.Join(w.sb.root, filepath.FromSlash(path))
		if err := os.MkdirAll(filepath.Dir(full), 0o700); err != nil {
			panic("harness: " + err.Error())
		}
		if err := os.WriteFile(full, data, 0o600); err != nil {
			panic("harness: " + err.Error())
		}
		return
	}
	if err := w.inner.Put(path, append([]byte{}, data...)); err != nil {
		panic("harness: " + err.Error())
	}
}

// snapshot reads everything the back end holds: key path → bytes (the lock file of the directory back end
// is not key material and is left out)
func (w *rwWorld) snapshot() map[string][]byte {
	out := map[string][]byte{}
	if w.kind == "dir" {
		filepath.Walk(w.sb.root, func(p string, info os.FileInfo, err error) error {
			if err != nil || info.IsDir() {
				return nil
			}
			rel, _ := filepath.Rel(w.sb.root, p)
			if rel == ".lock" {
				return nil
			}
			d, err := os.ReadFile(p)
			if err != nil {
				panic("harness: " + err.Error())
			}
			out[filepath.ToSlash(rel)] = d
			return nil
		})
		return out
	}
	paths, _ := w.inner.ListAll()
	for _, p := range paths {
		d, err := w.inner.Get(p)
		if err == nil {
			out[p] = append([]byte{}, d...)
		}
	}
	return out
}

// classify compares two snapshots: unchanged / created (exactly `<path>.keyring` appeared, nothing else
// differs) / changed
func classify(before, after map[string][]byte, path string) string {
	same := len(before) == len(after)
	if same {
		for k, v := range before {
			if w, ok := after[k]; !ok || !bytes.Equal(v, w) {
				same = false
			}
		}
	}
	if same {
		return "unchanged"
	}
	ring := path + ".keyring"
	if _, had := before[ring]; !had && len(after) == len(before)+1 {
		if _, has := after[ring]; has {
			ok := true
			for k, v := range before {
				if w, there := after[k]; !there || !bytes.Equal(v, w) {
					ok = false
				}
			}
			if ok {
				return "created"
			}
		}
	}
	return "changed"
}

func rwSuite(sigKey []byte) *crypto.KeyStoreSuite {
	s, err := crypto.NewSCellSuite(v2Enc, sigKey)
	if err != nil {
		panic("harness: " + err.Error())
	}
	return s
}

func parseStored(s string) (data []byte, present bool) {
	if s == "absent" {
		return nil, false
	}
	return core.UnHex(s), true
}

// rwScenario: fresh back end with `stored` at `<path>.keyring` (and possibly a leftover temporary), the call,
// the verdict from direct reads
func rwScenario(kind, path, stored string, leftover bool, sigKey []byte, call func(ks api.MutableKeyStore, w *rwWorld) error) string {
	w := newRWWorld(kind)
	defer w.close()
	if d, ok := parseStored(stored); ok {
		w.plant(path+".keyring", d)
	}
	if leftover {
		w.plant(path+".keyring.new", []byte{})
	}
	before := w.snapshot()
	ks, err := filesystem.CustomKeyStore(noClose{w.inner}, rwSuite(sigKey))
	if err != nil {
		panic("harness: " + err.Error())
	}
	err = call(ks, w)
	after := w.snapshot()
	res := "ok "
	if err != nil {
		res = "err "
	}
	return res + classify(before, after, path)
}

// ---------- the read-write methods of the v2 ServerKeyStore ----------

// fakeV1 hands fixed key material to ImportKeyFileV1 (the five unexported importers are reached through it)
type fakeV1 struct{}

func fixedPair() *keys.Keypair {
	kp, err := keys.New(keys.TypeEC)
	if err != nil {
		panic("harness: " + err.Error())
	}
	return kp
}

func (fakeV1) EnumerateExportedKeyPaths() ([]string, error) { return nil, nil }
func (fakeV1) ExportPublicKey(filesystemV1.ExportedKey) (*keys.PublicKey, error) {
	return fixedPair().Public, nil
}
func (fakeV1) ExportPrivateKey(filesystemV1.ExportedKey) (*keys.PrivateKey, error) {
	return fixedPair().Private, nil
}
func (fakeV1) ExportKeyPair(filesystemV1.ExportedKey) (*keys.Keypair, error) { return fixedPair(), nil }
func (fakeV1) ExportSymmetricKey(filesystemV1.ExportedKey) ([]byte, error) {
	return bytes.Repeat([]byte{0x5a}, 32), nil
}
func (fakeV1) ExportPlaintextSymmetricKey(filesystemV1.ExportedKey) ([]byte, error) {
	return bytes.Repeat([]byte{0x5a}, 32), nil
}

type rwMethod struct {
	name string
	// ring path for a client id
	path func(id []byte) string
	call func(s *keystoreV2.ServerKeyStore, id []byte, idx int) error
}

func clientPath(suffix string) func([]byte) string {
	return func(id []byte) string { return "client/" + string(id) + "/" + suffix }
}
func fixedPath(p string) func([]byte) string { return func([]byte) string { return p } }

func importV1(purpose keystoreV1.KeyPurpose, perClient bool) func(*keystoreV2.ServerKeyStore, []byte, int) error {
	return func(s *keystoreV2.ServerKeyStore, id []byte, _ int) error {
		kc := keystoreV1.NewKeyContext(purpose, nil)
		if perClient {
			kc = keystoreV1.NewClientIDKeyContext(purpose, id)
		}
		return s.ImportKeyFileV1(fakeV1{}, filesystemV1.ExportedKey{KeyContext: kc})
	}
}

// sorted by name – compared with the regenerated table `rwEntryPoints` through the model op `C07.rwentries`
var rwMethods = []rwMethod{
	{"ServerKeyStore.DestroyClientIDEncryptionKeyPair", clientPath("storage"), func(s *keystoreV2.ServerKeyStore, id []byte, _ int) error {
		return s.DestroyClientIDEncryptionKeyPair(id)
	}},
	{"ServerKeyStore.DestroyClientIDSymmetricKey", clientPath("storage-sym"), func(s *keystoreV2.ServerKeyStore, id []byte, _ int) error {
		return s.DestroyClientIDSymmetricKey(id)
	}},
	{"ServerKeyStore.DestroyHmacSecretKey", clientPath("hmac-sym"), func(s *keystoreV2.ServerKeyStore, id []byte, _ int) error {
		return s.DestroyHmacSecretKey(id)
	}},
	{"ServerKeyStore.DestroyPoisonKeyPair", fixedPath("poison-record"), func(s *keystoreV2.ServerKeyStore, _ []byte, _ int) error {
		return s.DestroyPoisonKeyPair()
	}},
	{"ServerKeyStore.DestroyPoisonSymmetricKey", fixedPath("poison-record-sym"), func(s *keystoreV2.ServerKeyStore, _ []byte, _ int) error {
		return s.DestroyPoisonSymmetricKey()
	}},
	{"ServerKeyStore.DestroyRotatedClientIDEncryptionKeyPair", clientPath("storage"), func(s *keystoreV2.ServerKeyStore, id []byte, idx int) error {
		return s.DestroyRotatedClientIDEncryptionKeyPair(id, idx)
	}},
	{"ServerKeyStore.DestroyRotatedClientIDSymmetricKey", clientPath("storage-sym"), func(s *keystoreV2.ServerKeyStore, id []byte, idx int) error {
		return s.DestroyRotatedClientIDSymmetricKey(id, idx)
	}},
	{"ServerKeyStore.DestroyRotatedHmacSecretKey", clientPath("hmac-sym"), func(s *keystoreV2.ServerKeyStore, id []byte, idx int) error {
		return s.DestroyRotatedHmacSecretKey(id, idx)
	}},
	{"ServerKeyStore.DestroyRotatedPoisonKeyPair", fixedPath("poison-record"), func(s *keystoreV2.ServerKeyStore, _ []byte, idx int) error {
		return s.DestroyRotatedPoisonKeyPair(idx)
	}},
	{"ServerKeyStore.DestroyRotatedPoisonSymmetricKey", fixedPath("poison-record-sym"), func(s *keystoreV2.ServerKeyStore, _ []byte, idx int) error {
		return s.DestroyRotatedPoisonSymmetricKey(idx)
	}},
	{"ServerKeyStore.GenerateClientIDSymmetricKey", clientPath("storage-sym"), func(s *keystoreV2.ServerKeyStore, id []byte, _ int) error {
		return s.GenerateClientIDSymmetricKey(id)
	}},
	{"ServerKeyStore.GenerateDataEncryptionKeys", clientPath("storage"), func(s *keystoreV2.ServerKeyStore, id []byte, _ int) error {
		return s.GenerateDataEncryptionKeys(id)
	}},
	{"ServerKeyStore.GenerateHmacKey", clientPath("hmac-sym"), func(s *keystoreV2.ServerKeyStore, id []byte, _ int) error {
		return s.GenerateHmacKey(id)
	}},
	{"ServerKeyStore.GenerateLogKey", fixedPath("audit-log"), func(s *keystoreV2.ServerKeyStore, _ []byte, _ int) error {
		return s.GenerateLogKey()
	}},
	{"ServerKeyStore.GeneratePoisonKeyPair", fixedPath("poison-record"), func(s *keystoreV2.ServerKeyStore, _ []byte, _ int) error {
		return s.GeneratePoisonKeyPair()
	}},
	{"ServerKeyStore.GeneratePoisonSymmetricKey", fixedPath("poison-record-sym"), func(s *keystoreV2.ServerKeyStore, _ []byte, _ int) error {
		return s.GeneratePoisonSymmetricKey()
	}},
	{"ServerKeyStore.GetPoisonKeyPair", fixedPath("poison-record"), func(s *keystoreV2.ServerKeyStore, _ []byte, _ int) error {
		_, err := s.GetPoisonKeyPair()
		return err
	}},
	{"ServerKeyStore.GetPoisonPrivateKeys", fixedPath("poison-record"), func(s *keystoreV2.ServerKeyStore, _ []byte, _ int) error {
		_, err := s.GetPoisonPrivateKeys()
		return err
	}},
	{"ServerKeyStore.GetPoisonSymmetricKey", fixedPath("poison-record-sym"), func(s *keystoreV2.ServerKeyStore, _ []byte, _ int) error {
		_, err := s.GetPoisonSymmetricKey()
		return err
	}},
	{"ServerKeyStore.GetPoisonSymmetricKeys", fixedPath("poison-record-sym"), func(s *keystoreV2.ServerKeyStore, _ []byte, _ int) error {
		_, err := s.GetPoisonSymmetricKeys()
		return err
	}},
	{"ServerKeyStore.SaveDataEncryptionKeys", clientPath("storage"), func(s *keystoreV2.ServerKeyStore, id []byte, _ int) error {
		return s.SaveDataEncryptionKeys(id, fixedPair())
	}},
	{"ServerKeyStore.importClientIDSymmetricKey", clientPath("storage-sym"), importV1(keystoreV1.PurposeStorageClientSymmetricKey, true)},
	{"ServerKeyStore.importHmacKey", clientPath("hmac-sym"), importV1(keystoreV1.PurposeSearchHMAC, true)},
	{"ServerKeyStore.importLogKey", fixedPath("audit-log"), importV1(keystoreV1.PurposeAuditLog, false)},
	{"ServerKeyStore.importPoisonRecordSymmetricKey", fixedPath("poison-record-sym"), importV1(keystoreV1.PurposePoisonRecordSymmetricKey, false)},
	{"ServerKeyStore.savePoisonKeyPair", fixedPath("poison-record"), importV1(keystoreV1.PurposePoisonRecordKeyPair, false)},
}

func rwMethodByName(name string) *rwMethod {
	for i := range rwMethods {
		if rwMethods[i].name == name {
			return &rwMethods[i]
		}
	}
	return nil
}

func init() {
	// C07.rwopen <mem|dir> <path> <stored|absent> <leftover> <sigKey>
	core.Register("C07.rwopen", func(a []string) string {
		path := string(core.UnHex(a[1]))
		return rwScenario(a[0], path, a[2], a[3] == "1", core.UnHex(a[4]), func(ks api.MutableKeyStore, _ *rwWorld) error {
			_, err := ks.OpenKeyRingRW(path)
			return err
		})
	})
	// C07.warmcopy <mem|dir> <sigKey>: ONE long-lived key store creates and reads ring A (so whatever the store
	// remembers about verified rings is warm), then A's stored file is copied to ring B's path and B is opened
	// read-only and read-write through the SAME store. Both must fail and the copied file must stay as it is:
	// the signature context (the ring path) is part of what is verified, however often the bytes were seen.
	core.Register("C07.warmcopy", func(a []string) string {
		w := newRWWorld(a[0])
		defer w.close()
		ks, err := filesystem.CustomKeyStore(noClose{w.inner}, rwSuite(core.UnHex(a[1])))
		if err != nil {
			panic("harness: " + err.Error())
		}
		pa, pb := "client/alice/storage", "client/bob/storage"
		if _, err := ks.OpenKeyRingRW(pa); err != nil {
			return "err create"
		}
		for i := 0; i < 2; i++ {
			if _, err := ks.OpenKeyRing(pa); err != nil {
				return "err read-own"
			}
		}
		da, ok := w.snapshot()[pa+".keyring"]
		if !ok {
			return "err no-file"
		}
		w.plant(pb+".keyring", append([]byte{}, da...))
		_, e1 := ks.OpenKeyRing(pb)
		_, e2 := ks.OpenKeyRingRW(pb)
		db := w.snapshot()[pb+".keyring"]
		res := "ro=" + map[bool]string{true: "ok", false: "err"}[e1 == nil] + " rw=" + map[bool]string{true: "ok", false: "err"}[e2 == nil]
		if bytes.Equal(db, da) {
			return res + " unchanged"
		}
		return res + " changed"
	})
	// C07.roopen <mem|dir> <path> <stored|absent> <sigKey>
	core.Register("C07.roopen", func(a []string) string {
		path := string(core.UnHex(a[1]))
		return rwScenario(a[0], path, a[2], false, core.UnHex(a[3]), func(ks api.MutableKeyStore, _ *rwWorld) error {
			_, err := ks.OpenKeyRing(path)
			return err
		})
	})
	// C07.rwentry <mem|dir> <method> <clientID> <index> <path> <stored|absent> <sigKey>
	core.Register("C07.rwentry", func(a []string) string {
		m := rwMethodByName(a[1])
		if m == nil {
			panic("harness: unknown read-write method " + a[1])
		}
		id := core.UnHex(a[2])
		idx, _ := strconv.Atoi(a[3])
		path := string(core.UnHex(a[4]))
		if m.path(id) != path {
			panic("harness: ring path of " + a[1] + " is " + m.path(id) + ", not " + path)
		}
		return rwScenario(a[0], path, a[5], false, core.UnHex(a[6]), func(ks api.MutableKeyStore, _ *rwWorld) error {
			return m.call(keystoreV2.NewServerKeyStore(ks), id, idx)
		})
	})
	// C07.rwimport <mem|dir> <path> <stored|absent> <sigKey> <overwrite>: ImportKeyRings of a bundle that holds a ring `path`
	core.Register("C07.rwimport", func(a []string) string {
		path := string(core.UnHex(a[1]))
		sigKey := core.UnHex(a[3])
		return rwScenario(a[0], path, a[2], false, sigKey, func(ks api.MutableKeyStore, _ *rwWorld) error {
			// the bundle comes from another key store holding one key in that ring
			src, err := filesystem.CustomKeyStore(backend.NewInMemory(), rwSuite(sigKey))
			if err != nil {
				panic("harness: " + err.Error())
			}
			ring, err := src.OpenKeyRingRW(path)
			if err != nil {
				panic("harness: " + err.Error())
			}
			since := time.Unix(1600000000, 0).UTC()
			if _, err := ring.AddKey(api.KeyDescription{ValidSince: since, ValidUntil: since.Add(time.Hour),
				Data: []api.KeyData{{Format: api.ThemisSymmetricKeyFormat, SymmetricKey: bytes.Repeat([]byte{0x33}, 32)}}}); err != nil {
				panic("harness: " + err.Error())
			}
			transport := rwSuite([]byte("c07-transport-signature-key-32b!"))
			bundle, err := src.ExportKeyRings([]string{path}, transport, keystoreV1.ExportPrivateKeys)
			if err != nil {
				panic("harness: " + err.Error())
			}
			var delegate api.KeyRingImportDelegate
			if a[4] == "1" {
				delegate = overwriteDelegate{}
			}
			_, err = ks.ImportKeyRings(bundle, transport, delegate)
			return err
		})
	})
	// C07.rwwrite <mem|dir> <path> <valid> <stored|absent> <sigKey>: a handle opened on <valid>; the file becomes <stored>; AddKey on the handle
	core.Register("C07.rwwrite", func(a []string) string {
		path := string(core.UnHex(a[1]))
		valid := core.UnHex(a[2])
		w := newRWWorld(a[0])
		defer w.close()
		w.plant(path+".keyring", valid)
		ks, err := filesystem.CustomKeyStore(noClose{w.inner}, rwSuite(core.UnHex(a[4])))
		if err != nil {
			panic("harness: " + err.Error())
		}
		ring, err := ks.OpenKeyRingRW(path)
		if err != nil {
			return "harness-valid-ring-does-not-open"
		}
		if d, ok := parseStored(a[3]); ok {
			if a[0] == "dir" {
				w.plant(path+".keyring", d)
			} else {
				overwrite(w.inner, path+".keyring", d)
			}
		} else {
			return "harness-absent-not-supported"
		}
		before := w.snapshot()
		since := time.Unix(1600000000, 0).UTC()
		_, err = ring.AddKey(api.KeyDescription{ValidSince: since, ValidUntil: since.Add(time.Hour),
			Data: []api.KeyData{{Format: api.ThemisSymmetricKeyFormat, SymmetricKey: bytes.Repeat([]byte{0x44}, 32)}}})
		after := w.snapshot()
		res := "ok "
		if err != nil {
			res = "err "
		}
		return res + classify(before, after, path)
	})
	// the names of the harness' method table (the model answers with the regenerated table)
	core.Register("C07.rwentries", func([]string) string {
		var names []string
		for _, m := range rwMethods {
			names = append(names, m.name)
		}
		return strings.Join(names, ",")
	})
}

type overwriteDelegate struct{}

func (overwriteDelegate) DecideKeyRingOverwrite(currentData, newData *asn1.KeyRing) (api.ImportDecision, error) {
	return api.ImportOverwrite, nil
}

// ---------- generator ----------

// richRing builds, through the real API, the stored file of ring `path` holding three generations (no
// destroyed key, current key set): what the entry points are run over.
func richRing(m *rwMethod, id []byte) []byte {
	inner := backend.NewInMemory()
	ks, err := filesystem.CustomKeyStore(noClose{inner}, rwSuite(v2Sig))
	if err != nil {
		panic("harness: " + err.Error())
	}
	s := keystoreV2.NewServerKeyStore(ks)
	gen := map[string]string{"storage": "ServerKeyStore.GenerateDataEncryptionKeys", "storage-sym": "ServerKeyStore.GenerateClientIDSymmetricKey",
		"hmac-sym": "ServerKeyStore.GenerateHmacKey", "poison-record": "ServerKeyStore.GeneratePoisonKeyPair",
		"poison-record-sym": "ServerKeyStore.GeneratePoisonSymmetricKey", "audit-log": "ServerKeyStore.GenerateLogKey"}
	path := m.path(id)
	g := rwMethodByName(gen[filepath.Base(path)])
	for i := 0; i < 3; i++ {
		if err := g.call(s, id, 0); err != nil {
			panic("harness: " + err.Error())
		}
	}
	d, err := inner.Get(path + ".keyring")
	if err != nil {
		panic("harness: " + err.Error())
	}
	return append([]byte{}, d...)
}

type tamper struct {
	kind string
	data []byte
	desc string
}

// tampers of a valid ring file `d`; `foreign` is the valid file of the same kind of ring of another identity
func tampersOf(rd *core.Rand, d, foreign []byte) []tamper {
	var out []tamper
	flip := func(kind string, pos int, what string) {
		m := append([]byte{}, d...)
		delta := byte(1 + rd.Intn(255))
		m[pos] ^= delta
		out = append(out, tamper{kind, m, fmt.Sprintf("byte %d of %d (%s) xor %#x", pos, len(d), what, delta)})
	}
	c, err := asn1.UnmarshalVerifiedContainer(d)
	if err != nil {
		panic("harness: generated ring does not parse: " + err.Error())
	}
	raw := []byte(c.Payload.RawContent)
	spanAt := bytes.Index(d, raw)
	sig := c.Signatures[0].Signature
	sigAt := bytes.LastIndex(d, sig)
	// inside the signed span
	flip("span", spanAt+rd.Intn(len(raw)), "signed span")
	flip("span", spanAt+len(raw)-1-rd.Intn(min(len(raw), 40)), "key data inside the signed span")
	// inside the signature
	flip("sig", sigAt+rd.Intn(len(sig)), "signature")
	// DER framing: the outer header, the header of the signature set / element / algorithm
	flip("frame", rd.Intn(spanAt), "outer header")
	flip("frame", spanAt+len(raw)+rd.Intn(sigAt-spanAt-len(raw)), "framing between payload and signature")
	// the ring of another identity
	out = append(out, tamper{"copy", append([]byte{}, foreign...), "ring file of another identity"})
	// truncated, garbage, emptied, extended
	cut := 1 + rd.Intn(len(d)-1)
	out = append(out, tamper{"trunc", append([]byte{}, d[:len(d)-cut]...), fmt.Sprintf("truncated by %d of %d bytes", cut, len(d))})
	out = append(out, tamper{"garbage", rd.Bytes(1 + rd.Intn(300)), "random bytes"})
	out = append(out, tamper{"empty", []byte{}, "emptied (0 bytes)"})
	out = append(out, tamper{"append", append(append([]byte{}, d...), rd.Bytes(1+rd.Intn(8))...), "bytes appended"})
	return out
}

const classOverwrite = "rw-open-overwrites-tampered-ring"

func runRingOpen(r *core.Run) {
	rd := r.Rand.Fork()
	sig := core.Hex(v2Sig)

	// the harness' method table is the regenerated table of read-write entry points
	r.Begin("rwentries", true, "stream:rwopen")
	r.Do("C07.rwentries")

	ids := [][]byte{[]byte("alice"), []byte("bobby"), []byte("client-" + strconv.Itoa(rd.Intn(1000)))}
	kindOf := func() string {
		if rd.Chance(30) {
			return "dir"
		}
		return "mem"
	}
	// per ring path: a valid file with three keys (built once per identity and kind of ring)
	cache := map[string][]byte{}
	valid := func(m *rwMethod, id []byte) []byte {
		p := m.path(id)
		if d, ok := cache[p]; ok {
			return d
		}
		d := richRing(m, id)
		cache[p] = d
		return d
	}
	perMethod := r.N(4, 40)
	for mi := range rwMethods {
		m := &rwMethods[mi]
		id := ids[rd.Intn(2)]
		other := ids[2]
		if bytes.Equal(id, ids[0]) && rd.Bool() {
			other = ids[1]
		}
		path := m.path(id)
		d := valid(m, id)
		var foreign []byte
		if path == m.path(other) {
			// a ring of the key store itself: the ring of another PURPOSE is the foreign one
			for oi := range rwMethods {
				if o := &rwMethods[oi]; o.path(id) != path {
					foreign = valid(o, id)
					break
				}
			}
		} else {
			foreign = valid(m, other)
		}
		idx := 2
		line := func(kind, stored string) string {
			return fmt.Sprintf("C07.rwentry %s %s %s %d %s %s %s", kind, m.name, core.Hex(id), idx, core.Hex([]byte(path)), stored, sig)
		}
		// controls: the untouched ring loads and the method works; a missing ring is created
		r.Begin("rwentry:valid:"+m.name, true, "stream:rwentry", "rwentry:valid")
		out := r.Do(line(kindOf(), core.Hex(d)))
		r.Check(strings.HasPrefix(out, "ok "), "rw-entry-refuses-valid-ring", fmt.Sprintf("%s over an untouched ring with three keys: %s", m.name, out))
		r.Begin("rwentry:absent:"+m.name, true, "stream:rwentry", "rwentry:absent")
		r.Do(line(kindOf(), "absent"))
		// tampered rings
		ts := tampersOf(rd, d, foreign)
		for i := len(ts) - 1; i > 0; i-- {
			j := rd.Intn(i + 1)
			ts[i], ts[j] = ts[j], ts[i]
		}
		if len(ts) > perMethod {
			// always keep one in-span modification and the copy
			keep := ts[:0:0]
			seen := map[string]bool{}
			for _, t := range ts {
				if (t.kind == "span" || t.kind == "copy") && !seen[t.kind] {
					seen[t.kind] = true
					keep = append(keep, t)
				}
			}
			for _, t := range ts {
				if len(keep) >= perMethod {
					break
				}
				if !(seen[t.kind] && (t.kind == "span" || t.kind == "copy")) {
					keep = append(keep, t)
				}
			}
			ts = keep
		}
		for ti, t := range ts {
			kind := kindOf()
			r.Begin(fmt.Sprintf("rwentry:%s:%s:%d", t.kind, m.name, ti), true, "stream:rwentry", "tamper:"+t.kind, "backend:"+kind)
			out := r.Do(line(kind, core.Hex(t.data)))
			r.Check(out == "err unchanged", classOverwrite,
				fmt.Sprintf("%s on a key store whose ring %q was tampered (%s): result %q – the call must fail and every stored byte must stay (read directly from the %s back end)", m.name, path, t.desc, out, kind))
		}
	}

	// a ring file copied to another ring's path, offered to a key store that has ALREADY verified the original
	for _, kind := range []string{"mem", "dir"} {
		r.Begin("warmcopy-"+kind, true, "rwopen:warm-copy")
		out := r.Impl(fmt.Sprintf("C07.warmcopy %s %s", kind, core.Hex([]byte("c07-warm-copy-signature-key-32by"))))
		r.Check(out == "ro=err rw=err unchanged", "copied-ring-accepted-by-warm-store",
			"a long-lived v2 key store that has read ring client/alice/storage was given alice's ring file at client/bob/storage: "+out+" (must be ro=err rw=err unchanged; theorem copied_ring_preserved_and_reported)")
	}
	// the file-system key store itself: OpenKeyRingRW, OpenKeyRing, a write-back on an open handle, bundle import
	n := r.N(3, 30)
	for i := 0; i < n; i++ {
		m := &rwMethods[rd.Intn(len(rwMethods))]
		id := ids[rd.Intn(2)]
		path := m.path(id)
		d := valid(m, id)
		foreign := valid(m, ids[2])
		if path == m.path(ids[2]) {
			for oi := range rwMethods {
				if o := &rwMethods[oi]; o.path(id) != path {
					foreign = valid(o, id)
					break
				}
			}
		}
		hp := core.Hex([]byte(path))
		// controls
		r.Begin(fmt.Sprintf("rwopen:valid:%d", i), true, "stream:rwopen", "rwopen:valid")
		out := r.Do(fmt.Sprintf("C07.rwopen %s %s %s 0 %s", kindOf(), hp, core.Hex(d), sig))
		r.Check(out == "ok unchanged", "rw-open-refuses-valid-ring", fmt.Sprintf("OpenKeyRingRW(%q) over an untouched ring: %s", path, out))
		r.Begin(fmt.Sprintf("rwopen:absent:%d", i), true, "stream:rwopen", "rwopen:absent")
		out = r.Do(fmt.Sprintf("C07.rwopen %s %s absent 0 %s", kindOf(), hp, sig))
		r.Check(out == "ok created", "rw-open-does-not-create-missing-ring", fmt.Sprintf("OpenKeyRingRW(%q) without a stored ring: %s", path, out))
		r.Begin(fmt.Sprintf("rwopen:leftover:%d", i), true, "stream:rwopen", "rwopen:leftover")
		r.Do(fmt.Sprintf("C07.rwopen %s %s absent 1 %s", kindOf(), hp, sig))
		r.Begin(fmt.Sprintf("rwimport:valid:%d", i), true, "stream:rwopen", "rwimport:valid")
		r.Do(fmt.Sprintf("C07.rwimport %s %s %s %s %d", kindOf(), hp, core.Hex(d), sig, i%2))
		r.Begin(fmt.Sprintf("rwimport:absent:%d", i), true, "stream:rwopen", "rwimport:absent")
		r.Do(fmt.Sprintf("C07.rwimport %s %s absent %s %d", kindOf(), hp, sig, i%2))
		r.Begin(fmt.Sprintf("rwwrite:valid:%d", i), true, "stream:rwopen", "rwwrite:valid")
		r.Do(fmt.Sprintf("C07.rwwrite %s %s %s %s %s", kindOf(), hp, core.Hex(d), core.Hex(d), sig))
		for ti, t := range tampersOf(rd, d, foreign) {
			kind := kindOf()
			ht := core.Hex(t.data)
			r.Begin(fmt.Sprintf("rwopen:%s:%d:%d", t.kind, i, ti), true, "stream:rwopen", "tamper:"+t.kind, "backend:"+kind)
			out := r.Do(fmt.Sprintf("C07.rwopen %s %s %s 0 %s", kind, hp, ht, sig))
			r.Check(out == "err unchanged", classOverwrite,
				fmt.Sprintf("OpenKeyRingRW(%q) on a tampered ring file (%s): result %q – must fail and leave every stored byte (read directly from the %s back end)", path, t.desc, out, kind))
			out = r.Do(fmt.Sprintf("C07.roopen %s %s %s %s", kind, hp, ht, sig))
			r.Check(out == "err unchanged", "ro-open-accepts-tampered-ring", fmt.Sprintf("OpenKeyRing(%q) on a tampered ring file (%s): result %q", path, t.desc, out))
			out = r.Do(fmt.Sprintf("C07.rwwrite %s %s %s %s %s", kind, hp, core.Hex(d), ht, sig))
			r.Check(out == "err unchanged", "rw-write-back-overwrites-tampered-ring",
				fmt.Sprintf("AddKey on an open handle of %q after the ring file was tampered (%s): result %q", path, t.desc, out))
			out = r.Do(fmt.Sprintf("C07.rwimport %s %s %s %s %d", kind, hp, ht, sig, ti%2))
			r.Check(out == "err unchanged", "rw-import-overwrites-tampered-ring",
				fmt.Sprintf("ImportKeyRings of a bundle holding ring %q over a tampered ring file (%s): result %q", path, t.desc, out))
		}
	}
}
