package c15

import (
	"fmt"
	"os"
	"path/filepath"
	"strings"

	"github.com/cossacklabs/themis/gothemis/keys"

	"github.com/cossacklabs/acra/acrablock"
	"github.com/cossacklabs/acra/acrastruct"
	"github.com/cossacklabs/acra/crypto"
	"github.com/cossacklabs/acra/keystore"
	fsv1 "github.com/cossacklabs/acra/keystore/filesystem"
	poisonpkg "github.com/cossacklabs/acra/poison"

	"verifharness/internal/core"
	env "verifharness/internal/envops"
)

// The poison keys come from a REAL v1 filesystem key store (model: Keystore/V1Cache.lean + V1CacheKeys.lean).
//
//	C15.v1store <cache> <spelling> <step>…
//	   cache: -1 none, 0 unbounded, n LRU of n entries (1000 = Acra's default)
//	   spelling of the key directory given to the handle under test: 0 canonical, 1 trailing "/", 2 trailing "//", 3 a "/./" component
//	   steps:  g:pp / g:ps   GeneratePoisonKeyPair / GeneratePoisonSymmetricKey on the handle under test (a rotation when keys exist)
//	           n             a detection attempt on ordinary data: a column with a client's AcraStruct and AcraBlock goes through the
//	                         real callback stack (the poison detector reads both poison key lists: this fills the cache)
//	           d:<struct|block>:<gen>:<emb>   a poison record made under generation <gen> of the poison key pair / symmetric key
//	                         (the key material as a fresh, uncached handle read it right after that generation), alone (emb=0) or
//	                         embedded in text (emb=1), goes through the real callback stack whose poison detector reads the
//	                         handle under test  → a1 (callbacks ran) | a0
//	           x             Reset() of the handle's cache
//	   → one token per step
//	C15.clean <path-hex>  filepath.Clean
var storeMaster = []byte("0123456789abcdef0123456789abcdef")

func openV1(dir string, cache int) (*fsv1.KeyStore, error) {
	enc, err := keystore.NewSCellKeyEncryptor(storeMaster)
	if err != nil {
		return nil, err
	}
	return fsv1.NewCustomFilesystemKeyStore().KeyDirectory(dir).Encryptor(enc).Storage(&fsv1.DummyStorage{}).CacheSize(cache).Build()
}

func spelledDir(root string, spelling int) string {
	switch spelling {
	case 1:
		return root + "/"
	case 2:
		return root + "//"
	case 3:
		return filepath.Dir(root) + "/./" + filepath.Base(root)
	}
	return root
}

type poisonGen struct{ priv, pub, sym []byte }

// detect pushes a column through the callback stack of the SQL proxies (wrapper, poison detector over `ks`, decrypt handler
// with the client's keys) and reports whether the poison callbacks ran.
func detect(ks keystore.RecordProcessorKeyStore, kv *env.KV, col []byte) string {
	st, cnt := storage(true, false)
	reg := crypto.NewRegistryHandler(kv)
	det := crypto.NewEnvelopeDetector()
	w := crypto.NewOldContainerDetectorWrapper(det)
	pd := crypto.NewPoisonRecordsRecognizer(ks, reg)
	pd.SetPoisonRecordCallbacks(st)
	det.AddCallback(pd)
	det.AddCallback(crypto.NewDecryptHandler(kv, reg))
	_, _, err := w.OnColumn(env.Ctx([]byte("client")), col)
	if err != nil {
		return fmt.Sprintf("f%d", cnt.n)
	}
	if cnt.n > 0 {
		return "a1"
	}
	return "a0"
}

func runV1Store(a []string) string {
	cache, spelling := core.Atoi(a[0]), core.Atoi(a[1])
	base, err := os.MkdirTemp("", "verif-c15-")
	if err != nil {
		panic("harness: " + err.Error())
	}
	defer os.RemoveAll(base)
	root := filepath.Join(base, "ks")
	if err := os.MkdirAll(root, 0o700); err != nil {
		panic("harness: " + err.Error())
	}
	ks, err := openV1(spelledDir(root, spelling), cache)
	if err != nil {
		return "open-error"
	}
	fresh := func() *fsv1.KeyStore {
		f, err := openV1(root, keystore.WithoutCache)
		if err != nil {
			panic("harness: " + err.Error())
		}
		return f
	}
	// the client's own keys (ordinary data of the detection attempts)
	ckp, err := keys.New(keys.TypeEC)
	if err != nil {
		panic("harness: " + err.Error())
	}
	csym := []byte("client-symmetric-key-0123456789ab")
	kv := &env.KV{Pub: ckp.Public.Value, Privs: [][]byte{ckp.Private.Value}, Sym: csym, Syms: [][]byte{csym}}
	var pairs, syms []poisonGen
	var out []string
	for _, t := range a[2:] {
		f := strings.Split(t, ":")
		switch f[0] {
		case "g":
			var gerr error
			if f[1] == "pp" {
				gerr = ks.GeneratePoisonKeyPair()
			} else {
				gerr = ks.GeneratePoisonSymmetricKey()
			}
			if gerr != nil {
				out = append(out, "err")
				continue
			}
			// the key material of the new generation, as a fresh uncached handle on the canonical path reads it
			fh := fresh()
			if f[1] == "pp" {
				kp, err := fh.GetPoisonKeyPair()
				if err != nil {
					panic("harness: fresh handle cannot read the poison key pair: " + err.Error())
				}
				pairs = append(pairs, poisonGen{priv: kp.Private.Value, pub: kp.Public.Value})
			} else {
				k, err := fh.GetPoisonSymmetricKey()
				if err != nil {
					panic("harness: fresh handle cannot read the poison symmetric key: " + err.Error())
				}
				syms = append(syms, poisonGen{sym: k})
			}
			out = append(out, "ok")
		case "x":
			ks.Reset()
			out = append(out, "ok")
		case "n":
			as, err := acrastruct.CreateAcrastruct([]byte("ordinary value"), &keys.PublicKey{Value: kv.Pub}, nil)
			if err != nil {
				panic("harness: " + err.Error())
			}
			ab, err := acrablock.CreateAcraBlock([]byte("ordinary value"), csym, nil)
			if err != nil {
				panic("harness: " + err.Error())
			}
			s1, err1 := crypto.SerializeEncryptedData(as, crypto.AcraStructEnvelopeID)
			s2, err2 := crypto.SerializeEncryptedData(ab, crypto.AcraBlockEnvelopeID)
			if err1 != nil || err2 != nil {
				panic("harness: serialize")
			}
			col := append(append(append([]byte("row "), s1...), []byte(" and ")...), s2...)
			out = append(out, detect(ks, kv, col))
		case "d":
			g := core.Atoi(f[2])
			var rec []byte
			var rerr error
			if f[1] == "struct" {
				if g < 1 || g > len(pairs) {
					return "bad-generation"
				}
				rec, rerr = poisonpkg.CreatePoisonRecord(&env.TKS{Poison: &env.KV{Pub: pairs[g-1].pub, Privs: [][]byte{pairs[g-1].priv}, NoSym: true, NoSyms: true}}, 40)
			} else {
				if g < 1 || g > len(syms) {
					return "bad-generation"
				}
				rec, rerr = poisonpkg.CreateSymmetricPoisonRecord(&env.TKS{Poison: &env.KV{Sym: syms[g-1].sym, Syms: [][]byte{syms[g-1].sym}, NoPub: true, NoPrivs: true}}, 40)
			}
			if rerr != nil {
				panic("harness: cannot create a poison record: " + rerr.Error())
			}
			col := rec
			if f[3] == "1" {
				col = append(append([]byte("some text before "), rec...), []byte(" and after")...)
			}
			out = append(out, detect(ks, kv, col))
		default:
			return "bad-step"
		}
	}
	return strings.Join(out, " ")
}

func init() {
	core.Register("C15.v1store", runV1Store)
	core.Register("C15.clean", func(a []string) string { return core.Hex([]byte(filepath.Clean(string(core.UnHex(a[0]))))) })
}

// storeScenarios: the scenario the composition theorems of Props/C15 §5b are about, on the real store, plus random step sequences.
func storeScenarios(r *core.Run) {
	rd := r.Rand
	caches := []int{-1, 0, 1000, 2}
	type sc struct {
		name  string
		steps []string
	}
	var fixed []sc
	for _, emb := range []string{"0", "1"} {
		fixed = append(fixed,
			// detection attempt (fills the cache) → rotation → records of the OLD and the NEW key
			sc{"pair-rotation", []string{"g:pp", "g:ps", "n", "g:pp", "d:struct:1:" + emb, "d:struct:2:" + emb}},
			sc{"pair-rotation-after-poison-seen", []string{"g:pp", "d:struct:1:" + emb, "g:pp", "d:struct:1:" + emb, "d:struct:2:" + emb, "g:pp", "d:struct:1:" + emb, "d:struct:2:" + emb, "d:struct:3:" + emb}},
			sc{"sym-rotation", []string{"g:pp", "g:ps", "n", "g:ps", "d:block:1:" + emb, "d:block:2:" + emb}},
			sc{"sym-rotation-after-poison-seen", []string{"g:ps", "d:block:1:" + emb, "g:ps", "d:block:1:" + emb, "d:block:2:" + emb}},
			sc{"both-rotations", []string{"g:pp", "g:ps", "n", "g:pp", "g:ps", "d:struct:1:" + emb, "d:block:1:" + emb, "d:struct:2:" + emb, "d:block:2:" + emb, "x", "d:struct:1:" + emb, "d:block:2:" + emb}},
			sc{"rotation-before-any-use", []string{"g:pp", "g:ps", "g:pp", "g:ps", "d:struct:1:" + emb, "d:block:1:" + emb, "d:struct:2:" + emb, "d:block:2:" + emb}},
		)
	}
	run := func(name string, cache, spelling int, steps []string) {
		line := fmt.Sprintf("C15.v1store %d %d %s", cache, spelling, strings.Join(steps, " "))
		r.Begin("v1store:"+line, true, "case:v1-store", fmt.Sprintf("cache:%d", cache), fmt.Sprintf("dir-spelling:%d", spelling), "scenario:"+name)
		res := strings.Fields(r.Do(line))
		if !r.Check(len(res) == len(steps), "v1-store-scenario-broken", fmt.Sprintf("%s → %v", line, res)) {
			return
		}
		// the property itself: every poison record made under a poison key that was not destroyed raises the alarm. The one
		// registered exception: a handle WITH a cache that has already used the poison symmetric key does not notice a later
		// rotation of that key before its cache is reset (generateAndSaveSymmetricKey does not touch the cached current key).
		symUsed := false   // the handle has read the poison symmetric key since its cache was last emptied
		lagFrom := 1 << 30 // symmetric generations ≥ lagFrom were made while the cached current key was in use
		nSym := 0
		for i, st := range steps {
			f := strings.Split(st, ":")
			switch f[0] {
			case "g":
				if f[1] == "ps" {
					nSym++
					if cache != -1 && symUsed && nSym < lagFrom {
						lagFrom = nSym
					}
				}
			case "x":
				symUsed, lagFrom = false, 1<<30
			case "n":
				symUsed = true
				r.Check(res[i] == "a0", "false-alarm", fmt.Sprintf("ordinary data raised the poison alarm (%s): step %d of %s", res[i], i, line))
			case "d":
				g := core.Atoi(f[2])
				if f[1] == "block" {
					if cache != -1 && g >= lagFrom {
						if res[i] != "a1" {
							r.Fail("poison-missed:v1-warm-cache:new-symmetric-key", fmt.Sprintf("poison AcraBlock under symmetric key generation %d, generated after this cached handle had used the previous key: no alarm (step %d of %s)", g, i, line))
						}
						symUsed = true
						continue
					}
					symUsed = true
				}
				r.Check(res[i] == "a1", "poison-missed:v1-store", fmt.Sprintf("poison %s record made under generation %s of the poison key (embedded=%s) did not raise the alarm: %s at step %d of %s → %v", f[1], f[2], f[3], res[i], i, line, res))
			}
		}
	}
	for _, s := range fixed {
		for _, cache := range caches {
			for spelling := 0; spelling < 4; spelling++ {
				if !r.Thorough() && (cache == 2 || cache == 1000) && spelling == 2 {
					continue
				}
				run(s.name, cache, spelling, s.steps)
			}
		}
	}
	// random step sequences
	for n := 0; n < r.N(40, 1500); n++ {
		cache := core.Pick(rd, caches)
		spelling := rd.Intn(4)
		steps := []string{"g:pp", "g:ps"}
		np, ns := 1, 1
		for k := 2 + rd.Intn(8); k > 0; k-- {
			switch rd.Intn(8) {
			case 0:
				steps = append(steps, "g:pp")
				np++
			case 1:
				steps = append(steps, "g:ps")
				ns++
			case 2:
				steps = append(steps, "n")
			case 3:
				steps = append(steps, "x")
			case 4, 5:
				steps = append(steps, fmt.Sprintf("d:struct:%d:%d", 1+rd.Intn(np), rd.Intn(2)))
			default:
				steps = append(steps, fmt.Sprintf("d:block:%d:%d", 1+rd.Intn(ns), rd.Intn(2)))
			}
		}
		run("random", cache, spelling, steps)
	}
	// filepath.Clean as the model has it
	paths := []string{"", ".", "/", "//", "a", "a/", "a//b", "/a/./b", "/a/../b", "../a", "a/../..", "/..", "/../a", "./a", "a/.", "/tmp/ks//", "/tmp/./ks/.poison_key/poison_key",
		"/tmp/ks//.poison_key/poison_key", "a/b/../../c", "a/b/../../../c", "/a/b/../../../c", "...", "a/.../b", ".//a"}
	for _, p := range paths {
		r.Begin("clean:"+p, true, "case:clean")
		r.Do("C15.clean " + core.Hex([]byte(p)))
	}
	for n := 0; n < r.N(40, 2000); n++ {
		var sb strings.Builder
		for k := rd.Intn(7); k > 0; k-- {
			sb.WriteString(core.Pick(rd, []string{"/", "/", ".", "..", "a", "bc", "//", "./", "../"}))
		}
		r.Begin("clean:"+sb.String(), true, "case:clean")
		r.Do("C15.clean " + core.Hex([]byte(sb.String())))
	}
}
