// Package c15: poison records always raise the alarm, ordinary data never does (C15).
package c15

import (
	"bytes"
	"context"
	"errors"
	"fmt"
	"strings"

	"github.com/cossacklabs/acra/cmd/acra-translator/common"
	"github.com/cossacklabs/acra/crypto"
	"github.com/cossacklabs/acra/hmac"
	poisonpkg "github.com/cossacklabs/acra/poison"

	"verifharness/internal/core"
	env "verifharness/internal/envops"
)

// counting intrusion callback
type counter struct {
	n   int
	err bool
}

func (c *counter) Call() error {
	c.n++
	if c.err {
		return errors.New("verif: callback error")
	}
	return nil
}

func storage(has, cbErr bool) (*poisonpkg.CallbackStorage, *counter) {
	st := poisonpkg.NewCallbackStorage()
	cnt := &counter{err: cbErr}
	if has {
		st.AddCallback(cnt)
	}
	return st, cnt
}

func init() {
	core.RegisterProp("C15", run)
	// create kind [poison kv ×4] dataLen rnd
	core.Register("C15.create", func(a []string) (res string) {
		pk := env.ParseKV(a[1:5])
		ks := &env.TKS{Poison: pk}
		env.WithRand(core.UnHex(a[6]), func() {
			var b []byte
			var err error
			if a[0] == "struct" {
				b, err = poisonpkg.CreatePoisonRecord(ks, core.Atoi(a[5]))
			} else {
				b, err = poisonpkg.CreateSymmetricPoisonRecord(ks, core.Atoi(a[5]))
			}
			if err != nil {
				res = core.Err
			} else {
				res = core.OkHex(b)
			}
		})
		return
	})
	// proxy hasCb cbErr [poison kv ×4] [client kv ×4] data  – the callback stack of the SQL proxies
	core.Register("C15.proxy", func(a []string) string {
		has, cbErr := a[0] == "true", a[1] == "true"
		pk, kv := env.ParseKV(a[2:6]), env.ParseKV(a[6:10])
		st, cnt := storage(has, cbErr)
		reg := crypto.NewRegistryHandler(kv)
		det := crypto.NewEnvelopeDetector()
		w := crypto.NewOldContainerDetectorWrapper(det)
		if st.HasCallbacks() {
			pd := crypto.NewPoisonRecordsRecognizer(&env.TKS{Poison: pk}, reg)
			pd.SetPoisonRecordCallbacks(st)
			det.AddCallback(pd)
		}
		det.AddCallback(crypto.NewDecryptHandler(kv, reg))
		_, out, err := w.OnColumn(env.Ctx([]byte("client")), core.UnHex(a[10]))
		// the value is delivered only now: every callback invocation counted so far happened before delivery
		if err != nil {
			return fmt.Sprintf("fatal %d", cnt.n)
		}
		return fmt.Sprintf("ok %s %d", core.Hex(out), cnt.n)
	})
	// translator hasCb cbErr [poison kv ×4] [client kv ×4] kind data – AcraTranslator Decrypt / DecryptSym
	core.Register("C15.translator", func(a []string) string {
		has, cbErr := a[0] == "true", a[1] == "true"
		pk, kv := env.ParseKV(a[2:6]), env.ParseKV(a[6:10])
		st, cnt := storage(has, cbErr)
		ks := &env.TKS{Clients: map[string]*env.KV{"client": kv}, Poison: pk}
		svc, err := common.NewTranslatorService(&common.TranslatorData{Keystorage: ks, PoisonRecordCallbacks: st})
		if err != nil {
			panic("harness: " + err.Error())
		}
		var out []byte
		if a[10] == "struct" {
			out, err = svc.Decrypt(context.Background(), core.UnHex(a[11]), []byte("client"), nil)
		} else {
			out, err = svc.DecryptSym(context.Background(), core.UnHex(a[11]), []byte("client"), nil)
		}
		if err != nil {
			return fmt.Sprintf("err %d", cnt.n)
		}
		return fmt.Sprintf("ok %s %d", core.Hex(out), cnt.n)
	})
}

// translatorOps: a bare poison record (no searchable-hash prefix) handed to each of the four decrypt operations of
// the real TranslatorService (ops C01.tr.*: the same service object, fake key store and counting callback as C01 uses):
// Decrypt / DecryptSym, and DecryptSearchable / DecryptSymSearchable with the hash argument nil, empty, a well-formed
// hash of something else, malformed bytes – and with such a hash in front of the data instead. Whatever path the
// operation takes (no hash can be split off; the rest does not decrypt), the alarm must be raised and the client must
// get an error.
func translatorOps(r *core.Run, i int, pk, kv *env.KV, kind string, P []byte) {
	rd := r.Rand
	hk := rd.Bytes(32)
	store := func(hmacKey []byte) string {
		h := "none"
		if hmacKey != nil {
			h = core.Hex(hmacKey)
		}
		return fmt.Sprintf("true false %s %s %s %s", pk.Tokens(), core.Hex([]byte("client")), kv.Tokens(), h)
	}
	wrong := hmac.GenerateHMAC(append([]byte{}, hk...), rd.Bytes(1+rd.Intn(20))) // a well-formed hash of other data
	var malformed []byte
	for _, b := range rd.Bytes(1 + rd.Intn(40)) {
		if b != '%' && b != wrong[0] {
			malformed = append(malformed, b)
		}
	}
	if len(malformed) == 0 {
		malformed = []byte{1}
	}
	type hcase struct {
		name string
		hash string // token of the hash argument
		data []byte
	}
	hashes := []hcase{
		{"nil", "nil", P},
		{"empty", "-", P},
		{"wrong", core.Hex(wrong), P},
		{"malformed", core.Hex(malformed), P},
		{"wrong-in-front-of-data", "nil", append(append([]byte{}, wrong...), P...)},
		{"short-hash-byte-in-front", "nil", append([]byte{wrong[0]}, P...)}, // hash function number, then too few bytes? no: P follows – a look-alike hash made of the record's own bytes
	}
	for _, op := range []string{"Decrypt", "DecryptSym", "DecryptSearchable", "DecryptSymSearchable"} {
		searchable := strings.HasSuffix(op, "Searchable")
		hs := hashes
		if !searchable {
			hs = hashes[:1]
		}
		for _, h := range hs {
			for _, withHmac := range []bool{true, false} {
				if !searchable && !withHmac {
					continue
				}
				var hm []byte
				if withHmac {
					hm = hk
				}
				r.Begin(fmt.Sprintf("poison-%d-tr-%s-%s-%v", i, op, h.name, withHmac), true, "kind:"+kind, "case:poison-translator", "op:"+op, "hash:"+h.name)
				var line string
				if searchable {
					line = fmt.Sprintf("C01.tr.%s %s %s nil %s %s", op, store(hm), core.Hex([]byte("client")), h.hash, core.Hex(h.data))
				} else {
					line = fmt.Sprintf("C01.tr.%s %s %s nil %s", op, store(hm), core.Hex([]byte("client")), core.Hex(h.data))
				}
				res, _, alarms := parse(r.Do(line))
				if h.name == "short-hash-byte-in-front" {
					// the 32 bytes behind the function number are cut off the record itself: what is left is no record any more
					// (property silent); only the model comparison counts here
					continue
				}
				r.Check(res == "err" && alarms >= 1, "poison-missed:translator", fmt.Sprintf("AcraTranslator %s of a bare poison %s record (hash argument %s, HMAC key present=%v): %s alarms=%d – the poison callbacks did not run", op, kind, h.name, withHmac, res, alarms))
			}
		}
	}
}

func parse(out string) (kind string, data []byte, alarms int) {
	var h string
	if n, _ := fmt.Sscanf(out, "ok %s %d", &h, &alarms); n == 2 {
		return "ok", core.UnHex(h), alarms
	}
	if n, _ := fmt.Sscanf(out, "fatal %d", &alarms); n == 1 {
		return "fatal", nil, alarms
	}
	if n, _ := fmt.Sscanf(out, "err %d", &alarms); n == 1 {
		return "err", nil, alarms
	}
	return out, nil, 0
}

func run(r *core.Run) {
	r.Rule = "poison records of both kinds under key histories of length 1–3 (record sealed under any key of the history), alone or embedded at offsets 0–32 in junk/tag-rich columns, through the SQL-proxy callback stack and AcraTranslator decrypt; negatives: random bytes, client envelopes, bit-flipped/truncated poison records, callbacks not configured, poison keys missing; non-trivial = a column holding an (intact or damaged) envelope; distinct by column bytes; all four AcraTranslator decrypt operations on bare poison records with every shape of the hash argument; scenarios on a REAL v1 filesystem key store (cache -1/0/2/1000, key directory spelled 4 ways): detection attempt, rotation of the poison key pair / symmetric key by the handle, poison records under every generation alone and embedded"
	rd := r.Rand
	storeScenarios(r)
	n := r.N(60, 2500)
	for i := 0; i < n; i++ {
		pk := env.NewKV(rd, 1+rd.Intn(3), 1+rd.Intn(3)) // poison key history, newest first
		kv := env.NewKV(rd, 1+rd.Intn(2), 1+rd.Intn(2)) // the client's own keys
		kind := []string{"struct", "block"}[rd.Intn(2)]
		if i%5 == 2 { // poison symmetric-key history in which a newer key has the same 2-byte key id as the rotated one
			a, b := env.CollidingKeys(rd, nil)
			pk.Syms = [][]byte{a, b}
			pk.Sym = a
			kind = "block"
		}
		// the record may have been created before a poison-key rotation
		wpk := *pk
		wi := rd.Intn(len(pk.Privs))
		wpk.Pub = env.PubOf(pk.Privs[wi])
		wpk.Sym = pk.Syms[rd.Intn(len(pk.Syms))]
		if i%5 == 2 {
			wpk.Sym = pk.Syms[1] // sealed under the rotated key; the colliding newer key is tried first
		}
		dl := 1 + rd.Intn(99)
		r.Begin(fmt.Sprintf("poison-%d", i), true, "kind:"+kind, "case:poison")
		out := r.Do(fmt.Sprintf("C15.create %s %s %d %s", kind, wpk.Tokens(), dl, core.Hex(rd.Bytes(dl+96))))
		if !r.Check(len(out) > 3 && out[:3] == "ok ", "poison-create", "cannot create a poison record: "+out) {
			continue
		}
		P := core.UnHex(out[3:])
		pre, suf := env.Junk(rd, 32), env.Junk(rd, 32)
		if rd.Chance(25) {
			pre, suf = nil, nil
		}
		col := append(append(append([]byte{}, pre...), P...), suf...)
		// 1. callbacks configured: alarm raised (before the value is delivered), value unchanged for the client
		res, data, alarms := parse(r.Do(fmt.Sprintf("C15.proxy true false %s %s %s", pk.Tokens(), kv.Tokens(), core.Hex(col))))
		r.Check(res == "ok" && alarms >= 1, "poison-missed", fmt.Sprintf("poison %s record (key #%d of %d) embedded at offset %d did not trigger the callbacks (%s, alarms=%d)", kind, wi, len(pk.Privs), len(pre), res, alarms))
		r.Check(res != "ok" || bytes.Equal(data, col), "poison-altered", "column holding a poison record was altered for a client without poison keys")
		// a callback that returns an error stops delivery
		res, _, alarms = parse(r.Do(fmt.Sprintf("C15.proxy true true %s %s %s", pk.Tokens(), kv.Tokens(), core.Hex(col))))
		r.Check(res == "fatal" && alarms >= 1, "poison-missed-err", "failing callback: expected an error after the alarm, got "+res)
		// translator decrypt of the record alone
		res, _, alarms = parse(r.Do(fmt.Sprintf("C15.translator true false %s %s %s %s", pk.Tokens(), kv.Tokens(), kind, core.Hex(P))))
		r.Check(res == "err" && alarms >= 1, "poison-missed-translator", fmt.Sprintf("AcraTranslator decrypt of a poison %s record: %s alarms=%d", kind, res, alarms))
		// all four AcraTranslator decrypt operations on the bare record, with every shape of the hash argument
		translatorOps(r, i, pk, kv, kind, P)
		// 2. callbacks not configured: no check, no alarm
		r.Begin(fmt.Sprintf("nocb-%d", i), true, "case:no-callbacks")
		_, _, alarms = parse(r.Do(fmt.Sprintf("C15.proxy false false %s %s %s", pk.Tokens(), kv.Tokens(), core.Hex(col))))
		r.Check(alarms == 0, "alarm-without-callbacks", "alarm although no callbacks are configured")
		// 3. poison keys missing: skipped
		none := &env.KV{NoPub: true, NoPrivs: true, NoSym: true, NoSyms: true}
		_, _, alarms = parse(r.Do(fmt.Sprintf("C15.proxy true false %s %s %s", none.Tokens(), kv.Tokens(), core.Hex(col))))
		r.Check(alarms == 0, "alarm-without-keys", "alarm although no poison keys exist")
		// 4. negatives: damaged records, client envelopes, random data never alarm
		r.Begin(fmt.Sprintf("neg-%d", i), true, "case:negative")
		var negs [][]byte
		x := append([]byte{}, P...)
		x[12+rd.Intn(len(x)-12)] ^= 1 << uint(rd.Intn(8)) // flip inside the envelope (header of the container is not authenticated)
		negs = append(negs, x, P[:12+rd.Intn(len(P)-12)], rd.Bytes(rd.Intn(200)), env.Junk(rd, 200))
		if cv, ok := env.Protect(r, kind, kv, rd.Bytes(1+rd.Intn(50))); ok {
			negs = append(negs, cv) // an ordinary protected value of a client
		}
		okv := env.NewKV(rd, 1, 1)
		if cv, ok := env.Protect(r, kind, okv, rd.Bytes(1+rd.Intn(50))); ok {
			negs = append(negs, cv) // … of another client
		}
		for j, ng := range negs {
			col := append(append(append([]byte{}, env.Junk(rd, 16)...), ng...), env.Junk(rd, 16)...)
			res, _, alarms := parse(r.Do(fmt.Sprintf("C15.proxy true false %s %s %s", pk.Tokens(), kv.Tokens(), core.Hex(col))))
			r.Check(res == "ok" && alarms == 0, "false-alarm", fmt.Sprintf("non-poison data (negative class %d) triggered the poison callbacks (%s, alarms=%d)", j, res, alarms))
			if j < 2 || j >= 4 {
				_, _, alarms = parse(r.Do(fmt.Sprintf("C15.translator true false %s %s %s %s", pk.Tokens(), kv.Tokens(), kind, core.Hex(ng))))
				r.Check(alarms == 0, "false-alarm-translator", fmt.Sprintf("non-poison data (negative class %d) triggered the poison callbacks in AcraTranslator", j))
			}
		}
	}
}
