// Package c15: implementation-side ops, generators and oracles for property C15.
package c15
