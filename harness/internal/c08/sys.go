package c08

// Faults INSIDE the two storage primitives whose internals the C08 model reasons about (Keystore/SysFile.lean):
// DirectoryBackend.Put and FileStorage.Copy. The fault is real: the process-wide file size limit
// (RLIMIT_FSIZE, SIGXFSZ ignored) is lowered around the one call, so write(2) stores `limit` bytes and then
// fails with EFBIG – after the file has been created. Because the limit is process wide, every line that uses it
// is served by a CHILD process (`vh exec-op`, one child for the whole batch); the child hands the findings of the
// scenario oracle back through a file.

import (
	"bufio"
	"bytes"
	"encoding/json"
	"fmt"
	"os"
	"os/exec"
	"os/signal"
	"path/filepath"
	"strconv"
	"strings"
	"syscall"
	"time"

	fsv1 "github.com/cossacklabs/acra/keystore/filesystem"
	v2backend "github.com/cossacklabs/acra/keystore/v2/keystore/filesystem/backend"

	"verifharness/internal/c06"
	"verifharness/internal/core"
)

const resultFileEnv = "VERIF_C08_RESULT_FILE"

// withFileSizeLimit runs f while no file of this process may grow beyond limit bytes.
func withFileSizeLimit(limit uint64, f func()) {
	signal.Ignore(syscall.SIGXFSZ)
	var old syscall.Rlimit
	if err := syscall.Getrlimit(syscall.RLIMIT_FSIZE, &old); err != nil {
		panic("harness: getrlimit: " + err.Error())
	}
	lowered := syscall.Rlimit{Cur: limit, Max: old.Max}
	if err := syscall.Setrlimit(syscall.RLIMIT_FSIZE, &lowered); err != nil {
		panic("harness: setrlimit: " + err.Error())
	}
	defer func() {
		if err := syscall.Setrlimit(syscall.RLIMIT_FSIZE, &old); err != nil {
			panic("harness: setrlimit (restore): " + err.Error())
		}
	}()
	f()
}

// lowerFileSizeLimit lowers the limit and returns the function that restores it.
func lowerFileSizeLimit(limit uint64) func() {
	signal.Ignore(syscall.SIGXFSZ)
	var old syscall.Rlimit
	if err := syscall.Getrlimit(syscall.RLIMIT_FSIZE, &old); err != nil {
		panic("harness: getrlimit: " + err.Error())
	}
	lowered := syscall.Rlimit{Cur: limit, Max: old.Max}
	if err := syscall.Setrlimit(syscall.RLIMIT_FSIZE, &lowered); err != nil {
		panic("harness: setrlimit: " + err.Error())
	}
	return func() {
		if err := syscall.Setrlimit(syscall.RLIMIT_FSIZE, &old); err != nil {
			panic("harness: setrlimit (restore): " + err.Error())
		}
	}
}

func sysData(n int) []byte { return bytes.Repeat([]byte{0xAB}, n) }

var sysPre = []byte{0x70}

func fileState(p string, data []byte) string {
	b, err := os.ReadFile(p)
	switch {
	case err != nil:
		return "absent"
	case bytes.Equal(b, data):
		return "data"
	case bytes.Equal(b, sysPre):
		return "pre"
	}
	return "len:" + strconv.Itoa(len(b))
}

func outcome(err error) string {
	if err != nil {
		return "err"
	}
	return "ok"
}

func limited(limit string, f func()) {
	if limit == "-" {
		f()
		return
	}
	withFileSizeLimit(uint64(core.Atoi(limit)), f)
}

// C08.putsys <limit|-> <len> <free|taken>: the real DirectoryBackend.Put of <len> bytes at a key ring's
// temporary path under the file size limit, then the same Put again without a limit.
// → <outcome>;<file at the OS path>;<retry outcome>;<file>
func opPutSys(a []string) string {
	root, err := os.MkdirTemp("", "verif-put-")
	if err != nil {
		panic("harness: " + err.Error())
	}
	defer os.RemoveAll(root)
	os.Chmod(root, 0o700)
	be, err := v2backend.CreateDirectoryBackend(root)
	if err != nil {
		panic("harness: " + err.Error())
	}
	defer be.Close()
	const key = "client/alice/storage-sym.keyring.new"
	full := filepath.Join(root, key)
	data := sysData(core.Atoi(a[1]))
	if a[2] == "taken" {
		os.MkdirAll(filepath.Dir(full), 0o700)
		if err := os.WriteFile(full, sysPre, 0o600); err != nil {
			panic("harness: " + err.Error())
		}
	}
	// a relative key path handed to the OS would be resolved against the working directory: make that a place
	// where a stray Remove / Create is visible and harmless
	var e1, e2 error
	limited(a[0], func() { e1 = be.Put(key, data) })
	s1 := fileState(full, data)
	e2 = be.Put(key, data)
	return outcome(e1) + ";" + s1 + ";" + outcome(e2) + ";" + fileState(full, data)
}

// C08.copysys <limit|-> <len> <free|taken>: the real FileStorage.Copy of a <len>-byte file under the limit.
// → <outcome>;<destination>
func opCopySys(a []string) string {
	root, err := os.MkdirTemp("", "verif-copy-")
	if err != nil {
		panic("harness: " + err.Error())
	}
	defer os.RemoveAll(root)
	data := sysData(core.Atoi(a[1]))
	src, dst := filepath.Join(root, "key"), filepath.Join(root, "key.old")
	if err := os.WriteFile(src, data, 0o600); err != nil {
		panic("harness: " + err.Error())
	}
	if a[2] == "taken" {
		os.WriteFile(dst, sysPre, 0o600)
	}
	var e error
	limited(a[0], func() { e = (&fsv1.FileStorage{}).Copy(src, dst) })
	return outcome(e) + ";" + fileState(dst, data)
}

func init() {
	core.Register("C08.putsys", opPutSys)
	core.Register("C08.copysys", opCopySys)
}

// ---------- one child process for a batch of lines ----------

type wireResult struct {
	Line string
	Res  Result
}

func appendResult(path, line string, res Result) {
	b, _ := json.Marshal(wireResult{line, res})
	f, err := os.OpenFile(path, os.O_APPEND|os.O_WRONLY|os.O_CREATE, 0o600)
	if err != nil {
		panic("harness: " + err.Error())
	}
	f.Write(append(b, '\n'))
	f.Close()
}

// isoBatch serves the lines by ONE child `vh exec-op`. It returns the answers (the child's death shows as
// "panic" for the line it died on and "not-run" for the rest) and the scenario results the child wrote.
func isoBatch(lines []string) (outs []string, results map[string]Result) {
	results = map[string]Result{}
	if len(lines) == 0 {
		return nil, results
	}
	self, err := os.Executable()
	if err != nil {
		panic("harness: " + err.Error())
	}
	rf, err := os.CreateTemp("", "verif-c08-results-")
	if err != nil {
		panic("harness: " + err.Error())
	}
	rf.Close()
	defer os.Remove(rf.Name())
	cmd := exec.Command(self, "exec-op")
	cmd.Env = append(os.Environ(), "GOMEMLIMIT=1GiB", resultFileEnv+"="+rf.Name())
	cmd.Stdin = strings.NewReader(strings.Join(lines, "\n") + "\n")
	var sb bytes.Buffer
	cmd.Stdout = &sb
	if err := cmd.Start(); err != nil {
		panic("harness: " + err.Error())
	}
	done := make(chan error, 1)
	go func() { done <- cmd.Wait() }()
	select {
	case <-time.After(time.Duration(60+2*len(lines)) * time.Second):
		cmd.Process.Kill()
		<-done
	case <-done:
	}
	sc := bufio.NewScanner(&sb)
	sc.Buffer(make([]byte, 1<<20), 1<<26)
	for sc.Scan() {
		outs = append(outs, sc.Text())
	}
	for i := len(outs); i < len(lines); i++ {
		if i == len(outs) {
			outs = append(outs, core.Panic)
		} else {
			outs = append(outs, "not-run")
		}
	}
	if b, err := os.ReadFile(rf.Name()); err == nil {
		for _, l := range bytes.Split(b, []byte{'\n'}) {
			var wr wireResult
			if len(l) > 0 && json.Unmarshal(l, &wr) == nil {
				results[wr.Line] = wr.Res
			}
		}
	}
	return outs, results
}

// sysCase is one line of the batch with what the parent needs to judge it.
type sysCase struct {
	line  string
	tags  []string
	judge func(r *core.Run, out string) // direct oracle on the answer (putsys / copysys); nil for scenario lines
}

func runSysBatch(r *core.Run, cases []sysCase) {
	lines := make([]string, len(cases))
	for i, c := range cases {
		lines[i] = c.line
	}
	outs, results := isoBatch(lines)
	for i, c := range cases {
		r.Begin(c.line, true, c.tags...)
		r.Record(c.line)
		out := outs[i]
		if out == "not-run" {
			// the child died earlier in the batch: run this line alone
			one, res1 := isoBatch([]string{c.line})
			out = one[0]
			for k, v := range res1 {
				results[k] = v
			}
		}
		if out == core.Panic || out == "timeout" || out == "oom" {
			r.Fail("panic-under-fault:sys", "the line makes the process die or panic: "+c.line+" => "+out)
			continue
		}
		if os.Getenv("VERIF_IMPL_ONLY") == "" {
			r.Diff(c.line, out)
		}
		if c.judge != nil {
			c.judge(r, out)
			continue
		}
		res, ok := results[c.line]
		if !ok {
			panic("harness: the child did not report the result of " + c.line)
		}
		r.Tag("outcome:" + res.Outcome)
		for _, fd := range res.Findings {
			r.Fail(fd.Class, fd.Desc+"   [scenario: "+c.line+"] => "+out)
		}
	}
}

func judgePutSys(limit string, n int, taken bool) func(r *core.Run, out string) {
	return func(r *core.Run, out string) {
		f := strings.Split(out, ";")
		if len(f) != 4 {
			panic("harness: bad answer of C08.putsys: " + out)
		}
		before := "absent"
		if taken {
			before = "pre"
		}
		what := fmt.Sprintf("DirectoryBackend.Put of %d bytes under a file size limit of %s bytes (path %s before)", n, limit, before)
		if f[0] == "err" {
			r.Check(f[1] == before, "put-error-leaves-file:v2", what+" returned an error and left the path as '"+f[1]+"' (before: "+before+"): a failed Put must leave no file behind – the exclusive create refuses every later write")
		} else {
			r.Check(f[1] == "data" && !taken, "put-ok-incomplete:v2", what+" returned nil but the path holds '"+f[1]+"'")
		}
		if !taken && f[0] == "err" {
			r.Check(f[2] == "ok" && f[3] == "data", "put-error-leaves-file:v2", what+" failed; the same Put WITHOUT a limit afterwards answers "+f[2]+" and the path holds '"+f[3]+"': the failed write is sticky")
		}
		if taken {
			r.Check(f[3] == "pre" && f[2] == "err", "put-overwrites:v2", what+": the file that was there before is now '"+f[3]+"' (retry "+f[2]+")")
		}
	}
}

func judgeCopySys(limit string, n int, taken bool) func(r *core.Run, out string) {
	return func(r *core.Run, out string) {
		f := strings.Split(out, ";")
		if len(f) != 2 {
			panic("harness: bad answer of C08.copysys: " + out)
		}
		what := fmt.Sprintf("FileStorage.Copy of a %d-byte file under a file size limit of %s bytes", n, limit)
		if f[0] == "ok" {
			r.Check(f[1] == "data" && !taken, "copy-success-on-partial-copy:v1", what+" returned nil but the destination holds '"+f[1]+"': a half copy is reported as success (the rotation would go on and replace the key)")
			return
		}
		if taken {
			r.Check(f[1] == "pre", "copy-overwrites:v1", what+": the destination that existed before is now '"+f[1]+"'")
			return
		}
		r.Check(f[1] == "absent", "v1:partial-history-copy", what+" returned an error and left '"+f[1]+"' under the destination name")
	}
}

// runSys: the fault-inside-the-call stream.
func runSys(r *core.Run) {
	var cases []sysCase
	// ---- the two primitives alone, against the system-call level model
	lens := []int{1, 76, 300}
	if r.Thorough() {
		lens = []int{1, 2, 76, 300, 5000, 70000}
	}
	for _, n := range lens {
		limits := []string{"-", "0", strconv.Itoa(n / 2), strconv.Itoa(n - 1), strconv.Itoa(n), strconv.Itoa(n + 1)}
		seen := map[string]bool{}
		for _, l := range limits {
			if seen[l] {
				continue
			}
			seen[l] = true
			for _, taken := range []bool{false, true} {
				pre := "free"
				if taken {
					pre = "taken"
					if l != "-" && l != "0" && !r.Thorough() {
						continue
					}
				}
				cases = append(cases, sysCase{fmt.Sprintf("C08.putsys %s %d %s", l, n, pre), []string{"stream:boundary", "scenario:put-syscalls", "limit:" + l}, judgePutSys(l, n, taken)})
				if l == strconv.Itoa(n) {
					// a limit of exactly the file size: write(2) of the whole buffer is fine (Put), but the kernel refuses the
					// copy_file_range call that would find the end of the source (Copy fails with the destination complete) –
					// and would not with a read/write fallback. Not a property of Acra: left out.
					continue
				}
				cases = append(cases, sysCase{fmt.Sprintf("C08.copysys %s %d %s", l, n, pre), []string{"stream:boundary", "scenario:copy-syscalls", "limit:" + l}, judgeCopySys(l, n, taken)})
			}
		}
	}
	// ---- v2 over the directory back end: every Put of every kind of write fails INSIDE (after the exclusive create)
	type base struct {
		hist []string
		op   string
		same []string
		tag  string
	}
	bases := []base{
		{nil, "g:ss0", nil, "first-generation"},
		{[]string{"g:sp1", "g:sp1"}, "g:sp1", nil, "rotation"},
		{[]string{"g:ss0", "g:ss0", "g:ss0"}, "dr:ss0:2", nil, "destroy-rotated"},
		{[]string{"g:ss0", "g:ss0"}, "h:ss0:A", []string{"A", "C3"}, "ring-handle"},
	}
	if r.Thorough() {
		bases = append(bases,
			base{[]string{"g:hm2", "g:hm2"}, "dc:hm2", nil, "destroy-current"},
			base{nil, "i:ss0", nil, "import"},
			base{[]string{"g:ss0", "g:ss0"}, "io:ss0", nil, "import-overwrite"},
			base{nil, "m:ss0", nil, "migrate"},
			base{nil, "g:pp", nil, "first-generation"},
			base{[]string{"g:al"}, "g:al", nil, "rotation"},
			base{[]string{"g:ss0", "g:ss0", "g:ss0"}, "h:ss0:D1", []string{"A", "C4"}, "ring-handle"})
	}
	limits := []int{0, 29}
	if r.Thorough() {
		limits = []int{0, 1, 29, 64}
	}
	for _, b := range bases {
		slots := slotsOf(append(append([]string{}, b.hist...), b.op))
		follow := followUps(slots)
		if strings.HasPrefix(b.op, "h:") {
			// as in runHandles: handle operations may leave a key that never became current; no listing after the next rotation
			follow = []string{"c:ss0", "a:ss0", "l", "r", "g:ss0", "c:ss0", "a:ss0"}
		}
		sc := Scenario{Format: c06.V2Dir, Cache: -1, Mode: ModeNone, History: b.hist, Op: b.op, Same: b.same, Follow: follow}
		res := doScenario(r, sc, "stream:boundary", "scenario:"+b.tag, "fault:none")
		wo, _ := parseWop(b.op)
		for k, call := range res.Calls {
			if !strings.HasPrefix(call, "Put:") {
				continue
			}
			for _, n := range limits {
				s2 := sc
				s2.Mode, s2.K = Mode("sys"+strconv.Itoa(n)), k
				if !wo.isImport() && wo.Kind != "h" {
					s2.Same = sameHandleOps(slots, b.op)
				}
				cases = append(cases, sysCase{s2.Line(), []string{"stream:boundary", "scenario:" + b.tag, "format:v2", "mode:sys", "call:Put", "fault-inside-put"}, nil})
			}
		}
	}
	// ---- v1 on a storage without hard links: the history copy of a rotation hits the limit
	keyLen := 76 // a 32-byte key sealed by the master key
	kinds := []string{"ss0", "hm1"}
	if r.Thorough() {
		kinds = []string{"ss0", "hm1", "al", "ps", "ss2"}
	}
	rd := r.Rand.Fork()
	for i, t := range kinds {
		hists := [][]string{{"g:" + t, "g:" + t}}
		if i == 0 {
			hists = append(hists, nil, []string{"g:" + t})
		}
		if r.Thorough() {
			for j := 0; j < 3; j++ {
				h := c06.GenSeq(rd, 3+rd.Intn(6), false)
				hists = append(hists, append(h, "g:"+t))
			}
		}
		for _, h := range hists {
			slots := slotsOf(append(append([]string{}, h...), "g:"+t))
			for _, l := range []int{-1, 0, 10, keyLen - 1, keyLen + 1} {
				if len(h) == 0 && l > 0 {
					continue
				}
				sc := Scenario{Format: c06.V1, Cache: -1, Mode: ModeNone, History: h, Op: "g:" + t, Follow: followUps(slots), NoLink: true, Limit: l, Len: keyLen}
				cases = append(cases, sysCase{sc.Line(), []string{"stream:boundary", "scenario:no-hard-links", "format:v1", "mode:sys", "call:Copy", "fault-inside-copy"}, nil})
			}
		}
	}
	// ---- acra-rotate: the in-place rewrite of a data file hits the limit (write error after the truncation)
	for _, format := range []string{"v1", "v2"} {
		ns := []int{1, 2}
		if r.Thorough() {
			ns = []int{1, 2, 3}
		}
		for _, n := range ns {
			for k := 1; k < 2*n; k += 2 {
				for _, l := range []int{0, 10} {
					if !r.Thorough() && (l == 0) != (format == "v1") {
						continue
					}
					cases = append(cases, sysCase{fmt.Sprintf("C08.rot %s sys%d %d %d", format, l, k, n), []string{"stream:boundary", "scenario:rotate-tool", "mode:sys", "fault-inside-rewrite"}, nil})
				}
			}
		}
	}
	runSysBatch(r, cases)
}
