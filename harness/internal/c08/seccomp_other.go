//go:build !(linux && amd64)

package c08

import "verifharness/internal/core"

// no seccomp filter on this platform: the fsync / close faults inside Put and Copy are covered by the theorems only
func runSec(r *core.Run) { r.Note("fsync/close fault injection (seccomp) is available on linux/amd64 only") }
