package c08

import (
	"fmt"
	"os"
	"path/filepath"
	"strings"
	"sync"

	fsv1 "github.com/cossacklabs/acra/keystore/filesystem"
	backendapi "github.com/cossacklabs/acra/keystore/v2/keystore/filesystem/backend/api"

	"verifharness/internal/c06"
	"verifharness/internal/core"
)

// Line protocol:
//
//	C08.v1 <cache> <mode> <k> H <op>… O <op> F <op>…
//	C08.v2m …   C08.v2d …            (no <cache>)
//
// H: fault-free history, O: the write operation under test with the fault (mode none|err|cb|ca|torn at
// its k-th storage call, 0-based), F: follow-up operations on the reopened store.
// Answer: "<call>,<call>,…;<outcome>;<obs>|<obs>|…" – the storage calls the operation made (canonical
// paths), its outcome (ok|err|crash) and the observations of the follow-up operations.

type Scenario struct {
	Format  c06.Format
	Cache   int
	Mode    Mode
	K       int
	History []string
	Op      string
	Follow  []string
}

func (sc Scenario) Line() string {
	head := ""
	switch sc.Format {
	case c06.V1:
		head = fmt.Sprintf("C08.v1 %d", sc.Cache)
	case c06.V2Mem:
		head = "C08.v2m"
	default:
		head = "C08.v2d"
	}
	return fmt.Sprintf("%s %s %d H %s O %s F %s", head, sc.Mode, sc.K, strings.Join(sc.History, " "), sc.Op, strings.Join(sc.Follow, " "))
}

func parseScenario(f c06.Format, a []string) Scenario {
	sc := Scenario{Format: f, Cache: -1}
	if f == c06.V1 {
		sc.Cache = core.Atoi(a[0])
		a = a[1:]
	}
	sc.Mode, sc.K = Mode(a[0]), core.Atoi(a[1])
	a = a[2:]
	sect := ""
	for _, t := range a {
		switch t {
		case "H", "O", "F":
			sect = t
			continue
		}
		switch sect {
		case "H":
			sc.History = append(sc.History, t)
		case "O":
			sc.Op = t
		case "F":
			sc.Follow = append(sc.Follow, t)
		}
	}
	return sc
}

// snapshot of what a freshly opened, uncached handle reads
type snap struct {
	cur  map[c06.Slot]string // "err" | "<id>" | "<id>/<pubid>"
	all  map[c06.Slot][]int
	allE map[c06.Slot]bool
}

func takeSnap(r *c06.Runner, slots []c06.Slot) snap {
	sn := snap{map[c06.Slot]string{}, map[c06.Slot][]int{}, map[c06.Slot]bool{}}
	h, done, err := r.W.Fresh()
	if err != nil {
		for _, s := range slots {
			sn.cur[s] = "err"
			sn.allE[s] = true
		}
		return sn
	}
	defer done()
	for _, s := range slots {
		priv, pub, err := c06.Cur(h, s)
		switch {
		case err != nil:
			sn.cur[s] = "err"
		case s.IsPair():
			if s.Kind == c06.StoragePair {
				pub, err = c06.Pub(h, s)
			}
			if err != nil {
				sn.cur[s] = c06.IDTok(r.PrivID(s, priv)) + "/err"
			} else {
				sn.cur[s] = c06.IDTok(r.PrivID(s, priv)) + "/" + c06.IDTok(r.PubID(s, pub))
			}
		default:
			sn.cur[s] = c06.IDTok(r.PrivID(s, priv))
		}
		if s.HasAll() {
			vals, err := c06.All(h, s)
			if err != nil {
				sn.allE[s] = true
			} else {
				for _, v := range vals {
					sn.all[s] = append(sn.all[s], r.PrivID(s, v))
				}
			}
		}
	}
	return sn
}

type Result struct {
	Calls    []string
	Outcome  string
	Obs      []string
	Findings []c06.Finding
}

func leftoverV1(dir string) []string {
	var out []string
	filepath.Walk(dir, func(p string, info os.FileInfo, err error) error {
		if err != nil || info.IsDir() || strings.Contains(p, ".old"+string(os.PathSeparator)) {
			return nil
		}
		base := filepath.Base(p)
		// a key file name followed by digits
		i := len(base)
		for i > 0 && base[i-1] >= '0' && base[i-1] <= '9' {
			i--
		}
		if i < len(base) && len(base)-i >= 6 {
			out = append(out, base)
		}
		return nil
	})
	return out
}

func leftoverV2(w *c06.World) []string {
	var be backendapi.Backend
	var out []string
	if w.Format == c06.V2Mem {
		be = w.Mem
	} else {
		filepath.Walk(w.Dir, func(p string, info os.FileInfo, err error) error {
			if err == nil && strings.HasSuffix(p, ".keyring.new") {
				out = append(out, p)
			}
			return nil
		})
		return out
	}
	l, _ := be.ListAll()
	for _, p := range l {
		if strings.HasSuffix(p, ".keyring.new") {
			out = append(out, p)
		}
	}
	return out
}

func slotsOf(toks []string) []c06.Slot {
	seen := map[c06.Slot]bool{}
	var out []c06.Slot
	for _, t := range toks {
		op, ok := c06.ParseOp(t)
		if ok && op.Kind != "l" && op.Kind != "r" && op.Kind != "x" && op.Kind != "o" && !seen[op.Slot] {
			seen[op.Slot] = true
			out = append(out, op.Slot)
		}
	}
	return out
}

func fmtName(f c06.Format) string {
	if f == c06.V1 {
		return "v1"
	}
	return "v2"
}

// RunScenario executes one fault scenario on the real keystore and judges the statement of C08.
func RunScenario(sc Scenario) Result {
	var res Result
	w, err := c06.NewWorld(sc.Format, sc.Cache)
	if err != nil {
		panic("harness: " + err.Error())
	}
	defer w.Close()
	in := &Injector{root: w.Dir}
	w.WrapStorage = func(s fsv1.Storage) fsv1.Storage { return &faultStorage{s, in} }
	w.WrapBackend = func(b backendapi.Backend) backendapi.Backend { return &faultBackend{b, in} }
	if err := w.Open(); err != nil {
		panic("harness: cannot open keystore: " + err.Error())
	}
	r := c06.NewRunner(w)
	for i, t := range sc.History {
		op, ok := c06.ParseOp(t)
		if !ok {
			panic("harness: bad op " + t)
		}
		r.Step(i, op)
	}
	op, ok := c06.ParseOp(sc.Op)
	if !ok {
		panic("harness: bad op " + sc.Op)
	}
	slots := slotsOf(append(append(append([]string{}, sc.History...), sc.Op), sc.Follow...))
	pre := takeSnap(r, slots)
	fail := func(class, format string, a ...any) {
		res.Findings = append(res.Findings, c06.Finding{Class: class, Desc: fmt.Sprintf(format, a...)})
	}

	// ---- the operation under test
	in.Arm(sc.Mode, sc.K)
	res.Outcome = func() (out string) {
		defer func() {
			if p := recover(); p != nil {
				if _, isCrash := p.(crashSignal); isCrash {
					out = "crash"
					return
				}
				out = "panic"
				fail("panic-under-fault:"+fmtName(sc.Format), "%s panics under fault %s@%d: %v", sc.Op, sc.Mode, sc.K, p)
			}
		}()
		var err error
		switch op.Kind {
		case "g":
			err = c06.Gen(w.H, op.Slot)
		case "dc":
			err = c06.DestroyCur(w.H, op.Slot)
		case "dr":
			err = c06.DestroyRot(w.H, op.Slot, op.Idx)
		default:
			panic("harness: not a write op: " + sc.Op)
		}
		if err != nil {
			return "err"
		}
		return "ok"
	}()
	in.Disarm()
	res.Calls = in.Calls

	// ---- restart
	if err := w.Open(); err != nil {
		fail("reopen-fails:"+fmtName(sc.Format), "the keystore cannot be reopened after fault %s@%d in %s: %v", sc.Mode, sc.K, sc.Op, err)
		return res
	}
	r.CacheEmptied()
	nBefore := r.Generations(op.Slot)
	if op.Kind == "g" {
		t := w.TruthOf(op.Slot)
		var priv, pub []byte
		if len(t.Priv) > 0 && t.Priv[0] != nil && r.PrivID(op.Slot, t.Priv[0]) == 0 {
			priv = t.Priv[0]
		}
		for _, p := range t.Pub {
			if p != nil && r.PubID(op.Slot, p) == 0 && len(p) == 45 {
				pub = p
				break
			}
		}
		r.ConsumeIdentity(op.Slot, priv, pub)
	}
	newID := c06.IDTok(nBefore + 1)
	post := takeSnap(r, slots)
	var left []string
	leftClass := ""
	if sc.Format == c06.V1 {
		left = leftoverV1(w.Dir)
		leftClass = "v1:leftover-temp-file"
	} else {
		left = leftoverV2(w)
		leftClass = "v2:leftover-keyring-new"
		if len(left) == 0 {
			// a ring file without a current key (crash/failure between ring creation and SetCurrent)
			for _, s := range slots {
				if t := w.TruthOf(s); t.RingExists && t.NoCurrent {
					left = append(left, "ring-without-current:"+s.String())
					leftClass = "v2:ring-without-current-key"
				}
			}
		}
	}

	// ---- clause 1: every key readable before still reads with the same value
	for _, s := range slots {
		if s != op.Slot {
			if post.cur[s] != pre.cur[s] {
				fail("other-key-changed:"+fmtName(sc.Format), "fault %s@%d in %s changed the current key of %v: %s → %s", sc.Mode, sc.K, sc.Op, s, pre.cur[s], post.cur[s])
			}
		}
		if !s.HasAll() {
			continue
		}
		in := map[int]bool{}
		for _, id := range post.all[s] {
			in[id] = true
		}
		for j, id := range pre.all[s] {
			if in[id] {
				continue
			}
			// the key the operation was asked to destroy may be gone
			if s == op.Slot && op.Kind == "dc" && j == 0 {
				continue
			}
			if s == op.Slot && op.Kind == "dr" {
				n := len(pre.all[s])
				if j == n-1-(op.Idx-2) && j >= 1 {
					continue
				}
			}
			class := "lost-keys:" + fmtName(sc.Format)
			if sc.Format == c06.V1 && op.Kind == "dc" && s == op.Slot {
				class = "destroy-current-no-promotion:v1" // C06 known finding: read-all fails without a current file
			}
			fail(class, "after fault %s@%d in %s key %d of %v is no longer readable (before %v, after %v err=%v)", sc.Mode, sc.K, sc.Op, id, s, pre.all[s], post.all[s], post.allE[s])
			break
		}
	}
	// ---- clause 2: the key being written is its old self (or absent) or completely the new one
	s := op.Slot
	switch op.Kind {
	case "g":
		okSet := map[string]bool{pre.cur[s]: true, newID: true}
		if s.IsPair() {
			okSet = map[string]bool{pre.cur[s]: true, newID + "/" + newID: true}
		}
		if !okSet[post.cur[s]] {
			class := "current-corrupt:" + fmtName(sc.Format)
			if s.IsPair() && sc.Format == c06.V1 && strings.HasPrefix(post.cur[s], newID+"/") {
				class = "v1:key-pair-half-written"
			}
			fail(class, "after fault %s@%d in %s the current key of %v reads %s (before: %s, new: %s): neither the old nor completely the new key", sc.Mode, sc.K, sc.Op, s, post.cur[s], pre.cur[s], newID)
		}
	case "dc":
		if post.cur[s] != pre.cur[s] && post.cur[s] != "err" {
			class := "current-corrupt:" + fmtName(sc.Format)
			if s.IsPair() && sc.Format == c06.V1 {
				class = "v1:key-pair-half-destroyed"
			}
			fail(class, "after fault %s@%d in %s the current key of %v reads %s (before: %s): neither intact nor absent", sc.Mode, sc.K, sc.Op, s, post.cur[s], pre.cur[s])
		}
	case "dr":
		if post.cur[s] != pre.cur[s] {
			fail("current-corrupt:"+fmtName(sc.Format), "fault %s@%d in %s changed the current key of %v: %s → %s", sc.Mode, sc.K, sc.Op, s, pre.cur[s], post.cur[s])
		}
	}
	// ---- clause 3: the keystore keeps accepting reads, listings and further writes
	for i, t := range sc.Follow {
		fop, ok := c06.ParseOp(t)
		if !ok {
			panic("harness: bad op " + t)
		}
		o := r.Step(1000+i, fop)
		res.Obs = append(res.Obs, o)
		bad := false
		switch fop.Kind {
		case "l", "r", "g":
			bad = o != "ok" && !strings.HasPrefix(o, "ok:")
		}
		if o == "panic" {
			bad = true
		}
		if bad {
			class := "not-live:" + fop.Kind + ":" + fmtName(sc.Format)
			if len(left) > 0 {
				class = leftClass
			}
			fail(class, "after fault %s@%d in %s (leftover %v) the follow-up %s answers %s", sc.Mode, sc.K, sc.Op, left, t, o)
		}
	}
	r.ResetFindings()
	return res
}

var (
	lastMu  sync.Mutex
	lastRes Result
)

func takeResult() Result {
	lastMu.Lock()
	defer lastMu.Unlock()
	r := lastRes
	lastRes = Result{}
	return r
}

func runLine(f c06.Format, a []string) string {
	res := RunScenario(parseScenario(f, a))
	lastMu.Lock()
	lastRes = res
	lastMu.Unlock()
	calls := strings.Join(res.Calls, ",")
	if calls == "" {
		calls = "-"
	}
	obs := strings.Join(res.Obs, "|")
	if obs == "" {
		obs = "-"
	}
	return calls + ";" + res.Outcome + ";" + obs
}

func init() {
	core.Register("C08.v1", func(a []string) string { return runLine(c06.V1, a) })
	core.Register("C08.v2m", func(a []string) string { return runLine(c06.V2Mem, a) })
	core.Register("C08.v2d", func(a []string) string { return runLine(c06.V2Dir, a) })
	core.RegisterProp("C08", run)
}
