// Package c08: implementation-side ops, generators and oracles for property C08.
package c08
