package c08

import (
	"bytes"
	"fmt"
	"os"
	"path/filepath"
	"strconv"
	"strings"
	"sync"

	fsv1 "github.com/cossacklabs/acra/keystore/filesystem"
	v2api "github.com/cossacklabs/acra/keystore/v2/keystore/api"
	backendapi "github.com/cossacklabs/acra/keystore/v2/keystore/filesystem/backend/api"

	"verifharness/internal/c06"
	"verifharness/internal/core"
)

// Line protocol:
//
//	C08.v1 <cache> <mode> <k> H <op>… O <op> [S <op>…] F <op>…
//	C08.v2m …   C08.v2d …            (no <cache>)
//
// H: fault-free history, O: the write operation under test with the fault (mode none|err|cb|ca|torn at
// its k-th storage call, 0-based), S: operations on the SAME handle before the restart (only when the
// process survives the fault: mode err/none), F: follow-up operations on the reopened store.
// Answer: "<call>,<call>,…;<outcome>[;<S obs>|…];<obs>|<obs>|…" – the storage calls the operation made
// (canonical paths), its outcome (ok|err|crash) and the observations of the follow-up operations.
//
// Write operations (O): g:<slot> dc:<slot> dr:<slot>:<i> (as in C06) and
//
//	i:<file>+<file>…   v1  KeyBackuper.Import of a bundle with these key files (<slot> | <slot>.pub), in this order
//	i:<slot>+…  io:…   v2  ImportKeyRings of a bundle with these rings (default delegate | overwriting delegate)
//	m:<slot>+…         v2  v1→v2 migration: ImportKeyFileV1 for each key, going on after an error (MigrateV1toV2)
//	h:<slot>:<hop>     v2  ONE ring handle (OpenKeyRingRW once) – the faulted handle operation; the S section
//	                       then holds further handle operations on the same handle: A (AddKey), C<seq>
//	                       (SetCurrent), D<seq> (DestroyKey); their outcomes are the S observations

type Scenario struct {
	Format  c06.Format
	Cache   int
	Mode    Mode
	K       int
	History []string
	Op      string
	Same    []string // same-handle operations before the restart
	Follow  []string
	// NoLink (v1, "C08.v1nl <limit|-> <len> …"): the storage has no hard links, the history copy of the operation
	// under test runs under a file size limit of Limit bytes (Limit < 0: no limit); Len is the size of the key file
	NoLink bool
	Limit  int
	Len    int
}

func (sc Scenario) Line() string {
	if sc.NoLink {
		limit := "-"
		if sc.Limit >= 0 {
			limit = strconv.Itoa(sc.Limit)
		}
		return fmt.Sprintf("C08.v1nl %s %d H %s O %s F %s", limit, sc.Len, strings.Join(sc.History, " "), sc.Op, strings.Join(sc.Follow, " "))
	}
	head := ""
	switch sc.Format {
	case c06.V1:
		head = fmt.Sprintf("C08.v1 %d", sc.Cache)
	case c06.V2Mem:
		head = "C08.v2m"
	default:
		head = "C08.v2d"
	}
	same := ""
	if len(sc.Same) > 0 {
		same = " S " + strings.Join(sc.Same, " ")
	}
	return fmt.Sprintf("%s %s %d H %s O %s%s F %s", head, sc.Mode, sc.K, strings.Join(sc.History, " "), sc.Op, same, strings.Join(sc.Follow, " "))
}

func parseScenario(f c06.Format, a []string) Scenario {
	sc := Scenario{Format: f, Cache: -1}
	if f == c06.V1 {
		sc.Cache = core.Atoi(a[0])
		a = a[1:]
	}
	sc.Mode, sc.K = Mode(a[0]), core.Atoi(a[1])
	a = a[2:]
	sect := ""
	for _, t := range a {
		switch t {
		case "H", "O", "S", "F":
			sect = t
			continue
		}
		switch sect {
		case "H":
			sc.History = append(sc.History, t)
		case "O":
			sc.Op = t
		case "S":
			sc.Same = append(sc.Same, t)
		case "F":
			sc.Follow = append(sc.Follow, t)
		}
	}
	return sc
}

// snapshot of what a handle reads: a freshly opened, uncached one (h == nil: what a restarted process
// sees) or the handle under test itself (what the running process sees)
type snap struct {
	cur  map[c06.Slot]string // "err" | "<id>" | "<id>/<pubid>"
	all  map[c06.Slot][]int
	allE map[c06.Slot]bool
}

func takeSnap(r *c06.Runner, slots []c06.Slot, same bool) (sn snap) {
	sn = snap{map[c06.Slot]string{}, map[c06.Slot][]int{}, map[c06.Slot]bool{}}
	bad := func() snap {
		for _, s := range slots {
			sn.cur[s] = "err"
			sn.allE[s] = true
		}
		return sn
	}
	h, done, err := r.W.HandleFor(same)
	if err != nil {
		return bad()
	}
	defer done()
	defer func() {
		if p := recover(); p != nil {
			if strings.HasPrefix(fmt.Sprint(p), "harness:") {
				panic(p)
			}
			sn = bad()
		}
	}()
	for _, s := range slots {
		priv, pub, err := c06.Cur(h, s)
		var perr error
		if s.Kind == c06.StoragePair {
			pub, perr = c06.Pub(h, s)
		}
		switch {
		case err != nil:
			sn.cur[s] = "err"
		case s.IsPair():
			if perr != nil {
				sn.cur[s] = c06.IDTok(r.PrivID(s, priv)) + "/err"
			} else {
				sn.cur[s] = c06.IDTok(r.PrivID(s, priv)) + "/" + c06.IDTok(r.PubID(s, pub))
			}
		default:
			sn.cur[s] = c06.IDTok(r.PrivID(s, priv))
		}
		if s.HasAll() {
			vals, err := c06.All(h, s)
			if err != nil {
				sn.allE[s] = true
			} else {
				for _, v := range vals {
					sn.all[s] = append(sn.all[s], r.PrivID(s, v))
				}
			}
		}
	}
	return sn
}

type Result struct {
	Calls    []string
	Outcome  string
	SameObs  []string
	Obs      []string
	Findings []c06.Finding
}

func leftoverV1(dir string) []string {
	var out []string
	filepath.Walk(dir, func(p string, info os.FileInfo, err error) error {
		if err != nil || info.IsDir() || strings.Contains(p, ".old"+string(os.PathSeparator)) {
			return nil
		}
		base := filepath.Base(p)
		// a key file name followed by digits
		i := len(base)
		for i > 0 && base[i-1] >= '0' && base[i-1] <= '9' {
			i--
		}
		if i < len(base) && len(base)-i >= 6 {
			out = append(out, base)
		}
		return nil
	})
	return out
}

func leftoverV2(w *c06.World) []string {
	var be backendapi.Backend
	var out []string
	if w.Format == c06.V2Mem {
		be = w.Mem
	} else {
		filepath.Walk(w.Dir, func(p string, info os.FileInfo, err error) error {
			if err == nil && strings.HasSuffix(p, ".keyring.new") {
				out = append(out, p)
			}
			return nil
		})
		return out
	}
	l, _ := be.ListAll()
	for _, p := range l {
		if strings.HasSuffix(p, ".keyring.new") {
			out = append(out, p)
		}
	}
	return out
}

func slotsOf(toks []string) []c06.Slot {
	seen := map[c06.Slot]bool{}
	var out []c06.Slot
	add := func(s c06.Slot) {
		if !seen[s] {
			seen[s] = true
			out = append(out, s)
		}
	}
	for _, t := range toks {
		if op, ok := c06.ParseOp(t); ok {
			if op.Kind != "l" && op.Kind != "r" && op.Kind != "x" && op.Kind != "o" {
				add(op.Slot)
			}
			continue
		}
		if w, ok := parseWop(t); ok {
			for _, s := range w.slots() {
				add(s)
			}
		}
	}
	return out
}

func fmtName(f c06.Format) string {
	if f == c06.V1 {
		return "v1"
	}
	return "v2"
}

// halfWritten lists what sits under a FINAL key name without being a complete key: a v1 key file (current
// or history) that does not decrypt, a v1 public key file that no generation produced, a v2 ring file
// that does not verify, a v2 key that is not destroyed but has no readable key data.
func halfWritten(w *c06.World, r *c06.Runner, slots []c06.Slot) map[string]bool {
	out := map[string]bool{}
	for _, s := range slots {
		if w.Format == c06.V1 {
			t := w.TruthOf(s)
			for i, v := range t.Priv {
				if v == nil {
					if i == 0 && t.CurPresent {
						out[s.String()+": the current key file does not decrypt"] = true
					} else {
						out[fmt.Sprintf("%s: stored version %d does not decrypt", s, i)] = true
					}
				}
			}
			if s.IsPair() {
				for i, p := range t.Pub {
					if len(p) != 45 || r.PubID(s, p) == 0 {
						out[fmt.Sprintf("%s: stored public key version %d is not a complete public key (%d bytes)", s, i, len(p))] = true
					}
				}
			}
			continue
		}
		v := viewRing(w, s)
		if v.FileExists && !v.Opens {
			out[s.String()+": the ring file does not verify"] = true
		}
		for _, k := range v.Keys {
			if k.State != v2api.KeyDestroyed && k.Material == nil {
				out[fmt.Sprintf("%s: key %d (state %v) has no readable key data", s, k.Seq, k.State)] = true
			}
		}
	}
	return out
}

// judge holds what the clauses of the statement are checked against.
type judge struct {
	sc    Scenario
	op    wop
	fails func(class, format string, a ...any)
	newID map[c06.Slot]string // identity of the generation the operation was writing, per slot
	// destroyed: identities whose destruction was requested and may therefore be gone
	gone map[c06.Slot]map[int]bool
	// sameHandleLostClass: class of "a key is no longer readable THROUGH THE SAME HANDLE" when the fault hit the
	// re-read of a cached list of historical key files (known finding); "" otherwise
	sameHandleLostClass string
}

func (j *judge) where() string { return fmt.Sprintf("fault %s@%d in %s", j.sc.Mode, j.sc.K, j.sc.Op) }

func (j *judge) targets(s c06.Slot) bool {
	for _, t := range j.op.slots() {
		if t == s {
			return true
		}
	}
	return false
}

// clauses 1 and 2 on a snapshot taken after the operation (view: "after restart" / "on the same handle")
func (j *judge) clauses(pre, post snap, slots []c06.Slot, view string) {
	j.clausesAlt(pre, nil, post, slots, view)
}

// clausesAlt: alt (may be nil) is a second admissible "before" for current keys – what the storage held when the
// handle under test read through a cache that lagged behind it (the cache may catch up at any read: eviction)
func (j *judge) clausesAlt(pre snap, alt *snap, post snap, slots []c06.Slot, view string) {
	f, op, sc := fmtName(j.sc.Format), j.op, j.sc
	same := func(s c06.Slot) bool {
		return post.cur[s] == pre.cur[s] || (alt != nil && post.cur[s] == alt.cur[s])
	}
	// ---- clause 1: every key readable before still reads with the same value
	for _, s := range slots {
		if !j.targets(s) && !same(s) {
			j.fails("other-key-changed:"+f, "%s changed the current key of %v (%s): %s → %s", j.where(), s, view, pre.cur[s], post.cur[s])
		}
		if !s.HasAll() {
			continue
		}
		in := map[int]bool{}
		for _, id := range post.all[s] {
			in[id] = true
		}
		for i, id := range pre.all[s] {
			if in[id] || j.gone[s][id] {
				continue
			}
			// an import replaces the current key of its target without keeping it (no history entry)
			if j.targets(s) && (op.Kind == "i" || op.Kind == "io") && (i == 0 || (sc.Format != c06.V1 && op.Kind == "io")) {
				continue
			}
			class := "lost-keys:" + f
			if sc.Format == c06.V1 && op.Kind == "dc" && s == op.Slot {
				class = "destroy-current-no-promotion:v1" // C06 known finding: read-all fails without a current file
			}
			if j.sameHandleLostClass != "" && strings.HasPrefix(view, "same handle") && s == op.Slot {
				class = j.sameHandleLostClass
			}
			j.fails(class, "after %s key %d of %v is no longer readable (%s; before %v, after %v err=%v)", j.where(), id, s, view, pre.all[s], post.all[s], post.allE[s])
			break
		}
	}
	// ---- clause 2: the key being written is its old self (or absent) or completely the new one
	for _, s := range op.slots() {
		newID := j.newID[s]
		switch op.Kind {
		case "g", "m":
			okSet := map[string]bool{pre.cur[s]: true, newID: true}
			if s.IsPair() {
				okSet = map[string]bool{pre.cur[s]: true, newID + "/" + newID: true}
			}
			if alt != nil {
				okSet[alt.cur[s]] = true
			}
			if !okSet[post.cur[s]] {
				class := "current-corrupt:" + f
				if s.IsPair() && sc.Format == c06.V1 && strings.HasPrefix(post.cur[s], newID+"/") {
					class = "v1:key-pair-half-written"
				}
				j.fails(class, "after %s the current key of %v reads %s (%s; before: %s, new: %s): neither the old nor completely the new key", j.where(), s, post.cur[s], view, pre.cur[s], newID)
			}
		case "i", "io":
			// per FILE (v1) / per RING (v2): each half of a pair is judged on its own
			okHalf := func(got, old string) bool { return got == old || got == newID || (got == "err" && old == "err") }
			got, old := post.cur[s], pre.cur[s]
			ok := got == old || got == newID || got == newID+"/"+newID
			if !ok && s.IsPair() && sc.Format == c06.V1 {
				g, o := strings.SplitN(got+"/err", "/", 3), strings.SplitN(old+"/err", "/", 3)
				ok = (got == "err" && (old == "err" || s.Kind == c06.PoisonPair)) || (got != "err" && okHalf(g[0], o[0]) && okHalf(g[1], o[1]))
			}
			if !ok {
				j.fails("current-corrupt:"+f, "after %s the imported key of %v reads %s (%s; before: %s, new: %s): neither the old nor completely the new key", j.where(), s, got, view, old, newID)
			}
		case "dc":
			if !same(s) && post.cur[s] != "err" {
				class := "current-corrupt:" + f
				if s.IsPair() && sc.Format == c06.V1 {
					class = "v1:key-pair-half-destroyed"
				}
				j.fails(class, "after %s the current key of %v reads %s (%s; before: %s): neither intact nor absent", j.where(), s, post.cur[s], view, pre.cur[s])
			}
		case "dr":
			if !same(s) {
				j.fails("current-corrupt:"+f, "%s changed the current key of %v (%s): %s → %s", j.where(), s, view, pre.cur[s], post.cur[s])
			}
		}
	}
}

func isWrite(t string) bool {
	return strings.HasPrefix(t, "g:") || strings.HasPrefix(t, "dc:") || strings.HasPrefix(t, "dr:")
}

// RunScenario executes one fault scenario on the real keystore and judges the statement of C08.
func RunScenario(sc Scenario) Result {
	var res Result
	w, err := c06.NewWorld(sc.Format, sc.Cache)
	if err != nil {
		panic("harness: " + err.Error())
	}
	defer w.Close()
	in := &Injector{root: w.Dir, NoLink: sc.NoLink, CopyLimited: sc.NoLink && sc.Limit >= 0, CopyLimit: uint64(max(sc.Limit, 0))}
	w.WrapStorage = func(s fsv1.Storage) fsv1.Storage { return &faultStorage{s, in} }
	w.WrapBackend = func(b backendapi.Backend) backendapi.Backend { return &faultBackend{b, in} }
	if err := w.Open(); err != nil {
		panic("harness: cannot open keystore: " + err.Error())
	}
	r := c06.NewRunner(w)
	for i, t := range sc.History {
		op, ok := c06.ParseOp(t)
		if !ok {
			panic("harness: bad op " + t)
		}
		r.Step(i, op)
	}
	op, ok := parseWop(sc.Op)
	if !ok || (op.Kind == "h" || op.Kind == "m" || op.Kind == "io") && sc.Format == c06.V1 {
		panic("harness: bad op " + sc.Op)
	}
	f := fmtName(sc.Format)
	slots := slotsOf(append(append(append(append([]string{}, sc.History...), sc.Op), sc.Same...), sc.Follow...))
	_, sysMode := sc.Mode.sysLimit()
	fail := func(class, format string, a ...any) {
		if sc.NoLink && in.SysFailed && res.Outcome == "err" && (class == "lost-keys:v1" || class == "half-written-key-visible:v1") {
			// the rotation failed, as it must, but FileStorage.Copy left its partial destination in the history
			class = "v1:partial-history-copy"
		}
		res.Findings = append(res.Findings, c06.Finding{Class: class, Desc: fmt.Sprintf(format, a...)})
	}
	j := &judge{sc: sc, op: op, fails: fail, newID: map[c06.Slot]string{}, gone: map[c06.Slot]map[int]bool{}}
	prep := prepare(w, op)
	defer prep.close()
	pre := takeSnap(r, slots, false)
	// what the handle under test itself reads before the operation (a cached v1 handle may lag behind the
	// storage after earlier writes – that is C06's subject, not a consequence of the fault): the same-handle
	// clauses compare like with like
	preSame := pre
	if len(sc.Same) > 0 && op.Kind != "h" {
		preSame = takeSnap(r, slots, true)
	}
	preHalf := halfWritten(w, r, slots)
	if sc.NoLink {
		if fi, err := os.Stat(filepath.Join(w.Dir, c06.V1PrivName(op.Slot))); err == nil && int(fi.Size()) != sc.Len {
			panic(fmt.Sprintf("harness: the key file of %v has %d bytes, the scenario line says %d", op.Slot, fi.Size(), sc.Len))
		}
	}
	var preRing ringView
	if op.Kind == "h" {
		preRing = viewRing(w, op.Slot)
	}
	// identities the operation may remove
	markGone := func(s c06.Slot, id int) {
		if j.gone[s] == nil {
			j.gone[s] = map[int]bool{}
		}
		j.gone[s][id] = true
	}
	switch op.Kind {
	case "dc":
		if len(pre.all[op.Slot]) > 0 {
			markGone(op.Slot, pre.all[op.Slot][0])
		}
	case "dr":
		if n := len(pre.all[op.Slot]); n-1-(op.Idx-2) >= 1 && n-1-(op.Idx-2) < n {
			markGone(op.Slot, pre.all[op.Slot][n-1-(op.Idx-2)])
		}
	}
	ringID := func(q int) int { // identity of key q of the handle's ring before the operation
		for _, k := range preRing.Keys {
			if k.Seq == q && k.Material != nil {
				return r.PrivID(op.Slot, k.Material)
			}
		}
		return 0
	}

	// ---- the operation under test
	crashed := func(do func() error) (out string) {
		defer func() {
			if p := recover(); p != nil {
				if _, isCrash := p.(crashSignal); isCrash {
					out = "crash"
					return
				}
				if strings.HasPrefix(fmt.Sprint(p), "harness:") {
					panic(p)
				}
				out = "panic"
				fail("panic-under-fault:"+f, "%s panics under fault %s@%d: %v", sc.Op, sc.Mode, sc.K, p)
			}
		}()
		if err := do(); err != nil {
			return "err"
		}
		return "ok"
	}
	regHop := func(priv, pub []byte) { r.ConsumeIdentity(op.Slot, priv, pub) }
	// a key whose destruction was requested may be gone whatever the call returned (an error of the final
	// Unlock comes after the ring was replaced); what must never be seen is a key that lost its data without
	// being destroyed – halfWritten looks for that
	requestDestroy := func(hop string) {
		if hop[0] == 'D' {
			q, _ := strconv.Atoi(hop[1:])
			markGone(op.Slot, ringID(q))
		}
	}
	if op.Kind == "h" {
		requestDestroy(op.Hop)
	}
	// SetCurrent through the handle: which values may the ring's current pointer have after the restart?
	// A SetCurrent that succeeded fixes it; one that failed before the ring was replaced changes nothing; only
	// a failure at the final Unlock (or a crash at/after the Rename) leaves both possibilities.
	allowedCur := map[int]bool{}
	setCurrent := func(hop, outcome, firedCall string, faulted bool) {
		if hop[0] != 'C' {
			return
		}
		q, _ := strconv.Atoi(hop[1:])
		switch {
		case outcome == "ok":
			allowedCur = map[int]bool{q: true}
		case outcome == "crash" || (faulted && firedCall == "Unlock"):
			allowedCur[q] = true
		}
	}
	in.Arm(sc.Mode, sc.K)
	res.Outcome = crashed(func() error {
		if op.Kind == "h" {
			return runHop(prep.ring, op.Slot, op.Hop, regHop)
		}
		return runWop(w, in, op, prep)
	})
	in.Disarm()
	res.Calls = in.Calls
	if sysMode {
		if !in.SysFailed {
			panic("harness: the file size limit of " + string(sc.Mode) + " did not make the Put fail (call " + in.FiredCall + ")")
		}
		// the statement itself, on what the failed write left: a Put that RETURNED an error must not leave the file
		// it created – the exclusive create would refuse every later write of this ring, for ever
		if left := leftoverV2(w); len(left) > 0 {
			fail("put-error-leaves-file:v2", "%s: the write inside Put failed (file size limit), Put returned an error, but %v stays behind", j.where(), left)
		}
	}
	if sc.NoLink && sc.Limit >= 0 && sc.Limit < sc.Len && op.Kind == "g" && pre.cur[op.Slot] != "err" && !in.Fired {
		panic("harness: the rotation on a storage without hard links did not copy the previous key")
	}
	if sc.Format == c06.V1 && sc.Cache != -1 && sc.Mode == ModeErr && strings.HasPrefix(in.FiredCall, "ReadDir:") {
		j.sameHandleLostClass = "v1:stale-history-cache-after-refresh-error"
	}
	if op.Kind == "h" {
		allowedCur[preRing.Current] = true
		setCurrent(op.Hop, res.Outcome, in.FiredCall, true)
	}

	// ---- identities of what the operation was writing (read from the storage, not through the store)
	consume := func() {
		for _, s := range op.slots() {
			n := r.Generations(s)
			switch op.Kind {
			case "g":
				t := w.TruthOf(s)
				var priv, pub []byte
				if len(t.Priv) > 0 && t.Priv[0] != nil && r.PrivID(s, t.Priv[0]) == 0 {
					priv = t.Priv[0]
				}
				for _, p := range t.Pub {
					if p != nil && r.PubID(s, p) == 0 && len(p) == 45 {
						pub = p
						break
					}
				}
				r.ConsumeIdentity(s, priv, pub)
			case "i", "io", "m":
				v := prep.vals[s]
				r.ConsumeIdentity(s, v.CurPriv, v.CurPub)
			case "h":
				continue // AddKey registered its key itself
			default:
				continue
			}
			j.newID[s] = c06.IDTok(n + 1)
		}
	}
	// the process is gone – or an unlock call "failed" (was not performed): the handle still holds the store's
	// lock, nothing else can be said about a process in that state, it is restarted
	died := res.Outcome == "crash" || res.Outcome == "panic" || (sc.Mode == ModeErr && (in.FiredCall == "Unlock" || in.FiredCall == "RUnlock"))
	if !died {
		consume() // (after a crash the dead handle may still hold the store's file lock: wait for the restart)
	}
	leftovers := func() (left []string, class string) {
		if sc.Format == c06.V1 {
			return leftoverV1(w.Dir), "v1:leftover-temp-file"
		}
		left, class = leftoverV2(w), "v2:leftover-keyring-new"
		if sysMode {
			class = "put-error-leaves-file:v2" // no crash, no failing Rename: not the known finding
		}
		if len(left) == 0 {
			// a ring file without a current key (crash/failure between ring creation and SetCurrent)
			for _, s := range slots {
				if t := w.TruthOf(s); t.RingExists && t.NoCurrent {
					left = append(left, "ring-without-current:"+s.String())
					class = "v2:ring-without-current-key"
				}
			}
		}
		return left, class
	}
	live := func(stage string, t string, o string, kind string) {
		bad := false
		switch kind {
		case "l", "r", "g":
			bad = o != "ok" && !strings.HasPrefix(o, "ok:")
		}
		if o == "panic" {
			bad = true
		}
		if bad {
			left, leftClass := leftovers()
			class := "not-live:" + kind + ":" + f
			if len(left) > 0 {
				class = leftClass
			}
			fail(class, "after fault %s@%d in %s (leftover %v) the follow-up %s %s answers %s", sc.Mode, sc.K, sc.Op, left, t, stage, o)
		}
	}

	// ---- the process survived (an error was returned): it goes on using the SAME handle
	var mid snap
	haveMid := false
	if len(sc.Same) > 0 && !died {
		if op.Kind == "h" {
			for _, hop := range sc.Same {
				if !validHop(hop) {
					panic("harness: bad handle op " + hop)
				}
				requestDestroy(hop)
				o := crashed(func() error { return runHop(prep.ring, op.Slot, hop, regHop) })
				setCurrent(hop, o, "", false)
				res.SameObs = append(res.SameObs, o)
			}
		} else {
			if op.isImport() {
				panic("harness: same-handle follow-ups are not defined for imports")
			}
			// what the running process reads right after the failed operation
			j.clausesAlt(preSame, &pre, takeSnap(r, slots, true), slots, "same handle, before restart")
			for i, t := range sc.Same {
				fop, ok := c06.ParseOp(t)
				if !ok {
					panic("harness: bad op " + t)
				}
				o := r.Step(500+i, fop)
				res.SameObs = append(res.SameObs, o)
				live("on the same handle", t, o, fop.Kind)
			}
			// (through an emptied cache: what the process reads from the storage it wrote)
			r.Step(999, c06.Op{Kind: "x", Tok: "x"})
			mid, haveMid = takeSnap(r, slots, true), true
		}
	}

	// ---- restart
	if err := w.Open(); err != nil {
		fail("reopen-fails:"+f, "the keystore cannot be reopened after fault %s@%d in %s: %v", sc.Mode, sc.K, sc.Op, err)
		return res
	}
	r.CacheEmptied()
	if died {
		consume()
	}
	post := takeSnap(r, slots, false)
	sameWrote := false
	for _, t := range sc.Same {
		sameWrote = sameWrote || isWrite(t) || op.Kind == "h"
	}
	if sameWrote {
		// the same-handle follow-ups wrote: clause 2 was judged before them; here only "nothing readable is lost"
		jj := *j
		jj.op = wop{Kind: "none", Slot: op.Slot}
		jj.clausesLost(pre, post, slots)
	} else {
		j.clauses(pre, post, slots, "after restart")
	}
	// what the process saw before the restart is what the restarted process sees
	if haveMid {
		for _, s := range slots {
			if mid.cur[s] != "err" && post.cur[s] != mid.cur[s] {
				fail("not-durable:"+f, "after %s and follow-ups on the same handle the process read %s as the current key of %v; after the restart it reads %s", j.where(), mid.cur[s], s, post.cur[s])
			}
			in := map[int]bool{}
			for _, id := range post.all[s] {
				in[id] = true
			}
			for _, id := range mid.all[s] {
				if !in[id] {
					fail("not-durable:"+f, "after %s and follow-ups on the same handle key %d of %v was readable; after the restart it is not (before %v, after %v)", j.where(), id, s, mid.all[s], post.all[s])
					break
				}
			}
		}
	}
	// ---- clause 2, whatever the call trace: nothing half-written under a final key name
	for what := range halfWritten(w, r, slots) {
		if !preHalf[what] {
			fail("half-written-key-visible:"+f, "after %s %s: the key is neither absent nor complete", j.where(), what)
		}
	}
	if op.Kind == "h" {
		// ring level: every key of the handle's ring that was not destroyed successfully keeps its material
		postRing := viewRing(w, op.Slot)
		if !allowedCur[postRing.Current] {
			fail("current-corrupt:"+f, "after %s and the handle operations %v the ring of %v has current key %d although no SetCurrent to it succeeded (ring before: %v, after: %v)", j.where(), sc.Same, op.Slot, postRing.Current, preRing, postRing)
		}
		for _, k := range preRing.Keys {
			if k.Material == nil || j.gone[op.Slot][r.PrivID(op.Slot, k.Material)] {
				continue
			}
			kept := false
			for _, k2 := range postRing.Keys {
				kept = kept || (k2.Seq == k.Seq && bytes.Equal(k2.Material, k.Material))
			}
			if !kept {
				fail("lost-keys:"+f, "after %s and the handle operations %v key %d of %v lost its material although no destruction of it succeeded (ring before: %v, after: %v)", j.where(), sc.Same, k.Seq, op.Slot, preRing, postRing)
			}
		}
	}
	// ---- clause 3: the keystore keeps accepting reads, listings and further writes
	for i, t := range sc.Follow {
		fop, ok := c06.ParseOp(t)
		if !ok {
			panic("harness: bad op " + t)
		}
		o := r.Step(1000+i, fop)
		res.Obs = append(res.Obs, o)
		live("after restart", t, o, fop.Kind)
	}
	r.ResetFindings()
	return res
}

// clausesLost: clause 1 only (used when later writes make clause 2 meaningless for the snapshot)
func (j *judge) clausesLost(pre, post snap, slots []c06.Slot) {
	f := fmtName(j.sc.Format)
	for _, s := range slots {
		if !s.HasAll() {
			continue
		}
		in := map[int]bool{}
		for _, id := range post.all[s] {
			in[id] = true
		}
		for _, id := range pre.all[s] {
			if in[id] || j.gone[s][id] {
				continue
			}
			class := "lost-keys:" + f
			if j.sc.Format == c06.V1 && strings.HasPrefix(j.sc.Op, "dc:") && s == j.op.Slot {
				class = "destroy-current-no-promotion:v1"
			}
			j.fails(class, "after %s and the follow-ups %v on the same handle key %d of %v is no longer readable (before %v, after %v err=%v)", j.where(), j.sc.Same, id, s, pre.all[s], post.all[s], post.allE[s])
			break
		}
	}
}

var (
	lastMu  sync.Mutex
	lastRes Result
)

func takeResult() Result {
	lastMu.Lock()
	defer lastMu.Unlock()
	r := lastRes
	lastRes = Result{}
	return r
}

// parseNoLink: "<limit|-> <len> H … O … F …"
func parseNoLink(a []string) Scenario {
	sc := parseScenario(c06.V2Mem, append([]string{"none", "0"}, a[2:]...))
	sc.Format, sc.Cache, sc.NoLink, sc.Limit, sc.Len = c06.V1, -1, true, -1, core.Atoi(a[1])
	if a[0] != "-" {
		sc.Limit = core.Atoi(a[0])
	}
	return sc
}

func runLine(f c06.Format, a []string) string {
	return runScenarioLine(parseScenario(f, a))
}

func runScenarioLine(sc Scenario) string {
	res := RunScenario(sc)
	if p := os.Getenv(resultFileEnv); p != "" {
		// a child process serving a batch of lines: hand the findings to the parent
		appendResult(p, sc.Line(), res)
	}
	lastMu.Lock()
	lastRes = res
	lastMu.Unlock()
	calls := strings.Join(res.Calls, ",")
	if calls == "" {
		calls = "-"
	}
	obs := strings.Join(res.Obs, "|")
	if obs == "" {
		obs = "-"
	}
	if len(sc.Same) > 0 {
		same := strings.Join(res.SameObs, "|")
		if same == "" {
			same = "-"
		}
		return calls + ";" + res.Outcome + ";" + same + ";" + obs
	}
	return calls + ";" + res.Outcome + ";" + obs
}

func init() {
	core.Register("C08.v1", func(a []string) string { return runLine(c06.V1, a) })
	core.Register("C08.v2m", func(a []string) string { return runLine(c06.V2Mem, a) })
	core.Register("C08.v2d", func(a []string) string { return runLine(c06.V2Dir, a) })
	core.Register("C08.v1nl", func(a []string) string { return runScenarioLine(parseNoLink(a)) })
	core.RegisterProp("C08", run)
}
