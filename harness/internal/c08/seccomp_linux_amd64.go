package c08

// Faults of fsync(2) and close(2) INSIDE DirectoryBackend.Put and FileStorage.Copy: a seccomp filter makes the
// system call return EIO for every thread of the process, for good – so each such line gets a child process of
// its own (`vh exec-op` through r.ImplIsolated) that installs the filter right before the call under test and
// exits after reporting what the call returned and what it left in the directory.

import (
	"fmt"
	"os"
	"path/filepath"
	"strings"
	"syscall"
	"time"
	"unsafe"

	fsv1 "github.com/cossacklabs/acra/keystore/filesystem"
	v2backend "github.com/cossacklabs/acra/keystore/v2/keystore/filesystem/backend"

	"verifharness/internal/core"
)

type sockFilter struct {
	Code uint16
	Jt   uint8
	Jf   uint8
	K    uint32
}

type sockFprog struct {
	Len    uint16
	_      [6]byte
	Filter *sockFilter
}

// failSyscall: from now on system call nr with first argument >= minArg0 returns EIO in this process.
func failSyscall(nr, minArg0 uint32) error {
	const (
		ldAbsW   = 0x20 // BPF_LD|BPF_W|BPF_ABS
		jeq      = 0x15
		jge      = 0x35
		ret      = 0x06
		allow    = 0x7fff0000
		retErrno = 0x00050000
		archX64  = 0xc000003e
	)
	prog := []sockFilter{
		{ldAbsW, 0, 0, 4}, {jeq, 1, 0, archX64}, {ret, 0, 0, allow},
		{ldAbsW, 0, 0, 0}, {jeq, 0, 3, nr},
		{ldAbsW, 0, 0, 16}, {jge, 0, 1, minArg0}, {ret, 0, 0, retErrno | uint32(syscall.EIO)},
		{ret, 0, 0, allow},
	}
	fp := sockFprog{Len: uint16(len(prog)), Filter: &prog[0]}
	if _, _, e := syscall.RawSyscall6(syscall.SYS_PRCTL, 38 /* PR_SET_NO_NEW_PRIVS */, 1, 0, 0, 0, 0); e != 0 {
		return e
	}
	if _, _, e := syscall.RawSyscall(317 /* seccomp */, 1 /* SECCOMP_SET_MODE_FILTER */, 1 /* TSYNC */, uintptr(unsafe.Pointer(&fp))); e != 0 {
		return e
	}
	return nil
}

func installSec(what string) {
	if os.Getenv(secChildEnv) == "" {
		panic("harness: a seccomp line must run in a child process of its own")
	}
	var err error
	switch what {
	case "fsync":
		err = failSyscall(syscall.SYS_FSYNC, 0)
	case "close":
		err = failSyscall(syscall.SYS_CLOSE, 3)
	default:
		panic("harness: bad system call " + what)
	}
	if err != nil {
		panic("harness: seccomp: " + err.Error())
	}
}

const secChildEnv = "VERIF_C08_SEC_CHILD"

// C08.putsec <fsync|close> <len> → <outcome>;<file at the OS path>
func opPutSec(a []string) string {
	root, err := os.MkdirTemp("", "verif-putsec-")
	if err != nil {
		panic("harness: " + err.Error())
	}
	defer os.RemoveAll(root)
	os.Chmod(root, 0o700)
	be, err := v2backend.CreateDirectoryBackend(root)
	if err != nil {
		panic("harness: " + err.Error())
	}
	const key = "client/alice/storage-sym.keyring.new"
	data := sysData(core.Atoi(a[1]))
	installSec(a[0])
	e := be.Put(key, data)
	return outcome(e) + ";" + fileState(filepath.Join(root, key), data)
}

// C08.copysec <fsync|close> <len> → <outcome>;<destination>
func opCopySec(a []string) string {
	root, err := os.MkdirTemp("", "verif-copysec-")
	if err != nil {
		panic("harness: " + err.Error())
	}
	defer os.RemoveAll(root)
	data := sysData(core.Atoi(a[1]))
	src, dst := filepath.Join(root, "key"), filepath.Join(root, "key.old")
	if err := os.WriteFile(src, data, 0o600); err != nil {
		panic("harness: " + err.Error())
	}
	installSec(a[0])
	e := (&fsv1.FileStorage{}).Copy(src, dst)
	return outcome(e) + ";" + fileState(dst, data)
}

func init() {
	core.Register("C08.putsec", opPutSec)
	core.Register("C08.copysec", opCopySec)
}

// runSec: fsync / close failing inside Put and Copy, one child per line.
func runSec(r *core.Run) {
	os.Setenv(secChildEnv, "1")
	defer os.Unsetenv(secChildEnv)
	lens := []int{76}
	if r.Thorough() {
		lens = []int{1, 76, 5000}
	}
	for _, n := range lens {
		for _, what := range []string{"fsync", "close"} {
			for _, prim := range []string{"put", "copy"} {
				line := fmt.Sprintf("C08.%ssec %s %d", prim, what, n)
				r.Begin(line, true, "stream:boundary", "scenario:"+prim+"-syscalls", "fault:"+what)
				out := r.ImplIsolated(line, 60*time.Second)
				if out == core.Panic || out == "timeout" || out == "oom" {
					r.Fail("panic-under-fault:sys", "the line makes the process die or panic: "+line+" => "+out)
					continue
				}
				if os.Getenv("VERIF_IMPL_ONLY") == "" {
					r.Diff(line, out)
				}
				f := strings.Split(out, ";")
				if len(f) != 2 {
					panic("harness: bad answer of " + line + ": " + out)
				}
				what2 := fmt.Sprintf("of %d bytes with every %s(2) failing (EIO)", n, what)
				if prim == "put" {
					if f[0] == "err" {
						r.Check(f[1] == "absent", "put-error-leaves-file:v2", "DirectoryBackend.Put "+what2+" returned an error and left the path as '"+f[1]+"': a failed Put must leave no file behind – the exclusive create refuses every later write")
					} else {
						r.Check(f[1] == "data", "put-ok-incomplete:v2", "DirectoryBackend.Put "+what2+" returned nil but the path holds '"+f[1]+"'")
					}
					continue
				}
				if f[0] == "ok" {
					r.Check(f[1] == "data", "copy-success-on-partial-copy:v1", "FileStorage.Copy "+what2+" returned nil but the destination holds '"+f[1]+"'")
				} else {
					r.Check(f[1] == "absent", "v1:partial-history-copy", "FileStorage.Copy "+what2+" returned an error and left '"+f[1]+"' under the destination name")
				}
			}
		}
	}
}
