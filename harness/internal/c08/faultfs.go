// Package c08: fault injection on the real keystores (property C08 – a crash or I/O failure during a
// keystore write never loses or corrupts keys).
//
// faultfs: wrappers around the injectable storage interfaces of both formats (v1 filesystem.Storage,
// v2 api.Backend). A wrapper logs every call in canonical form and, when armed, makes the k-th call
// of the operation under test fail in one of four ways: return an error (without performing the
// call), crash just before it, crash just after it, or tear it (write a strict prefix, then crash).
// A crash is a panic with a private sentinel that the harness recovers; the handle is abandoned and
// the storage is reopened, exactly what a process restart sees.
package c08

import (
	"errors"
	"os"
	"path/filepath"
	"sort"
	"strconv"
	"strings"
	"syscall"

	fsv1 "github.com/cossacklabs/acra/keystore/filesystem"
	backendapi "github.com/cossacklabs/acra/keystore/v2/keystore/filesystem/backend/api"

	"verifharness/internal/c06"
)

type Mode string

const (
	ModeNone        Mode = "none"
	ModeErr         Mode = "err"
	ModeCrashBefore Mode = "cb"
	ModeCrashAfter  Mode = "ca"
	ModeTorn        Mode = "torn"
)

// Mode "sys<n>" (v2, directory back end): the faulted call is a Put and the REAL DirectoryBackend.Put runs
// under a file size limit of n bytes (RLIMIT_FSIZE, SIGXFSZ ignored), so write(2) stores n bytes and then
// fails with EFBIG INSIDE Put, after the exclusive create. The process survives; Put returns an error.
func (m Mode) sysLimit() (uint64, bool) {
	if !strings.HasPrefix(string(m), "sys") {
		return 0, false
	}
	n, err := strconv.ParseUint(string(m)[3:], 10, 32)
	return n, err == nil
}

type crashSignal struct{}

var errInjected = errors.New("injected I/O failure")

// Injector is shared by the wrappers of one World.
type Injector struct {
	Armed bool
	Mode  Mode
	K     int
	n     int
	Calls []string
	Fired bool
	// FiredCall is the call the fault was delivered at
	FiredCall string
	Dead      bool // the process has "crashed": calls made while the panic unwinds (deferred unlocks) never happened
	root  string
	// NoLink: the storage has no hard links – every Link fails with EPERM (v1). CopyLimited: while armed, the
	// real FileStorage.Copy runs under this file size limit (the history copy hits a full disk / quota).
	NoLink    bool
	CopyLimited bool
	CopyLimit   uint64
	// SysFailed: the call that ran under a file size limit did return an error
	SysFailed bool
}

func (in *Injector) Arm(mode Mode, k int) {
	in.Armed, in.Mode, in.K, in.n, in.Calls, in.Fired, in.Dead, in.FiredCall, in.SysFailed = true, mode, k, 0, nil, false, false, "", false
}
func (in *Injector) Disarm() { in.Armed = false }

// enter logs a call; it returns the action for this call: "" (perform), "err", "cb", "ca", "torn".
func (in *Injector) enter(call string) Mode {
	if !in.Armed {
		return ""
	}
	if in.Dead {
		return "dead"
	}
	in.Calls = append(in.Calls, call)
	i := in.n
	in.n++
	if in.Mode != ModeNone && i == in.K && !in.Fired {
		in.Fired = true
		in.FiredCall = call
		if _, isSys := in.Mode.sysLimit(); in.Mode != ModeErr && !isSys {
			in.Dead = true
		}
		return in.Mode
	}
	return ""
}

// ---------- v1 ----------

type faultStorage struct {
	fsv1.Storage
	in *Injector
}

// canonV1 maps a real path to a canonical token: "<slot>[.pub]", "<slot>.old", "<slot>.old/@<pos>",
// "tmp(<slot>)", "dir" for the key directories.
func (f *faultStorage) canon(p string) string {
	rel, err := filepath.Rel(f.in.root, p)
	if err != nil {
		return "?" + p
	}
	if rel == "." || rel == ".poison_key" {
		return "dir"
	}
	for _, s := range c06.AllSlots() {
		for _, pub := range []bool{false, true} {
			name := c06.V1PrivName(s)
			tok := s.String()
			if pub {
				name, tok = c06.V1PubName(s), tok+".pub"
			}
			switch {
			case rel == name:
				return tok
			case rel == name+".old":
				return tok + ".old"
			case strings.HasPrefix(rel, name+".old/"):
				// position of the entry in the sorted directory listing
				es, _ := os.ReadDir(filepath.Join(f.in.root, name+".old"))
				var names []string
				for _, e := range es {
					names = append(names, e.Name())
				}
				sort.Strings(names)
				base := filepath.Base(rel)
				pos := sort.SearchStrings(names, base)
				if pos < len(names) && names[pos] == base {
					return tok + ".old/@" + itoa(pos)
				}
				return tok + ".old/@new"
			}
		}
	}
	// temporary files: <name><digits>; choose the longest matching key name
	best, bestTok := "", ""
	for _, s := range c06.AllSlots() {
		for _, pub := range []bool{false, true} {
			name := c06.V1PrivName(s)
			tok := s.String()
			if pub {
				name, tok = c06.V1PubName(s), tok+".pub"
			}
			if strings.HasPrefix(rel, name) && len(name) > len(best) && allDigits(rel[len(name):]) {
				best, bestTok = name, tok
			}
		}
	}
	if best != "" {
		return "tmp(" + bestTok + ")"
	}
	return "?" + rel
}

func allDigits(s string) bool {
	if s == "" {
		return false
	}
	for _, c := range s {
		if c < '0' || c > '9' {
			return false
		}
	}
	return true
}

func itoa(i int) string { return strconv.Itoa(i) }

func (f *faultStorage) act(call string, do func() error) error {
	switch f.in.enter(call) {
	case "dead", ModeErr:
		return errInjected
	case ModeCrashBefore, ModeTorn:
		panic(crashSignal{})
	case ModeCrashAfter:
		do()
		panic(crashSignal{})
	}
	return do()
}

func (f *faultStorage) Stat(p string) (fi os.FileInfo, err error) {
	err = f.act("Stat:"+f.canon(p), func() error { fi, err = f.Storage.Stat(p); return err })
	return fi, err
}
func (f *faultStorage) Exists(p string) (ok bool, err error) {
	err = f.act("Exists:"+f.canon(p), func() error { ok, err = f.Storage.Exists(p); return err })
	return ok, err
}
func (f *faultStorage) ReadDir(p string) (fis []os.FileInfo, err error) {
	err = f.act("ReadDir:"+f.canon(p), func() error { fis, err = f.Storage.ReadDir(p); return err })
	return fis, err
}
func (f *faultStorage) MkdirAll(p string, perm os.FileMode) error {
	return f.act("MkdirAll:"+f.canon(p), func() error { return f.Storage.MkdirAll(p, perm) })
}
func (f *faultStorage) Rename(a, b string) error {
	return f.act("Rename:"+f.canon(a)+">"+f.canon(b), func() error { return f.Storage.Rename(a, b) })
}
func (f *faultStorage) TempFile(pattern string, perm os.FileMode) (name string, err error) {
	err = f.act("TempFile:"+f.canon(pattern), func() error { name, err = f.Storage.TempFile(pattern, perm); return err })
	return name, err
}
func (f *faultStorage) Link(a, b string) error {
	return f.act("Link:"+f.canon(a), func() error {
		if f.in.NoLink {
			return &os.LinkError{Op: "link", Old: a, New: b, Err: syscall.EPERM}
		}
		return f.Storage.Link(a, b)
	})
}
func (f *faultStorage) Copy(a, b string) error {
	return f.act("Copy:"+f.canon(a), func() error {
		if f.in.Armed && f.in.CopyLimited {
			var err error
			withFileSizeLimit(f.in.CopyLimit, func() { err = f.Storage.Copy(a, b) })
			f.in.Fired, f.in.FiredCall, f.in.SysFailed = true, "Copy:"+f.canon(a), err != nil
			return err
		}
		return f.Storage.Copy(a, b)
	})
}
func (f *faultStorage) ReadFile(p string) (b []byte, err error) {
	err = f.act("ReadFile:"+f.canon(p), func() error { b, err = f.Storage.ReadFile(p); return err })
	return b, err
}
func (f *faultStorage) WriteFile(p string, data []byte, perm os.FileMode) error {
	call := "WriteFile:" + f.canon(p)
	switch f.in.enter(call) {
	case "dead", ModeErr:
		return errInjected
	case ModeCrashBefore:
		panic(crashSignal{})
	case ModeCrashAfter:
		f.Storage.WriteFile(p, data, perm)
		panic(crashSignal{})
	case ModeTorn:
		f.Storage.WriteFile(p, data[:len(data)/2], perm)
		panic(crashSignal{})
	}
	return f.Storage.WriteFile(p, data, perm)
}
func (f *faultStorage) Remove(p string) error {
	return f.act("Remove:"+f.canon(p), func() error { return f.Storage.Remove(p) })
}

// ---------- v2 ----------

type faultBackend struct {
	backendapi.Backend
	in *Injector
}

func ringTok(p string) string {
	for _, s := range c06.AllSlots() {
		base := c06.V2RingPath(s) + ".keyring"
		if p == base {
			return s.String()
		}
		if p == base+".new" {
			return s.String() + ".new"
		}
	}
	return "?" + p
}

func (b *faultBackend) act(call string, do func() error) error {
	m := b.in.enter(call)
	if _, isSys := m.sysLimit(); isSys {
		panic("harness: a file size limit fault (" + string(m) + ") at a back-end call that is not Put: " + call)
	}
	switch m {
	case "dead", ModeErr:
		return errInjected
	case ModeCrashBefore, ModeTorn:
		panic(crashSignal{})
	case ModeCrashAfter:
		do()
		panic(crashSignal{})
	}
	return do()
}

func (b *faultBackend) Get(p string) (d []byte, err error) {
	err = b.act("Get:"+ringTok(p), func() error { d, err = b.Backend.Get(p); return err })
	return d, err
}
func (b *faultBackend) Put(p string, data []byte) error {
	call := "Put:" + ringTok(p)
	m := b.in.enter(call)
	if limit, isSys := m.sysLimit(); isSys {
		var err error
		withFileSizeLimit(limit, func() { err = b.Backend.Put(p, data) })
		b.in.SysFailed = err != nil
		return err
	}
	switch m {
	case "dead", ModeErr:
		return errInjected
	case ModeCrashBefore:
		panic(crashSignal{})
	case ModeCrashAfter:
		b.Backend.Put(p, data)
		panic(crashSignal{})
	case ModeTorn:
		b.Backend.Put(p, data[:len(data)/2])
		panic(crashSignal{})
	}
	return b.Backend.Put(p, data)
}
func (b *faultBackend) ListAll() (l []string, err error) {
	err = b.act("ListAll", func() error { l, err = b.Backend.ListAll(); return err })
	return l, err
}
func (b *faultBackend) Rename(a, c string) error {
	return b.act("Rename:"+ringTok(a), func() error { return b.Backend.Rename(a, c) })
}
func (b *faultBackend) RenameNX(a, c string) error {
	return b.act("RenameNX:"+ringTok(a), func() error { return b.Backend.RenameNX(a, c) })
}
func (b *faultBackend) Lock() error    { return b.act("Lock", b.Backend.Lock) }
func (b *faultBackend) Unlock() error  { return b.act("Unlock", b.Backend.Unlock) }
func (b *faultBackend) RLock() error   { return b.act("RLock", b.Backend.RLock) }
func (b *faultBackend) RUnlock() error { return b.act("RUnlock", b.Backend.RUnlock) }
