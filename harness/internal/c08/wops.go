package c08

import (
	"bytes"
	"context"
	"crypto/rand"
	"encoding/gob"
	"fmt"
	"strconv"
	"strings"
	"time"

	"github.com/cossacklabs/themis/gothemis/keys"

	"github.com/cossacklabs/acra/keystore"
	fsv1 "github.com/cossacklabs/acra/keystore/filesystem"
	v2 "github.com/cossacklabs/acra/keystore/v2/keystore"
	v2api "github.com/cossacklabs/acra/keystore/v2/keystore/api"
	"github.com/cossacklabs/acra/keystore/v2/keystore/asn1"
	v2fs "github.com/cossacklabs/acra/keystore/v2/keystore/filesystem"
	v2backend "github.com/cossacklabs/acra/keystore/v2/keystore/filesystem/backend"
	backendapi "github.com/cossacklabs/acra/keystore/v2/keystore/filesystem/backend/api"

	"verifharness/internal/c06"
)

// ---------- the write operation under test ----------

// impItem is one unit of an import: a v1 key FILE (private/symmetric file of a slot, or the .pub file
// of a pair) or a v2 key RING.
type impItem struct {
	Slot c06.Slot
	Pub  bool
}

func (it impItem) String() string {
	if it.Pub {
		return it.Slot.String() + ".pub"
	}
	return it.Slot.String()
}

type wop struct {
	Kind  string // g dc dr (C06 ops) | i io m (import / migration) | h (ring handle operation)
	Slot  c06.Slot
	Idx   int
	Items []impItem
	Hop   string
	Tok   string
}

func parseWop(t string) (wop, bool) {
	if op, ok := c06.ParseOp(t); ok {
		switch op.Kind {
		case "g", "dc", "dr":
			return wop{Kind: op.Kind, Slot: op.Slot, Idx: op.Idx, Tok: t}, true
		}
		return wop{}, false
	}
	f := strings.SplitN(t, ":", 2)
	if len(f) != 2 {
		return wop{}, false
	}
	switch f[0] {
	case "i", "io", "m":
		w := wop{Kind: f[0], Tok: t}
		for _, p := range strings.Split(f[1], "+") {
			it := impItem{}
			if strings.HasSuffix(p, ".pub") {
				it.Pub, p = true, strings.TrimSuffix(p, ".pub")
			}
			s, ok := c06.ParseSlot(p)
			if !ok || (it.Pub && !s.IsPair()) {
				return wop{}, false
			}
			it.Slot = s
			w.Items = append(w.Items, it)
		}
		return w, len(w.Items) > 0
	case "h":
		g := strings.SplitN(f[1], ":", 2)
		if len(g) != 2 {
			return wop{}, false
		}
		s, ok := c06.ParseSlot(g[0])
		if !ok || !validHop(g[1]) {
			return wop{}, false
		}
		return wop{Kind: "h", Slot: s, Hop: g[1], Tok: t}, true
	}
	return wop{}, false
}

func validHop(h string) bool {
	if h == "A" {
		return true
	}
	if len(h) >= 2 && (h[0] == 'C' || h[0] == 'D') {
		_, err := strconv.Atoi(h[1:])
		return err == nil
	}
	return false
}

// slots the operation writes to, in first-occurrence order
func (o wop) slots() []c06.Slot {
	if len(o.Items) == 0 {
		return []c06.Slot{o.Slot}
	}
	seen := map[c06.Slot]bool{}
	var out []c06.Slot
	for _, it := range o.Items {
		if !seen[it.Slot] {
			seen[it.Slot] = true
			out = append(out, it.Slot)
		}
	}
	return out
}

func (o wop) isImport() bool { return o.Kind == "i" || o.Kind == "io" || o.Kind == "m" }

// ---------- import: sources and bundles ----------

var (
	bundleEnc = []byte("c08-import-bundle-access-enc-32b")
	bundleSig = []byte("c08-import-bundle-access-sig-32b")
)

// prepared holds what an operation needs besides the store under test; built before the fault is armed.
type prepared struct {
	src      *c06.World            // source store of an import (v1 for "m" and v1 "i", v2 for v2 "i"/"io")
	vals     map[c06.Slot]c06.Truth // the source's key values
	backupV1 *keystore.KeysBackup
	bundleV2 []byte
	ring     v2api.MutableKeyRing // h: the handle
	closers  []func()
}

func (p *prepared) close() {
	for _, c := range p.closers {
		c()
	}
	if p.src != nil {
		p.src.Close()
	}
}

func newSource(f c06.Format, slots []c06.Slot) (*c06.World, map[c06.Slot]c06.Truth) {
	src, err := c06.NewWorld(f, -1)
	if err != nil {
		panic("harness: " + err.Error())
	}
	if err := src.Open(); err != nil {
		panic("harness: cannot open the import source: " + err.Error())
	}
	vals := map[c06.Slot]c06.Truth{}
	for _, s := range slots {
		if err := c06.Gen(src.H, s); err != nil {
			panic("harness: cannot generate a key in the import source: " + err.Error())
		}
		vals[s] = src.TruthOf(s)
	}
	return src, vals
}

// v1Bundle builds the container KeyBackuper.Export produces (gob list of named keys, sealed with a
// fresh access key) holding exactly the given key files in the given order.
func v1Bundle(items []impItem, vals map[c06.Slot]c06.Truth) *keystore.KeysBackup {
	var ks []*keystore.Key
	for _, it := range items {
		name, content := c06.V1PrivName(it.Slot), vals[it.Slot].CurPriv
		if it.Pub {
			name, content = c06.V1PubName(it.Slot), vals[it.Slot].CurPub
		}
		ks = append(ks, &keystore.Key{Name: name, Content: append([]byte{}, content...)})
	}
	buf := &bytes.Buffer{}
	if err := gob.NewEncoder(buf).Encode(ks); err != nil {
		panic("harness: " + err.Error())
	}
	key, err := keystore.GenerateSymmetricKey()
	if err != nil {
		panic("harness: " + err.Error())
	}
	enc, err := keystore.NewSCellKeyEncryptor(key)
	if err != nil {
		panic("harness: " + err.Error())
	}
	data, err := enc.Encrypt(context.Background(), buf.Bytes(), keystore.NewEmptyKeyContext(nil))
	if err != nil {
		panic("harness: " + err.Error())
	}
	return &keystore.KeysBackup{Data: data, Keys: key}
}

type overwriteDelegate struct{}

func (overwriteDelegate) DecideKeyRingOverwrite(currentData, newData *asn1.KeyRing) (v2api.ImportDecision, error) {
	return v2api.ImportOverwrite, nil
}

func v2store(w *c06.World) *v2.ServerKeyStore {
	sks, ok := any(w.H).(*v2.ServerKeyStore)
	if !ok {
		panic("harness: not a v2 store")
	}
	return sks
}

func prepare(w *c06.World, op wop) *prepared {
	p := &prepared{}
	switch op.Kind {
	case "i", "io":
		if w.Format == c06.V1 {
			p.src, p.vals = newSource(c06.V1, op.slots())
			p.backupV1 = v1Bundle(op.Items, p.vals)
			return p
		}
		p.src, p.vals = newSource(c06.V2Mem, op.slots())
		suite, err := v2.NewSCellSuite(bundleEnc, bundleSig)
		if err != nil {
			panic("harness: " + err.Error())
		}
		var paths []string
		for _, it := range op.Items {
			paths = append(paths, c06.V2RingPath(it.Slot))
		}
		b, err := v2store(p.src).ExportKeyRings(paths, suite, keystore.ExportPrivateKeys)
		if err != nil {
			panic("harness: cannot export from the import source: " + err.Error())
		}
		p.bundleV2 = b
	case "m":
		p.src, p.vals = newSource(c06.V1, op.slots())
	case "h":
		ring, err := v2store(w).OpenKeyRingRW(c06.V2RingPath(op.Slot))
		if err != nil {
			panic("harness: cannot open the ring handle: " + err.Error())
		}
		p.ring = ring
	}
	return p
}

// exportedKeySlot maps a key enumerated from a v1 store to its slot.
func exportedKeySlot(k fsv1.ExportedKey) (c06.Slot, bool) {
	id := string(keystore.GetKeyContextFromContext(k.KeyContext))
	client := -1
	for i, c := range c06.ClientIDs {
		if c == id {
			client = i
		}
	}
	withClient := func(kind c06.Kind) (c06.Slot, bool) { return c06.Slot{Kind: kind, Client: client}, client >= 0 }
	switch k.KeyContext.Purpose {
	case keystore.PurposeStorageClientKeyPair:
		return withClient(c06.StoragePair)
	case keystore.PurposeStorageClientSymmetricKey:
		return withClient(c06.StorageSym)
	case keystore.PurposeSearchHMAC:
		return withClient(c06.Hmac)
	case keystore.PurposePoisonRecordKeyPair:
		return c06.Slot{Kind: c06.PoisonPair}, true
	case keystore.PurposePoisonRecordSymmetricKey:
		return c06.Slot{Kind: c06.PoisonSym}, true
	case keystore.PurposeAuditLog:
		return c06.Slot{Kind: c06.AuditLog}, true
	}
	return c06.Slot{}, false
}

// runWop performs the operation under test on the real code (the injector is armed by the caller).
func runWop(w *c06.World, in *Injector, op wop, p *prepared) error {
	switch op.Kind {
	case "g":
		return c06.Gen(w.H, op.Slot)
	case "dc":
		return c06.DestroyCur(w.H, op.Slot)
	case "dr":
		return c06.DestroyRot(w.H, op.Slot, op.Idx)
	case "i", "io":
		if w.Format == c06.V1 {
			ks, ok := any(w.H).(*fsv1.KeyStore)
			if !ok {
				panic("harness: not a v1 store")
			}
			enc, _ := keystore.NewSCellKeyEncryptor(c06.MasterKey)
			b, err := fsv1.NewKeyBackuper(w.Dir, "", &faultStorage{&fsv1.DummyStorage{}, in}, enc, ks)
			if err != nil {
				panic("harness: " + err.Error())
			}
			_, err = b.Import(p.backupV1)
			return err
		}
		suite, _ := v2.NewSCellSuite(bundleEnc, bundleSig)
		var delegate v2api.KeyRingImportDelegate
		if op.Kind == "io" {
			delegate = overwriteDelegate{}
		}
		_, err := v2store(w).ImportKeyRings(p.bundleV2, suite, delegate)
		return err
	case "m":
		srcKS, ok := any(p.src.H).(*fsv1.KeyStore)
		if !ok {
			panic("harness: migration source is not a v1 store")
		}
		ks, err := fsv1.EnumerateExportedKeys(srcKS)
		if err != nil {
			panic("harness: cannot enumerate the migration source: " + err.Error())
		}
		by := map[c06.Slot]fsv1.ExportedKey{}
		for _, k := range ks {
			if s, ok := exportedKeySlot(k); ok {
				by[s] = k
			}
		}
		// MigrateV1toV2: go on with the remaining keys after an error, fail as a whole at the end
		var first error
		for _, it := range op.Items {
			k, ok := by[it.Slot]
			if !ok {
				panic("harness: the migration source has no key for " + it.Slot.String())
			}
			if err := v2store(w).ImportKeyFileV1(srcKS, k); err != nil && first == nil {
				first = err
			}
		}
		return first
	case "h":
		return runHop(p.ring, op.Slot, op.Hop, nil)
	}
	panic("harness: not a write op: " + op.Tok)
}

// ---------- ring handle operations ----------

// runHop performs one operation on a kept ring handle. reg (when not nil) receives the key material an
// AddKey was given.
func runHop(ring v2api.MutableKeyRing, s c06.Slot, hop string, reg func(priv, pub []byte)) error {
	switch hop[0] {
	case 'A':
		now := time.Now()
		desc := v2api.KeyDescription{ValidSince: now, ValidUntil: now.Add(365 * 24 * time.Hour)}
		var priv, pub []byte
		if s.IsPair() {
			kp, err := keys.New(keys.TypeEC)
			if err != nil {
				panic("harness: " + err.Error())
			}
			priv, pub = kp.Private.Value, kp.Public.Value
			desc.Data = []v2api.KeyData{{Format: v2api.ThemisKeyPairFormat, PublicKey: pub, PrivateKey: priv}}
		} else {
			priv = make([]byte, 32)
			if _, err := rand.Read(priv); err != nil {
				panic("harness: " + err.Error())
			}
			desc.Data = []v2api.KeyData{{Format: v2api.ThemisSymmetricKeyFormat, SymmetricKey: priv}}
		}
		if reg != nil {
			reg(append([]byte{}, priv...), append([]byte{}, pub...))
		}
		_, err := ring.AddKey(desc)
		return err
	case 'C':
		q, _ := strconv.Atoi(hop[1:])
		return ring.SetCurrent(q)
	case 'D':
		q, _ := strconv.Atoi(hop[1:])
		return ring.DestroyKey(q)
	}
	panic("harness: bad handle op " + hop)
}

// ringKey is one key of a stored ring, read through the low-level ring API on an unwrapped back end.
type ringKey struct {
	Seq      int
	State    v2api.KeyState
	Material []byte // nil: no readable key data
}

type ringView struct {
	FileExists bool // <ring>.keyring is in the back end
	Opens      bool // … and verifies
	Current    int  // 0 = none
	Keys       []ringKey
}

func rawBackend(w *c06.World) (backendapi.Backend, func()) {
	if w.Format == c06.V2Mem {
		return w.Mem, func() {}
	}
	d, err := v2backend.CreateDirectoryBackend(w.Dir)
	if err != nil {
		panic("harness: " + err.Error())
	}
	return d, func() { d.Close() }
}

func viewRing(w *c06.World, s c06.Slot) ringView {
	var v ringView
	be, done := rawBackend(w)
	defer done()
	if _, err := be.Get(c06.V2RingPath(s) + ".keyring"); err == nil {
		v.FileExists = true
	}
	suite, _ := v2.NewSCellSuite(c06.MasterKey, c06.SignKey)
	ks, err := v2fs.CustomKeyStore(be, suite)
	if err != nil {
		panic("harness: " + err.Error())
	}
	ring, err := ks.OpenKeyRing(c06.V2RingPath(s))
	if err != nil {
		return v
	}
	v.Opens = true
	if c, err := ring.CurrentKey(); err == nil {
		v.Current = c
	}
	seqs, _ := ring.AllKeys()
	for i := len(seqs) - 1; i >= 0; i-- { // oldest first
		q := seqs[i]
		k := ringKey{Seq: q}
		k.State, _ = ring.State(q)
		if s.IsPair() {
			k.Material, _ = ring.PrivateKey(q, v2api.ThemisKeyPairFormat)
		} else {
			k.Material, _ = ring.SymmetricKey(q, v2api.ThemisSymmetricKeyFormat)
		}
		v.Keys = append(v.Keys, k)
	}
	return v
}

func (v ringView) String() string {
	if !v.FileExists {
		return "absent"
	}
	if !v.Opens {
		return "unreadable"
	}
	var p []string
	for _, k := range v.Keys {
		d := "data"
		if k.Material == nil {
			d = "nodata"
		}
		p = append(p, fmt.Sprintf("%d:%v:%s", k.Seq, k.State, d))
	}
	return fmt.Sprintf("cur=%d[%s]", v.Current, strings.Join(p, " "))
}

// ringOrderV2 finds the order in which ImportKeyRings processes the rings of a bundle holding a one-key
// ring for each of the slots: the container keeps its rings as an ASN.1 SET OF, i.e. sorted by their
// encodings, which depend on the kinds and owners of the keys only. Found by a trial import into a scratch
// in-memory store through the call-logging back end.
func ringOrderV2(slots []c06.Slot) []c06.Slot {
	op := wop{Kind: "i"}
	for _, s := range slots {
		op.Items = append(op.Items, impItem{Slot: s})
	}
	w, err := c06.NewWorld(c06.V2Mem, -1)
	if err != nil {
		panic("harness: " + err.Error())
	}
	defer w.Close()
	in := &Injector{}
	w.WrapBackend = func(b backendapi.Backend) backendapi.Backend { return &faultBackend{b, in} }
	if err := w.Open(); err != nil {
		panic("harness: " + err.Error())
	}
	p := prepare(w, op)
	defer p.close()
	in.Arm(ModeNone, 0)
	if err := runWop(w, in, op, p); err != nil {
		panic("harness: trial import fails: " + err.Error())
	}
	in.Disarm()
	var out []c06.Slot
	seen := map[string]bool{}
	for _, c := range in.Calls {
		if strings.HasPrefix(c, "Get:") && !seen[c] {
			seen[c] = true
			if s, ok := c06.ParseSlot(strings.TrimPrefix(c, "Get:")); ok {
				out = append(out, s)
			}
		}
	}
	if len(out) != len(slots) {
		panic(fmt.Sprintf("harness: trial import touched %d rings, expected %d", len(out), len(slots)))
	}
	return out
}
