package c08

import (
	"fmt"
	"os"
	"strings"

	"verifharness/internal/c06"
	"verifharness/internal/core"
)

func doScenario(r *core.Run, sc Scenario, tags ...string) Result {
	line := sc.Line()
	r.Begin(line, sc.Mode != ModeNone, append(tags, "format:"+fmtName(sc.Format), "mode:"+string(sc.Mode), "op:"+strings.SplitN(sc.Op, ":", 2)[0])...)
	var out string
	if os.Getenv("VERIF_IMPL_ONLY") != "" {
		out = r.Impl(line)
	} else {
		out = r.Do(line)
	}
	res := takeResult()
	r.Tag("outcome:" + res.Outcome)
	for _, fd := range res.Findings {
		r.Fail(fd.Class, fd.Desc+"   [scenario: "+line+"] => "+out)
	}
	return res
}

// followUps: reads of everything in play, listings, and a further write to every slot in play.
func followUps(slots []c06.Slot) []string {
	var f []string
	for _, s := range slots {
		f = append(f, "c:"+s.String())
		if s.IsPair() {
			f = append(f, "p:"+s.String())
		}
		if s.HasAll() {
			f = append(f, "a:"+s.String())
		}
	}
	f = append(f, "l", "r")
	for _, s := range slots {
		f = append(f, "g:"+s.String(), "c:"+s.String())
		if s.HasAll() {
			f = append(f, "a:"+s.String())
		}
	}
	return append(f, "l", "r")
}

// enumerate runs the operation without a fault to learn its call count, then every call index in
// every mode.
func enumerate(r *core.Run, f c06.Format, cache int, hist []string, op string, tags ...string) {
	slots := slotsOf(append(append([]string{}, hist...), op))
	fu := followUps(slots)
	base := Scenario{Format: f, Cache: cache, Mode: ModeNone, K: 0, History: hist, Op: op, Follow: fu}
	res := doScenario(r, base, append(tags, "fault:none")...)
	modes := []Mode{ModeErr, ModeCrashBefore, ModeCrashAfter, ModeTorn}
	for k, call := range res.Calls {
		for _, m := range modes {
			if m == ModeTorn && !strings.HasPrefix(call, "WriteFile:") && !strings.HasPrefix(call, "Put:") {
				continue
			}
			if f == c06.V2Mem {
				// the in-memory back end lives in the process: only returned errors make sense, and
				// its unlock calls cannot fail without leaving the mutex held
				if m != ModeErr || call == "Unlock" || call == "RUnlock" {
					continue
				}
			}
			sc := base
			sc.Mode, sc.K = m, k
			doScenario(r, sc, append(tags, "call:"+strings.SplitN(call, ":", 2)[0])...)
		}
	}
}

// Corpus: witnesses of the defects found (all known findings), run first.
var Corpus = []Scenario{
	{Format: c06.V2Dir, Cache: -1, Mode: ModeCrashAfter, K: 2, History: []string{"g:ss0"}, Op: "g:ss0", Follow: []string{"c:ss0", "a:ss0", "l", "g:ss0", "c:ss0"}},
	{Format: c06.V2Mem, Cache: -1, Mode: ModeErr, K: 3, History: []string{"g:ss0"}, Op: "g:ss0", Follow: []string{"c:ss0", "l", "g:ss0"}},
	{Format: c06.V1, Cache: -1, Mode: ModeCrashAfter, K: 1, History: []string{"g:ss0"}, Op: "g:ss0", Follow: []string{"c:ss0", "a:ss0", "l", "r", "g:ss0", "c:ss0"}},
	{Format: c06.V1, Cache: -1, Mode: ModeErr, K: 2, History: []string{"g:hm1"}, Op: "g:hm1", Follow: []string{"c:hm1", "l", "g:hm1", "c:hm1"}},
	{Format: c06.V1, Cache: -1, Mode: ModeCrashAfter, K: 9, History: []string{"g:sp0"}, Op: "g:sp0", Follow: []string{"c:sp0", "p:sp0", "a:sp0", "l"}},
}

func run(r *core.Run) {
	r.Rule = "fault scenarios on the real keystores through faultfs wrappers: for every write operation kind (first generation, rotation, destroy current, destroy rotated; every key kind) of v1 (filesystem.Storage) and v2 (api.Backend; directory back end for crashes, in-memory for returned errors), a fault-free run yields the operation's storage calls, then every call index is combined with every mode (error returned, crash before, crash after, torn write) after a generated history; the store is reopened and read/list/write follow-ups run; a case is non-trivial when a fault is injected; distinct by (format, history, op, call index, mode)"
	for _, sc := range Corpus {
		doScenario(r, sc, "stream:corpus")
	}
	rd := r.Rand.Fork()
	kinds := []c06.Slot{{Kind: c06.StoragePair, Client: 0}, {Kind: c06.StorageSym, Client: 1}, {Kind: c06.Hmac, Client: 2}, {Kind: c06.PoisonPair}, {Kind: c06.PoisonSym}, {Kind: c06.AuditLog}}
	formats := []c06.Format{c06.V1, c06.V2Dir, c06.V2Mem}
	// exhaustive in (op kind, call index, mode) with one fixed minimal history each
	for _, f := range formats {
		for _, s := range kinds {
			if !r.Thorough() && f != c06.V1 && (s.Kind == c06.PoisonSym || s.Kind == c06.Hmac) {
				continue // quick tier: these kinds share every v2 code path with the storage symmetric key
			}
			t := s.String()
			enumerate(r, f, -1, nil, "g:"+t, "stream:boundary", "scenario:first-generation")
			enumerate(r, f, -1, []string{"g:" + t, "g:" + t}, "g:"+t, "stream:boundary", "scenario:rotation")
			if s.CanDestroy() {
				enumerate(r, f, -1, []string{"g:" + t, "g:" + t}, "dc:"+t, "stream:boundary", "scenario:destroy-current")
				enumerate(r, f, -1, []string{"g:" + t, "g:" + t, "g:" + t}, "dr:"+t+":2", "stream:boundary", "scenario:destroy-rotated")
			}
		}
	}
	r.Exhaustive = true
	// generated histories (structured stream)
	n := r.N(6, 50)
	for i := 0; i < n; i++ {
		f := core.Pick(rd, formats)
		cache := -1
		if f == c06.V1 && rd.Chance(40) {
			cache = core.Pick(rd, []int{0, 1, 3})
		}
		hist := c06.GenSeq(rd, 3+rd.Intn(8), false)
		slots := slotsOf(hist)
		s := core.Pick(rd, slots)
		op := "g:" + s.String()
		if s.CanDestroy() {
			switch rd.Intn(4) {
			case 0:
				op = "dc:" + s.String()
			case 1:
				op = fmt.Sprintf("dr:%s:%d", s, 2+rd.Intn(2))
			}
		}
		enumerate(r, f, cache, hist, op, "stream:structured", "scenario:generated-history")
	}
}
