package c08

import (
	"fmt"
	"os"
	"strings"

	"verifharness/internal/c06"
	"verifharness/internal/core"
)

func doScenario(r *core.Run, sc Scenario, tags ...string) Result {
	line := sc.Line()
	r.Begin(line, sc.Mode != ModeNone, append(tags, "format:"+fmtName(sc.Format), "mode:"+string(sc.Mode), "op:"+strings.SplitN(sc.Op, ":", 2)[0])...)
	if len(sc.Same) > 0 {
		r.Tag("same-handle")
	}
	var out string
	if os.Getenv("VERIF_IMPL_ONLY") != "" {
		out = r.Impl(line)
	} else {
		out = r.Do(line)
	}
	res := takeResult()
	r.Tag("outcome:" + res.Outcome)
	for _, fd := range res.Findings {
		r.Fail(fd.Class, fd.Desc+"   [scenario: "+line+"] => "+out)
	}
	return res
}

// followUps: reads of everything in play, listings, and a further write to every slot in play.
func followUps(slots []c06.Slot) []string {
	var f []string
	for _, s := range slots {
		f = append(f, "c:"+s.String())
		if s.IsPair() {
			f = append(f, "p:"+s.String())
		}
		if s.HasAll() {
			f = append(f, "a:"+s.String())
		}
	}
	f = append(f, "l", "r")
	for _, s := range slots {
		f = append(f, "g:"+s.String(), "c:"+s.String())
		if s.HasAll() {
			f = append(f, "a:"+s.String())
		}
	}
	return append(f, "l", "r")
}

// sameHandleOps: what a process that got an error back does next with the same handle – reads of
// everything in play, a listing, the write again, reads again.
func sameHandleOps(slots []c06.Slot, op string) []string {
	var f []string
	reads := func() {
		for _, s := range slots {
			f = append(f, "c:"+s.String())
			if s.HasAll() {
				f = append(f, "a:"+s.String())
			}
		}
	}
	reads()
	f = append(f, "l")
	if wo, ok := parseWop(op); ok {
		for _, s := range wo.slots() {
			f = append(f, "g:"+s.String())
		}
	}
	reads()
	return f
}

// enumerate runs the operation without a fault to learn its call count, then every call index in
// every mode.
func enumerate(r *core.Run, f c06.Format, cache int, hist []string, op string, tags ...string) {
	slots := slotsOf(append(append([]string{}, hist...), op))
	enumerateBase(r, Scenario{Format: f, Cache: cache, Mode: ModeNone, K: 0, History: hist, Op: op, Follow: followUps(slots)}, tags...)
}

func enumerateBase(r *core.Run, base Scenario, tags ...string) {
	f, op := base.Format, base.Op
	slots := slotsOf(append(append([]string{}, base.History...), op))
	wo, _ := parseWop(op)
	// quick tier: returned errors with same-handle follow-ups run on v1 and on the in-memory v2 back end (which
	// only has this fault mode); the directory back end (fsync on every write) joins in the thorough tier
	generated := false
	for _, t := range tags {
		generated = generated || t == "stream:structured"
	}
	sameOK := !wo.isImport() && wo.Kind != "h" && (r.Thorough() || f != c06.V2Dir)
	res := doScenario(r, base, append(tags, "fault:none")...)
	modes := []Mode{ModeErr, ModeCrashBefore, ModeCrashAfter, ModeTorn}
	for k, call := range res.Calls {
		for _, m := range modes {
			if m == ModeTorn && !strings.HasPrefix(call, "WriteFile:") && !strings.HasPrefix(call, "Put:") {
				continue
			}
			if f == c06.V2Mem {
				// the in-memory back end lives in the process: only returned errors make sense, and
				// its unlock calls cannot fail without leaving the mutex held
				if m != ModeErr || call == "Unlock" || call == "RUnlock" {
					continue
				}
			}
			if (wo.Kind == "m" || wo.isImport()) && m == ModeErr && (call == "Unlock" || call == "RUnlock") {
				// an injected error means "not performed": migration and import go on after some of these errors
				// (next key; ErrNotExist survives a failing RUnlock) and would then wait for the lock they still hold
				continue
			}
			if !r.Thorough() && m == ModeCrashBefore && k > 0 && (wo.isImport() || generated) {
				// quick tier, long call lists: a crash just before call k leaves the storage a crash just after call k-1 leaves
				continue
			}
			sc := base
			sc.Mode, sc.K = m, k
			extra := []string{"call:" + strings.SplitN(call, ":", 2)[0]}
			if m == ModeErr && sameOK {
				// the process survives a returned error: it goes on with the SAME handle before any restart
				sc.Same = sameHandleOps(slots, op)
				extra = append(extra, "same-handle-follow-ups")
			}
			doScenario(r, sc, append(tags, extra...)...)
		}
	}
}

// Corpus: witnesses of the defects found (all known findings), run first.
var Corpus = []Scenario{
	{Format: c06.V2Dir, Cache: -1, Mode: ModeCrashAfter, K: 2, History: []string{"g:ss0"}, Op: "g:ss0", Follow: []string{"c:ss0", "a:ss0", "l", "g:ss0", "c:ss0"}},
	{Format: c06.V2Mem, Cache: -1, Mode: ModeErr, K: 3, History: []string{"g:ss0"}, Op: "g:ss0", Follow: []string{"c:ss0", "l", "g:ss0"}},
	{Format: c06.V1, Cache: -1, Mode: ModeCrashAfter, K: 1, History: []string{"g:ss0"}, Op: "g:ss0", Follow: []string{"c:ss0", "a:ss0", "l", "r", "g:ss0", "c:ss0"}},
	{Format: c06.V1, Cache: -1, Mode: ModeErr, K: 2, History: []string{"g:hm1"}, Op: "g:hm1", Follow: []string{"c:hm1", "l", "g:hm1", "c:hm1"}},
	{Format: c06.V1, Cache: -1, Mode: ModeCrashAfter, K: 9, History: []string{"g:sp0"}, Op: "g:sp0", Follow: []string{"c:sp0", "p:sp0", "a:sp0", "l"}},
}

func run(r *core.Run) {
	r.Rule = "fault scenarios on the real keystores through faultfs wrappers: for every write operation kind (first generation, rotation, destroy current, destroy rotated; every key kind) of v1 (filesystem.Storage) and v2 (api.Backend; directory back end for crashes, in-memory for returned errors), a fault-free run yields the operation's storage calls, then every call index is combined with every mode (error returned, crash before, crash after, torn write) after a generated history; the store is reopened and read/list/write follow-ups run; a case is non-trivial when a fault is injected; distinct by (format, history, op, call index, mode); faults INSIDE DirectoryBackend.Put and FileStorage.Copy: the real call runs in a child process under a file size limit (RLIMIT_FSIZE) so that write(2) fails after n bytes – the two primitives alone for sizes and limits around every boundary (compared with the system-call level model), every Put of every kind of v2 write over the directory back end, and v1 rotations on a storage without hard links whose history copy hits the limit"
	for _, sc := range Corpus {
		doScenario(r, sc, "stream:corpus")
	}
	rd := r.Rand.Fork()
	kinds := []c06.Slot{{Kind: c06.StoragePair, Client: 0}, {Kind: c06.StorageSym, Client: 1}, {Kind: c06.Hmac, Client: 2}, {Kind: c06.PoisonPair}, {Kind: c06.PoisonSym}, {Kind: c06.AuditLog}}
	formats := []c06.Format{c06.V1, c06.V2Dir, c06.V2Mem}
	// exhaustive in (op kind, call index, mode) with one fixed minimal history each
	for _, f := range formats {
		for _, s := range kinds {
			if !r.Thorough() && f != c06.V1 && (s.Kind == c06.PoisonSym || s.Kind == c06.Hmac) {
				continue // quick tier: these kinds share every v2 code path with the storage symmetric key
			}
			t := s.String()
			enumerate(r, f, -1, nil, "g:"+t, "stream:boundary", "scenario:first-generation")
			enumerate(r, f, -1, []string{"g:" + t, "g:" + t}, "g:"+t, "stream:boundary", "scenario:rotation")
			if s.CanDestroy() {
				enumerate(r, f, -1, []string{"g:" + t, "g:" + t}, "dc:"+t, "stream:boundary", "scenario:destroy-current")
				enumerate(r, f, -1, []string{"g:" + t, "g:" + t, "g:" + t}, "dr:"+t+":2", "stream:boundary", "scenario:destroy-rotated")
			}
		}
	}
	runImports(r)
	runHandles(r)
	runRotateTool(r)
	runSys(r)
	runSec(r)
	r.Exhaustive = true
	// generated histories (structured stream)
	n := r.N(4, 150)
	for i := 0; i < n; i++ {
		f := core.Pick(rd, formats)
		cache := -1
		if f == c06.V1 && rd.Chance(40) {
			cache = core.Pick(rd, []int{0, 1, 3})
		}
		hist := c06.GenSeq(rd, 3+rd.Intn(8), false)
		slots := slotsOf(hist)
		s := core.Pick(rd, slots)
		op := "g:" + s.String()
		if s.CanDestroy() {
			switch rd.Intn(4) {
			case 0:
				op = "dc:" + s.String()
			case 1:
				op = fmt.Sprintf("dr:%s:%d", s, 2+rd.Intn(2))
			}
		}
		enumerate(r, f, cache, hist, op, "stream:structured", "scenario:generated-history")
	}
}

// runImports: IMPORT as the write operation under test – v1 KeyBackuper.Import (per key file), v2
// ImportKeyRings (per ring; default and overwriting delegate), v1→v2 migration ImportKeyFileV1 (per key) –
// every storage/back-end call × every mode, into an empty store and over existing keys.
func runImports(r *core.Run) {
	type imp struct {
		f    c06.Format
		hist []string
		op   string
		tag  string
	}
	cases := []imp{
		{c06.V1, nil, "i:ss0", "first"},
		{c06.V1, []string{"g:ss0", "g:ss0"}, "i:ss0", "over-existing"},
		{c06.V1, []string{"g:hm2", "g:sp0"}, "i:ss1+hm2+sp0+sp0.pub", "multi-key"},
		{c06.V2Dir, nil, "i:ss0", "first"},
		{c06.V2Dir, []string{"g:ss0", "g:ss0"}, "io:ss0", "overwrite-existing"},
		{c06.V2Dir, []string{"g:sp1"}, "i:ss0+sp1", "multi-key-second-exists"},
		{c06.V2Dir, nil, "m:ss0", "migrate-first"},
		{c06.V2Mem, nil, "i:al", "first"},
		{c06.V2Mem, []string{"g:sp1", "g:sp1"}, "io:sp1", "overwrite-existing"},
		{c06.V2Mem, []string{"g:sp0"}, "m:sp0+hm1", "migrate-multi-key"},
	}
	if r.Thorough() {
		for _, f := range []c06.Format{c06.V2Dir, c06.V2Mem} {
			cases = append(cases,
				imp{f, []string{"g:sp1"}, "i:ss0+sp1+al", "multi-key-second-exists"},
				imp{f, []string{"g:sp0"}, "m:sp0+hm1", "migrate-multi-key"},
				imp{f, []string{"g:ss0"}, "i:ss0", "exists-abort"},
				imp{f, nil, "i:pp+ps+al", "multi-key"},
				imp{f, nil, "m:pp+ps+al+ss2", "migrate-multi-key"},
				imp{f, nil, "m:ss0", "migrate-first"},
				imp{f, nil, "i:ss0", "first"},
			)
		}
		cases = append(cases,
			imp{c06.V1, []string{"g:sp1"}, "i:sp1+sp1.pub", "pair"},
			imp{c06.V1, nil, "i:pp+pp.pub+ps+al", "multi-key"},
			imp{c06.V1, []string{"g:sp0", "g:sp0"}, "i:sp0.pub", "public-half-only"},
		)
	}
	for _, c := range cases {
		op := c.op
		if wo, ok := parseWop(op); ok && c.f != c06.V1 && (wo.Kind == "i" || wo.Kind == "io") && len(wo.Items) > 1 {
			// the bundle holds its rings in the order of their encodings: name them in that order
			var toks []string
			for _, s := range ringOrderV2(wo.slots()) {
				toks = append(toks, s.String())
			}
			op = wo.Kind + ":" + strings.Join(toks, "+")
		}
		enumerate(r, c.f, -1, c.hist, op, "stream:boundary", "scenario:import", "import:"+c.tag)
	}
}

// runHandles: ONE ring handle kept across a failed write (OpenKeyRingRW once; DestroyKey / SetCurrent /
// AddKey under the fault; then further writes through the same handle; then restart). A transaction left
// pending in the handle by the failed write would be applied by the next successful one.
func runHandles(r *core.Run) {
	hist := []string{"g:ss0", "g:ss0", "g:ss0"}
	follow := []string{"c:ss0", "a:ss0", "l", "r", "g:ss0", "c:ss0", "a:ss0"}
	type hc struct {
		hop  string
		same []string
	}
	cases := []hc{
		{"D2", []string{"A", "C4"}},
		{"D1", []string{"C2", "D1"}},
		{"C1", []string{"A", "D2"}},
		{"A", []string{"D1", "C4", "A"}},
	}
	for _, f := range []c06.Format{c06.V2Mem, c06.V2Dir} {
		for _, c := range cases {
			if !r.Thorough() && f == c06.V2Dir && c.hop != "D2" {
				continue
			}
			enumerateBase(r, Scenario{Format: f, Cache: -1, Mode: ModeNone, History: hist, Op: "h:ss0:" + c.hop, Same: c.same, Follow: follow},
				"stream:boundary", "scenario:ring-handle", "hop:"+c.hop[:1])
		}
	}
	if r.Thorough() {
		histP := []string{"g:sp1", "g:sp1"}
		enumerateBase(r, Scenario{Format: c06.V2Mem, Cache: -1, Mode: ModeNone, History: histP, Op: "h:sp1:D1", Same: []string{"A", "C3"}, Follow: []string{"c:sp1", "p:sp1", "a:sp1", "l", "g:sp1", "a:sp1"}},
			"stream:boundary", "scenario:ring-handle", "hop:D")
	}
}

// runRotateTool: cmd/acra-rotate (file variant) cut at every event of its run.
func runRotateTool(r *core.Run) {
	doRot := func(line string, modelled bool, tags ...string) rotResult {
		r.Begin(line, true, append(tags, "scenario:rotate-tool")...)
		var out string
		if modelled && os.Getenv("VERIF_IMPL_ONLY") == "" {
			out = r.Do(line)
		} else {
			out = r.Impl(line)
		}
		res := takeRot()
		for _, fd := range res.Findings {
			r.Fail(fd.Class, fd.Desc+"   [scenario: "+line+"] => "+out)
		}
		return res
	}
	ns := []int{1, 2}
	if r.Thorough() {
		ns = []int{1, 2, 3}
	}
	for _, format := range []string{"v1", "v2"} {
		for _, n := range ns {
			doRot(fmt.Sprintf("C08.rot %s none 0 %d", format, n), true, "stream:boundary", "mode:none")
			for k := 0; k <= 2*n; k++ {
				modes := []Mode{ModeErr, ModeCrashBefore, ModeCrashAfter}
				if k%2 == 1 {
					modes = []Mode{ModeCrashBefore, ModeCrashAfter} // a rewrite is an OS call: only its two sides can be cut
				}
				for _, m := range modes {
					doRot(fmt.Sprintf("C08.rot %s %s %d %d", format, m, k, n), true, "stream:boundary", "mode:"+string(m))
				}
			}
		}
		// cuts INSIDE the save of the new key pair: the model opens the save up into the key store's own write
		// operation (Rotate.saveCutV1 / saveCutV2, theorem rotate_save_cut_keeps_old_key)
		base := doRot(fmt.Sprintf("C08.rotin %s 100000 1", format), true, "stream:boundary", "mode:none")
		step := 1
		if !r.Thorough() {
			step = 3
		}
		for j := 0; j < len(base.Calls); j += step {
			doRot(fmt.Sprintf("C08.rotin %s %d 1", format, j), true, "stream:boundary", "mode:ca")
		}
	}
}
