package c08

import (
	"bytes"
	"fmt"
	"os"
	"path/filepath"
	"strings"

	"github.com/cossacklabs/themis/gothemis/keys"

	"github.com/cossacklabs/acra/acrastruct"
	"github.com/cossacklabs/acra/crypto"
	fsv1 "github.com/cossacklabs/acra/keystore/filesystem"
	backendapi "github.com/cossacklabs/acra/keystore/v2/keystore/filesystem/backend/api"

	"verifharness/internal/c06"
	"verifharness/internal/core"
	"verifharness/internal/rotatetool"
)

// The key-rotation tool (cmd/acra-rotate, file variant) under a fault.
//
//	C08.rot <v1|v2> <mode> <k> <n>
//
// One key id with n data files. The tool's run is the event list
// read 0, rewrite 0, …, read n-1, rewrite n-1, save   (k indexes it; read = the keystore read that
// decrypts file i, rewrite = ioutil.WriteFile of the re-encrypted file, save = SaveDataEncryptionKeys).
// The data files are written with plain OS calls, so only the events that pass through the keystore can
// be intercepted; a crash before/after a rewrite is the same persistent state as a crash after the
// preceding / before the following keystore event and is injected there. A WRITE ERROR of a rewrite is real:
// mode sys<n> at rewrite i lowers the process file size limit to n bytes right after the keystore read of file i
// (run in a child process), so the tool's ioutil.WriteFile truncates the file, stores n bytes and fails.
// Answer: "<outcome>;<per file: o|n|x>;<keys offered after restart, newest first: 0 | 1.0>".
//
//	C08.rotin <v1|v2> <j> <n>    (implementation only) crash right after the j-th storage call INSIDE the save

type rotKS struct {
	rotatetool.RotateStorageKeyStore
	reads     int
	at        string // "read" | "save" | ""
	index     int    // which read
	when      Mode   // err | cb | ca
	in        *Injector
	saveArm   int // ≥ 0: arm the storage injector (crash after call saveArm) during the save
	saveCalls []string
	restore   func() // undo a lowered file size limit
}

func (k *rotKS) GetServerDecryptionPrivateKeys(id []byte) ([]*keys.PrivateKey, error) {
	i := k.reads
	k.reads++
	if k.at == "read" && k.index == i {
		switch k.when {
		case ModeErr:
			return nil, errInjected
		case ModeCrashBefore:
			panic(crashSignal{})
		case ModeCrashAfter:
			k.RotateStorageKeyStore.GetServerDecryptionPrivateKeys(id)
			panic(crashSignal{})
		}
		if limit, isSys := k.when.sysLimit(); isSys {
			// the next file write of this process is the tool's rewrite of file i
			keys, err := k.RotateStorageKeyStore.GetServerDecryptionPrivateKeys(id)
			k.restore = lowerFileSizeLimit(limit)
			return keys, err
		}
	}
	return k.RotateStorageKeyStore.GetServerDecryptionPrivateKeys(id)
}

func (k *rotKS) SaveDataEncryptionKeys(id []byte, kp *keys.Keypair) error {
	if k.at == "save" {
		switch k.when {
		case ModeErr:
			return errInjected
		case ModeCrashBefore:
			panic(crashSignal{})
		case ModeCrashAfter:
			k.RotateStorageKeyStore.SaveDataEncryptionKeys(id, kp)
			panic(crashSignal{})
		}
	}
	if k.saveArm >= 0 {
		k.in.Arm(ModeCrashAfter, k.saveArm)
		defer func() { k.saveCalls = k.in.Calls; k.in.Disarm() }()
	}
	return k.RotateStorageKeyStore.SaveDataEncryptionKeys(id, kp)
}

type rotResult struct {
	Outcome  string
	Files    string
	Offered  string
	Findings []c06.Finding
	Calls    []string
}

func runRotate(format string, mode Mode, k, n int, inner int) rotResult {
	var res rotResult
	f := c06.V1
	if format == "v2" {
		f = c06.V2Dir // crashes inside a locked region would leave the in-memory back end's mutex held
	}
	w, err := c06.NewWorld(f, -1)
	if err != nil {
		panic("harness: " + err.Error())
	}
	defer w.Close()
	in := &Injector{root: w.Dir}
	w.WrapStorage = func(s fsv1.Storage) fsv1.Storage { return &faultStorage{s, in} }
	w.WrapBackend = func(b backendapi.Backend) backendapi.Backend { return &faultBackend{b, in} }
	if err := w.Open(); err != nil {
		panic("harness: " + err.Error())
	}
	s := c06.Slot{Kind: c06.StoragePair, Client: 0}
	if err := c06.Gen(w.H, s); err != nil {
		panic("harness: " + err.Error())
	}
	oldPriv, _, _ := c06.Cur(w.H, s)
	oldPub, _ := c06.Pub(w.H, s)
	dir, err := os.MkdirTemp("", "verif-rot-")
	if err != nil {
		panic("harness: " + err.Error())
	}
	defer os.RemoveAll(dir)
	var paths []string
	var plain [][]byte
	for i := 0; i < n; i++ {
		p := []byte(fmt.Sprintf("rotate-tool data file %d of %d", i, n))
		as, err := acrastruct.CreateAcrastruct(p, &keys.PublicKey{Value: oldPub}, nil)
		if err != nil {
			panic("harness: " + err.Error())
		}
		data, err := crypto.SerializeEncryptedData(as, crypto.AcraStructEnvelopeID)
		if err != nil {
			panic("harness: " + err.Error())
		}
		path := filepath.Join(dir, fmt.Sprintf("file%d.acrastruct", i))
		if err := os.WriteFile(path, data, 0o600); err != nil {
			panic("harness: " + err.Error())
		}
		paths, plain = append(paths, path), append(plain, p)
	}
	store, ok := any(w.H).(rotatetool.RotateStorageKeyStore)
	if !ok {
		panic("harness: the store is not a RotateStorageKeyStore")
	}
	ks := &rotKS{RotateStorageKeyStore: store, in: in, saveArm: -1}
	if inner >= 0 {
		ks.saveArm = inner
	} else if mode != ModeNone {
		switch {
		case strings.HasPrefix(string(mode), "sys"):
			if k%2 != 1 {
				panic("harness: a file size limit fault belongs to a rewrite event")
			}
			ks.at, ks.index, ks.when = "read", k/2, mode
		case k == 2*n:
			ks.at, ks.when = "save", mode
		case k%2 == 0:
			ks.at, ks.index, ks.when = "read", k/2, mode
		case mode == ModeCrashBefore: // before rewrite i = after read i
			ks.at, ks.index, ks.when = "read", k/2, ModeCrashAfter
		case mode == ModeCrashAfter && k/2+1 < n: // after rewrite i = before read i+1
			ks.at, ks.index, ks.when = "read", k/2+1, ModeCrashBefore
		case mode == ModeCrashAfter:
			ks.at, ks.when = "save", ModeCrashBefore
		default:
			panic("harness: a rewrite event can only be cut by cb/ca on the real tool")
		}
	}
	res.Outcome = func() (out string) {
		defer func() {
			if p := recover(); p != nil {
				if _, isCrash := p.(crashSignal); isCrash {
					out = "crash"
					return
				}
				out = "panic"
				res.Findings = append(res.Findings, c06.Finding{Class: "panic-under-fault:rotate-tool", Desc: fmt.Sprintf("rotateFiles panics: %v", p)})
			}
		}()
		if _, err := rotatetool.RotateFiles(map[string][]string{c06.ClientIDs[0]: paths}, ks, false); err != nil {
			return "err"
		}
		return "ok"
	}()
	in.Disarm()
	if ks.restore != nil {
		ks.restore()
		if res.Outcome != "err" {
			panic("harness: the file size limit did not make the rewrite of the data file fail")
		}
	}
	_, sysMode := mode.sysLimit()
	res.Calls = ks.saveCalls
	// ---- restart: what does the keystore offer, what do the files hold?
	if err := w.Open(); err != nil {
		res.Findings = append(res.Findings, c06.Finding{Class: "reopen-fails:rotate-tool", Desc: "the keystore cannot be reopened: " + err.Error()})
		return res
	}
	h, done, err := w.Fresh()
	if err != nil {
		panic("harness: " + err.Error())
	}
	defer done()
	offered, err := c06.All(h, s)
	// distinct values, newest first (a v1 crash between the backup link and the rename offers the old key twice)
	var distinct [][]byte
	for _, v := range offered {
		dup := false
		for _, d := range distinct {
			dup = dup || bytes.Equal(d, v)
		}
		if !dup {
			distinct = append(distinct, v)
		}
	}
	switch {
	case err != nil:
		res.Offered = "err"
	case len(distinct) == 1 && bytes.Equal(distinct[0], oldPriv):
		res.Offered = "0"
	case len(distinct) == 2 && bytes.Equal(distinct[1], oldPriv):
		res.Offered = "1.0"
	default:
		res.Offered = fmt.Sprintf("?%d", len(distinct))
	}
	var privs []*keys.PrivateKey
	for _, v := range offered {
		privs = append(privs, &keys.PrivateKey{Value: v})
	}
	for i, path := range paths {
		data, err := os.ReadFile(path)
		state := "x"
		var as []byte
		if err == nil {
			if inner, env, err := crypto.DeserializeEncryptedData(data); err == nil && env == crypto.AcraStructEnvelopeID {
				as = inner
				if err := acrastruct.ValidateAcraStructLength(as); err == nil {
					state = "n"
				}
				if p, err := acrastruct.DecryptAcrastruct(as, &keys.PrivateKey{Value: append([]byte{}, oldPriv...)}, nil); err == nil && bytes.Equal(p, plain[i]) {
					state = "o"
				}
			}
		}
		res.Files += state
		// the oracle: the data is recoverable with the keys the restarted keystore offers
		var got []byte
		if as != nil && len(privs) > 0 {
			cp := make([]*keys.PrivateKey, len(privs))
			for j, p := range privs {
				cp[j] = &keys.PrivateKey{Value: append([]byte{}, p.Value...)}
			}
			got, _ = acrastruct.DecryptRotatedAcrastruct(as, cp, nil)
		}
		if !bytes.Equal(got, plain[i]) {
			class := "rotate-tool:data-lost"
			// the known finding is about INTERRUPTED or FAILED runs; a complete fault-free run must leave everything readable
			if state == "n" && res.Offered == "0" && (mode != ModeNone || inner >= 0) {
				class = "rotate-tool:data-rewritten-before-key-saved"
			}
			if state == "x" && sysMode && i == k/2 {
				// the rewrite in place failed after the file was truncated
				class = "rotate-tool:data-file-torn-in-place"
			}
			res.Findings = append(res.Findings, c06.Finding{Class: class, Desc: fmt.Sprintf(
				"acra-rotate (files) cut at event %d (%s) of [read,rewrite]×%d+save, outcome %s: data file %d (state %s) can be decrypted with none of the keys the keystore offers after restart (%s)", k, mode, n, res.Outcome, i, state, res.Offered)})
		}
	}
	return res
}

var lastRot rotResult

func takeRot() rotResult {
	lastMu.Lock()
	defer lastMu.Unlock()
	r := lastRot
	lastRot = rotResult{}
	return r
}

func init() {
	core.Register("C08.rot", func(a []string) string {
		res := runRotate(a[0], Mode(a[1]), core.Atoi(a[2]), core.Atoi(a[3]), -1)
		lastMu.Lock()
		lastRot = res
		lastMu.Unlock()
		if p := os.Getenv(resultFileEnv); p != "" {
			appendResult(p, "C08.rot "+strings.Join(a, " "), Result{Outcome: res.Outcome, Findings: res.Findings})
		}
		return res.Outcome + ";" + res.Files + ";" + res.Offered
	})
	core.Register("C08.rotin", func(a []string) string {
		res := runRotate(a[0], ModeNone, 0, core.Atoi(a[2]), core.Atoi(a[1]))
		lastMu.Lock()
		lastRot = res
		lastMu.Unlock()
		calls := strings.Join(res.Calls, ",")
		if calls == "" {
			calls = "-"
		}
		return calls + ";" + res.Outcome + ";" + res.Files + ";" + res.Offered
	})
}
