package c09

import (
	"bytes"
	"fmt"
	"strings"

	"verifharness/internal/core"
	env "verifharness/internal/envops"
)

func okBytes(out string) ([]byte, bool) {
	if len(out) < 4 || out[:3] != "ok " {
		return nil, false
	}
	return core.UnHex(strings.Fields(out)[1]), true
}

// world of one client: data keys and HMAC key
type world struct {
	kv *env.KV
	hk []byte
}

func newWorld(rd *core.Rand) *world {
	return &world{kv: env.NewKV(rd, 1+rd.Intn(2), 1+rd.Intn(2)), hk: rd.Bytes(32)}
}

func (w *world) toks() string { return core.Hex(w.hk) + " " + w.kv.Tokens() }

// store one plaintext through the real SearchableDataEncryptor (and the model)
func (w *world) encrypt(r *core.Run, kind string, m []byte) ([]byte, bool) {
	return okBytes(r.Do(fmt.Sprintf("C09.encrypt %s %s %s %s", kind, w.toks(), core.Hex(m), core.Hex(env.Rnd(r.Rand)))))
}

// hashLike builds a plaintext that itself looks like a blind index (+ optional rest)
func hashLike(rd *core.Rand, rest []byte) []byte {
	return append(append([]byte{0x7f}, rd.Bytes(32)...), rest...)
}

func plain(rd *core.Rand) ([]byte, string) {
	switch rd.Intn(10) {
	case 0:
		return []byte{}, "empty"
	case 1:
		return hashLike(rd, rd.Bytes(rd.Intn(20))), "hash-like"
	case 2:
		return append([]byte{0x7f}, rd.Bytes(rd.Intn(32))...), "short-hash-like"
	}
	return env.Plain(rd, core.Pick(rd, env.Lens[:30]))
}

// envelopeLike: does the real registry handler take these bytes for an envelope (then they are
// stored as they are / decrypted for hashing instead of being protected)
func envelopeLike(r *core.Run, m []byte) bool {
	h := core.Hex(m)
	return r.Do("C01.handler.match "+h) == "true" || r.Do("C01.handler.matchkind struct "+h) == "true" || r.Do("C01.handler.matchkind block "+h) == "true"
}

func run(r *core.Run) {
	r.Rule = "blind index: plaintexts of boundary lengths/content classes (incl. empty, values that look like a hash, values that are envelopes) stored through the real SearchableDataEncryptor (both envelopes), read back through hmac.Processor wired around the real envelope detector as in proxy.go (rows of 1–4 columns through ONE processor object), DecryptRotatedSearchable*, NewHashProcessor, AcraTranslator; damaged indexes (bit flips, swapped hashes, truncation); queries: generated SELECT/UPDATE/DELETE…WHERE with literal/cast/placeholder operands through the real PostgreSQL and MySQL HashQuery observers, evaluated over the stored rows; non-trivial = a case with at least one stored searchable value; distinct by case inputs"
	regression(r)
	indexCases(r)
	processorCases(r)
	translatorCases(r)
	queryCases(r)
}

// ---------------------------------------------------------------------------------------------
// index: determinism, separation, verification
// ---------------------------------------------------------------------------------------------

func indexCases(r *core.Run) {
	rd := r.Rand
	n := r.N(150, 4000)
	for i := 0; i < n; i++ {
		w := newWorld(rd)
		kind := core.Pick(rd, []string{"struct", "block"})
		m, class := plain(rd)
		r.Begin(fmt.Sprintf("index-%s-%x", kind, m), true, "case:index", "kind:"+kind, "plain:"+class)
		h := r.Do(fmt.Sprintf("C09.hmac %s %s", core.Hex(w.hk), core.Hex(m)))
		if envelopeLike(r, m) {
			// a value that has the shape of an envelope is not protected again (correspondence only)
			r.Tag("plain:envelope-like")
			w.encrypt(r, kind, m)
			continue
		}
		s1, ok1 := w.encrypt(r, kind, m)
		s2, ok2 := w.encrypt(r, kind, m)
		if len(m) == 0 {
			// Themis cannot protect an empty message: nothing is stored (DESIGN C01 deviation)
			r.Check(!ok1 && !ok2, "empty-stored", "an empty plaintext was stored")
			continue
		}
		if !r.Check(ok1 && ok2, "encrypt-failed", "searchable encryption of a plaintext failed") {
			continue
		}
		// same client, same plaintext ⇒ same first 33 bytes = GenerateHMAC(key, plaintext); envelopes differ
		r.Check(len(s1) > 33 && bytes.Equal(s1[:33], s2[:33]) && core.Hex(s1[:33]) == h, "index-not-deterministic", "two writes of the same plaintext by the same client carry different blind indexes")
		r.Check(!bytes.Equal(s1, s2), "envelope-repeats", "two writes produced the identical stored value (randomness not used)")
		ex := r.Do("C09.extract " + core.Hex(s1))
		r.Check(strings.HasPrefix(ex, "some "+h+" "), "extract-mismatch", "ExtractHashAndData does not return the written index")
		// a different plaintext ⇒ a different index; another client's key ⇒ a different index
		m2, _ := plain(rd)
		if len(m2) > 0 && !bytes.Equal(m, m2) {
			h2 := r.Do(fmt.Sprintf("C09.hmac %s %s", core.Hex(w.hk), core.Hex(m2)))
			r.Check(h2 != h, "index-collision", "different plaintexts carry the same blind index")
		}
		w2 := newWorld(rd)
		r.Check(r.Do(fmt.Sprintf("C09.hmac %s %s", core.Hex(w2.hk), core.Hex(m))) != h, "index-key-independent", "the blind index does not depend on the client's key")
		r.Check(r.Do(fmt.Sprintf("C09.isequal %s %s %s", core.Hex(w.hk), h, core.Hex(m))) == "true", "isequal-false", "IsEqual rejects the genuine index")
		r.Check(r.Do(fmt.Sprintf("C09.isequal none %s %s", h, core.Hex(m))) == "false", "isequal-nokey", "IsEqual accepts without a key")
		// read back through every decrypt-and-verify entry point
		readers := []string{
			fmt.Sprintf("C09.hashproc %s %s", w.toks(), core.Hex(s1)),
			fmt.Sprintf("C09.tr.decrypt %s %s %s", kind, w.toks(), core.Hex(s1)),
		}
		// the library functions take the bare envelope
		bare := r.Do("C01.container.deser " + core.Hex(s1[33:]))
		if f := strings.Fields(bare); len(f) == 3 && f[0] == "ok" {
			hb := h + strings.TrimPrefix(f[1], "-")
			if kind == "struct" {
				readers = append(readers, fmt.Sprintf("C09.decrypt.struct %s %s - %s", core.Hex(w.hk), env.List(w.kv.Privs), hb))
			} else {
				readers = append(readers, fmt.Sprintf("C09.decrypt.block %s %s - %s", core.Hex(w.hk), env.List(w.kv.Syms), hb))
			}
		}
		for _, line := range readers {
			got, ok := okBytes(r.Do(line))
			r.Check(ok && bytes.Equal(got, m), "read-back", "a genuine searchable value does not decrypt to its plaintext: "+strings.Fields(line)[0])
		}
		// the same plaintext arriving ALREADY protected for this client (AcraWriter / a previous write: the value
		// is a container the registry handler recognises): it is kept as it is, and its blind index is the
		// index of the PLAINTEXT – the same one a write in clear gets, so a search finds both rows
		for _, preKind := range []string{"struct", "block"} {
			pre, okPre := env.Protect(r, preKind, w.kv, m)
			if !okPre || !envelopeLike(r, pre) {
				continue
			}
			r.Tag("plain:pre-encrypted-" + preKind)
			sp, okp := w.encrypt(r, kind, pre)
			if !r.Check(okp && len(sp) > 33, "encrypt-failed", "searchable encryption of a value that is already protected for the client failed") {
				continue
			}
			r.Check(core.Hex(sp[:33]) == h, "index-of-pre-encrypted-value-differs", fmt.Sprintf("a %s-protected value written to a searchable column carries a blind index that is not the index of its plaintext: the same plaintext written in clear and written pre-encrypted get different indexes", preKind))
			r.Check(bytes.Equal(sp[33:], pre), "pre-encrypted-value-changed", "a value that was already protected was not stored as it arrived behind its blind index")
			for _, line := range []string{
				fmt.Sprintf("C09.hashproc %s %s", w.toks(), core.Hex(sp)),
				fmt.Sprintf("C09.tr.decrypt %s %s %s", preKind, w.toks(), core.Hex(sp)),
			} {
				got, ok := okBytes(r.Do(line))
				r.Check(ok && bytes.Equal(got, m), "read-back", "a searchable value written pre-encrypted does not decrypt to its plaintext: "+strings.Fields(line)[0])
			}
			o := r.Do(fmt.Sprintf("C09.columns %s %s", w.toks(), core.Hex(sp)))
			f := strings.Fields(o)
			r.Check(len(f) == 3 && f[0] == "ok" && f[2] == core.Hex(m), "read-back", "the proxy chain does not hand the owner the plaintext of a searchable value that was written pre-encrypted: "+trunc(o))
		}
		// damaged index: never delivered as valid plaintext
		for j := 0; j < 4; j++ {
			bad := append([]byte{}, s1...)
			what := ""
			switch j {
			case 0:
				bad[1+rd.Intn(32)] ^= 1 << uint(rd.Intn(8))
				what = "bit flip in the MAC"
			case 1: // index of another plaintext in front of this envelope
				o := core.UnHex(r.Do(fmt.Sprintf("C09.hmac %s %s", core.Hex(w.hk), core.Hex(append([]byte{1}, m...)))))
				copy(bad, o)
				what = "index of another plaintext"
			case 2: // index under another client's key
				o := core.UnHex(r.Do(fmt.Sprintf("C09.hmac %s %s", core.Hex(w2.hk), core.Hex(m))))
				copy(bad, o)
				what = "index under another key"
			case 3: // same index in front of another value's envelope
				s3, ok := w.encrypt(r, kind, append([]byte{2}, m...))
				if !ok {
					continue
				}
				bad = append(append([]byte{}, s1[:33]...), s3[33:]...)
				what = "index in front of another envelope"
			}
			r.Tag("damage:" + what)
			for _, line := range []string{
				fmt.Sprintf("C09.hashproc %s %s", w.toks(), core.Hex(bad)),
				fmt.Sprintf("C09.tr.decrypt %s %s %s", kind, w.toks(), core.Hex(bad)),
			} {
				o := r.Do(line)
				r.Check(o == "err", "bad-index-accepted", fmt.Sprintf("%s: %s returned %s", what, strings.Fields(line)[0], trunc(o)))
			}
			// through the proxy's subscriber chain: the stored bytes come back, not a plaintext
			o := r.Do(fmt.Sprintf("C09.columns %s %s", w.toks(), core.Hex(bad)))
			f := strings.Fields(o)
			r.Check(len(f) == 3 && f[0] == "ok" && f[2] == core.Hex(bad), "bad-index-delivered", fmt.Sprintf("%s: the proxy chain delivered %s for a value whose index does not match", what, trunc(o)))
		}
	}
}

func trunc(s string) string {
	if len(s) > 120 {
		return s[:120] + "…"
	}
	return s
}

// ---------------------------------------------------------------------------------------------
// hmac.Processor around the envelope detector, one object across columns
// ---------------------------------------------------------------------------------------------

// colSpec: what one column holds and what its owner should get back
type colSpec struct {
	stored []byte
	want   []byte // nil = no expectation (junk)
	class  string
}

func (w *world) genColumn(r *core.Run, allowHashLike bool) (colSpec, bool) {
	rd := r.Rand
	kind := core.Pick(rd, []string{"struct", "block"})
	switch c := rd.Intn(10); {
	case c < 4: // searchable value
		m, class := plain(rd)
		if len(m) == 0 || (!allowHashLike && strings.Contains(class, "hash-like")) || envelopeLike(r, m) {
			m = []byte("value")
			class = "text"
		}
		s, ok := w.encrypt(r, kind, m)
		return colSpec{s, m, "searchable/" + class}, ok
	case c < 6: // plain (not protected) column
		m, _ := env.Plain(rd, rd.Intn(60))
		if len(m) > 0 && m[0] == 0x7f && !allowHashLike {
			m[0] = 'x'
		}
		return colSpec{m, nil, "plain"}, true
	case c < 8: // encrypted, not searchable
		m, class := plain(rd)
		if len(m) == 0 || (!allowHashLike && strings.Contains(class, "hash-like")) || envelopeLike(r, m) {
			m = []byte("secret")
		}
		s, ok := env.Protect(r, kind, w.kv, m)
		return colSpec{s, m, "encrypted"}, ok
	case c < 9: // searchable value with a damaged index
		m := rd.Bytes(1 + rd.Intn(40))
		s, ok := w.encrypt(r, kind, m)
		if ok {
			s[1+rd.Intn(32)] ^= 0x10
		}
		return colSpec{s, nil, "searchable/damaged"}, ok
	default: // text that starts with the hash function number
		return colSpec{append([]byte{0x7f}, rd.Bytes(rd.Intn(50))...), nil, "plain/7f"}, true
	}
}

func processorCases(r *core.Run) {
	rd := r.Rand
	n := r.N(200, 5000)
	for i := 0; i < n; i++ {
		w := newWorld(rd)
		// plaintexts that themselves look like a blind index (the processor's cross-column state defect)
		hl := rd.Chance(50)
		nc := 1 + rd.Intn(4)
		var cols []colSpec
		r.Begin(fmt.Sprintf("row-%d", i), true, "case:row", fmt.Sprintf("cols:%d", nc))
		good := true
		for j := 0; j < nc; j++ {
			c, ok := w.genColumn(r, hl)
			good = good && ok
			cols = append(cols, c)
			r.Tag("col:" + c.class)
		}
		if !good {
			continue
		}
		checkRow(r, w, cols)
		// single OnColumn steps: first call from a clean and from a left-over state, second call from the
		// state the first one left, on the genuine continuation and on foreign data
		for _, c := range cols {
			left := fmt.Sprintf("some:%s/some:%s/%s", core.Hex(cols[0].stored[:min(33, len(cols[0].stored))]), core.Hex(hashLike(rd, nil)), core.Hex(cols[0].stored))
			r.Do(fmt.Sprintf("C09.oncolumn %s false %s %s", core.Hex(w.hk), left, core.Hex(c.stored)))
			o := r.Do(fmt.Sprintf("C09.oncolumn %s false none/none/- %s", core.Hex(w.hk), core.Hex(c.stored)))
			f := strings.Fields(o)
			if len(f) != 4 || f[0] != "ok" {
				continue
			}
			next := c.stored
			if c.want != nil {
				next = c.want
			}
			r.Do(fmt.Sprintf("C09.oncolumn %s true %s %s", core.Hex(w.hk), f[1], core.Hex(next)))
			r.Do(fmt.Sprintf("C09.oncolumn %s true %s %s", core.Hex(w.hk), f[1], core.Hex(rd.Bytes(5))))
			r.Do(fmt.Sprintf("C09.oncolumn none true %s %s", f[1], core.Hex(next)))
		}
		// matcher on the raw pieces
		r.Do("C09.match " + core.Hex(cols[0].stored))
	}
}

// checkRow sends the columns through one processor and judges what comes out.
func checkRow(r *core.Run, w *world, cols []colSpec) {
	var stored [][]byte
	for _, c := range cols {
		stored = append(stored, c.stored)
	}
	o := r.Do(fmt.Sprintf("C09.columns %s %s", w.toks(), env.List(stored)))
	hashLikeSeen := false
	for _, c := range cols {
		if c.want != nil && len(c.want) >= 33 && c.want[0] == 0x7f {
			hashLikeSeen = true
		}
	}
	class := "processor-state"
	if hashLikeSeen {
		class = "processor-state-hashlike-plaintext"
	}
	f := strings.Fields(o)
	if o == "panic" || len(f) != 3 || f[0] != "ok" {
		r.Fail(class, "hmac.Processor: a row of "+fmt.Sprint(len(cols))+" columns through the proxy's subscriber chain ended in "+trunc(o))
		return
	}
	outs := strings.Split(f[2], ",")
	for j, c := range cols {
		if j >= len(outs) {
			break
		}
		got := core.UnHex(outs[j])
		switch {
		case c.want != nil:
			if !bytes.Equal(got, c.want) {
				r.Fail(class, fmt.Sprintf("column %d (%s): the owner does not get the plaintext back (got %d bytes, want %d)", j, c.class, len(got), len(c.want)))
			}
		case c.class == "searchable/damaged":
			if !bytes.Equal(got, c.stored) {
				r.Fail(class, fmt.Sprintf("column %d: a value with a damaged index was not handed back as stored", j))
			}
		default:
			if !bytes.Equal(got, c.stored) {
				r.Fail(class, fmt.Sprintf("column %d (%s): unprotected data was altered", j, c.class))
			}
		}
	}
}

// ---------------------------------------------------------------------------------------------
// AcraTranslator
// ---------------------------------------------------------------------------------------------

func translatorCases(r *core.Run) {
	rd := r.Rand
	n := r.N(80, 2000)
	for i := 0; i < n; i++ {
		w := newWorld(rd)
		kind := core.Pick(rd, []string{"struct", "block"})
		m, class := plain(rd)
		r.Begin(fmt.Sprintf("translator-%s-%x", kind, m), len(m) > 0, "case:translator", "kind:"+kind, "plain:"+class)
		if envelopeLike(r, m) {
			r.Tag("plain:envelope-like")
			r.Do(fmt.Sprintf("C09.tr.encrypt %s %s %s %s", kind, w.toks(), core.Hex(m), core.Hex(env.Rnd(rd))))
			continue
		}
		o := r.Do(fmt.Sprintf("C09.tr.encrypt %s %s %s %s", kind, w.toks(), core.Hex(m), core.Hex(env.Rnd(rd))))
		qh := r.Do(fmt.Sprintf("C09.tr.queryhash %s %s", core.Hex(w.hk), core.Hex(m)))
		f := strings.Fields(o)
		if len(m) == 0 {
			r.Check(o == "err", "empty-stored", "AcraTranslator protected an empty plaintext")
			continue
		}
		if !r.Check(len(f) == 3 && f[0] == "ok", "translator-encrypt", "AcraTranslator searchable encryption failed: "+trunc(o)) {
			continue
		}
		// the hash handed to the application for storage equals the hash generated for a query on the same value
		r.Check(qh == "ok "+f[2], "query-hash-differs", "GenerateQueryHash differs from the hash written by Encrypt*Searchable")
		// and equals what the SQL proxy would write
		s, ok := w.encrypt(r, kind, m)
		r.Check(ok && core.Hex(s[:33]) == f[2], "proxy-translator-differ", "AcraTranslator and the SQL proxy write different blind indexes for the same value")
		back, ok := okBytes(r.Do(fmt.Sprintf("C09.tr.decrypt %s %s %s", kind, w.toks(), f[2]+f[1])))
		r.Check(ok && bytes.Equal(back, m), "read-back", "AcraTranslator does not decrypt its own searchable value")
		// hash of another value in front: rejected
		oh := r.Do(fmt.Sprintf("C09.tr.queryhash %s %s", core.Hex(w.hk), core.Hex(append([]byte{0}, m...))))
		if strings.HasPrefix(oh, "ok ") {
			r.Check(r.Do(fmt.Sprintf("C09.tr.decrypt %s %s %s", kind, w.toks(), oh[3:]+f[1])) == "err", "bad-index-accepted", "AcraTranslator accepted a value whose hash belongs to another plaintext")
		}
		r.Do(fmt.Sprintf("C09.tr.queryhash none %s", core.Hex(m)))
	}
}
