// Package c09: implementation-side ops, generators and oracles for property C09.
package c09
