// Package c09: equality search over protected columns finds exactly the matching rows (C09).
// Implementation-side ops on the real hmac / crypto / query-observer / translator code.
package c09

import (
	"context"
	"fmt"
	"strings"

	"github.com/cossacklabs/acra/cmd/acra-translator/common"
	"github.com/cossacklabs/acra/crypto"
	"github.com/cossacklabs/acra/decryptor/base"
	"github.com/cossacklabs/acra/encryptor/base/config"
	"github.com/cossacklabs/acra/hmac"
	poisonpkg "github.com/cossacklabs/acra/poison"
	"github.com/cossacklabs/themis/gothemis/keys"

	"verifharness/internal/core"
	env "verifharness/internal/envops"
)

const clientID = "client"

// store builds the fake key store of one client: data keys + HMAC key ("none" = no HMAC key).
func store(hk string, kv *env.KV) *env.TKS {
	ks := &env.TKS{Clients: map[string]*env.KV{clientID: kv}, Hmac: map[string][]byte{}}
	if hk != "none" {
		ks.Hmac[clientID] = core.UnHex(hk)
	}
	return ks
}

var settingCache = map[string]config.ColumnEncryptionSetting{}

// searchableSetting returns a column setting `searchable: true` with the given crypto envelope.
func searchableSetting(kind string) config.ColumnEncryptionSetting {
	if s, ok := settingCache[kind]; ok {
		return s
	}
	envl := "acrastruct"
	if kind == "block" {
		envl = "acrablock"
	}
	yaml := fmt.Sprintf("schemas:\n  - table: t\n    columns:\n      - c\n    encrypted:\n      - column: c\n        searchable: true\n        crypto_envelope: %s\n", envl)
	st, err := config.MapTableSchemaStoreFromConfig([]byte(yaml), config.UseMySQL)
	if err != nil {
		panic("harness: schema: " + err.Error())
	}
	s := st.GetTableSchema("t").GetColumnEncryptionSettings("c")
	settingCache[kind] = s
	return s
}

func out(b []byte, err error) string {
	if err != nil {
		return core.Err
	}
	return core.OkHex(b)
}

func optHex(b []byte) string {
	if b == nil {
		return "none"
	}
	return "some:" + core.Hex(b)
}

func stateStr(p *hmac.Processor) string {
	h, m, r := p.VerifState()
	return optHex(h) + "/" + optHex(m) + "/" + core.Hex(r)
}

func parseOpt(s string) []byte {
	if s == "none" {
		return nil
	}
	b := core.UnHex(strings.TrimPrefix(s, "some:"))
	if b == nil {
		b = []byte{}
	}
	return b
}

func init() {
	env.Init()
	core.RegisterProp("C09", run)
	core.Register("C09.hmac", func(a []string) string {
		return core.Hex(hmac.GenerateHMAC(core.UnHex(a[0]), core.UnHex(a[1])))
	})
	core.Register("C09.extract", func(a []string) string {
		h, rest := hmac.ExtractHashAndData(core.UnHex(a[0]))
		if h == nil {
			return "none"
		}
		return fmt.Sprintf("some %s %s", core.Hex(h.Marshal()), core.Hex(rest))
	})
	core.Register("C09.isequal", func(a []string) string { // key|none hash data
		h := hmac.ExtractHash(core.UnHex(a[1]))
		if h == nil {
			panic("harness: isequal needs a well-formed hash")
		}
		ks := store(a[0], &env.KV{})
		return fmt.Sprint(h.IsEqual(core.UnHex(a[2]), []byte(clientID), ks))
	})
	// encrypt kind hkey [kv ×4] data rnd – SearchableDataEncryptor wired as in proxy.go
	core.Register("C09.encrypt", func(a []string) (res string) {
		kv := env.ParseKV(a[2:6])
		ks := store(a[1], kv)
		reg := crypto.NewRegistryHandler(ks)
		enc, err := hmac.NewSearchableEncryptor(ks, reg, reg)
		if err != nil {
			panic("harness: " + err.Error())
		}
		env.WithRand(core.UnHex(a[7]), func() {
			res = out(enc.EncryptWithClientID([]byte(clientID), core.UnHex(a[6]), searchableSetting(a[0])))
		})
		return
	})
	core.Register("C09.decrypt.struct", func(a []string) string { // hkey privs ctx data
		var ps []*keys.PrivateKey
		for _, p := range env.ParseList(a[1]) {
			ps = append(ps, &keys.PrivateKey{Value: p})
		}
		return out(hmac.DecryptRotatedSearchableAcraStruct(core.UnHex(a[3]), core.UnHex(a[0]), ps, nilIfEmpty(core.UnHex(a[2]))))
	})
	core.Register("C09.decrypt.block", func(a []string) string { // hkey keys ctx data
		return out(hmac.DecryptRotatedSearchableAcraBlock(core.UnHex(a[3]), core.UnHex(a[0]), env.ParseList(a[1]), nilIfEmpty(core.UnHex(a[2]))))
	})
	core.Register("C09.hashproc", func(a []string) string { // hkey [kv ×4] data
		kv := env.ParseKV(a[1:5])
		ks := store(a[0], kv)
		p := hmac.NewHashProcessor(crypto.NewRegistryHandler(ks), ks)
		return out(p.Process(core.UnHex(a[5]), &base.DataProcessorContext{Keystore: ks, Context: env.Ctx([]byte(clientID))}))
	})
	core.Register("C09.match", func(a []string) string {
		return "ok " + fmt.Sprint(crypto.NewEnvelopeMatcher().Match(core.UnHex(a[0])))
	})
	// oncolumn hkey second state data – one Processor.OnColumn call from a given state; second = the
	// column's context already carries the processor's mark (the subscription after the decryptors)
	core.Register("C09.oncolumn", func(a []string) string {
		ks := store(a[0], &env.KV{})
		p := hmac.NewHMACProcessor(ks)
		// MarkNotDecryptedContext stores `false`, which IsDecryptedFromContext cannot tell from "absent":
		// start from a context marked decrypted so that the processor's mark becomes visible
		ctx := base.MarkDecryptedContext(env.Ctx([]byte(clientID)))
		if a[1] == "true" {
			ctx, _, _ = p.OnColumn(ctx, nil) // leaves the mark, changes nothing else
		}
		st := strings.Split(a[2], "/")
		p.VerifSetState(parseOpt(st[0]), parseOpt(st[1]), core.UnHex(st[2]))
		ctx, o, err := p.OnColumn(ctx, core.UnHex(a[3]))
		if err != nil {
			return core.Err
		}
		return fmt.Sprintf("ok %s %s %v", stateStr(p), core.Hex(o), !base.IsDecryptedFromContext(ctx))
	})
	// columns hkey [kv ×4] cols – hmacProcessor → containerDetector → hmacProcessor per column, one Processor object
	core.Register("C09.columns", func(a []string) string {
		kv := env.ParseKV(a[1:5])
		ks := store(a[0], kv)
		p := hmac.NewHMACProcessor(ks)
		reg := crypto.NewRegistryHandler(ks)
		det := crypto.NewEnvelopeDetector()
		w := crypto.NewOldContainerDetectorWrapper(det)
		det.AddCallback(crypto.NewDecryptHandler(ks, reg))
		var outs []string
		for _, col := range env.ParseList(a[5]) {
			ctx := env.Ctx([]byte(clientID))
			ctx, d, err := p.OnColumn(ctx, col)
			if err != nil {
				return core.Err
			}
			ctx, d, err = w.OnColumn(ctx, d)
			if err != nil {
				outs = append(outs, "fatal")
				continue
			}
			_, d, err = p.OnColumn(ctx, d)
			if err != nil {
				return core.Err
			}
			outs = append(outs, core.Hex(d))
		}
		if len(outs) == 0 {
			return "ok " + stateStr(p) + " _"
		}
		return "ok " + stateStr(p) + " " + strings.Join(outs, ",")
	})
	translator := func(hk string, kv *env.KV) *common.TranslatorService {
		svc, err := common.NewTranslatorService(&common.TranslatorData{Keystorage: store(hk, kv), PoisonRecordCallbacks: poisonpkg.NewCallbackStorage()})
		if err != nil {
			panic("harness: " + err.Error())
		}
		return svc
	}
	// tr.encrypt kind hkey [kv ×4] data rnd
	core.Register("C09.tr.encrypt", func(a []string) (res string) {
		svc := translator(a[1], env.ParseKV(a[2:6]))
		env.WithRand(core.UnHex(a[7]), func() {
			var r common.SearchableResponse
			var err error
			if a[0] == "struct" {
				r, err = svc.EncryptSearchable(context.Background(), core.UnHex(a[6]), []byte(clientID), nil)
			} else {
				r, err = svc.EncryptSymSearchable(context.Background(), core.UnHex(a[6]), []byte(clientID), nil)
			}
			if err != nil {
				res = core.Err
			} else {
				res = fmt.Sprintf("ok %s %s", core.Hex(r.EncryptedData), core.Hex(r.Hash))
			}
		})
		return
	})
	// tr.decrypt kind hkey [kv ×4] data   (hash concatenated in front, the `hash == nil` form of the API)
	core.Register("C09.tr.decrypt", func(a []string) string {
		svc := translator(a[1], env.ParseKV(a[2:6]))
		if a[0] == "struct" {
			return out(svc.DecryptSearchable(context.Background(), core.UnHex(a[6]), nil, []byte(clientID), nil))
		}
		return out(svc.DecryptSymSearchable(context.Background(), core.UnHex(a[6]), nil, []byte(clientID), nil))
	})
	core.Register("C09.tr.queryhash", func(a []string) string { // hkey data
		svc := translator(a[0], &env.KV{NoPub: true, NoPrivs: true, NoSym: true, NoSyms: true})
		return out(svc.GenerateQueryHash(context.Background(), core.UnHex(a[1]), []byte(clientID), nil))
	})
}

func nilIfEmpty(b []byte) []byte {
	if len(b) == 0 {
		return nil
	}
	return b
}
