package c09

import (
	"bytes"
	"fmt"
	"strings"

	"verifharness/internal/core"
	env "verifharness/internal/envops"
)

// pool of plaintexts for one query case: a few values so that duplicates occur, a strict prefix of
// one of them, binary and printable ones
func valuePool(rd *core.Rand, printableOnly bool) [][]byte {
	words := []string{"alice", "bob", "carol", "alice@example.com", "42", "007", "x", "Zürich", "a b", "0x41", "4142", "NULL", "select"}
	var pool [][]byte
	n := 3 + rd.Intn(3)
	for len(pool) < n {
		var v []byte
		if printableOnly || rd.Chance(60) {
			v = []byte(core.Pick(rd, words))
			if !printable(v) {
				continue
			}
		} else {
			v = rd.Bytes(1 + rd.Intn(40))
			if rd.Chance(20) {
				v[0] = 0x7f
			}
		}
		pool = append(pool, v)
	}
	// a strict prefix of a pool value (searching it must not find the longer value)
	long := pool[rd.Intn(len(pool))]
	if len(long) > 1 {
		pool = append(pool, long[:1+rd.Intn(len(long)-1)])
	}
	return pool
}

type qgen struct {
	rd        *core.Rand
	dialect   string
	two       bool
	kinds     map[cellKey]byte // 's' searchable, 't' consistently tokenized, 'e' encrypted only, absent = plain
	pool      [][]byte
	params    [][]byte
	pclass    []byte          // per parameter: 's' bound to a supported comparison with a searchable column (HashQuery.OnBind hashes it), 't' with a consistently tokenized column (the tokenization observer replaces it), 'p' neither
	classes   map[string]bool // unsupported forms used
	printable bool
}

func (g *qgen) value() []byte {
	switch c := g.rd.Intn(10); {
	case c < 6:
		return core.Pick(g.rd, g.pool) // present (or the prefix)
	case c < 7:
		return []byte{} // empty
	case c < 8 && !g.printable:
		return g.rd.Bytes(1 + g.rd.Intn(20)) // absent
	default:
		return []byte("absent" + fmt.Sprint(g.rd.Intn(9)))
	}
}

// param returns a placeholder operand: a new parameter, or – sometimes – one that an earlier comparison
// of the same class already uses (`$1` twice; MySQL then spells its placeholders `:vN`). A parameter
// shared between comparisons of different classes can have only one value on the wire: outside the property.
func (g *qgen) param(class byte) *operand {
	if len(g.params) > 0 && g.rd.Chance(30) {
		i := g.rd.Intn(len(g.params))
		if g.pclass[i] == 'k' {
			// (the known-finding oracle re-spells that comparison the supported way, which changes the parameter's class)
		} else if g.pclass[i] == class {
			g.classes["shared-placeholder"] = true
			return &operand{kind: 'P', i: i}
		} else if g.rd.Chance(15) {
			g.classes["outside"] = true
			return &operand{kind: 'P', i: i}
		}
	}
	g.params = append(g.params, g.value())
	g.pclass = append(g.pclass, class)
	return &operand{kind: 'P', i: len(g.params) - 1}
}

func (g *qgen) valueOperand(class byte) *operand {
	switch c := g.rd.Intn(10); {
	case c < 3:
		return &operand{kind: 'L', v: g.value()}
	case c < 5 && g.dialect == "pg":
		return &operand{kind: 'K', v: g.value()}
	default:
		return g.param(class)
	}
}

// col picks a column of table tbl whose kind is one of `kinds` (0 = plain).
func (g *qgen) col(kinds string, tbl int) *operand {
	var cs []int
	for c := 0; c < nCols; c++ {
		if strings.IndexByte(kinds, g.kinds[cellKey{tbl, c}]) >= 0 {
			cs = append(cs, c)
		}
	}
	if len(cs) == 0 {
		return nil
	}
	return &operand{kind: 'C', tbl: tbl, col: core.Pick(g.rd, cs)}
}

const notSearchable = "te\x00"

func (g *qgen) tbl() int {
	if g.two && g.rd.Bool() {
		return 1
	}
	return 0
}

func (g *qgen) leaf() *cond {
	rd := g.rd
	eqne := func() string {
		if rd.Chance(30) {
			return "<>"
		}
		if g.dialect == "mysql" && rd.Chance(10) {
			return "<=>"
		}
		return "="
	}
	for {
		switch c := rd.Intn(100); {
		case c < 45: // searchable column = / <> value
			l := g.col("s", g.tbl())
			if l == nil {
				continue
			}
			return &cond{op: eqne(), l: l, r: g.valueOperand('s')}
		case c < 57: // consistently tokenized column = / <> value: the filter selects it, ParseSearchQueryPlaceholdersSettings lists it, HashQuery must leave it alone
			l := g.col("t", g.tbl())
			if l == nil {
				continue
			}
			return &cond{op: eqne(), l: l, r: g.valueOperand('t')}
		case c < 70: // plain / encrypted-only / tokenized column compared with a value
			l := g.col(notSearchable, g.tbl())
			if l == nil {
				continue
			}
			op := core.Pick(rd, []string{"=", "<>", "<"})
			class := byte('p')
			if g.kinds[cellKey{l.tbl, l.col}] == 't' {
				if op == "<" {
					g.classes["outside"] = true // ordering over tokens
				} else {
					class = 't'
				}
			}
			return &cond{op: op, l: l, r: g.valueOperand(class)}
		case c < 80: // join over two searchable columns
			if !g.two {
				continue
			}
			l, r := g.col("s", 0), g.col("s", 1)
			if l == nil || r == nil {
				continue
			}
			if rd.Bool() {
				l, r = r, l
			}
			return &cond{op: eqne(), l: l, r: r}
		case c < 85: // join over two columns that are not searchable
			if !g.two {
				continue
			}
			l, r := g.col(notSearchable, 0), g.col(notSearchable, 1)
			if l == nil || r == nil {
				continue
			}
			return &cond{op: "=", l: l, r: r}
		case c < 91: // value on the LEFT of a searchable column (known finding)
			r := g.col("s", g.tbl())
			if r == nil {
				continue
			}
			g.classes["value-on-left"] = true
			l := &operand{kind: 'L', v: g.value()}
			if rd.Bool() {
				g.params = append(g.params, g.value())
				g.pclass = append(g.pclass, 'k') // parameter of a known unsupported form: never shared
				l = &operand{kind: 'P', i: len(g.params) - 1}
			}
			return &cond{op: eqne(), l: l, r: r}
		case c < 95: // placeholder under a cast (PostgreSQL; known finding)
			l := g.col("s", g.tbl())
			if l == nil || g.dialect != "pg" {
				continue
			}
			g.classes["cast-placeholder"] = true
			g.params = append(g.params, g.value())
			g.pclass = append(g.pclass, 'k')
			return &cond{op: eqne(), l: l, r: &operand{kind: 'Q', i: len(g.params) - 1}}
		case c < 98: // outside the property: ordering comparison / function on a searchable column
			l := g.col("s", g.tbl())
			if l == nil {
				continue
			}
			g.classes["outside"] = true
			if rd.Bool() {
				return &cond{op: "<", l: l, r: g.valueOperand('p')}
			}
			return &cond{op: "=", l: l, r: &operand{kind: 'O'}}
		default: // searchable column against a column that is not searchable (either order): outside the property
			if !g.two {
				continue
			}
			l, r := g.col("s", 0), g.col(notSearchable, 1)
			if l == nil || r == nil {
				continue
			}
			if rd.Bool() {
				l, r = r, l
			}
			g.classes["outside"] = true
			return &cond{op: "=", l: l, r: r}
		}
	}
}

func (g *qgen) cond(depth int) *cond {
	if depth == 0 || g.rd.Chance(40) {
		return g.leaf()
	}
	// MySQL numbers `?` placeholders by position: generate left before right
	a := g.cond(depth - 1)
	b := g.cond(depth - 1)
	return &cond{op: core.Pick(g.rd, []string{"&", "|"}), a: a, b: b}
}

func queryCases(r *core.Run) {
	rd := r.Rand
	n := r.N(600, 15000)
	for i := 0; i < n; i++ {
		w := newWorld(rd)
		dialect := core.Pick(rd, []string{"pg", "mysql"})
		vn := rd.U64() & 0x3ffff
		v := parseVariant(fmt.Sprint(vn))
		if dialect == "mysql" {
			v.typed = false
		}
		two := rd.Chance(30)
		g := &qgen{rd: rd, dialect: dialect, two: two, kinds: map[cellKey]byte{{0, 1}: 's'}, classes: map[string]bool{}, printable: v.typed}
		if rd.Bool() {
			g.kinds[cellKey{0, 3}] = 's'
		}
		// the other columns: plain, consistently tokenized or encrypted only – in every position relative to the searchable ones
		for _, k := range []cellKey{{0, 0}, {0, 2}, {0, 3}} {
			if g.kinds[k] == 0 && rd.Chance(45) {
				g.kinds[k] = core.Pick(rd, []byte{'t', 't', 'e'})
			}
		}
		if two {
			g.kinds[cellKey{1, 1}] = 's'
			if rd.Bool() {
				g.kinds[cellKey{1, 2}] = 's'
			}
			for _, k := range []cellKey{{1, 2}, {1, 3}} { // c0 is the join column of the generated statement: stays plain
				if g.kinds[k] == 0 && rd.Chance(40) {
					g.kinds[k] = core.Pick(rd, []byte{'t', 'e'})
				}
			}
		}
		g.pool = valuePool(rd, v.typed)
		r.Begin(fmt.Sprintf("query-%d", i), true, "case:query", "dialect:"+dialect, "kind:"+v.kind, fmt.Sprintf("stmt:%d", v.stmt), fmt.Sprintf("tables:%d", map[bool]int{false: 1, true: 2}[two]))
		// stored tables: plaintext rows and what the real encryptor stores for them
		nt := 1
		if two {
			nt = 2
		}
		maxRows := r.N(6, 12)
		if two {
			maxRows = 4
		}
		plainT := make([][]row, nt)
		storedT := make([][]row, nt)
		ok := true
		for t := 0; t < nt && ok; t++ {
			nr := 1 + rd.Intn(maxRows)
			for j := 0; j < nr && ok; j++ {
				pr, sr := row{}, row{}
				for c := 0; c < nCols; c++ {
					k := cellKey{t, c}
					val := core.Pick(rd, g.pool)
					pr[k] = val
					if g.kinds[k] == 's' {
						if envelopeLike(r, val) {
							ok = false
							break
						}
						toStore := val
						if len(val) > 0 && rd.Chance(20) {
							// the value arrives already protected for this client (AcraWriter, or copied from another
							// protected column): it must get the index of its plaintext and be found like the others
							if pre, okPre := env.Protect(r, core.Pick(rd, []string{"struct", "block"}), w.kv, val); okPre {
								toStore = pre
								r.Tag("row:pre-encrypted")
							}
						}
						s, good := w.encrypt(r, v.kind, toStore)
						if !good {
							ok = false
							break
						}
						sr[k] = s
					} else {
						sr[k] = val
					}
				}
				plainT[t] = append(plainT[t], pr)
				storedT[t] = append(storedT[t], sr)
			}
		}
		if !ok {
			continue
		}
		// the row environments the condition ranges over (cross product for two tables)
		var plainRows, storedRows []row
		var order []cellKey
		for t := 0; t < nt; t++ {
			for c := 0; c < nCols; c++ {
				order = append(order, cellKey{t, c})
			}
		}
		if two {
			for a := range plainT[0] {
				for b := range plainT[1] {
					pr, sr := row{}, row{}
					for k, x := range plainT[0][a] {
						pr[k] = x
					}
					for k, x := range plainT[1][b] {
						pr[k] = x
					}
					for k, x := range storedT[0][a] {
						sr[k] = x
					}
					for k, x := range storedT[1][b] {
						sr[k] = x
					}
					plainRows, storedRows = append(plainRows, pr), append(storedRows, sr)
				}
			}
		} else {
			plainRows, storedRows = plainT[0], storedT[0]
		}
		c := g.cond(2)
		if two && v.stmt != 4 && !v.crossJoin {
			// the generated statement joins ON t0.c0 = t1.c0: the database only sees those pairs
			var pr2, sr2 []row
			for j := range plainRows {
				if bytes.Equal(plainRows[j][cellKey{0, 0}], plainRows[j][cellKey{1, 0}]) {
					pr2, sr2 = append(pr2, plainRows[j]), append(sr2, storedRows[j])
				}
			}
			plainRows, storedRows = pr2, sr2
		}
		var cols []string
		kindsUsed := map[byte]bool{}
		for t := 0; t < 2; t++ {
			for cc := 0; cc < nCols; cc++ {
				switch k := g.kinds[cellKey{t, cc}]; k {
				case 's':
					cols = append(cols, fmt.Sprintf("%d.%d", t, cc))
				case 't', 'e':
					cols = append(cols, fmt.Sprintf("%d.%d:%c", t, cc, k))
				}
			}
		}
		eachColumn(c, func(o *operand) { kindsUsed[g.kinds[cellKey{o.tbl, o.col}]] = true })
		mix := ""
		for _, k := range []byte{'s', 't', 'e', 0} {
			if kindsUsed[k] {
				mix += map[byte]string{'s': "s", 't': "t", 'e': "e", 0: "p"}[k]
			}
		}
		r.Tag("columns-in-condition:" + mix)
		for cl := range g.classes {
			r.Tag("form:" + cl)
		}
		if len(g.classes) == 0 {
			r.Tag("form:supported")
		}
		line := fmt.Sprintf("C09.query %s %s %s %s %s %s %d", dialect, w.toks(), strings.Join(cols, ";"), c.String(), env.List(g.params), rowsStr(storedRows, order), v.n)
		out := r.Do(line)
		// specification: the condition over the plaintext rows with the values the client sent
		want := bitsOf(c, plainRows, g.params)
		if m := r.ModelOnly(fmt.Sprintf("C09.spec %s %s %s", c.String(), env.List(g.params), rowsStr(plainRows, order))); m != want {
			r.Fail("harness-spec", "the harness's and the model's evaluation of the plain condition differ: "+m+" vs "+want)
		}
		f := strings.Fields(out)
		if g.classes["outside"] {
			continue // ordering / functions over protected columns are outside the statement: correspondence only
		}
		judge(r, dialect, v, c, g.params, w, cols, storedRows, plainRows, order, out, g.classes["value-on-left"] || g.classes["cast-placeholder"])
		_ = f
		// the same statement through BOTH observers of the proxy (consistent tokenization, then searchable
		// encryption) over rows whose tokenized columns hold real tokens: supported forms only
		if len(g.classes) == 0 || (len(g.classes) == 1 && g.classes["shared-placeholder"]) {
			chainCase(r, dialect, v, c, g.params, w, cols, plainRows, order)
		}
	}
}

func eachColumn(c *cond, f func(o *operand)) {
	if c.a != nil {
		eachColumn(c.a, f)
		eachColumn(c.b, f)
		return
	}
	for _, o := range []*operand{c.l, c.r} {
		if o.kind == 'C' {
			f(o)
		}
	}
}

// repaired returns the condition with the two known unsupported forms written the supported way
// (column on the left, placeholder without a cast); changed = it differs from c.
func repaired(c *cond) (*cond, bool) {
	if c.a != nil {
		a, ca := repaired(c.a)
		b, cb := repaired(c.b)
		return &cond{op: c.op, a: a, b: b}, ca || cb
	}
	l, r, ch := c.l, c.r, false
	if r.kind == 'C' && l.kind != 'C' && c.op != "<" {
		l, r, ch = r, l, true
	}
	if r.kind == 'Q' {
		r, ch = &operand{kind: 'P', i: r.i}, true
	}
	return &cond{op: c.op, l: l, r: r}, ch
}

// knownClass names the known-finding class of a condition, "" if it has only supported forms.
func knownClass(c *cond, srch map[string]bool) string {
	if c.a != nil {
		if k := knownClass(c.a, srch); k != "" {
			return k
		}
		return knownClass(c.b, srch)
	}
	isS := func(o *operand) bool { return o.kind == 'C' && srch[fmt.Sprintf("%d.%d", o.tbl, o.col)] }
	switch {
	case isS(c.r) && c.l.kind != 'C' && (c.op == "=" || c.op == "<>" || c.op == "<=>"):
		return "value-on-left"
	case isS(c.l) && c.r.kind == 'Q' && (c.op == "=" || c.op == "<>"):
		return "cast-placeholder"
	}
	return ""
}

// judge compares what the database selects with the rows whose plaintexts satisfy the condition.
// A difference is a violation unless the condition contains one of the two known unsupported forms
// AND the same condition written the supported way is exact.
func judge(r *core.Run, dialect string, v variant, c *cond, params [][]byte, w *world, cols []string, storedRows, plainRows []row, order []cellKey, out string, hasKnown bool) {
	want := bitsOf(c, plainRows, params)
	f := strings.Fields(out)
	desc := fmt.Sprintf("%s %s: rows selected by the database %s, rows whose plaintext satisfies the condition %s (condition %s)", dialect, statement(v, c, "…"), last(f), want, c.String())
	srch := map[string]bool{}
	for _, cl := range cols {
		if !strings.Contains(cl, ":") { // `t.c:t` / `t.c:e` are tokenized / encrypted-only columns
			srch[cl] = true
		}
	}
	class := knownClass(c, srch)
	if len(f) != 4 || f[0] != "ok" {
		r.Fail("search-error", fmt.Sprintf("%s: the statement was not forwarded (%s) for condition %s", dialect, trunc(out), c.String()))
		return
	}
	// the operand of a supported search must not reach the database in clear (it is replaced by its blind index)
	bound := env.ParseList(f[2])
	for i := range hashedParams(c, srch) {
		if i < len(bound) && i < len(params) && len(params[i]) > 0 && bytes.Equal(bound[i], params[i]) {
			r.Fail("search-operand-unhashed", fmt.Sprintf("%s %s: parameter %d of a comparison with a searchable column is forwarded to the database as the client sent it (condition %s)", dialect, statement(v, c, "…"), i+1, c.String()))
			break
		}
	}
	if f[3] == want {
		return
	}
	if class == "" {
		r.Fail("search-not-exact", desc)
		return
	}
	// known unsupported form: the repaired spelling must be exact, otherwise something else is wrong too
	rc, _ := repaired(c)
	line := fmt.Sprintf("C09.query %s %s %s %s %s %s %d", dialect, w.toks(), strings.Join(cols, ";"), rc.String(), env.List(params), rowsStr(storedRows, order), v.n)
	f2 := strings.Fields(r.Do(line))
	if len(f2) == 4 && f2[0] == "ok" && f2[3] == want {
		r.Fail(class, desc)
	} else {
		r.Fail("search-not-exact", desc+" – and the supported spelling "+rc.String()+" selects "+last(f2))
	}
}

// chainCase: implementation and oracle only (token values are random, the model does not predict them).
func chainCase(r *core.Run, dialect string, v variant, c *cond, params [][]byte, w *world, cols []string, plainRows []row, order []cellKey) {
	kinds := parseKinds(strings.Join(cols, ";"))
	emptyTokLiteral, skip := false, false
	var walk func(c *cond)
	walk = func(c *cond) {
		if c.a != nil {
			walk(c.a)
			walk(c.b)
			return
		}
		lt := c.l.kind == 'C' && kinds[cellKey{c.l.tbl, c.l.col}] == 't'
		rt := c.r.kind == 'C' && kinds[cellKey{c.r.tbl, c.r.col}] == 't'
		switch {
		case c.l.kind == 'C' && c.r.kind == 'C' && lt != rt:
			skip = true // a token compared with a value that is not a token: outside the property
		case lt && (c.r.kind == 'L' || c.r.kind == 'K') && len(c.r.v) == 0:
			emptyTokLiteral = true
		case lt && (c.r.kind == 'L' || c.r.kind == 'K') && !printable(c.r.v):
			skip = true // the column holds text tokens (token_type str): a client compares it with text literals
		case lt && (c.r.kind == 'L' || c.r.kind == 'K') && len(c.r.v) == 1:
			skip = true // the token of a 1-character string equals the string with probability 1/62 (same finding, not decidable beforehand)
		}
	}
	walk(c)
	if skip {
		r.Tag("chain:skipped")
		return
	}
	// literals are spelled as text (a hex-spelled literal of a text token column would be tokenized as the
	// characters `\x…`, which is what the client wrote, not a defect)
	v = parseVariant(fmt.Sprint(v.n | 1<<10))
	want := bitsOf(c, plainRows, params)
	out := r.Impl(fmt.Sprintf("C09.chain %s %s %s %s %s %s %d", dialect, w.toks(), strings.Join(cols, ";"), c.String(), env.List(params), rowsStr(plainRows, order), v.n))
	f := strings.Fields(out)
	if len(f) == 0 {
		f = []string{"?"}
	}
	r.Tag("chain:" + f[0])
	if out == "err-query" && emptyTokLiteral {
		r.Fail("chain-token-equals-literal", fmt.Sprintf("%s %s: a consistently tokenized column is compared with the literal '' whose token is '' again – the tokenization observer's OnQuery fails with ErrUpdateLeaveDataUnchanged, the observer manager stops, and the statement is forwarded with NONE of its comparisons rewritten (condition %s, columns %s)", dialect, statement(v, c, "…"), c.String(), strings.Join(cols, ";")))
		return
	}
	if len(f) != 4 || f[0] != "ok" {
		r.Fail("chain-search-error", fmt.Sprintf("%s %s through the tokenization and the searchable-encryption observer: the statement was not forwarded (%s), condition %s, columns %s", dialect, statement(v, c, "…"), trunc(out), c.String(), strings.Join(cols, ";")))
		return
	}
	r.Check(f[3] == want, "chain-search-not-exact", fmt.Sprintf("%s %s through the tokenization and the searchable-encryption observer: rows selected by the database %s, rows whose plaintext satisfies the condition %s (condition %s, columns %s)", dialect, statement(v, c, "…"), f[3], want, c.String(), strings.Join(cols, ";")))
}

// hashedParams: the parameters compared (=, <>, <=>) with a searchable column on the left – the ones OnBind replaces.
func hashedParams(c *cond, srch map[string]bool) map[int]bool {
	out := map[int]bool{}
	var walk func(c *cond)
	walk = func(c *cond) {
		if c.a != nil {
			walk(c.a)
			walk(c.b)
			return
		}
		if c.l.kind == 'C' && srch[fmt.Sprintf("%d.%d", c.l.tbl, c.l.col)] && c.r.kind == 'P' && (c.op == "=" || c.op == "<>" || c.op == "<=>") {
			out[c.r.i] = true
		}
	}
	walk(c)
	return out
}

func last(f []string) string {
	if len(f) == 0 {
		return ""
	}
	return f[len(f)-1]
}

// ---------------------------------------------------------------------------------------------
// regression corpus: witnesses of the defects found on the pinned tree (fixed or known); run first
// ---------------------------------------------------------------------------------------------

func regression(r *core.Run) {
	rd := core.NewRand(9) // fixed inputs, independent of the seed
	w := &world{kv: env.NewKV(rd, 1, 1), hk: rd.Bytes(32)}
	// --- hmac.Processor state across columns (fixed)
	other := env.NewKV(rd, 1, 1)
	foreign, _ := env.Protect(r, "block", other, []byte("foreign"))
	for i, p := range [][]byte{
		append([]byte{0x7f}, bytes.Repeat([]byte{0}, 32)...),                     // looks like a bare hash
		append([]byte{0x7f}, bytes.Repeat([]byte{'a'}, 60)...),                   // hash-like, longer, no envelope inside
		append(append([]byte{0x7f}, bytes.Repeat([]byte{1}, 32)...), foreign...), // hash ++ envelope of somebody else
	} {
		r.Begin(fmt.Sprintf("regress-processor-%d", i), true, "case:regression", "regress:processor-state")
		for _, kind := range []string{"struct", "block"} {
			s, ok := w.encrypt(r, kind, p)
			if !r.Check(ok, "encrypt-failed", "regression: cannot store the witness plaintext") {
				continue
			}
			checkRow(r, w, []colSpec{{s, p, "searchable/hash-like"}, {[]byte("next column"), nil, "plain"}, {s, p, "searchable/hash-like"}})
			// the pinned tree's behaviour, from the model (documentation of the witness; not judged)
			r.ModelOnly(fmt.Sprintf("C09.legacy.columns %s %s", w.toks(), env.List([][]byte{s, []byte("next column")})))
			// the same plaintext in an encrypted, not searchable column
			e, ok := env.Protect(r, kind, w.kv, p)
			if ok {
				checkRow(r, w, []colSpec{{e, p, "encrypted"}, {[]byte("next column"), nil, "plain"}})
			}
		}
	}
	// --- query side
	order := []cellKey{{0, 0}, {0, 1}, {0, 2}, {0, 3}}
	type wit struct {
		name, dialect, cond string
		params              [][]byte
		vals                []string // plaintexts of column c1 (= c3), one row each
		variant             uint64
		cols                []string // configured columns (default: c1 and c3 searchable)
	}
	const (
		vHexVal  = 0       // MySQL: X'…' / PostgreSQL: '\x…'
		vText    = 1 << 10 // text literals
		vHexNum  = 1 << 17 // MySQL: 0x…
		vBindOrg = 1 << 13
		vBinary  = 1 << 12 // PostgreSQL: parameters in binary format
	)
	mixedCols := []string{"0.0:t", "0.1", "0.2:e", "0.3"}
	hx := func(s string) string { return core.Hex([]byte(s)) }
	wits := []wit{
		{"mysql-hexval-literal", "mysql", "C.0.1,L." + hx("AB") + ",=", nil, []string{"AB", "4142", "x"}, vHexVal, nil},
		{"mysql-0x-string-literal", "mysql", "C.0.1,L." + hx("0x41") + ",=", nil, []string{"0x41", "A", "x"}, vText, nil},
		{"mysql-hexnum-literal", "mysql", "C.0.1,L." + hx("AB") + ",=", nil, []string{"AB", "x"}, vHexNum, nil},
		{"mysql-literal-and-placeholder", "mysql", "C.0.1,L." + hx("bob") + ",=,C.0.3,P.0,=,&", [][]byte{[]byte("bob")}, []string{"bob", "x"}, vText, nil},
		{"mysql-literal-and-placeholder-bindorig", "mysql", "C.0.1,L." + hx("bob") + ",=,C.0.3,P.0,=,|", [][]byte{[]byte("x")}, []string{"bob", "x", "y"}, vText | vBindOrg, nil},
		{"mysql-noncolumn-left-and-placeholder", "mysql", "L." + hx("a") + ",C.0.0,=,C.0.1,P.0,=,|", [][]byte{[]byte("bob")}, []string{"bob", "x"}, vText | vBindOrg, nil},
		{"mysql-rewritten-literal-and-placeholder", "mysql", "C.0.1,L." + hx("bob") + ",<>,C.0.3,P.0,=,&", [][]byte{[]byte("x")}, []string{"bob", "x"}, vHexVal, nil},
		{"value-on-left", "pg", "L." + hx("bob") + ",C.0.1,=", nil, []string{"bob", "x"}, vText, nil},
		{"value-on-left-mysql", "mysql", "P.0,C.0.1,=", [][]byte{[]byte("bob")}, []string{"bob", "x"}, vText, nil},
		{"cast-placeholder", "pg", "C.0.1,Q.0,=", [][]byte{[]byte("bob")}, []string{"bob", "x"}, vText, nil},
		// OnBind gave up (bound values forwarded UNHASHED – the search finds nothing and the plaintext operand
		// reaches the database) when the statement also compared a consistently tokenized column with a
		// placeholder: `len(bindData) > len(indexes)` counted that column's placeholder too (fixed)
		{"pg-tokenized-then-searchable", "pg", "C.0.0,P.0,=,C.0.1,P.1,=,&", [][]byte{[]byte("a"), []byte("bob")}, []string{"bob", "x"}, vText, mixedCols},
		{"pg-searchable-then-tokenized", "pg", "C.0.1,P.0,=,C.0.0,P.1,=,&", [][]byte{[]byte("bob"), []byte("a")}, []string{"bob", "x"}, vHexVal, mixedCols},
		{"pg-tokenized-or-searchable-bindorig", "pg", "C.0.0,P.0,<>,C.0.1,P.1,=,|", [][]byte{[]byte("a"), []byte("bob")}, []string{"bob", "x"}, vText | vBindOrg, mixedCols},
		{"pg-tokenized-encrypted-searchable-binary", "pg", "C.0.2,P.0,=,C.0.0,P.1,=,C.0.3,P.2,<>,&,|", [][]byte{[]byte("p"), []byte("a"), []byte("x")}, []string{"bob", "x"}, vBinary, mixedCols},
		{"mysql-tokenized-then-searchable", "mysql", "C.0.0,P.0,=,C.0.1,P.1,=,&", [][]byte{[]byte("a"), []byte("bob")}, []string{"bob", "x"}, vText, mixedCols},
		{"mysql-searchable-then-tokenized", "mysql", "C.0.1,P.0,=,C.0.0,P.1,<=>,&", [][]byte{[]byte("bob"), []byte("a")}, []string{"bob", "x"}, vText | vBindOrg, mixedCols},
		// a placeholder used in two comparisons was hashed twice: newValues shares its elements with values (fixed)
		{"pg-shared-placeholder-same-column", "pg", "C.0.1,P.0,=,C.0.1,P.0,=,|", [][]byte{[]byte("bob")}, []string{"bob", "x"}, vText, nil},
		{"pg-shared-placeholder-two-columns", "pg", "C.0.1,P.0,=,C.0.3,P.0,<>,&", [][]byte{[]byte("bob")}, []string{"bob", "x"}, vHexVal | vBindOrg, nil},
		{"pg-shared-placeholder-binary", "pg", "C.0.1,P.0,=,C.0.3,P.0,=,|", [][]byte{[]byte("x")}, []string{"bob", "x"}, vBinary, nil},
		{"mysql-shared-named-placeholder", "mysql", "C.0.1,P.0,=,C.0.3,P.0,=,|", [][]byte{[]byte("bob")}, []string{"bob", "x"}, vText, nil},
		// through both observers: a literal after a tokenized column made MySQLTokenizeQuery.OnBind fail (fixed) …
		{"mysql-chain-tokenized-literal-and-placeholder", "mysql", "C.0.0,L." + hx("ab") + ",<>,C.0.1,P.0,=,&", [][]byte{[]byte("bob")}, []string{"bob", "x"}, vText, mixedCols},
		// … and the literal '' of a tokenized column (its token is '' again) stops the whole rewrite (known finding)
		{"chain-empty-literal-on-tokenized-column", "pg", "C.0.0,L.-,<>,C.0.1,L." + hx("bob") + ",=,&", nil, []string{"bob", "x"}, vText, mixedCols},
		{"chain-empty-literal-on-tokenized-column-mysql", "mysql", "C.0.0,L.-,<>,C.0.1,P.0,=,&", [][]byte{[]byte("bob")}, []string{"bob", "x"}, vText, mixedCols},
	}
	for _, wt := range wits {
		r.Begin("regress-"+wt.name, true, "case:regression", "regress:"+wt.name)
		v := parseVariant(fmt.Sprint(wt.variant))
		var plainRows, storedRows []row
		good := true
		for _, val := range wt.vals {
			s, ok := w.encrypt(r, v.kind, []byte(val))
			good = good && ok
			plainRows = append(plainRows, row{{0, 0}: []byte("a"), {0, 1}: []byte(val), {0, 2}: []byte("p"), {0, 3}: []byte(val)})
			storedRows = append(storedRows, row{{0, 0}: []byte("a"), {0, 1}: s, {0, 2}: []byte("p"), {0, 3}: s})
		}
		if !r.Check(good, "encrypt-failed", "regression: cannot store the witness rows") {
			continue
		}
		c := parseCond(wt.cond)
		cols := []string{"0.1", "0.3"}
		if wt.cols != nil {
			cols = wt.cols
		}
		// the pinned tree's OnBind, from the model (documentation of the witness; not judged)
		r.ModelOnly(fmt.Sprintf("C09.legacy.bind %s %s %s %s %s", wt.dialect, w.toks(), strings.Join(cols, ";"), wt.cond, env.List(wt.params)))
		out := r.Do(fmt.Sprintf("C09.query %s %s %s %s %s %s %d", wt.dialect, w.toks(), strings.Join(cols, ";"), wt.cond, env.List(wt.params), rowsStr(storedRows, order), wt.variant))
		judge(r, wt.dialect, v, c, wt.params, w, cols, storedRows, plainRows, order, out, true)
		if wt.cols != nil || strings.Contains(wt.name, "shared") {
			chainCase(r, wt.dialect, v, c, wt.params, w, cols, plainRows, order)
		}
	}
}
