package c09

import "verifharness/internal/core"

func regression(r *core.Run) {}
func queryCases(r *core.Run) {}
