package c09

// Query side: statements are generated from structured conditions, sent through the real
// PostgreSQL / MySQL HashQuery observers (OnQuery, OnBind), the rewritten statement is read back
// into the same small condition language the model uses and evaluated literally over the stored
// rows (the database stand-in).

import (
	"bytes"
	"context"
	"encoding/hex"
	"fmt"
	"net"
	"strconv"
	"strings"

	pg_query "github.com/cossacklabs/pg_query_go/v5"

	"github.com/cossacklabs/acra/crypto"
	"github.com/cossacklabs/acra/decryptor/base"
	mysqldec "github.com/cossacklabs/acra/decryptor/mysql"
	base_mysql "github.com/cossacklabs/acra/decryptor/mysql/base"
	pgdec "github.com/cossacklabs/acra/decryptor/postgresql"
	"github.com/cossacklabs/acra/encryptor/base/config"
	encmysql "github.com/cossacklabs/acra/encryptor/mysql"
	encpg "github.com/cossacklabs/acra/encryptor/postgresql"
	"github.com/cossacklabs/acra/hmac"
	hqmysql "github.com/cossacklabs/acra/hmac/decryptor/mysql"
	hqpg "github.com/cossacklabs/acra/hmac/decryptor/postgresql"
	"github.com/cossacklabs/acra/pseudonymization"
	"github.com/cossacklabs/acra/pseudonymization/storage"
	"github.com/cossacklabs/acra/sqlparser"

	"verifharness/internal/core"
	env "verifharness/internal/envops"
)

// ---- condition language (twin of the model's Cond / DbCond) ----

type operand struct {
	kind     byte // C L K P Q O | S B V (database side)
	tbl, col int
	v        []byte
	i        int
	from, ln int
}

type cond struct {
	op   string // = <> <=> < & |
	l, r *operand
	a, b *cond
}

func parseOperand(t string) *operand {
	p := strings.Split(t, ".")
	switch p[0] {
	case "C":
		return &operand{kind: 'C', tbl: core.Atoi(p[1]), col: core.Atoi(p[2])}
	case "L", "K", "V":
		return &operand{kind: p[0][0], v: core.UnHex(p[1])}
	case "P", "Q":
		return &operand{kind: p[0][0], i: core.Atoi(p[1])}
	case "O":
		return &operand{kind: 'O'}
	case "S", "B":
		return &operand{kind: p[0][0], tbl: core.Atoi(p[1]), col: core.Atoi(p[2]), from: core.Atoi(p[3]), ln: core.Atoi(p[4])}
	}
	panic("harness: bad operand " + t)
}

func isCmp(t string) bool { return t == "=" || t == "<>" || t == "<=>" || t == "<" }

func parseCond(s string) *cond {
	var ops []*operand
	var cs []*cond
	for _, t := range strings.Split(s, ",") {
		switch {
		case isCmp(t):
			n := len(ops)
			cs = append(cs, &cond{op: t, l: ops[n-2], r: ops[n-1]})
			ops = ops[:n-2]
		case t == "&" || t == "|":
			n := len(cs)
			c := &cond{op: t, a: cs[n-2], b: cs[n-1]}
			cs = append(cs[:n-2], c)
		default:
			ops = append(ops, parseOperand(t))
		}
	}
	if len(cs) != 1 || len(ops) != 0 {
		panic("harness: bad condition " + s)
	}
	return cs[0]
}

func (o *operand) String() string {
	switch o.kind {
	case 'C':
		return fmt.Sprintf("C.%d.%d", o.tbl, o.col)
	case 'S', 'B':
		return fmt.Sprintf("%c.%d.%d.%d.%d", o.kind, o.tbl, o.col, o.from, o.ln)
	case 'L', 'K', 'V':
		return fmt.Sprintf("%c.%s", o.kind, core.Hex(o.v))
	case 'P', 'Q':
		return fmt.Sprintf("%c.%d", o.kind, o.i)
	}
	return "O"
}

func (c *cond) String() string {
	if c.a != nil {
		return c.a.String() + "," + c.b.String() + "," + c.op
	}
	return c.l.String() + "," + c.r.String() + "," + c.op
}

// ---- rows ----

type cellKey struct{ tbl, col int }
type row map[cellKey][]byte

func parseRows(s string) []row {
	if s == "_" {
		return nil
	}
	var out []row
	for _, rs := range strings.Split(s, ";") {
		r := row{}
		for _, cell := range strings.Split(rs, "|") {
			kv := strings.Split(cell, ":")
			tc := strings.Split(kv[0], ".")
			r[cellKey{core.Atoi(tc[0]), core.Atoi(tc[1])}] = core.UnHex(kv[1])
		}
		out = append(out, r)
	}
	return out
}

func rowsStr(rows []row, order []cellKey) string {
	if len(rows) == 0 {
		return "_"
	}
	var rs []string
	for _, r := range rows {
		var cells []string
		for _, k := range order {
			if v, ok := r[k]; ok {
				cells = append(cells, fmt.Sprintf("%d.%d:%s", k.tbl, k.col, core.Hex(v)))
			}
		}
		rs = append(rs, strings.Join(cells, "|"))
	}
	return strings.Join(rs, ";")
}

// evaluation: the database stand-in (used on the read-back statement) and – with kind L/K/P – the
// specification over plaintext rows
func evalOperand(o *operand, r row, params [][]byte) ([]byte, bool) {
	switch o.kind {
	case 'C':
		v, ok := r[cellKey{o.tbl, o.col}]
		return v, ok
	case 'S', 'B':
		v, ok := r[cellKey{o.tbl, o.col}]
		if !ok {
			return nil, false
		}
		lo := o.from - 1
		if lo < 0 {
			lo = 0
		}
		if lo > len(v) {
			lo = len(v)
		}
		hi := lo + o.ln
		if hi > len(v) {
			hi = len(v)
		}
		return v[lo:hi], true
	case 'L', 'K', 'V':
		return o.v, true
	case 'P', 'Q':
		if o.i < len(params) {
			return params[o.i], true
		}
		return nil, false
	}
	return nil, false
}

func evalCond(c *cond, r row, params [][]byte) bool {
	switch c.op {
	case "&":
		return evalCond(c.a, r, params) && evalCond(c.b, r, params)
	case "|":
		return evalCond(c.a, r, params) || evalCond(c.b, r, params)
	}
	a, ok1 := evalOperand(c.l, r, params)
	b, ok2 := evalOperand(c.r, r, params)
	if !ok1 || !ok2 {
		return false
	}
	switch c.op {
	case "=", "<=>":
		return bytes.Equal(a, b)
	case "<>":
		return !bytes.Equal(a, b)
	case "<":
		return bytes.Compare(a, b) < 0
	}
	panic("harness: bad operator " + c.op)
}

func bitsOf(c *cond, rows []row, params [][]byte) string {
	if len(rows) == 0 {
		return "_"
	}
	var b strings.Builder
	for _, r := range rows {
		if evalCond(c, r, params) {
			b.WriteByte('1')
		} else {
			b.WriteByte('0')
		}
	}
	return b.String()
}

// ---- schema ----

const nCols = 4

// column kinds of the encryptor configuration: 's' searchable, 't' consistently tokenized (token_type str),
// 'e' encrypted only; any other column of the table is plain
func schemaYAML(kinds map[cellKey]byte, kind string, typed bool) string {
	envl := "acrastruct"
	if kind == "block" {
		envl = "acrablock"
	}
	var b strings.Builder
	b.WriteString("schemas:\n")
	for t := 0; t < 3; t++ {
		fmt.Fprintf(&b, "  - table: t%d\n    columns:\n", t)
		for c := 0; c < nCols; c++ {
			fmt.Fprintf(&b, "      - c%d\n", c)
		}
		first := true
		for c := 0; c < nCols; c++ {
			k := kinds[cellKey{t, c}]
			if k == 0 {
				continue
			}
			if first {
				b.WriteString("    encrypted:\n")
				first = false
			}
			switch k {
			case 's':
				fmt.Fprintf(&b, "      - column: c%d\n        searchable: true\n        crypto_envelope: %s\n", c, envl)
				if typed {
					b.WriteString("        data_type: str\n")
				}
			case 't':
				fmt.Fprintf(&b, "      - column: c%d\n        token_type: str\n        consistent_tokenization: true\n", c)
			case 'e':
				fmt.Fprintf(&b, "      - column: c%d\n        crypto_envelope: %s\n", c, envl)
			}
		}
	}
	return b.String()
}

var schemaCache = map[string]config.TableSchemaStore{}

// parseKinds reads the column token `_` | `t.c;t.c:t;t.c:e` (no suffix = searchable).
func parseKinds(colsTok string) map[cellKey]byte {
	kinds := map[cellKey]byte{}
	if colsTok != "_" {
		for _, p := range strings.Split(colsTok, ";") {
			k := byte('s')
			if i := strings.IndexByte(p, ':'); i >= 0 {
				k, p = p[i+1], p[:i]
			}
			tc := strings.Split(p, ".")
			kinds[cellKey{core.Atoi(tc[0]), core.Atoi(tc[1])}] = k
		}
	}
	return kinds
}

func schemaFor(colsTok, kind string, typed, mysql bool) (config.TableSchemaStore, map[cellKey]bool) {
	kinds := parseKinds(colsTok)
	searchable := map[cellKey]bool{}
	for k, v := range kinds {
		if v == 's' {
			searchable[k] = true
		}
	}
	key := fmt.Sprintf("%s/%s/%v/%v", colsTok, kind, typed, mysql)
	if s, ok := schemaCache[key]; ok {
		return s, searchable
	}
	s, err := config.MapTableSchemaStoreFromConfig([]byte(schemaYAML(kinds, kind, typed)), mysql)
	if err != nil {
		panic("harness: schema: " + err.Error())
	}
	schemaCache[key] = s
	return s, searchable
}

// ---- fake client session ----

type session struct{ data map[string]interface{} }

func (s *session) Context() context.Context     { return context.Background() }
func (s *session) ClientConnection() net.Conn   { return nil }
func (s *session) DatabaseConnection() net.Conn { return nil }
func (s *session) ProtocolState() interface{}   { return nil }
func (s *session) SetProtocolState(interface{}) {}
func (s *session) GetData(k string) (interface{}, bool) {
	v, ok := s.data[k]
	return v, ok
}
func (s *session) SetData(k string, v interface{}) { s.data[k] = v }
func (s *session) DeleteData(k string)             { delete(s.data, k) }
func (s *session) HasData(k string) bool           { _, ok := s.data[k]; return ok }

func queryCtx() context.Context {
	return base.SetClientSessionToContext(env.Ctx([]byte(clientID)), &session{data: map[string]interface{}{}})
}

// ---- statement variants ----

// variant: how the statement is spelled; derived from one number so that the op line replays
type variant struct {
	n         uint64
	stmt      int  // 0 select, 1 update, 2 delete, 3 insert…select, 4 select with the condition in JOIN … ON
	alias     bool // table aliases
	qualify   bool // qualify columns of a single-table statement
	textLit   bool // spell printable literals as text instead of hex
	neBang    bool // != instead of <>
	binParams bool // bound values in binary format (PostgreSQL)
	bindOrig  bool // OnBind on the statement as the client sent it (else on the rewritten one)
	typed     bool // searchable columns declared `data_type: str`
	kind      string
	crossJoin bool // FROM t0, t1 instead of JOIN
	hexNum    bool // MySQL: 0x… instead of X'…'
	named     bool // MySQL: placeholders spelled :vN (as the tokenizer numbers `?`) – always when one is used twice
}

func parseVariant(s string) variant {
	n := core.AtoU64(s)
	b := func(i uint) bool { return n>>i&1 == 1 }
	v := variant{n: n, stmt: int(n % 5), alias: b(8), qualify: b(9), textLit: b(10), neBang: b(11), binParams: b(12), bindOrig: b(13), typed: b(14), crossJoin: b(16), hexNum: b(17), named: b(18)}
	v.kind = "struct"
	if b(15) {
		v.kind = "block"
	}
	return v
}

func printable(v []byte) bool {
	if len(v) == 0 {
		return false
	}
	for _, c := range v {
		if c < 0x20 || c > 0x7e || c == '\'' || c == '\\' || c == '"' || c == '%' || c == '?' || c == ':' {
			return false
		}
	}
	return !bytes.HasPrefix(v, []byte("0x")) || true
}

func maxTable(c *cond) int {
	m := 0
	var walk func(c *cond)
	walk = func(c *cond) {
		if c.a != nil {
			walk(c.a)
			walk(c.b)
			return
		}
		for _, o := range []*operand{c.l, c.r} {
			if o.kind == 'C' && o.tbl > m {
				m = o.tbl
			}
		}
	}
	walk(c)
	return m
}

func tableName(v variant, t int) string {
	if v.alias {
		return fmt.Sprintf("a%d", t)
	}
	return fmt.Sprintf("t%d", t)
}

func fromItem(v variant, t int) string {
	if v.alias {
		return fmt.Sprintf("t%d AS a%d", t, t)
	}
	return fmt.Sprintf("t%d", t)
}

// ---- PostgreSQL ----

func pgOperand(v variant, o *operand, two bool) string {
	switch o.kind {
	case 'C':
		if two || v.qualify || v.alias {
			return fmt.Sprintf("%s.c%d", tableName(v, o.tbl), o.col)
		}
		return fmt.Sprintf("c%d", o.col)
	case 'L', 'K':
		lit := `'\x` + hex.EncodeToString(o.v) + `'`
		if len(o.v) == 0 {
			lit = "''"
		}
		if (v.textLit || v.typed) && printable(o.v) {
			lit = "'" + string(o.v) + "'"
		}
		if o.kind == 'K' {
			if strings.HasPrefix(lit, `'\x`) {
				return lit + "::bytea"
			}
			return lit + "::text"
		}
		return lit
	case 'P':
		return fmt.Sprintf("$%d", o.i+1)
	case 'Q':
		return fmt.Sprintf("$%d::bytea", o.i+1)
	}
	return "lower('x')"
}

func pgCond(v variant, c *cond, two bool) string {
	switch c.op {
	case "&":
		return "(" + pgCond(v, c.a, two) + " AND " + pgCond(v, c.b, two) + ")"
	case "|":
		return "(" + pgCond(v, c.a, two) + " OR " + pgCond(v, c.b, two) + ")"
	}
	op := c.op
	if op == "<>" && v.neBang {
		op = "!="
	}
	return pgOperand(v, c.l, two) + " " + op + " " + pgOperand(v, c.r, two)
}

func statement(v variant, c *cond, condSQL string) string {
	two := maxTable(c) > 0
	if two {
		switch {
		case v.stmt == 4:
			return fmt.Sprintf("SELECT * FROM %s JOIN %s ON %s", fromItem(v, 0), fromItem(v, 1), condSQL)
		case v.crossJoin:
			return fmt.Sprintf("SELECT * FROM %s, %s WHERE %s", fromItem(v, 0), fromItem(v, 1), condSQL)
		default:
			return fmt.Sprintf("SELECT * FROM %s JOIN %s ON %s.c0 = %s.c0 WHERE %s", fromItem(v, 0), fromItem(v, 1), tableName(v, 0), tableName(v, 1), condSQL)
		}
	}
	switch v.stmt {
	case 1:
		if v.alias {
			return fmt.Sprintf("UPDATE t0 AS a0 SET c0 = 'n' WHERE %s", condSQL)
		}
		return fmt.Sprintf("UPDATE t0 SET c0 = 'n' WHERE %s", condSQL)
	case 2:
		if v.alias {
			return fmt.Sprintf("DELETE FROM t0 AS a0 WHERE %s", condSQL)
		}
		return fmt.Sprintf("DELETE FROM t0 WHERE %s", condSQL)
	case 3:
		return fmt.Sprintf("INSERT INTO t2 SELECT * FROM %s WHERE %s", fromItem(v, 0), condSQL)
	}
	return fmt.Sprintf("SELECT * FROM %s WHERE %s", fromItem(v, 0), condSQL)
}

func tblIndex(name string) int {
	name = strings.TrimLeft(name, "ta")
	n, err := strconv.Atoi(name)
	if err != nil {
		return 0
	}
	return n
}

func pgColumn(cr *pg_query.ColumnRef) *operand {
	f := cr.GetFields()
	if len(f) == 2 {
		return &operand{kind: 'C', tbl: tblIndex(f[0].GetString_().GetSval()), col: core.Atoi(strings.TrimPrefix(f[1].GetString_().GetSval(), "c"))}
	}
	return &operand{kind: 'C', col: core.Atoi(strings.TrimPrefix(f[0].GetString_().GetSval(), "c"))}
}

func pgConst(ac *pg_query.A_Const) *operand {
	switch {
	case ac.GetSval() != nil:
		s := ac.GetSval().GetSval()
		if strings.HasPrefix(s, `\x`) {
			b, err := hex.DecodeString(s[2:])
			if err == nil {
				return &operand{kind: 'V', v: b}
			}
		}
		return &operand{kind: 'V', v: []byte(s)}
	case ac.GetIval() != nil:
		return &operand{kind: 'V', v: []byte(strconv.Itoa(int(ac.GetIval().GetIval())))}
	case ac.GetFval() != nil:
		return &operand{kind: 'V', v: []byte(ac.GetFval().GetFval())}
	}
	return &operand{kind: 'O'}
}

func pgExpr(n *pg_query.Node) *operand {
	switch {
	case n.GetColumnRef() != nil:
		return pgColumn(n.GetColumnRef())
	case n.GetAConst() != nil:
		return pgConst(n.GetAConst())
	case n.GetParamRef() != nil:
		return &operand{kind: 'P', i: int(n.GetParamRef().GetNumber()) - 1}
	case n.GetTypeCast() != nil:
		arg := n.GetTypeCast().GetArg()
		if arg.GetParamRef() != nil {
			return &operand{kind: 'Q', i: int(arg.GetParamRef().GetNumber()) - 1}
		}
		if arg.GetAConst() != nil {
			return pgConst(arg.GetAConst())
		}
	case n.GetFuncCall() != nil:
		fc := n.GetFuncCall()
		if len(fc.GetFuncname()) == 1 && fc.GetFuncname()[0].GetString_().GetSval() == "substr" && len(fc.GetArgs()) == 3 && fc.GetArgs()[0].GetColumnRef() != nil {
			o := pgColumn(fc.GetArgs()[0].GetColumnRef())
			o.kind = 'S'
			o.from = int(fc.GetArgs()[1].GetAConst().GetIval().GetIval())
			o.ln = int(fc.GetArgs()[2].GetAConst().GetIval().GetIval())
			return o
		}
	}
	return &operand{kind: 'O'}
}

func pgReadCond(n *pg_query.Node) *cond {
	if be := n.GetBoolExpr(); be != nil {
		op := "&"
		if be.GetBoolop() == pg_query.BoolExprType_OR_EXPR {
			op = "|"
		}
		args := be.GetArgs()
		c := pgReadCond(args[0])
		for _, a := range args[1:] {
			c = &cond{op: op, a: c, b: pgReadCond(a)}
		}
		return c
	}
	ae := n.GetAExpr()
	if ae == nil {
		panic("harness: unexpected node in the rewritten condition")
	}
	return &cond{op: ae.GetName()[0].GetString_().GetSval(), l: pgExpr(ae.GetLexpr()), r: pgExpr(ae.GetRexpr())}
}

// pgWhere finds the condition of the statement kinds the generator produces.
func pgWhere(v variant, stmt *pg_query.Node, two bool) *pg_query.Node {
	sel := stmt.GetSelectStmt()
	switch {
	case stmt.GetUpdateStmt() != nil:
		return stmt.GetUpdateStmt().GetWhereClause()
	case stmt.GetDeleteStmt() != nil:
		return stmt.GetDeleteStmt().GetWhereClause()
	case stmt.GetInsertStmt() != nil:
		sel = stmt.GetInsertStmt().GetSelectStmt().GetSelectStmt()
	}
	if two && v.stmt == 4 {
		return sel.GetFromClause()[0].GetJoinExpr().GetQuals()
	}
	return sel.GetWhereClause()
}

func pgBound(v variant, val []byte) base.BoundValue {
	if v.binParams {
		return pgdec.NewPgBoundValue(val, base.BinaryFormat)
	}
	if (v.textLit || v.typed) && printable(val) {
		return pgdec.NewPgBoundValue(val, base.TextFormat)
	}
	return pgdec.NewPgBoundValue([]byte(`\x`+hex.EncodeToString(val)), base.TextFormat)
}

func pgUnbound(bv base.BoundValue) []byte {
	d, _ := bv.GetData(nil)
	if bv.Format() == base.TextFormat && bytes.HasPrefix(d, []byte(`\x`)) {
		if b, err := hex.DecodeString(string(d[2:])); err == nil {
			return b
		}
	}
	return d
}

func listStr(bs [][]byte) string { return env.List(bs) }

type pgObserver interface {
	OnQuery(ctx context.Context, query encpg.OnQueryObject) (encpg.OnQueryObject, bool, error)
	OnBind(ctx context.Context, statement *pg_query.ParseResult, values []base.BoundValue) ([]base.BoundValue, bool, error)
}

// queryPG: the op body for dialect pg. Returns the canonical result line.
func queryPG(v variant, hk string, kv *env.KV, colsTok string, c *cond, params [][]byte, rows []row) string {
	ks := store(hk, kv)
	schema, _ := schemaFor(colsTok, v.kind, v.typed, config.UsePostgreSQL)
	hq := hqpg.NewHashQuery(ks, schema, crypto.NewRegistryHandler(ks))
	return runPG(v, []pgObserver{hq}, c, params, rows)
}

// runPG sends the statement and its bound values through the observers in order, as the proxy's
// ArrayQueryObservableManager does (each observer sees what the previous one produced).
func runPG(v variant, observers []pgObserver, c *cond, params [][]byte, rows []row) string {
	ctx := queryCtx()
	two := maxTable(c) > 0
	sql := statement(v, c, pgCond(v, c, two))
	obj := encpg.NewOnQueryObjectFromQuery(sql)
	for _, o := range observers {
		n, changed, err := o.OnQuery(ctx, obj)
		if err != nil {
			return "err-query"
		}
		if changed {
			obj = n
		}
	}
	text, err := obj.Query()
	if err != nil {
		panic("harness: deparse: " + err.Error())
	}
	parsed, err := pg_query.Parse(text)
	if err != nil {
		panic("harness: the rewritten statement does not parse: " + text)
	}
	dc := pgReadCond(pgWhere(v, parsed.Stmts[0].Stmt, two))
	// bound values
	var bvs []base.BoundValue
	for _, p := range params {
		bvs = append(bvs, pgBound(v, p))
	}
	bindStmt := parsed
	if v.bindOrig {
		if bindStmt, err = pg_query.Parse(sql); err != nil {
			panic("harness: generated statement does not parse: " + sql)
		}
	}
	for _, o := range observers {
		nv, changed, err := o.OnBind(ctx, bindStmt, bvs)
		if err != nil {
			return "err-bind " + dc.String()
		}
		if changed {
			bvs = nv
		}
	}
	var out [][]byte
	for _, b := range bvs {
		out = append(out, pgUnbound(b))
	}
	return fmt.Sprintf("ok %s %s %s", dc.String(), listStr(out), bitsOf(dc, rows, out))
}

// ---- MySQL ----

func myOperand(v variant, o *operand, two bool) string {
	switch o.kind {
	case 'C':
		if two || v.qualify || v.alias {
			return fmt.Sprintf("%s.c%d", tableName(v, o.tbl), o.col)
		}
		return fmt.Sprintf("c%d", o.col)
	case 'L', 'K':
		lit := "X'" + hex.EncodeToString(o.v) + "'"
		if v.hexNum && len(o.v) > 0 {
			lit = "0x" + hex.EncodeToString(o.v)
		}
		if v.textLit && printable(o.v) {
			lit = "'" + string(o.v) + "'"
		}
		if o.kind == 'K' {
			return "_binary " + lit
		}
		return lit
	case 'P', 'Q':
		if v.named {
			return fmt.Sprintf(":v%d", o.i+1)
		}
		return "?"
	}
	return "lower('x')"
}

// sharedParam: is some placeholder index used by more than one operand
func sharedParam(c *cond) bool {
	seen := map[int]bool{}
	shared := false
	var walk func(c *cond)
	walk = func(c *cond) {
		if c.a != nil {
			walk(c.a)
			walk(c.b)
			return
		}
		for _, o := range []*operand{c.l, c.r} {
			if o.kind == 'P' || o.kind == 'Q' {
				if seen[o.i] {
					shared = true
				}
				seen[o.i] = true
			}
		}
	}
	walk(c)
	return shared
}

func myCond(v variant, c *cond, two bool) string {
	switch c.op {
	case "&":
		return "(" + myCond(v, c.a, two) + " AND " + myCond(v, c.b, two) + ")"
	case "|":
		return "(" + myCond(v, c.a, two) + " OR " + myCond(v, c.b, two) + ")"
	}
	op := c.op
	if op == "<>" && v.neBang {
		op = "!="
	}
	return myOperand(v, c.l, two) + " " + op + " " + myOperand(v, c.r, two)
}

func myColumn(cn *sqlparser.ColName) *operand {
	o := &operand{kind: 'C', col: core.Atoi(strings.TrimPrefix(cn.Name.String(), "c"))}
	if q := cn.Qualifier.Name.RawValue(); q != "" {
		o.tbl = tblIndex(q)
	}
	return o
}

func myVal(sv *sqlparser.SQLVal) *operand {
	switch sv.Type {
	case sqlparser.StrVal, sqlparser.IntVal:
		return &operand{kind: 'V', v: append([]byte{}, sv.Val...)}
	case sqlparser.HexVal:
		b, err := hex.DecodeString(string(sv.Val))
		if err != nil {
			return &operand{kind: 'O'}
		}
		return &operand{kind: 'V', v: b}
	case sqlparser.HexNum:
		b, err := hex.DecodeString(strings.TrimPrefix(strings.ToLower(string(sv.Val)), "0x"))
		if err != nil {
			return &operand{kind: 'O'}
		}
		return &operand{kind: 'V', v: b}
	case sqlparser.ValArg:
		return &operand{kind: 'P', i: core.Atoi(strings.TrimPrefix(string(sv.Val), ":v")) - 1}
	}
	return &operand{kind: 'O'}
}

func myExpr(e sqlparser.Expr) *operand {
	switch t := e.(type) {
	case *sqlparser.ColName:
		return myColumn(t)
	case *sqlparser.SQLVal:
		return myVal(t)
	case *sqlparser.ParenExpr:
		return myExpr(t.Expr)
	case *sqlparser.UnaryExpr:
		if sv, ok := t.Expr.(*sqlparser.SQLVal); ok && strings.TrimSpace(t.Operator) == "_binary" {
			return myVal(sv)
		}
	case *sqlparser.SubstrExpr:
		o := myColumn(t.Name)
		o.kind = 'S'
		o.from = core.Atoi(string(t.From.(*sqlparser.SQLVal).Val))
		o.ln = core.Atoi(string(t.To.(*sqlparser.SQLVal).Val))
		return o
	case *sqlparser.ConvertExpr:
		if se, ok := t.Expr.(*sqlparser.SubstrExpr); ok && t.Type != nil && strings.EqualFold(t.Type.Type, "binary") {
			o := myExpr(se)
			o.kind = 'B'
			return o
		}
	}
	return &operand{kind: 'O'}
}

func myReadCond(e sqlparser.Expr) *cond {
	switch t := e.(type) {
	case *sqlparser.ParenExpr:
		return myReadCond(t.Expr)
	case *sqlparser.AndExpr:
		return &cond{op: "&", a: myReadCond(t.Left), b: myReadCond(t.Right)}
	case *sqlparser.OrExpr:
		return &cond{op: "|", a: myReadCond(t.Left), b: myReadCond(t.Right)}
	case *sqlparser.ComparisonExpr:
		op := t.Operator
		if op == "!=" {
			op = "<>"
		}
		return &cond{op: op, l: myExpr(t.Left), r: myExpr(t.Right)}
	}
	panic(fmt.Sprintf("harness: unexpected node %T in the rewritten condition", e))
}

func myWhere(v variant, st sqlparser.Statement, two bool) sqlparser.Expr {
	switch t := st.(type) {
	case *sqlparser.Select:
		if two && v.stmt == 4 {
			return t.From[0].(*sqlparser.JoinTableExpr).Condition.On
		}
		return t.Where.Expr
	case *sqlparser.Update:
		return t.Where.Expr
	case *sqlparser.Delete:
		return t.Where.Expr
	case *sqlparser.Insert:
		return t.Rows.(*sqlparser.Select).Where.Expr
	}
	panic("harness: unexpected statement kind")
}

type myObserver interface {
	OnQuery(ctx context.Context, query encmysql.OnQueryObject) (encmysql.OnQueryObject, bool, error)
	OnBind(ctx context.Context, statement sqlparser.Statement, values []base.BoundValue) ([]base.BoundValue, bool, error)
}

func queryMySQL(v variant, hk string, kv *env.KV, colsTok string, c *cond, params [][]byte, rows []row) string {
	ks := store(hk, kv)
	schema, _ := schemaFor(colsTok, v.kind, false, config.UseMySQL)
	hq := hqmysql.NewHashQuery(ks, schema, crypto.NewRegistryHandler(ks))
	return runMySQL(v, []myObserver{hq}, c, params, rows)
}

func runMySQL(v variant, observers []myObserver, c *cond, params [][]byte, rows []row) string {
	ctx := queryCtx()
	two := maxTable(c) > 0
	vv := v
	if sharedParam(c) {
		vv.named = true // `?` cannot name a parameter twice
	}
	if vv.stmt == 1 || vv.stmt == 2 {
		vv.alias = false // UPDATE/DELETE … AS alias is not MySQL syntax the parser takes
	}
	sql := statement(vv, c, myCond(vv, c, two))
	parser := sqlparser.New(sqlparser.ModeDefault)
	obj := encmysql.NewOnQueryObjectFromQuery(sql, parser)
	for _, o := range observers {
		n, changed, err := o.OnQuery(ctx, obj)
		if err != nil {
			return "err-query"
		}
		if changed {
			obj = n
		}
	}
	text := obj.Query()
	st, err := parser.Parse(text)
	if err != nil {
		panic("harness: the rewritten statement does not parse: " + text + ": " + err.Error())
	}
	if vv.named {
		// the serialiser prints every placeholder as `?`, so the text of a rewritten statement numbers them by
		// position again; `:vN` is how the tokenizer names `?` internally, no MySQL client can send it – the
		// named spelling only serves to reach OnBind with one placeholder listed twice: read the tree back
		if st, err = obj.Statement(); err != nil {
			panic("harness: rewritten statement: " + err.Error())
		}
	}
	dc := myReadCond(myWhere(vv, st, two))
	var bvs []base.BoundValue
	for _, p := range params {
		bvs = append(bvs, mysqldec.NewMysqlCopyTextBoundValue(p, base.BinaryFormat, base_mysql.TypeVarString))
	}
	bindStmt := st
	if v.bindOrig {
		if bindStmt, err = parser.Parse(sql); err != nil {
			panic("harness: generated statement does not parse: " + sql)
		}
	}
	for _, o := range observers {
		nv, changed, err := o.OnBind(ctx, bindStmt, bvs)
		if err != nil {
			return "err-bind " + dc.String()
		}
		if changed {
			bvs = nv
		}
	}
	var out [][]byte
	for _, b := range bvs {
		d, _ := b.GetData(nil)
		out = append(out, d)
	}
	return fmt.Sprintf("ok %s %s %s", dc.String(), listStr(out), bitsOf(dc, rows, out))
}

// ---- both observers of the proxies: consistent tokenization, then searchable encryption ----

// chain: the statement goes through the tokenization observer and then the searchable-encryption
// observer (the order of proxy.go), over rows stored the way the proxy stores them: a searchable column
// holds hash ‖ envelope, a consistently tokenized column holds the token the REAL tokenizer (memory token
// store) issues for the plaintext. Implementation and oracle only – the token values are random.
func chain(dialect string, v variant, hk string, kv *env.KV, colsTok string, c *cond, params [][]byte, plainRows []row) string {
	ks := store(hk, kv)
	mysql := dialect == "mysql"
	schema, _ := schemaFor(colsTok, v.kind, v.typed && !mysql, mysql)
	kinds := parseKinds(colsTok)
	st, err := storage.NewMemoryTokenStorage()
	if err != nil {
		panic("harness: " + err.Error())
	}
	pa, err := pseudonymization.NewPseudoanonymizer(st)
	if err != nil {
		panic("harness: " + err.Error())
	}
	dt, _ := pseudonymization.NewDataTokenizer(pa)
	te, _ := pseudonymization.NewTokenEncryptor(dt)
	reg := crypto.NewRegistryHandler(ks)
	se, err := hmac.NewSearchableEncryptor(ks, reg, reg)
	if err != nil {
		panic("harness: " + err.Error())
	}
	var rows []row
	for _, pr := range plainRows {
		sr := row{}
		for k, val := range pr {
			setting := schema.GetTableSchema(fmt.Sprintf("t%d", k.tbl)).GetColumnEncryptionSettings(fmt.Sprintf("c%d", k.col))
			switch kinds[k] {
			case 's':
				x, err := se.EncryptWithClientID([]byte(clientID), val, setting)
				if err != nil {
					return "err-store"
				}
				sr[k] = x
			case 't':
				x, err := te.EncryptWithClientID([]byte(clientID), val, setting)
				if err != nil {
					return "err-store"
				}
				sr[k] = x
			default:
				sr[k] = val
			}
		}
		rows = append(rows, sr)
	}
	if mysql {
		return runMySQL(v, []myObserver{pseudonymization.NewMySQLTokenizeQuery(schema, te), hqmysql.NewHashQuery(ks, schema, reg)}, c, params, rows)
	}
	return runPG(v, []pgObserver{pseudonymization.NewPostgresqlTokenizeQuery(schema, te), hqpg.NewHashQuery(ks, schema, reg)}, c, params, rows)
}

func init() {
	// chain dialect hkey [kv ×4] cols cond params PLAIN rows variant → like `query`, through both observers
	core.Register("C09.chain", func(a []string) string {
		return chain(a[0], parseVariant(a[10]), a[1], env.ParseKV(a[2:6]), a[6], parseCond(a[7]), env.ParseList(a[8]), parseRows(a[9]))
	})
	// query dialect hkey [kv ×4] searchableCols cond params rows variant
	// (the model ignores `variant`: the spelling of the statement must not matter)
	core.Register("C09.query", func(a []string) string {
		v := parseVariant(a[10])
		kv := env.ParseKV(a[2:6])
		c := parseCond(a[7])
		params := env.ParseList(a[8])
		rows := parseRows(a[9])
		if a[0] == "pg" {
			return queryPG(v, a[1], kv, a[6], c, params, rows)
		}
		return queryMySQL(v, a[1], kv, a[6], c, params, rows)
	})
}
