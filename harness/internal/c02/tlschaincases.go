package c02

import (
	"fmt"

	"verifharness/internal/core"
)

func caDesc(rd *core.Rand, cn string) certDesc {
	return canonCert(certDesc{Serial: randSerial(rd), KeySeed: rd.Bytes(8), O: [][]byte{[]byte("verif")}, CN: []byte(cn)})
}

func chainLine(entry, mode string, chain, extras []chainCert, sendRoot bool, root chainCert) string {
	sr := "0"
	if sendRoot {
		sr = "1"
	}
	return fmt.Sprintf("C02.tlsconn.id %s %s %s %s %s %s", entry, mode, chainTokens(chain), chainTokens(extras), sr, root.tokens())
}

var chainEntries = []string{"grpc", "wrap", "tlsconn", "conn"}

// chainCases: families of client certificates behind 0–2 intermediate CAs of one root (the only certificate the
// server trusts). Every client connects through every entry point, sending its chain alone, with the root
// appended, with ANOTHER client's certificate appended, with an unrelated CA certificate appended. Compared with
// the model (`siteIdentity` over the regenerated site table); oracles on the implementation's answers:
// two clients with different identities never share a client id, one client always gets the same id – the one
// the extractor gives its own certificate –, whatever it appends and whichever entry point it uses.
func chainCases(r *core.Run) {
	rd := r.Rand
	for w := 0; w < r.N(6, 100); w++ {
		mode := []string{"dn", "serial"}[w%2]
		root := chainCert{"C", caDesc(rd, "verif root")}
		var inters []chainCert
		for i := 0; i < []int{1, 1, 2, 0, 1}[w%5]; i++ {
			inters = append(inters, chainCert{"C", caDesc(rd, fmt.Sprintf("verif intermediate %d", i))})
		}
		fam, kinds := certFamily(rd)
		// the clients: the base certificate and two relatives (three in the thorough tier)
		idx := []int{0, 1 + rd.Intn(len(fam)-1), 1 + rd.Intn(len(fam)-1)}
		if r.Thorough() {
			idx = append(idx, 1+rd.Intn(len(fam)-1))
		}
		type client struct {
			c    chainCert
			kind string
			ids  map[string]bool
		}
		var clients []*client
		for k, i := range idx {
			role := "L"
			if k == 2 && w%4 == 1 {
				role = "N" // a client certificate without an authentication key usage
			}
			clients = append(clients, &client{c: chainCert{role, fam[i]}, kind: kinds[i], ids: map[string]bool{}})
		}
		if w%6 == 5 { // a client that presents a CA certificate as its own
			clients = append(clients, &client{c: chainCert{"C", caDesc(rd, "client with a CA certificate")}, kind: "ca-as-client", ids: map[string]bool{}})
		}
		junkCA := chainCert{"C", caDesc(rd, "unrelated CA")}
		for ci, cl := range clients {
			chain := append([]chainCert{cl.c}, inters...)
			other := clients[(ci+1)%len(clients)].c
			variants := []struct {
				name     string
				extras   []chainCert
				sendRoot bool
			}{
				{"chain", nil, false},
				{"chain+root", nil, true},
				{"chain+other-client", []chainCert{other}, false},
				{"chain+unrelated-ca", []chainCert{junkCA}, false},
				{"chain+other-client+root", []chainCert{other}, true},
			}
			if other.role != "L" {
				variants[2].extras, variants[4].extras = []chainCert{{"L", other.d}}, []chainCert{{"L", other.d}}
			}
			// what the extractor gives the client's own certificate
			own, ownOK := tlsID(r, mode, cl.c.d)
			for vi, v := range variants {
				if !r.Thorough() && vi > 0 && rd.Chance(35) {
					continue
				}
				for _, entry := range chainEntries {
					r.Begin(fmt.Sprintf("tlschain-%s-%s-%d-%s-%x", mode, entry, len(inters), v.name, cl.c.d.KeySeed), true,
						"entry:tls-chain", "via:"+entry, "mode:"+mode, fmt.Sprintf("intermediates:%d", len(inters)), "sent:"+v.name, "role:"+cl.c.role, "cert:"+cl.kind)
					out := r.Do(chainLine(entry, mode, chain, v.extras, v.sendRoot, root))
					what := fmt.Sprintf("%s mode, %s, %d intermediate(s), client %s (role %s) sending %s", mode, entry, len(inters), cl.kind, cl.c.role, v.name)
					r.Check(out != core.Panic && out != "inconsistent", "tls-chain-panic", what+": "+out)
					if out == core.Err {
						// refused: only where the certificate has no identity (empty subject in DN mode) or – on the
						// entry points that validate – is a CA certificate / lacks an authentication usage
						refusable := !ownOK || (entry != "grpc" && cl.c.role != "L")
						r.Check(refusable, "tls-chain-refused", what+": a client with a valid certificate got no identity")
						continue
					}
					r.Check(entry == "grpc" || cl.c.role == "L", "tls-chain-not-validated", what+": a certificate that must not authenticate a client got an identity")
					// ORACLE: the identity of the connection is the identity of the client's OWN certificate
					r.Check(ownOK && out == core.Hex(own), "tls-connection-identity", what+": the connection got a client id that is not the id of the client's own certificate")
					cl.ids[out] = true
				}
			}
		}
		// ORACLE: different clients never share a client id; one client has one id
		r.Begin(fmt.Sprintf("tlschain-%s-%d-distinct-%x", mode, w, root.d.KeySeed), true, "entry:tls-chain", "mode:"+mode)
		for i, a := range clients {
			r.Check(len(a.ids) <= 1, "tls-identity-unstable", fmt.Sprintf("%s mode: one client got %d different client ids depending on what it appended / the entry point", mode, len(a.ids)))
			for j := 0; j < i; j++ {
				b := clients[j]
				if sameIdentity(mode, a.c.d, b.c.d) {
					continue
				}
				for id := range a.ids {
					r.Check(!b.ids[id], "tls-identities-merged",
						fmt.Sprintf("%s mode, %d intermediate(s): clients %s and %s (different %s) were given the same client id", mode, len(inters), b.kind, a.kind, map[string]string{"dn": "distinguished name", "serial": "serial number"}[mode]))
				}
			}
		}
	}
}
