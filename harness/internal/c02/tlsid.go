package c02

import (
	"bytes"
	"crypto/ed25519"
	"crypto/rand"
	"crypto/tls"
	"crypto/x509"
	"crypto/x509/pkix"
	"fmt"
	"math/big"
	"strings"
	"time"

	"github.com/cossacklabs/acra/network"

	"verifharness/internal/core"
)

// certDesc describes one client certificate as far as the identity derivation can see it (subject made of
// the standard attributes, serial number) plus the seed of its ed25519 key. It travels in op lines as 11
// tokens:  serial keySeed C ST L STREET POSTALCODE O OU CN SERIALNUMBER
// (serial: hex of the big-endian number, `-` = 0; list attributes: `_` = absent, otherwise comma-joined hex
// values with `-` for an empty value; CN / SERIALNUMBER: hex, `-` = absent).
type certDesc struct {
	Serial                          []byte
	KeySeed                         []byte
	C, ST, L, Street, Postal, O, OU [][]byte
	CN, SN                          []byte
}

const certTokens = 11

func listTok(l [][]byte) string {
	if len(l) == 0 {
		return "_"
	}
	s := make([]string, len(l))
	for i, v := range l {
		s[i] = core.Hex(v)
	}
	return strings.Join(s, ",")
}

func parseListTok(s string) [][]byte {
	if s == "_" {
		return nil
	}
	var out [][]byte
	for _, p := range strings.Split(s, ",") {
		out = append(out, core.UnHex(p))
	}
	return out
}

func (d certDesc) tokens() string {
	return strings.Join([]string{core.Hex(d.Serial), core.Hex(d.KeySeed), listTok(d.C), listTok(d.ST), listTok(d.L), listTok(d.Street),
		listTok(d.Postal), listTok(d.O), listTok(d.OU), core.Hex(d.CN), core.Hex(d.SN)}, " ")
}

func parseCertDesc(a []string) certDesc {
	if len(a) < certTokens {
		panic("harness: short certificate description")
	}
	return certDesc{Serial: core.UnHex(a[0]), KeySeed: core.UnHex(a[1]), C: parseListTok(a[2]), ST: parseListTok(a[3]), L: parseListTok(a[4]),
		Street: parseListTok(a[5]), Postal: parseListTok(a[6]), O: parseListTok(a[7]), OU: parseListTok(a[8]), CN: core.UnHex(a[9]), SN: core.UnHex(a[10])}
}

func strs(l [][]byte) []string {
	if len(l) == 0 {
		return nil
	}
	out := make([]string, len(l))
	for i, v := range l {
		out[i] = string(v)
	}
	return out
}

func (d certDesc) name() pkix.Name {
	return pkix.Name{Country: strs(d.C), Province: strs(d.ST), Locality: strs(d.L), StreetAddress: strs(d.Street), PostalCode: strs(d.Postal),
		Organization: strs(d.O), OrganizationalUnit: strs(d.OU), CommonName: string(d.CN), SerialNumber: string(d.SN)}
}

func (d certDesc) key() ed25519.PrivateKey {
	seed := make([]byte, ed25519.SeedSize)
	copy(seed, d.KeySeed)
	return ed25519.NewKeyFromSeed(seed)
}

// the validity window is fixed (no dependence on the day of the run other than lying inside it)
var (
	certNotBefore = time.Date(2020, 1, 1, 0, 0, 0, 0, time.UTC)
	certNotAfter  = time.Date(2120, 1, 1, 0, 0, 0, 0, time.UTC)
)

func (d certDesc) template() *x509.Certificate {
	return &x509.Certificate{
		SerialNumber: new(big.Int).SetBytes(d.Serial),
		Subject:      d.name(),
		NotBefore:    certNotBefore,
		NotAfter:     certNotAfter,
		KeyUsage:     x509.KeyUsageDigitalSignature,
		ExtKeyUsage:  []x509.ExtKeyUsage{x509.ExtKeyUsageClientAuth},
	}
}

// selfSigned builds the certificate with crypto/x509 and parses it back (what a TLS stack hands to Acra).
func (d certDesc) selfSigned() (*x509.Certificate, error) {
	key := d.key()
	tpl := d.template()
	der, err := x509.CreateCertificate(rand.Reader, tpl, tpl, key.Public(), key)
	if err != nil {
		return nil, err
	}
	return x509.ParseCertificate(der)
}

func bytesOf(l []string) [][]byte {
	if len(l) == 0 {
		return nil
	}
	out := make([][]byte, len(l))
	for i, v := range l {
		out[i] = []byte(v)
	}
	return out
}

// canonCert replaces the subject of a description by what a parser reads back from the certificate built from
// it: DER encodes a multi-valued attribute as a SET OF, whose members are sorted by their encoding, so the order
// of the values of one attribute is not the order they were written in. Descriptions in op lines are canonical
// (the implementation op checks it), so that model and implementation talk about the same parsed subject.
func canonCert(d certDesc) certDesc {
	c, err := d.selfSigned()
	if err != nil {
		panic("harness: certificate cannot be built: " + err.Error())
	}
	n := c.Subject
	d.C, d.ST, d.L, d.Street, d.Postal, d.O, d.OU = bytesOf(n.Country), bytesOf(n.Province), bytesOf(n.Locality), bytesOf(n.StreetAddress), bytesOf(n.PostalCode), bytesOf(n.Organization), bytesOf(n.OrganizationalUnit)
	d.CN, d.SN = []byte(n.CommonName), []byte(n.SerialNumber)
	d.Serial = c.SerialNumber.Bytes()
	return d
}

// authority is the harness' own CA (ed25519 keys from a seed): a root – the only certificate servers trust – and,
// for the chain shapes, an intermediate CA that issues the client certificates; clients then send
// `leaf, intermediate` (and whatever `appended` holds: certificates a client adds to what it sends).
type authority struct {
	cert     *x509.Certificate
	key      ed25519.PrivateKey
	pool     *x509.CertPool
	inter    *x509.Certificate
	interKey ed25519.PrivateKey
	appended [][]byte
}

func newAuthority(seed []byte) *authority { return newAuthorityShape(seed, false) }

func newAuthorityShape(seed []byte, intermediate bool) *authority {
	s := make([]byte, ed25519.SeedSize)
	copy(s, seed)
	key := ed25519.NewKeyFromSeed(s)
	tpl := &x509.Certificate{SerialNumber: big.NewInt(1), Subject: pkix.Name{CommonName: "verif harness CA", Organization: []string{"verif"}},
		NotBefore: certNotBefore, NotAfter: certNotAfter, IsCA: true, BasicConstraintsValid: true, KeyUsage: x509.KeyUsageCertSign | x509.KeyUsageDigitalSignature}
	der, err := x509.CreateCertificate(rand.Reader, tpl, tpl, key.Public(), key)
	must(err)
	cert, err := x509.ParseCertificate(der)
	must(err)
	pool := x509.NewCertPool()
	pool.AddCert(cert)
	a := &authority{cert: cert, key: key, pool: pool}
	if intermediate {
		is := make([]byte, ed25519.SeedSize)
		copy(is, append([]byte("intermediate"), seed...))
		a.interKey = ed25519.NewKeyFromSeed(is)
		itpl := &x509.Certificate{SerialNumber: big.NewInt(3), Subject: pkix.Name{CommonName: "verif harness intermediate CA", Organization: []string{"verif"}},
			NotBefore: certNotBefore, NotAfter: certNotAfter, IsCA: true, BasicConstraintsValid: true, KeyUsage: x509.KeyUsageCertSign | x509.KeyUsageDigitalSignature}
		ider, err := x509.CreateCertificate(rand.Reader, itpl, cert, a.interKey.Public(), key)
		must(err)
		a.inter, err = x509.ParseCertificate(ider)
		must(err)
	}
	return a
}

// issue signs a leaf for the description (client certificate: by the intermediate when there is one; what the
// client sends is leaf, intermediate, appended…) or the server certificate for `localhost` (by the root).
func (a *authority) issue(d certDesc, server bool) (tls.Certificate, *x509.Certificate, error) {
	key := d.key()
	tpl := d.template()
	parent, signer := a.cert, a.key
	if server {
		tpl.ExtKeyUsage = []x509.ExtKeyUsage{x509.ExtKeyUsageServerAuth}
		tpl.DNSNames = []string{"localhost"}
	} else if a.inter != nil {
		parent, signer = a.inter, a.interKey
	}
	der, err := x509.CreateCertificate(rand.Reader, tpl, parent, key.Public(), signer)
	if err != nil {
		return tls.Certificate{}, nil, err
	}
	leaf, err := x509.ParseCertificate(der)
	if err != nil {
		return tls.Certificate{}, nil, err
	}
	sent := [][]byte{der}
	if !server && a.inter != nil {
		sent = append(sent, a.inter.Raw)
		for _, x := range a.appended {
			if !bytes.Equal(x, der) {
				sent = append(sent, x)
			}
		}
	}
	return tls.Certificate{Certificate: sent, PrivateKey: key, Leaf: leaf}, leaf, nil
}

// newExtractor builds the extractor the way acra-server / acra-translator do at start-up.
func newExtractor(mode string) network.TLSClientIDExtractor {
	conv, err := network.NewDefaultHexIdentifierConverter()
	must(err)
	ie, err := network.NewIdentifierExtractorByType(mode)
	must(err)
	ex, err := network.NewTLSClientIDExtractor(ie, conv)
	must(err)
	return ex
}

// ---------------------------------------------------------------------------------------------------------
// generators

var (
	dnWords   = []string{"billing", "payments", "marketing", "Example", "acme", "db-client", "svc", "eu-west", "Kyiv", "London", "UA", "GB", "ops", "team a", "R&D"}
	dnSpecial = []string{"a,b", "a+b", "x+OU=y", "a,O=b", " lead", "trail ", "#tag", "in#side", `q"uote`, `back\slash`, "<lt>", "semi;colon", "a=b", "ключ", "名前", "é", " ", "", "a\\,b", "CN=x", "\\"}
)

func dnValue(rd *core.Rand) []byte {
	switch {
	case rd.Chance(60):
		return []byte(core.Pick(rd, dnWords))
	case rd.Chance(70):
		return []byte(core.Pick(rd, dnSpecial))
	default:
		n := 1 + rd.Intn(10)
		b := make([]byte, n)
		for i := range b {
			b[i] = byte(0x20 + rd.Intn(0x5f)) // printable ASCII incl. every escaped character
		}
		return b
	}
}

func dnList(rd *core.Rand, p int) [][]byte {
	if !rd.Chance(p) {
		return nil
	}
	n := 1
	if rd.Chance(30) {
		n = 2 + rd.Intn(2)
	}
	var out [][]byte
	for i := 0; i < n; i++ {
		out = append(out, dnValue(rd))
	}
	return out
}

func randSerial(rd *core.Rand) []byte {
	switch rd.Intn(6) {
	case 0:
		return []byte{byte(1 + rd.Intn(255))}
	case 1:
		return append([]byte{byte(1 + rd.Intn(127))}, rd.Bytes(1+rd.Intn(3))...)
	case 2:
		return append([]byte{byte(1 + rd.Intn(127))}, rd.Bytes(19)...) // 20 octets, the RFC 5280 maximum
	default:
		return append([]byte{byte(1 + rd.Intn(127))}, rd.Bytes(7+rd.Intn(8))...)
	}
}

func randCert(rd *core.Rand) certDesc {
	d := certDesc{Serial: randSerial(rd), KeySeed: rd.Bytes(8), C: dnList(rd, 40), ST: dnList(rd, 15), L: dnList(rd, 20), Street: dnList(rd, 8),
		Postal: dnList(rd, 8), O: dnList(rd, 60), OU: dnList(rd, 60)}
	if rd.Chance(85) {
		d.CN = dnValue(rd)
	}
	if rd.Chance(10) {
		d.SN = dnValue(rd)
	}
	return canonCert(d)
}

func cloneCert(d certDesc) certDesc {
	cp := func(l [][]byte) [][]byte {
		if l == nil {
			return nil
		}
		out := make([][]byte, len(l))
		for i := range l {
			out[i] = append([]byte{}, l[i]...)
		}
		return out
	}
	return certDesc{Serial: append([]byte{}, d.Serial...), KeySeed: append([]byte{}, d.KeySeed...), C: cp(d.C), ST: cp(d.ST), L: cp(d.L), Street: cp(d.Street),
		Postal: cp(d.Postal), O: cp(d.O), OU: cp(d.OU), CN: append([]byte{}, d.CN...), SN: append([]byte{}, d.SN...)}
}

// certFamily: a base certificate and relatives that share most of it – same CN with another OU / O / serial,
// another CN only, the identical DN under another serial, the identical DN and serial under another key, the
// multi-valued attribute reordered or merged into one value with the separator inside, a neighbouring serial.
func certFamily(rd *core.Rand) (fam []certDesc, kinds []string) {
	base := randCert(rd)
	if len(base.CN) == 0 {
		base.CN = []byte(core.Pick(rd, dnWords))
	}
	add := func(kind string, f func(d *certDesc)) {
		d := cloneCert(base)
		d.KeySeed = rd.Bytes(8)
		f(&d)
		fam = append(fam, d)
		kinds = append(kinds, kind)
	}
	fam, kinds = append(fam, base), append(kinds, "base")
	add("same-cn-other-ou", func(d *certDesc) { d.OU = append([][]byte{dnValue(rd)}, d.OU...); d.Serial = randSerial(rd) })
	add("same-cn-other-o", func(d *certDesc) {
		d.O = [][]byte{[]byte(fmt.Sprintf("org-%x", rd.Bytes(2)))}
		d.Serial = randSerial(rd)
	})
	add("same-dn-other-serial", func(d *certDesc) { d.Serial = randSerial(rd) })
	add("other-cn-only", func(d *certDesc) {
		d.CN = append(append([]byte{}, d.CN...), byte('0'+rd.Intn(10)))
		d.Serial = randSerial(rd)
	})
	add("same-dn-same-serial-other-key", func(d *certDesc) {})
	switch rd.Intn(5) {
	case 0:
		add("ou-reordered", func(d *certDesc) {
			d.OU = [][]byte{[]byte("alpha"), []byte("beta")}
			d.Serial = randSerial(rd)
		})
		add("ou-reordered-2", func(d *certDesc) {
			d.OU = [][]byte{[]byte("beta"), []byte("alpha")}
			d.Serial = randSerial(rd)
		})
	case 1:
		add("ou-two-values", func(d *certDesc) { d.OU = [][]byte{[]byte("x"), []byte("y")}; d.Serial = randSerial(rd) })
		add("ou-one-value-with-separator", func(d *certDesc) { d.OU = [][]byte{[]byte("x+OU=y")}; d.Serial = randSerial(rd) })
	case 2:
		add("cn-with-comma", func(d *certDesc) { d.CN = []byte("a,O=b"); d.O = nil; d.OU = nil; d.Serial = randSerial(rd) })
		add("cn-and-o", func(d *certDesc) {
			d.CN = []byte("a")
			d.O = [][]byte{[]byte("b")}
			d.OU = nil
			d.Serial = randSerial(rd)
		})
	case 3:
		add("serial-neighbour", func(d *certDesc) {
			n := new(big.Int).Add(new(big.Int).SetBytes(d.Serial), big.NewInt(1))
			d.Serial = n.Bytes()
		})
		add("serial-shifted", func(d *certDesc) { d.Serial = append(append([]byte{}, d.Serial...), 0) })
	case 4:
		add("same-cn-in-ou", func(d *certDesc) { d.OU = [][]byte{d.CN}; d.CN = nil; d.Serial = randSerial(rd) })
		add("cn-only", func(d *certDesc) {
			*d = certDesc{Serial: randSerial(rd), KeySeed: d.KeySeed, CN: d.CN}
		})
	}
	for i := range fam {
		fam[i] = canonCert(fam[i])
	}
	return
}

// ---------------------------------------------------------------------------------------------------------
// ops

func modeName(s string) string {
	s, _, _ = strings.Cut(s, "+") // "dn+inter", "serial+inter+other": the part after `+` is the certificate chain shape of a server
	switch s {
	case "dn":
		return network.IdentifierExtractorTypeDistinguishedName
	case "serial":
		return network.IdentifierExtractorTypeSerialNumber
	}
	panic("harness: unknown extractor mode " + s)
}

func registerTLSIdentityOps() {
	// tlsid.seq mode n (cert | nil)×n : ONE extractor built the production way handles the certificates in
	// order. Result: comma-joined client ids (hex) / `err`. A certificate is built with crypto/x509 from its
	// description (self-signed) and parsed back before it is handed to the extractor.
	core.Register("C02.tlsid.seq", func(a []string) string {
		ex := newExtractor(modeName(a[0]))
		n := core.Atoi(a[1])
		a = a[2:]
		var out []string
		for i := 0; i < n; i++ {
			var cert *x509.Certificate
			if a[0] == "nil" {
				a = a[1:]
			} else {
				var err error
				d := parseCertDesc(a)
				cert, err = d.selfSigned()
				if err != nil {
					panic("harness: certificate cannot be built: " + err.Error())
				}
				if canonCert(d).tokens() != d.tokens() {
					panic("harness: certificate description is not what a parser reads back from the certificate")
				}
				a = a[certTokens:]
			}
			id, err := ex.ExtractClientID(cert)
			if err != nil {
				out = append(out, core.Err)
			} else {
				out = append(out, core.Hex(id))
			}
		}
		if len(out) == 0 {
			return "_"
		}
		return strings.Join(out, ",")
	})
}

// certIdentity is what the harness itself (Go standard library only) reads of a certificate: the RFC 2253 form
// of the subject and the serial number. The oracle compares identities, never Acra's intermediate values.
func certIdentity(d certDesc) (dn string, serial *big.Int, ok bool) {
	c, err := d.selfSigned()
	if err != nil {
		return "", nil, false
	}
	return c.Subject.String(), c.SerialNumber, true
}

func sameIdentity(mode string, a, b certDesc) bool {
	da, sa, _ := certIdentity(a)
	db, sb, _ := certIdentity(b)
	if mode == "dn" {
		return da == db
	}
	return sa.Cmp(sb) == 0
}

func seqLine(mode string, seq []certDesc) string {
	parts := make([]string, len(seq))
	for i, d := range seq {
		parts[i] = d.tokens()
	}
	return fmt.Sprintf("C02.tlsid.seq %s %d %s", mode, len(seq), strings.Join(parts, " "))
}

// tlsID: the client id of one certificate from a fresh extractor (compared with the model).
func tlsID(r *core.Run, mode string, d certDesc) ([]byte, bool) {
	out := r.Do(seqLine(mode, []certDesc{d}))
	if out == core.Err || out == "_" {
		return nil, false
	}
	return core.UnHex(out), true
}

// identityCases: sequences of extractions on ONE long-lived extractor, both converter modes, compared with the
// model; oracle on the implementation's outputs: two certificates get the same id exactly when they have the
// same distinguished name (DN mode) / serial number (serial mode), whatever came before.
// identityCorpus: fixed witnesses that run first on every seed – the certificates of the demonstration of the
// seeded change C02-1 (one CN, two organisational units; the first subject again under the second serial).
func identityCorpus(r *core.Run) {
	a := canonCert(certDesc{Serial: big.NewInt(1001).Bytes(), KeySeed: []byte{1}, O: [][]byte{[]byte("Example")}, OU: [][]byte{[]byte("payments")}, CN: []byte("billing-service")})
	b := canonCert(certDesc{Serial: big.NewInt(2002).Bytes(), KeySeed: []byte{2}, O: [][]byte{[]byte("Example")}, OU: [][]byte{[]byte("marketing")}, CN: []byte("billing-service")})
	a2 := canonCert(certDesc{Serial: big.NewInt(2002).Bytes(), KeySeed: []byte{3}, O: [][]byte{[]byte("Example")}, OU: [][]byte{[]byte("payments")}, CN: []byte("billing-service")})
	for _, mode := range []string{"dn", "serial"} {
		for si, seq := range [][]certDesc{{a, b}, {b, a}, {a, a2, b}, {a2, a, b, a}} {
			r.Begin(fmt.Sprintf("tlsid-corpus-%s-%d", mode, si), true, "entry:tls-extractor", "mode:"+mode, "corpus")
			got := strings.Split(r.Do(seqLine(mode, seq)), ",")
			if !r.Check(len(got) == len(seq), "tls-extractor-run", "corpus sequence did not run") {
				continue
			}
			for i := range seq {
				for j := 0; j < i; j++ {
					if sameIdentity(mode, seq[i], seq[j]) {
						r.Check(got[i] == got[j], "tls-identity-unstable", fmt.Sprintf("%s mode: the same identity got two client ids (corpus sequence %d, positions %d, %d)", mode, si, j, i))
					} else {
						r.Check(got[i] != got[j], "tls-identities-merged", fmt.Sprintf("%s mode: two TLS identities with the same common name got the same client id (corpus sequence %d, positions %d, %d)", mode, si, j, i))
					}
				}
			}
		}
	}
}

func identityCases(r *core.Run) {
	rd := r.Rand
	identityCorpus(r)
	for w := 0; w < r.N(40, 1500); w++ {
		fam, kinds := certFamily(rd)
		if w%7 == 3 { // a certificate without any subject attribute: no identity in DN mode
			fam = append(fam, canonCert(certDesc{Serial: randSerial(rd), KeySeed: rd.Bytes(8)}))
			kinds = append(kinds, "empty-subject")
		}
		if w%5 == 2 { // unrelated certificates
			fam = append(fam, randCert(rd), randCert(rd))
			kinds = append(kinds, "random", "random")
		}
		for _, mode := range []string{"dn", "serial"} {
			// what each certificate gets from a fresh extractor
			fresh := make([]string, len(fam))
			for i, d := range fam {
				fresh[i] = r.Impl(seqLine(mode, []certDesc{d}))
			}
			for s := 0; s < 3; s++ {
				n := 2 + rd.Intn(7)
				idx := make([]int, n)
				for i := range idx {
					idx[i] = rd.Intn(len(fam))
				}
				if s == 0 { // every member once, in a random order, then the first again
					idx = rd2perm(rd, len(fam))
					idx = append(idx, idx[0])
				}
				seq := make([]certDesc, len(idx))
				var tags []string
				for i, j := range idx {
					seq[i] = fam[j]
					tags = append(tags, "cert:"+kinds[j])
				}
				r.Begin(fmt.Sprintf("tlsid-%s-%d-%d-%x", mode, w, s, fam[0].KeySeed), true, append(tags, "entry:tls-extractor", "mode:"+mode)...)
				out := r.Do(seqLine(mode, seq))
				got := strings.Split(out, ",")
				if !r.Check(len(got) == len(seq), "tls-extractor-run", "extraction sequence did not run: "+trunc(out)) {
					continue
				}
				for i := range seq {
					// the result for a certificate does not depend on what the extractor saw before
					r.Check(got[i] == fresh[idx[i]], "tls-identity-depends-on-history",
						fmt.Sprintf("%s mode: certificate #%d (%s) got %s at position %d of a sequence on one extractor but %s from a fresh extractor", mode, idx[i], kinds[idx[i]], trunc(got[i]), i, trunc(fresh[idx[i]])))
					for j := 0; j < i; j++ {
						if got[i] == core.Err || got[j] == core.Err {
							continue
						}
						same := sameIdentity(mode, seq[i], seq[j])
						if same {
							r.Check(got[i] == got[j], "tls-identity-unstable", fmt.Sprintf("%s mode: the same identity got two client ids (positions %d, %d)", mode, j, i))
						} else {
							r.Check(got[i] != got[j], "tls-identities-merged",
								fmt.Sprintf("%s mode: certificates %s and %s (different %s) got the same client id at positions %d and %d of one extractor", mode, kinds[idx[j]], kinds[idx[i]], map[string]string{"dn": "distinguished name", "serial": "serial number"}[mode], j, i))
						}
					}
					if got[i] == core.Err {
						dn, _, _ := certIdentity(seq[i])
						r.Check(mode == "dn" && dn == "", "tls-identity-refused", "a certificate with an identity was refused")
					} else {
						r.Check(len(got[i]) == 256, "tls-identity-shape", "client id is not the hex form of 128 characters")
					}
				}
			}
		}
	}
	// the nil certificate
	r.Begin("tlsid-nil", true, "entry:tls-extractor", "cert:nil")
	for _, mode := range []string{"dn", "serial"} {
		d := randCert(rd)
		d.CN = []byte("client-" + core.Pick(rd, dnWords)) // never the empty subject: it has no identity in DN mode
		d = canonCert(d)
		out := r.Do(fmt.Sprintf("C02.tlsid.seq %s 3 %s nil %s", mode, d.tokens(), d.tokens()))
		f := strings.Split(out, ",")
		r.Check(len(f) == 3 && f[1] == core.Err && f[0] == f[2] && f[0] != core.Err, "tls-identity-nil", "nil certificate in a sequence: "+trunc(out))
	}
}

func rd2perm(rd *core.Rand, n int) []int {
	p := make([]int, n)
	for i := range p {
		p[i] = i
	}
	for i := n - 1; i > 0; i-- {
		j := rd.Intn(i + 1)
		p[i], p[j] = p[j], p[i]
	}
	return p
}

var _ = bytes.Equal
