package c02

import (
	"bytes"
	"context"
	"crypto/tls"
	"encoding/base64"
	"encoding/json"
	"fmt"
	"io"
	"net"
	"net/http"
	"os"
	"path/filepath"
	"strings"
	"sync"
	"time"

	"github.com/gin-gonic/gin"
	"google.golang.org/grpc"
	"google.golang.org/grpc/credentials"

	"github.com/cossacklabs/acra/cmd/acra-translator/common"
	"github.com/cossacklabs/acra/cmd/acra-translator/grpc_api"
	"github.com/cossacklabs/acra/cmd/acra-translator/http_api"
	"github.com/cossacklabs/acra/network"
	"github.com/cossacklabs/acra/pseudonymization"
	tokenCommon "github.com/cossacklabs/acra/pseudonymization/common"
	tokenStorage "github.com/cossacklabs/acra/pseudonymization/storage"

	"verifharness/internal/core"
	env "verifharness/internal/envops"
)

// srvHandle is a running AcraTranslator as the production code assembles it: the gRPC server returned by the
// REAL grpc_api.NewServer(data, tlsWrapper) with UseConnectionClientID, and the HTTP service behind the
// connection-wrapper chain of cmd/acra-translator (connection → context, safe close, TLS transport last), both
// listening on unix sockets, both identifying their TLS peers with ONE long-lived extractor. Clients are real
// TLS clients (grpc.Dial / net/http) holding certificates issued by the harness' own CA.
type srvHandle struct {
	mode      string
	ca        *authority
	dir       string
	grpcSock  string
	httpSock  string
	grpcSrv   *grpc.Server
	cancel    context.CancelFunc
	tokenizer tokenCommon.Pseudoanonymizer
	mu        sync.Mutex
	conns     map[string]*grpc.ClientConn
	https     map[string]*http.Client
}

var (
	srvMu sync.Mutex
	srvs  = map[string]*srvHandle{}
)

func srv(h string) *srvHandle {
	srvMu.Lock()
	defer srvMu.Unlock()
	s, ok := srvs[h]
	if !ok {
		panic("harness: unknown server handle " + h)
	}
	return s
}

func (s *srvHandle) clientConfig(d certDesc) *tls.Config {
	cert, _, err := s.ca.issue(d, false)
	must(err)
	return &tls.Config{Certificates: []tls.Certificate{cert}, RootCAs: s.ca.pool, ServerName: "localhost", MinVersion: tls.VersionTLS12}
}

// grpcConn: the (cached) gRPC client connection of the TLS client holding the described certificate.
func (s *srvHandle) grpcConn(d certDesc) (*grpc.ClientConn, error) {
	key := d.tokens()
	s.mu.Lock()
	defer s.mu.Unlock()
	if c, ok := s.conns[key]; ok {
		return c, nil
	}
	ctx, cancel := context.WithTimeout(context.Background(), 10*time.Second)
	defer cancel()
	c, err := grpc.DialContext(ctx, s.grpcSock, grpc.WithTransportCredentials(credentials.NewTLS(s.clientConfig(d))), grpc.WithBlock(),
		grpc.WithContextDialer(func(ctx context.Context, addr string) (net.Conn, error) {
			return (&net.Dialer{}).DialContext(ctx, "unix", addr)
		}))
	if err != nil {
		return nil, err
	}
	s.conns[key] = c
	return c, nil
}

func (s *srvHandle) httpClient(d certDesc) *http.Client {
	key := d.tokens()
	s.mu.Lock()
	defer s.mu.Unlock()
	if c, ok := s.https[key]; ok {
		return c
	}
	c := &http.Client{Timeout: 10 * time.Second, Transport: &http.Transport{
		TLSClientConfig: s.clientConfig(d),
		DialContext: func(ctx context.Context, _, _ string) (net.Conn, error) {
			return (&net.Dialer{}).DialContext(ctx, "unix", s.httpSock)
		},
	}}
	s.https[key] = c
	return c
}

func (s *srvHandle) close() {
	s.mu.Lock()
	for _, c := range s.conns {
		c.Close()
	}
	for _, c := range s.https {
		c.CloseIdleConnections()
	}
	s.mu.Unlock()
	s.grpcSrv.Stop()
	s.cancel()
	os.RemoveAll(s.dir)
}

func newServer(mode string, caSeed []byte, ids []*ident) *srvHandle {
	env.Init()
	s := &srvHandle{mode: mode, ca: newAuthorityShape(caSeed, strings.Contains(mode, "+inter")), conns: map[string]*grpc.ClientConn{}, https: map[string]*http.Client{}}
	var err error
	s.dir, err = os.MkdirTemp("", "c02srv")
	must(err)
	s.grpcSock, s.httpSock = filepath.Join(s.dir, "grpc.sock"), filepath.Join(s.dir, "http.sock")
	srvCert, _, err := s.ca.issue(certDesc{Serial: []byte{2}, KeySeed: append([]byte("server"), caSeed...), CN: []byte("localhost")}, true)
	must(err)
	serverCfg := &tls.Config{Certificates: []tls.Certificate{srvCert}, ClientCAs: s.ca.pool, ClientAuth: tls.RequireAndVerifyClientCert, MinVersion: tls.VersionTLS12}
	// --- as cmd/acra-translator/acra-translator.go does at start-up
	extractor := newExtractor(modeName(mode))
	tlsWrapper, err := network.NewTLSAuthenticationConnectionWrapper(true, nil, serverCfg, extractor)
	must(err)
	httpWrapper, err := network.NewHTTPServerConnectionWrapper()
	must(err)
	httpWrapper.AddConnectionContextCallback(network.ConnectionToContextCallback{})
	safeClose := network.SafeCloseConnectionCallback{}
	httpWrapper.AddCallback(safeClose)
	tlsWrapper.AddOnServerHandshakeCallback(safeClose)
	ks := tksOf(ids)
	mem, err := tokenStorage.NewMemoryTokenStorage()
	must(err)
	enc, err := tokenStorage.NewSCellEncryptor(ks)
	must(err)
	s.tokenizer, err = pseudonymization.NewPseudoanonymizer(tokenStorage.WrapStorageWithEncryption(mem, enc))
	must(err)
	data := &common.TranslatorData{Keystorage: ks, Tokenizer: s.tokenizer, UseConnectionClientID: true, TLSClientIDExtractor: extractor}
	s.grpcSrv, err = grpc_api.NewServer(data, tlsWrapper)
	must(err)
	httpWrapper.AddCallback(tlsWrapper) // the transport callback is registered last
	// --- as cmd/acra-translator/server/server.go does
	gl, err := net.Listen("unix", s.grpcSock)
	must(err)
	go s.grpcSrv.Serve(gl)
	hl, err := net.Listen("unix", s.httpSock)
	must(err)
	httpWrapper.SetListener(hl)
	var ctx context.Context
	ctx, s.cancel = context.WithCancel(context.Background())
	translatorService, err := common.NewTranslatorService(data)
	must(err)
	gin.DefaultWriter, gin.DefaultErrorWriter = io.Discard, io.Discard
	httpService, err := http_api.NewHTTPService(translatorService, data, http_api.WithContext(ctx), http_api.WithConnectionContextHandler(httpWrapper.OnConnectionContext))
	must(err)
	go httpService.Start(httpWrapper)
	return s
}

// grpcAny sends one RPC of the API through a client stub. Results as in C02.grpc / C02.tr.grpc.
func grpcAny(cc grpc.ClientConnInterface, rpc string, forged, data, hash []byte) string {
	ctx, cancel := context.WithTimeout(context.Background(), 10*time.Second)
	defer cancel()
	switch rpc {
	case "Decrypt":
		r, err := grpc_api.NewReaderClient(cc).Decrypt(ctx, &grpc_api.DecryptRequest{ClientId: forged, Acrastruct: data})
		if err != nil {
			return core.Err
		}
		return core.OkHex(r.Data)
	case "DecryptSym":
		r, err := grpc_api.NewReaderSymClient(cc).DecryptSym(ctx, &grpc_api.DecryptSymRequest{ClientId: forged, Acrablock: data})
		if err != nil {
			return core.Err
		}
		return core.OkHex(r.Data)
	case "DecryptSearchable":
		r, err := grpc_api.NewSearchableEncryptionClient(cc).DecryptSearchable(ctx, &grpc_api.SearchableDecryptionRequest{ClientId: forged, Data: data, Hash: hash})
		if err != nil {
			return core.Err
		}
		return core.OkHex(r.Data)
	case "DecryptSymSearchable":
		r, err := grpc_api.NewSearchableEncryptionClient(cc).DecryptSymSearchable(ctx, &grpc_api.SearchableSymDecryptionRequest{ClientId: forged, Data: data, Hash: hash})
		if err != nil {
			return core.Err
		}
		return core.OkHex(r.Data)
	case "Tokenize", "Detokenize":
		req := &grpc_api.TokenizeRequest{ClientId: forged, Value: &grpc_api.TokenizeRequest_BytesValue{BytesValue: data}}
		var resp *grpc_api.TokenizeResponse
		var err error
		if rpc == "Tokenize" {
			resp, err = grpc_api.NewTokenizatorClient(cc).Tokenize(ctx, req)
		} else {
			resp, err = grpc_api.NewTokenizatorClient(cc).Detokenize(ctx, req)
		}
		if err != nil {
			return core.Err
		}
		return core.OkHex(resp.GetBytesToken())
	case "Encrypt":
		r, err := grpc_api.NewWriterClient(cc).Encrypt(ctx, &grpc_api.EncryptRequest{ClientId: forged, Data: data})
		if err != nil {
			return core.Err
		}
		return core.OkHex(r.Acrastruct)
	case "EncryptSym":
		r, err := grpc_api.NewWriterSymClient(cc).EncryptSym(ctx, &grpc_api.EncryptSymRequest{ClientId: forged, Data: data})
		if err != nil {
			return core.Err
		}
		return core.OkHex(r.Acrablock)
	case "EncryptSearchable":
		r, err := grpc_api.NewSearchableEncryptionClient(cc).EncryptSearchable(ctx, &grpc_api.SearchableEncryptionRequest{ClientId: forged, Data: data})
		if err != nil {
			return core.Err
		}
		return "ok " + core.Hex(r.Hash) + " " + core.Hex(r.Acrastruct)
	case "EncryptSymSearchable":
		r, err := grpc_api.NewSearchableEncryptionClient(cc).EncryptSymSearchable(ctx, &grpc_api.SearchableSymEncryptionRequest{ClientId: forged, Data: data})
		if err != nil {
			return core.Err
		}
		return "ok " + core.Hex(r.Hash) + " " + core.Hex(r.Acrablock)
	case "GenerateQueryHash":
		r, err := grpc_api.NewSearchableEncryptionClient(cc).GenerateQueryHash(ctx, &grpc_api.QueryHashRequest{ClientId: forged, Data: data})
		if err != nil {
			return core.Err
		}
		return core.OkHex(r.Hash)
	}
	panic("harness: unknown rpc " + rpc)
}

func registerServerOps() {
	// srv.new handle mode caSeed n idents… : a translator (gRPC + HTTP) over a fake key store with the identities
	core.Register("C02.srv.new", func(a []string) string {
		s := newServer(a[1], core.UnHex(a[2]), parseIdents(a[3:]))
		srvMu.Lock()
		srvs[a[0]] = s
		srvMu.Unlock()
		return "ok"
	})
	core.Register("C02.srv.close", func(a []string) string {
		s := srv(a[0])
		srvMu.Lock()
		delete(srvs, a[0])
		srvMu.Unlock()
		s.close()
		return "ok"
	})
	// srv.grpc handle rpc mode cert forged data hash [n idents…] : one RPC over the TLS connection of the client
	// holding `cert` (the connection is opened on first use and kept). The trailing identities are for the model.
	core.Register("C02.srv.grpc", func(a []string) string {
		s := srv(a[0])
		d := parseCertDesc(a[3:])
		rest := a[3+certTokens:]
		cc, err := s.grpcConn(d)
		if err != nil {
			return "noconn"
		}
		return grpcAny(cc, a[1], optBytes(rest[0]), core.UnHex(rest[1]), optBytes(rest[2]))
	})
	// srv.detok handle mode cert forged tok n (conn v tok)×n : Detokenize over the TLS connection of the client holding
	// `cert`; the trailing history (every value tokenized in this world so far, with the identity of the connection
	// it arrived on) is for the model
	core.Register("C02.srv.detok", func(a []string) string {
		s := srv(a[0])
		d := parseCertDesc(a[2:])
		rest := a[2+certTokens:]
		cc, err := s.grpcConn(d)
		if err != nil {
			return "noconn"
		}
		return grpcAny(cc, "Detokenize", optBytes(rest[0]), core.UnHex(rest[1]), nil)
	})
	// srv.http handle op cert data extraClientId : the HTTP API (v2, JSON) over TLS with the client certificate
	// `cert`; extraClientId (hex or none) is smuggled into the body. Result `<status> <data>`.
	core.Register("C02.srv.http", func(a []string) string {
		s := srv(a[0])
		d := parseCertDesc(a[2:])
		rest := a[2+certTokens:]
		body := map[string]any{"data": base64.StdEncoding.EncodeToString(core.UnHex(rest[0]))}
		if rest[1] != "none" {
			body["client_id"] = base64.StdEncoding.EncodeToString(core.UnHex(rest[1]))
			body["clientId"] = string(core.UnHex(rest[1]))
		}
		if a[1] == "tokenize" || a[1] == "detokenize" {
			body["type"] = int(tokenCommon.TokenType_Bytes)
		}
		jb, _ := json.Marshal(body)
		req, err := http.NewRequest(http.MethodPost, "https://localhost/v2/"+a[1], bytes.NewReader(jb))
		must(err)
		req.Header.Set("Content-Type", "application/json")
		resp, err := s.httpClient(d).Do(req)
		if err != nil {
			return "noconn"
		}
		defer resp.Body.Close()
		rb, _ := io.ReadAll(resp.Body)
		if resp.StatusCode != 200 {
			return fmt.Sprint(resp.StatusCode)
		}
		var out struct {
			Data string `json:"data"`
		}
		if err := json.Unmarshal(rb, &out); err != nil {
			return fmt.Sprintf("%d unparsable", resp.StatusCode)
		}
		b, err := base64.StdEncoding.DecodeString(out.Data)
		if err != nil {
			return fmt.Sprintf("%d unparsable", resp.StatusCode)
		}
		return fmt.Sprintf("%d %s", resp.StatusCode, core.Hex(b))
	})
	// srv.append handle cert : from now on every client of this server appends the (public) certificate of the
	// described client to what it sends in the handshake – after its own certificate and the intermediate
	core.Register("C02.srv.append", func(a []string) string {
		s := srv(a[0])
		c, _, err := s.ca.issue(parseCertDesc(a[1:]), false)
		must(err)
		s.ca.appended = append(s.ca.appended, c.Certificate[0])
		return "ok"
	})
	// srv.plant handle id value : a value tokenized for `id` over another entry point that shares the token
	// storage (AcraServer, the HTTP API): the token it got
	core.Register("C02.srv.plant", func(a []string) string {
		s := srv(a[0])
		t, err := s.tokenizer.AnonymizeConsistently(core.UnHex(a[2]), tokenCommon.TokenContext{ClientID: core.UnHex(a[1])}, tokenCommon.TokenType_Bytes)
		if err != nil {
			return core.Err
		}
		return core.OkHex(t.([]byte))
	})
}
