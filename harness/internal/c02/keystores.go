package c02

import (
	"context"
	"fmt"
	"os"
	"path/filepath"
	"strings"
	"sync"

	"github.com/cossacklabs/acra/keystore"
	"github.com/cossacklabs/acra/keystore/filesystem"
	keystoreV2 "github.com/cossacklabs/acra/keystore/v2/keystore"
	v2api "github.com/cossacklabs/acra/keystore/v2/keystore/api"
	v2asn1 "github.com/cossacklabs/acra/keystore/v2/keystore/asn1"
	v2fs "github.com/cossacklabs/acra/keystore/v2/keystore/filesystem"
	v2backend "github.com/cossacklabs/acra/keystore/v2/keystore/filesystem/backend"
	v2backendAPI "github.com/cossacklabs/acra/keystore/v2/keystore/filesystem/backend/api"

	"verifharness/internal/core"
	env "verifharness/internal/envops"
)

// realStore is a real Acra key store of either format, addressed by a handle of the op lines.
type realStore struct {
	format string // v1 | v2mem | v2dir
	dir    string
	master []byte
	sig    []byte
	cache  bool
	v1     *filesystem.KeyStore
	v2     *keystoreV2.ServerKeyStore
	be     v2backendAPI.Backend
	keep   []any // earlier instances (kept alive: their finalizers would close a shared back end)
	tmpN   int
	rings  map[string][]byte // ring files as first read by ks2.ring (load-as copies these pristine bytes)
}

var (
	storesMu sync.Mutex
	stores   = map[string]*realStore{}
)

func store(h string) *realStore {
	storesMu.Lock()
	defer storesMu.Unlock()
	s, ok := stores[h]
	if !ok {
		panic("harness: unknown key store handle " + h)
	}
	return s
}

func (s *realStore) ks() keystore.TranslationKeyStore {
	if s.v1 != nil {
		return s.v1
	}
	return s.v2
}

// open (re)opens the store: a fresh instance without any cached key.
func (s *realStore) open() {
	switch s.format {
	case "v1":
		enc, err := keystore.NewSCellKeyEncryptor(s.master)
		must(err)
		b := filesystem.NewCustomFilesystemKeyStore().KeyDirectory(s.dir).Encryptor(enc)
		if s.cache {
			b = b.CacheSize(keystore.InfiniteCacheSize)
		} else {
			b = b.CacheSize(keystore.WithoutCache)
		}
		ks, err := b.Build()
		must(err)
		s.v1 = ks
	case "v2mem", "v2dir":
		suite, err := keystoreV2.NewSCellSuite(s.master, s.sig)
		must(err)
		if s.format == "v2dir" {
			var be *v2backend.DirectoryBackend
			if _, statErr := os.Stat(filepath.Join(s.dir, "version")); statErr != nil && s.be == nil {
				be, err = v2backend.CreateDirectoryBackend(s.dir)
			} else {
				be, err = v2backend.OpenDirectoryBackend(s.dir)
			}
			must(err)
			s.be = be
		} else if s.be == nil {
			s.be = v2backend.NewInMemory()
		}
		ks, err := v2fs.CustomKeyStore(s.be, suite)
		must(err)
		s.keep = append(s.keep, ks)
		s.v2 = keystoreV2.NewServerKeyStore(ks)
	default:
		panic("harness: unknown key store format " + s.format)
	}
}

func must(err error) {
	if err != nil {
		panic("harness: " + err.Error())
	}
}

func v1Purpose(p string) keystore.KeyPurpose {
	switch p {
	case "private":
		return keystore.PurposeStorageClientPrivateKey
	case "sym":
		return keystore.PurposeStorageClientSymmetricKey
	case "hmac":
		return keystore.PurposeSearchHMAC
	}
	panic("harness: unknown purpose " + p)
}

// current reads the current secret key of (what, id) through the store's own getter.
func (s *realStore) current(what string, id []byte) ([]byte, error) {
	ks := s.ks()
	switch what {
	case "private":
		k, err := ks.GetServerDecryptionPrivateKey(id)
		if err != nil {
			return nil, err
		}
		return k.Value, nil
	case "sym":
		return ks.GetClientIDSymmetricKey(id)
	case "hmac":
		return ks.GetHMACSecretKey(id)
	}
	panic("harness: unknown key class " + what)
}

// view reads everything the store hands out for one identity.
func (s *realStore) view(id []byte) *ident {
	ks := s.ks()
	out := &ident{id: id, kv: &env.KV{}}
	if p, err := ks.GetClientIDEncryptionPublicKey(id); err != nil {
		out.kv.NoPub = true
	} else {
		out.kv.Pub = p.Value
	}
	if ps, err := ks.GetServerDecryptionPrivateKeys(id); err != nil {
		out.kv.NoPrivs = true
	} else {
		out.kv.Privs = [][]byte{}
		for _, p := range ps {
			out.kv.Privs = append(out.kv.Privs, p.Value)
		}
	}
	if k, err := ks.GetClientIDSymmetricKey(id); err != nil {
		out.kv.NoSym = true
	} else {
		out.kv.Sym = k
	}
	if k, err := ks.GetClientIDSymmetricKeys(id); err != nil {
		out.kv.NoSyms = true
	} else {
		out.kv.Syms = [][]byte{}
		out.kv.Syms = append(out.kv.Syms, k...)
	}
	if k, err := ks.GetHMACSecretKey(id); err != nil {
		out.noHmac = true
	} else {
		out.hmac = k
	}
	return out
}

func (s *realStore) putRaw(path string, data []byte) error {
	s.tmpN++
	tmp := fmt.Sprintf("verif-tmp-%d", s.tmpN)
	if err := s.be.Put(tmp, data); err != nil {
		return err
	}
	return s.be.Rename(tmp, path)
}

func registerKeystoreOps() {
	// ks.new format handle master sig cache
	core.Register("C02.ks.new", func(a []string) string {
		s := &realStore{format: a[0], master: core.UnHex(a[2]), sig: core.UnHex(a[3]), cache: a[4] == "1"}
		if s.format != "v2mem" {
			d, err := os.MkdirTemp("", "verif-c02-")
			must(err)
			must(os.Chmod(d, 0o700))
			s.dir = d
			if s.format == "v2dir" {
				s.dir = filepath.Join(d, "ks")
			}
		}
		s.open()
		storesMu.Lock()
		if old, ok := stores[a[1]]; ok && old.dir != "" {
			os.RemoveAll(old.dir)
		}
		stores[a[1]] = s
		storesMu.Unlock()
		return "ok"
	})
	core.Register("C02.ks.close", func(a []string) string {
		storesMu.Lock()
		defer storesMu.Unlock()
		if s, ok := stores[a[0]]; ok {
			if s.dir != "" {
				d := s.dir
				if s.format == "v2dir" {
					d = filepath.Dir(d)
				}
				os.RemoveAll(d)
			}
			delete(stores, a[0])
		}
		return "ok"
	})
	core.Register("C02.ks.reopen", func(a []string) string { store(a[0]).open(); return "ok" })
	// ks.gen handle id what : generate / rotate a key through the store's own API
	core.Register("C02.ks.gen", func(a []string) string {
		s, id := store(a[0]), core.UnHex(a[1])
		var err error
		switch a[2] {
		case "pair":
			if s.v1 != nil {
				err = s.v1.GenerateDataEncryptionKeys(id)
			} else {
				err = s.v2.GenerateDataEncryptionKeys(id)
			}
		case "sym":
			if s.v1 != nil {
				err = s.v1.GenerateClientIDSymmetricKey(id)
			} else {
				err = s.v2.GenerateClientIDSymmetricKey(id)
			}
		case "hmac":
			if s.v1 != nil {
				err = s.v1.GenerateHmacKey(id)
			} else {
				err = s.v2.GenerateHmacKey(id)
			}
		default:
			panic("harness: unknown key class " + a[2])
		}
		if err != nil {
			return core.Err
		}
		return "ok"
	})
	// ks.view handle id : `id pub privs sym syms hmac`
	core.Register("C02.ks.view", func(a []string) string { return store(a[0]).view(core.UnHex(a[1])).tokens() })
	// ks1.read handle name : raw content of a key file
	core.Register("C02.ks1.read", func(a []string) string {
		b, err := os.ReadFile(filepath.Join(store(a[0]).dir, string(core.UnHex(a[1]))))
		return okOrErr(b, err)
	})
	// ks1.loadas handle purpose from purpose' to master blob src dst : copy the key file `src` (of (purpose, from))
	// to `dst` (the name of (purpose', to)), open the store afresh and ask for the key of (purpose', to)
	core.Register("C02.ks1.loadas", func(a []string) string {
		s := store(a[0])
		// the bytes of the source file as they were when the harness read them (a[6]); the file itself may
		// have been overwritten by an earlier load-as
		dst := string(core.UnHex(a[8]))
		must(os.WriteFile(filepath.Join(s.dir, dst), core.UnHex(a[6]), 0o600))
		s.open()
		return okOrErr(s.current(a[3], core.UnHex(a[4])))
	})
	// ks1.plant handle purpose id key dst : control for loadas – seal `key` for (purpose, id) with the real
	// encryptor, write it to `dst`, load it through the getter
	core.Register("C02.ks1.plant", func(a []string) string {
		s := store(a[0])
		enc, err := keystore.NewSCellKeyEncryptor(s.master)
		must(err)
		id := core.UnHex(a[2])
		blob, err := enc.Encrypt(context.Background(), core.UnHex(a[3]), keystore.NewClientIDKeyContext(v1Purpose(a[1]), id))
		must(err)
		must(os.WriteFile(filepath.Join(s.dir, string(core.UnHex(a[4]))), blob, 0o600))
		s.open()
		return okOrErr(s.current(a[1], id))
	})
	// ks2.ring handle path : `ok payload signature n (seqnum kind blob)×n` of the ring file at path
	core.Register("C02.ks2.ring", func(a []string) string {
		s := store(a[0])
		raw, err := s.be.Get(string(core.UnHex(a[1])) + ".keyring")
		if err != nil {
			return core.Err
		}
		if s.rings == nil {
			s.rings = map[string][]byte{}
		}
		if _, seen := s.rings[a[1]]; !seen {
			s.rings[a[1]] = append([]byte{}, raw...)
		}
		c, err := v2asn1.UnmarshalVerifiedContainer(raw)
		must(err)
		ring, err := v2asn1.UnmarshalKeyRing(c.Payload.Data.FullBytes)
		must(err)
		if len(c.Signatures) != 1 {
			panic("harness: expected one ring signature")
		}
		var parts []string
		n := 0
		for _, k := range ring.Keys {
			for _, d := range k.Data {
				if len(d.PrivateKey) > 0 {
					parts = append(parts, fmt.Sprintf("%d private %s", k.Seqnum, core.Hex(d.PrivateKey)))
					n++
				}
				if len(d.SymmetricKey) > 0 {
					parts = append(parts, fmt.Sprintf("%d sym %s", k.Seqnum, core.Hex(d.SymmetricKey)))
					n++
				}
			}
		}
		return strings.TrimSpace(fmt.Sprintf("ok %s %s %d %s", core.Hex(c.Payload.RawContent), core.Hex(c.Signatures[0].Signature), n, strings.Join(parts, " ")))
	})
	// ks2.loadas handle ring from ring' to sigkey payload sig src dst : copy the ring file at `src` to `dst`
	// (the ring path of (ring', to)), open the store afresh, ask for the current key of (ring', to)
	core.Register("C02.ks2.loadas", func(a []string) string {
		s := store(a[0])
		dst := string(core.UnHex(a[9]))
		raw, ok := s.rings[a[8]] // pristine bytes of the source ring (the file may have been overwritten since)
		if !ok {
			panic("harness: ks2.loadas before ks2.ring")
		}
		must(s.putRaw(dst+".keyring", append([]byte{}, raw...)))
		s.open()
		return okOrErr(s.current(a[3], core.UnHex(a[4])))
	})
	// ks2.current handle what id : the current key through the getter (ok hex | err)
	core.Register("C02.ks.current", func(a []string) string {
		return okOrErr(store(a[0]).current(a[1], core.UnHex(a[2])))
	})
	// keys.view handle what id n (owner key)×n : all keys of `id` of one class as the real store lists them, newest first
	core.Register("C02.keys.view", func(a []string) string {
		v := store(a[0]).view(core.UnHex(a[2]))
		var ks [][]byte
		switch a[1] {
		case "private":
			ks = v.kv.Privs
		case "sym":
			ks = v.kv.Syms
		default:
			panic("harness: keys.view: unknown class " + a[1])
		}
		return env.List(ks)
	})
	// ctx.v1.open master purpose id blob : SCellKeyEncryptor.Decrypt under the key context of (purpose, id)
	core.Register("C02.ctx.v1.open", func(a []string) string {
		enc, err := keystore.NewSCellKeyEncryptor(core.UnHex(a[0]))
		must(err)
		return okOrErr(enc.Decrypt(context.Background(), core.UnHex(a[3]), keystore.NewClientIDKeyContext(v1Purpose(a[1]), core.UnHex(a[2]))))
	})
	// ctx.v2.open master path kind seqnum blob : unseal as key `seqnum` of the ring at `path` (real ring code)
	core.Register("C02.ctx.v2.open", func(a []string) string {
		master := core.UnHex(a[0])
		suite, err := keystoreV2.NewSCellSuite(master, master)
		must(err)
		ks, err := v2fs.NewInMemory(suite)
		must(err)
		defer ks.Close()
		return okOrErr(v2fs.VerifUnsealKey(v2api.KeyStore(ks), string(core.UnHex(a[1])), a[2] == "private", core.Atoi(a[3]), core.UnHex(a[4])))
	})
}
