package c02

import (
	"context"
	"encoding/hex"
	"errors"
	"fmt"
	"net"
	"strconv"
	"strings"
	"sync"

	pg_query "github.com/cossacklabs/pg_query_go/v5"

	"github.com/cossacklabs/acra/decryptor/base"
	encryptor "github.com/cossacklabs/acra/encryptor/base"
	"github.com/cossacklabs/acra/encryptor/base/config"
	myenc "github.com/cossacklabs/acra/encryptor/mysql"
	pgenc "github.com/cossacklabs/acra/encryptor/postgresql"
	"github.com/cossacklabs/acra/pseudonymization"
	tokenCommon "github.com/cossacklabs/acra/pseudonymization/common"
	tokenStorage "github.com/cossacklabs/acra/pseudonymization/storage"
	"github.com/cossacklabs/acra/sqlparser"

	"verifharness/internal/core"
)

// Tokenized columns behind the SQL proxies (seeded change C02-4): the REAL schema store built from a generated
// YAML encryptor config, the REAL statement encryptors of both proxies (encryptor/postgresql and encryptor/mysql
// QueryDataEncryptor.OnQuery on an INSERT statement – they choose the client id of the write) chained to the REAL
// TokenEncryptor, and the REAL TokenProcessor.OnColumn on the read side, all over ONE real pseudoanonymizer and
// one in-memory token storage. The only stand-in is the random value generator: a scripted common.Anonymizer
// that hands out the candidate tokens the op line lists, so that a line is a pure function (replayable, and the
// model can follow the very same draws).

// tokCol is one column of table `t` of the generated encryptor config.
type tokCol struct {
	name       string
	cid        []byte // `client_id:` (empty: none)
	ty         int    // common.TokenType code; 0 = listed in `columns` only (no encryption setting)
	consistent bool
}

var tokTypeNames = map[int]string{1: "int32", 2: "int64", 3: "str", 4: "bytes", 5: "email"}

func tokYAML(cols []tokCol) string {
	var b strings.Builder
	b.WriteString("schemas:\n  - table: t\n    columns:\n      - id\n")
	for _, c := range cols {
		fmt.Fprintf(&b, "      - %s\n", c.name)
	}
	first := true
	for _, c := range cols {
		if c.ty == 0 {
			continue
		}
		if first {
			b.WriteString("    encrypted:\n")
			first = false
		}
		fmt.Fprintf(&b, "      - column: %s\n        token_type: %s\n", c.name, tokTypeNames[c.ty])
		if c.consistent {
			b.WriteString("        consistent_tokenization: true\n")
		}
		if len(c.cid) > 0 {
			fmt.Fprintf(&b, "        client_id: %s\n", strconv.Quote(string(c.cid)))
		}
	}
	return b.String()
}

func (c tokCol) tokens() string {
	return fmt.Sprintf("%s %s %d %s", c.name, core.Hex(c.cid), c.ty, map[bool]string{false: "0", true: "1"}[c.consistent])
}

func parseTokCols(a []string) ([]tokCol, []string) {
	n := core.Atoi(a[0])
	a = a[1:]
	var cols []tokCol
	for i := 0; i < n; i++ {
		cols = append(cols, tokCol{name: a[0], cid: core.UnHex(a[1]), ty: core.Atoi(a[2]), consistent: a[3] == "1"})
		a = a[4:]
	}
	return cols, a
}

// scriptedAnonymizer is the random value generator of the pseudoanonymizer with the dice fixed: every draw is the
// next candidate of the current write (text form); no candidate left = the generator fails.
type scriptedAnonymizer struct {
	cands [][]byte
}

var errNoCandidate = errors.New("verif: no scripted candidate left")

func (a *scriptedAnonymizer) next() ([]byte, error) {
	if len(a.cands) == 0 {
		return nil, errNoCandidate
	}
	c := a.cands[0]
	a.cands = a.cands[1:]
	return c, nil
}

func (a *scriptedAnonymizer) AnonymizeInt32(value int32, _ tokenCommon.TokenContext) (int32, error) {
	c, err := a.next()
	if err != nil {
		return 0, err
	}
	i, err := strconv.ParseInt(string(c), 10, 32)
	if err != nil {
		panic("harness: scripted int32 candidate is not a number")
	}
	return int32(i), nil
}
func (a *scriptedAnonymizer) AnonymizeInt64(value int64, _ tokenCommon.TokenContext) (int64, error) {
	c, err := a.next()
	if err != nil {
		return 0, err
	}
	i, err := strconv.ParseInt(string(c), 10, 64)
	if err != nil {
		panic("harness: scripted int64 candidate is not a number")
	}
	return i, nil
}
func (a *scriptedAnonymizer) AnonymizeBytes(value []byte, _ tokenCommon.TokenContext) ([]byte, error) {
	return a.next()
}
func (a *scriptedAnonymizer) AnonymizeStr(value string, _ tokenCommon.TokenContext) (string, error) {
	c, err := a.next()
	return string(c), err
}
func (a *scriptedAnonymizer) AnonymizeEmail(email tokenCommon.Email, _ tokenCommon.TokenContext) (tokenCommon.Email, error) {
	c, err := a.next()
	return tokenCommon.Email(c), err
}
func (a *scriptedAnonymizer) Anonymize(data interface{}, ctx tokenCommon.TokenContext, dataType tokenCommon.TokenType) (interface{}, error) {
	switch dataType {
	case tokenCommon.TokenType_Int32:
		return a.AnonymizeInt32(0, ctx)
	case tokenCommon.TokenType_Int64:
		return a.AnonymizeInt64(0, ctx)
	case tokenCommon.TokenType_String:
		return a.AnonymizeStr("", ctx)
	case tokenCommon.TokenType_Email:
		return a.AnonymizeEmail("", ctx)
	case tokenCommon.TokenType_Bytes:
		return a.AnonymizeBytes(nil, ctx)
	}
	return nil, tokenCommon.ErrUnknownTokenType
}

// clientSession: the holder of per-session data the statement encryptors expect in the context
// (cmd/acra-server/common.ClientSession can only be built around TCP connections).
type clientSession struct {
	mu   sync.RWMutex
	ctx  context.Context
	data map[string]interface{}
	st   interface{}
}

func (s *clientSession) Context() context.Context        { return s.ctx }
func (s *clientSession) ClientConnection() net.Conn      { return nil }
func (s *clientSession) DatabaseConnection() net.Conn    { return nil }
func (s *clientSession) ProtocolState() interface{}      { return s.st }
func (s *clientSession) SetProtocolState(x interface{})  { s.st = x }
func (s *clientSession) SetData(k string, v interface{}) { s.mu.Lock(); s.data[k] = v; s.mu.Unlock() }
func (s *clientSession) DeleteData(k string)             { s.mu.Lock(); delete(s.data, k); s.mu.Unlock() }
func (s *clientSession) GetData(k string) (interface{}, bool) {
	s.mu.RLock()
	defer s.mu.RUnlock()
	v, ok := s.data[k]
	return v, ok
}
func (s *clientSession) HasData(k string) bool { _, ok := s.GetData(k); return ok }

// sessionCtx: the context of a proxy session that runs under client id `id` (what proxyFactory.New / the
// connection handler set up: client session + access context).
func sessionCtx(id []byte) context.Context {
	cs := &clientSession{data: map[string]interface{}{}}
	ctx := base.SetClientSessionToContext(context.Background(), cs)
	ctx = base.SetAccessContextToContext(ctx, base.NewAccessContext(base.WithClientID(append([]byte{}, id...))))
	cs.ctx = ctx
	return ctx
}

// tokWorld is the wiring of one op line.
type tokWorld struct {
	dialect string
	store   config.TableSchemaStore
	script  *scriptedAnonymizer
	pg      *pgenc.QueryDataEncryptor
	my      *myenc.QueryDataEncryptor
	parser  *sqlparser.Parser
	read    *pseudonymization.TokenProcessor
}

func newTokWorld(dialect string, cols []tokCol) *tokWorld {
	w := &tokWorld{dialect: dialect, script: &scriptedAnonymizer{}}
	var err error
	use := config.UsePostgreSQL
	if dialect == "my" {
		use = config.UseMySQL
	}
	w.store, err = config.MapTableSchemaStoreFromConfig([]byte(tokYAML(cols)), use)
	must(err)
	mem, err := tokenStorage.NewMemoryTokenStorage()
	must(err)
	pa := pseudonymization.VerifNewPseudoanonymizer(mem, w.script)
	dt, err := pseudonymization.NewDataTokenizer(pa)
	must(err)
	te, err := pseudonymization.NewTokenEncryptor(dt)
	must(err)
	w.read, err = pseudonymization.NewTokenProcessor(dt)
	must(err)
	// the chain of data encryptors as proxyFactory.New assembles it for a tokenization-only configuration
	chain := encryptor.NewChainDataEncryptor(te)
	if dialect == "my" {
		w.parser = sqlparser.New(sqlparser.ModeDefault)
		w.my, err = myenc.NewQueryEncryptor(w.store, w.parser, chain)
	} else {
		w.pg, err = pgenc.NewQueryEncryptor(w.store, chain)
	}
	must(err)
	return w
}

// sqlLiteral renders a value as the statement carries it: numbers bare, everything else as a quoted string
// (the harness generates printable values without quotes or backslashes for the text types and hex for bytes).
func (w *tokWorld) sqlLiteral(ty int, v []byte) string {
	if ty == 0 { // a column without setting: any literal will do
		ty = 3
		for _, b := range v {
			if b < 0x20 || b > 0x7e || b == '\'' || b == '\\' {
				ty = 4
			}
		}
	}
	switch ty {
	case 1, 2:
		return string(v)
	case 4:
		if w.dialect == "my" {
			return "X'" + fmt.Sprintf("%x", v) + "'"
		}
		return `'\x` + fmt.Sprintf("%x", v) + `'`
	}
	return "'" + string(v) + "'"
}

// write sends `INSERT INTO t (id, <col>) VALUES (1, <value>)` through the statement encryptor under a session of
// `session` and reads the value of the column out of the statement that would be forwarded to the database.
func (w *tokWorld) write(session []byte, col tokCol, value []byte, cands [][]byte) (out []byte, err error) {
	w.script.cands = cands
	defer func() { w.script.cands = nil }()
	sql := fmt.Sprintf("INSERT INTO t (id, %s) VALUES (1, %s)", col.name, w.sqlLiteral(col.ty, value))
	ctx := sessionCtx(session)
	var setting config.ColumnEncryptionSetting
	if sch := w.store.GetTableSchema("t"); sch != nil {
		setting = sch.GetColumnEncryptionSettings(col.name)
	}
	if w.dialect == "my" {
		obj, changed, err := w.my.OnQuery(ctx, myenc.NewOnQueryObjectFromQuery(sql, w.parser))
		if err != nil {
			return nil, err
		}
		if changed {
			sql = obj.Query()
		}
		stmt, err := w.parser.Parse(sql)
		must(err)
		ins := stmt.(*sqlparser.Insert)
		val := ins.Rows.(sqlparser.Values)[0][1].(*sqlparser.SQLVal)
		if setting == nil {
			if val.Type == sqlparser.HexVal { // the X'…' literal the harness wrote for a binary value
				if b, err := hex.DecodeString(string(val.Val)); err == nil {
					return b, nil
				}
			}
			return val.Val, nil
		}
		return (&myenc.DBDataCoder{}).Decode(val, setting)
	}
	obj, changed, err := w.pg.OnQuery(ctx, pgenc.NewOnQueryObjectFromQuery(sql))
	if err != nil {
		return nil, err
	}
	if changed {
		sql, err = obj.Query()
		must(err)
	}
	tree, err := pg_query.Parse(sql)
	must(err)
	item := tree.Stmts[0].Stmt.GetInsertStmt().GetSelectStmt().GetSelectStmt().GetValuesLists()[0].GetList().GetItems()[1]
	ac := item.GetAConst()
	if ac == nil {
		panic("harness: the forwarded INSERT does not carry a constant: " + sql)
	}
	if setting == nil {
		if ac.GetSval() != nil {
			sv := ac.GetSval().GetSval()
			if strings.HasPrefix(sv, `\x`) { // the bytea literal the harness wrote for a binary value
				if b, err := hex.DecodeString(sv[2:]); err == nil {
					return b, nil
				}
			}
			return []byte(sv), nil
		}
		return []byte(strconv.FormatInt(int64(ac.GetIval().GetIval()), 10)), nil
	}
	return (&pgenc.PgQueryDBDataCoder{}).Decode(ac, setting)
}

// readColumn: TokenProcessor.OnColumn on one column value of a data row in a session of `session`; the context
// carries the column's encryption setting the way the proxies' onColumnDecryption puts it there.
func (w *tokWorld) readColumn(session []byte, col string, data []byte) ([]byte, error) {
	ctx := sessionCtx(session)
	if sch := w.store.GetTableSchema("t"); sch != nil {
		if setting := sch.GetColumnEncryptionSettings(col); setting != nil {
			ctx = encryptor.NewContextWithEncryptionSetting(ctx, setting)
		}
	}
	_, out, err := w.read.OnColumn(ctx, append([]byte{}, data...))
	return out, err
}

func registerTokColOps() {
	// tokcol.run dialect ncols (name cid ty consistent)×ncols nops ops… with ops
	//   W session col value ncands cand…   a value written through the statement encryptor → the stored value / err
	//   R session col data                 a column read back in a session                  → the column the client gets / err
	// Result: comma-joined per-op results.
	core.Register("C02.tokcol.run", func(a []string) string {
		cols, rest := parseTokCols(a[1:])
		w := newTokWorld(a[0], cols)
		byName := map[string]tokCol{}
		for _, c := range cols {
			byName[c.name] = c
		}
		n := core.Atoi(rest[0])
		rest = rest[1:]
		var outs []string
		for i := 0; i < n; i++ {
			switch rest[0] {
			case "W":
				session, col, value, nc := core.UnHex(rest[1]), rest[2], core.UnHex(rest[3]), core.Atoi(rest[4])
				var cands [][]byte
				for _, c := range rest[5 : 5+nc] {
					cands = append(cands, core.UnHex(c))
				}
				rest = rest[5+nc:]
				c, ok := byName[col]
				if !ok {
					c = tokCol{name: col, ty: 3}
				}
				out, err := w.write(session, c, value, cands)
				if err != nil {
					outs = append(outs, core.Err)
				} else {
					outs = append(outs, core.Hex(out))
				}
			case "R":
				out, err := w.readColumn(core.UnHex(rest[1]), rest[2], core.UnHex(rest[3]))
				rest = rest[4:]
				if err != nil {
					outs = append(outs, core.Err)
				} else {
					outs = append(outs, core.Hex(out))
				}
			default:
				panic("harness: bad tokcol op " + rest[0])
			}
		}
		if len(outs) == 0 {
			return "_"
		}
		return strings.Join(outs, ",")
	})
}
