package c02

import (
	"bytes"
	"context"
	"crypto/ed25519"
	"crypto/rand"
	"crypto/tls"
	"crypto/x509"
	"fmt"
	"net"
	"strings"
	"time"

	"github.com/cossacklabs/acra/network"

	"verifharness/internal/core"
)

// Certificate CHAINS (seeded change C02-5): a root CA the server trusts, intermediates, client certificates issued
// by an intermediate, and clients that send `leaf, intermediate…` followed by anything else they like. Real TLS
// handshakes (crypto/tls over net.Pipe) through every entry point of package network that derives the client id of
// a connection: TLSConnectionWrapper.ServerHandshake (gRPC transport credentials) + GetClientIDFromAuthInfo,
// TLSConnectionWrapper.WrapServer (AcraServer, HTTP API), GetClientIDFromTLSConn and GetClientIDFromConnection on
// a bare *tls.Conn.

// chainCert is one certificate of a handshake: role + description.
//
//	L client certificate (digital signature + client authentication usage)
//	C CA certificate
//	N end-entity certificate WITHOUT an authentication key usage (key encipherment only, no extended key usage)
type chainCert struct {
	role string
	d    certDesc
}

func (c chainCert) tokens() string { return c.role + " " + c.d.tokens() }

func chainTokens(cs []chainCert) string {
	parts := []string{fmt.Sprint(len(cs))}
	for _, c := range cs {
		parts = append(parts, c.tokens())
	}
	return strings.Join(parts, " ")
}

func parseChainCerts(a []string) ([]chainCert, []string) {
	n := core.Atoi(a[0])
	a = a[1:]
	var out []chainCert
	for i := 0; i < n; i++ {
		out = append(out, chainCert{role: a[0], d: parseCertDesc(a[1:])})
		a = a[1+certTokens:]
	}
	return out, a
}

func (c chainCert) template() *x509.Certificate {
	t := c.d.template()
	switch c.role {
	case "C":
		t.IsCA, t.BasicConstraintsValid = true, true
		t.KeyUsage = x509.KeyUsageCertSign | x509.KeyUsageDigitalSignature
		t.ExtKeyUsage = nil
	case "N":
		t.KeyUsage = x509.KeyUsageKeyEncipherment
		t.ExtKeyUsage = nil
	case "L":
	default:
		panic("harness: unknown certificate role " + c.role)
	}
	return t
}

// built is a certificate of the family with its DER form and key.
type built struct {
	der  []byte
	cert *x509.Certificate
	key  ed25519.PrivateKey
}

func signCert(c chainCert, issuer *built) *built {
	key := c.d.key()
	tpl := c.template()
	parent, signer := tpl, key
	if issuer != nil {
		parent, signer = issuer.cert, issuer.key
	}
	der, err := x509.CreateCertificate(rand.Reader, tpl, parent, key.Public(), signer)
	must(err)
	cert, err := x509.ParseCertificate(der)
	must(err)
	return &built{der: der, cert: cert, key: key}
}

// chainWorld: the certificates of one op line. chain[0] is the client's own certificate, chain[i] was issued by
// chain[i+1], the last one by the root; extras are issued by the client's issuer (they look like siblings of the
// client – e.g. ANOTHER client's certificate) or, for CA certificates, self-signed.
type chainWorld struct {
	root   *built
	chain  []*built
	extras []*built
	sent   [][]byte
}

func buildChain(chain, extras []chainCert, root chainCert, sendRoot bool) *chainWorld {
	w := &chainWorld{root: signCert(root, nil)}
	w.chain = make([]*built, len(chain))
	issuer := w.root
	for i := len(chain) - 1; i >= 0; i-- {
		w.chain[i] = signCert(chain[i], issuer)
		issuer = w.chain[i]
	}
	clientIssuer := w.root
	if len(chain) > 1 {
		clientIssuer = w.chain[1]
	}
	for _, e := range extras {
		if e.role == "C" {
			w.extras = append(w.extras, signCert(e, nil))
		} else {
			w.extras = append(w.extras, signCert(e, clientIssuer))
		}
	}
	for _, b := range w.chain {
		w.sent = append(w.sent, b.der)
	}
	for _, b := range w.extras {
		w.sent = append(w.sent, b.der)
	}
	if sendRoot {
		w.sent = append(w.sent, w.root.der)
	}
	return w
}

// chainHandshake performs the handshake through `entry` and returns the client id the entry point derives
// (hex) or `err`. The connection state the server side saw is compared with what the op line describes
// (PeerCertificates = everything sent, one verified chain = chain ++ root): a difference is a harness error.
func chainHandshake(entry, mode string, w *chainWorld) string {
	pool := x509.NewCertPool()
	pool.AddCert(w.root.cert)
	srv := signCert(chainCert{role: "L", d: certDesc{Serial: []byte{2}, KeySeed: []byte("chain-server"), CN: []byte("localhost")}}, w.root)
	var seen *tls.ConnectionState
	serverCfg := &tls.Config{
		Certificates: []tls.Certificate{{Certificate: [][]byte{srv.der}, PrivateKey: srv.key}},
		ClientCAs:    pool, ClientAuth: tls.RequireAndVerifyClientCert, MinVersion: tls.VersionTLS12,
		VerifyConnection: func(cs tls.ConnectionState) error { c := cs; seen = &c; return nil },
	}
	clientCfg := &tls.Config{
		Certificates:       []tls.Certificate{{Certificate: w.sent, PrivateKey: w.chain[0].key}},
		InsecureSkipVerify: true, MinVersion: tls.VersionTLS12, NextProtos: []string{"h2"},
	}
	extractor := newExtractor(modeName(mode))
	wrapper, err := network.NewTLSAuthenticationConnectionWrapper(true, nil, serverCfg, extractor)
	must(err)
	c1, c2 := net.Pipe()
	defer c1.Close()
	defer c2.Close()
	c1.SetDeadline(time.Now().Add(10 * time.Second))
	c2.SetDeadline(time.Now().Add(10 * time.Second))
	tc := tls.Client(c1, clientCfg)
	done := make(chan error, 1)
	go func() {
		err := tc.Handshake()
		if err == nil {
			// TLS 1.3: the client is done before the server has looked at its certificate; read until the
			// server side has finished (it sends session tickets) and closed its end
			var b [1]byte
			tc.Read(b[:])
		}
		done <- err
	}()
	var id []byte
	var idErr error
	switch entry {
	case "grpc":
		var conn net.Conn
		var auth interface{ AuthType() string }
		conn, auth, idErr = wrapper.ServerHandshake(c2)
		if idErr == nil {
			id, idErr = network.GetClientIDFromAuthInfo(auth, extractor)
			// the connection object carries the same id
			if cid, ok := network.GetClientIDFromConnection(conn, extractor); !ok || !bytes.Equal(cid, id) {
				return "inconsistent"
			}
		}
	case "wrap":
		_, id, idErr = wrapper.WrapServer(context.Background(), c2)
	case "tlsconn", "conn":
		ts := tls.Server(c2, serverCfg)
		if herr := ts.Handshake(); herr != nil {
			panic("harness: the chain of the op line does not verify: " + herr.Error())
		}
		if entry == "tlsconn" {
			id, idErr = network.GetClientIDFromTLSConn(ts, extractor)
		} else {
			var ok bool
			id, ok = network.GetClientIDFromConnection(ts, extractor)
			if !ok {
				idErr = fmt.Errorf("no client id")
			}
		}
	default:
		panic("harness: unknown tlsconn entry " + entry)
	}
	c2.Close()
	<-done
	if seen == nil {
		panic("harness: the handshake did not reach certificate verification (the chain of the op line does not verify?): " + fmt.Sprint(idErr))
	}
	// the state is what the line says
	if len(seen.PeerCertificates) != len(w.sent) {
		panic("harness: PeerCertificates is not what the client sent")
	}
	for i, c := range seen.PeerCertificates {
		if !bytes.Equal(c.Raw, w.sent[i]) {
			panic("harness: PeerCertificates is not what the client sent")
		}
	}
	want := append([]*built{}, w.chain...)
	want = append(want, w.root)
	if len(seen.VerifiedChains) != 1 || len(seen.VerifiedChains[0]) != len(want) {
		panic(fmt.Sprintf("harness: VerifiedChains is not the one chain the line describes (%d chains)", len(seen.VerifiedChains)))
	}
	for i, c := range seen.VerifiedChains[0] {
		if !bytes.Equal(c.Raw, want[i].der) {
			panic("harness: VerifiedChains is not the chain the line describes")
		}
	}
	if idErr != nil {
		return core.Err
	}
	return core.Hex(id)
}

func registerTLSChainOps() {
	// tlsconn.id entry mode nchain (role cert)×nchain nextra (role cert)×nextra sendroot (role cert)
	core.Register("C02.tlsconn.id", func(a []string) string {
		entry, mode := a[0], a[1]
		chain, rest := parseChainCerts(a[2:])
		extras, rest := parseChainCerts(rest)
		sendRoot := rest[0] == "1"
		root := chainCert{role: rest[1], d: parseCertDesc(rest[2:])}
		for _, c := range append(append(append([]chainCert{}, chain...), extras...), root) {
			if canonCert(c.d).tokens() != c.d.tokens() {
				panic("harness: certificate description is not what a parser reads back from the certificate")
			}
		}
		return chainHandshake(entry, mode, buildChain(chain, extras, root, sendRoot))
	})
}
