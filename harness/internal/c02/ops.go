package c02

import (
	"bytes"
	"context"
	"fmt"
	"strings"

	"github.com/cossacklabs/acra/cmd/acra-translator/common"
	"github.com/cossacklabs/acra/cmd/acra-translator/grpc_api"
	"github.com/cossacklabs/acra/crypto"
	"github.com/cossacklabs/acra/decryptor/base"
	"github.com/cossacklabs/acra/hmac"
	"github.com/cossacklabs/acra/keystore"
	"github.com/cossacklabs/acra/pseudonymization"
	tokenCommon "github.com/cossacklabs/acra/pseudonymization/common"
	tokenStorage "github.com/cossacklabs/acra/pseudonymization/storage"

	"verifharness/internal/core"
	env "verifharness/internal/envops"
)

// ident is one identity of an op line: id, key view, HMAC key.
type ident struct {
	id     []byte
	kv     *env.KV
	hmac   []byte
	noHmac bool
}

func (i *ident) tokens() string {
	h := "none"
	if !i.noHmac {
		h = core.Hex(i.hmac)
	}
	return core.Hex(i.id) + " " + i.kv.Tokens() + " " + h
}

// identTokens renders `n (id pub privs sym syms hmac)×n`.
func identTokens(ids []*ident) string {
	s := make([]string, 0, len(ids)+1)
	s = append(s, fmt.Sprint(len(ids)))
	for _, i := range ids {
		s = append(s, i.tokens())
	}
	return strings.Join(s, " ")
}

func parseIdents(a []string) []*ident {
	n := core.Atoi(a[0])
	a = a[1:]
	if len(a) != 6*n {
		panic("harness: bad identity list")
	}
	var out []*ident
	for i := 0; i < n; i++ {
		f := a[6*i : 6*i+6]
		id := &ident{id: core.UnHex(f[0]), kv: env.ParseKV(f[1:5])}
		if f[5] == "none" {
			id.noHmac = true
		} else {
			id.hmac = core.UnHex(f[5])
		}
		out = append(out, id)
	}
	return out
}

// tksOf builds the fake translation key store that answers every query by client id.
func tksOf(ids []*ident) *env.TKS {
	t := &env.TKS{Clients: map[string]*env.KV{}, Hmac: map[string][]byte{}}
	for _, i := range ids {
		t.Clients[string(i.id)] = i.kv
		if !i.noHmac {
			t.Hmac[string(i.id)] = i.hmac
		}
	}
	return t
}

func optBytes(s string) []byte {
	if s == "none" {
		return nil
	}
	return core.UnHex(s)
}

func okOrErr(b []byte, err error) string {
	if err != nil {
		return core.Err
	}
	return core.OkHex(b)
}

func translator(ks keystore.TranslationKeyStore, tok tokenCommon.Pseudoanonymizer) *common.TranslatorService {
	svc, err := common.NewTranslatorService(&common.TranslatorData{Keystorage: ks, Tokenizer: tok})
	if err != nil {
		panic("harness: " + err.Error())
	}
	return svc
}

// runEntry runs one reveal-type entry point of the real code under identity `id` against key store `ks`.
func runEntry(ks keystore.TranslationKeyStore, entry string, id []byte, kind string, data, hash []byte) string {
	env.Init()
	switch entry {
	case "lib": // crypto.RegistryHandler.Process with the access context of `id`
		return okOrErr(crypto.NewRegistryHandler(ks).Process(data, &base.DataProcessorContext{Keystore: ks, Context: env.Ctx(id)}))
	case "tr.decrypt": // AcraTranslator Decrypt / DecryptSym
		svc := translator(ks, nil)
		if kind == "struct" {
			out, err := svc.Decrypt(context.Background(), data, id, nil)
			return okOrErr(out, err)
		}
		out, err := svc.DecryptSym(context.Background(), data, id, nil)
		return okOrErr(out, err)
	case "tr.search": // AcraTranslator DecryptSearchable / DecryptSymSearchable
		svc := translator(ks, nil)
		var out []byte
		var err error
		if kind == "struct" {
			out, err = svc.DecryptSearchable(context.Background(), data, hash, id, nil)
		} else {
			out, err = svc.DecryptSymSearchable(context.Background(), data, hash, id, nil)
		}
		if err != nil {
			if out != nil {
				if !bytes.Equal(out, data) {
					return "errback-other " + core.Hex(out) // never expected: an error that hands back something else than the input
				}
				return "errback"
			}
			return core.Err
		}
		return core.OkHex(out)
	case "col", "colcompat": // transparent column processing with the decrypt callback
		det := crypto.NewEnvelopeDetector()
		var oc interface {
			OnColumn(context.Context, []byte) (context.Context, []byte, error)
		} = det
		if entry == "colcompat" {
			oc = crypto.NewOldContainerDetectorWrapper(det)
		}
		det.AddCallback(crypto.NewDecryptHandler(ks, crypto.NewRegistryHandler(ks)))
		_, o, err := oc.OnColumn(env.Ctx(id), data)
		if err != nil {
			return "fatal"
		}
		return core.OkHex(o)
	case "hash.verify": // blind index check
		h := hmac.ExtractHash(hash)
		if h == nil {
			return "nohash"
		}
		return fmt.Sprint(h.IsEqual(data, id, ks))
	}
	panic("harness: unknown entry " + entry)
}

// grpcCall sends one decrypt-type RPC through `svc` (the TLS wrapper or the bare gRPC service).
func grpcCall(svc grpc_api.DecryptService, ctx context.Context, rpc string, forged, data, hash []byte) string {
	switch rpc {
	case "Decrypt":
		r, err := svc.Decrypt(ctx, &grpc_api.DecryptRequest{ClientId: forged, Acrastruct: data})
		if err != nil {
			return core.Err
		}
		return core.OkHex(r.Data)
	case "DecryptSym":
		r, err := svc.DecryptSym(ctx, &grpc_api.DecryptSymRequest{ClientId: forged, Acrablock: data})
		if err != nil {
			return core.Err
		}
		return core.OkHex(r.Data)
	case "DecryptSearchable":
		r, err := svc.DecryptSearchable(ctx, &grpc_api.SearchableDecryptionRequest{ClientId: forged, Data: data, Hash: hash})
		if err != nil {
			return core.Err
		}
		return core.OkHex(r.Data)
	case "DecryptSymSearchable":
		r, err := svc.DecryptSymSearchable(ctx, &grpc_api.SearchableSymDecryptionRequest{ClientId: forged, Data: data, Hash: hash})
		if err != nil {
			return core.Err
		}
		return core.OkHex(r.Data)
	}
	panic("harness: unknown rpc " + rpc)
}

func grpcServices(ks keystore.TranslationKeyStore, tok tokenCommon.Pseudoanonymizer) (plain grpc_api.DecryptService, wrapped grpc_api.DecryptService) {
	initTLS()
	data := &common.TranslatorData{Keystorage: ks, Tokenizer: tok, UseConnectionClientID: true, TLSClientIDExtractor: tlsExtr}
	inner, err := common.NewTranslatorService(data)
	if err != nil {
		panic("harness: " + err.Error())
	}
	g, err := grpc_api.NewTranslatorService(inner, data)
	if err != nil {
		panic("harness: " + err.Error())
	}
	w, err := grpc_api.NewTLSDecryptServiceWrapper(g, tlsExtr)
	if err != nil {
		panic("harness: " + err.Error())
	}
	return g, w
}

// connIndex maps a connection identity given as client id (hex) back to the TLS identity; "none" = no peer.
func connIndex(s string) int {
	if s == "none" {
		return -1
	}
	initTLS()
	id := core.UnHex(s)
	for i, t := range tlsIDs {
		if bytes.Equal(t.id, id) {
			return i
		}
	}
	panic("harness: connection identity is none of the TLS identities")
}

func init() {
	core.RegisterProp("C02", run)

	// as entry idx kind data hash n idents… : one reveal-type entry point under identity #idx of a fake key store
	core.Register("C02.as", func(a []string) string {
		ids := parseIdents(a[5:])
		return runEntry(tksOf(ids), a[0], ids[core.Atoi(a[1])].id, a[2], core.UnHex(a[3]), optBytes(a[4]))
	})
	// asks handle entry idx kind data hash n idents… : the same against a REAL key store (handle); the key
	// tokens of the line are what the harness read back from that store (the model uses them)
	core.Register("C02.asks", func(a []string) string {
		st := store(a[0])
		ids := parseIdents(a[6:])
		return runEntry(st.ks(), a[1], ids[core.Atoi(a[2])].id, a[3], core.UnHex(a[4]), optBytes(a[5]))
	})
	// grpc rpc conn forged data hash n idents… : through the real TLSDecryptServiceWrapper + gRPC service + translator service
	core.Register("C02.grpc", func(a []string) string {
		ids := parseIdents(a[5:])
		_, w := grpcServices(tksOf(ids), nil)
		return grpcCall(w, peerCtx(connIndex(a[1])), a[0], optBytes(a[2]), core.UnHex(a[3]), optBytes(a[4]))
	})
	// grpc.plain rpc forged data hash n idents… : the bare gRPC service (identity = the request's field)
	core.Register("C02.grpc.plain", func(a []string) string {
		ids := parseIdents(a[4:])
		g, _ := grpcServices(tksOf(ids), nil)
		return grpcCall(g, context.Background(), a[0], optBytes(a[1]), core.UnHex(a[2]), optBytes(a[3]))
	})
	// hash.gen key data : hmac.GenerateHMAC
	core.Register("C02.hash.gen", func(a []string) string {
		return core.Hex(hmac.GenerateHMAC(append([]byte{}, core.UnHex(a[0])...), core.UnHex(a[1])))
	})
	// tok.run qid qtok qty n (id v ty rnd)×n : a history of consistent tokenizations on a fresh in-memory
	// token storage through the real pseudoanonymizer, then one de-tokenization
	core.Register("C02.tok.run", func(a []string) string {
		qid, qtok, qty := core.UnHex(a[0]), core.UnHex(a[1]), core.Atoi(a[2])
		n := core.Atoi(a[3])
		a = a[4:]
		st, err := tokenStorage.NewMemoryTokenStorage()
		if err != nil {
			panic("harness: " + err.Error())
		}
		p, err := pseudonymization.NewPseudoanonymizer(st)
		if err != nil {
			panic("harness: " + err.Error())
		}
		var toks []string
		for i := 0; i < n; i++ {
			id, v, ty, rnd := core.UnHex(a[4*i]), core.UnHex(a[4*i+1]), core.Atoi(a[4*i+2]), core.UnHex(a[4*i+3])
			env.WithRand(rnd, func() {
				t, err := p.AnonymizeConsistently(v, tokenCommon.TokenContext{ClientID: id}, tokenCommon.TokenType(ty))
				if err != nil {
					toks = append(toks, "-err-")
					return
				}
				toks = append(toks, core.Hex(t.([]byte)))
			})
		}
		ts := "_"
		if len(toks) > 0 {
			ts = strings.Join(toks, ",")
		}
		d, err := p.Deanonymize(qtok, tokenCommon.TokenContext{ClientID: qid}, tokenCommon.TokenType(qty))
		if err != nil {
			return ts + " " + core.Err
		}
		return ts + " " + core.OkHex(d.([]byte))
	})
	registerKeystoreOps()
	registerTranslatorOps()
	registerTLSIdentityOps()
	registerServerOps()
	registerTokColOps()
	registerTLSChainOps()
	registerPxOps()
}
