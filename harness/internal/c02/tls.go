package c02

import (
	"context"
	"crypto/tls"
	"crypto/x509"
	"fmt"
	"net"
	"os"
	"path/filepath"
	"sync"

	"github.com/cossacklabs/acra/network"
	"google.golang.org/grpc/credentials"
	"google.golang.org/grpc/peer"
)

// Three TLS identities: the client certificates shipped with Acra's own test suite.
var tlsNames = []string{"acra-writer", "acra-writer-2", "acra-client"}

type tlsIdentity struct {
	auth   credentials.AuthInfo // what TLSConnectionWrapper.ServerHandshake attached to the connection
	id     []byte               // the client id Acra derived from the certificate
	conn   net.Conn             // the wrapped server side connection (carries the id for the HTTP API)
	client net.Conn             // the client side of the TLS connection
	raw    net.Conn             // the pipe end under the client side (closed directly: tls.Conn.Close would wait for the peer to read its alert)
	err    error
}

var (
	tlsOnce  sync.Once
	tlsIDs   []*tlsIdentity
	tlsExtr  network.TLSClientIDExtractor
	repoRoot string
)

// findRepo locates the Acra checkout the harness was built against (tests/ssl lives there).
func findRepo() string {
	for _, c := range []string{os.Getenv("VERIF_REPO"), "/repo"} {
		if c == "" {
			continue
		}
		if _, err := os.Stat(filepath.Join(c, "tests", "ssl", "ca", "ca.crt")); err == nil {
			return c
		}
	}
	panic("harness: cannot find tests/ssl of the Acra checkout")
}

// handshake runs a real TLS handshake over an in-memory pipe through Acra's own
// TLSConnectionWrapper.ServerHandshake (the gRPC transport credentials AcraTranslator installs) and
// returns the AuthInfo it produces – the same object gRPC puts into the peer of every request context.
func handshake(name string) *tlsIdentity {
	ssl := filepath.Join(repoRoot, "tests", "ssl")
	caPEM, err := os.ReadFile(filepath.Join(ssl, "ca", "ca.crt"))
	if err != nil {
		return &tlsIdentity{err: err}
	}
	pool := x509.NewCertPool()
	if !pool.AppendCertsFromPEM(caPEM) {
		return &tlsIdentity{err: fmt.Errorf("bad CA file")}
	}
	srvCert, err := tls.LoadX509KeyPair(filepath.Join(ssl, "acra-server", "acra-server.crt"), filepath.Join(ssl, "acra-server", "acra-server.key"))
	if err != nil {
		return &tlsIdentity{err: err}
	}
	cliCert, err := tls.LoadX509KeyPair(filepath.Join(ssl, name, name+".crt"), filepath.Join(ssl, name, name+".key"))
	if err != nil {
		return &tlsIdentity{err: err}
	}
	serverCfg := &tls.Config{Certificates: []tls.Certificate{srvCert}, ClientCAs: pool, ClientAuth: tls.RequireAndVerifyClientCert, MinVersion: tls.VersionTLS12}
	clientCfg := &tls.Config{Certificates: []tls.Certificate{cliCert}, RootCAs: pool, InsecureSkipVerify: true, MinVersion: tls.VersionTLS12, NextProtos: []string{"h2"}}
	wrapper, err := network.NewTLSAuthenticationConnectionWrapper(true, nil, serverCfg, tlsExtr)
	if err != nil {
		return &tlsIdentity{err: err}
	}
	c1, c2 := net.Pipe()
	done := make(chan error, 1)
	tc := tls.Client(c1, clientCfg)
	go func() {
		done <- tc.Handshake()
		// the client side stays open: the server side connection object remains usable as an identity carrier
	}()
	conn, auth, err := wrapper.ServerHandshake(c2)
	if cerr := <-done; cerr != nil && err == nil {
		err = cerr
	}
	if err != nil {
		return &tlsIdentity{err: err}
	}
	id, ok := network.GetClientIDFromConnection(conn, tlsExtr)
	if !ok {
		return &tlsIdentity{err: fmt.Errorf("no client id on the handshaken connection")}
	}
	return &tlsIdentity{auth: auth, id: id, conn: conn, client: tc, raw: c1}
}

func initTLS() {
	tlsOnce.Do(func() {
		repoRoot = findRepo()
		var err error
		tlsExtr, err = network.NewDefaultTLSClientIDExtractor()
		if err != nil {
			panic("harness: " + err.Error())
		}
		for _, n := range tlsNames {
			t := handshake(n)
			if t.err != nil {
				panic("harness: TLS identity " + n + ": " + t.err.Error())
			}
			tlsIDs = append(tlsIDs, t)
		}
	})
}

// peerCtx is a request context as gRPC hands it to a service method of a connection authenticated as identity i
// (i < 0: a context without peer information).
func peerCtx(i int) context.Context {
	if i < 0 {
		return context.Background()
	}
	initTLS()
	return peer.NewContext(context.Background(), &peer.Peer{AuthInfo: tlsIDs[i].auth})
}

// TLSClientID is the id Acra derives for TLS identity i.
func TLSClientID(i int) []byte {
	initTLS()
	return append([]byte{}, tlsIDs[i].id...)
}
