package c02

import (
	"bytes"
	"fmt"
	"strings"

	"verifharness/internal/core"
	env "verifharness/internal/envops"
)

// serverCases: end to end. A translator assembled like the production one (REAL grpc_api.NewServer with
// UseConnectionClientID, HTTP service behind the production callback chain, one long-lived extractor) serves
// three TLS clients whose certificates are issued by the harness' CA: A and B are relatives (same CN / same DN
// under another serial …), C differs in the CN only. Connections are opened in a random order. Every RPC of
// the API and the HTTP operations run over B's connection against values of A with the request naming A, B,
// a stranger or nobody; decrypt-type RPCs are compared with the model (`serverCall` over the regenerated
// registration table and the identity model).
func serverCases(r *core.Run) {
	rd := r.Rand
	relatives := map[string][]string{
		"dn":     {"same-cn-other-ou", "same-cn-other-o", "same-dn-other-serial"},
		"serial": {"same-dn-other-serial", "same-cn-other-ou", "serial-neighbour"},
	}
	for w := 0; w < r.N(4, 60); w++ {
		mode := []string{"dn", "serial"}[w%2]
		// certificate chain shape of the world: client certificates issued by the root directly / by an
		// intermediate CA (clients send leaf + intermediate) / the same with every client appending the (public)
		// certificate of client A to what it sends
		shape := []string{"", "+inter", "+inter+other"}[w%3]
		fam, kinds := certFamily(rd)
		pick := func(kind string) (certDesc, bool) {
			for i, k := range kinds {
				if k == kind {
					return fam[i], true
				}
			}
			return certDesc{}, false
		}
		A := fam[0]
		// B: the relative that shares what a careless cache key would look at; in DN mode it must differ in the DN,
		// in serial mode in the serial number
		var B certDesc
		bKind := ""
		for _, k := range relatives[mode][(w/2)%len(relatives[mode]):] {
			if d, ok := pick(k); ok && !sameIdentity(mode, A, d) {
				B, bKind = d, k
				break
			}
		}
		if bKind == "" {
			B, bKind = randCert(rd), "random"
		}
		C, _ := pick("other-cn-only")
		certs := []certDesc{A, B, C}
		if sameIdentity(mode, A, B) || sameIdentity(mode, A, C) || sameIdentity(mode, B, C) {
			continue // (serial mode: two random one-byte serials met) – not three identities
		}
		names := []string{"base", bKind, "other-cn-only"}
		var ids [][]byte
		ok := true
		for _, d := range certs {
			id, good := tlsID(r, mode, d)
			ok = ok && good
			ids = append(ids, id)
		}
		if !ok {
			continue
		}
		world := newWorld(rd, ids)
		toks := identTokens(world)
		h := fmt.Sprintf("srv%d", w)
		caSeed := rd.Bytes(8)
		r.Begin(fmt.Sprintf("srv-%s%s-%s-%x", mode, shape, bKind, caSeed), true, "entry:server", "mode:"+mode, "relative:"+bKind, "chain:direct"+shape)
		if out := r.Impl(fmt.Sprintf("C02.srv.new %s %s %s %s", h, mode+shape, core.Hex(caSeed), toks)); !r.Check(out == "ok", "srv-start", "the translator did not start: "+out) {
			continue
		}
		if strings.HasSuffix(shape, "+other") {
			r.Impl(fmt.Sprintf("C02.srv.append %s %s", h, certs[0].tokens()))
		}
		mode += shape // the op lines carry the shape with the mode; extractor mode = the part in front of `+`
		call := func(model bool, rpc string, conn int, forged string, data []byte, hash string) string {
			line := fmt.Sprintf("C02.srv.grpc %s %s %s %s %s %s %s", h, rpc, mode, certs[conn].tokens(), forged, core.Hex(data), hash)
			if model {
				return r.Do(line + " " + toks)
			}
			return r.Impl(line)
		}
		// every value tokenized in this world so far: (identity of the CONNECTION it arrived on, value, token)
		var tokHist []string
		detok := func(conn int, forged string, tok []byte) string {
			return r.Do(fmt.Sprintf("C02.srv.detok %s %s %s %s %s %d %s", h, mode, certs[conn].tokens(), forged, core.Hex(tok), len(tokHist), strings.Join(tokHist, " ")))
		}
		hmacOf := func(i int, m []byte) string {
			return r.Do(fmt.Sprintf("C02.hash.gen %s %s", core.Hex(world[i].hmac), core.Hex(m)))
		}
		// --- connections are opened in a random order; each is served under its own identity from the first request on
		order := rd2perm(rd, 3)
		r.Tag(fmt.Sprintf("connect-order:%d%d%d", order[0], order[1], order[2]))
		probe := rd.Bytes(16)
		for round := 0; round < 2; round++ {
			for _, i := range order {
				out := call(true, "GenerateQueryHash", i, "none", probe, "none")
				r.Check(out == "ok "+hmacOf(i, probe), "tls-connection-identity",
					fmt.Sprintf("%s mode: the TLS connection of client %s (#%d, connect order %v) is not served under its own identity (GenerateQueryHash does not use its key)", mode, names[i], i, order))
			}
		}
		for _, p := range allPairs(3) {
			a, b := p[0], p[1]
			forgeries := []string{core.Hex(ids[a]), core.Hex(ids[b]), core.Hex(clientID(rd, 8)), "none"}
			// ---- decrypt-type RPCs (compared with the model)
			for _, rc := range []struct{ rpc, kind string }{{"Decrypt", "struct"}, {"DecryptSym", "block"}, {"DecryptSearchable", "struct"}, {"DecryptSymSearchable", "block"}} {
				m, marker, class := plaintext(rd)
				r.Begin(fmt.Sprintf("srv-%s-%s-%d>%d-%x", mode, rc.rpc, a, b, marker), true, "entry:server-grpc", "rpc:"+rc.rpc, "class:"+class, "relative:"+names[b])
				v, ok := env.Protect(r, rc.kind, writerView(rd, world[a].kv), m)
				if !ok || bytes.Equal(v, m) {
					continue
				}
				hash := "none"
				if strings.Contains(rc.rpc, "Searchable") {
					hash = hmacOf(a, m)
				}
				for _, forged := range forgeries {
					out := call(true, rc.rpc, b, forged, v, hash)
					r.Check(!leaks(out, m, marker) && !strings.HasPrefix(out, "ok"), "tls-forged-id",
						fmt.Sprintf("%s over the TLS connection of %s with ClientId field %s returned %s for a value of %s", rc.rpc, names[b], forged[:min(12, len(forged))], trunc(out), names[a]))
				}
				out := call(true, rc.rpc, a, core.Hex(ids[b]), v, hash)
				got, ok := okValue(out)
				r.Check(ok && bytes.Equal(got, m), "tls-owner", rc.rpc+": the owner's connection was not served when the request named another id: "+trunc(out))
			}
			// ---- tokens: A tokenizes (the request naming nobody / itself / B), B presents the token
			for ti, forgedT := range []string{"none", core.Hex(ids[a]), core.Hex(ids[b])} {
				v := append(rd.Bytes(4+rd.Intn(12)), rd.Bytes(markerLen)...)
				r.Begin(fmt.Sprintf("srv-%s-token%d-%d>%d-%x", mode, ti, a, b, v[len(v)-markerLen:]), true, "entry:server-grpc", "rpc:Tokenize", "relative:"+names[b])
				tok, ok := okValue(call(false, "Tokenize", a, forgedT, v, "none"))
				if !r.Check(ok && !bytes.Equal(tok, v), "tokenize", "Tokenize on the server failed") {
					continue
				}
				tokHist = append(tokHist, fmt.Sprintf("%s %s %s", core.Hex(ids[a]), core.Hex(v), core.Hex(tok)))
				for _, forged := range forgeries {
					out := detok(b, forged, tok)
					got, ok := okValue(out)
					r.Check(!leaks(out, v, v[len(v)-markerLen:]) && ok && bytes.Equal(got, tok), "tls-forged-id",
						fmt.Sprintf("Detokenize over the TLS connection of %s with ClientId field %s did not hand the token of %s back unchanged (Tokenize had ClientId %s): %s", names[b], forged[:min(12, len(forged))], names[a], forgedT[:min(12, len(forgedT))], trunc(out)))
				}
				out := detok(a, core.Hex(ids[b]), tok)
				got, ok := okValue(out)
				r.Check(ok && bytes.Equal(got, v), "tls-owner", "Detokenize over the owner's connection (request naming another id) did not return the value: "+trunc(out))
				// HTTP: the same token over B's HTTPS connection
				out = r.Impl(fmt.Sprintf("C02.srv.http %s detokenize %s %s %s", h, certs[b].tokens(), core.Hex(tok), core.Hex(ids[a])))
				r.Check(!leaks(out, v, v[len(v)-markerLen:]), "http-cross-client", "HTTP detokenize over the TLS connection of "+names[b]+" returned the value of "+names[a])
				if ti == 0 {
					out = r.Impl(fmt.Sprintf("C02.srv.http %s detokenize %s %s %s", h, certs[a].tokens(), core.Hex(tok), core.Hex(ids[b])))
					r.Check(out == "200 "+core.Hex(v), "http-owner", "HTTP detokenize over the owner's TLS connection did not return the value: "+trunc(out))
				}
			}
			// a value tokenized for A over another entry point that shares the token storage
			{
				v := append(rd.Bytes(6), rd.Bytes(markerLen)...)
				r.Begin(fmt.Sprintf("srv-%s-planted-%d>%d-%x", mode, a, b, v[len(v)-markerLen:]), true, "entry:server-grpc", "rpc:Detokenize")
				tok, ok := okValue(r.Impl(fmt.Sprintf("C02.srv.plant %s %s %s", h, core.Hex(ids[a]), core.Hex(v))))
				if r.Check(ok, "tokenize", "planting a token failed") {
					tokHist = append(tokHist, fmt.Sprintf("%s %s %s", core.Hex(ids[a]), core.Hex(v), core.Hex(tok)))
					for _, forged := range forgeries {
						out := detok(b, forged, tok)
						r.Check(!leaks(out, v, v[len(v)-markerLen:]), "tls-forged-id", fmt.Sprintf("Detokenize over the TLS connection of %s naming %s returned a value recorded for %s", names[b], forged[:min(12, len(forged))], names[a]))
					}
					out := detok(a, "none", tok)
					got, ok := okValue(out)
					r.Check(ok && bytes.Equal(got, v), "tls-owner", "the owner's connection does not detokenize a value recorded for it elsewhere")
				}
			}
			// ---- encrypt-type RPCs over B's connection naming A: the result belongs to B
			t := target{op: "C02.as", ids: world, what: "server"}
			m, marker, _ := plaintext(rd)
			for _, rc := range []struct{ rpc, kind string }{{"Encrypt", "struct"}, {"EncryptSym", "block"}, {"EncryptSearchable", "struct"}, {"EncryptSymSearchable", "block"}} {
				r.Begin(fmt.Sprintf("srv-%s-%s-%d>%d-%x", mode, rc.rpc, a, b, marker), true, "entry:server-grpc", "rpc:"+rc.rpc)
				f := strings.Fields(call(false, rc.rpc, b, core.Hex(ids[a]), m, "none"))
				if !r.Check(len(f) >= 2 && f[0] == "ok", "grpc-encrypt", rc.rpc+" on the server failed") {
					continue
				}
				c := core.UnHex(f[len(f)-1])
				if bytes.Equal(c, m) {
					continue
				}
				out := r.Do(t.line("tr.decrypt", a, rc.kind, c, "none"))
				r.Check(!leaks(out, m, marker), "tls-forged-id", fmt.Sprintf("%s over the connection of %s naming %s produced a value that %s can read", rc.rpc, names[b], names[a], names[a]))
				out = r.Do(t.line("tr.decrypt", b, rc.kind, c, "none"))
				r.Check(leaks(out, m, marker), "tls-owner", rc.rpc+": the connection's own identity cannot read the value it encrypted")
				if len(f) == 3 {
					out = r.Do(t.line("hash.verify", b, rc.kind, m, f[1]))
					r.Check(out == "true", "tls-owner", rc.rpc+": the hash does not verify under the connection's identity")
					out = r.Do(t.line("hash.verify", a, rc.kind, m, f[1]))
					r.Check(out == "false", "tls-forged-id", rc.rpc+": the hash verifies under the identity named in the request")
				}
			}
			r.Begin(fmt.Sprintf("srv-%s-queryhash-%d>%d-%x", mode, a, b, marker), true, "entry:server-grpc", "rpc:GenerateQueryHash")
			out := call(true, "GenerateQueryHash", b, core.Hex(ids[a]), m, "none")
			r.Check(out == "ok "+hmacOf(b, m), "tls-forged-id", "GenerateQueryHash over the connection of "+names[b]+" naming "+names[a]+" did not use the connection's key")
			// ---- HTTP API over HTTPS
			for _, kind := range []string{"struct", "block"} {
				m, marker, _ := plaintext(rd)
				r.Begin(fmt.Sprintf("srv-%s-http-%s-%d>%d-%x", mode, kind, a, b, marker), true, "entry:server-http", "kind:"+kind, "relative:"+names[b])
				vv, ok := env.Protect(r, kind, writerView(rd, world[a].kv), m)
				if !ok || bytes.Equal(vv, m) {
					continue
				}
				op := map[string]string{"struct": "decrypt", "block": "decryptSym"}[kind]
				out = r.Impl(fmt.Sprintf("C02.srv.http %s %s %s %s %s", h, op, certs[b].tokens(), core.Hex(vv), core.Hex(ids[a])))
				r.Check(!leaks(out, m, marker) && !strings.HasPrefix(out, "200"), "http-cross-client", fmt.Sprintf("HTTP %s over the TLS connection of %s returned %s for a value of %s", op, names[b], trunc(out), names[a]))
				out = r.Impl(fmt.Sprintf("C02.srv.http %s %s %s %s %s", h, op, certs[a].tokens(), core.Hex(vv), core.Hex(ids[b])))
				r.Check(out == "200 "+core.Hex(m), "http-owner", "HTTP "+op+" over the owner's TLS connection did not return the plaintext: "+trunc(out))
			}
		}
		r.Impl("C02.srv.close " + h)
	}
}
