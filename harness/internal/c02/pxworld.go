package c02

import (
	"fmt"
	"strings"
	"sync"

	"verifharness/internal/c04"
	"verifharness/internal/c04/fakemy"
	"verifharness/internal/c04/fakepg"
	"verifharness/internal/core"
	env "verifharness/internal/envops"
)

// Tokenized columns END TO END: the REAL proxy of either front end (decryptor/postgresql, decryptor/mysql:
// proxyFactory.New with both goroutines, as assembled by the C04 worlds) between a fake client and a fake
// database, the real schema store from the generated encryptor config, the real pseudoanonymizer with its real
// random generator. Sessions are opened per client id; a value is written with an INSERT through a session, the
// harness reads what reached the database and plants it – behind the proxy's back – into a row whose every
// column holds it, and sessions then SELECT single columns of that row.

type pxWorld struct {
	dialect string
	cols    []tokCol
	pg      *c04.World
	my      *c04.MyWorld
	pgSess  map[string]*c04.Sess
	mySess  map[string]*c04.MySess
	nextID  int
	planted map[int][]byte // MySQL: rows the fake database hands out as canned results
}

var (
	pxMu sync.Mutex
	pxs  = map[string]*pxWorld{}
)

func px(h string) *pxWorld {
	pxMu.Lock()
	defer pxMu.Unlock()
	w, ok := pxs[h]
	if !ok {
		panic("harness: unknown proxy world " + h)
	}
	return w
}

func (w *pxWorld) colType(c tokCol) fakepg.ColType {
	if c.ty == 4 {
		return fakepg.Bytea
	}
	return fakepg.Text
}

func newPxWorld(dialect string, cols []tokCol, rnd []byte) *pxWorld {
	w := &pxWorld{dialect: dialect, cols: cols, pgSess: map[string]*c04.Sess{}, mySess: map[string]*c04.MySess{}, nextID: 1, planted: map[int][]byte{}}
	ks := &env.TKS{Clients: map[string]*env.KV{}, Hmac: map[string][]byte{}}
	var err error
	if dialect == "my" {
		def := fakemy.TableDef{Name: "t", Cols: []fakemy.Column{{Name: "id", Type: fakemy.TypeLong}}}
		for _, c := range cols {
			ty := byte(fakemy.TypeVarString)
			if c.ty == 4 {
				ty = fakemy.TypeBlob
			}
			def.Cols = append(def.Cols, fakemy.Column{Name: c.name, Type: ty})
		}
		w.my, err = c04.NewMyWorld(tokYAML(cols), ks, []fakemy.TableDef{def}, rnd)
	} else {
		def := fakepg.TableDef{Name: "t", Cols: []fakepg.Column{{Name: "id", Type: fakepg.Int4}}}
		for _, c := range cols {
			def.Cols = append(def.Cols, fakepg.Column{Name: c.name, Type: w.colType(c)})
		}
		w.pg, err = c04.NewWorld(tokYAML(cols), ks, []fakepg.TableDef{def}, rnd)
	}
	must(err)
	return w
}

func (w *pxWorld) close() {
	if w.pg != nil {
		w.pg.Close()
	}
	if w.my != nil {
		w.my.Close()
	}
}

func (w *pxWorld) col(name string) (tokCol, int) {
	for i, c := range w.cols {
		if c.name == name {
			return c, i
		}
	}
	panic("harness: unknown column " + name)
}

// exec runs one statement in the session of `client` (opened on first use): the single value of the single row it
// returns (nil when there is none) or an error text.
func (w *pxWorld) exec(client []byte, sql string) ([]byte, string) {
	if w.dialect == "my" {
		s, ok := w.mySess[string(client)]
		if !ok {
			var err error
			s, err = w.my.Open(string(client), 0)
			must(err)
			w.mySess[string(client)] = s
		}
		res, err := s.C.Query(sql)
		if err != nil {
			return nil, "io: " + err.Error()
		}
		if res.Err != "" {
			return nil, "db: " + res.Err
		}
		if len(res.Rows) == 1 && len(res.Rows[0]) == 1 && res.Rows[0][0] != nil {
			return *res.Rows[0][0], ""
		}
		return nil, ""
	}
	s, ok := w.pgSess[string(client)]
	if !ok {
		var err error
		s, err = w.pg.Open(string(client))
		must(err)
		w.pgSess[string(client)] = s
	}
	res, err := s.C.Simple(sql)
	if err != nil {
		return nil, "io: " + err.Error()
	}
	if len(res) != 1 {
		return nil, "unexpected number of results"
	}
	if res[0].Err != "" {
		return nil, "db: " + res[0].Err + " " + res[0].ErrMsg
	}
	if len(res[0].Rows) == 1 && len(res[0].Rows[0]) == 1 && res[0].Rows[0][0] != nil {
		return *res[0].Rows[0][0], ""
	}
	return nil, ""
}

func (w *pxWorld) literal(c tokCol, v []byte) string {
	t := &tokWorld{dialect: w.dialect}
	return t.sqlLiteral(c.ty, v)
}

func (w *pxWorld) stored(id, colIdx int) []byte {
	if w.dialect == "my" {
		for _, row := range w.my.DB.Rows("t") {
			if row[0] != nil && string(*row[0]) == fmt.Sprint(id) && row[1+colIdx] != nil {
				return *row[1+colIdx]
			}
		}
		return nil
	}
	for _, row := range w.pg.DB.Rows("t") {
		if row[0] != nil && string(*row[0]) == fmt.Sprint(id) && row[1+colIdx] != nil {
			return *row[1+colIdx]
		}
	}
	return nil
}

// plant stores a row whose every column holds `data`, behind the proxy's back.
func (w *pxWorld) plant(data []byte) int {
	id := w.nextID
	w.nextID++
	if w.dialect == "my" {
		w.planted[id] = append([]byte{}, data...)
		return id
	}
	row := []fakepg.Val{fakepg.V([]byte(fmt.Sprint(id)))}
	for range w.cols {
		row = append(row, fakepg.V(data))
	}
	w.pg.DB.Put("t", row)
	return id
}

func registerPxOps() {
	// px.new handle dialect rnd ncols (name cid ty consistent)×ncols
	core.Register("C02.px.new", func(a []string) string {
		cols, _ := parseTokCols(a[3:])
		w := newPxWorld(a[1], cols, core.UnHex(a[2]))
		pxMu.Lock()
		pxs[a[0]] = w
		pxMu.Unlock()
		return "ok"
	})
	core.Register("C02.px.close", func(a []string) string {
		w := px(a[0])
		pxMu.Lock()
		delete(pxs, a[0])
		pxMu.Unlock()
		w.close()
		return "ok"
	})
	// px.write handle session col value : INSERT through the session of client `session`; what reached the database
	// is planted into a fresh row. Result: ok <stored value> <row id>
	core.Register("C02.px.write", func(a []string) string {
		w := px(a[0])
		c, ci := w.col(a[2])
		id := w.nextID
		w.nextID++
		_, e := w.exec(core.UnHex(a[1]), fmt.Sprintf("INSERT INTO t (id, %s) VALUES (%d, %s)", c.name, id, w.literal(c, core.UnHex(a[3]))))
		if e != "" {
			return core.Err
		}
		st := w.stored(id, ci)
		if st == nil {
			return core.Err
		}
		return fmt.Sprintf("ok %s %d", core.Hex(st), w.plant(st))
	})
	// px.read handle dialect session col row data ncols cols… nhist (session col value stored)×nhist :
	// SELECT <col> FROM t WHERE id = <row> in the session of client `session`. The rest of the line is for the
	// model: the column settings, the value `data` the row holds and the write history of the world with what
	// each write stored.
	core.Register("C02.px.read", func(a []string) string {
		w := px(a[0])
		c, _ := w.col(a[3])
		if w.dialect == "my" { // the row is handed out by the fake database as a canned one-column result
			d, ok := w.planted[core.Atoi(a[4])]
			if !ok {
				panic("harness: no such planted row")
			}
			v := append([]byte{}, d...)
			w.my.DB.SetCanned([][]fakemy.Val{{&v}})
		}
		out, e := w.exec(core.UnHex(a[2]), fmt.Sprintf("SELECT %s FROM t WHERE id = %s", c.name, a[4]))
		if e != "" {
			return core.Err
		}
		if w.dialect == "pg" && w.colType(c) == fakepg.Bytea && strings.HasPrefix(string(out), `\x`) {
			b, err := fakepg.DecodeByteaText(out)
			if err == nil {
				out = b
			}
		}
		return core.Hex(out)
	})
}
