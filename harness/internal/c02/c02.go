// Package c02: implementation-side ops, generators and oracles for property C02.
package c02
