// Package c02: data protected for one client is never revealed under another identity (C02).
//
// Implementation-side ops run the REAL Acra code: registry handler, AcraTranslator service (Decrypt,
// DecryptSym, searchable variants), envelope detector with and without the compatibility wrapper, the blind
// index check, the pseudoanonymizer, the gRPC service behind the real TLSDecryptServiceWrapper (with
// AuthInfo produced by a real TLS handshake through Acra's TLSConnectionWrapper using the certificates of
// /repo/tests/ssl), and both key store formats (v1 directory, v2 in-memory and directory back ends).
package c02

import (
	"bytes"
	"encoding/hex"
	"fmt"
	"os"
	"strings"

	"verifharness/internal/core"
	env "verifharness/internal/envops"
)

const markerLen = 12

// outBytes collects every byte string an op result carries.
func outBytes(out string) [][]byte {
	var bs [][]byte
	for _, f := range strings.Fields(out) {
		for _, p := range strings.Split(f, ",") {
			if len(p) >= 2 && len(p)%2 == 0 {
				if b, err := hex.DecodeString(p); err == nil {
					bs = append(bs, b)
				}
			}
		}
	}
	return bs
}

// leaks reports whether a result hands out the plaintext or its marker.
func leaks(out string, m, marker []byte) bool {
	for _, b := range outBytes(out) {
		if bytes.Equal(b, m) || bytes.Contains(b, marker) {
			return true
		}
	}
	return false
}

func okValue(out string) ([]byte, bool) {
	if strings.HasPrefix(out, "ok ") {
		f := strings.Fields(out)
		if len(f) >= 2 {
			return core.UnHex(f[1]), true
		}
	}
	return nil, false
}

var idAlphabet = []byte("abcdefghijklmnopqrstuvwxyzABCDEFGHIJKLMNOPQRSTUVWXYZ0123456789_- ")

// clientID draws an id that passes keystore.ValidateID (5…256 chars of letters, digits, '_', '-', ' ').
func clientID(rd *core.Rand, n int) []byte {
	b := make([]byte, n)
	for i := range b {
		b[i] = idAlphabet[rd.Intn(len(idAlphabet))]
	}
	return b
}

// plaintext = content of one of the C01 classes followed by a high-entropy marker.
func plaintext(rd *core.Rand) (m, marker []byte, class string) {
	l := core.Pick(rd, []int{0, 1, 3, 8, 17, 40, 100, 145, 300})
	body, class := env.Plain(rd, l)
	marker = rd.Bytes(markerLen)
	return append(append([]byte{}, body...), marker...), marker, class
}

// world is a set of identities with key histories (fake key store).
func newWorld(rd *core.Rand, ids [][]byte) []*ident {
	var out []*ident
	for _, id := range ids {
		out = append(out, &ident{id: id, kv: env.NewKV(rd, 1+rd.Intn(4), 1+rd.Intn(4)), hmac: rd.Bytes(32)})
	}
	return out
}

// writerView: the value may have been written under ANY key of the owner's history (before rotations).
func writerView(rd *core.Rand, kv *env.KV) *env.KV {
	w := *kv
	w.Pub = env.PubOf(kv.Privs[rd.Intn(len(kv.Privs))])
	w.Sym = kv.Syms[rd.Intn(len(kv.Syms))]
	return &w
}

type target struct {
	op   string // "C02.as" or "C02.asks <handle>"
	ids  []*ident
	what string // tag
}

func (t target) line(entry string, idx int, kind string, data []byte, hash string) string {
	return fmt.Sprintf("%s %s %d %s %s %s %s", t.op, entry, idx, kind, core.Hex(data), hash, identTokens(t.ids))
}

// crossCase: one value of identity a, every reveal-type entry point under identity b.
func crossCase(r *core.Run, t target, a, b int, kind string) {
	rd := r.Rand
	m, marker, class := plaintext(rd)
	owner := t.ids[a]
	r.Begin(fmt.Sprintf("%s-%s-%d>%d-%x", t.what, kind, a, b, marker), true, "store:"+t.what, "kind:"+kind, "class:"+class, fmt.Sprintf("pair:%d>%d", a, b))
	v, ok := env.Protect(r, kind, writerView(rd, owner.kv), m)
	if !r.Check(ok, "protect-failed", "protect failed on a non-empty plaintext") {
		return
	}
	if bytes.Equal(v, m) {
		r.Tag("protect:passthrough")
		return
	}
	// the owner can read it (the case is meaningful)
	own := r.Do(t.line("lib", a, kind, v, "none"))
	got, ok := okValue(own)
	r.Check(ok && bytes.Equal(got, m), "owner-cannot-reveal", "the owner does not get its own value back: "+own)
	// --- under b: library / registry, translator
	for _, entry := range []string{"lib", "tr.decrypt"} {
		out := r.Do(t.line(entry, b, kind, v, "none"))
		r.Check(!leaks(out, m, marker) && !strings.HasPrefix(out, "ok"), "cross-client-reveal",
			fmt.Sprintf("%s under identity #%d returned %s for a %s value of identity #%d", entry, b, trunc(out), kind, a))
	}
	// translator decrypt with the wrong handler kind is an error as well
	other := map[string]string{"struct": "block", "block": "struct"}[kind]
	out := r.Do(t.line("tr.decrypt", b, other, v, "none"))
	r.Check(!leaks(out, m, marker), "cross-client-reveal", "translator decrypt (other handler) leaked under another identity")
	// --- transparent column path: stored bytes come back unchanged
	pre, suf := env.Junk(rd, 24), env.Junk(rd, 24)
	if rd.Chance(30) {
		pre, suf = nil, nil
	}
	col := append(append(append([]byte{}, pre...), v...), suf...)
	for _, entry := range []string{"col", "colcompat"} {
		out := r.Do(t.line(entry, b, kind, col, "none"))
		r.Check(out == core.OkHex(col), "cross-client-column",
			fmt.Sprintf("%s under identity #%d did not return the stored column unchanged (%s value of #%d at offset %d): %s", entry, b, kind, a, len(pre), trunc(out)))
	}
	// … and the same column is opened for the owner (so the path is live)
	if !bytes.Contains(pre, []byte("%%%")) {
		out = r.Do(t.line("col", a, kind, col, "none"))
		r.Check(leaks(out, m, marker), "owner-column", "the owner's column was not decrypted: "+trunc(out))
	}
	// bare (old style) envelope: only the compatibility wrapper looks at it
	if inner, ok := bare(r, v); ok {
		bcol := append(append([]byte{}, pre...), inner...)
		if kind == "block" {
			bcol = append(bcol, suf...)
		}
		out := r.Do(t.line("colcompat", b, kind, bcol, "none"))
		r.Check(out == core.OkHex(bcol), "cross-client-column", "compat wrapper under another identity changed a column holding a bare envelope: "+trunc(out))
	}
	// --- blind index
	if !owner.noHmac {
		h := r.Do(fmt.Sprintf("C02.hash.gen %s %s", core.Hex(owner.hmac), core.Hex(m)))
		hash := core.UnHex(h)
		// sanity: verifies for the owner
		out = r.Do(t.line("hash.verify", a, kind, m, core.Hex(hash)))
		r.Check(out == "true", "owner-hash", "the owner's blind index does not verify: "+out)
		// under b the check fails, also against the right plaintext
		out = r.Do(t.line("hash.verify", b, kind, m, core.Hex(hash)))
		r.Check(out == "false", "cross-client-hash", fmt.Sprintf("blind index of identity #%d verified under identity #%d", a, b))
		// searchable decrypt: hash as separate field, and prepended
		out = r.Do(t.line("tr.search", b, kind, v, core.Hex(hash)))
		r.Check(!leaks(out, m, marker) && !strings.HasPrefix(out, "ok"), "cross-client-search", "searchable decrypt under another identity: "+trunc(out))
		joined := append(append([]byte{}, hash...), v...)
		out = r.Do(t.line("tr.search", b, kind, joined, "none"))
		r.Check(!leaks(out, m, marker) && !strings.HasPrefix(out, "ok"), "cross-client-search", "searchable decrypt (hash prepended) under another identity: "+trunc(out))
		out = r.Do(t.line("tr.search", a, kind, v, core.Hex(hash)))
		got, ok = okValue(out)
		r.Check(ok && bytes.Equal(got, m), "owner-search", "searchable decrypt fails for the owner: "+trunc(out))
		// the searchable value inside a column
		out = r.Do(t.line("col", b, kind, joined, "none"))
		r.Check(out == core.OkHex(joined), "cross-client-column", "column with a searchable value changed under another identity")
	}
}

func bare(r *core.Run, v []byte) ([]byte, bool) {
	out := r.Do("C01.container.deser " + core.Hex(v))
	var h string
	var id int
	if _, err := fmt.Sscanf(out, "ok %s %d", &h, &id); err != nil {
		return nil, false
	}
	return core.UnHex(h), true
}

func trunc(s string) string {
	if len(s) > 160 {
		return s[:160] + "…"
	}
	return s
}

func allPairs(n int) [][2]int {
	var ps [][2]int
	for a := 0; a < n; a++ {
		for b := 0; b < n; b++ {
			if a != b {
				ps = append(ps, [2]int{a, b})
			}
		}
	}
	return ps
}

func fakeWorlds(r *core.Run) {
	rd := r.Rand
	for w := 0; w < r.N(18, 700); w++ {
		ids := [][]byte{clientID(rd, 5+rd.Intn(12)), clientID(rd, 5+rd.Intn(12)), clientID(rd, 5+rd.Intn(40))}
		if w%5 == 1 { // ids that are prefixes / extensions of one another, incl. the v1 file name suffixes
			ids[1] = append(append([]byte{}, ids[0]...), []byte("_storage")...)
			ids[2] = append(append([]byte{}, ids[0]...), []byte("_storage_sym")...)
		}
		world := newWorld(rd, ids)
		switch w % 6 {
		case 2: // identity 2 has no keys at all
			world[2].kv = &env.KV{NoPub: true, NoPrivs: true, NoSym: true, NoSyms: true}
			world[2].noHmac = true
		case 3: // a symmetric key of identity 1 has the same 2-byte AcraBlock key id as the current key of identity 0
			k0, k1 := env.CollidingKeys(rd, nil)
			world[0].kv.Syms = append([][]byte{k0}, world[0].kv.Syms...)
			world[0].kv.Sym = k0
			world[1].kv.Syms = append([][]byte{k1}, world[1].kv.Syms...)
			world[1].kv.Sym = k1
		case 4: // empty key lists (store answers, but with nothing)
			world[1].kv.Privs, world[1].kv.Syms = [][]byte{}, [][]byte{}
		}
		t := target{op: "C02.as", ids: world, what: "fake"}
		for _, p := range allPairs(3) {
			if world[p[0]].kv.NoPrivs || len(world[p[0]].kv.Privs) == 0 {
				continue // nothing can be protected for an identity without keys
			}
			for _, kind := range []string{"struct", "block"} {
				crossCase(r, t, p[0], p[1], kind)
			}
		}
		// control: an identity that was handed the owner's keys CAN read – the oracle sees a reveal when there is one
		if w%3 == 0 {
			m, marker, _ := plaintext(rd)
			kind := core.Pick(rd, []string{"struct", "block"})
			r.Begin(fmt.Sprintf("control-shared-%x", marker), true, "control:shared-key", "kind:"+kind)
			if v, ok := env.Protect(r, kind, world[0].kv, m); ok && !bytes.Equal(v, m) {
				shared := []*ident{world[0], {id: world[1].id, kv: world[0].kv, hmac: world[0].hmac}, world[2]}
				out := r.Do(target{op: "C02.as", ids: shared}.line("lib", 1, kind, v, "none"))
				r.Check(leaks(out, m, marker), "control-shared-key", "control failed: an identity holding the owner's keys could not read the value")
			}
		}
	}
}

func grpcCases(r *core.Run) {
	rd := r.Rand
	ids := [][]byte{TLSClientID(0), TLSClientID(1), TLSClientID(2)}
	r.Extra["tls_client_ids"] = []string{string(ids[0]), string(ids[1]), string(ids[2])}
	rpcs := []struct{ rpc, kind string }{{"Decrypt", "struct"}, {"DecryptSym", "block"}, {"DecryptSearchable", "struct"}, {"DecryptSymSearchable", "block"}}
	for w := 0; w < r.N(5, 150); w++ {
		world := newWorld(rd, ids)
		toks := identTokens(world)
		for _, p := range allPairs(3) {
			a, b := p[0], p[1]
			for _, rc := range rpcs {
				m, marker, class := plaintext(rd)
				r.Begin(fmt.Sprintf("grpc-%s-%d>%d-%x", rc.rpc, a, b, marker), true, "entry:grpc", "rpc:"+rc.rpc, "class:"+class, fmt.Sprintf("pair:%d>%d", a, b))
				v, ok := env.Protect(r, rc.kind, writerView(rd, world[a].kv), m)
				if !ok || bytes.Equal(v, m) {
					continue
				}
				hash := "none"
				if strings.Contains(rc.rpc, "Searchable") {
					hash = r.Do(fmt.Sprintf("C02.hash.gen %s %s", core.Hex(world[a].hmac), core.Hex(m)))
				}
				// connection of b, request names a (forged), b, a random id, nothing
				for _, forged := range []string{core.Hex(ids[a]), core.Hex(ids[b]), core.Hex(clientID(rd, 8)), "none"} {
					out := r.Do(fmt.Sprintf("C02.grpc %s %s %s %s %s %s", rc.rpc, core.Hex(ids[b]), forged, core.Hex(v), hash, toks))
					r.Check(!leaks(out, m, marker) && !strings.HasPrefix(out, "ok"), "tls-forged-id",
						fmt.Sprintf("%s over a connection authenticated as #%d with ClientId field %s returned %s for a value of #%d", rc.rpc, b, forged[:min(12, len(forged))], trunc(out), a))
				}
				// connection of a, request names b: the owner is served (identity = connection)
				out := r.Do(fmt.Sprintf("C02.grpc %s %s %s %s %s %s", rc.rpc, core.Hex(ids[a]), core.Hex(ids[b]), core.Hex(v), hash, toks))
				got, ok := okValue(out)
				r.Check(ok && bytes.Equal(got, m), "tls-owner", rc.rpc+": the owner's connection was not served when the request named another id: "+trunc(out))
				// no peer information at all: refused
				out = r.Do(fmt.Sprintf("C02.grpc %s none %s %s %s %s", rc.rpc, core.Hex(ids[a]), core.Hex(v), hash, toks))
				r.Check(out == core.Err, "tls-no-peer", rc.rpc+" without a TLS peer was not refused: "+trunc(out))
				// control: WITHOUT the wrapper the request's id decides – the forged request is served
				out = r.Do(fmt.Sprintf("C02.grpc.plain %s %s %s %s %s", rc.rpc, core.Hex(ids[a]), core.Hex(v), hash, toks))
				r.Check(leaks(out, m, marker), "control-plain-grpc", "control failed: the bare gRPC service did not serve a request naming the owner")
			}
		}
	}
}

// translatorCases: the remaining RPCs through the real TLS wrapper (tokens, encrypt-type, query hash) and the
// HTTP API over real TLS connections. Implementation only (direct property oracles); values produced here
// are then pushed through the model-compared `C02.as` ops.
func translatorCases(r *core.Run) {
	rd := r.Rand
	ids := [][]byte{TLSClientID(0), TLSClientID(1), TLSClientID(2)}
	for w := 0; w < r.N(3, 80); w++ {
		world := newWorld(rd, ids)
		h := fmt.Sprintf("tr%d", w)
		r.Impl("C02.tr.new " + h + " " + identTokens(world))
		t := target{op: "C02.as", ids: world, what: "translator"}
		for _, p := range allPairs(3) {
			a, b := p[0], p[1]
			A, B := core.Hex(ids[a]), core.Hex(ids[b])
			// ---- tokens
			v := append(rd.Bytes(4+rd.Intn(12)), rd.Bytes(markerLen)...)
			r.Begin(fmt.Sprintf("grpc-token-%d>%d-%x", a, b, v[len(v)-markerLen:]), true, "entry:grpc-token", fmt.Sprintf("pair:%d>%d", a, b))
			out := r.Impl(fmt.Sprintf("C02.tr.grpc %s Tokenize %s %s %s", h, A, B, core.Hex(v)))
			tok, ok := okValue(out)
			if r.Check(ok && !bytes.Equal(tok, v), "tokenize", "Tokenize through the TLS wrapper failed: "+trunc(out)) {
				out = r.Impl(fmt.Sprintf("C02.tr.grpc %s Detokenize %s %s %s", h, B, A, core.Hex(tok)))
				got, ok := okValue(out)
				r.Check(ok && bytes.Equal(got, tok), "tls-forged-id", fmt.Sprintf("Detokenize over connection #%d naming #%d did not return the token unchanged: %s", b, a, trunc(out)))
				out = r.Impl(fmt.Sprintf("C02.tr.grpc %s Detokenize %s %s %s", h, A, B, core.Hex(tok)))
				got, ok = okValue(out)
				r.Check(ok && bytes.Equal(got, v), "tls-owner", "Detokenize over the owner's connection (request naming another id) did not return the value: "+trunc(out))
				out = r.Impl(fmt.Sprintf("C02.tr.grpc %s Detokenize none %s %s", h, A, core.Hex(tok)))
				r.Check(out == core.Err, "tls-no-peer", "Detokenize without a TLS peer was not refused")
			}
			// ---- encrypt-type RPCs over connection b with a forged id a: the result belongs to b
			m, marker, _ := plaintext(rd)
			for _, rc := range []struct{ rpc, kind string }{{"Encrypt", "struct"}, {"EncryptSym", "block"}, {"EncryptSearchable", "struct"}, {"EncryptSymSearchable", "block"}} {
				r.Begin(fmt.Sprintf("grpc-%s-%d>%d-%x", rc.rpc, a, b, marker), true, "entry:grpc-encrypt", "rpc:"+rc.rpc)
				f := strings.Fields(r.Impl(fmt.Sprintf("C02.tr.grpc %s %s %s %s %s", h, rc.rpc, B, A, core.Hex(m))))
				if !r.Check(len(f) >= 2 && f[0] == "ok", "grpc-encrypt", rc.rpc+" through the TLS wrapper failed") {
					continue
				}
				c := core.UnHex(f[len(f)-1])
				if bytes.Equal(c, m) {
					continue // the plaintext looked like a protected value and was passed through
				}
				out = r.Do(t.line("tr.decrypt", a, rc.kind, c, "none"))
				r.Check(!leaks(out, m, marker), "tls-forged-id", fmt.Sprintf("%s over connection #%d naming #%d produced a value that #%d can read", rc.rpc, b, a, a))
				out = r.Do(t.line("tr.decrypt", b, rc.kind, c, "none"))
				r.Check(leaks(out, m, marker), "tls-owner", rc.rpc+": the connection's own identity cannot read the value it encrypted")
				if len(f) == 3 { // searchable: the hash is the connection identity's
					out = r.Do(t.line("hash.verify", b, rc.kind, m, f[1]))
					r.Check(out == "true", "tls-owner", rc.rpc+": the hash does not verify under the connection's identity")
					out = r.Do(t.line("hash.verify", a, rc.kind, m, f[1]))
					r.Check(out == "false", "tls-forged-id", rc.rpc+": the hash verifies under the identity named in the request")
				}
			}
			r.Begin(fmt.Sprintf("grpc-queryhash-%d>%d-%x", a, b, marker), true, "entry:grpc-encrypt", "rpc:GenerateQueryHash")
			out = r.Impl(fmt.Sprintf("C02.tr.grpc %s GenerateQueryHash %s %s %s", h, B, A, core.Hex(m)))
			hb := r.Do(fmt.Sprintf("C02.hash.gen %s %s", core.Hex(world[b].hmac), core.Hex(m)))
			r.Check(out == "ok "+hb, "tls-forged-id", "GenerateQueryHash over connection b naming a did not use b's key")
			// ---- HTTP API over a TLS connection of b (a "client_id" smuggled into the JSON body is ignored)
			for _, kind := range []string{"struct", "block"} {
				m, marker, _ := plaintext(rd)
				r.Begin(fmt.Sprintf("http-%s-%d>%d-%x", kind, a, b, marker), true, "entry:http", "kind:"+kind)
				vv, ok := env.Protect(r, kind, writerView(rd, world[a].kv), m)
				if !ok || bytes.Equal(vv, m) {
					continue
				}
				op := map[string]string{"struct": "decrypt", "block": "decryptSym"}[kind]
				out = r.Impl(fmt.Sprintf("C02.tr.http %s %s %d %s %s", h, op, b, core.Hex(vv), A))
				r.Check(!leaks(out, m, marker) && !strings.HasPrefix(out, "200"), "http-cross-client", fmt.Sprintf("HTTP %s over a TLS connection of #%d returned %s for a value of #%d", op, b, trunc(out), a))
				out = r.Impl(fmt.Sprintf("C02.tr.http %s %s %d %s %s", h, op, a, core.Hex(vv), B))
				r.Check(out == "200 "+core.Hex(m), "http-owner", "HTTP "+op+" over the owner's TLS connection did not return the plaintext: "+trunc(out))
			}
		}
		r.Impl("C02.tr.close " + h)
	}
}

func tokenCases(r *core.Run) {
	rd := r.Rand
	const tyBytes = 4 // TokenType_Bytes
	for w := 0; w < r.N(60, 4000); w++ {
		ids := [][]byte{clientID(rd, 5+rd.Intn(8)), clientID(rd, 5+rd.Intn(8)), clientID(rd, 5+rd.Intn(8))}
		n := 1 + rd.Intn(6)
		type op struct {
			who     int
			v, rnd  []byte
			collide bool
		}
		var ops []op
		l := 4 + rd.Intn(20)
		for i := 0; i < n; i++ {
			o := op{who: rd.Intn(3), v: append(rd.Bytes(l), rd.Bytes(markerLen)...)}
			o.rnd = rd.Bytes(3 * len(o.v))
			switch {
			case i > 0 && rd.Chance(25): // the generator draws a token another request already got (same length)
				prev := ops[rd.Intn(len(ops))]
				copy(o.rnd, prev.rnd[:len(prev.v)])
				o.collide = true
			case i > 0 && rd.Chance(20): // the same value again (consistent tokenization), perhaps by someone else
				o.v = ops[rd.Intn(len(ops))].v
				o.rnd = rd.Bytes(3 * len(o.v))
			}
			ops = append(ops, o)
		}
		var parts []string
		for _, o := range ops {
			parts = append(parts, fmt.Sprintf("%s %s %d %s", core.Hex(ids[o.who]), core.Hex(o.v), tyBytes, core.Hex(o.rnd)))
		}
		hist := fmt.Sprintf("%d %s", len(ops), strings.Join(parts, " "))
		// learn the tokens
		r.Begin(fmt.Sprintf("tok-%d-%x", w, ops[0].v[:4]), true, "entry:tokens", fmt.Sprintf("ops:%d", n))
		first := r.Do(fmt.Sprintf("C02.tok.run %s %s %d %s", core.Hex(ids[0]), core.Hex(rd.Bytes(l+markerLen)), tyBytes, hist))
		f := strings.Fields(first)
		if !r.Check(len(f) >= 2, "tok-run", "token history did not run: "+trunc(first)) {
			continue
		}
		toks := strings.Split(f[0], ",")
		for i, o := range ops {
			if i >= len(toks) || toks[i] == "-err-" {
				continue
			}
			tok := core.UnHex(toks[i])
			for b := 0; b < 3; b++ {
				out := r.Do(fmt.Sprintf("C02.tok.run %s %s %d %s", core.Hex(ids[b]), core.Hex(tok), tyBytes, hist))
				ff := strings.Fields(out)
				res := strings.Join(ff[1:], " ")
				if b == o.who {
					got, ok := okValue(res)
					r.Check(ok && bytes.Equal(got, o.v), "owner-detokenize", "the owner does not get its value back for its token: "+trunc(res))
					continue
				}
				// b never tokenized o.v itself?
				own := false
				for _, x := range ops {
					if x.who == b && bytes.Equal(x.v, o.v) {
						own = true
					}
				}
				got, ok := okValue(res)
				if !own {
					r.Check(ok && !bytes.Equal(got, o.v) && !bytes.Contains(got, o.v[len(o.v)-markerLen:]), "cross-client-detokenize",
						fmt.Sprintf("de-tokenization under identity #%d returned the value identity #%d tokenized: %s", b, o.who, trunc(res)))
				}
				// token back unchanged unless b owns a record for the very same token bytes
				ownsToken := false
				for j, x := range ops {
					if x.who == b && j < len(toks) && toks[j] == toks[i] {
						ownsToken = true
					}
				}
				if !ownsToken {
					r.Check(ok && bytes.Equal(got, tok), "cross-client-detokenize", "a foreign token did not come back unchanged: "+trunc(res))
				}
			}
		}
	}
}

func realStores(r *core.Run) {
	rd := r.Rand
	formats := []struct {
		format string
		cache  string
	}{{"v1", "0"}, {"v1", "1"}, {"v2mem", "0"}, {"v2dir", "0"}}
	for w := 0; w < r.N(2, 30); w++ {
		for fi, f := range formats {
			h := fmt.Sprintf("ks%d_%d", w, fi)
			master, sig := rd.Bytes(32), rd.Bytes(32)
			r.Begin(fmt.Sprintf("store-%s-%s-%x", f.format, f.cache, master[:4]), true, "store:"+f.format, "cache:"+f.cache)
			r.Impl(fmt.Sprintf("C02.ks.new %s %s %s %s %s", f.format, h, core.Hex(master), core.Hex(sig), f.cache))
			ids := [][]byte{clientID(rd, 5+rd.Intn(10)), clientID(rd, 5+rd.Intn(10)), clientID(rd, 5+rd.Intn(30))}
			if w%2 == 1 {
				ids[1] = append(append([]byte{}, ids[0]...), []byte("_storage")...)
				ids[2] = append(append([]byte{}, ids[0]...), []byte("_storage_sym")...)
			}
			// arbitrary interleaved history of generations / rotations
			var hist []string
			for i := range ids {
				for _, what := range []string{"pair", "sym", "hmac"} {
					for k := 0; k < 1+rd.Intn(3); k++ {
						if what == "hmac" && k > 0 {
							break
						}
						hist = append(hist, fmt.Sprintf("%s %s", core.Hex(ids[i]), what))
					}
				}
			}
			for i := len(hist) - 1; i > 0; i-- {
				j := rd.Intn(i + 1)
				hist[i], hist[j] = hist[j], hist[i]
			}
			// the generation history as (owner, key) entries, newest first – what the model's `keysOf` filters
			genHist := map[string][]string{}
			for _, g := range hist {
				out := r.Impl(fmt.Sprintf("C02.ks.gen %s %s", h, g))
				r.Check(out == "ok", "keygen", "key generation failed on the real store: "+g)
				gf := strings.Fields(g)
				if class := map[string]string{"pair": "private", "sym": "sym"}[gf[1]]; class != "" {
					// read the new key through a fresh handle: a warm v1 cache keeps serving the previous
					// symmetric key after a rotation (a C06 matter – same client – reported to its owner)
					r.Impl("C02.ks.reopen " + h)
					if k, ok := okValue(r.Impl(fmt.Sprintf("C02.ks.current %s %s %s", h, class, gf[0]))); ok {
						genHist[class] = append([]string{gf[0] + " " + core.Hex(k)}, genHist[class]...)
					}
				}
			}
			for _, class := range []string{"private", "sym"} {
				for _, id := range ids {
					r.Do(fmt.Sprintf("C02.keys.view %s %s %s %d %s", h, class, core.Hex(id), len(genHist[class]), strings.Join(genHist[class], " ")))
				}
			}
			r.Impl("C02.ks.reopen " + h) // views are read cold; the entry points below then run on the warmed cache
			var world []*ident
			for _, id := range ids {
				v := parseIdents(append([]string{"1"}, strings.Fields(r.Impl(fmt.Sprintf("C02.ks.view %s %s", h, core.Hex(id))))...))[0]
				world = append(world, v)
			}
			distinctKeys(r, world, f.format)
			t := target{op: "C02.asks " + h, ids: world, what: f.format}
			for _, p := range allPairs(3) {
				for _, kind := range []string{"struct", "block"} {
					crossCase(r, t, p[0], p[1], kind)
				}
			}
			if f.format == "v1" {
				v1Binding(r, h, master, ids, world)
			} else {
				v2Binding(r, h, master, sig, ids, world)
			}
			r.Impl("C02.ks.close " + h)
		}
	}
}

// distinctKeys: different clients got different keys (and a client's rotations are all different, too).
func distinctKeys(r *core.Run, world []*ident, format string) {
	seen := map[string]int{}
	add := func(i int, k []byte, what string) {
		if len(k) == 0 {
			return
		}
		if j, ok := seen[string(k)]; ok && j != i {
			r.Fail("shared-key", fmt.Sprintf("%s store: identities #%d and #%d hold the same %s key", format, j, i, what))
		}
		seen[string(k)] = i
	}
	for i, id := range world {
		for _, k := range id.kv.Privs {
			add(i, k, "private")
		}
		for _, k := range id.kv.Syms {
			add(i, k, "symmetric")
		}
		add(i, id.hmac, "HMAC")
		add(i, id.kv.Pub, "public")
		r.Check(!id.kv.NoPrivs && len(id.kv.Privs) > 0 && !id.kv.NoSyms && len(id.kv.Syms) > 0 && !id.noHmac, "keys-missing", "a generated key cannot be read back")
	}
}

func currentOf(id *ident, what string) []byte {
	switch what {
	case "private":
		return id.kv.Privs[0]
	case "sym":
		return id.kv.Sym
	}
	return id.hmac
}

// v1Binding: the key files of the v1 store are where the model says, open under the model's context for
// their owner only, and do not load under another identity's name.
func v1Binding(r *core.Run, h string, master []byte, ids [][]byte, world []*ident) {
	rd := r.Rand
	purposes := []string{"private", "sym", "hmac"}
	name := func(p string, id []byte) string {
		return r.ModelOnly(fmt.Sprintf("C02.ctx.v1.name %s %s", p, core.Hex(id)))
	}
	blobs := map[string][]byte{}
	for i, id := range ids {
		for _, p := range purposes {
			r.Begin(fmt.Sprintf("v1ctx-%s-%d-%x", p, i, master[:4]), true, "entry:v1-context", "purpose:"+p)
			out := r.Impl(fmt.Sprintf("C02.ks1.read %s %s", h, name(p, id)))
			blob, ok := okValue(out)
			if !r.Check(ok, "v1-file-name", fmt.Sprintf("the %s key file of a client is not where the model expects it", p)) {
				continue
			}
			blobs[fmt.Sprintf("%s/%d", p, i)] = blob
			// opens for its owner under the model's context, giving the key the store hands out
			out = r.Do(fmt.Sprintf("C02.ctx.v1.open %s %s %s %s", core.Hex(master), p, core.Hex(id), core.Hex(blob)))
			got, ok := okValue(out)
			r.Check(ok && bytes.Equal(got, currentOf(world[i], p)), "v1-owner-open", "a v1 key file does not open under its owner's context to the key the store returns")
			// … for any purpose of the same owner (the purpose is not bound) – documented behaviour, compared with the model only
			r.Do(fmt.Sprintf("C02.ctx.v1.open %s %s %s %s", core.Hex(master), core.Pick(rd, purposes), core.Hex(id), core.Hex(blob)))
			// … and for no other identity
			for j, other := range ids {
				if j == i {
					continue
				}
				out = r.Do(fmt.Sprintf("C02.ctx.v1.open %s %s %s %s", core.Hex(master), core.Pick(rd, purposes), core.Hex(other), core.Hex(blob)))
				r.Check(out == core.Err, "stored-key-bound-v1", fmt.Sprintf("the %s key file of identity #%d opens under the key context of identity #%d", p, i, j))
			}
		}
	}
	// load-as on the real store: copy a's key file to b's name (destroys b's key – done last)
	for _, pr := range allPairs(3) {
		a, b := pr[0], pr[1]
		p, p2 := core.Pick(rd, purposes), core.Pick(rd, purposes)
		if rd.Chance(60) {
			p2 = p
		}
		blob, ok := blobs[fmt.Sprintf("%s/%d", p, a)]
		if !ok {
			continue
		}
		r.Begin(fmt.Sprintf("v1loadas-%s>%s-%d>%d-%x", p, p2, a, b, master[:4]), true, "entry:keystore.load-as", "store:v1")
		out := r.Do(fmt.Sprintf("C02.ks1.loadas %s %s %s %s %s %s %s %s %s", h, p, core.Hex(ids[a]), p2, core.Hex(ids[b]), core.Hex(master), core.Hex(blob), name(p, ids[a]), name(p2, ids[b])))
		r.Check(out == core.Err, "stored-key-bound-v1", fmt.Sprintf("v1: the %s key of identity #%d, copied to the %s key file name of identity #%d, was loaded: %s", p, a, p2, b, trunc(out)))
		// control: a key sealed for b at that name does load (so the name is the one the getter reads)
		key := rd.Bytes(32)
		if p2 == "private" {
			key = world[a].kv.Privs[0]
		}
		out = r.Impl(fmt.Sprintf("C02.ks1.plant %s %s %s %s %s", h, p2, core.Hex(ids[b]), core.Hex(key), name(p2, ids[b])))
		got, ok := okValue(out)
		r.Check(ok && bytes.Equal(got, key), "control-v1-plant", "control failed: a key sealed for the identity at the model's file name is not what its getter returns")
	}
}

// v2Binding: ring paths, key contexts and ring signatures of the v2 store.
func v2Binding(r *core.Run, h string, master, sig []byte, ids [][]byte, world []*ident) {
	rd := r.Rand
	rings := []string{"private", "sym", "hmac"}
	kindOf := map[string]string{"private": "private", "sym": "sym", "hmac": "sym"}
	path := func(ring string, id []byte) string {
		return r.ModelOnly(fmt.Sprintf("C02.ctx.v2.path %s %s", ring, core.Hex(id)))
	}
	type ringInfo struct{ payload, sig string }
	infos := map[string]ringInfo{}
	for i, id := range ids {
		for _, ring := range rings {
			r.Begin(fmt.Sprintf("v2ctx-%s-%d-%x", ring, i, master[:4]), true, "entry:v2-context", "ring:"+ring)
			p := path(ring, id)
			f := strings.Fields(r.Impl(fmt.Sprintf("C02.ks2.ring %s %s", h, p)))
			if !r.Check(len(f) >= 4 && f[0] == "ok", "v2-ring-path", fmt.Sprintf("the %s key ring of a client is not where the model expects it", ring)) {
				continue
			}
			infos[fmt.Sprintf("%s/%d", ring, i)] = ringInfo{f[1], f[2]}
			// the ring signature is the model's HMAC over context(path) ‖ ": " ‖ payload
			ms := r.ModelOnly(fmt.Sprintf("C02.ks2.sig %s %s %s", core.Hex(sig), p, f[1]))
			r.Check(ms == f[2], "v2-signature-model", "the ring signature is not HMAC(signature key, context(path) ‖ \": \" ‖ payload) as modelled")
			n := core.Atoi(f[3])
			var keys [][]byte
			switch ring {
			case "private":
				keys = world[i].kv.Privs
			case "sym":
				keys = world[i].kv.Syms
			default:
				keys = [][]byte{world[i].hmac}
			}
			for k := 0; k < n; k++ {
				seq, kind, blob := f[4+3*k], f[5+3*k], f[6+3*k]
				out := r.Do(fmt.Sprintf("C02.ctx.v2.open %s %s %s %s %s", core.Hex(master), p, kind, seq, blob))
				got, ok := okValue(out)
				found := false
				for _, key := range keys {
					if bytes.Equal(key, got) {
						found = true
					}
				}
				r.Check(ok && (found || ring == "hmac"), "v2-owner-open", "a v2 key blob does not open under the model's context to a key the store returns")
				// other sequence number, other kind, other ring of the same client, other client's ring: all fail
				alts := []string{
					fmt.Sprintf("%s %s %d", p, kind, core.Atoi(seq)+1+rd.Intn(3)),
					fmt.Sprintf("%s %s %s", p, map[string]string{"private": "sym", "sym": "private"}[kind], seq),
					fmt.Sprintf("%s %s %s", path(core.Pick(rd, rings), ids[(i+1+rd.Intn(2))%3]), kind, seq),
					fmt.Sprintf("%s %s %s", path(ring, ids[(i+1)%3]), kindOf[ring], seq),
				}
				for _, alt := range alts {
					out = r.Do(fmt.Sprintf("C02.ctx.v2.open %s %s %s", core.Hex(master), alt, blob))
					r.Check(out == core.Err, "stored-key-bound-v2", "a v2 key blob opened under another (ring path, kind, seqnum)")
				}
			}
		}
	}
	for _, pr := range allPairs(3) {
		a, b := pr[0], pr[1]
		ring, ring2 := core.Pick(rd, rings), core.Pick(rd, rings)
		if rd.Chance(60) {
			ring2 = ring
		}
		info, ok := infos[fmt.Sprintf("%s/%d", ring, a)]
		if !ok {
			continue
		}
		r.Begin(fmt.Sprintf("v2loadas-%s>%s-%d>%d-%x", ring, ring2, a, b, master[:4]), true, "entry:keystore.load-as", "store:v2")
		out := r.Do(fmt.Sprintf("C02.ks2.loadas %s %s %s %s %s %s %s %s %s %s", h, ring, core.Hex(ids[a]), ring2, core.Hex(ids[b]), core.Hex(sig), info.payload, info.sig, path(ring, ids[a]), path(ring2, ids[b])))
		r.Check(out == core.Err, "stored-key-bound-v2", fmt.Sprintf("v2: the %s ring of identity #%d, copied to the %s ring path of identity #%d, was loaded: %s", ring, a, ring2, b, trunc(out)))
	}
}

func run(r *core.Run) {
	r.Rule = "3 identities × all ordered pairs × both envelopes × every reveal-type entry point (registry Process, AcraTranslator Decrypt/DecryptSym/DecryptSearchable/DecryptSymSearchable, column detector with/without compat wrapper incl. bare envelopes and junk around, blind-index check, de-tokenization) under the OTHER identity; key histories of 1–4 generations on both sides with the value written under any generation; key stores: fake (by-id map), real v1 directory (with/without cache), real v2 in-memory and directory; ids incl. prefix/suffix-related ones; colliding 2-byte key ids; missing/empty key sets; gRPC through the real TLS wrapper with a real handshake and forged ClientId fields; keystore.load-as by copying key files / rings between identities; TLS identities: certificate families built with crypto/x509 (ed25519 keys from the run's PRNG; same CN with another OU/O/serial, another CN only, identical DN under another serial / key, reordered or merged multi-valued attributes, escaped characters, empty subject, nil) in random sequences on ONE long-lived extractor in both modes; end to end: the REAL grpc_api.NewServer (UseConnectionClientID) and the HTTP service behind the production callback chain on unix sockets, three TLS clients (two relatives) connecting in random order, every RPC and the HTTP operations with forged/empty/foreign client ids, in three certificate chain shapes (clients issued by the root / by an intermediate CA / by an intermediate with every client appending client A's certificate), server Detokenize compared with the model given the world's tokenization history; certificate chains: root → 0–2 intermediates → client certificates (roles: client, no authentication usage, CA) sending the chain alone / + root / + another client's certificate / + an unrelated CA through ServerHandshake, WrapServer, GetClientIDFromTLSConn and GetClientIDFromConnection; tokenized columns: one table with columns configured with client_id none / A / B (+ a column without setting), sessions A, B, C, 5 token types × consistent/not, both statement encryptors with a scripted token generator (collisions, retries, failure) and both real proxies end to end with the real generator – every stored token read by every session through its own and other columns; non-trivial = a value the owner can read back; distinct by (store, kind, pair, marker)"
	// VERIF_C02_ONLY=<group,…> (development aid; unset in every check run) restricts the run to the named groups
	only := os.Getenv("VERIF_C02_ONLY")
	for _, g := range []struct {
		name string
		f    func(*core.Run)
	}{{"identity", identityCases}, {"chain", chainCases}, {"server", serverCases}, {"fake", fakeWorlds}, {"grpc", grpcCases}, {"translator", translatorCases},
		{"tokens", tokenCases}, {"tokcol", tokColCases}, {"px", pxCases}, {"stores", realStores}} {
		if only == "" || strings.Contains(","+only+",", ","+g.name+",") {
			g.f(r)
		}
	}
}
