package c02

import (
	"bufio"
	"bytes"
	"context"
	"encoding/base64"
	"encoding/json"
	"errors"
	"fmt"
	"io"
	"net"
	"net/http"
	"sync"
	"time"

	"github.com/gin-gonic/gin"

	"github.com/cossacklabs/acra/cmd/acra-translator/common"
	"github.com/cossacklabs/acra/cmd/acra-translator/grpc_api"
	"github.com/cossacklabs/acra/cmd/acra-translator/http_api"
	"github.com/cossacklabs/acra/network"
	"github.com/cossacklabs/acra/pseudonymization"
	tokenCommon "github.com/cossacklabs/acra/pseudonymization/common"
	tokenStorage "github.com/cossacklabs/acra/pseudonymization/storage"

	"verifharness/internal/core"
)

// trHandle is a running AcraTranslator (service objects only, no sockets): the gRPC service behind the TLS
// wrapper and the HTTP service, over one key store and one encrypted in-memory token storage.
type trHandle struct {
	data    *common.TranslatorData
	plain   grpc_api.DecryptService
	wrapped grpc_api.DecryptService
	svc     common.ITranslatorService
}

var (
	trMu sync.Mutex
	trs  = map[string]*trHandle{}
)

func tr(h string) *trHandle {
	trMu.Lock()
	defer trMu.Unlock()
	t, ok := trs[h]
	if !ok {
		panic("harness: unknown translator handle " + h)
	}
	return t
}

// oneConn is a listener that hands out one prepared connection.
type oneConn struct {
	c    net.Conn
	done chan struct{}
	once sync.Once
}

func (l *oneConn) Accept() (net.Conn, error) {
	var c net.Conn
	l.once.Do(func() { c = l.c })
	if c != nil {
		return c, nil
	}
	<-l.done
	return nil, errors.New("verif: listener closed")
}
func (l *oneConn) Close() error   { return nil }
func (l *oneConn) Addr() net.Addr { return &net.TCPAddr{} }

// httpCall sends one request of the HTTP API over a fresh TLS connection authenticated as TLS identity i
// (a real handshake through Acra's TLS wrapper; the HTTP server reads from the wrapped server side).
func (t *trHandle) httpCall(i int, path string, body []byte) (int, []byte) {
	initTLS()
	id := handshake(tlsNames[i])
	if id.err != nil {
		panic("harness: " + id.err.Error())
	}
	gin.DefaultWriter, gin.DefaultErrorWriter = io.Discard, io.Discard
	ctx, cancel := context.WithCancel(context.Background())
	defer cancel()
	svc, err := http_api.NewHTTPService(t.svc, t.data, http_api.WithContext(ctx), http_api.WithConnectionContextHandler(network.SetConnectionToHTTPContext))
	must(err)
	l := &oneConn{c: id.conn, done: make(chan struct{})}
	go svc.Start(l)
	defer close(l.done)
	req, err := http.NewRequest(http.MethodPost, "http://translator"+path, bytes.NewReader(body))
	must(err)
	req.Header.Set("Content-Type", "application/json")
	req.Close = true
	id.client.SetDeadline(time.Now().Add(10 * time.Second))
	must(req.Write(id.client))
	resp, err := http.ReadResponse(bufio.NewReader(id.client), req)
	must(err)
	defer resp.Body.Close()
	b, _ := io.ReadAll(resp.Body)
	id.raw.Close()
	return resp.StatusCode, b
}

func registerTranslatorOps() {
	// tr.new handle n idents… : translator over a fake key store with the given identities (ids should be the TLS ids)
	core.Register("C02.tr.new", func(a []string) string {
		initTLS()
		ids := parseIdents(a[1:])
		ks := tksOf(ids)
		mem, err := tokenStorage.NewMemoryTokenStorage()
		must(err)
		enc, err := tokenStorage.NewSCellEncryptor(ks)
		must(err)
		tok, err := pseudonymization.NewPseudoanonymizer(tokenStorage.WrapStorageWithEncryption(mem, enc))
		must(err)
		data := &common.TranslatorData{Keystorage: ks, Tokenizer: tok, UseConnectionClientID: true, TLSClientIDExtractor: tlsExtr}
		inner, err := common.NewTranslatorService(data)
		must(err)
		g, err := grpc_api.NewTranslatorService(inner, data)
		must(err)
		w, err := grpc_api.NewTLSDecryptServiceWrapper(g, tlsExtr)
		must(err)
		trMu.Lock()
		trs[a[0]] = &trHandle{data: data, plain: g, wrapped: w, svc: inner}
		trMu.Unlock()
		return "ok"
	})
	core.Register("C02.tr.close", func(a []string) string {
		trMu.Lock()
		delete(trs, a[0])
		trMu.Unlock()
		return "ok"
	})
	// tr.grpc handle rpc conn forged data : non-decrypt RPCs through the TLS wrapper. Results:
	//   Tokenize / Detokenize (bytes values)  -> ok <bytes>
	//   Encrypt / EncryptSym                   -> ok <container>
	//   EncryptSearchable / EncryptSymSearchable -> ok <hash> <container>
	//   GenerateQueryHash                      -> ok <hash>
	core.Register("C02.tr.grpc", func(a []string) string {
		t := tr(a[0])
		ctx := peerCtx(connIndex(a[2]))
		forged, data := optBytes(a[3]), core.UnHex(a[4])
		switch a[1] {
		case "Tokenize", "Detokenize":
			req := &grpc_api.TokenizeRequest{ClientId: forged, Value: &grpc_api.TokenizeRequest_BytesValue{BytesValue: data}}
			var resp *grpc_api.TokenizeResponse
			var err error
			if a[1] == "Tokenize" {
				resp, err = t.wrapped.Tokenize(ctx, req)
			} else {
				resp, err = t.wrapped.Detokenize(ctx, req)
			}
			if err != nil {
				return core.Err
			}
			return core.OkHex(resp.GetBytesToken())
		case "Encrypt":
			r, err := t.wrapped.Encrypt(ctx, &grpc_api.EncryptRequest{ClientId: forged, Data: data})
			if err != nil {
				return core.Err
			}
			return core.OkHex(r.Acrastruct)
		case "EncryptSym":
			r, err := t.wrapped.EncryptSym(ctx, &grpc_api.EncryptSymRequest{ClientId: forged, Data: data})
			if err != nil {
				return core.Err
			}
			return core.OkHex(r.Acrablock)
		case "EncryptSearchable":
			r, err := t.wrapped.EncryptSearchable(ctx, &grpc_api.SearchableEncryptionRequest{ClientId: forged, Data: data})
			if err != nil {
				return core.Err
			}
			return "ok " + core.Hex(r.Hash) + " " + core.Hex(r.Acrastruct)
		case "EncryptSymSearchable":
			r, err := t.wrapped.EncryptSymSearchable(ctx, &grpc_api.SearchableSymEncryptionRequest{ClientId: forged, Data: data})
			if err != nil {
				return core.Err
			}
			return "ok " + core.Hex(r.Hash) + " " + core.Hex(r.Acrablock)
		case "GenerateQueryHash":
			r, err := t.wrapped.GenerateQueryHash(ctx, &grpc_api.QueryHashRequest{ClientId: forged, Data: data})
			if err != nil {
				return core.Err
			}
			return core.OkHex(r.Hash)
		}
		panic("harness: unknown rpc " + a[1])
	})
	// tr.http handle op connIdx data extraClientId : the HTTP API (v2, JSON) over a TLS connection of identity
	// connIdx; extraClientId (hex or none) is smuggled into the JSON body as "client_id". Result: `<status> <data>`
	core.Register("C02.tr.http", func(a []string) string {
		t := tr(a[0])
		body := map[string]any{"data": base64.StdEncoding.EncodeToString(core.UnHex(a[3]))}
		if a[4] != "none" {
			body["client_id"] = base64.StdEncoding.EncodeToString(core.UnHex(a[4]))
			body["clientId"] = string(core.UnHex(a[4]))
		}
		jb, _ := json.Marshal(body)
		status, resp := t.httpCall(core.Atoi(a[2]), "/v2/"+a[1], jb)
		var out struct {
			Data string `json:"data"`
		}
		if status != 200 {
			return fmt.Sprint(status)
		}
		if err := json.Unmarshal(resp, &out); err != nil {
			return fmt.Sprintf("%d unparsable", status)
		}
		b, err := base64.StdEncoding.DecodeString(out.Data)
		if err != nil {
			return fmt.Sprintf("%d unparsable", status)
		}
		return fmt.Sprintf("%d %s", status, core.Hex(b))
	})
	// used only to keep the import when token ops are compiled out
	_ = tokenCommon.TokenType_Bytes
}
