package c02

import (
	"bytes"
	"fmt"
	"strings"

	"verifharness/internal/core"
)

// tokValue draws a value of a token type in the text form a statement carries (canonical decimal for the
// integer types), unique through its random part.
func tokValue(rd *core.Rand, ty int) []byte {
	const alnum = "abcdefghijklmnopqrstuvwxyzABCDEFGHIJKLMNOPQRSTUVWXYZ0123456789"
	word := func(n int) []byte {
		b := make([]byte, n)
		for i := range b {
			b[i] = alnum[rd.Intn(len(alnum))]
		}
		return b
	}
	switch ty {
	case 1:
		n := int64(rd.Intn(1<<31-1)) + 1
		if rd.Chance(30) {
			n = -n
		}
		return []byte(fmt.Sprint(n))
	case 2:
		n := int64(rd.Intn(1<<31-1))<<31 + int64(rd.Intn(1<<31-1)) + 1
		if rd.Chance(30) {
			n = -n
		}
		return []byte(fmt.Sprint(n))
	case 4:
		return rd.Bytes(8 + rd.Intn(16))
	case 5:
		return []byte(string(word(6+rd.Intn(6))) + "@" + string(word(4+rd.Intn(4))) + core.Pick(rd, []string{".com", ".net", ".org", ".de"}))
	}
	return word(10 + rd.Intn(14))
}

// tokCandidate draws a candidate token for a value (what the random generator could have produced).
func tokCandidate(rd *core.Rand, ty int, v []byte) []byte {
	switch ty {
	case 1, 2, 5:
		return tokValue(rd, ty)
	case 4:
		return rd.Bytes(len(v))
	}
	t := tokValue(rd, 3)
	for len(t) < len(v) {
		t = append(t, tokValue(rd, 3)...)
	}
	return t[:len(v)]
}

type tokWrite struct {
	session int
	col     int
	v       []byte
	cands   [][]byte
	stored  []byte // what reached the database (filled in from the result)
	failed  bool
}

// tokColCases: tokenized columns behind the proxies. Worlds of three client ids A, B, C and one table whose
// tokenized columns are configured with `client_id:` none / A / B (plus a column without setting), one token
// type × consistency per world, both statement encryptors. Every session writes into every column; every stored
// token is then read back by every session through its own and through the other columns.
func tokColCases(r *core.Run) {
	rd := r.Rand
	combo := 0
	for w := 0; w < r.N(40, 1200); w++ {
		dialect := []string{"pg", "my"}[w%2]
		ty := 1 + (combo/2)%5
		consistent := combo%2 == 0
		if w%2 == 1 {
			combo++
		}
		ids := [][]byte{clientID(rd, 5+rd.Intn(10)), clientID(rd, 5+rd.Intn(10)), clientID(rd, 5+rd.Intn(20))}
		if w%7 == 3 { // ids that extend one another
			ids[1] = append(append([]byte{}, ids[0]...), 'x')
			ids[2] = append(append([]byte{}, ids[0]...), []byte("_storage")...)
		}
		cols := []tokCol{
			{name: "c_none", ty: ty, consistent: consistent},
			{name: "c_a", cid: ids[0], ty: ty, consistent: consistent},
			{name: "c_b", cid: ids[1], ty: ty, consistent: consistent},
			{name: "c_plain"},
		}
		if w%5 == 4 { // a second column of A with the other consistency (shares the token storage)
			cols = append(cols, tokCol{name: "c_a2", cid: ids[0], ty: ty, consistent: !consistent})
		}
		owner := func(wr *tokWrite) int {
			switch {
			case len(cols[wr.col].cid) == 0:
				return wr.session
			case bytes.Equal(cols[wr.col].cid, ids[0]):
				return 0
			default:
				return 1
			}
		}
		// ---- writes: every session into every tokenized column, a few extra
		var writes []*tokWrite
		add := func(session, col int) *tokWrite {
			wr := &tokWrite{session: session, col: col, v: tokValue(rd, ty)}
			nc := 1 + rd.Intn(3)
			for k := 0; k < nc; k++ {
				c := tokCandidate(rd, ty, wr.v)
				if k == 0 && len(writes) > 0 && rd.Chance(20) { // the generator draws a token that exists already
					prev := writes[rd.Intn(len(writes))]
					if len(prev.cands) > 0 && (ty != 3 && ty != 4 || len(prev.cands[0]) == len(wr.v)) {
						c = prev.cands[0]
					}
				}
				wr.cands = append(wr.cands, c)
			}
			if rd.Chance(4) {
				wr.cands = nil // the generator fails
			}
			writes = append(writes, wr)
			return wr
		}
		for _, p := range rd2perm(rd, 9) {
			add(p/3, p%3)
		}
		for k := 0; k < rd.Intn(4); k++ {
			wr := add(rd.Intn(3), rd.Intn(len(cols)))
			if rd.Chance(50) && len(writes) > 1 { // the same value again (consistent tokenization finds it), perhaps by someone else
				wr.v = writes[rd.Intn(len(writes)-1)].v
			}
		}
		var ops []string
		for _, wr := range writes {
			cs := make([]string, len(wr.cands))
			for i, c := range wr.cands {
				cs[i] = core.Hex(c)
			}
			ops = append(ops, strings.TrimSpace(fmt.Sprintf("W %s %s %s %d %s", core.Hex(ids[wr.session]), cols[wr.col].name, core.Hex(wr.v), len(cs), strings.Join(cs, " "))))
		}
		head := fmt.Sprintf("C02.tokcol.run %s %d", dialect, len(cols))
		for _, c := range cols {
			head += " " + c.tokens()
		}
		r.Begin(fmt.Sprintf("tokcol-%s-%d-%v-%x", dialect, ty, consistent, writes[0].v), true, "entry:token-column", "dialect:"+dialect, "type:"+tokTypeNames[ty], fmt.Sprintf("consistent:%v", consistent))
		out := r.Do(fmt.Sprintf("%s %d %s", head, len(ops), strings.Join(ops, " ")))
		res := strings.Split(out, ",")
		if !r.Check(len(res) == len(writes), "tokcol-run", "the write history did not run: "+trunc(out)) {
			continue
		}
		for i, wr := range writes {
			if res[i] == core.Err {
				wr.failed = true
				continue
			}
			wr.stored = core.UnHex(res[i])
			if cols[wr.col].ty != 0 {
				r.Check(!bytes.Equal(wr.stored, wr.v), "plaintext-stored", fmt.Sprintf("%s: a value written into tokenized column %s reached the database in clear", dialect, cols[wr.col].name))
			}
		}
		// ---- reads: every stored token × every session × the column it was written to and another one
		type read struct {
			session, col int
			wr           *tokWrite
		}
		var reads []read
		for _, wr := range writes {
			if wr.failed || cols[wr.col].ty == 0 {
				continue
			}
			for b := 0; b < 3; b++ {
				reads = append(reads, read{b, wr.col, wr})
				if rd.Chance(40) {
					reads = append(reads, read{b, rd.Intn(len(cols)), wr})
				}
			}
		}
		all := append([]string{}, ops...)
		for _, rdd := range reads {
			all = append(all, fmt.Sprintf("R %s %s %s", core.Hex(ids[rdd.session]), cols[rdd.col].name, core.Hex(rdd.wr.stored)))
		}
		out = r.Do(fmt.Sprintf("%s %d %s", head, len(all), strings.Join(all, " ")))
		res = strings.Split(out, ",")
		if !r.Check(len(res) == len(all), "tokcol-run", "the history with reads did not run: "+trunc(out)) {
			continue
		}
		for k, rdd := range reads {
			got := res[len(ops)+k]
			wr, b := rdd.wr, rdd.session
			col := cols[rdd.col]
			r.Tag(fmt.Sprintf("read:%s-as-%d-owner-%d", map[bool]string{true: "cfg", false: "nocfg"}[len(col.cid) > 0], b, owner(wr)))
			what := fmt.Sprintf("%s, %s%s: session of client #%d selecting column %s (client_id %s) holding the token of a value written by a session of #%d into column %s (owner #%d)",
				dialect, tokTypeNames[ty], map[bool]string{true: " consistent", false: ""}[consistent], b, col.name, map[bool]string{true: "set", false: "none"}[len(col.cid) > 0], wr.session, cols[wr.col].name, owner(wr))
			if got == core.Err {
				// never an oracle failure by itself (a type mismatch between columns is an error), but not expected here
				r.Check(col.ty != 0 && col.ty != ty, "tokcol-read-error", what+": read failed")
				continue
			}
			val := core.UnHex(got)
			// does b own a record for these very token bytes, or the same value? (then it may see its own value)
			ownsSame := false
			for _, x := range writes {
				if !x.failed && cols[x.col].ty != 0 && owner(x) == b && (bytes.Equal(x.stored, wr.stored) || bytes.Equal(x.v, wr.v)) {
					ownsSame = true
				}
			}
			if col.ty == 0 {
				r.Check(bytes.Equal(val, wr.stored), "tokcol-plain-column", what+": a column without setting was changed")
				continue
			}
			if owner(wr) == b {
				if rdd.col == wr.col {
					r.Check(bytes.Equal(val, wr.v), "owner-detokenize", what+": the owner does not get its value back: "+trunc(got))
				}
				continue
			}
			if !ownsSame {
				// ORACLE (C02): a session whose identity is not the identity the value was tokenized under never
				// receives the plaintext; it gets what is stored
				r.Check(!bytes.Equal(val, wr.v), "cross-client-column-detokenize", what+": received the PLAINTEXT")
				r.Check(bytes.Equal(val, wr.stored), "cross-client-column-detokenize", what+": did not get the stored token back unchanged: "+trunc(got))
			} else {
				r.Check(!bytes.Equal(val, wr.v) || valueOwnedBy(writes, cols, owner, b, wr.v), "cross-client-column-detokenize", what+": received the PLAINTEXT")
			}
		}
	}
}

func valueOwnedBy(writes []*tokWrite, cols []tokCol, owner func(*tokWrite) int, b int, v []byte) bool {
	for _, x := range writes {
		if !x.failed && cols[x.col].ty != 0 && owner(x) == b && bytes.Equal(x.v, v) {
			return true
		}
	}
	return false
}

// pxCases: the same worlds through the REAL proxies end to end (both front ends): every session writes into every
// tokenized column with an INSERT, every stored token is selected by every session through its own column and
// another one. Reads are compared with the model, which is told what each write stored (the proxies draw their
// tokens from the real random generator).
func pxCases(r *core.Run) {
	rd := r.Rand
	for w := 0; w < r.N(10, 150); w++ {
		dialect := []string{"pg", "my"}[w%2]
		ty := []int{3, 4, 1, 5, 2}[(w/2)%5]
		consistent := (w/10)%2 == 0
		ids := [][]byte{clientID(rd, 5+rd.Intn(10)), clientID(rd, 5+rd.Intn(10)), clientID(rd, 5+rd.Intn(20))}
		cols := []tokCol{
			{name: "c_none", ty: ty, consistent: consistent},
			{name: "c_a", cid: ids[0], ty: ty, consistent: consistent},
			{name: "c_b", cid: ids[1], ty: ty, consistent: consistent},
		}
		colToks := fmt.Sprint(len(cols))
		for _, c := range cols {
			colToks += " " + c.tokens()
		}
		h := fmt.Sprintf("px%d", w)
		r.Begin(fmt.Sprintf("px-%s-%s-%v-%x", dialect, tokTypeNames[ty], consistent, ids[0]), true, "entry:proxy-token-column", "dialect:"+dialect, "type:"+tokTypeNames[ty])
		if out := r.Impl(fmt.Sprintf("C02.px.new %s %s %s %s", h, dialect, core.Hex(rd.Bytes(4096)), colToks)); !r.Check(out == "ok", "px-start", "the proxy world did not start: "+out) {
			continue
		}
		type pw struct {
			session, col int
			v, stored    []byte
			row          string
		}
		var writes []*pw
		var hist []string
		owner := func(x *pw) int {
			if x.col == 0 {
				return x.session
			}
			return x.col - 1
		}
		for _, p := range rd2perm(rd, 9) {
			x := &pw{session: p / 3, col: p % 3, v: tokValue(rd, ty)}
			if len(writes) > 0 && rd.Chance(15) {
				x.v = writes[rd.Intn(len(writes))].v // the same value again
			}
			f := strings.Fields(r.Impl(fmt.Sprintf("C02.px.write %s %s %s %s", h, core.Hex(ids[x.session]), cols[x.col].name, core.Hex(x.v))))
			if !r.Check(len(f) == 3 && f[0] == "ok", "px-write", fmt.Sprintf("%s: INSERT into a tokenized %s column through the proxy failed", dialect, tokTypeNames[ty])) {
				continue
			}
			x.stored, x.row = core.UnHex(f[1]), f[2]
			r.Check(!bytes.Equal(x.stored, x.v), "plaintext-stored", fmt.Sprintf("%s: a value written into tokenized column %s reached the database in clear", dialect, cols[x.col].name))
			writes = append(writes, x)
			hist = append(hist, fmt.Sprintf("%s %s %s %s", core.Hex(ids[x.session]), cols[x.col].name, core.Hex(x.v), core.Hex(x.stored)))
		}
		for _, x := range writes {
			for b := 0; b < 3; b++ {
				for _, ci := range []int{x.col, rd.Intn(3)} {
					out := r.Do(fmt.Sprintf("C02.px.read %s %s %s %s %s %s %s %d %s", h, dialect, core.Hex(ids[b]), cols[ci].name, x.row, core.Hex(x.stored), colToks, len(hist), strings.Join(hist, " ")))
					what := fmt.Sprintf("%s proxy, %s: session of client #%d selecting column %s holding the token of a value written by a session of #%d into column %s (owner #%d)",
						dialect, tokTypeNames[ty], b, cols[ci].name, x.session, cols[x.col].name, owner(x))
					if !r.Check(out != core.Err && out != core.Panic, "px-read", what+": "+out) {
						continue
					}
					val := core.UnHex(out)
					if owner(x) == b {
						if ci == x.col {
							r.Check(bytes.Equal(val, x.v), "owner-detokenize", what+": the owner does not get its value back")
						}
						continue
					}
					ownsSame := false
					for _, y := range writes {
						if owner(y) == b && (bytes.Equal(y.stored, x.stored) || bytes.Equal(y.v, x.v)) {
							ownsSame = true
						}
					}
					if !ownsSame {
						r.Check(!bytes.Equal(val, x.v), "cross-client-column-detokenize", what+": received the PLAINTEXT")
						r.Check(bytes.Equal(val, x.stored), "cross-client-column-detokenize", what+": did not get the stored token back unchanged: "+trunc(out))
					}
				}
			}
		}
		r.Impl("C02.px.close " + h)
	}
}
