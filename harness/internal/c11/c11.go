// Package c11: masked columns show only the allowed window to clients that cannot decrypt (C11).
package c11

import (
	"bytes"
	"fmt"
	"strings"
	"time"

	"github.com/cossacklabs/acra/crypto"
	encryptor "github.com/cossacklabs/acra/encryptor/base"
	"github.com/cossacklabs/acra/encryptor/base/config"
	"github.com/cossacklabs/acra/masking"

	"verifharness/internal/core"
	env "verifharness/internal/envops"
)

// setting builds the column setting through Acra's own YAML configuration path (validation included).
func setting(kind, patternHex, k, side string) (config.ColumnEncryptionSetting, error) {
	envl := "acrastruct"
	if kind == "block" {
		envl = "acrablock"
	}
	// YAML double-quoted scalar with \xNN escapes carries arbitrary pattern bytes
	var sb strings.Builder
	for _, b := range core.UnHex(patternHex) {
		fmt.Fprintf(&sb, "\\x%02x", b)
	}
	y := fmt.Sprintf("schemas:\n  - table: t\n    columns: [c]\n    encrypted:\n      - column: c\n        masking: \"%s\"\n        plaintext_length: %s\n        plaintext_side: %s\n        crypto_envelope: %s\n", sb.String(), k, side, envl)
	st, err := config.MapTableSchemaStoreFromConfig([]byte(y), config.UsePostgreSQL)
	if err != nil {
		return nil, err
	}
	return st.GetTableSchema("t").GetColumnEncryptionSettings("c"), nil
}

func init() {
	core.RegisterProp("C11", run)
	// write kind pattern k side [kv×4] data rnd
	core.Register("C11.write", func(a []string) (res string) {
		s, err := setting(a[0], a[1], a[2], a[3])
		if err != nil {
			return "badcfg"
		}
		kv := env.ParseKV(a[4:8])
		reg := crypto.NewRegistryHandler(kv)
		me, err := masking.NewMaskingDataEncryptor(&env.TKS{Clients: map[string]*env.KV{"client": kv}}, encryptor.NewChainDataEncryptor(reg))
		if err != nil {
			panic("harness: " + err.Error())
		}
		env.WithRand(core.UnHex(a[9]), func() {
			out, err := me.EncryptWithClientID([]byte("client"), core.UnHex(a[8]), s)
			if err != nil {
				res = core.Err
			} else {
				res = core.OkHex(out)
			}
		})
		return
	})
	// read kind pattern k side [kv×4] stored
	core.Register("C11.read", func(a []string) string {
		s, err := setting(a[0], a[1], a[2], a[3])
		if err != nil {
			return "badcfg"
		}
		kv := env.ParseKV(a[4:8])
		reg := crypto.NewRegistryHandler(kv)
		proc, err := masking.NewProcessor(reg)
		if err != nil {
			panic("harness: " + err.Error())
		}
		det := crypto.NewEnvelopeDetector()
		w := crypto.NewOldContainerDetectorWrapper(det)
		det.AddCallback(crypto.NewDecryptHandler(kv, proc))
		ctx := encryptor.NewContextWithEncryptionSetting(env.Ctx([]byte("client")), s)
		_, out, err := w.OnColumn(ctx, core.UnHex(a[8]))
		if err != nil {
			return "fatal"
		}
		return core.OkHex(out)
	})
}

// boundaryTails are the ends of clear windows that meet the envelope (see the directed cases of the masking stream).
var boundaryTails = [][]byte{[]byte("%"), []byte("%%"), []byte("a%"), []byte("%a%"), []byte("\""), []byte("\"\""), []byte("\"\"\""), []byte("%%%%"), []byte("%\"")}

func okBytes(out string) ([]byte, bool) {
	if len(out) >= 4 && out[:3] == "ok " {
		return core.UnHex(out[3:]), true
	}
	return nil, false
}

// defect witnesses (fixed by the ExtractSerializedContainer length check): a false container header inside
// the clear window of a masked column, read by a client without keys
var corpus = []struct{ length uint64 }{{0}, {5}, {12}, {13}, {1 << 40}, {1 << 63}, {1<<64 - 1}}

func run(r *core.Run) {
	r.Rule = "masked columns: patterns (plain, containing tags, equal to window bytes) × window length 0…|v|+1 × side × envelope kind × value classes (random, tag runs, fake headers) × readers (owner, owner after rotation, other client, no keys); non-trivial = a write that produced a protected part; distinct by (config, value, reader)"
	rd := r.Rand
	none := &env.KV{NoPub: true, NoPrivs: true, NoSym: true, NoSyms: true}
	// regression corpus first: false header in the window, reader without keys – must terminate, not panic, not drop bytes
	for _, w := range corpus {
		for _, id := range []byte{0xf0, 0xf1} {
			col := append([]byte("ab%%%"), 0, 0, 0, 0, 0, 0, 0, 0)
			for i := 0; i < 8; i++ {
				col[5+i] = byte(w.length >> (8 * uint(i)))
			}
			col = append(append(col, id), []byte("xytail-of-the-column")...)
			r.Begin(fmt.Sprintf("corpus-%d-%x", w.length, id), true, "stream:corpus")
			line := fmt.Sprintf("C11.read block %s 2 left %s %s", core.Hex([]byte("xxxx")), none.Tokens(), core.Hex(col))
			got := r.ImplIsolated(line, 90*time.Second) // generous: the child starts slowly on a loaded machine; a real endless loop still ends here
			r.Diff(line, got)
			r.Check(got != "timeout" && got != "oom", "mask-scan-length", fmt.Sprintf("masked-column scan does not terminate on a false container header with length %d", w.length))
			r.Check(got != core.Panic, "mask-scan-length", fmt.Sprintf("masked-column scan panics on a false container header with length %d", w.length))
		}
	}
	// patterns are configuration strings (YAML text): printable ASCII only
	patterns := [][]byte{[]byte("xxxx"), []byte("*"), []byte("%%%"), []byte("\"\"\"\""), []byte("masked-"), []byte("%%%%%%%%%%%%%"), []byte("0")}
	n := r.N(120, 4000)
	for i := 0; i < n; i++ {
		kind := []string{"struct", "block"}[rd.Intn(2)]
		side := []string{"left", "right"}[rd.Intn(2)]
		if i%9 == 4 {
			// spellings the configuration loader must reject (a loader that accepts them while the
			// encryptor compares the raw string would mask the wrong side)
			bad := []string{"Left", "LEFT", "Right", "RIGHT", "lef", "both"}[rd.Intn(6)]
			r.Begin(fmt.Sprintf("badside-%s-%d", bad, i), true, "cfg:bad-side")
			kvb := env.NewKV(rd, 1, 1)
			v := rd.Bytes(12)
			out := r.Do(fmt.Sprintf("C11.write block %s 4 %s %s %s %s", core.Hex([]byte("xxxx")), bad, kvb.Tokens(), core.Hex(v), core.Hex(env.Rnd(rd))))
			if stored, ok := okBytes(out); ok {
				// accepted: then it must at least behave as the side it names
				none2 := &env.KV{NoPub: true, NoPrivs: true, NoSym: true, NoSyms: true}
				got, _ := okBytes(r.Do(fmt.Sprintf("C11.read block %s 4 %s %s %s", core.Hex([]byte("xxxx")), bad, none2.Tokens(), core.Hex(stored))))
				want := append(append([]byte{}, v[:4]...), []byte("xxxx")...)
				if bad[0] == 'R' || bad[0] == 'r' {
					want = append([]byte("xxxx"), v[8:]...)
				}
				r.Check(bytes.Equal(got, want), "mask-side-spelling", fmt.Sprintf("plaintext_side %q was accepted but the window shown is not the %s one", bad, bad))
			}
		}
		l := 1 + rd.Intn(40)
		if rd.Chance(10) {
			l = 1 + rd.Intn(400)
		}
		v, class := env.Plain(rd, l)
		if class == "fake-containers" || class == "container-tags" || rd.Chance(60) {
			v = rd.Bytes(l) // mostly windows without tag material ("clean"); tag-rich ones are judged separately
			class = "random"
		}
		k := rd.Intn(l + 2)
		// directed: a clear window that ends (left) or begins (right) with one or two bytes of tag material – the
		// run of '%' / '"' in front of the envelope is then not a multiple of the tag length, and a scan that
		// skips a whole tag after a failed parse jumps into the real tag
		if d := i / 2; i%2 == 1 && d < len(boundaryTails)*4 {
			tail := boundaryTails[d%len(boundaryTails)]
			kind = []string{"struct", "block"}[(d/len(boundaryTails))%2]
			side = []string{"left", "right"}[(d/len(boundaryTails)/2)%2]
			body := rd.Bytes(14 + rd.Intn(10))
			for j := range body {
				body[j] = 'a' + body[j]%26
			}
			k = 4 + len(tail)
			if side == "left" {
				v = append(append(append([]byte{}, body[:4]...), tail...), body[4:]...)
			} else {
				v = append(append(append([]byte{}, body[4:]...), tail...), body[:4]...)
			}
			l, class = len(v), "boundary-tag-material"
		}
		pat := core.Pick(rd, patterns)
		if rd.Chance(10) && k > 0 && k <= l {
			for j := 0; j < k; j++ { // pattern equal to the window bytes (made printable)
				v[j] = 'a' + v[j]%26
			}
			pat = append([]byte{}, v[:k]...)
		}
		owner := env.NewKV(rd, 1+rd.Intn(3), 1+rd.Intn(3))
		cfg := fmt.Sprintf("%s %s %d %s", kind, core.Hex(pat), k, side)
		r.Begin(fmt.Sprintf("mask-%s-%x-%d", cfg, v[:min(6, len(v))], l), true, "kind:"+kind, "side:"+side, "class:"+class)
		out := r.Do(fmt.Sprintf("C11.write %s %s %s %s", cfg, owner.Tokens(), core.Hex(v), core.Hex(env.Rnd(rd))))
		stored, ok := okBytes(out)
		if !r.Check(ok, "mask-write-failed", "masked write failed: "+out) {
			continue
		}
		// window/hidden split
		var window, hidden []byte
		if k >= l {
			window, hidden = nil, v
			r.Tag("window:whole-value-protected")
		} else if side == "left" {
			window, hidden = v[:k], v[k:]
		} else {
			window, hidden = v[l-k:], v[:l-k]
		}
		// a hidden part that itself LOOKS like a protected value is passed through unwrapped by design (C01:
		// "input that already is a protected value is passed through unchanged"); the masking theorems carry the
		// hypothesis that it does not – such cases are compared with the model but not judged
		lookalike := false
		for _, q := range []string{"C01.handler.matchkind struct ", "C01.handler.matchkind block ", "C01.handler.match "} {
			if r.Do(q+core.Hex(hidden)) == "true" {
				lookalike = true
			}
		}
		if lookalike {
			r.Tag("hidden:lookalike-passthrough")
			r.Do(fmt.Sprintf("C11.read %s %s %s", cfg, owner.Tokens(), core.Hex(stored)))
			continue
		}
		// stored form: the window in clear on its side, never the hidden part
		if class == "random" && len(hidden) >= 6 && !bytes.Contains(window, hidden) { // byte-scan oracles need a high-entropy marker
			r.Check(!bytes.Contains(stored, hidden), "mask-stored-clear", fmt.Sprintf("the hidden part of a masked value is stored in clear (cfg %s, value %s)", cfg, core.Hex(v)))
		}
		// owner (possibly after a rotation: value written under an older key is still readable)
		rot := *owner
		nk := env.NewKV(rd, 1, 1)
		rot.Privs = append([][]byte{nk.Privs[0]}, owner.Privs...)
		rot.Syms = append([][]byte{nk.Syms[0]}, owner.Syms...)
		rot.Pub, rot.Sym = nk.Pub, nk.Sym
		for ri, reader := range []*env.KV{owner, &rot} {
			got, ok := okBytes(r.Do(fmt.Sprintf("C11.read %s %s %s", cfg, reader.Tokens(), core.Hex(stored))))
			r.Check(ok && bytes.Equal(got, v), "mask-owner", fmt.Sprintf("owner (reader %d) did not get the complete original value back (k=%d, side=%s, len=%d)", ri, k, side, l))
		}
		// readers that cannot decrypt: another client, a client without any keys
		other := env.NewKV(rd, 1, 1)
		clean := !bytes.Contains(window, []byte("%%%")) && !bytes.Contains(window, []byte("\"\"\"\""))
		for ri, reader := range []*env.KV{other, none} {
			got, ok := okBytes(r.Do(fmt.Sprintf("C11.read %s %s %s", cfg, reader.Tokens(), core.Hex(stored))))
			if !r.Check(ok, "mask-read-failed", "masked read failed for a reader without keys") {
				continue
			}
			var want []byte
			if side == "left" {
				want = append(append([]byte{}, window...), pat...)
			} else {
				want = append(append([]byte{}, pat...), window...)
			}
			if clean {
				r.Check(bytes.Equal(got, want), "mask-other", fmt.Sprintf("reader %d without the key did not get exactly window+pattern (k=%d, side=%s, len=%d, got %d bytes)", ri, k, side, l, len(got)))
			}
			// never a hidden plaintext byte run, never ciphertext
			if class == "random" && len(hidden) >= 6 && !bytes.Contains(want, hidden) {
				r.Check(!bytes.Contains(got, hidden), "mask-leak-plain", "a reader without the key received the hidden plaintext")
			}
			prot := stored
			if k < l {
				if side == "left" {
					prot = stored[k:]
				} else {
					prot = stored[:len(stored)-k]
				}
			}
			for off := 12; off+8 <= len(prot); off += 8 {
				if bytes.Contains(got, prot[off:off+8]) && !bytes.Contains(want, prot[off:off+8]) {
					r.Fail("mask-leak-cipher", "a reader without the key received ciphertext bytes")
					break
				}
			}
		}
	}
}
