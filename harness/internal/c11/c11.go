// Package c11: masked columns show only the allowed window to clients that cannot decrypt (C11).
package c11

import (
	"bytes"
	"fmt"
	"strings"
	"time"

	"github.com/cossacklabs/acra/crypto"
	encryptor "github.com/cossacklabs/acra/encryptor/base"
	"github.com/cossacklabs/acra/encryptor/base/config"
	"github.com/cossacklabs/acra/masking"

	"verifharness/internal/core"
	env "verifharness/internal/envops"
)

// setting builds the column setting through Acra's own YAML configuration path (validation included).
func setting(kind, patternHex, k, side string) (config.ColumnEncryptionSetting, error) {
	envl := "acrastruct"
	if kind == "block" {
		envl = "acrablock"
	}
	// YAML double-quoted scalar with \xNN escapes carries arbitrary pattern bytes
	var sb strings.Builder
	for _, b := range core.UnHex(patternHex) {
		fmt.Fprintf(&sb, "\\x%02x", b)
	}
	y := fmt.Sprintf("schemas:\n  - table: t\n    columns: [c]\n    encrypted:\n      - column: c\n        masking: \"%s\"\n        plaintext_length: %s\n        plaintext_side: %s\n        crypto_envelope: %s\n", sb.String(), k, side, envl)
	st, err := config.MapTableSchemaStoreFromConfig([]byte(y), config.UsePostgreSQL)
	if err != nil {
		return nil, err
	}
	return st.GetTableSchema("t").GetColumnEncryptionSettings("c"), nil
}

func init() {
	core.RegisterProp("C11", run)
	// write kind pattern k side [kv×4] data rnd
	core.Register("C11.write", func(a []string) (res string) {
		s, err := setting(a[0], a[1], a[2], a[3])
		if err != nil {
			return "badcfg"
		}
		kv := env.ParseKV(a[4:8])
		reg := crypto.NewRegistryHandler(kv)
		me, err := masking.NewMaskingDataEncryptor(&env.TKS{Clients: map[string]*env.KV{"client": kv}}, encryptor.NewChainDataEncryptor(reg))
		if err != nil {
			panic("harness: " + err.Error())
		}
		env.WithRand(core.UnHex(a[9]), func() {
			out, err := me.EncryptWithClientID([]byte("client"), core.UnHex(a[8]), s)
			if err != nil {
				res = core.Err
			} else {
				res = core.OkHex(out)
			}
		})
		return
	})
	// read kind pattern k side [kv×4] stored
	core.Register("C11.read", func(a []string) string {
		s, err := setting(a[0], a[1], a[2], a[3])
		if err != nil {
			return "badcfg"
		}
		kv := env.ParseKV(a[4:8])
		reg := crypto.NewRegistryHandler(kv)
		proc, err := masking.NewProcessor(reg)
		if err != nil {
			panic("harness: " + err.Error())
		}
		det := crypto.NewEnvelopeDetector()
		w := crypto.NewOldContainerDetectorWrapper(det)
		det.AddCallback(crypto.NewDecryptHandler(kv, proc))
		ctx := encryptor.NewContextWithEncryptionSetting(env.Ctx([]byte("client")), s)
		_, out, err := w.OnColumn(ctx, core.UnHex(a[8]))
		if err != nil {
			return "fatal"
		}
		return core.OkHex(out)
	})
	// session [kv×4] cols – cols = kind:pattern:k:side:stored,… : ONE masking.Processor, ONE DecryptHandler, ONE
	// EnvelopeDetector + OldContainerDetectorWrapper (the objects proxyFactory.New creates once per client session)
	// over several columns, each read with the setting of its own column in the context
	core.Register("C11.session", func(a []string) string {
		kv := env.ParseKV(a[0:4])
		reg := crypto.NewRegistryHandler(kv)
		proc, err := masking.NewProcessor(reg)
		if err != nil {
			panic("harness: " + err.Error())
		}
		det := crypto.NewEnvelopeDetector()
		w := crypto.NewOldContainerDetectorWrapper(det)
		det.AddCallback(crypto.NewDecryptHandler(kv, proc))
		var outs []string
		for _, col := range strings.Split(a[4], ",") {
			f := strings.Split(col, ":")
			if len(f) != 5 {
				panic("harness: bad session column " + col)
			}
			s, err := setting(f[0], f[1], f[2], f[3])
			if err != nil {
				return "badcfg"
			}
			ctx := encryptor.NewContextWithEncryptionSetting(env.Ctx([]byte("client")), s)
			_, out, err := w.OnColumn(ctx, core.UnHex(f[4]))
			if err != nil {
				outs = append(outs, "fatal")
				continue
			}
			outs = append(outs, core.Hex(out))
		}
		return "ok " + strings.Join(outs, ",")
	})
}

// boundaryTails are the ends of clear windows that meet the envelope (see the directed cases of the masking stream).
var boundaryTails = [][]byte{[]byte("%"), []byte("%%"), []byte("a%"), []byte("%a%"), []byte("\""), []byte("\"\""), []byte("\"\"\""), []byte("%%%%"), []byte("%\"")}

// classFalseHeader: input class of the known finding – some position inside the clear window of the stored value
// (read together with the bytes that follow it) decodes as the start of a serialized container with a valid declared
// length: `%%%`, 8 length bytes L (little endian) with 12 ≤ L ≤ remaining bytes, a registered envelope id, and more than
// 12 bytes remaining. Decided here on the stored bytes, independently of the code under test and of the model (the
// model's `maskWindowOk` is its negation).
const classFalseHeader = "window-false-header-shows-container-bytes"

func falseHeaderInWindow(stored []byte, side string, k int) bool {
	lo, hi := 0, k
	if side != "left" {
		lo, hi = len(stored)-k, len(stored)
	}
	if lo < 0 || hi > len(stored) {
		return false
	}
	for p := lo; p < hi; p++ {
		rest := stored[p:]
		if len(rest) <= 12 || !bytes.HasPrefix(rest, []byte("%%%")) || (rest[11] != 0xF0 && rest[11] != 0xF1) {
			continue
		}
		var l uint64
		for j := 0; j < 8; j++ {
			l |= uint64(rest[3+j]) << (8 * uint(j))
		}
		if l >= 12 && l <= uint64(len(rest)) {
			return true
		}
	}
	return false
}

// knownFalseHeader: regression witness of the known finding (run first on every run): masked column, left window 15,
// value `%%%%` 12 00…00 f0 `%%` | `%rcdaqum` – the window holds a false header declaring 18 bytes from its 2nd byte on.
func knownFalseHeader(r *core.Run) {
	g := core.NewRand(0xC11)
	owner := env.NewKV(g, 1, 1)
	none := &env.KV{NoPub: true, NoPrivs: true, NoSym: true, NoSyms: true}
	v := append([]byte{'%', '%', '%', '%', 0x12, 0, 0, 0, 0, 0, 0, 0, 0xF0, '%', '%'}, []byte("%rcdaqum")...)
	for _, kind := range []string{"block", "struct"} {
		cfg := fmt.Sprintf("%s %s 15 left", kind, core.Hex([]byte("masked-")))
		r.Begin("corpus-false-header-"+kind, true, "stream:corpus")
		stored, ok := okBytes(r.Do(fmt.Sprintf("C11.write %s %s %s %s", cfg, owner.Tokens(), core.Hex(v), core.Hex(g.Bytes(96)))))
		if !r.Check(ok && len(stored) > 40, "corpus-broken", "cannot write the regression witness of the false-header finding") {
			continue
		}
		r.Check(falseHeaderInWindow(stored, "left", 15) && r.ModelOnly(fmt.Sprintf("C11.windowok left %s %s", core.Hex(stored[:15]), core.Hex(stored[15:]))) == "false",
			"corpus-broken", "the regression witness is not in the input class of the false-header finding")
		got, ok := okBytes(r.Do(fmt.Sprintf("C11.read %s %s %s", cfg, none.Tokens(), core.Hex(stored))))
		if !r.Check(ok, "mask-read-failed", "masked read failed for a reader without keys") {
			continue
		}
		if bytes.Contains(got, stored[len(stored)-16:]) {
			r.Fail(classFalseHeader, fmt.Sprintf("a reader without keys receives %d raw bytes of the container (window `%%%%%%%%\\x12\\0…\\0\\xf0%%%%`, hidden `%%rcdaqum`, %s): got %s", len(got)-8, kind, core.Hex(got[:min(len(got), 24)])))
		}
	}
}

func okBytes(out string) ([]byte, bool) {
	if len(out) >= 4 && out[:3] == "ok " {
		return core.UnHex(out[3:]), true
	}
	return nil, false
}

// defect witnesses (fixed by the ExtractSerializedContainer length check): a false container header inside
// the clear window of a masked column, read by a client without keys
var corpus = []struct{ length uint64 }{{0}, {5}, {12}, {13}, {1 << 40}, {1 << 63}, {1<<64 - 1}}

func run(r *core.Run) {
	r.Rule = "masked columns: patterns (plain, containing tags, equal to window bytes) × window length 0…|v|+1 × side × envelope kind × value classes (random, tag runs, fake headers) × readers (owner, owner after rotation, other client, no keys); non-trivial = a write that produced a protected part; distinct by (config, value, reader)"
	rd := r.Rand
	none := &env.KV{NoPub: true, NoPrivs: true, NoSym: true, NoSyms: true}
	// regression corpus first: false header in the window, reader without keys – must terminate, not panic, not drop bytes
	for _, w := range corpus {
		for _, id := range []byte{0xf0, 0xf1} {
			col := append([]byte("ab%%%"), 0, 0, 0, 0, 0, 0, 0, 0)
			for i := 0; i < 8; i++ {
				col[5+i] = byte(w.length >> (8 * uint(i)))
			}
			col = append(append(col, id), []byte("xytail-of-the-column")...)
			r.Begin(fmt.Sprintf("corpus-%d-%x", w.length, id), true, "stream:corpus")
			line := fmt.Sprintf("C11.read block %s 2 left %s %s", core.Hex([]byte("xxxx")), none.Tokens(), core.Hex(col))
			got := r.ImplIsolated(line, 90*time.Second) // generous: the child starts slowly on a loaded machine; a real endless loop still ends here
			r.Diff(line, got)
			r.Check(got != "timeout" && got != "oom", "mask-scan-length", fmt.Sprintf("masked-column scan does not terminate on a false container header with length %d", w.length))
			r.Check(got != core.Panic, "mask-scan-length", fmt.Sprintf("masked-column scan panics on a false container header with length %d", w.length))
		}
	}
	knownFalseHeader(r)
	// patterns are configuration strings (YAML text): printable ASCII only
	patterns := [][]byte{[]byte("xxxx"), []byte("*"), []byte("%%%"), []byte("\"\"\"\""), []byte("masked-"), []byte("%%%%%%%%%%%%%"), []byte("0")}
	n := r.N(120, 4000)
	for i := 0; i < n; i++ {
		kind := []string{"struct", "block"}[rd.Intn(2)]
		side := []string{"left", "right"}[rd.Intn(2)]
		if i%9 == 4 {
			// spellings the configuration loader must reject (a loader that accepts them while the
			// encryptor compares the raw string would mask the wrong side)
			bad := []string{"Left", "LEFT", "Right", "RIGHT", "lef", "both"}[rd.Intn(6)]
			r.Begin(fmt.Sprintf("badside-%s-%d", bad, i), true, "cfg:bad-side")
			kvb := env.NewKV(rd, 1, 1)
			v := rd.Bytes(12)
			out := r.Do(fmt.Sprintf("C11.write block %s 4 %s %s %s %s", core.Hex([]byte("xxxx")), bad, kvb.Tokens(), core.Hex(v), core.Hex(env.Rnd(rd))))
			if stored, ok := okBytes(out); ok {
				// accepted: then it must at least behave as the side it names
				none2 := &env.KV{NoPub: true, NoPrivs: true, NoSym: true, NoSyms: true}
				got, _ := okBytes(r.Do(fmt.Sprintf("C11.read block %s 4 %s %s %s", core.Hex([]byte("xxxx")), bad, none2.Tokens(), core.Hex(stored))))
				want := append(append([]byte{}, v[:4]...), []byte("xxxx")...)
				if bad[0] == 'R' || bad[0] == 'r' {
					want = append([]byte("xxxx"), v[8:]...)
				}
				r.Check(bytes.Equal(got, want), "mask-side-spelling", fmt.Sprintf("plaintext_side %q was accepted but the window shown is not the %s one", bad, bad))
			}
		}
		l := 1 + rd.Intn(40)
		if rd.Chance(10) {
			l = 1 + rd.Intn(400)
		}
		v, class := env.Plain(rd, l)
		if class == "fake-containers" || class == "container-tags" || rd.Chance(60) {
			v = rd.Bytes(l) // mostly windows without tag material ("clean"); tag-rich ones are judged separately
			class = "random"
		}
		k := rd.Intn(l + 2)
		// directed: a clear window that ends (left) or begins (right) with one or two bytes of tag material – the
		// run of '%' / '"' in front of the envelope is then not a multiple of the tag length, and a scan that
		// skips a whole tag after a failed parse jumps into the real tag
		if d := i / 2; i%2 == 1 && d < len(boundaryTails)*4 {
			tail := boundaryTails[d%len(boundaryTails)]
			kind = []string{"struct", "block"}[(d/len(boundaryTails))%2]
			side = []string{"left", "right"}[(d/len(boundaryTails)/2)%2]
			body := rd.Bytes(14 + rd.Intn(10))
			for j := range body {
				body[j] = 'a' + body[j]%26
			}
			k = 4 + len(tail)
			if side == "left" {
				v = append(append(append([]byte{}, body[:4]...), tail...), body[4:]...)
			} else {
				v = append(append(append([]byte{}, body[4:]...), tail...), body[:4]...)
			}
			l, class = len(v), "boundary-tag-material"
		}
		// directed: a HIDDEN part that merely starts with the 12 header bytes of a serialized container
		// (`%%%` + 8 length bytes + envelope id) followed by bytes that are no envelope. It is not a protected value
		// (RegistryHandler.MatchDataSignature deserializes the payload and asks the envelope handler), so it must be
		// encrypted like any other hidden part. Declared lengths: header only, exactly the cell, one more than the
		// cell, far beyond the cell, below the header size, 2^63, random.
		var marker []byte // high-entropy bytes of the hidden part for the byte-scan oracles
		if i%10 == 2 {
			junk := rd.Bytes(8 + rd.Intn(24))
			win := rd.Bytes(rd.Intn(7))
			for j := range win {
				win[j] = 'a' + win[j]%26
			}
			hl := uint64(12 + len(junk))
			decl := []uint64{12, hl, 13, hl + 1, hl + 100000, 5, 1 << 63, rd.U64()}[(i/10)%8]
			hdr := []byte("%%%")
			for j := 0; j < 8; j++ {
				hdr = append(hdr, byte(decl>>(8*uint(j))))
			}
			hdr = append(hdr, byte(0xF0+rd.Intn(2)))
			hid := append(hdr, junk...)
			k = len(win)
			if side == "left" {
				v = append(append([]byte{}, win...), hid...)
			} else {
				v = append(append([]byte{}, hid...), win...)
			}
			l, class, marker = len(v), "lookalike-header", junk
			r.Tag(fmt.Sprintf("lookalike-header:declared-%d", (i/10)%8))
		}
		// directed: text with multi-byte UTF-8 characters whose window boundary falls INSIDE a character. The
		// window is counted in bytes (plaintext_length), so the stored clear part is exactly k bytes even when
		// that tears a character; an encryptor that "aligns" the window to a character boundary shows up to
		// three bytes of the protected part to every reader.
		if i%10 == 8 {
			texts := []string{"José García", "Zoë Müller-Lüdenscheidt", "日本語のテキスト", "Ünïcödé ñame €100", "naïve café 😀 emoji"}
			t := []byte(texts[(i/10)%len(texts)])
			var cand []int
			for j := 1; j < len(t); j++ {
				if t[j]&0xC0 == 0x80 {
					if side == "left" {
						cand = append(cand, j)
					} else {
						cand = append(cand, len(t)-j)
					}
				}
			}
			v, k = t, cand[rd.Intn(len(cand))]
			l, class, marker = len(v), "utf8-window-splits-character", nil
		}
		// directed: clear windows with `%` material anywhere (runs of 1–4 `%`, sometimes a whole false header):
		// judged whenever the model's window condition holds
		if i%10 == 6 {
			body := rd.Bytes(16 + rd.Intn(24))
			for j := range body {
				body[j] = 'a' + body[j]%26
			}
			for n := 1 + rd.Intn(3); n > 0; n-- {
				at := rd.Intn(len(body) - 4)
				for q := 1 + rd.Intn(4); q > 0; q-- {
					body[at+q-1] = '%'
				}
			}
			if rd.Chance(30) && len(body) >= 20 {
				at := rd.Intn(len(body) - 13)
				copy(body[at:], "%%%")
				body[at+3] = byte(12 + rd.Intn(8))
				for q := 4; q < 11; q++ {
					body[at+q] = 0
				}
				body[at+11] = byte(0xF0 + rd.Intn(2))
			}
			v, l, class = body, len(body), "percent-window"
			k = 1 + rd.Intn(l-1)
		}
		pat := core.Pick(rd, patterns)
		if class != "lookalike-header" && rd.Chance(10) && k > 0 && k <= l {
			for j := 0; j < k; j++ { // pattern equal to the window bytes (made printable)
				v[j] = 'a' + v[j]%26
			}
			pat = append([]byte{}, v[:k]...)
		}
		owner := env.NewKV(rd, 1+rd.Intn(3), 1+rd.Intn(3))
		cfg := fmt.Sprintf("%s %s %d %s", kind, core.Hex(pat), k, side)
		r.Begin(fmt.Sprintf("mask-%s-%x-%d", cfg, v[:min(6, len(v))], l), true, "kind:"+kind, "side:"+side, "class:"+class)
		out := r.Do(fmt.Sprintf("C11.write %s %s %s %s", cfg, owner.Tokens(), core.Hex(v), core.Hex(env.Rnd(rd))))
		stored, ok := okBytes(out)
		if !r.Check(ok, "mask-write-failed", "masked write failed: "+out) {
			continue
		}
		// window/hidden split
		var window, hidden []byte
		if k >= l {
			window, hidden = nil, v
			r.Tag("window:whole-value-protected")
		} else if side == "left" {
			window, hidden = v[:k], v[k:]
		} else {
			window, hidden = v[l-k:], v[:l-k]
		}
		// a hidden part that itself LOOKS like a protected value is passed through unwrapped by design (C01:
		// "input that already is a protected value is passed through unchanged"); the masking theorems carry the
		// hypothesis that it does not – such cases are compared with the model but not judged
		// The judge of "looks like a protected value" is the MODEL's predicate (the hypothesis `¬ matchKind`,
		// `¬ registryMatch` of the theorems: full deserialization + the envelope handler's own test) – never the
		// implementation's answer, which is what is being checked; the implementation's answer is compared with it.
		lookalike := false
		for _, q := range []string{"C01.handler.matchkind struct ", "C01.handler.matchkind block ", "C01.handler.match "} {
			r.Do(q + core.Hex(hidden))
			if r.ModelOnly(q+core.Hex(hidden)) == "true" {
				lookalike = true
			}
		}
		if lookalike {
			r.Tag("hidden:lookalike-passthrough")
			r.Do(fmt.Sprintf("C11.read %s %s %s", cfg, owner.Tokens(), core.Hex(stored)))
			continue
		}
		// stored form: the window in clear on its side, never the hidden part
		if class == "random" {
			marker = hidden
		}
		if len(marker) >= 6 && !bytes.Contains(window, marker) && !bytes.Contains(pat, marker) { // byte-scan oracles need a high-entropy marker
			r.Check(!bytes.Contains(stored, marker), "mask-stored-clear", fmt.Sprintf("the hidden part of a masked value is stored in clear (cfg %s, value %s, class %s)", cfg, core.Hex(v), class))
		}
		// which clear windows are judged: exactly those satisfying the hypothesis of the read theorems
		// (`maskWindowOk`: the scan passes over every position of the window when read together with what
		// follows it in the stored value) – evaluated by the model on the stored bytes – and, for the legacy
		// scans of bare envelopes, no struct/block tag material
		protPart := stored
		if k < l {
			if side == "left" {
				protPart = stored[k:]
			} else {
				protPart = stored[:len(stored)-k]
			}
		}
		winok := r.ModelOnly(fmt.Sprintf("C11.windowok %s %s %s", side, core.Hex(window), core.Hex(protPart))) == "true"
		clean := winok && !bytes.Contains(window, []byte("\"\"\"\""))
		if clean && bytes.Contains(window, []byte("%")) {
			r.Tag("window:judged-with-percent")
		}
		if !clean {
			r.Tag("window:not-judged")
		}
		// owner (possibly after a rotation: value written under an older key is still readable)
		rot := *owner
		nk := env.NewKV(rd, 1, 1)
		rot.Privs = append([][]byte{nk.Privs[0]}, owner.Privs...)
		rot.Syms = append([][]byte{nk.Syms[0]}, owner.Syms...)
		rot.Pub, rot.Sym = nk.Pub, nk.Sym
		for ri, reader := range []*env.KV{owner, &rot} {
			got, ok := okBytes(r.Do(fmt.Sprintf("C11.read %s %s %s", cfg, reader.Tokens(), core.Hex(stored))))
			if !winok && class == "percent-window" {
				continue // a false container header inside the window: outside the theorems (in-band signalling), compared only
			}
			r.Check(ok && bytes.Equal(got, v), "mask-owner", fmt.Sprintf("owner (reader %d) did not get the complete original value back (k=%d, side=%s, len=%d)", ri, k, side, l))
		}
		// readers that cannot decrypt: another client, a client without any keys
		other := env.NewKV(rd, 1, 1)
		for ri, reader := range []*env.KV{other, none} {
			got, ok := okBytes(r.Do(fmt.Sprintf("C11.read %s %s %s", cfg, reader.Tokens(), core.Hex(stored))))
			if !r.Check(ok, "mask-read-failed", "masked read failed for a reader without keys") {
				continue
			}
			var want []byte
			if side == "left" {
				want = append(append([]byte{}, window...), pat...)
			} else {
				want = append(append([]byte{}, pat...), window...)
			}
			if clean {
				r.Check(bytes.Equal(got, want), "mask-other", fmt.Sprintf("reader %d without the key did not get exactly window+pattern (k=%d, side=%s, len=%d, got %d bytes)", ri, k, side, l, len(got)))
			}
			// never a hidden plaintext byte run, never ciphertext
			if len(marker) >= 6 && !bytes.Contains(want, marker) {
				r.Check(!bytes.Contains(got, marker), "mask-leak-plain", fmt.Sprintf("a reader without the key received the hidden plaintext (class %s)", class))
			}
			prot := stored
			if k < l {
				if side == "left" {
					prot = stored[k:]
				} else {
					prot = stored[:len(stored)-k]
				}
			}
			for off := 12; off+8 <= len(prot); off += 8 {
				if bytes.Contains(got, prot[off:off+8]) && !bytes.Contains(want, prot[off:off+8]) {
					// judged on ALL windows. Known finding: a position INSIDE the clear window decodes as a container
					// start (false `%%%`+length+id header with a valid declared length): the scan replaces it by the
					// pattern, advances by ITS declared length and so steps over the real container's header – the rest
					// of the container is shown raw (Props.C11.mask_other_window_counterexample). Any other way of
					// receiving ciphertext is a violation.
					if falseHeaderInWindow(stored, side, len(window)) {
						r.Tag("window:false-header-shows-container-bytes")
						r.Fail(classFalseHeader, fmt.Sprintf("a reader without the key received container bytes: the clear window holds a false container header (cfg %s, value %s)", cfg, core.Hex(v)))
						break
					}
					r.Fail("mask-leak-cipher", "a reader without the key received ciphertext bytes")
					break
				}
			}
		}
	}
	sessions(r, patterns)
}

// sessions: several masked columns with DIFFERENT patterns / sides / window lengths / envelope kinds read through
// ONE set of session objects (masking.Processor, DecryptHandler, detector, wrapper), by a client without the keys,
// by a client with other keys and by the owner. What column i shows must depend on column i alone.
func sessions(r *core.Run, patterns [][]byte) {
	rd := r.Rand
	none := &env.KV{NoPub: true, NoPrivs: true, NoSym: true, NoSyms: true}
	for s := 0; s < r.N(24, 500); s++ {
		owner := env.NewKV(rd, 1+rd.Intn(2), 1+rd.Intn(2))
		n := 2 + rd.Intn(4)
		type col struct {
			cfg, kind, side string
			pat, v, window  []byte
			stored          []byte
		}
		var cols []col
		perm := rd.Intn(len(patterns))
		for j := 0; j < n; j++ {
			c := col{kind: []string{"struct", "block"}[rd.Intn(2)], side: []string{"left", "right"}[rd.Intn(2)]}
			c.pat = patterns[(perm+j)%len(patterns)] // neighbouring columns always differ in their pattern
			if j == n-1 && rd.Chance(30) {
				c.pat = cols[0].pat // … and sometimes a later column repeats the first one's
			}
			l := 8 + rd.Intn(30)
			c.v = rd.Bytes(l)
			for x := range c.v { // clear windows without tag material
				if c.v[x] == '%' || c.v[x] == '"' {
					c.v[x] = 'w'
				}
			}
			k := rd.Intn(l + 2)
			if rd.Chance(70) {
				k = rd.Intn(l - 6)
			}
			c.cfg = fmt.Sprintf("%s %s %d %s", c.kind, core.Hex(c.pat), k, c.side)
			if k >= l {
				c.window = nil
			} else if c.side == "left" {
				c.window = c.v[:k]
			} else {
				c.window = c.v[l-k:]
			}
			cols = append(cols, c)
		}
		r.Begin(fmt.Sprintf("session-%d-%x", n, cols[0].v[:6]), true, "stream:session", fmt.Sprintf("session:columns-%d", n))
		okAll := true
		for j := range cols {
			st, ok := okBytes(r.Do(fmt.Sprintf("C11.write %s %s %s %s", cols[j].cfg, owner.Tokens(), core.Hex(cols[j].v), core.Hex(env.Rnd(rd)))))
			if !r.Check(ok, "mask-write-failed", "masked write failed in a session") {
				okAll = false
				break
			}
			cols[j].stored = st
		}
		if !okAll {
			continue
		}
		other := env.NewKV(rd, 1, 1)
		for ri, reader := range []*env.KV{none, other, owner} {
			var toks []string
			for _, c := range cols {
				toks = append(toks, strings.Join(append(strings.Fields(c.cfg), core.Hex(c.stored)), ":"))
			}
			out := r.Do(fmt.Sprintf("C11.session %s %s", reader.Tokens(), strings.Join(toks, ",")))
			if !r.Check(strings.HasPrefix(out, "ok "), "mask-read-failed", "reading the masked columns of a session failed: "+out) {
				continue
			}
			got := strings.Split(out[3:], ",")
			if !r.Check(len(got) == len(cols), "mask-read-failed", "a session returned a different number of columns") {
				continue
			}
			for j, c := range cols {
				var want []byte
				switch {
				case reader == owner:
					want = c.v
				case c.side == "left":
					want = append(append([]byte{}, c.window...), c.pat...)
				default:
					want = append(append([]byte{}, c.pat...), c.window...)
				}
				if reader == owner {
					r.Check(got[j] == core.Hex(want), "mask-session-owner", fmt.Sprintf("column %d of %d of a session: the owner did not get the original value back", j+1, len(cols)))
				} else {
					r.Check(got[j] == core.Hex(want), "mask-session-other", fmt.Sprintf("column %d of %d of a session (pattern %q, side %s): reader %d without the key did not get exactly this column's window joined with THIS column's pattern: got %q", j+1, len(cols), c.pat, c.side, ri, core.UnHex(got[j])))
				}
				// the same column alone through fresh objects: the session must not make a difference
				alone := r.Impl(fmt.Sprintf("C11.read %s %s %s", c.cfg, reader.Tokens(), core.Hex(c.stored)))
				r.Check(alone == "ok "+got[j], "mask-session-depends-on-other-columns", fmt.Sprintf("column %d of %d of a session is shown differently than the same column read alone", j+1, len(cols)))
			}
		}
	}
}
