// Package c11: implementation-side ops, generators and oracles for property C11.
package c11
