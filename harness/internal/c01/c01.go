// Package c01: protect-then-reveal returns the original bytes for the owning client (C01).
package c01

import (
	"bytes"
	"fmt"

	"verifharness/internal/core"
	env "verifharness/internal/envops"
)

func init() { core.RegisterProp("C01", run) }

func hexOf(out string) ([]byte, bool) {
	if len(out) >= 4 && out[:3] == "ok " {
		f := out[3:]
		for i := 0; i < len(f); i++ {
			if f[i] == ' ' {
				f = f[:i]
				break
			}
		}
		return core.UnHex(f), true
	}
	return nil, false
}

func run(r *core.Run) {
	r.Rule = "plaintexts of boundary and random lengths from six content classes (random, tag runs, fake headers, embedded envelopes) × both envelopes × key histories of length 1–4 × entry points (library, registry handler, column detector with/without the bare-envelope wrapper) × junk prefixes/suffixes; non-trivial = a protect call that produced an envelope; distinct by (entry point, kind, plaintext)"
	rd := r.Rand
	lens := append([]int{}, env.Lens...)
	for i := 0; i < r.N(40, 1500); i++ {
		lens = append(lens, 1+rd.Intn(600))
	}
	if r.Thorough() {
		for l := 1; l <= 400; l++ {
			lens = append(lens, l)
		}
		lens = append(lens, 4096, 65535, 65536, 70000)
	}
	colA, colB := env.CollidingKeys(rd, nil)
	for idx, l := range lens {
		m, class := env.Plain(rd, l)
		kv := env.NewKV(rd, 1+rd.Intn(4), 1+rd.Intn(4))
		if idx%7 == 3 { // an older key with a colliding 2-byte id sits in front of the right one
			kv.Syms = [][]byte{colA, colB}
			kv.Sym = colA
			if rd.Bool() {
				kv.Syms = [][]byte{colB, colA}
			}
		}
		ctx := rd.Bytes(rd.Intn(3) * rd.Intn(9))
		// the writer may have used any key of the history (value written before a rotation)
		wi := rd.Intn(len(kv.Privs))
		wpub := env.PubOf(kv.Privs[wi])
		wsym := kv.Syms[rd.Intn(len(kv.Syms))]

		// --- library level: AcraStruct
		r.Begin(fmt.Sprintf("lib-struct-%d-%x", l, m[:min(8, len(m))]), true, "entry:library", "kind:struct", "class:"+class)
		s, ok := hexOf(r.Do(fmt.Sprintf("C01.struct.create %s %s %s %s", core.Hex(wpub), core.Hex(ctx), core.Hex(m), core.Hex(env.Rnd(rd)))))
		if r.Check(ok, "struct-create-failed", "CreateAcrastruct failed on a non-empty plaintext") {
			r.Do("C01.struct.validate " + core.Hex(s))
			suffix := env.Junk(rd, 20)
			ex := r.Do("C01.struct.extract " + core.Hex(append(append([]byte{}, s...), suffix...)))
			r.Check(ex == fmt.Sprintf("ok %d %s", len(s), core.Hex(s)), "struct-extract", "ExtractAcraStruct(struct++suffix) does not return the struct")
			back, ok := hexOf(r.Do(fmt.Sprintf("C01.struct.decrypt %s %s %s", env.List(kv.Privs), core.Hex(ctx), core.Hex(s))))
			r.Check(ok && bytes.Equal(back, m), "struct-roundtrip", fmt.Sprintf("AcraStruct round trip lost the plaintext (len %d, class %s, key #%d of %d)", l, class, wi, len(kv.Privs)))
		}
		// --- library level: AcraBlock
		r.Begin(fmt.Sprintf("lib-block-%d-%x", l, m[:min(8, len(m))]), true, "entry:library", "kind:block", "class:"+class)
		b, ok := hexOf(r.Do(fmt.Sprintf("C01.block.create %s %s %s %s", core.Hex(wsym), core.Hex(ctx), core.Hex(m), core.Hex(env.Rnd(rd)))))
		if r.Check(ok, "block-create-failed", "CreateAcraBlock failed on a non-empty plaintext") {
			suffix := env.Junk(rd, 20)
			ex := r.Do("C01.block.extract " + core.Hex(append(append([]byte{}, b...), suffix...)))
			r.Check(ex == fmt.Sprintf("ok %d %s", len(b), core.Hex(b)), "block-extract", "ExtractAcraBlockFromData(block++suffix) does not return the block")
			back, ok := hexOf(r.Do(fmt.Sprintf("C01.block.decrypt %s %s %s", env.List(kv.Syms), core.Hex(ctx), core.Hex(b))))
			r.Check(ok && bytes.Equal(back, m), "block-roundtrip", fmt.Sprintf("AcraBlock round trip lost the plaintext (len %d, class %s, %d keys)", l, class, len(kv.Syms)))
		}
		// --- registry handler + detectors, both kinds
		for _, kind := range []string{"struct", "block"} {
			r.Begin(fmt.Sprintf("handler-%s-%d-%x", kind, l, m[:min(8, len(m))]), true, "entry:handler", "kind:"+kind, "class:"+class)
			// the value may have been written under an older key: make that key current for the writer only
			wkv := *kv
			wkv.Pub, wkv.Sym = wpub, wsym
			p, ok := env.Protect(r, kind, &wkv, m)
			if !r.Check(ok, "protect-failed", "protect failed on a non-empty plaintext") {
				continue
			}
			if bytes.Equal(p, m) {
				r.Tag("protect:passthrough") // the plaintext itself looked like a protected value
				continue
			}
			back, ok := hexOf(r.Do(fmt.Sprintf("C01.handler.reveal %s %s", kv.Tokens(), core.Hex(p))))
			r.Check(ok && bytes.Equal(back, m), "reveal-protect", fmt.Sprintf("reveal(protect(m)) != m (kind %s, len %d, class %s)", kind, l, class))
			// protected input is passed through unchanged, never wrapped twice
			again, ok := env.Protect(r, kind, &wkv, p)
			r.Check(ok && bytes.Equal(again, p), "protect-idempotent", "protect(protect(m)) != protect(m)")
			other := "block"
			if kind == "block" {
				other = "struct"
			}
			again2, ok := env.Protect(r, other, &wkv, p)
			r.Check(ok && bytes.Equal(again2, p), "protect-idempotent-cross", "a protected value was wrapped a second time by the other envelope kind")
			r.Do("C01.handler.match " + core.Hex(p))
			r.Do("C01.container.deser " + core.Hex(p))
			// transparent column processing: embedded among junk
			pre, suf := env.Junk(rd, 40), env.Junk(rd, 40)
			col := append(append(append([]byte{}, pre...), p...), suf...)
			want := append(append(append([]byte{}, pre...), m...), suf...)
			for _, op := range []string{"C01.detector.oncolumn", "C01.detector.compat"} {
				r.Begin(fmt.Sprintf("%s-%s-%d-%x-%d-%d", op, kind, l, m[:min(8, len(m))], len(pre), len(suf)), true, "entry:"+op, "kind:"+kind)
				got, ok := hexOf(r.Do(fmt.Sprintf("%s %s %s", op, kv.Tokens(), core.Hex(col))))
				r.Check(ok && bytes.Equal(got, want), "column-embedded", fmt.Sprintf("%s: pre(%d)++protect(m)++suf(%d) did not come back as pre++m++suf (kind %s, len %d, class %s)", op, len(pre), len(suf), kind, l, class))
			}
			// bare (old-style) envelope inside a column, only the compat wrapper reveals it
			if rd.Chance(50) {
				inner, _, _ := deser(r, p)
				if inner != nil {
					pre, suf := env.Junk(rd, 20), env.Junk(rd, 20)
					if kind == "struct" {
						suf = nil // a bare AcraStruct must reach the end of the buffer to be recognised by length
					}
					col := append(append(append([]byte{}, pre...), inner...), suf...)
					want := append(append(append([]byte{}, pre...), m...), suf...)
					r.Begin(fmt.Sprintf("compat-bare-%s-%d-%x", kind, l, m[:min(8, len(m))]), true, "entry:compat-bare", "kind:"+kind)
					got, ok := hexOf(r.Do(fmt.Sprintf("C01.detector.compat %s %s", kv.Tokens(), core.Hex(col))))
					if !containsTag(pre) && !containsTag(suf) {
						r.Check(ok && bytes.Equal(got, want), "column-bare", fmt.Sprintf("bare %s envelope in a column was not revealed by the compatibility wrapper (len %d)", kind, l))
					}
				}
			}
		}
	}
	// empty plaintext cannot be protected: error, never a value
	r.Begin("empty-plaintext", true, "class:empty")
	kv := env.NewKV(rd, 1, 1)
	for _, kind := range []string{"struct", "block"} {
		out := r.Do(fmt.Sprintf("C01.handler.protect %s %s - %s", kind, kv.Tokens(), core.Hex(env.Rnd(rd))))
		r.Check(out == core.Err, "protect-empty", "protect of the empty plaintext did not fail: "+out)
	}
}

func deser(r *core.Run, p []byte) ([]byte, int, bool) {
	out := r.Do("C01.container.deser " + core.Hex(p))
	var h string
	var id int
	if _, err := fmt.Sscanf(out, "ok %s %d", &h, &id); err != nil {
		return nil, 0, false
	}
	return core.UnHex(h), id, true
}

func containsTag(b []byte) bool {
	return bytes.Contains(b, []byte("%%%")) || bytes.Contains(b, []byte("\"\"\"\""))
}
