// Package c01: implementation-side ops, generators and oracles for property C01.
package c01
