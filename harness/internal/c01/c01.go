// Package c01: protect-then-reveal returns the original bytes for the owning client (C01).
package c01

import (
	"bytes"
	"fmt"
	"strings"

	"github.com/cossacklabs/themis/gothemis/keys"

	"verifharness/internal/core"
	env "verifharness/internal/envops"

	_ "verifharness/internal/c09" // registers C09.hmac
	_ "verifharness/internal/c15" // registers C15.create
)

func init() { core.RegisterProp("C01", run) }

func hexOf(out string) ([]byte, bool) {
	if len(out) >= 4 && out[:3] == "ok " {
		f := out[3:]
		for i := 0; i < len(f); i++ {
			if f[i] == ' ' {
				f = f[:i]
				break
			}
		}
		return core.UnHex(f), true
	}
	return nil, false
}

func run(r *core.Run) {
	r.Rule = "plaintexts of boundary and random lengths from six content classes (random, tag runs, fake headers, embedded envelopes) × both envelopes × key histories of length 1–4 × entry points (library, registry handler, column detector with/without the bare-envelope wrapper) × junk prefixes/suffixes; the eight AcraTranslator operations through the real TranslatorService (round trips incl. hash passed separately or concatenated, client-id / additional-context / missing-key requests); every protecting entry point × every revealing entry point on the same plaintext; the searchable column write path with values that arrive already protected (serialized container of every producer, bare AcraStruct, bare AcraBlock) through the real SearchableDataEncryptor and back through one hmac.Processor around the detector chain; non-trivial = a protect call that produced an envelope; distinct by (entry point, kind, plaintext)"
	rd := r.Rand
	lens := append([]int{}, env.Lens...)
	for i := 0; i < r.N(40, 1500); i++ {
		lens = append(lens, 1+rd.Intn(600))
	}
	if r.Thorough() {
		for l := 1; l <= 400; l++ {
			lens = append(lens, l)
		}
		lens = append(lens, 4096, 65535, 65536, 70000)
	}
	colA, colB := env.CollidingKeys(rd, nil)
	for idx, l := range lens {
		m, class := env.Plain(rd, l)
		kv := env.NewKV(rd, 1+rd.Intn(4), 1+rd.Intn(4))
		if idx%7 == 3 { // an older key with a colliding 2-byte id sits in front of the right one
			kv.Syms = [][]byte{colA, colB}
			kv.Sym = colA
			if rd.Bool() {
				kv.Syms = [][]byte{colB, colA}
			}
		}
		ctx := rd.Bytes(rd.Intn(3) * rd.Intn(9))
		// the writer may have used any key of the history (value written before a rotation)
		wi := rd.Intn(len(kv.Privs))
		wpub := env.PubOf(kv.Privs[wi])
		wsym := kv.Syms[rd.Intn(len(kv.Syms))]

		// --- library level: AcraStruct
		r.Begin(fmt.Sprintf("lib-struct-%d-%x", l, m[:min(8, len(m))]), true, "entry:library", "kind:struct", "class:"+class)
		s, ok := hexOf(r.Do(fmt.Sprintf("C01.struct.create %s %s %s %s", core.Hex(wpub), core.Hex(ctx), core.Hex(m), core.Hex(env.Rnd(rd)))))
		if r.Check(ok, "struct-create-failed", "CreateAcrastruct failed on a non-empty plaintext") {
			r.Do("C01.struct.validate " + core.Hex(s))
			suffix := env.Junk(rd, 20)
			ex := r.Do("C01.struct.extract " + core.Hex(append(append([]byte{}, s...), suffix...)))
			r.Check(ex == fmt.Sprintf("ok %d %s", len(s), core.Hex(s)), "struct-extract", "ExtractAcraStruct(struct++suffix) does not return the struct")
			back, ok := hexOf(r.Do(fmt.Sprintf("C01.struct.decrypt %s %s %s", env.List(kv.Privs), core.Hex(ctx), core.Hex(s))))
			r.Check(ok && bytes.Equal(back, m), "struct-roundtrip", fmt.Sprintf("AcraStruct round trip lost the plaintext (len %d, class %s, key #%d of %d)", l, class, wi, len(kv.Privs)))
		}
		// --- library level: AcraBlock
		r.Begin(fmt.Sprintf("lib-block-%d-%x", l, m[:min(8, len(m))]), true, "entry:library", "kind:block", "class:"+class)
		b, ok := hexOf(r.Do(fmt.Sprintf("C01.block.create %s %s %s %s", core.Hex(wsym), core.Hex(ctx), core.Hex(m), core.Hex(env.Rnd(rd)))))
		if r.Check(ok, "block-create-failed", "CreateAcraBlock failed on a non-empty plaintext") {
			suffix := env.Junk(rd, 20)
			ex := r.Do("C01.block.extract " + core.Hex(append(append([]byte{}, b...), suffix...)))
			r.Check(ex == fmt.Sprintf("ok %d %s", len(b), core.Hex(b)), "block-extract", "ExtractAcraBlockFromData(block++suffix) does not return the block")
			back, ok := hexOf(r.Do(fmt.Sprintf("C01.block.decrypt %s %s %s", env.List(kv.Syms), core.Hex(ctx), core.Hex(b))))
			r.Check(ok && bytes.Equal(back, m), "block-roundtrip", fmt.Sprintf("AcraBlock round trip lost the plaintext (len %d, class %s, %d keys)", l, class, len(kv.Syms)))
		}
		// --- registry handler + detectors, both kinds
		for _, kind := range []string{"struct", "block"} {
			r.Begin(fmt.Sprintf("handler-%s-%d-%x", kind, l, m[:min(8, len(m))]), true, "entry:handler", "kind:"+kind, "class:"+class)
			// the value may have been written under an older key: make that key current for the writer only
			wkv := *kv
			wkv.Pub, wkv.Sym = wpub, wsym
			p, ok := env.Protect(r, kind, &wkv, m)
			if !r.Check(ok, "protect-failed", "protect failed on a non-empty plaintext") {
				continue
			}
			if bytes.Equal(p, m) {
				r.Tag("protect:passthrough") // the plaintext itself looked like a protected value
				continue
			}
			back, ok := hexOf(r.Do(fmt.Sprintf("C01.handler.reveal %s %s", kv.Tokens(), core.Hex(p))))
			r.Check(ok && bytes.Equal(back, m), "reveal-protect", fmt.Sprintf("reveal(protect(m)) != m (kind %s, len %d, class %s)", kind, l, class))
			// protected input is passed through unchanged, never wrapped twice
			again, ok := env.Protect(r, kind, &wkv, p)
			r.Check(ok && bytes.Equal(again, p), "protect-idempotent", "protect(protect(m)) != protect(m)")
			other := "block"
			if kind == "block" {
				other = "struct"
			}
			again2, ok := env.Protect(r, other, &wkv, p)
			r.Check(ok && bytes.Equal(again2, p), "protect-idempotent-cross", "a protected value was wrapped a second time by the other envelope kind")
			r.Do("C01.handler.match " + core.Hex(p))
			r.Do("C01.container.deser " + core.Hex(p))
			// transparent column processing: embedded among junk
			pre, suf := env.Junk(rd, 40), env.Junk(rd, 40)
			col := append(append(append([]byte{}, pre...), p...), suf...)
			want := append(append(append([]byte{}, pre...), m...), suf...)
			for _, op := range []string{"C01.detector.oncolumn", "C01.detector.compat"} {
				r.Begin(fmt.Sprintf("%s-%s-%d-%x-%d-%d", op, kind, l, m[:min(8, len(m))], len(pre), len(suf)), true, "entry:"+op, "kind:"+kind)
				got, ok := hexOf(r.Do(fmt.Sprintf("%s %s %s", op, kv.Tokens(), core.Hex(col))))
				r.Check(ok && bytes.Equal(got, want), "column-embedded", fmt.Sprintf("%s: pre(%d)++protect(m)++suf(%d) did not come back as pre++m++suf (kind %s, len %d, class %s)", op, len(pre), len(suf), kind, l, class))
			}
			// bare (old-style) envelope inside a column, only the compat wrapper reveals it
			if rd.Chance(50) {
				inner, _, _ := deser(r, p)
				if inner != nil {
					pre, suf := env.Junk(rd, 20), env.Junk(rd, 20)
					if kind == "struct" {
						suf = nil // a bare AcraStruct must reach the end of the buffer to be recognised by length
					}
					col := append(append(append([]byte{}, pre...), inner...), suf...)
					want := append(append(append([]byte{}, pre...), m...), suf...)
					r.Begin(fmt.Sprintf("compat-bare-%s-%d-%x", kind, l, m[:min(8, len(m))]), true, "entry:compat-bare", "kind:"+kind)
					got, ok := hexOf(r.Do(fmt.Sprintf("C01.detector.compat %s %s", kv.Tokens(), core.Hex(col))))
					if !containsTag(pre) && !containsTag(suf) {
						r.Check(ok && bytes.Equal(got, want), "column-bare", fmt.Sprintf("bare %s envelope in a column was not revealed by the compatibility wrapper (len %d)", kind, l))
					}
				}
			}
		}
	}
	translatorOps(r)
	crossEntryPoints(r)
	searchableWrite(r)
	// empty plaintext cannot be protected: error, never a value
	r.Begin("empty-plaintext", true, "class:empty")
	kv := env.NewKV(rd, 1, 1)
	for _, kind := range []string{"struct", "block"} {
		out := r.Do(fmt.Sprintf("C01.handler.protect %s %s - %s", kind, kv.Tokens(), core.Hex(env.Rnd(rd))))
		r.Check(out == core.Err, "protect-empty", "protect of the empty plaintext did not fail: "+out)
	}
}

func deser(r *core.Run, p []byte) ([]byte, int, bool) {
	out := r.Do("C01.container.deser " + core.Hex(p))
	var h string
	var id int
	if _, err := fmt.Sscanf(out, "ok %s %d", &h, &id); err != nil {
		return nil, 0, false
	}
	return core.UnHex(h), id, true
}

func containsTag(b []byte) bool {
	return bytes.Contains(b, []byte("%%%")) || bytes.Contains(b, []byte("\"\"\"\""))
}

// worlds: a client id with a key history; the writer's store has one (possibly older) key current, the
// reader's store the whole history
func mkStores(r *core.Run) (w, rd *Store) {
	g := r.Rand
	kv := env.NewKV(g, 1+g.Intn(3), 1+g.Intn(3))
	wkv := *kv
	wkv.Pub = env.PubOf(kv.Privs[g.Intn(len(kv.Privs))])
	wkv.Sym = kv.Syms[g.Intn(len(kv.Syms))]
	id := [][]byte{[]byte("client"), []byte("c"), g.Bytes(1 + g.Intn(20)), {}}[g.Intn(4)]
	hk := g.Bytes(32)
	pk := env.NewKV(g, 1, 1)
	has := g.Bool()
	return &Store{HasCb: has, Poison: pk, ID: id, KV: &wkv, Hmac: hk}, &Store{HasCb: has, Poison: pk, ID: id, KV: kv, Hmac: hk}
}

func crossLens(r *core.Run) []int {
	g := r.Rand
	lens := []int{1, 18, 33, 145}
	for i := 0; i < r.N(8, 120); i++ {
		lens = append(lens, env.Lens[g.Intn(len(env.Lens))])
	}
	for i := 0; i < r.N(4, 80); i++ {
		lens = append(lens, 1+g.Intn(600))
	}
	if r.Thorough() {
		lens = append(lens, 4096, 65536)
	}
	return lens
}

// translatorOps: the eight AcraTranslator operations as such – round trips per Encrypt/Decrypt pair
// (hash passed separately or concatenated), and the request checks (client id, additional context, keys).
func translatorOps(r *core.Run) {
	g := r.Rand
	poisonWitness(r)
	for _, l := range crossLens(r) {
		m, class := env.Plain(g, l)
		wst, rst := mkStores(r)
		idTok := core.Hex(wst.ID)
		for _, kind := range []string{"struct", "block"} {
			byLen := kind == "struct" // Encrypt/Decrypt test len(clientID)==0, the other six clientID==nil
			r.Begin(fmt.Sprintf("tr-%s-%d-%x-%s", kind, l, m[:min(8, len(m))], idTok), true, "entry:translator", "kind:"+kind, "class:"+class)
			encOut := r.Do(fmt.Sprintf("C01.tr.%s %s %s nil %s %s", trOp(kind, "Encrypt", "EncryptSym"), wst.Tokens(), idTok, core.Hex(m), core.Hex(env.Rnd(g))))
			if byLen && len(wst.ID) == 0 {
				r.Check(encOut == core.Err, "tr-empty-id", "Encrypt accepted an empty client id: "+encOut)
				r.Check(firstTwo(r.Do(fmt.Sprintf("C01.tr.Decrypt %s - nil %s", rst.Tokens(), core.Hex(m)))) == core.Err, "tr-empty-id", "Decrypt accepted an empty client id")
			} else if p, ok := hexOf(encOut); r.Check(ok, "tr-encrypt-failed", fmt.Sprintf("translator %s failed on a non-empty plaintext", trOp(kind, "Encrypt", "EncryptSym"))) {
				if bytes.Equal(p, m) {
					r.Tag("protect:passthrough")
				} else {
					dec := r.Do(fmt.Sprintf("C01.tr.%s %s %s nil %s", trOp(kind, "Decrypt", "DecryptSym"), rst.Tokens(), idTok, core.Hex(p)))
					r.Check(dec == "ok "+core.Hex(m)+" 0", "translator-roundtrip", fmt.Sprintf("translator %s(%s(m)) = %s, want m and no alarm (len %d, class %s)", trOp(kind, "Decrypt", "DecryptSym"), trOp(kind, "Encrypt", "EncryptSym"), short(dec), l, class))
					// the request checks on the decrypt side, with a value that would otherwise decrypt
					for _, bad := range [][2]string{{"nil", "nil"}, {idTok, "-"}, {idTok, core.Hex(g.Bytes(1 + g.Intn(4)))}, {core.Hex(append(append([]byte{}, wst.ID...), 'x')), "nil"}} {
						out := r.Do(fmt.Sprintf("C01.tr.%s %s %s %s %s", trOp(kind, "Decrypt", "DecryptSym"), rst.Tokens(), bad[0], bad[1], core.Hex(p)))
						r.Check(firstTwo(out) == core.Err, "tr-request-check", fmt.Sprintf("translator %s answered %s to client id %s / additional context %s", trOp(kind, "Decrypt", "DecryptSym"), short(out), bad[0], bad[1]))
					}
				}
			}
			// searchable pair
			r.Begin(fmt.Sprintf("trs-%s-%d-%x-%s", kind, l, m[:min(8, len(m))], idTok), true, "entry:translator-searchable", "kind:"+kind, "class:"+class)
			f := strings.Fields(r.Do(fmt.Sprintf("C01.tr.%s %s %s nil %s %s", trOp(kind, "EncryptSearchable", "EncryptSymSearchable"), wst.Tokens(), idTok, core.Hex(m), core.Hex(env.Rnd(g)))))
			if r.Check(len(f) == 3 && f[0] == "ok", "tr-encrypt-failed", fmt.Sprintf("translator %s failed on a non-empty plaintext", trOp(kind, "EncryptSearchable", "EncryptSymSearchable"))) {
				p, h := core.UnHex(f[1]), core.UnHex(f[2])
				r.Check(len(h) == 33, "tr-hash-size", fmt.Sprintf("search hash has %d bytes", len(h)))
				if bytes.Equal(p, m) {
					r.Tag("protect:passthrough")
				} else {
					op := trOp(kind, "DecryptSearchable", "DecryptSymSearchable")
					sep := r.Do(fmt.Sprintf("C01.tr.%s %s %s nil %s %s", op, rst.Tokens(), idTok, core.Hex(h), core.Hex(p)))
					r.Check(sep == "ok "+core.Hex(m)+" 0", "translator-searchable-roundtrip", fmt.Sprintf("%s(data, hash) = %s, want m (len %d, class %s)", op, short(sep), l, class))
					cat := r.Do(fmt.Sprintf("C01.tr.%s %s %s nil nil %s", op, rst.Tokens(), idTok, core.Hex(append(append([]byte{}, h...), p...))))
					r.Check(cat == "ok "+core.Hex(m)+" 0", "translator-searchable-roundtrip", fmt.Sprintf("%s(hash++data) = %s, want m (len %d, class %s)", op, short(cat), l, class))
					// without the hash, with an empty (non-nil) hash, without the HMAC key: never a value
					for _, ht := range []string{"nil", "-"} {
						out := r.Do(fmt.Sprintf("C01.tr.%s %s %s nil %s %s", op, rst.Tokens(), idTok, ht, core.Hex(p)))
						r.Check(firstTwo(out) == core.Err, "tr-missing-hash", fmt.Sprintf("%s without a hash answered %s", op, short(out)))
					}
					nohk := *rst
					nohk.Hmac = nil
					out := r.Do(fmt.Sprintf("C01.tr.%s %s %s nil %s %s", op, nohk.Tokens(), idTok, core.Hex(h), core.Hex(p)))
					r.Check(firstTwo(out) == core.Err, "tr-missing-hmac-key", fmt.Sprintf("%s without the HMAC key answered %s", op, short(out)))
					for _, bad := range [][2]string{{"nil", "nil"}, {idTok, "-"}, {idTok, core.Hex(g.Bytes(1 + g.Intn(4)))}} {
						out := r.Do(fmt.Sprintf("C01.tr.%s %s %s %s %s %s", op, rst.Tokens(), bad[0], bad[1], core.Hex(h), core.Hex(p)))
						r.Check(firstTwo(out) == core.Err, "tr-request-check", fmt.Sprintf("%s answered %s to client id %s / additional context %s", op, short(out), bad[0], bad[1]))
					}
				}
			}
			// a poison record sent to the decrypt operations of this kind: alarm (when callbacks are configured), error
			if g.Intn(3) == 0 {
				pkind := []string{"struct", "block"}[g.Intn(2)]
				if rec, ok := hexOf(r.Do(fmt.Sprintf("C15.create %s %s %d %s", pkind, rst.Poison.Tokens(), 1+g.Intn(40), core.Hex(g.Bytes(160))))); ok {
					r.Begin(fmt.Sprintf("trpoison-%s-%s-%x", kind, pkind, rec[12:20]), true, "entry:translator-poison", "kind:"+kind)
					wantAlarm := "err 0"
					if rst.HasCb {
						wantAlarm = "err 1"
					}
					lines := []string{
						fmt.Sprintf("C01.tr.%s %s %s nil %s", trOp(kind, "Decrypt", "DecryptSym"), rst.Tokens(), idTok, core.Hex(rec)),
						fmt.Sprintf("C01.tr.%s %s %s nil nil %s", trOp(kind, "DecryptSearchable", "DecryptSymSearchable"), rst.Tokens(), idTok, core.Hex(rec)),
						fmt.Sprintf("C01.tr.%s %s %s nil - %s", trOp(kind, "DecryptSearchable", "DecryptSymSearchable"), rst.Tokens(), idTok, core.Hex(rec)),
						fmt.Sprintf("C01.tr.%s %s %s nil %s %s", trOp(kind, "DecryptSearchable", "DecryptSymSearchable"), rst.Tokens(), idTok, core.Hex(append([]byte{127}, g.Bytes(32)...)), core.Hex(rec)),
						fmt.Sprintf("C01.tr.%s %s %s nil %s %s", trOp(kind, "DecryptSearchable", "DecryptSymSearchable"), rst.Tokens(), idTok, core.Hex([]byte("not a hash")), core.Hex(rec)),
					}
					for li, line := range lines {
						out := r.Do(line)
						if li == 0 && byLen && len(wst.ID) == 0 { // Decrypt refuses the empty client id before anything else
							r.Check(out == "err 0", "tr-empty-id", "Decrypt accepted an empty client id: "+short(out))
							continue
						}
						r.Check(out == wantAlarm, "tr-poison", fmt.Sprintf("%s on a poison %s record answered %q, want %q", strings.Fields(line)[0], pkind, short(out), wantAlarm))
					}
				}
			}
			// request checks on the encrypt side
			r.Begin(fmt.Sprintf("trreq-%s-%d-%x", kind, l, m[:min(8, len(m))]), true, "entry:translator-requests", "kind:"+kind)
			for _, op := range []string{trOp(kind, "Encrypt", "EncryptSym"), trOp(kind, "EncryptSearchable", "EncryptSymSearchable")} {
				for _, bad := range [][2]string{{"nil", "nil"}, {idTok, "-"}, {idTok, core.Hex(g.Bytes(1 + g.Intn(4)))}, {core.Hex(append(append([]byte{}, wst.ID...), 'x')), "nil"}} {
					out := r.Do(fmt.Sprintf("C01.tr.%s %s %s %s %s %s", op, wst.Tokens(), bad[0], bad[1], core.Hex(m), core.Hex(env.Rnd(g))))
					// a client id without keys still gets a look-alike plaintext back unchanged (pass-through needs no key)
					passthrough := bad[1] == "nil" && bad[0] != "nil" && strings.HasPrefix(out, "ok "+core.Hex(m))
					r.Check(out == core.Err || passthrough, "tr-request-check", fmt.Sprintf("translator %s answered %s to client id %s / additional context %s", op, short(out), bad[0], bad[1]))
				}
			}
			nohk := *wst
			nohk.Hmac = nil
			out := r.Do(fmt.Sprintf("C01.tr.%s %s %s nil %s %s", trOp(kind, "EncryptSearchable", "EncryptSymSearchable"), nohk.Tokens(), idTok, core.Hex(m), core.Hex(env.Rnd(g))))
			r.Check(out == core.Err, "tr-missing-hmac-key", "searchable encrypt without the HMAC key answered "+short(out))
		}
	}
}

// crossEntryPoints: a value produced by ANY protecting entry point is revealed to the same plaintext by
// EVERY revealing entry point (translator decrypts of the other envelope kind: an error, never a value).
func crossEntryPoints(r *core.Run) {
	g := r.Rand
	cons := consumers()
	for _, l := range crossLens(r) {
		m, class := env.Plain(g, l)
		wst, rst := mkStores(r)
		if len(wst.ID) == 0 { // Encrypt/Decrypt refuse the empty id (covered by translatorOps)
			wst.ID, rst.ID = []byte("client"), []byte("client")
		}
		hash := core.UnHex(r.Impl(fmt.Sprintf("C09.hmac %s %s", core.Hex(rst.Hmac), core.Hex(m))))
		for _, kind := range []string{"struct", "block"} {
			for _, pr := range producers {
				r.Begin(fmt.Sprintf("x-%s-%s-%d-%x", pr.name, kind, l, m[:min(8, len(m))]), true, "entry:cross", "producer:"+pr.name, "kind:"+kind, "class:"+class)
				p, h, ok := pr.run(r, wst, kind, m)
				if !r.Check(ok, "protect-failed", fmt.Sprintf("producer %s (%s) failed on a non-empty plaintext", pr.name, kind)) {
					continue
				}
				if pr.searchable {
					r.Check(bytes.Equal(h, hash), "hash-disagrees", fmt.Sprintf("producer %s returned a search hash that differs from GenerateHMAC(key, m)", pr.name))
				}
				if bytes.Equal(p, m) {
					r.Tag("protect:passthrough")
					continue
				}
				for _, c := range cons {
					out := c.run(r, rst, p, hash)
					if c.kind == "" || c.kind == kind {
						r.Tag("consumer:" + c.name)
						r.Check(out == "ok "+core.Hex(m), "entry-points-disagree", fmt.Sprintf("value protected by %s (%s) is revealed by %s as %s, want the plaintext (len %d, class %s)", pr.name, kind, c.name, short(out), l, class))
					} else {
						r.Check(out == core.Err, "kind-mismatch-revealed", fmt.Sprintf("value protected by %s (%s) answered %s at %s (handler of the other envelope kind)", pr.name, kind, short(out), c.name))
					}
				}
			}
		}
	}
}

func short(s string) string {
	if len(s) > 80 {
		return s[:80] + "…"
	}
	return s
}

// poisonWitness: regression corpus of the repaired defect "DecryptSearchable returned its error without
// running the poison detector when no hash could be split off" (repo-patches/51-…): fixed keys, fixed
// random stream; run first on every run.
func poisonWitness(r *core.Run) {
	seed := func(b byte) []byte { return bytes.Repeat([]byte{b}, 32) }
	pkp := keys.NewFromSeed(seed(1))
	pk := &env.KV{Pub: pkp.Public.Value, Privs: [][]byte{pkp.Private.Value}, Sym: seed(2), Syms: [][]byte{seed(2)}}
	ckp := keys.NewFromSeed(seed(3))
	st := &Store{HasCb: true, Poison: pk, ID: []byte("client"), KV: &env.KV{Pub: ckp.Public.Value, Privs: [][]byte{ckp.Private.Value}, Sym: seed(4), Syms: [][]byte{seed(4)}}, Hmac: seed(5)}
	rnd := make([]byte, 120)
	for i := range rnd {
		rnd[i] = byte(7*i + 1)
	}
	for _, pkind := range []string{"struct", "block"} {
		rec, ok := hexOf(r.Do(fmt.Sprintf("C15.create %s %s 10 %s", pkind, pk.Tokens(), core.Hex(rnd))))
		r.Begin("corpus-poison-searchable-"+pkind, true, "stream:corpus", "entry:translator-poison")
		if !r.Check(ok, "corpus-broken", "cannot create the poison record of the regression witness") {
			continue
		}
		for _, op := range []string{"DecryptSearchable", "DecryptSymSearchable"} {
			for _, h := range []string{"nil", "-", core.Hex([]byte("junk"))} {
				out := r.Do(fmt.Sprintf("C01.tr.%s %s %s nil %s %s", op, st.Tokens(), core.Hex(st.ID), h, core.Hex(rec)))
				r.Check(out == "err 1", "tr-poison-searchable-no-hash", fmt.Sprintf("%s(poison %s record, hash %s) answered %q: the intrusion callbacks did not run exactly once with an error for the client", op, pkind, h, out))
			}
		}
	}
}
