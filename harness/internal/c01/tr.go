package c01

// Implementation-side ops for the AcraTranslator operations as such (`C01.tr.<Op>`, the real
// common.TranslatorService over a fake key store) and for the library calls on serialized values
// (`C01.lib.protect`, `C01.lib.reveal`), plus the table of protecting / revealing entry points used by
// the cross-entry-point oracle.

import (
	"context"
	"errors"
	"fmt"
	"strings"

	"github.com/cossacklabs/acra/acrablock"
	"github.com/cossacklabs/acra/acrastruct"
	"github.com/cossacklabs/acra/cmd/acra-translator/common"
	"github.com/cossacklabs/acra/crypto"
	poisonpkg "github.com/cossacklabs/acra/poison"
	"github.com/cossacklabs/themis/gothemis/keys"

	"verifharness/internal/core"
	env "verifharness/internal/envops"
)

// counting intrusion callback
type counter struct {
	n   int
	err bool
}

func (c *counter) Call() error {
	c.n++
	if c.err {
		return errors.New("verif: callback error")
	}
	return nil
}

// nilOr decodes `nil` (Go nil slice) or hex (`-` = empty, non-nil).
func nilOr(s string) []byte {
	if s == "nil" {
		return nil
	}
	return core.UnHex(s)
}

// NilTok renders an optional byte string as a protocol token.
func nilTok(b []byte) string {
	if b == nil {
		return "nil"
	}
	return core.Hex(b)
}

// Store describes the service's key store for the ops: poison configuration, one client id with keys.
type Store struct {
	HasCb, CbErr bool
	Poison       *env.KV
	ID           []byte
	KV           *env.KV
	Hmac         []byte // nil = no HMAC key
}

var noKeys = &env.KV{NoPub: true, NoPrivs: true, NoSym: true, NoSyms: true}

func (s *Store) Tokens() string {
	pk := s.Poison
	if pk == nil {
		pk = noKeys
	}
	hk := "none"
	if s.Hmac != nil {
		hk = core.Hex(s.Hmac)
	}
	return fmt.Sprintf("%v %v %s %s %s %s", s.HasCb, s.CbErr, pk.Tokens(), core.Hex(s.ID), s.KV.Tokens(), hk)
}

const storeTokens = 12

// service builds the real TranslatorService from the first 12 tokens.
func service(a []string) (*common.TranslatorService, *counter) {
	has, cbErr := a[0] == "true", a[1] == "true"
	pk, kv := env.ParseKV(a[2:6]), env.ParseKV(a[7:11])
	ks := &env.TKS{Clients: map[string]*env.KV{string(core.UnHex(a[6])): kv}, Poison: pk, Hmac: map[string][]byte{}}
	if a[11] != "none" {
		ks.Hmac[string(core.UnHex(a[6]))] = core.UnHex(a[11])
	}
	st := poisonpkg.NewCallbackStorage()
	cnt := &counter{err: cbErr}
	if has {
		st.AddCallback(cnt)
	}
	svc, err := common.NewTranslatorService(&common.TranslatorData{Keystorage: ks, PoisonRecordCallbacks: st})
	if err != nil {
		panic("harness: " + err.Error())
	}
	return svc, cnt
}

func outAlarms(b []byte, err error, cnt *counter) string {
	if err != nil {
		return fmt.Sprintf("err %d", cnt.n)
	}
	return fmt.Sprintf("ok %s %d", core.Hex(b), cnt.n)
}

func outPlain(b []byte, err error) string {
	if err != nil {
		return core.Err
	}
	return core.OkHex(b)
}

func outPair(r common.SearchableResponse, err error) string {
	if err != nil {
		return core.Err
	}
	return fmt.Sprintf("ok %s %s", core.Hex(r.EncryptedData), core.Hex(r.Hash))
}

func init() {
	env.Init()
	bg := context.Background()
	// tr.<Op> <store ×12> reqId addCtx [hash] data [rnd]
	encOp := func(name string, f func(*common.TranslatorService, []byte, []byte, []byte) string) {
		core.Register("C01.tr."+name, func(a []string) (res string) {
			svc, _ := service(a)
			r := a[storeTokens:]
			env.WithRand(core.UnHex(r[3]), func() { res = f(svc, core.UnHex(r[2]), nilOr(r[0]), nilOr(r[1])) })
			return
		})
	}
	encOp("Encrypt", func(s *common.TranslatorService, d, id, ac []byte) string { return outPlain(s.Encrypt(bg, d, id, ac)) })
	encOp("EncryptSym", func(s *common.TranslatorService, d, id, ac []byte) string { return outPlain(s.EncryptSym(bg, d, id, ac)) })
	encOp("EncryptSearchable", func(s *common.TranslatorService, d, id, ac []byte) string {
		return outPair(s.EncryptSearchable(bg, d, id, ac))
	})
	encOp("EncryptSymSearchable", func(s *common.TranslatorService, d, id, ac []byte) string {
		return outPair(s.EncryptSymSearchable(bg, d, id, ac))
	})
	core.Register("C01.tr.Decrypt", func(a []string) string {
		svc, cnt := service(a)
		r := a[storeTokens:]
		b, err := svc.Decrypt(bg, core.UnHex(r[2]), nilOr(r[0]), nilOr(r[1]))
		return outAlarms(b, err, cnt)
	})
	core.Register("C01.tr.DecryptSym", func(a []string) string {
		svc, cnt := service(a)
		r := a[storeTokens:]
		b, err := svc.DecryptSym(bg, core.UnHex(r[2]), nilOr(r[0]), nilOr(r[1]))
		return outAlarms(b, err, cnt)
	})
	core.Register("C01.tr.DecryptSearchable", func(a []string) string {
		svc, cnt := service(a)
		r := a[storeTokens:]
		b, err := svc.DecryptSearchable(bg, core.UnHex(r[3]), nilOr(r[2]), nilOr(r[0]), nilOr(r[1]))
		return outAlarms(b, err, cnt)
	})
	core.Register("C01.tr.DecryptSymSearchable", func(a []string) string {
		svc, cnt := service(a)
		r := a[storeTokens:]
		b, err := svc.DecryptSymSearchable(bg, core.UnHex(r[3]), nilOr(r[2]), nilOr(r[0]), nilOr(r[1]))
		return outAlarms(b, err, cnt)
	})
	// lib.protect kind [kv ×4] data rnd – library create (nil context) + SerializeEncryptedData
	core.Register("C01.lib.protect", func(a []string) (res string) {
		kv := env.ParseKV(a[1:5])
		env.WithRand(core.UnHex(a[6]), func() {
			var e []byte
			var err error
			id := byte(crypto.AcraStructEnvelopeID)
			if a[0] == "struct" {
				if kv.NoPub {
					res = core.Err
					return
				}
				e, err = acrastruct.CreateAcrastruct(core.UnHex(a[5]), &keys.PublicKey{Value: kv.Pub}, nil)
			} else {
				id = byte(crypto.AcraBlockEnvelopeID)
				if kv.NoSym {
					res = core.Err
					return
				}
				e, err = acrablock.CreateAcraBlock(core.UnHex(a[5]), kv.Sym, nil)
			}
			if err != nil {
				res = core.Err
				return
			}
			res = outPlain(crypto.SerializeEncryptedData(e, id))
		})
		return
	})
	// lib.reveal [kv ×4] data – DeserializeEncryptedData + library decrypt of the inner envelope
	core.Register("C01.lib.reveal", func(a []string) string {
		kv := env.ParseKV(a[0:4])
		internal, id, err := crypto.DeserializeEncryptedData(core.UnHex(a[4]))
		if err != nil {
			return core.Err
		}
		switch id {
		case crypto.AcraStructEnvelopeID:
			ps, err := kv.GetServerDecryptionPrivateKeys(nil)
			if err != nil {
				return core.Err
			}
			return outPlain(acrastruct.DecryptRotatedAcrastruct(internal, ps, nil))
		case crypto.AcraBlockEnvelopeID:
			ks, err := kv.GetClientIDSymmetricKeys(nil)
			if err != nil {
				return core.Err
			}
			blk, err := acrablock.NewAcraBlockFromData(internal)
			if err != nil {
				return core.Err
			}
			return outPlain(blk.Decrypt(ks, nil))
		}
		return core.Err
	})
}

// ---- the table of entry points ----

// producer: a protecting entry point; returns (protected value, search hash or nil, ok)
type producer struct {
	name       string
	searchable bool
	run        func(r *core.Run, st *Store, kind string, m []byte) ([]byte, []byte, bool)
}

func trOp(kind, plain, sym string) string {
	if kind == "struct" {
		return plain
	}
	return sym
}

var producers = []producer{
	{"library", false, func(r *core.Run, st *Store, kind string, m []byte) ([]byte, []byte, bool) {
		b, ok := hexOf(r.Do(fmt.Sprintf("C01.lib.protect %s %s %s %s", kind, st.KV.Tokens(), core.Hex(m), core.Hex(env.Rnd(r.Rand)))))
		return b, nil, ok
	}},
	{"handler", false, func(r *core.Run, st *Store, kind string, m []byte) ([]byte, []byte, bool) {
		b, ok := hexOf(r.Do(fmt.Sprintf("C01.handler.protect %s %s %s %s", kind, st.KV.Tokens(), core.Hex(m), core.Hex(env.Rnd(r.Rand)))))
		return b, nil, ok
	}},
	{"sql-write", false, func(r *core.Run, st *Store, kind string, m []byte) ([]byte, []byte, bool) {
		b, ok := hexOf(r.Do(fmt.Sprintf("C01.handler.protectcfg %s %s %s %s", kind, st.KV.Tokens(), core.Hex(m), core.Hex(env.Rnd(r.Rand)))))
		return b, nil, ok
	}},
	{"translator", false, func(r *core.Run, st *Store, kind string, m []byte) ([]byte, []byte, bool) {
		b, ok := hexOf(r.Do(fmt.Sprintf("C01.tr.%s %s %s nil %s %s", trOp(kind, "Encrypt", "EncryptSym"), st.Tokens(), core.Hex(st.ID), core.Hex(m), core.Hex(env.Rnd(r.Rand)))))
		return b, nil, ok
	}},
	{"translator-searchable", true, func(r *core.Run, st *Store, kind string, m []byte) ([]byte, []byte, bool) {
		out := r.Do(fmt.Sprintf("C01.tr.%s %s %s nil %s %s", trOp(kind, "EncryptSearchable", "EncryptSymSearchable"), st.Tokens(), core.Hex(st.ID), core.Hex(m), core.Hex(env.Rnd(r.Rand))))
		f := strings.Fields(out)
		if len(f) != 3 || f[0] != "ok" {
			return nil, nil, false
		}
		return core.UnHex(f[1]), core.UnHex(f[2]), true
	}},
}

// consumer: a revealing entry point. kinds = envelope kinds it is meant for ("" = both); run gets the
// protected value and the search hash of the plaintext.
type consumer struct {
	name string
	kind string
	run  func(r *core.Run, st *Store, p, hash []byte) string
}

func firstTwo(out string) string { // "ok <hex> <alarms>" → "ok <hex>"; "err <n>" → "err"
	f := strings.Fields(out)
	if len(f) >= 2 && f[0] == "ok" {
		return "ok " + f[1]
	}
	if len(f) >= 1 {
		return f[0]
	}
	return out
}

func consumers() []consumer {
	cs := []consumer{
		{"library", "", func(r *core.Run, st *Store, p, _ []byte) string {
			return r.Do(fmt.Sprintf("C01.lib.reveal %s %s", st.KV.Tokens(), core.Hex(p)))
		}},
		{"reveal", "", func(r *core.Run, st *Store, p, _ []byte) string {
			return r.Do(fmt.Sprintf("C01.handler.reveal %s %s", st.KV.Tokens(), core.Hex(p)))
		}},
		{"oncolumn", "", func(r *core.Run, st *Store, p, _ []byte) string {
			return r.Do(fmt.Sprintf("C01.detector.oncolumn %s %s", st.KV.Tokens(), core.Hex(p)))
		}},
		{"compat", "", func(r *core.Run, st *Store, p, _ []byte) string {
			return r.Do(fmt.Sprintf("C01.detector.compat %s %s", st.KV.Tokens(), core.Hex(p)))
		}},
	}
	for _, kind := range []string{"struct", "block"} {
		kind := kind
		cs = append(cs,
			consumer{"translator-" + kind, kind, func(r *core.Run, st *Store, p, _ []byte) string {
				return firstTwo(r.Do(fmt.Sprintf("C01.tr.%s %s %s nil %s", trOp(kind, "Decrypt", "DecryptSym"), st.Tokens(), core.Hex(st.ID), core.Hex(p))))
			}},
			consumer{"translator-searchable-sep-" + kind, kind, func(r *core.Run, st *Store, p, hash []byte) string {
				return firstTwo(r.Do(fmt.Sprintf("C01.tr.%s %s %s nil %s %s", trOp(kind, "DecryptSearchable", "DecryptSymSearchable"), st.Tokens(), core.Hex(st.ID), core.Hex(hash), core.Hex(p))))
			}},
			consumer{"translator-searchable-cat-" + kind, kind, func(r *core.Run, st *Store, p, hash []byte) string {
				cat := append(append([]byte{}, hash...), p...)
				return firstTwo(r.Do(fmt.Sprintf("C01.tr.%s %s %s nil nil %s", trOp(kind, "DecryptSearchable", "DecryptSymSearchable"), st.Tokens(), core.Hex(st.ID), core.Hex(cat))))
			}},
		)
	}
	return cs
}
