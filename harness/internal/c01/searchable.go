package c01

// The searchable column write path with values that arrive ALREADY protected (theorems
// `searchable_write_preprotected`, `searchable_preprotected_roundtrip`,
// `searchable_preprotected_container_roundtrip` of Props/C01): the real `hmac.SearchableDataEncryptor` wired as in
// proxy.go (`C09.encrypt`, compared with `Searchable.searchableEncrypt`) followed by the owner's read through ONE
// real `hmac.Processor` around the real detector chain (`C09.columns`, compared with `Searchable.columns`).
// Forms of the arriving value: serialized container (library / registry handler / AcraTranslator), bare AcraStruct
// (AcraWriter), bare AcraBlock. The oracle: the blind index in front of the stored value is GenerateHMAC(key,
// plaintext), the value behind it is stored as it arrived, and the owner reads exactly the plaintext back.

import (
	"bytes"
	"fmt"
	"strings"

	"verifharness/internal/core"
	env "verifharness/internal/envops"
)

func searchableWrite(r *core.Run) {
	g := r.Rand
	lens := []int{1, 2, 18, 33, 145}
	for i := 0; i < r.N(6, 150); i++ {
		lens = append(lens, env.Lens[g.Intn(len(env.Lens))])
	}
	for i := 0; i < r.N(4, 100); i++ {
		lens = append(lens, 1+g.Intn(500))
	}
	for _, l := range lens {
		m, class := env.Plain(g, l)
		// one client: the session (write) and the reader see the whole key history, the value may have been
		// protected under any key of it
		kv := env.NewKV(g, 1+g.Intn(3), 1+g.Intn(3))
		wkv := *kv
		wpriv := kv.Privs[g.Intn(len(kv.Privs))]
		wkv.Pub, wkv.Sym = env.PubOf(wpriv), kv.Syms[g.Intn(len(kv.Syms))]
		hk := g.Bytes(32)
		want := core.UnHex(r.Impl(fmt.Sprintf("C09.hmac %s %s", core.Hex(hk), core.Hex(m))))
		for _, kw := range []string{"struct", "block"} {
			type form struct {
				name string
				e    []byte
			}
			var forms []form
			// serialized container, by one of the producers
			pr := producers[g.Intn(4)] // library, handler, sql-write, translator
			st := &Store{ID: []byte("client"), KV: &wkv, Hmac: hk}
			r.Begin(fmt.Sprintf("sw-produce-%s-%d-%x", kw, l, m[:min(8, len(m))]), true, "entry:searchable-write", "kind:"+kw, "class:"+class)
			if p, _, ok := pr.run(r, st, kw, m); ok && !bytes.Equal(p, m) {
				forms = append(forms, form{"container-" + pr.name, p})
			}
			// bare envelope as an application-side library produces it (nil context)
			if kw == "struct" {
				if s, ok := hexOf(r.Do(fmt.Sprintf("C01.struct.create %s - %s %s", core.Hex(wkv.Pub), core.Hex(m), core.Hex(env.Rnd(g))))); ok {
					forms = append(forms, form{"bare-acrastruct", s})
				}
			} else {
				if b, ok := hexOf(r.Do(fmt.Sprintf("C01.block.create %s - %s %s", core.Hex(wkv.Sym), core.Hex(m), core.Hex(env.Rnd(g))))); ok {
					forms = append(forms, form{"bare-acrablock", b})
				}
			}
			var storedAll [][]byte
			for _, f := range forms {
				k := []string{"struct", "block"}[g.Intn(2)] // envelope kind configured for the column: irrelevant for a protected value
				r.Begin(fmt.Sprintf("sw-%s-%s-%d-%x", f.name, k, l, m[:min(8, len(m))]), true, "entry:searchable-write", "form:"+f.name, "kind:"+kw, "class:"+class)
				// the hypotheses of `searchable_preprotected_roundtrip`, evaluated by the MODEL (and compared with the code)
				hyp := []struct{ line, want string }{
					{"C01.handler.match " + core.Hex(f.e), "true"},
					{fmt.Sprintf("C01.handler.reveal %s %s", kv.Tokens(), core.Hex(f.e)), "ok " + core.Hex(m)},
					{"C09.match " + core.Hex(f.e), "ok true"},
					{fmt.Sprintf("C01.detector.compat %s %s", kv.Tokens(), core.Hex(f.e)), "ok " + core.Hex(m)},
				}
				inDomain := true
				for _, h := range hyp {
					r.Do(h.line)
					if r.ModelOnly(h.line) != h.want {
						inDomain = false
					}
				}
				if !inDomain {
					r.Tag("searchable-write:outside-theorem-hypotheses")
					continue
				}
				out := r.Do(fmt.Sprintf("C09.encrypt %s %s %s %s %s", k, core.Hex(hk), kv.Tokens(), core.Hex(f.e), core.Hex(env.Rnd(g))))
				stored, ok := hexOf(out)
				if !r.Check(ok && len(stored) > 33, "searchable-preprotected-write-failed", fmt.Sprintf("writing an already protected value (%s) to a searchable column failed: %s", f.name, short(out))) {
					continue
				}
				r.Check(bytes.Equal(stored[:33], want), "searchable-preprotected-hash", fmt.Sprintf("the search hash stored in front of an already protected value (%s) is not GenerateHMAC(key, plaintext)", f.name))
				r.Check(bytes.Equal(stored[33:], f.e), "searchable-preprotected-changed", fmt.Sprintf("an already protected value (%s) was not stored as it arrived behind its search hash", f.name))
				// the owner's read: one hmac.Processor, detector chain in between
				o := r.Do(fmt.Sprintf("C09.columns %s %s %s", core.Hex(hk), kv.Tokens(), core.Hex(stored)))
				fl := strings.Fields(o)
				r.Check(len(fl) == 3 && fl[0] == "ok" && fl[2] == core.Hex(m), "searchable-preprotected-read-back", fmt.Sprintf("protect, write to a searchable column (%s), read back: the owner received %s, want the original bytes (len %d, class %s)", f.name, short(o), l, class))
				// the same plaintext written in clear gets the same index
				if clear, ok := hexOf(r.Do(fmt.Sprintf("C09.encrypt %s %s %s %s %s", k, core.Hex(hk), kv.Tokens(), core.Hex(m), core.Hex(env.Rnd(g))))); ok && len(clear) > 33 && !bytes.Equal(clear, m) {
					if r.ModelOnly("C01.handler.match "+core.Hex(m)) == "false" {
						r.Check(bytes.Equal(clear[:33], stored[:33]), "searchable-preprotected-hash", "the same plaintext written in clear and written already protected carries different search hashes")
					}
				}
				storedAll = append(storedAll, stored)
			}
			// all forms of this plaintext as the columns of one row: the same Processor object sees them in turn
			if len(storedAll) > 1 {
				r.Begin(fmt.Sprintf("sw-row-%s-%d-%x", kw, l, m[:min(8, len(m))]), true, "entry:searchable-write-row", "kind:"+kw)
				o := r.Do(fmt.Sprintf("C09.columns %s %s %s", core.Hex(hk), kv.Tokens(), env.List(storedAll)))
				fl := strings.Fields(o)
				wantRow := make([]string, len(storedAll))
				for i := range wantRow {
					wantRow[i] = core.Hex(m)
				}
				r.Check(len(fl) == 3 && fl[0] == "ok" && fl[2] == strings.Join(wantRow, ","), "searchable-preprotected-read-back", "a row of searchable columns written already protected did not come back as the original bytes: "+short(o))
			}
		}
	}
}
