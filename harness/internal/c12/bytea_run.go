package c12

import (
	"bytes"
	"fmt"

	"verifharness/internal/core"
)

func runBytea(r *core.Run) {
	rd := r.Rand
	var vals [][]byte
	vals = append(vals, []byte{}, []byte("\\"), []byte("\\x"), []byte("\\x41"), []byte("a\\b"), []byte{0}, []byte{0xff}, []byte("plain text"),
		[]byte{0x7f, 0x80, 0x9f, 0xa0, 0x1f, 0x20, 0x7e}, []byte("naïve ✓"), []byte{0xc3, 0x28}, []byte{0xe2, 0x82}, []byte{0xf0, 0x9f, 0x98, 0x80})
	all := make([]byte, 256)
	for i := range all {
		all[i] = byte(i)
	}
	vals = append(vals, all)
	for i := 0; i < r.N(300, 20000); i++ {
		vals = append(vals, rd.Bytes(rd.Intn(60)))
	}
	for _, v := range vals {
		r.Begin("bytea-rt-"+core.Hex(v), true, "stream:structured", "bytea:roundtrip")
		oct := core.UnHex(r.Do("C12.bytea.octal.enc " + core.Hex(v))[3:])
		back := r.Do("C12.bytea.octal.dec " + core.Hex(oct))
		r.Check(back == core.OkHex(v), "bytea-octal-roundtrip", fmt.Sprintf("DecodeOctal(EncodeToOctal(%x)) = %s", v, back))
		back = r.Do("C12.bytea.escaped.dec " + core.Hex(oct))
		r.Check(back == core.OkHex(v), "bytea-octal-roundtrip", fmt.Sprintf("DecodeEscaped(EncodeToOctal(%x)) = %s", v, back))
		hx := core.UnHex(r.Do("C12.bytea.hex.enc " + core.Hex(v))[3:])
		back = r.Do("C12.bytea.escaped.dec " + core.Hex(hx))
		r.Check(back == core.OkHex(v), "bytea-hex-roundtrip", fmt.Sprintf("DecodeEscaped(PgEncodeToHex(%x)) = %s", v, back))
	}
	// malformed / arbitrary inputs to the decoders (UTF-8 edge cases, truncated escapes, bad hex)
	alphabet := []byte("\\\\\\x01234567789abcfAF \x00\x1f\x7f\x80\xc2\xa9\xe2\x82\xac\xf0\x9f\x98\x80\xed\xa0\x80\xff")
	for i := 0; i < r.N(600, 40000); i++ {
		n := rd.Intn(14)
		b := make([]byte, n)
		for j := range b {
			if rd.Chance(85) {
				b[j] = alphabet[rd.Intn(len(alphabet))]
			} else {
				b[j] = byte(rd.U64())
			}
		}
		if rd.Chance(25) {
			b = append([]byte("\\x"), b...)
		}
		r.Begin("bytea-mal-"+core.Hex(b), len(b) > 0, "stream:malformed", "bytea:decode-arbitrary")
		r.Do("C12.bytea.octal.dec " + core.Hex(b))
		r.Do("C12.bytea.escaped.dec " + core.Hex(b))
	}
	// directed: valid multi-byte characters followed by complete and truncated octal escapes (rune index vs byte index)
	for _, ch := range []string{"é", "€", "😀", "éé", "a€b", ""} {
		for _, tail := range []string{"\\", "\\1", "\\12", "\\123", "\\12x", "\\\\", "\\1é", "x\\12"} {
			for _, pre := range []string{"", "z", "\\101"} {
				b := []byte(pre + ch + tail)
				r.Begin("bytea-utf8-"+core.Hex(b), true, "stream:boundary", "bytea:utf8-truncated-escape")
				for _, op := range []string{"C12.bytea.octal.dec ", "C12.bytea.escaped.dec "} {
					got := r.Do(op + core.Hex(b))
					r.Check(got != core.Panic, "bytea-decode-panic", fmt.Sprintf("%s panics on %q", op, b))
				}
			}
		}
	}
	// DataRows through the real decoder/encoder subscribers with no column settings: relay identity
	for i := 0; i < r.N(400, 15000); i++ {
		row := randRow(rd, false)
		for j := range row {
			if row[j] != nil && rd.Chance(30) {
				row[j] = core.Pick(rd, [][]byte{[]byte("\\x"), []byte("\\xZZ"), []byte("\\x4"), []byte("\\x41"), []byte("\\\\x41"), []byte("abc"), []byte("a\\001b"), []byte("\\"), []byte("\\0"), {0xff, 0xfe}, []byte("naïve")})
			}
		}
		var fmts []uint16
		if rd.Chance(40) {
			fmts = []uint16{uint16(rd.Intn(2))}
		}
		msg := pgMsg('D', pgEncodeRow(row))
		class := "pg-chain-identity"
		for _, c := range row {
			if bytes.HasPrefix(c, []byte("\\x")) {
				if _, err := hexDecodeStrict(c[2:]); err != nil {
					class = "pg-chain-hex-lookalike"
				}
			}
		}
		r.Begin(fmt.Sprintf("pg-chain-%s-%s", showRow(row), showNats(fmts)), len(row) > 0, "stream:structured", "pg:chain-identity")
		got := r.Do(fmt.Sprintf("C12.pg.chain %s %s", showNats(fmts), core.Hex(msg))) // compared with Typed.pgChainNoSetting inside Pg.rewriteRow
		r.Check(got == core.OkHex(msg), class, fmt.Sprintf("DataRow %s changed or rejected by the decoder/encoder subscribers although no column is configured: %.120s", showRow(row), got))
	}
}

func hexDecodeStrict(b []byte) ([]byte, error) {
	if len(b)%2 == 1 {
		return nil, fmt.Errorf("odd")
	}
	out := make([]byte, len(b)/2)
	for i := 0; i < len(b); i += 2 {
		hi, lo := unhex(b[i]), unhex(b[i+1])
		if hi < 0 || lo < 0 {
			return nil, fmt.Errorf("bad digit")
		}
		out[i/2] = byte(hi<<4 | lo)
	}
	return out, nil
}

func unhex(c byte) int {
	switch {
	case c >= '0' && c <= '9':
		return int(c - '0')
	case c >= 'a' && c <= 'f':
		return int(c-'a') + 10
	case c >= 'A' && c <= 'F':
		return int(c-'A') + 10
	}
	return -1
}
