package c12

import (
	"bytes"
	"fmt"

	"verifharness/internal/core"
)

// lengths around every boundary that matters for PostgreSQL framing (16-bit counts, 32-bit lengths)
var pgValueLens = []int{0, 1, 2, 3, 4, 5, 7, 8, 250, 251, 255, 256, 257, 65535, 65536, 65537}

func randValue(rd *core.Rand, thorough bool) []byte {
	switch rd.Intn(10) {
	case 0:
		return []byte{}
	case 1, 2:
		return rd.Bytes(core.Pick(rd, pgValueLens[:12]))
	case 3:
		if thorough || rd.Chance(10) {
			return rd.Bytes(core.Pick(rd, pgValueLens))
		}
		return rd.Bytes(rd.Intn(40))
	case 4:
		// bytes that look like length prefixes / NULL markers
		return core.Pick(rd, [][]byte{{0xff, 0xff, 0xff, 0xff}, {0, 0, 0, 0}, {0xfb}, {0xfc, 0xfb, 0}, {0, 0, 0, 1, 0x41}})
	default:
		return rd.Bytes(rd.Intn(24))
	}
}

func randRow(rd *core.Rand, thorough bool) Row {
	n := rd.Intn(9)
	if rd.Chance(5) {
		n = 0
	}
	r := Row{}
	for i := 0; i < n; i++ {
		if rd.Chance(25) {
			r = append(r, nil)
		} else {
			r = append(r, randValue(rd, thorough))
		}
	}
	return r
}

func randTr(rd *core.Rand, allowFail bool) tr {
	switch rd.Intn(9) {
	case 0, 1:
		return tr{kind: 'k'}
	case 2:
		return tr{kind: 'e'}
	case 3:
		return tr{kind: 'p', arg: rd.Bytes(1 + rd.Intn(6))}
	case 4:
		return tr{kind: 'a', arg: rd.Bytes(1 + rd.Intn(300))}
	case 5:
		return tr{kind: 't', n: rd.Intn(6)}
	case 6:
		return tr{kind: 'r', arg: rd.Bytes(core.Pick(rd, []int{0, 1, 4, 250, 251, 252, 300}))}
	case 7:
		if allowFail && rd.Chance(30) {
			return tr{kind: 'x'}
		}
		return tr{kind: 'r', arg: rd.Bytes(rd.Intn(10))}
	default:
		return tr{kind: 'p', arg: []byte{0xff, 0xff, 0xff, 0xff}}
	}
}

func randTrs(rd *core.Rand, n int, allowFail bool) []tr {
	k := n
	if rd.Chance(20) && n > 0 {
		k = rd.Intn(n) // shorter list: remaining columns are kept
	}
	ts := make([]tr, k)
	for i := range ts {
		ts[i] = randTr(rd, allowFail)
	}
	return ts
}

// expected row after the transformation; ok=false when some applied transformation fails
func mapRow(r Row, ts []tr) (Row, bool) {
	out := Row{}
	for i, c := range r {
		if c == nil {
			out = append(out, nil)
			continue
		}
		d, err := applyTrs(ts, i, c)
		if err != nil {
			return nil, false
		}
		if d == nil {
			d = []byte{}
		}
		out = append(out, d)
	}
	return out, true
}

func trClass(ts []tr, r Row) string {
	grow, shrink, same := false, false, false
	for i, c := range r {
		if c == nil || i >= len(ts) {
			continue
		}
		d, err := ts[i].apply(c)
		if err != nil {
			return "tr:fail"
		}
		switch {
		case len(d) > len(c):
			grow = true
		case len(d) < len(c):
			shrink = true
		default:
			same = true
		}
	}
	s := "tr:"
	if grow {
		s += "grow"
	}
	if shrink {
		s += "shrink"
	}
	if same {
		s += "same"
	}
	return s
}

func runPg(r *core.Run) {
	rd := r.Rand
	th := r.Thorough()

	// ---- 1. relay identity: every type byte, bodies around the boundaries, with trailing bytes ----
	for t := 1; t < 256; t++ {
		lens := []int{0, rd.Intn(40)}
		if t%16 == 0 || th {
			lens = append(lens, core.Pick(rd, []int{255, 256, 65535, 65536, 70000}))
		}
		for _, l := range lens {
			body := rd.Bytes(l)
			msg := pgMsg(byte(t), body)
			suffix := rd.Bytes(rd.Intn(7))
			for _, mode := range []string{"general", "db"} {
				r.Begin(fmt.Sprintf("pg-relay-%s-%d-%d", mode, t, l), true, "stream:structured", "pg:relay-"+mode)
				got := r.Do("C12.pg.read " + mode + " " + core.Hex(append(append([]byte{}, msg...), suffix...)))
				want := fmt.Sprintf("ok %d %s %s %d %s", t, core.Hex(msg[1:5]), core.Hex(body), len(suffix), core.Hex(msg))
				r.Check(got == want, "pg-relay-identity", fmt.Sprintf("%s message type %d with %d-byte body is not relayed byte-identically (got %.80s)", mode, t, l, got))
			}
		}
	}
	// start-up packets
	startups := [][]byte{
		{0, 0, 0, 8, 4, 210, 22, 47},                                // SSLRequest
		{0, 0, 0, 8, 4, 210, 22, 48},                                // GSSENCRequest
		append([]byte{0, 0, 0, 16, 4, 210, 22, 46}, rd.Bytes(8)...), // CancelRequest
	}
	for i := 0; i < r.N(20, 300); i++ {
		params := []byte("user\x00" + string(rd.Bytes(rd.Intn(12))) + "\x00database\x00x\x00\x00")
		if rd.Chance(20) {
			params = []byte{0}
		}
		m := append(be32(8+len(params)), 0, 3, 0, 0)
		startups = append(startups, append(m, params...))
	}
	for i, m := range startups {
		suffix := rd.Bytes(rd.Intn(5))
		r.Begin(fmt.Sprintf("pg-startup-%d-%s", i, core.Hex(m)), true, "stream:structured", "pg:relay-startup")
		got := r.Do("C12.pg.read startup " + core.Hex(append(append([]byte{}, m...), suffix...)))
		want := fmt.Sprintf("ok 0 %s %s %d %s", core.Hex(m[:4]), core.Hex(m[4:]), len(suffix), core.Hex(m))
		r.Check(got == want, "pg-relay-identity", fmt.Sprintf("start-up packet %s is not relayed byte-identically (got %.80s)", core.Hex(m), got))
	}

	// ---- 2. malformed framing: short headers, length fields below 4, truncated bodies ----
	for i := 0; i < r.N(150, 5000); i++ {
		var s []byte
		switch rd.Intn(5) {
		case 0:
			s = rd.Bytes(rd.Intn(9))
		case 1: // declared length 0..3 (negative data length)
			s = append([]byte{byte(1 + rd.Intn(255))}, be32(rd.Intn(4))...)
			s = append(s, rd.Bytes(rd.Intn(4))...)
		case 2: // truncated body
			body := rd.Bytes(1 + rd.Intn(30))
			m := pgMsg(byte(1+rd.Intn(255)), body)
			s = m[:5+rd.Intn(len(body))]
		case 3: // declared length larger than the stream (capped: the real code allocates it)
			s = append([]byte{byte(1 + rd.Intn(255))}, be32(4+rd.Intn(1<<16))...)
			s = append(s, rd.Bytes(rd.Intn(10))...)
		default: // start-up look-alikes
			s = append(be32(rd.Intn(12)), core.Pick(rd, [][]byte{{0, 3, 0, 0}, {4, 210, 22, 47}, {4, 210, 22, 46}, {4, 210, 22, 48}, {0, 3, 0, 1}})...)
			s = append(s, rd.Bytes(rd.Intn(6))...)
		}
		s = s[:len(s):len(s)]
		if !pgFrameAllocOK(s) {
			continue // the real code would allocate the declared length (up to 4 GiB) before failing
		}
		for _, mode := range []string{"general", "db", "startup"} {
			r.Begin(fmt.Sprintf("pg-malframe-%s-%s", mode, core.Hex(s)), len(s) > 0, "stream:malformed", "pg:malformed-frame")
			line := "C12.pg.read " + mode + " " + core.Hex(s)
			noPanic(r, "pg-read-panic", line, r.Do(line))
		}
	}

	// ---- 3. DataRow rewriting: NULL / empty / changed / unchanged columns, both formats ----
	for i := 0; i < r.N(700, 30000); i++ {
		big := th && i%500 == 0
		row := randRow(rd, big)
		ts := randTrs(rd, len(row), true)
		var fmts []uint16
		switch rd.Intn(4) {
		case 0:
		case 1:
			fmts = []uint16{uint16(rd.Intn(2))}
		default:
			for range row {
				fmts = append(fmts, uint16(rd.Intn(2)))
			}
			if len(fmts) == 1 && rd.Bool() {
				fmts = nil
			}
		}
		body := pgEncodeRow(row)
		msg := pgMsg('D', body)
		want, ok := mapRow(row, ts)
		r.Begin(fmt.Sprintf("pg-row-%s-%s-%s", showRow(row), showTrs(ts), showNats(fmts)), len(row) > 0, "stream:structured", "pg:row", trClass(ts, row), fmt.Sprintf("cols:%d", len(row)))
		got := r.Do(fmt.Sprintf("C12.pg.row %s %s %s", showNats(fmts), showTrs(ts), core.Hex(msg)))
		if !ok {
			r.Check(got == core.Err, "pg-row-fail", "a failing column transformation does not fail the row: "+got)
			continue
		}
		if !r.Check(len(got) > 3 && got[:3] == "ok ", "pg-row-outcome", fmt.Sprintf("row %s with %s: %s", showRow(row), showTrs(ts), got)) {
			continue
		}
		out := core.UnHex(got[3:])
		typ, declared, nb, framed := pgSplit(out)
		r.Check(framed && typ == 'D', "pg-row-length", fmt.Sprintf("rewritten DataRow declares length %d but carries %d bytes after the type byte", declared, len(out)-1))
		dec, okd := pgDecodeRow(nb)
		r.Check(okd && rowsEqual(dec, want), "pg-row-wellformed", fmt.Sprintf("rewritten DataRow does not decode to the transformed row: row=%s tr=%s got=%s want=%s", showRow(row), showTrs(ts), showRow(dec), showRow(want)))
		// independent re-parse by the Lean specification codec
		spec := r.ModelOnly("C12.pg.row.dec " + core.Hex(nb))
		r.Check(spec == "some "+showRow(want), "pg-row-spec", "Lean specification decoder disagrees on the rewritten row: "+spec)
		// all-keep transformation on a row without changes must be byte-identical
		if allKeep(ts) {
			r.Check(bytes.Equal(out, msg), "pg-row-identity", "identity transformation changed the DataRow bytes")
		}
	}
	// specification codec round trip (model only; ties the Go generator's encoder to the Lean one)
	for i := 0; i < r.N(100, 2000); i++ {
		row := randRow(rd, false)
		r.Begin("pg-rowspec-"+showRow(row), len(row) > 0, "stream:structured", "pg:row-spec")
		enc := r.ModelOnly("C12.pg.row.enc " + showRow(row))
		r.Check(enc == core.Hex(pgEncodeRow(row)), "pg-rowspec-enc", "Lean encodeRow and the harness encoder disagree")
	}

	// ---- 4. malformed DataRow bodies ----
	for i := 0; i < r.N(300, 10000); i++ {
		row := randRow(rd, false)
		body := pgEncodeRow(row)
		switch rd.Intn(6) {
		case 0: // truncate
			body = body[:rd.Intn(len(body)+1)]
		case 1: // wrong count
			c := int(body[0])<<8 | int(body[1])
			c += rd.Intn(5) - 2
			if c < 0 {
				c = 0
			}
			body[0], body[1] = byte(c>>8), byte(c)
		case 2: // flip a byte
			if len(body) > 0 {
				body[rd.Intn(len(body))] ^= byte(1 << rd.Intn(8))
			}
		case 3: // trailing bytes
			body = append(body, rd.Bytes(1+rd.Intn(6))...)
		case 4: // oversize length (capped)
			if len(body) >= 6 {
				copy(body[2:6], be32(len(body)+rd.Intn(1<<12)))
			}
		default:
			body = rd.Bytes(rd.Intn(12))
		}
		if !pgRowAllocOK(body) {
			continue // a declared column length near 2^31 makes the real code allocate that much
		}
		msg := pgMsg('D', body)
		ts := randTrs(rd, len(row), false)
		var fmts []uint16
		if rd.Chance(30) {
			fmts = []uint16{uint16(rd.Intn(3))}
		}
		r.Begin(fmt.Sprintf("pg-malrow-%s-%s", core.Hex(body), showTrs(ts)), true, "stream:malformed", "pg:malformed-row")
		line := fmt.Sprintf("C12.pg.row %s %s %s", showNats(fmts), showTrs(ts), core.Hex(msg))
		noPanic(r, "pg-row-panic", line, r.Do(line))
	}

	// ---- 5. simple Query replacement ----
	for i := 0; i < r.N(100, 3000); i++ {
		q := []byte(core.Pick(rd, []string{"select 1", "", "insert into t values ('x')", "select * from t where a = 'ÿ'"}))
		if rd.Chance(30) {
			q = bytes.ReplaceAll(rd.Bytes(rd.Intn(60)), []byte{0}, []byte{1})
		}
		nq := bytes.ReplaceAll(rd.Bytes(core.Pick(rd, []int{0, 1, 5, 40, 300, 70000})), []byte{0}, []byte{1})
		msg := pgMsg('Q', append(append([]byte{}, q...), 0))
		r.Begin(fmt.Sprintf("pg-query-%s-%d", core.Hex(q), len(nq)), true, "stream:structured", "pg:query-replace")
		got := r.Do("C12.pg.query.replace " + core.Hex(msg) + " " + core.Hex(nq))
		want := core.OkHex(pgMsg('Q', append(append([]byte{}, nq...), 0)))
		r.Check(got == want, "pg-query-replace", "rewritten Query message is not a well-formed Query carrying the new text")
	}
}

func allKeep(ts []tr) bool {
	for _, t := range ts {
		if t.kind != 'k' {
			return false
		}
	}
	return true
}

const pgAllocCap = 1 << 20

// pgFrameAllocOK: the length field at offset 1 (general/db) and at offset 0 (start-up) stay below the cap.
func pgFrameAllocOK(s []byte) bool {
	for _, off := range []int{0, 1} {
		if len(s) >= off+4 {
			l := uint32(s[off])<<24 | uint32(s[off+1])<<16 | uint32(s[off+2])<<8 | uint32(s[off+3])
			if l > pgAllocCap {
				return false
			}
		}
	}
	return true
}

// pgRowAllocOK walks the body like parseColumns does and rejects declared column lengths above the cap.
func pgRowAllocOK(b []byte) bool {
	if len(b) < 2 {
		return true
	}
	n := int(b[0])<<8 | int(b[1])
	b = b[2:]
	for i := 0; i < n; i++ {
		if len(b) < 4 {
			return true
		}
		l := uint32(b[0])<<24 | uint32(b[1])<<16 | uint32(b[2])<<8 | uint32(b[3])
		b = b[4:]
		if l == 0xffffffff {
			continue
		}
		if l > pgAllocCap {
			return false
		}
		if uint32(len(b)) < l {
			return true
		}
		b = b[l:]
	}
	return true
}
