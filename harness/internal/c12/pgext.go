package c12

// PostgreSQL extended protocol (Parse / Bind) ops and generators.

import (
	"bytes"
	"context"
	"fmt"

	pg_query "github.com/cossacklabs/pg_query_go/v5"

	"github.com/cossacklabs/acra/decryptor/base"
	pg "github.com/cossacklabs/acra/decryptor/postgresql"
	encpg "github.com/cossacklabs/acra/encryptor/postgresql"

	"verifharness/internal/core"
)

// bindObserver applies the per-parameter transformation in OnBind (what the query encryptors do there).
type bindObserver struct{ ts []tr }

func (o *bindObserver) ID() string { return "verif-bind" }
func (o *bindObserver) OnQuery(ctx context.Context, q encpg.OnQueryObject) (encpg.OnQueryObject, bool, error) {
	return q, false, nil
}
func (o *bindObserver) OnBind(ctx context.Context, stmt *pg_query.ParseResult, values []base.BoundValue) ([]base.BoundValue, bool, error) {
	for i, v := range values {
		d, err := v.GetData(nil)
		if err != nil {
			return values, false, err
		}
		if d == nil {
			continue
		}
		out, err := applyTrs(o.ts, i, d)
		if err != nil {
			return values, false, err
		}
		if out == nil {
			out = []byte{}
		}
		if err := v.SetData(out, nil); err != nil {
			return values, false, err
		}
	}
	return values, true, nil
}

func showByteList(xs [][]byte) string {
	s := make([]string, len(xs))
	for i, x := range xs {
		s[i] = core.Hex(x)
	}
	return joinList(s)
}

func init() {
	core.Register("C12.pg.parse.fields", func(a []string) string {
		p, err := pg.NewParsePacket(core.UnHex(a[0]))
		if err != nil {
			return core.Err
		}
		name, query, num, params := p.VerifFields()
		return fmt.Sprintf("ok %s %s %s %s %s %d", core.Hex(name), core.Hex(query), core.Hex(num), showByteList(params), core.Hex(p.Marshal()), p.Length())
	})
	core.Register("C12.pg.parse.replace", func(a []string) string {
		ph, _ := newPgHandler("general", core.UnHex(a[0]))
		if err := ph.ReadClientPacket(); err != nil {
			return core.Err
		}
		if !ph.IsParse() {
			panic("harness: C12.pg.parse.replace needs a Parse packet")
		}
		ph.ReplaceQuery(string(core.UnHex(a[1])))
		out, _ := ph.Marshal()
		return core.OkHex(out)
	})
	core.Register("C12.pg.bind.fields", func(a []string) string {
		p, err := pg.NewBindPacket(core.UnHex(a[0]))
		if err != nil {
			return core.Err
		}
		portal, stmt, pf, pv, rf := p.VerifFields()
		return fmt.Sprintf("ok %s %s %s %s %s", core.Hex([]byte(portal)), core.Hex([]byte(stmt)), showNats(pf), showRow(Row(pv)), showNats(rf))
	})
	// Bind through the real handleClientPacket → handleBindPacket with a transforming OnBind observer;
	// the statement is registered by a preceding Parse message.
	core.Register("C12.pg.bind", func(a []string) string {
		ts := parseTrs(a[0])
		ph, _ := newPgHandler("general", core.UnHex(a[1]))
		if err := ph.ReadClientPacket(); err != nil {
			return core.Err
		}
		if !ph.IsBind() {
			panic("harness: C12.pg.bind needs a Bind packet")
		}
		proxy, ctx := newPgProxy("")
		proxy.AddQueryObserver(&bindObserver{ts})
		// register the statement the Bind refers to
		stmtName := ""
		if bp, err := pg.NewBindPacket(ph.VerifBody()); err == nil {
			stmtName = bp.StatementName()
		}
		parse := pgMsg('P', pgEncodeParse([]byte(stmtName), []byte("select 1"), nil))
		pph, _ := newPgHandler("general", parse)
		if err := pph.ReadClientPacket(); err != nil {
			panic("harness: parse: " + err.Error())
		}
		if _, err := proxy.VerifHandleClientPacket(ctx, pph, quietLogger); err != nil {
			panic("harness: parse handling: " + err.Error())
		}
		if _, err := proxy.VerifHandleClientPacket(ctx, ph, quietLogger); err != nil {
			return core.Err
		}
		out, _ := ph.Marshal()
		return core.OkHex(out)
	})
}

func pgEncodeParse(name, query []byte, oids []uint32) []byte {
	out := append(append([]byte{}, name...), 0)
	out = append(append(out, query...), 0)
	out = append(out, be16(len(oids))...)
	for _, o := range oids {
		out = append(out, be32(int(o))...)
	}
	return out
}

func pgEncodeBind(portal, stmt []byte, pf []uint16, pv Row, rf []uint16) []byte {
	out := append(append([]byte{}, portal...), 0)
	out = append(append(out, stmt...), 0)
	out = append(out, be16(len(pf))...)
	for _, f := range pf {
		out = append(out, be16(int(f))...)
	}
	out = append(out, be16(len(pv))...)
	for _, v := range pv {
		if v == nil {
			out = append(out, 0xff, 0xff, 0xff, 0xff)
			continue
		}
		out = append(out, be32(len(v))...)
		out = append(out, v...)
	}
	out = append(out, be16(len(rf))...)
	for _, f := range rf {
		out = append(out, be16(int(f))...)
	}
	return out
}

func noZero(b []byte) []byte { return bytes.ReplaceAll(b, []byte{0}, []byte{1}) }

// canonical parameter formats as SetParameters writes them
func canonFormats(pf []uint16, n int) []uint16 {
	if n == 0 {
		return nil
	}
	eff := make([]uint16, n)
	for i := range eff {
		switch {
		case len(pf) == 0:
			eff[i] = 0
		case len(pf) == 1:
			eff[i] = pf[0]
		default:
			eff[i] = pf[i]
		}
	}
	same := true
	for _, f := range eff {
		if f != eff[0] {
			same = false
		}
	}
	if same {
		return eff[:1]
	}
	return eff
}

func runPgExt(r *core.Run) {
	rd := r.Rand
	// ---- Parse ----
	for i := 0; i < r.N(300, 10000); i++ {
		name := noZero(rd.Bytes(rd.Intn(8)))
		query := noZero(rd.Bytes(rd.Intn(60)))
		var oids []uint32
		for k := rd.Intn(5); k > 0; k-- {
			oids = append(oids, core.Pick(rd, []uint32{0, 17, 20, 23, 25, 1043, 0xffffffff}))
		}
		body := pgEncodeParse(name, query, oids)
		r.Begin("pg-parse-"+core.Hex(body), true, "stream:structured", "pg:parse")
		got := r.Do("C12.pg.parse.fields " + core.Hex(body))
		r.Check(len(got) > 3 && hasSuffix(got, fmt.Sprintf(" %s %d", core.Hex(body), len(body))), "pg-parse-identity", "Parse packet does not marshal back to its bytes: "+got)
		nq := noZero(rd.Bytes(core.Pick(rd, []int{0, 1, len(query), len(query) + 1, 200, 70000})))
		msg := pgMsg('P', body)
		got = r.Do("C12.pg.parse.replace " + core.Hex(msg) + " " + core.Hex(nq))
		want := pgMsg('P', pgEncodeParse(name, nq, oids))
		r.Check(got == core.OkHex(want), "pg-parse-replace", "rewritten Parse message is not the well-formed Parse with the new query and the same name/parameter types")
		spec := r.ModelOnly("C12.pg.parse.dec " + core.Hex(want[5:]))
		r.Check(len(spec) > 5 && spec[:5] == "some ", "pg-parse-spec", "Lean specification decoder rejects the rewritten Parse body: "+spec)
	}
	for i := 0; i < r.N(300, 10000); i++ {
		body := pgEncodeParse(noZero(rd.Bytes(rd.Intn(4))), noZero(rd.Bytes(rd.Intn(10))), []uint32{23, 25}[:rd.Intn(3)])
		switch rd.Intn(4) {
		case 0:
			body = body[:rd.Intn(len(body)+1)]
		case 1:
			body[rd.Intn(len(body))] ^= byte(1 << rd.Intn(8))
		case 2:
			body = append(body, rd.Bytes(1+rd.Intn(5))...)
		default:
			body = rd.Bytes(rd.Intn(10))
		}
		body = body[:len(body):len(body)]
		r.Begin("pg-malparse-"+core.Hex(body), true, "stream:malformed", "pg:malformed-parse")
		noPanic(r, "pg-parse-panic", "C12.pg.parse.fields "+core.Hex(body), r.Do("C12.pg.parse.fields "+core.Hex(body)))
	}
	// ---- Bind ----
	for i := 0; i < r.N(400, 15000); i++ {
		portal := noZero(rd.Bytes(rd.Intn(5)))
		stmt := noZero(rd.Bytes(rd.Intn(5)))
		pv := randRow(rd, false)
		var pf []uint16
		switch rd.Intn(3) {
		case 1:
			pf = []uint16{uint16(rd.Intn(2))}
		case 2:
			for range pv {
				pf = append(pf, uint16(rd.Intn(2)))
			}
		}
		var rf []uint16
		for k := rd.Intn(4); k > 0; k-- {
			rf = append(rf, uint16(rd.Intn(2)))
		}
		body := pgEncodeBind(portal, stmt, pf, pv, rf)
		r.Begin("pg-bind-"+core.Hex(body), true, "stream:structured", "pg:bind")
		r.Do("C12.pg.bind.fields " + core.Hex(body))
		ts := randTrs(rd, len(pv), true)
		msg := pgMsg('B', body)
		got := r.Do(fmt.Sprintf("C12.pg.bind %s %s", showTrs(ts), core.Hex(msg)))
		want, ok := mapRow(pv, ts)
		if !ok {
			// a failing OnBind leaves the packet unchanged (the database will answer)
			r.Check(got == core.OkHex(msg), "pg-bind-fail-unchanged", "Bind packet changed although the parameter processing failed")
			continue
		}
		if len(pv) == 0 {
			continue
		}
		wantMsg := pgMsg('B', pgEncodeBind(portal, stmt, canonFormats(pf, len(pv)), want, rf))
		r.Check(got == core.OkHex(wantMsg), "pg-bind-wellformed", fmt.Sprintf("rewritten Bind message is not the well-formed Bind with the transformed parameters: params=%s tr=%s got=%.200s", showRow(pv), showTrs(ts), got))
	}
	for i := 0; i < r.N(300, 10000); i++ {
		body := pgEncodeBind(noZero(rd.Bytes(rd.Intn(3))), noZero(rd.Bytes(rd.Intn(3))), []uint16{0, 1}[:rd.Intn(3)], randRow(rd, false), []uint16{1}[:rd.Intn(2)])
		switch rd.Intn(4) {
		case 0:
			body = body[:rd.Intn(len(body)+1)]
		case 1:
			body[rd.Intn(len(body))] ^= byte(1 << rd.Intn(8))
		case 2:
			body = append(body, rd.Bytes(1+rd.Intn(5))...)
		default:
			body = rd.Bytes(rd.Intn(14))
		}
		body = body[:len(body):len(body)]
		r.Begin("pg-malbind-"+core.Hex(body), true, "stream:malformed", "pg:malformed-bind")
		noPanic(r, "pg-bind-panic", "C12.pg.bind.fields "+core.Hex(body), r.Do("C12.pg.bind.fields "+core.Hex(body)))
	}
}
