package c12

// Deepening of C12: the MySQL column definition, the COM_STMT_EXECUTE parameter block and the PostgreSQL
// RowDescription / ParameterDescription rewrite are compared with their Lean models (r.Do) in addition to the
// direct well-formedness oracles; malformed streams for each of them.

import (
	"bytes"
	"context"
	"fmt"
	"strings"

	"github.com/jackc/pgx/v5/pgproto3"

	"github.com/cossacklabs/acra/cmd/acra-server/common"
	"github.com/cossacklabs/acra/decryptor/base"
	my "github.com/cossacklabs/acra/decryptor/mysql"
	mybase "github.com/cossacklabs/acra/decryptor/mysql/base"
	pg "github.com/cossacklabs/acra/decryptor/postgresql"
	encryptor "github.com/cossacklabs/acra/encryptor/base"
	"github.com/cossacklabs/acra/encryptor/base/config"

	"verifharness/internal/core"
)

func showOptBytes(b []byte) string {
	if b == nil {
		return "n"
	}
	return core.Hex(b)
}

// settingFor returns the column setting of column c of table t with the given data_type ("u" = none declared).
var settingCache = map[string]config.ColumnEncryptionSetting{}

func settingFor(dt string, mysql bool) config.ColumnEncryptionSetting {
	key := fmt.Sprintf("%s/%v", dt, mysql)
	if s, ok := settingCache[key]; ok {
		return s
	}
	yaml := "schemas:\n  - table: t\n    columns:\n      - id\n      - c\n    encrypted:\n      - column: c\n"
	if dt != "u" {
		yaml += "        data_type: " + dt + "\n"
	}
	store, err := config.MapTableSchemaStoreFromConfig([]byte(yaml), mysql)
	if err != nil {
		panic("harness: schema: " + err.Error())
	}
	s := store.GetTableSchema("t").GetColumnEncryptionSettings("c")
	settingCache[key] = s
	return s
}

func pgSessionCtx() (*common.ClientSession, context.Context) {
	ctx := context.Background()
	session, err := common.NewClientSession(ctx, nil, nil)
	if err != nil {
		panic("harness: " + err.Error())
	}
	return session, base.SetClientSessionToContext(ctx, session)
}

func init() {
	// C12.my.coldef.fields <maria> <payload>: the fields ParseResultField extracts
	core.Register("C12.my.coldef.fields", func(a []string) string {
		payload := core.UnHex(a[1])
		f, err := my.ParseResultField(my.VerifNewPacket([]byte{0, 0, 0, 0}, payload), a[0] == "1")
		if err != nil {
			return core.Err
		}
		return fmt.Sprintf("ok %s %s %s %s %s %s %d %d %d %d %d %d %s", showOptBytes(f.Schema), showOptBytes(f.Table), showOptBytes(f.OrgTable),
			showOptBytes(f.Name), showOptBytes(f.OrgName), core.Hex(f.ExtendedTypeInfo), f.Charset, f.ColumnLength, byte(f.Type), uint16(f.Flag), f.Decimal,
			f.DefaultValueLength, showOptBytes(f.DefaultValue))
	})
	// C12.my.execute.params <n> <payload>: the bound values GetBindParameters extracts (type:text; f = a FLOAT/DOUBLE text)
	core.Register("C12.my.execute.params", func(a []string) string {
		payload := append([]byte{}, core.UnHex(a[1])...)
		payload = payload[:len(payload):len(payload)]
		p := my.VerifNewPacket([]byte{0, 0, 0, 0}, payload)
		vals, err := p.GetBindParameters(core.Atoi(a[0]))
		if err != nil {
			return core.Err
		}
		var out []string
		for _, v := range vals {
			if v == nil {
				return "nil-values"
			}
			d, _ := v.GetData(nil)
			t := v.GetType()
			if t == 4 || t == 5 {
				if d == nil {
					out = append(out, fmt.Sprintf("%d:n", t))
				} else {
					out = append(out, fmt.Sprintf("%d:f", t))
				}
				continue
			}
			out = append(out, fmt.Sprintf("%d:%s", t, showOptBytes(d)))
		}
		return "ok " + joinList(out)
	})
	// C12.pg.rowdesc <items> <message>: a RowDescription message through the real handleRowDescription; items is `none`
	// (no query items registered) or one token per column: n (no setting), u (setting without data_type), int32|int64|str|bytes
	core.Register("C12.pg.rowdesc", func(a []string) string {
		ph, _ := newPgHandler("db", core.UnHex(a[1]))
		if err := ph.ReadPacket(); err != nil {
			return core.Err
		}
		session, ctx := pgSessionCtx()
		if a[0] != "none" {
			items := []*encryptor.QueryDataItem{}
			for _, t := range splitList(a[0]) {
				if t == "n" {
					items = append(items, nil)
				} else {
					items = append(items, encryptor.NewQueryDataItem(settingFor(t, config.UsePostgreSQL), "t", "c", ""))
				}
			}
			encryptor.SaveQueryDataItemsToClientSession(session, items)
		}
		if err := pg.VerifHandleRowDescription(ctx, ph, quietLogger); err != nil {
			return core.Err
		}
		out, _ := ph.Marshal()
		return core.OkHex(out)
	})
	core.Register("C12.pg.paramdesc", func(a []string) string {
		ph, _ := newPgHandler("db", core.UnHex(a[1]))
		if err := ph.ReadPacket(); err != nil {
			return core.Err
		}
		session, ctx := pgSessionCtx()
		if a[0] == "none" {
			session.SetData(encryptor.PlaceholdersSettingKey, "not a map") // PlaceholderSettingsFromClientSession → nil
		} else {
			m := map[int]config.ColumnEncryptionSetting{}
			for i, t := range splitList(a[0]) {
				if t != "n" {
					m[i] = settingFor(t, config.UsePostgreSQL)
				}
			}
			session.SetData(encryptor.PlaceholdersSettingKey, m)
		}
		if err := pg.VerifHandleParameterDescription(ctx, ph, quietLogger); err != nil {
			return core.Err
		}
		out, _ := ph.Marshal()
		return core.OkHex(out)
	})
	// the pgproto3 decoders Acra uses, as a specification-level re-parse
	core.Register("C12.pg.rowdesc.dec", func(a []string) string {
		var rd pgproto3.RowDescription
		if err := rd.Decode(core.UnHex(a[0])); err != nil {
			return "none"
		}
		var fs []string
		for _, f := range rd.Fields {
			fs = append(fs, fmt.Sprintf("%s:%d,%d,%d,%d,%d,%d", core.Hex(f.Name), f.TableOID, f.TableAttributeNumber, f.DataTypeOID,
				uint16(f.DataTypeSize), uint32(f.TypeModifier), uint16(f.Format)))
		}
		if len(fs) == 0 {
			return "some _"
		}
		return "some " + strings.Join(fs, ";")
	})
	core.Register("C12.pg.paramdesc.dec", func(a []string) string {
		var pd pgproto3.ParameterDescription
		if err := pd.Decode(core.UnHex(a[0])); err != nil {
			return "none"
		}
		var os []string
		for _, o := range pd.ParameterOIDs {
			os = append(os, fmt.Sprint(o))
		}
		return "some " + joinList(os)
	})
}

// ---------- column definitions ----------

type colSpec struct {
	strs     [5][]byte // schema, table, org_table, name, org_name (nil = NULL string)
	ext      []byte    // MariaDB extended type info content (nil = capability off)
	charset  uint16
	length   uint32
	typ      byte
	flags    uint16
	decimals byte
	dflt     []byte // nil = no default block
}

func (c colSpec) encode() []byte {
	out := mybase.PutLengthEncodedString([]byte("def"))
	for _, s := range c.strs {
		out = append(out, mybase.PutLengthEncodedString(s)...)
	}
	if c.ext != nil {
		out = append(out, mybase.PutLengthEncodedString(c.ext)...)
	}
	out = append(out, 0x0c, byte(c.charset), byte(c.charset>>8), byte(c.length), byte(c.length>>8), byte(c.length>>16), byte(c.length>>24),
		c.typ, byte(c.flags), byte(c.flags>>8), c.decimals, 0, 0)
	if c.dflt != nil {
		out = append(out, mybase.PutLengthEncodedString(c.dflt)...)
	}
	return out
}

var myDeclared = map[string]struct {
	typ     byte
	charset uint16
	length  uint32
}{"int32": {3, 63, 9}, "int64": {8, 63, 20}, "str": {254, 8, 255}, "bytes": {252, 63, 65535}}

func (c colSpec) retyped(dt string) colSpec {
	d, ok := myDeclared[dt]
	if !ok || string(c.strs[1]) != "t" || string(c.strs[3]) != "c" || c.strs[1] == nil || c.strs[3] == nil {
		return c
	}
	if dt != "bytes" {
		c.flags &^= 16
	}
	c.typ, c.charset, c.length, c.decimals = d.typ, d.charset, d.length, 0
	return c
}

func randColSpec(rd *core.Rand) colSpec {
	c := colSpec{}
	c.strs[0] = rd.Bytes(core.Pick(rd, []int{0, 3, 250, 251, 300}))
	c.strs[1] = []byte("t")
	c.strs[2] = rd.Bytes(rd.Intn(6))
	c.strs[3] = []byte("c")
	c.strs[4] = rd.Bytes(rd.Intn(6))
	if rd.Chance(15) {
		c.strs[3] = []byte("other")
	}
	if rd.Chance(10) {
		c.strs[1] = []byte("u")
	}
	if rd.Chance(10) {
		c.strs[rd.Intn(5)] = nil // a NULL string
	}
	c.charset = uint16(rd.Intn(300))
	c.length = uint32(rd.U64())
	c.typ = core.Pick(rd, []byte{252, 253, 254, 251, 250, 249, 15, 3, 8})
	c.flags = uint16(rd.U64())
	c.decimals = byte(rd.Intn(32))
	if rd.Chance(30) {
		c.dflt = rd.Bytes(core.Pick(rd, []int{0, 1, 3, 250, 251, 300}))
	}
	return c
}

func runMyColDefDeep(r *core.Run) {
	rd := r.Rand
	dts := []string{"int32", "int64", "str", "bytes", "none"}
	// structured: every optional part (MariaDB extended type info, default value, NULL strings)
	for i := 0; i < r.N(250, 6000); i++ {
		c := randColSpec(rd)
		maria := rd.Chance(40)
		if maria {
			c.ext = core.Pick(rd, [][]byte{{}, {0, 4, 'j', 's', 'o', 'n'}, {0, 4, 'u', 'u', 'i', 'd', 1, 3, 'f', 'm', 't'}, rd.Bytes(249), rd.Bytes(250)})
		}
		dt := core.Pick(rd, dts)
		payload := c.encode()
		seq := rd.Intn(256)
		m := "0"
		if maria {
			m = "1"
		}
		r.Begin(fmt.Sprintf("my-coldef2-%s-%s-%s", dt, m, core.Hex(payload)), true, "stream:structured", "my:coldef", "type:"+dt, "maria:"+m,
			fmt.Sprintf("default:%v", c.dflt != nil))
		got := r.Do(fmt.Sprintf("C12.my.coldef %s %d %s %s", dt, seq, core.Hex(payload), m))
		want := myEncodePayload(seq, c.retyped(dt).encode())
		r.Check(got == core.OkHex(want), "my-coldef-wellformed", fmt.Sprintf("column definition (maria=%s, default=%v) for data_type %s is not the well-formed definition with the declared type: got %.160s want %.160s", m, c.dflt != nil, dt, got, core.Hex(want)))
		if dt == "none" || string(c.strs[3]) != "c" || string(c.strs[1]) != "t" {
			r.Check(got == core.OkHex(myEncodePayload(seq, payload)), "my-coldef-identity", "a column definition without a typed setting is not relayed byte-identically")
		}
		// the fields the parser sees are the fields of the specification
		f := r.Do(fmt.Sprintf("C12.my.coldef.fields %s %s", m, core.Hex(payload)))
		ext := "-"
		if maria && len(c.ext) > 0 {
			ext = core.Hex(mybase.PutLengthEncodedString(c.ext))
		}
		dl := 0
		if c.dflt != nil {
			dl = len(c.dflt)
		}
		wantF := fmt.Sprintf("ok %s %s %s %s %s %s %d %d %d %d %d %d %s", showOptBytes(c.strs[0]), showOptBytes(c.strs[1]), showOptBytes(c.strs[2]),
			showOptBytes(c.strs[3]), showOptBytes(c.strs[4]), ext, c.charset, c.length, c.typ, c.flags, c.decimals, dl, showOptBytes(c.dflt))
		r.Check(f == wantF, "my-coldef-parse", fmt.Sprintf("ParseResultField does not extract the fields of the definition: got %.200s want %.200s", f, wantF))
	}
	// non-canonical but parseable encodings (another catalog string, non-minimal length prefixes): compared with the model;
	// the rebuilt payload has another length than the header (kept as received) declares – known finding my-coldef-stale-header
	for i := 0; i < r.N(60, 1500); i++ {
		c := randColSpec(rd)
		c.strs[1], c.strs[3] = []byte("t"), []byte("c")
		c.strs[0] = rd.Bytes(rd.Intn(5))
		c.dflt = nil
		good := c.encode()
		var payload []byte
		switch rd.Intn(3) {
		case 0: // catalog of another length
			payload = append(mybase.PutLengthEncodedString(rd.Bytes(core.Pick(rd, []int{0, 2, 4, 7}))), good[4:]...)
		case 1: // schema with a 3-byte length prefix
			payload = append(append([]byte{3, 'd', 'e', 'f', 0xfc, byte(len(c.strs[0])), 0}, c.strs[0]...), good[4+1+len(c.strs[0]):]...)
		default: // schema with a 9-byte length prefix
			payload = append(append([]byte{3, 'd', 'e', 'f', 0xfe, byte(len(c.strs[0])), 0, 0, 0, 0, 0, 0, 0}, c.strs[0]...), good[4+1+len(c.strs[0]):]...)
		}
		dt := core.Pick(rd, dts[:4])
		seq := rd.Intn(256)
		r.Begin("my-coldef-noncanon-"+core.Hex(payload), true, "stream:boundary", "my:coldef-noncanonical")
		got := r.Do(fmt.Sprintf("C12.my.coldef %s %d %s", dt, seq, core.Hex(payload)))
		if !r.Check(strings.HasPrefix(got, "ok "), "my-coldef-outcome", "a parseable column definition is rejected: "+got) {
			continue
		}
		out := core.UnHex(got[3:])
		declared := int(out[0]) | int(out[1])<<8 | int(out[2])<<16
		r.Check(declared == len(out)-4, "my-coldef-stale-header", fmt.Sprintf("rewritten column definition declares %d bytes but carries %d (non-canonical encoding received: %s)", declared, len(out)-4, core.Hex(payload)))
	}
	// malformed: truncations at every position, bit flips, random bytes, huge declared lengths – never a panic
	for i := 0; i < r.N(400, 12000); i++ {
		c := randColSpec(rd)
		c.strs[0] = rd.Bytes(rd.Intn(4))
		maria := rd.Bool()
		if maria {
			c.ext = core.Pick(rd, [][]byte{{}, {0, 4, 'j', 's', 'o', 'n'}})
		}
		if c.dflt != nil {
			c.dflt = rd.Bytes(rd.Intn(4))
		}
		p := c.encode()
		switch rd.Intn(6) {
		case 0, 1:
			p = p[:rd.Intn(len(p)+1)]
		case 2:
			p[rd.Intn(len(p))] ^= byte(1 << rd.Intn(8))
		case 3:
			p = append(p, core.Pick(rd, [][]byte{{0xfe, 0xff, 0xff, 0xff, 0xff, 0xff, 0xff, 0xff, 0xff}, {0xfe, 0, 0, 0, 0, 0, 0, 0, 0x80}, {0xfc, 0xff, 0xff}, {0xfb}, {5, 1}})...)
		case 4:
			k := rd.Intn(len(p))
			p = append(append(append([]byte{}, p[:k]...), core.Pick(rd, [][]byte{{0xfe, 0xff, 0xff, 0xff, 0xff, 0xff, 0xff, 0xff, 0xff}, {0xfd, 0xff, 0xff, 0xff}, {0xfb}, {0xfc}})...), p[k:]...)
		default:
			p = rd.Bytes(rd.Intn(24))
		}
		p = append([]byte{}, p...)
		m := "0"
		if maria {
			m = "1"
		}
		r.Begin("my-malcoldef-"+m+"-"+core.Hex(p), len(p) > 0, "stream:malformed", "my:malformed-coldef")
		line := fmt.Sprintf("C12.my.coldef %s %d %s %s", core.Pick(rd, dts), rd.Intn(256), core.Hex(p), m)
		noPanic(r, "my-coldef-panic", line, r.Do(line))
		fl := fmt.Sprintf("C12.my.coldef.fields %s %s", m, core.Hex(p))
		noPanic(r, "my-coldef-panic", fl, r.Do(fl))
	}
}

// ---------- COM_STMT_EXECUTE ----------

func runMyExecuteDeep(r *core.Run) {
	rd := r.Rand
	// parsed parameters: model and code see the same types and text values
	for i := 0; i < r.N(200, 6000); i++ {
		n := 1 + rd.Intn(9)
		types := make([][2]byte, n)
		vals := Row{}
		for j := 0; j < n; j++ {
			t := core.Pick(rd, []byte{1, 2, 3, 8, 9, 13, 4, 5, 6, 253, 254, 252, 15, 0, 246, 12})
			types[j] = [2]byte{t, byte(rd.Intn(2) * 128)}
			switch {
			case rd.Chance(20):
				vals = append(vals, nil)
			case myFixedWidth(int(t)) >= 0:
				v := rd.Bytes(myFixedWidth(int(t)))
				if rd.Chance(30) && len(v) > 0 { // extreme values: minimum, -1, maximum
					v = core.Pick(rd, [][]byte{bytes.Repeat([]byte{0xff}, len(v)), append(bytes.Repeat([]byte{0}, len(v)-1), 0x80), append(bytes.Repeat([]byte{0xff}, len(v)-1), 0x7f), make([]byte, len(v))})
				}
				vals = append(vals, v)
			default:
				vals = append(vals, myRandValue(rd, false))
			}
		}
		payload := myExecute(uint32(rd.U64()), byte(rd.Intn(2)), types, vals)
		if rd.Chance(10) {
			payload[10+(n+7)/8] = byte(rd.Intn(3)) // new-params-bound flag 0 / 1 / 2
		}
		r.Begin("my-execute-params-"+core.Hex(payload), true, "stream:structured", "my:execute-params", fmt.Sprintf("params:%d", n))
		r.Do(fmt.Sprintf("C12.my.execute.params %d %s", n, core.Hex(payload)))
	}
	// malformed: truncations, bit flips, wrong parameter counts – never a panic
	for i := 0; i < r.N(400, 12000); i++ {
		n := 1 + rd.Intn(9)
		types := make([][2]byte, n)
		vals := Row{}
		for j := 0; j < n; j++ {
			t := core.Pick(rd, []byte{1, 2, 3, 8, 4, 5, 6, 253, 252, 7, 17, 200})
			types[j] = [2]byte{t, 0}
			if rd.Chance(20) {
				vals = append(vals, nil)
			} else if w := myFixedWidth(int(t)); w >= 0 {
				vals = append(vals, rd.Bytes(w))
			} else {
				vals = append(vals, rd.Bytes(rd.Intn(5)))
			}
		}
		p := myExecute(7, 0, types, vals)
		k := n
		switch rd.Intn(5) {
		case 0, 1:
			p = p[:rd.Intn(len(p)+1)]
		case 2:
			p[rd.Intn(len(p))] ^= byte(1 << rd.Intn(8))
		case 3:
			k = core.Pick(rd, []int{0, n - 1, n + 1, n + 8, 64, 1000})
			if k < 0 {
				k = 0
			}
		default:
			p = rd.Bytes(rd.Intn(20))
		}
		p = append([]byte{}, p...)
		ts := make([]tr, k)
		for j := range ts {
			ts[j] = core.Pick(rd, []tr{{kind: 'k'}, {kind: 'k'}, {kind: 'e'}, {kind: 'r', arg: []byte("Z")}})
		}
		r.Begin(fmt.Sprintf("my-malexecute-%d-%s", k, core.Hex(p)), len(p) > 0, "stream:malformed", "my:malformed-execute")
		l1 := fmt.Sprintf("C12.my.execute.params %d %s", k, core.Hex(p))
		noPanic(r, "my-execute-panic", l1, r.Do(l1))
		l2 := fmt.Sprintf("C12.my.execute %d %s %d %s", k, showTrs(ts), rd.Intn(256), core.Hex(p))
		noPanic(r, "my-execute-panic", l2, r.Do(l2))
	}
}

// ---------- PostgreSQL RowDescription / ParameterDescription ----------

type pgField struct {
	name     []byte
	tableOID uint32
	attr     uint16
	typeOID  uint32
	size     uint16
	mod      uint32
	format   uint16
}

func pgEncodeRowDesc(fs []pgField) []byte {
	out := be16(len(fs))
	for _, f := range fs {
		out = append(append(out, f.name...), 0)
		out = append(out, be32(int(f.tableOID))...)
		out = append(out, be16(int(f.attr))...)
		out = append(out, be32(int(f.typeOID))...)
		out = append(out, be16(int(f.size))...)
		out = append(out, be32(int(f.mod))...)
		out = append(out, be16(int(f.format))...)
	}
	return out
}

var pgDeclaredOID = map[string]uint32{"int32": 23, "int64": 20, "str": 25, "bytes": 17}

func runPgDescribe(r *core.Run) {
	rd := r.Rand
	itemToks := []string{"n", "n", "u", "int32", "int64", "str", "bytes"}
	randFields := func() []pgField {
		n := rd.Intn(7)
		if rd.Chance(5) {
			n = core.Pick(rd, []int{0, 1, 40})
		}
		fs := make([]pgField, n)
		for i := range fs {
			fs[i] = pgField{name: noZero(rd.Bytes(core.Pick(rd, []int{0, 1, 2, 5, 12, 63}))), tableOID: uint32(rd.U64()), attr: uint16(rd.U64()),
				typeOID: core.Pick(rd, []uint32{17, 23, 25, 20, 1043, 0, 0xffffffff, uint32(rd.U64())}), size: uint16(rd.U64()), mod: uint32(rd.U64()), format: uint16(rd.Intn(2))}
		}
		return fs
	}
	// ---- RowDescription ----
	for i := 0; i < r.N(400, 12000); i++ {
		fs := randFields()
		body := pgEncodeRowDesc(fs)
		msg := pgMsg('T', body)
		items := "none"
		var toks []string
		switch rd.Intn(8) {
		case 0: // no query items registered
		case 1: // a different number of items than columns: nothing may change
			for k := 0; k < len(fs)+1+rd.Intn(2); k++ {
				toks = append(toks, core.Pick(rd, itemToks))
			}
			items = joinList(toks)
		default:
			for range fs {
				toks = append(toks, core.Pick(rd, itemToks))
			}
			items = joinList(toks)
		}
		r.Begin(fmt.Sprintf("pg-rowdesc-%s-%s", items, core.Hex(body)), len(fs) > 0, "stream:structured", "pg:rowdesc", fmt.Sprintf("cols:%d", len(fs)))
		got := r.Do(fmt.Sprintf("C12.pg.rowdesc %s %s", items, core.Hex(msg)))
		want := make([]pgField, len(fs))
		copy(want, fs)
		if items != "none" && len(toks) == len(fs) {
			for k, t := range toks {
				if oid, ok := pgDeclaredOID[t]; ok {
					want[k].typeOID = oid
				}
			}
		}
		wantMsg := pgMsg('T', pgEncodeRowDesc(want))
		if !r.Check(got == core.OkHex(wantMsg), "pg-rowdesc-wellformed", fmt.Sprintf("rewritten RowDescription is not the received one with the type OIDs of the typed columns replaced: items=%s got=%.200s want=%.200s", items, got, core.Hex(wantMsg))) {
			continue
		}
		out := core.UnHex(got[3:])
		// frame: same length, same count, and only OID bytes of selected columns differ
		okFrame := len(out) == len(msg)
		if okFrame {
			pos := 5 + 2
			allowed := map[int]bool{}
			for k, f := range fs {
				pos += len(f.name) + 1
				if items != "none" && len(toks) == len(fs) {
					if _, ok := pgDeclaredOID[toks[k]]; ok {
						for b := 0; b < 4; b++ {
							allowed[pos+6+b] = true
						}
					}
				}
				pos += 18
			}
			for j := range out {
				if out[j] != msg[j] && !allowed[j] {
					okFrame = false
				}
			}
		}
		r.Check(okFrame, "pg-rowdesc-frame", "rewritten RowDescription differs from the received one outside the type OID fields of the typed columns")
		spec := r.Do("C12.pg.rowdesc.dec " + core.Hex(out[5:]))
		r.Check(strings.HasPrefix(spec, "some "), "pg-rowdesc-spec", "the rewritten RowDescription body does not decode: "+spec)
	}
	// ---- ParameterDescription ----
	for i := 0; i < r.N(300, 8000); i++ {
		n := rd.Intn(7)
		oids := make([]uint32, n)
		body := be16(n)
		for k := range oids {
			oids[k] = core.Pick(rd, []uint32{17, 23, 25, 20, 0, 705, 0xffffffff, uint32(rd.U64())})
			body = append(body, be32(int(oids[k]))...)
		}
		msg := pgMsg('t', body)
		var toks []string
		for k := 0; k < n+rd.Intn(2)-rd.Intn(2); k++ {
			toks = append(toks, core.Pick(rd, itemToks))
		}
		items := joinList(toks)
		if rd.Chance(5) {
			items = "none"
		}
		r.Begin(fmt.Sprintf("pg-paramdesc-%s-%s", items, core.Hex(body)), n > 0, "stream:structured", "pg:paramdesc", fmt.Sprintf("params:%d", n))
		got := r.Do(fmt.Sprintf("C12.pg.paramdesc %s %s", items, core.Hex(msg)))
		wbody := be16(n)
		for k, o := range oids {
			if items != "none" && k < len(toks) {
				if oid, ok := pgDeclaredOID[toks[k]]; ok {
					o = oid
				}
			}
			wbody = append(wbody, be32(int(o))...)
		}
		r.Check(got == core.OkHex(pgMsg('t', wbody)), "pg-paramdesc-wellformed", fmt.Sprintf("rewritten ParameterDescription is not the received one with the OIDs of the typed parameters replaced: items=%s got=%.200s", items, got))
		if strings.HasPrefix(got, "ok ") {
			r.Do("C12.pg.paramdesc.dec " + core.Hex(core.UnHex(got[3:])[5:]))
		}
	}
	// ---- malformed descriptions: truncated, trailing bytes, wrong counts – no panic, model agrees ----
	for i := 0; i < r.N(400, 12000); i++ {
		fs := randFields()
		body := pgEncodeRowDesc(fs)
		kind := byte('T')
		if rd.Chance(30) {
			kind = 't'
			body = be16(rd.Intn(4))
			for k := rd.Intn(5); k > 0; k-- {
				body = append(body, be32(int(core.Pick(rd, []uint32{17, 23, 0})))...)
			}
		}
		switch rd.Intn(5) {
		case 0:
			body = body[:rd.Intn(len(body)+1)]
		case 1:
			body[rd.Intn(len(body))] ^= byte(1 << rd.Intn(8))
		case 2:
			body = append(body, rd.Bytes(1+rd.Intn(5))...)
		case 3:
			body[1] = byte(rd.Intn(8))
		default:
			body = rd.Bytes(rd.Intn(30))
		}
		body = append([]byte{}, body...)
		var toks []string
		for k := 0; k < 1+rd.Intn(6); k++ {
			toks = append(toks, core.Pick(rd, itemToks[2:]))
		}
		op := "C12.pg.rowdesc"
		if kind == 't' {
			op = "C12.pg.paramdesc"
		}
		r.Begin(fmt.Sprintf("pg-maldesc-%c-%s-%s", kind, joinList(toks), core.Hex(body)), true, "stream:malformed", "pg:malformed-describe")
		line := fmt.Sprintf("%s %s %s", op, joinList(toks), core.Hex(pgMsg(kind, body)))
		noPanic(r, "pg-describe-panic", line, r.Do(line))
		dl := op + ".dec " + core.Hex(body)
		noPanic(r, "pg-describe-panic", dl, r.Do(dl))
	}
}
