package c12

// PostgreSQL side of C12: ops on the real PacketHandler / PgProxy code.

import (
	"bufio"
	"bytes"
	"context"
	"encoding/binary"
	"fmt"
	"io"
	"strconv"
	"strings"

	"github.com/sirupsen/logrus"

	acracensor "github.com/cossacklabs/acra/acra-censor"
	"github.com/cossacklabs/acra/cmd/acra-server/common"
	"github.com/cossacklabs/acra/decryptor/base"
	pg "github.com/cossacklabs/acra/decryptor/postgresql"
	"github.com/cossacklabs/acra/encryptor/base/config"
	"github.com/cossacklabs/acra/sqlparser"
	acrautils "github.com/cossacklabs/acra/utils"

	"verifharness/internal/core"
)

var quietLogger = func() *logrus.Entry {
	l := logrus.New()
	l.SetOutput(io.Discard)
	l.SetLevel(logrus.PanicLevel)
	return logrus.NewEntry(l)
}()

// ---------- token syntax shared with the Lean driver ----------

func splitList(s string) []string {
	if s == "_" {
		return nil
	}
	return strings.Split(s, ",")
}

func joinList(xs []string) string {
	if len(xs) == 0 {
		return "_"
	}
	return strings.Join(xs, ",")
}

func parseNats(s string) []uint16 {
	var out []uint16
	for _, t := range splitList(s) {
		n, err := strconv.ParseUint(t, 10, 16)
		if err != nil {
			panic("harness: bad nat list " + s)
		}
		out = append(out, uint16(n))
	}
	return out
}

func showNats(xs []uint16) string {
	s := make([]string, len(xs))
	for i, x := range xs {
		s[i] = strconv.Itoa(int(x))
	}
	return joinList(s)
}

// Row is a list of column values; nil = NULL.
type Row [][]byte

func showRow(r Row) string {
	s := make([]string, len(r))
	for i, c := range r {
		if c == nil {
			s[i] = "n"
		} else {
			s[i] = core.Hex(c)
		}
	}
	return joinList(s)
}

func parseRow(s string) Row {
	var r Row
	for _, t := range splitList(s) {
		if t == "n" {
			r = append(r, nil)
		} else {
			r = append(r, core.UnHex(t))
		}
	}
	return r
}

// tr is one per-column transformation: k keep, e empty, x fail, p:<hex> prepend, a:<hex> append,
// t:<n> truncate, r:<hex> replace.
type tr struct {
	kind byte
	arg  []byte
	n    int
}

func parseTrs(s string) []tr {
	var out []tr
	for _, t := range splitList(s) {
		parts := strings.SplitN(t, ":", 2)
		x := tr{kind: parts[0][0]}
		switch x.kind {
		case 'p', 'a', 'r':
			x.arg = core.UnHex(parts[1])
		case 't':
			x.n = core.Atoi(parts[1])
		case 'k', 'e', 'x':
		default:
			panic("harness: bad transformation " + t)
		}
		out = append(out, x)
	}
	return out
}

func (t tr) String() string {
	switch t.kind {
	case 'p', 'a', 'r':
		return string(t.kind) + ":" + core.Hex(t.arg)
	case 't':
		return "t:" + strconv.Itoa(t.n)
	}
	return string(t.kind)
}

func showTrs(ts []tr) string {
	s := make([]string, len(ts))
	for i, t := range ts {
		s[i] = t.String()
	}
	return joinList(s)
}

var errTransform = fmt.Errorf("transformation fails")

func (t tr) apply(d []byte) ([]byte, error) {
	switch t.kind {
	case 'k':
		return d, nil
	case 'e':
		return []byte{}, nil
	case 'x':
		return nil, errTransform
	case 'p':
		return append(append([]byte{}, t.arg...), d...), nil
	case 'a':
		return append(append([]byte{}, d...), t.arg...), nil
	case 't':
		if t.n < len(d) {
			return d[:t.n], nil
		}
		return d, nil
	case 'r':
		return append([]byte{}, t.arg...), nil
	}
	panic("harness: bad transformation")
}

func applyTrs(ts []tr, i int, d []byte) ([]byte, error) {
	if i < len(ts) {
		return ts[i].apply(d)
	}
	return d, nil
}

// trSubscriber applies the per-column transformation as a DecryptionSubscriber (the column index
// comes from the ColumnInfo the proxy puts into the context).
type trSubscriber struct{ ts []tr }

func (s *trSubscriber) ID() string { return "verif-transform" }
func (s *trSubscriber) OnColumn(ctx context.Context, data []byte) (context.Context, []byte, error) {
	info, ok := base.ColumnInfoFromContext(ctx)
	if !ok {
		panic("harness: no column info in context")
	}
	out, err := applyTrs(s.ts, info.Index(), data)
	return ctx, out, err
}

// ---------- real-code drivers ----------

func newPgHandler(mode string, stream []byte) (*pg.PacketHandler, *bytes.Reader) {
	rd := bytes.NewReader(stream)
	w := bufio.NewWriter(io.Discard)
	var ph *pg.PacketHandler
	if mode == "db" {
		ph, _ = pg.NewDbSidePacketHandler(rd, w, quietLogger)
	} else {
		ph, _ = pg.NewClientSidePacketHandler(rd, w, quietLogger)
		if mode == "general" {
			ph.SetStarted()
		}
	}
	return ph, rd
}

func pgReadOne(mode string, ph *pg.PacketHandler) error {
	if mode == "db" {
		return ph.ReadPacket()
	}
	return ph.ReadClientPacket()
}

func newPgProxy(schemaYAML string, subs ...base.DecryptionSubscriber) (*pg.PgProxy, context.Context) {
	ctx := context.Background()
	session, err := common.NewClientSession(ctx, nil, nil)
	if err != nil {
		panic("harness: " + err.Error())
	}
	ctx = base.SetClientSessionToContext(ctx, session)
	var store config.TableSchemaStore = &config.MapTableSchemaStore{}
	if schemaYAML != "" {
		store, err = config.MapTableSchemaStoreFromConfig([]byte(schemaYAML), config.UsePostgreSQL)
		if err != nil {
			panic("harness: schema: " + err.Error())
		}
	}
	parser := sqlparser.New(sqlparser.ModeDefault)
	setting := base.NewProxySetting(parser, store, nil, nil, acracensor.NewAcraCensor(), nil)
	proxy, err := pg.NewPgProxy(session, parser, setting)
	if err != nil {
		panic("harness: " + err.Error())
	}
	for _, s := range subs {
		proxy.SubscribeOnAllColumnsDecryption(s)
	}
	return proxy, ctx
}

func init() {
	// read one packet from a stream; show type, length buffer, body, bytes left, marshalled form
	core.Register("C12.pg.read", func(a []string) string {
		ph, rd := newPgHandler(a[0], core.UnHex(a[1]))
		if err := pgReadOne(a[0], ph); err != nil {
			return core.Err
		}
		out, err := ph.Marshal()
		if err != nil {
			return core.Err
		}
		return fmt.Sprintf("ok %d %s %s %d %s", ph.VerifMessageType(), core.Hex(ph.VerifLengthBuf()), core.Hex(ph.VerifBody()), rd.Len(), core.Hex(out))
	})
	// DataRow through the real handleDatabasePacket → handleQueryDataPacket with a transforming subscriber
	core.Register("C12.pg.row", func(a []string) string {
		fmts := parseNats(a[0])
		ts := parseTrs(a[1])
		ph, _ := newPgHandler("db", core.UnHex(a[2]))
		if err := ph.ReadPacket(); err != nil {
			return core.Err
		}
		if !ph.IsDataRow() {
			panic("harness: C12.pg.row needs a DataRow packet")
		}
		proxy, ctx := newPgProxy("", &trSubscriber{ts})
		var err error
		if len(fmts) == 0 {
			err = proxy.VerifAddPendingQuery("select 1")
		} else {
			// extended protocol: result formats come from the Bind packet
			var bind bytes.Buffer
			bind.Write([]byte{0, 0, 0, 0, 0, 0}) // portal "", statement "", 0 param formats, 0 params
			binary.Write(&bind, binary.BigEndian, uint16(len(fmts)))
			for _, f := range fmts {
				binary.Write(&bind, binary.BigEndian, f)
			}
			bp, berr := pg.NewBindPacket(bind.Bytes())
			if berr != nil {
				panic("harness: bind: " + berr.Error())
			}
			err = proxy.VerifAddPendingExtendedQuery("", "select 1", bp)
		}
		if err != nil {
			panic("harness: pending: " + err.Error())
		}
		if err := proxy.VerifHandleDatabasePacket(ctx, ph, quietLogger); err != nil {
			return core.Err
		}
		out, err := ph.Marshal()
		if err != nil {
			return core.Err
		}
		return core.OkHex(out)
	})
	core.Register("C12.pg.query.replace", func(a []string) string {
		ph, _ := newPgHandler("general", core.UnHex(a[0]))
		if err := ph.ReadClientPacket(); err != nil {
			return core.Err
		}
		if !ph.IsSimpleQuery() {
			panic("harness: C12.pg.query.replace needs a Query packet")
		}
		ph.ReplaceQuery(string(core.UnHex(a[1])))
		out, _ := ph.Marshal()
		return core.OkHex(out)
	})
}

// ---------- independent Go-side codec used by the oracle and the generators ----------

func be32(n int) []byte { return []byte{byte(n >> 24), byte(n >> 16), byte(n >> 8), byte(n)} }
func be16(n int) []byte { return []byte{byte(n >> 8), byte(n)} }

func pgMsg(t byte, body []byte) []byte {
	out := append([]byte{t}, be32(len(body)+4)...)
	return append(out, body...)
}

func pgEncodeRow(r Row) []byte {
	out := be16(len(r))
	for _, c := range r {
		if c == nil {
			out = append(out, 0xff, 0xff, 0xff, 0xff)
			continue
		}
		out = append(out, be32(len(c))...)
		out = append(out, c...)
	}
	return out
}

// pgDecodeRow is strict: all bytes consumed, lengths inside the buffer.
func pgDecodeRow(b []byte) (Row, bool) {
	if len(b) < 2 {
		return nil, false
	}
	n := int(b[0])<<8 | int(b[1])
	b = b[2:]
	r := Row{}
	for i := 0; i < n; i++ {
		if len(b) < 4 {
			return nil, false
		}
		l := binary.BigEndian.Uint32(b)
		b = b[4:]
		if l == 0xffffffff {
			r = append(r, nil)
			continue
		}
		if uint64(len(b)) < uint64(l) {
			return nil, false
		}
		r = append(r, append([]byte{}, b[:l]...))
		b = b[l:]
	}
	return r, len(b) == 0
}

// pgSplit splits a well-framed general message into (type, declared length, body).
func pgSplit(msg []byte) (byte, int, []byte, bool) {
	if len(msg) < 5 {
		return 0, 0, nil, false
	}
	l := int(binary.BigEndian.Uint32(msg[1:5]))
	return msg[0], l, msg[5:], l == len(msg)-1
}

func rowsEqual(a, b Row) bool {
	if len(a) != len(b) {
		return false
	}
	for i := range a {
		if (a[i] == nil) != (b[i] == nil) || !bytes.Equal(a[i], b[i]) {
			return false
		}
	}
	return true
}

// ---------- bytea text codecs (utils) ----------

func init() {
	core.Register("C12.bytea.octal.enc", func(a []string) string { return core.OkHex(acrautils.EncodeToOctal(core.UnHex(a[0]))) })
	core.Register("C12.bytea.octal.dec", func(a []string) string {
		out, err := acrautils.DecodeOctal(core.UnHex(a[0]))
		if err != nil {
			return core.Err
		}
		return core.OkHex(out)
	})
	core.Register("C12.bytea.hex.enc", func(a []string) string { return core.OkHex(acrautils.PgEncodeToHex(core.UnHex(a[0]))) })
	core.Register("C12.bytea.escaped.dec", func(a []string) string {
		out, err := acrautils.DecodeEscaped(core.UnHex(a[0]))
		if err == acrautils.ErrDecodeOctalString {
			return "err-octal"
		}
		if err != nil {
			return "err-hex"
		}
		return core.OkHex(out)
	})
	// a DataRow through the real decoder → encoder subscribers without any column setting
	core.Register("C12.pg.chain", func(a []string) string {
		fmts := parseNats(a[0])
		ph, _ := newPgHandler("db", core.UnHex(a[1]))
		if err := ph.ReadPacket(); err != nil {
			return core.Err
		}
		dec, _ := pg.NewPgSQLDataDecoderProcessor()
		enc, _ := pg.NewPgSQLDataEncoderProcessor()
		proxy, ctx := newPgProxy("", dec, enc)
		var err error
		if len(fmts) == 0 {
			err = proxy.VerifAddPendingQuery("select 1")
		} else {
			var bind bytes.Buffer
			bind.Write([]byte{0, 0, 0, 0, 0, 0})
			binary.Write(&bind, binary.BigEndian, uint16(len(fmts)))
			for _, f := range fmts {
				binary.Write(&bind, binary.BigEndian, f)
			}
			bp, berr := pg.NewBindPacket(bind.Bytes())
			if berr != nil {
				panic("harness: bind: " + berr.Error())
			}
			err = proxy.VerifAddPendingExtendedQuery("", "select 1", bp)
		}
		if err != nil {
			panic("harness: pending: " + err.Error())
		}
		if err := proxy.VerifHandleDatabasePacket(ctx, ph, quietLogger); err != nil {
			return core.Err
		}
		out, _ := ph.Marshal()
		return core.OkHex(out)
	})
}
