package c12

import (
	"fmt"
	"strings"

	"verifharness/internal/core"
)

// Regression corpus: witnesses of every defect found on the pinned tree (repaired or known). They are run first on
// every run, on implementation and model; an entry that was repaired must not panic / must give the stated result.
var corpus = []struct {
	line  string
	want  string // "" = only "no panic and model agrees"; otherwise the exact expected result
	class string
	what  string
}{
	// C14-type panics repaired by repo-patches/07, 08
	{"C12.pg.read general 5100000000", "err", "corpus-pg-negative-length", "Query packet with length field 0 (negative data length) must be rejected, not panic"},
	{"C12.pg.read general 5100000003", "err", "corpus-pg-negative-length", "length field 3"},
	{"C12.pg.read db 4400000002", "err", "corpus-pg-negative-length", "database packet with length field 2"},
	{"C12.pg.read startup 0000000000030000", "err", "corpus-pg-negative-length", "start-up packet announcing length 0"},
	{"C12.pg.read startup 0000000700030000", "err", "corpus-pg-negative-length", "start-up packet announcing length 7"},
	{"C12.pg.row _ _ 440000000501", "err", "corpus-pg-short-datarow", "DataRow body of one byte"},
	{"C12.pg.row _ _ 4400000004", "err", "corpus-pg-short-datarow", "DataRow with an empty body"},
	{"C12.pg.row _ _ 440000000a00017fffffff", "err", "corpus-pg-column-overrun", "column declares 2 GiB in a 6-byte body (must fail without allocating it)"},
	{"C12.pg.parse.fields 61006200", "err", "corpus-pg-parse-truncated", "Parse body without the parameter count"},
	{"C12.pg.parse.fields 610062000002000000170000", "err", "corpus-pg-parse-truncated", "Parse body announcing 2 parameter types but carrying 1.5"},
	{"C12.my.binrow 3 k 0000ff", "err", "corpus-my-binrow-truncated", "binary row with a 1-byte LONG value"},
	{"C12.my.binrow 3,8 k,k 00", "err", "corpus-my-binrow-truncated", "binary row shorter than its NULL bitmap"},
	{"C12.my.binrow 253 k 0000", "err", "corpus-my-binrow-truncated", "binary row without the length-encoded value"},
	{"C12.my.replacequery 00000000 - 73656c656374", "", "corpus-my-replacequery-empty", "replaceQuery on an empty payload"},
	// repaired earlier (0520504)
	{"C12.lenenc.str feffffffffffffffff", "err", "corpus-lenenc", "length-encoded string with a declared length ≥ 2^63"},
	{"C12.lenenc.str -", "err", "corpus-lenenc", "empty input"},
	// repo-patches/06: typed NULL parameters
	{"C12.my.execute 2 k,r:58595a5a 5 170100000000010000000101fd00fd0003616263", "ok 15000005170100000000010000000101fd00fc000458595a5a", "corpus-my-execute-null", "string-typed NULL parameter must not get a value byte"},
	{"C12.my.execute 1 k 5 1701000000000100000001010300", "ok 0e0000051701000000000100000001010300", "corpus-my-execute-null", "LONG-typed NULL parameter must not fail the rewrite"},
	// repo-patches/09: truncated column definitions, extended type info / default value lengths taken from the wire
	{"C12.my.coldef none 1 000000000000", "err", "corpus-my-coldef-truncated", "column definition that ends after the six strings"},
	{"C12.my.coldef none 1 03646566000000000000", "err", "corpus-my-coldef-truncated", "column definition with a 1-byte fixed block"},
	{"C12.my.coldef none 1 0364656600000000000c3f00090000000300000000", "err", "corpus-my-coldef-truncated", "column definition one byte short"},
	{"C12.my.coldef none 1 036465660000000000 1", "err", "corpus-my-coldef-truncated", "MariaDB extended type info missing"},
	{"C12.my.coldef none 1 036465660000000000fe0000000000000080 1", "err", "corpus-my-coldef-extinfo", "extended type info declaring 2^63 bytes"},
	{"C12.my.coldef none 1 036465660000000000fcff00 1", "err", "corpus-my-coldef-extinfo", "extended type info longer than the packet"},
	{"C12.my.coldef int32 1 036465660001740174016301630c3f0009000000fc0000000000feffffffffffffffff", "err", "corpus-my-coldef-default", "default value declaring 2^64-1 bytes"},
	// repo-patches/10: default value of a re-typed column
	{"C12.my.coldef int32 1 036465660001740174016301630c3f0009000000fc000000000003616263", "ok 1e000001036465660001740174016301630c3f000900000003000000000003616263", "corpus-my-coldef-default", "re-typed column definition with a default value keeps its length-encoded default"},
	// repo-patches/11: truncated COM_STMT_EXECUTE
	{"C12.my.execute 2 k,k 1 1700", "err", "corpus-my-execute-truncated", "COM_STMT_EXECUTE shorter than its fixed header"},
	{"C12.my.execute 1 k 1 17010000000001000000", "err", "corpus-my-execute-truncated", "COM_STMT_EXECUTE without NULL bitmap"},
	{"C12.my.execute 1 k 1 1701000000000100000000", "err", "corpus-my-execute-truncated", "COM_STMT_EXECUTE without the new-params-bound flag"},
	{"C12.my.execute 1 k 1 170100000000010000000001", "err", "corpus-my-execute-truncated", "COM_STMT_EXECUTE without parameter types"},
	{"C12.my.execute 9 k 1 17010000000001000000000001030003000300030003000300030003", "err", "corpus-my-execute-truncated", "COM_STMT_EXECUTE with 8.5 of 9 parameter types"},
	// repo-patches/03, 04
	{"C12.my.chain bin 5 0000c49fa58838884bc0", "ok 0000c49fa58838884bc0", "corpus-my-double", "DOUBLE value must pass the decoder/encoder unchanged"},
	{"C12.pg.chain _ 440000000c0001000000025c78", "ok 440000000c0001000000025c78", "corpus-pg-empty-bytea", "value \"\\x\" of an unconfigured column must be relayed"},
}

// ops that exist on the implementation side only
var implOnly = map[string]bool{"C12.my.chain": true, "C12.pg.chain": true}

func runCorpus(r *core.Run) {
	for _, c := range corpus {
		r.Begin("corpus-"+c.line, true, "stream:corpus", "corpus")
		var got string
		if implOnly[strings.Fields(c.line)[0]] {
			got = r.Impl(c.line)
		} else {
			got = r.Do(c.line)
		}
		if !r.Check(got != core.Panic, c.class, fmt.Sprintf("%s: %s panics", c.what, c.line)) {
			continue
		}
		if c.want != "" {
			r.Check(got == c.want, c.class, fmt.Sprintf("%s: %s gives %.120s, want %.120s", c.what, c.line, got, c.want))
		}
	}
}

// noPanic is the C14-flavoured oracle used on every malformed stream of C12: a reader or rewriter may fail, never panic.
func noPanic(r *core.Run, class, line, got string) {
	r.Check(got != core.Panic, class, "panic on "+truncLine(line))
}

func truncLine(s string) string {
	if len(s) > 160 {
		return s[:160] + "…"
	}
	return s
}
