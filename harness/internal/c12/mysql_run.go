package c12

import (
	"bytes"
	"encoding/binary"
	"fmt"
	"math"

	"verifharness/internal/core"
)

// lengths around the length-encoding thresholds
var myValueLens = []int{0, 1, 2, 249, 250, 251, 252, 253, 254, 255, 256, 300, 65535, 65536, 65537}

func myRandValue(rd *core.Rand, big bool) []byte {
	switch rd.Intn(8) {
	case 0:
		return []byte{}
	case 1:
		if big {
			return rd.Bytes(core.Pick(rd, myValueLens))
		}
		return rd.Bytes(core.Pick(rd, myValueLens[:12]))
	case 2:
		return core.Pick(rd, [][]byte{{0xfb}, {0xfc, 1, 0}, {0xfe}, {0xff}, {0}, {0xfd, 0xff, 0xff, 0xff}})
	default:
		return rd.Bytes(rd.Intn(20))
	}
}

func myRandRow(rd *core.Rand, big bool) Row {
	n := rd.Intn(9)
	r := Row{}
	for i := 0; i < n; i++ {
		if rd.Chance(25) {
			r = append(r, nil)
		} else {
			r = append(r, myRandValue(rd, big))
		}
	}
	return r
}

// binary-protocol column types: fixed-width numerics and length-encoded kinds
var myBinTypes = []uint16{1, 2, 3, 4, 5, 8, 9, 13, 0, 7, 10, 11, 12, 15, 16, 246, 249, 250, 251, 252, 253, 254, 255}

func myRandBinRow(rd *core.Rand, big bool) ([]uint16, Row) {
	n := rd.Intn(10)
	if rd.Chance(10) {
		n = core.Pick(rd, []int{5, 6, 7, 13, 14, 15, 22}) // NULL-bitmap byte boundaries ((n+9)/8)
	}
	types := make([]uint16, n)
	r := Row{}
	for i := range types {
		types[i] = core.Pick(rd, myBinTypes)
		if rd.Chance(25) {
			r = append(r, nil)
			continue
		}
		if w := myFixedWidth(int(types[i])); w >= 0 {
			r = append(r, rd.Bytes(w))
		} else {
			r = append(r, myRandValue(rd, big))
		}
	}
	return types, r
}

// transformation for a binary column: fixed-width columns keep their width
func myRandBinTrs(rd *core.Rand, types []uint16, allowFail bool) []tr {
	ts := make([]tr, len(types))
	for i, t := range types {
		if w := myFixedWidth(int(t)); w >= 0 {
			if rd.Bool() {
				ts[i] = tr{kind: 'k'}
			} else {
				ts[i] = tr{kind: 'r', arg: rd.Bytes(w)}
			}
			continue
		}
		ts[i] = randTr(rd, allowFail)
	}
	return ts
}

func runMysql(r *core.Run) {
	rd := r.Rand
	th := r.Thorough()
	runMyColDef(r)
	runMyColDefDeep(r)
	runMyExecute(r)
	runMyExecuteDeep(r)

	// ---- 1. packet relay: single packets of every small size and around the boundaries ----
	lens := []int{1, 2, 3, 4, 5, 250, 251, 255, 256, 65535, 65536}
	for i := 0; i < r.N(60, 2000); i++ {
		lens = append(lens, 1+rd.Intn(400))
	}
	for _, l := range lens {
		seq := rd.Intn(256)
		payload := rd.Bytes(l)
		sent := myEncodePayload(seq, payload)
		suffix := rd.Bytes(rd.Intn(6))
		r.Begin(fmt.Sprintf("my-relay-%d-%d", l, seq), true, "stream:structured", "my:relay")
		got := r.Do("C12.my.read " + core.Hex(append(append([]byte{}, sent...), suffix...)))
		want := fmt.Sprintf("ok %s %s %d %s", core.Hex(sent[:4]), showBig(payload), len(suffix), showBig(sent))
		r.Check(got == want, "my-relay-identity", fmt.Sprintf("packet with %d-byte payload is not relayed byte-identically: %s", l, got))
	}
	// zero-length packets are valid protocol packets (e.g. the terminator of a payload of exactly 2^24-1 bytes)
	r.Begin("my-relay-empty", true, "stream:boundary", "my:relay-empty")
	got := r.Do("C12.my.read 00000003")
	r.Check(got == "ok 00000003 0 7 - 0 "+showBig([]byte{0, 0, 0, 3}), "my-zero-length-packet", "a zero-length packet is not relayed: "+got)
	// multi-packet payloads (≥ 2^24-1 bytes): implementation in both tiers, model comparison in thorough only (20–50 s per case in Lean)
	for _, n := range []int{myMaxPayload - 1, myMaxPayload, myMaxPayload + 1} {
		r.Begin(fmt.Sprintf("my-relay-multi-%d", n), true, "stream:boundary", "my:relay-multipacket")
		line := fmt.Sprintf("C12.my.relaygen 5 %d 1", n)
		var got string
		if th {
			got = r.Do(line)
		} else {
			got = r.Impl(line)
		}
		sentLen := n + 4
		if n >= myMaxPayload {
			sentLen = n + 8
		}
		ok := len(got) > 3 && got[:3] == "ok " && hasSuffix(got, fmt.Sprintf(" %d 0 %d true", n, sentLen))
		if n < myMaxPayload {
			r.Check(ok, "my-relay-identity", fmt.Sprintf("payload of %d bytes is not relayed byte-identically: %s", n, got))
		} else {
			r.Check(ok, "my-multipacket-relay", fmt.Sprintf("multi-packet payload of %d bytes is not relayed byte-identically: %s", n, got))
		}
	}
	if th {
		r.Begin("my-payload-spec", true, "stream:boundary", "my:payload-spec")
		r.Do(fmt.Sprintf("C12.my.payload.enc 250 %d 3", myMaxPayload+5))
	}
	for i := 0; i < r.N(30, 300); i++ {
		r.Begin(fmt.Sprintf("my-payload-spec-%d", i), true, "stream:structured", "my:payload-spec")
		r.Do(fmt.Sprintf("C12.my.payload.enc %d %d %d", rd.Intn(256), rd.Intn(3000), rd.Intn(256)))
	}
	// malformed framing
	for i := 0; i < r.N(100, 3000); i++ {
		var s []byte
		switch rd.Intn(3) {
		case 0:
			s = rd.Bytes(rd.Intn(8))
			if len(s) >= 3 {
				s[2] = 0 // keep the declared length (allocation) small
			}
		case 1:
			p := rd.Bytes(1 + rd.Intn(30))
			f := myEncodePayload(rd.Intn(256), p)
			s = f[:rd.Intn(len(f))]
		default:
			s = []byte{0, 0, 0, byte(rd.Intn(256))}
			s = append(s, rd.Bytes(rd.Intn(3))...)
		}
		s = s[:len(s):len(s)]
		r.Begin("my-malframe-"+core.Hex(s), len(s) > 0, "stream:malformed", "my:malformed-frame")
		noPanic(r, "my-read-panic", "C12.my.read "+core.Hex(s), r.Do("C12.my.read "+core.Hex(s)))
	}

	// ---- 2. SetData / replaceQuery: header length = payload length ----
	for i := 0; i < r.N(60, 1500); i++ {
		hdr := rd.Bytes(4)
		d := rd.Bytes(core.Pick(rd, []int{0, 1, 2, 250, 251, 255, 256, 65535, 65536, 70000}))
		r.Begin(fmt.Sprintf("my-setdata-%d", len(d)), true, "stream:structured", "my:setdata")
		got := r.Do("C12.my.setdata " + core.Hex(hdr) + " " + core.Hex(d))
		want := myEncodePayload(int(hdr[3]), d)
		r.Check(got == "ok "+core.Hex(want[:4])+" "+showBig(want), "my-setdata", "SetData does not produce a well-formed packet")
	}
	for _, n := range []int{myMaxPayload - 1, myMaxPayload, myMaxPayload + 1, 1 << 25} {
		r.Begin(fmt.Sprintf("my-setdata-len-%d", n), true, "stream:boundary", "my:setdata-16m")
		got := r.Do(fmt.Sprintf("C12.my.setdata.len 00000007 %d", n))
		// a payload of n ≥ 2^24-1 bytes cannot be described by one header: the first fragment must declare 0xffffff
		want := core.Hex([]byte{byte(n), byte(n >> 8), byte(n >> 16), 7})
		if n >= myMaxPayload {
			want = "ffffff07"
		}
		class := "my-setdata"
		if n >= myMaxPayload {
			class = "my-setdata-16m"
		}
		r.Check(got == "ok "+want, class, fmt.Sprintf("SetData with a %d-byte payload writes header %s (first fragment should declare %s)", n, got, want))
	}
	for i := 0; i < r.N(60, 1500); i++ {
		hdr := rd.Bytes(4)
		oldq := bytes.ReplaceAll(rd.Bytes(rd.Intn(50)), []byte{0}, []byte{1})
		newq := bytes.ReplaceAll(rd.Bytes(core.Pick(rd, []int{0, 1, 10, len(oldq), len(oldq) + 1, 300, 70000})), []byte{0}, []byte{1})
		cmd := core.Pick(rd, []byte{3, 22})
		data := append([]byte{cmd}, oldq...)
		r.Begin(fmt.Sprintf("my-replacequery-%d-%d", len(oldq), len(newq)), true, "stream:structured", "my:replace-query")
		got := r.Do("C12.my.replacequery " + core.Hex(hdr) + " " + core.Hex(data) + " " + core.Hex(newq))
		want := myEncodePayload(int(hdr[3]), append([]byte{cmd}, newq...))
		r.Check(got == core.OkHex(want), "my-replace-query", "replaceQuery does not produce a well-formed command packet with the new text")
	}

	// ---- 3. text rows ----
	for i := 0; i < r.N(600, 25000); i++ {
		big := th && i%400 == 0
		row := myRandRow(rd, big)
		ts := randTrs(rd, len(row), true)
		enc := myEncodeTextRow(row)
		want, ok := mapRow(row, ts)
		r.Begin(fmt.Sprintf("my-textrow-%s-%s", showRow(row), showTrs(ts)), len(row) > 0, "stream:structured", "my:textrow", trClass(ts, row), fmt.Sprintf("cols:%d", len(row)))
		got := r.Do(fmt.Sprintf("C12.my.textrow %d %s %s", len(row), showTrs(ts), core.Hex(enc)))
		if !ok {
			r.Check(got == core.Err, "my-textrow-fail", "a failing column transformation does not fail the row: "+got)
			continue
		}
		if !r.Check(len(got) >= 3 && got[:3] == "ok ", "my-textrow-outcome", fmt.Sprintf("row %s with %s: %s", showRow(row), showTrs(ts), got)) {
			continue
		}
		out := core.UnHex(got[3:])
		dec, okd := myDecodeTextRow(len(row), out)
		r.Check(okd && rowsEqual(dec, want), "my-textrow-wellformed", fmt.Sprintf("rewritten text row does not decode to the transformed row: row=%s tr=%s got=%s", showRow(row), showTrs(ts), showRow(dec)))
		spec := r.ModelOnly(fmt.Sprintf("C12.my.textrow.dec %d %s", len(row), core.Hex(out)))
		r.Check(spec == "some "+showRow(want), "my-textrow-spec", "Lean specification decoder disagrees on the rewritten text row: "+spec)
		if allKeep(ts) {
			r.Check(bytes.Equal(out, enc), "my-textrow-identity", "identity transformation changed the text row bytes")
		}
		// through the real decoder/encoder subscribers with no column settings: byte-identical
		chain := r.Do(fmt.Sprintf("C12.my.chain text %s %s", showNats(make([]uint16, len(row))), core.Hex(enc)))
		r.Check(chain == core.OkHex(enc), "my-chain-identity-text", "text row changed by the decoder/encoder subscribers although no column is configured: "+chain)
	}
	// malformed text rows
	for i := 0; i < r.N(200, 8000); i++ {
		row := myRandRow(rd, false)
		enc := myEncodeTextRow(row)
		switch rd.Intn(4) {
		case 0:
			enc = enc[:rd.Intn(len(enc)+1)]
		case 1:
			if len(enc) > 0 {
				enc[rd.Intn(len(enc))] ^= byte(1 << rd.Intn(8))
			}
		case 2:
			enc = append(enc, rd.Bytes(1+rd.Intn(4))...)
		default:
			enc = rd.Bytes(rd.Intn(12))
		}
		enc = enc[:len(enc):len(enc)]
		n := len(row) + rd.Intn(3) - 1
		if n < 0 {
			n = 0
		}
		ts := randTrs(rd, n, false)
		r.Begin(fmt.Sprintf("my-maltextrow-%d-%s", n, core.Hex(enc)), true, "stream:malformed", "my:malformed-textrow")
		tl := fmt.Sprintf("C12.my.textrow %d %s %s", n, showTrs(ts), core.Hex(enc))
		noPanic(r, "my-textrow-panic", tl, r.Do(tl))
	}

	// ---- 4. binary rows ----
	for i := 0; i < r.N(600, 25000); i++ {
		big := th && i%400 == 0
		types, row := myRandBinRow(rd, big)
		ts := myRandBinTrs(rd, types, true)
		enc := myEncodeBinRow(types, row)
		want, ok := mapRow(row, ts)
		r.Begin(fmt.Sprintf("my-binrow-%s-%s-%s", showNats(types), showRow(row), showTrs(ts)), len(row) > 0, "stream:structured", "my:binrow", trClass(ts, row), fmt.Sprintf("cols:%d", len(row)))
		got := r.Do(fmt.Sprintf("C12.my.binrow %s %s %s", showNats(types), showTrs(ts), core.Hex(enc)))
		if !ok {
			r.Check(got == core.Err, "my-binrow-fail", "a failing column transformation does not fail the row: "+got)
			continue
		}
		if !r.Check(len(got) >= 3 && got[:3] == "ok ", "my-binrow-outcome", fmt.Sprintf("types %s row %s with %s: %s", showNats(types), showRow(row), showTrs(ts), got)) {
			continue
		}
		out := core.UnHex(got[3:])
		dec, okd := myDecodeBinRow(types, out)
		r.Check(okd && rowsEqual(dec, want), "my-binrow-wellformed", fmt.Sprintf("rewritten binary row does not decode to the transformed row: types=%s row=%s tr=%s got=%s", showNats(types), showRow(row), showTrs(ts), showRow(dec)))
		spec := r.ModelOnly(fmt.Sprintf("C12.my.binrow.dec %s %s", showNats(types), core.Hex(out)))
		r.Check(spec == "some "+showRow(want), "my-binrow-spec", "Lean specification decoder disagrees on the rewritten binary row: "+spec)
		if allKeep(ts) {
			r.Check(bytes.Equal(out, enc), "my-binrow-identity", "identity transformation changed the binary row bytes")
		}
		mspec := r.ModelOnly(fmt.Sprintf("C12.my.binrow.enc %s %s", showNats(types), showRow(row)))
		r.Check(mspec == core.Hex(enc), "my-binrow-spec-enc", "Lean encodeBinRow and the harness encoder disagree")
	}
	// binary rows through the real decoder/encoder subscribers with no column settings: byte-identical
	for i := 0; i < r.N(400, 10000); i++ {
		types, row := myRandBinRow(rd, false)
		for j, t := range types {
			if row[j] == nil {
				continue
			}
			switch t {
			case 4: // float32: finite values
				binary.LittleEndian.PutUint32(row[j], math.Float32bits(float32(rd.Intn(2000)-1000)/float32(1+rd.Intn(97))))
			case 5: // float64: finite values that need more than float32 precision
				binary.LittleEndian.PutUint64(row[j], math.Float64bits(float64(rd.Intn(2000000)-1000000)/float64(1+rd.Intn(9973))))
			}
		}
		enc := myEncodeBinRow(types, row)
		class := "my-chain-identity-bin"
		for j, t := range types {
			if t == 5 && row[j] != nil {
				class = "my-chain-identity-double"
			}
		}
		r.Begin(fmt.Sprintf("my-chain-bin-%s-%s", showNats(types), showRow(row)), len(row) > 0, "stream:structured", "my:chain-bin")
		// FLOAT / DOUBLE columns are outside the model of the encoder (strconv float formatting): implementation only
		line := fmt.Sprintf("C12.my.chain bin %s %s", showNats(types), core.Hex(enc))
		hasFloat := false
		for j, t := range types {
			if (t == 4 || t == 5) && row[j] != nil {
				hasFloat = true
			}
		}
		var chain string
		if hasFloat {
			chain = r.Impl(line)
		} else {
			chain = r.Do(line)
		}
		r.Check(chain == core.OkHex(enc), class, fmt.Sprintf("binary row changed by the decoder/encoder subscribers although no column is configured: types=%s in=%s out=%s", showNats(types), core.Hex(enc), chain))
	}
	// malformed binary rows
	for i := 0; i < r.N(200, 8000); i++ {
		types, row := myRandBinRow(rd, false)
		enc := myEncodeBinRow(types, row)
		switch rd.Intn(5) {
		case 0:
			enc = enc[:rd.Intn(len(enc)+1)]
		case 1:
			enc[rd.Intn(len(enc))] ^= byte(1 << rd.Intn(8))
		case 2:
			enc = append(enc, rd.Bytes(1+rd.Intn(4))...)
		case 3:
			enc[0] = core.Pick(rd, []byte{0xfe, 0xff, 1})
		default:
			enc = rd.Bytes(rd.Intn(12))
		}
		enc = enc[:len(enc):len(enc)]
		if rd.Chance(20) {
			types = append(types, uint16(core.Pick(rd, []int{17, 200, 245, 6})))
		}
		ts := myRandBinTrs(rd, types, false)
		r.Begin(fmt.Sprintf("my-malbinrow-%s-%s", showNats(types), core.Hex(enc)), true, "stream:malformed", "my:malformed-binrow")
		bl := fmt.Sprintf("C12.my.binrow %s %s %s", showNats(types), showTrs(ts), core.Hex(enc))
		noPanic(r, "my-binrow-panic", bl, r.Do(bl))
	}
}

// column definitions rewritten for a typed column: still a well-formed ColumnDefinition41 packet of the same
// length, names untouched, type/charset/length/flags as configured for the declared type
func runMyColDef(r *core.Run) {
	rd := r.Rand
	declared := map[string]struct {
		typ     byte
		charset uint16
		length  uint32
	}{"int32": {3, 63, 9}, "int64": {8, 63, 20}, "str": {254, 8, 255}, "bytes": {252, 63, 65535}}
	for i := 0; i < r.N(200, 5000); i++ {
		dt := core.Pick(rd, []string{"int32", "int64", "str", "bytes", "none"})
		table, name := []byte("t"), []byte("c")
		if rd.Chance(15) {
			name = []byte("other") // a column without a setting
		}
		schema := rd.Bytes(core.Pick(rd, []int{0, 3, 250, 251, 300}))
		orgTable := rd.Bytes(rd.Intn(6))
		orgName := rd.Bytes(rd.Intn(6))
		charset := uint16(rd.Intn(300))
		length := uint32(rd.U64())
		origType := core.Pick(rd, []byte{252, 253, 254, 251, 250, 249, 15})
		flags := uint16(rd.U64())
		decimals := byte(rd.Intn(32))
		payload := myColDef(schema, table, orgTable, name, orgName, charset, length, origType, flags, decimals)
		seq := rd.Intn(256)
		r.Begin(fmt.Sprintf("my-coldef-%s-%s", dt, core.Hex(payload)), true, "stream:structured", "my:coldef", "type:"+dt)
		got := r.Do(fmt.Sprintf("C12.my.coldef %s %d %s", dt, seq, core.Hex(payload)))
		sent := myEncodePayload(seq, payload)
		want := sent
		if d, ok := declared[dt]; ok && string(name) == "c" {
			nf := flags
			if dt != "bytes" {
				nf = flags &^ 16 // BlobFlag removed for int32/int64/str
			}
			want = myEncodePayload(seq, myColDef(schema, table, orgTable, name, orgName, d.charset, d.length, d.typ, nf, 0))
		}
		r.Check(got == core.OkHex(want), "my-coldef-wellformed", fmt.Sprintf("column definition for data_type %s is not the well-formed definition with the declared type: got %.120s want %.120s", dt, got, core.Hex(want)))
	}
}

// COM_STMT_EXECUTE: parameters rewritten by OnBind stay a well-formed execute packet: header fields and NULL
// bitmap untouched, NULL parameters carry no value bytes, changed values become length-encoded blobs,
// unchanged values keep their bytes
func runMyExecute(r *core.Run) {
	rd := r.Rand
	strTypes := []byte{253, 254, 252, 15, 251}
	for i := 0; i < r.N(300, 10000); i++ {
		n := 1 + rd.Intn(9)
		if rd.Chance(10) {
			n = core.Pick(rd, []int{8, 9, 16, 17})
		}
		nullTyped := rd.Chance(30) // NULL parameters keep their declared type instead of MYSQL_TYPE_NULL
		types := make([][2]byte, n)
		vals := Row{}
		ts := make([]tr, n)
		class := "my-execute-wellformed"
		for j := 0; j < n; j++ {
			switch rd.Intn(4) {
			case 0: // NULL
				vals = append(vals, nil)
				types[j] = [2]byte{6, 0}
				if nullTyped {
					types[j] = [2]byte{core.Pick(rd, []byte{253, 3, 8, 252}), 0}
					class = "my-execute-typed-null"
				}
				ts[j] = tr{kind: 'k'}
			case 1: // fixed-width numeric, kept: must come back with exactly the same bytes
				t := core.Pick(rd, []byte{1, 2, 3, 8, 4, 5, 9, 13})
				v := rd.Bytes(myFixedWidth(int(t)))
				if rd.Chance(20) { // extreme values: -1 / minimum / maximum
					v = core.Pick(rd, [][]byte{bytes.Repeat([]byte{0xff}, len(v)), append(bytes.Repeat([]byte{0}, len(v)-1), 0x80), append(bytes.Repeat([]byte{0xff}, len(v)-1), 0x7f)})
				}
				if t == 4 || t == 5 { // finite FLOAT/DOUBLE (exponent field not all ones), incl. values not representable in float32
					v[len(v)-1] &= 0xbf
					if rd.Chance(30) {
						v = myFloatBytes(int(t), core.Pick(rd, []float64{3.141592653589793, 1234567.89, 1e300, 0.1, -2, 1e-310, 16777217}))
					}
				}
				vals = append(vals, v)
				types[j] = [2]byte{t, byte(rd.Intn(2) * 128)} // signed / unsigned flag
				ts[j] = tr{kind: 'k'}
			default: // string-like, possibly transformed
				vals = append(vals, myRandValue(rd, false))
				types[j] = [2]byte{core.Pick(rd, strTypes), 0}
				ts[j] = randTr(rd, false)
			}
		}
		changed := false
		want := Row{}
		wtypes := make([][2]byte, n)
		for j := range vals {
			wtypes[j] = types[j]
			if vals[j] == nil {
				want = append(want, nil)
				continue
			}
			d, _ := ts[j].apply(vals[j])
			if d == nil {
				d = []byte{}
			}
			if myFixedWidth(int(types[j][0])) < 0 && !bytes.Equal(d, vals[j]) {
				wtypes[j][0] = 252 // a value that was changed travels as a blob
				changed = true
			}
			want = append(want, d)
		}
		_ = changed
		payload := myExecute(uint32(rd.U64()), byte(rd.Intn(2)), types, vals)
		seq := rd.Intn(256)
		r.Begin(fmt.Sprintf("my-execute-%s-%s", core.Hex(payload), showTrs(ts)), true, "stream:structured", "my:execute", fmt.Sprintf("params:%d", n))
		got := r.Do(fmt.Sprintf("C12.my.execute %d %s %d %s", n, showTrs(ts), seq, core.Hex(payload)))
		if !r.Check(len(got) > 3 && got[:3] == "ok ", class, fmt.Sprintf("COM_STMT_EXECUTE with %d parameters (types %v, values %s) is not rewritten: %s", n, types, showRow(vals), got)) {
			continue
		}
		out := core.UnHex(got[3:])
		wantPayload := myExecute(uint32(payload[1])|uint32(payload[2])<<8|uint32(payload[3])<<16|uint32(payload[4])<<24, payload[5], wtypes, want)
		wantOut := myEncodePayload(seq, wantPayload)
		if bytes.Equal(out, wantOut) {
			continue
		}
		// SetParameters recomputes the unsigned flag of every LONG/LONGLONG parameter from the sign of its value read as a
		// signed integer: a difference confined to those flag bytes is the known finding my-execute-sign-flag
		mask := func(b []byte) []byte {
			c := append([]byte{}, b...)
			off := 4 + 10 + (n+7)/8 + 1
			for j := 0; j < n; j++ {
				if off+2*j+1 < len(c) && (wtypes[j][0] == 3 || wtypes[j][0] == 8) && vals[j] != nil {
					c[off+2*j+1] = 0
				}
			}
			return c
		}
		if bytes.Equal(mask(out), mask(wantOut)) {
			r.Check(false, "my-execute-sign-flag", fmt.Sprintf("the unsigned flag of an untouched LONG/LONGLONG parameter was rewritten: types=%v vals=%s got=%x want=%x", types, showRow(vals), out, wantOut))
			continue
		}
		r.Check(false, class, fmt.Sprintf("rewritten COM_STMT_EXECUTE is not the well-formed packet with the transformed parameters: types=%v vals=%s tr=%s got=%x want=%x", types, showRow(vals), showTrs(ts), out, wantOut))
	}
}

// myFloatBytes encodes a value as MySQL binary FLOAT (type 4) or DOUBLE (type 5), little endian.
func myFloatBytes(t int, f float64) []byte {
	if t == 4 {
		b := make([]byte, 4)
		binary.LittleEndian.PutUint32(b, math.Float32bits(float32(f)))
		return b
	}
	b := make([]byte, 8)
	binary.LittleEndian.PutUint64(b, math.Float64bits(f))
	return b
}

func hasSuffix(s, suf string) bool { return len(s) >= len(suf) && s[len(s)-len(suf):] == suf }
