package c12

// PostgreSQL Parse message through the real handleClientPacket: the query observers may replace the query text
// (what transparent encryption of a literal does), replaceOIDsInParsePackets may re-type parameters (what a type-aware
// column setting bound to a placeholder does). Compared with the Lean model `Pg.handleParse`; the oracle re-parses the
// forwarded message with the Lean specification decoder and compares it with the message built from its parts.
// Boundary counts of parameter types: 0, 1, 32767, 32768, 40000, 65535 (the count is an unsigned Int16).

import (
	"bytes"
	"context"
	"fmt"
	"strconv"
	"strings"

	pg_query "github.com/cossacklabs/pg_query_go/v5"

	"github.com/cossacklabs/acra/decryptor/base"
	encryptor "github.com/cossacklabs/acra/encryptor/base"
	"github.com/cossacklabs/acra/encryptor/base/config"
	encpg "github.com/cossacklabs/acra/encryptor/postgresql"

	"verifharness/internal/core"
)

// selRule: which parameters carry a type-aware column setting: `_` none, `all`, `m<k>` every k-th (i % k == 0),
// or an explicit comma list of indices.
type selRule struct {
	all  bool
	mod  int
	list map[int]bool
}

func parseSel(s string) selRule {
	switch {
	case s == "_":
		return selRule{}
	case s == "all":
		return selRule{all: true}
	case strings.HasPrefix(s, "m"):
		return selRule{mod: core.Atoi(s[1:])}
	}
	r := selRule{list: map[int]bool{}}
	for _, t := range strings.Split(s, ",") {
		r.list[core.Atoi(t)] = true
	}
	return r
}

func (r selRule) has(i int) bool {
	switch {
	case r.all:
		return true
	case r.mod > 0:
		return i%r.mod == 0
	}
	return r.list[i]
}

// parseObserver replaces the query text (when asked to) and registers the placeholder settings the real query
// encryptor would register for the statement.
type parseObserver struct {
	newQuery *string
}

func (o *parseObserver) ID() string { return "verif-parse" }
func (o *parseObserver) OnQuery(ctx context.Context, q encpg.OnQueryObject) (encpg.OnQueryObject, bool, error) {
	if o.newQuery == nil {
		return q, false, nil
	}
	return encpg.NewOnQueryObjectFromQuery(*o.newQuery), true, nil
}
func (o *parseObserver) OnBind(ctx context.Context, stmt *pg_query.ParseResult, values []base.BoundValue) ([]base.BoundValue, bool, error) {
	return values, false, nil
}

// runParse: <q|none> <sel> <message> through handleClientPacket; returns the forwarded message.
func runParse(qTok, selTok string, msg []byte) string {
	ph, _ := newPgHandler("general", msg)
	if err := ph.ReadClientPacket(); err != nil {
		return core.Err
	}
	if !ph.IsParse() {
		panic("harness: C12.pg.parse needs a Parse packet")
	}
	obs := &parseObserver{}
	if qTok != "none" {
		q := string(core.UnHex(qTok))
		obs.newQuery = &q
	}
	proxy, ctx := newPgProxy("")
	proxy.AddQueryObserver(obs)
	session := base.ClientSessionFromContext(ctx)
	sel := parseSel(selTok)
	// number of parameters the packet declares, to size the placeholder map (an upper bound is enough)
	m := map[int]config.ColumnEncryptionSetting{}
	if selTok != "_" {
		typed := settingFor("int32", config.UsePostgreSQL)
		for i := 0; i < 65536; i++ {
			if sel.has(i) {
				m[i] = typed
			}
		}
	}
	session.SetData(encryptor.PlaceholdersSettingKey, m)
	if _, err := proxy.VerifHandleClientPacket(ctx, ph, quietLogger); err != nil {
		return core.Err
	}
	out, err := ph.Marshal()
	if err != nil {
		return core.Err
	}
	return core.OkHex(out)
}

func init() {
	core.Register("C12.pg.parse", func(a []string) string { return runParse(a[0], a[1], core.UnHex(a[2])) })
}

var parseOidTable = []uint32{0, 17, 20, 23, 25, 1043, 2950, 0xffffffff}

func genOids(rd *core.Rand, n int) []uint32 {
	oids := make([]uint32, n)
	seed := rd.Intn(251)
	for k := range oids {
		oids[k] = parseOidTable[(k*7+seed)%len(parseOidTable)]
	}
	return oids
}

func showOids(oids []uint32) string {
	if len(oids) == 0 {
		return "_"
	}
	s := make([]string, len(oids))
	for i, o := range oids {
		s[i] = strconv.FormatUint(uint64(o), 10)
	}
	return strings.Join(s, ",")
}

// runPgParse: generated Parse messages × {query kept, query replaced} × {no parameter re-typed, some, all}.
func runPgParse(r *core.Run) {
	rd := r.Rand
	queries := []string{"select 1", "select $1", "insert into t(id, c) values ($1, $2)", "select c from t where id = $1 and c = $2",
		"update t set c = $1 where id = 7"}
	one := func(name []byte, query string, oids []uint32, newQuery *string, selTok string, tags ...string) {
		body := pgEncodeParse(name, []byte(query), oids)
		msg := pgMsg('P', body)
		qTok := "none"
		if newQuery != nil {
			qTok = core.Hex([]byte(*newQuery))
		}
		key := fmt.Sprintf("pg-parse-%s-%d-%s-%s-%s", core.Hex(name), len(oids), qTok, selTok, core.Hex([]byte(query)))
		if len(oids) <= 8 {
			key += "-" + showOids(oids)
		}
		r.Begin(key, true, append([]string{"pg:parse-handle", fmt.Sprintf("parse-count:%s", countClass(len(oids)))}, tags...)...)
		got := r.Do(fmt.Sprintf("C12.pg.parse %s %s %s", qTok, selTok, core.Hex(msg)))
		// what PostgreSQL must receive: same name, the new (or same) query, the selected parameters as bytea, the others as sent
		sel := parseSel(selTok)
		want := make([]uint32, len(oids))
		changed := newQuery != nil
		for i, o := range oids {
			want[i] = o
			if sel.has(i) {
				want[i] = 17
				changed = true
			}
		}
		finalQuery := query
		if newQuery != nil {
			finalQuery = *newQuery
		}
		what := fmt.Sprintf("Parse with %d parameter types (name %q, query %q → %q, re-typed %s)", len(oids), name, query, finalQuery, selTok)
		if !r.Check(strings.HasPrefix(got, "ok "), "pg-parse-handle", what+": not forwarded: "+truncLine(got)) {
			return
		}
		out := core.UnHex(got[3:])
		if !changed {
			r.Check(bytes.Equal(out, msg), "pg-parse-relay", what+": nothing to rewrite but the forwarded message differs from the received one")
			return
		}
		// well-formed frame: type byte, length = bytes that follow + 4
		if !r.Check(len(out) >= 5 && out[0] == 'P' && int(be32val(out[1:5])) == len(out)-1, "pg-parse-frame", what+": forwarded message is not well-framed") {
			return
		}
		// independent re-parse by the Lean specification decoder
		spec := r.ModelOnly("C12.pg.parse.dec " + core.Hex(out[5:]))
		wantSpec := fmt.Sprintf("some %s %s %s", core.Hex(name), core.Hex([]byte(finalQuery)), showOids(want))
		if spec != wantSpec {
			declared := -1
			if i := bytes.IndexByte(out[5:], 0); i >= 0 {
				if j := bytes.IndexByte(out[5+i+1:], 0); j >= 0 && 5+i+1+j+3 <= len(out) {
					p := 5 + i + 1 + j + 1
					declared = int(out[p])<<8 | int(out[p+1])
					if carried := len(out) - p - 2; carried != 4*declared {
						r.Fail("pg-parse-malformed", fmt.Sprintf("%s: the forwarded message is MALFORMED – it declares %d parameter types and carries %d bytes of OIDs (%d OIDs)",
							what, declared, carried, carried/4))
					} else {
						r.Fail("pg-parse-rewrite", fmt.Sprintf("%s: the forwarded message is well-formed (%d parameter types) but is not the expected rewrite (query / re-typed parameters): the specification decoder reads %s",
							what, declared, truncLine(spec)))
					}
					return
				}
			}
			r.Fail("pg-parse-rewrite", what+": the forwarded message does not re-parse to the same name / new query / parameter types: "+truncLine(spec))
			return
		}
		r.Check(bytes.Equal(out, pgMsg('P', pgEncodeParse(name, []byte(finalQuery), want))), "pg-parse-rewrite", what+": forwarded message is not the specification encoding of the rewritten Parse")
	}
	// ---- boundary counts of the unsigned Int16 ----
	counts := []int{0, 1, 2, 255, 256, 32767, 32768, 40000, 65535}
	for _, n := range counts {
		oids := genOids(rd, n)
		nq := "select 2"
		type variant struct {
			replace bool
			sel     string
		}
		vs := []variant{{true, "_"}, {false, "_"}, {false, "all"}}
		if n == 40000 && !r.Thorough() {
			vs = vs[:1]
		}
		if n < 1000 || r.Thorough() {
			vs = append(vs, variant{true, "m3"})
			vs = append(vs, variant{true, "all"}, variant{false, "m3"})
			if n > 0 {
				vs = append(vs, variant{false, strconv.Itoa(n - 1)}, variant{true, strconv.Itoa(n - 1)}, variant{true, "0"})
			}
		}
		for _, v := range vs {
			if v.replace {
				one([]byte("s"), "select 1", oids, &nq, v.sel, "stream:boundary")
			} else {
				one([]byte("s"), "select 1", oids, nil, v.sel, "stream:boundary")
			}
		}
	}
	// ---- random small and medium messages ----
	for i := 0; i < r.N(250, 6000); i++ {
		name := noZero(rd.Bytes(rd.Intn(6)))
		query := core.Pick(rd, queries)
		n := rd.Intn(6)
		if rd.Chance(10) {
			n = 200 + rd.Intn(400)
		}
		if r.Thorough() && rd.Chance(1) {
			n = 32700 + rd.Intn(32836)
		}
		oids := genOids(rd, n)
		var nq *string
		if rd.Bool() {
			q := core.Pick(rd, queries)
			if rd.Bool() {
				q += " /* " + strings.Repeat("x", rd.Intn(300)) + " */"
			}
			nq = &q
		}
		selTok := "_"
		switch rd.Intn(4) {
		case 1:
			selTok = "all"
		case 2:
			selTok = "m" + strconv.Itoa(2+rd.Intn(3))
		case 3:
			var idx []string
			for k := 0; k < 1+rd.Intn(3); k++ {
				idx = append(idx, strconv.Itoa(rd.Intn(n+2)))
			}
			selTok = strings.Join(idx, ",")
		}
		one(name, query, oids, nq, selTok, "stream:structured")
	}
	// ---- malformed Parse bodies through the whole handler: no panic, and agreement with the model ----
	// (the model does not know SQL: mutations that touch the statement name / query text are run on the implementation
	// only, mutations of the count and the OID list are compared with the model)
	for i := 0; i < r.N(200, 6000); i++ {
		body := pgEncodeParse(noZero(rd.Bytes(rd.Intn(4))), []byte("select 1"), genOids(rd, rd.Intn(4)))
		z := bytes.IndexByte(body, 0)
		z2 := z + 1 + bytes.IndexByte(body[z+1:], 0) // terminator of the query; the count follows
		modelled := true
		switch rd.Intn(5) {
		case 0:
			body = body[:z2+1+rd.Intn(len(body)-z2)]
		case 1:
			body[z2+1+rd.Intn(len(body)-z2-1)] ^= byte(1 << rd.Intn(8))
		case 2:
			body = append(body, rd.Bytes(1+rd.Intn(5))...)
		case 3:
			// a count that does not match the OIDs that follow (too many / too few declared, high bit set)
			c := core.Pick(rd, []int{0, 1, 5, 0x7fff, 0x8000, 0x8001, 0xffff})
			body[z2+1], body[z2+2] = byte(c>>8), byte(c)
		default:
			modelled = false
			if rd.Bool() {
				body = rd.Bytes(rd.Intn(12))
			} else {
				body = body[:rd.Intn(z2+1)]
			}
		}
		body = body[:len(body):len(body)]
		msg := pgMsg('P', body)
		selTok := core.Pick(rd, []string{"_", "all", "0"})
		qTok := core.Pick(rd, []string{"none", core.Hex([]byte("select 2"))})
		r.Begin("pg-malparse-handle-"+core.Hex(msg)+qTok+selTok, true, "stream:malformed", "pg:malformed-parse-handle")
		line := fmt.Sprintf("C12.pg.parse %s %s %s", qTok, selTok, core.Hex(msg))
		if modelled {
			noPanic(r, "pg-parse-panic", line, r.Do(line))
		} else {
			noPanic(r, "pg-parse-panic", line, r.Impl(line))
		}
	}
}

// runPgBindBig: Bind messages whose three counts (parameter format codes, parameters, result format codes) sit at the
// boundaries of the unsigned Int16 – through NewBindPacket and through the real handleBindPacket with a transforming
// OnBind observer (the rewritten message must be the specification encoding with the same counts).
func runPgBindBig(r *core.Run) {
	rd := r.Rand
	type shape struct{ npf, npv, nrf int }
	shapes := []shape{{0, 0, 0}, {1, 1, 1}, {1, 32767, 0}, {1, 32768, 1}, {0, 65535, 0}, {0, 1, 32768}, {1, 2, 65535}, {32768, 32768, 0}}
	if r.Thorough() {
		shapes = append(shapes, shape{65535, 65535, 1}, shape{40000, 40000, 40000}, shape{32767, 32767, 32767}, shape{1, 40000, 65535})
	}
	for _, sh := range shapes {
		pf := make([]uint16, sh.npf)
		for i := range pf {
			pf[i] = uint16((i + sh.npv) % 2)
		}
		pv := make(Row, sh.npv)
		for i := range pv {
			switch (i + rd.Intn(2)) % 3 {
			case 0:
				pv[i] = nil
			case 1:
				pv[i] = []byte{}
			default:
				pv[i] = []byte{byte('A' + i%26)}
			}
		}
		if sh.npv > 0 {
			pv[0] = []byte("first")
			pv[sh.npv-1] = []byte("last")
		}
		rf := make([]uint16, sh.nrf)
		for i := range rf {
			rf[i] = uint16(i % 2)
		}
		body := pgEncodeBind([]byte("p"), []byte("s"), pf, pv, rf)
		key := fmt.Sprintf("pg-bind-big-%d-%d-%d", sh.npf, sh.npv, sh.nrf)
		r.Begin(key, true, "stream:boundary", "pg:bind-big", "bind-count:"+countClass(sh.npv))
		got := r.Do("C12.pg.bind.fields " + core.Hex(body))
		what := fmt.Sprintf("Bind with %d parameter format codes, %d parameters, %d result format codes", sh.npf, sh.npv, sh.nrf)
		noPanic(r, "pg-bind-panic", key, got)
		r.Check(strings.HasPrefix(got, "ok "), "pg-bind-parse", what+": NewBindPacket rejects a well-formed message: "+truncLine(got))
		if sh.npv == 0 {
			continue
		}
		// rewrite: the first parameters are changed (the transformation list is short: parameters beyond it are kept)
		ts := []tr{{kind: 'a', arg: []byte("+enc")}, {kind: 'k'}, {kind: 'p', arg: []byte("enc+")}}
		msg := pgMsg('B', body)
		got = r.Do(fmt.Sprintf("C12.pg.bind %s %s", showTrs(ts), core.Hex(msg)))
		want, _ := mapRow(pv, ts)
		wantMsg := pgMsg('B', pgEncodeBind([]byte("p"), []byte("s"), canonFormats(pf, len(pv)), want, rf))
		r.Check(got == core.OkHex(wantMsg), "pg-bind-wellformed", what+": the rewritten Bind message is not the well-formed Bind with the transformed parameters and the same counts: "+truncLine(got))
	}
}

func be32val(b []byte) uint32 {
	return uint32(b[0])<<24 | uint32(b[1])<<16 | uint32(b[2])<<8 | uint32(b[3])
}

func countClass(n int) string {
	switch {
	case n == 0:
		return "0"
	case n < 32768 && n >= 1000:
		return "1000..32767"
	case n >= 32768:
		return "32768..65535"
	case n >= 10:
		return "10..999"
	}
	return "1..9"
}
