// Package c12: wire-format ops and generators (C12 – relayed messages byte-identical, rewritten ones
// well-formed). Part 1: MySQL length-encoded integers and strings.
package c12

import (
	"fmt"

	base "github.com/cossacklabs/acra/decryptor/mysql/base"

	"verifharness/internal/core"
)

func optBytes(b []byte) string {
	if b == nil {
		return "null"
	}
	return core.Hex(b)
}

func init() {
	core.Register("C12.lenenc.int", func(a []string) string {
		num, isNull, n, err := base.LengthEncodedInt(core.UnHex(a[0]))
		if err != nil {
			return core.Err
		}
		return fmt.Sprintf("ok %d %v %d", num, isNull, n)
	})
	core.Register("C12.lenenc.put", func(a []string) string {
		return core.Hex(base.PutLengthEncodedInt(core.AtoU64(a[0])))
	})
	core.Register("C12.lenenc.str", func(a []string) string {
		v, n, err := base.LengthEncodedString(core.UnHex(a[0]))
		if err != nil {
			return core.Err
		}
		return fmt.Sprintf("ok %s %d", optBytes(v), n)
	})
	core.Register("C12.lenenc.skip", func(a []string) string {
		n, err := base.SkipLengthEncodedString(core.UnHex(a[0]))
		if err != nil {
			return core.Err
		}
		return fmt.Sprintf("ok %d", n)
	})
	core.Register("C12.lenenc.putstr", func(a []string) string {
		if a[0] == "null" {
			return core.Hex(base.PutLengthEncodedString(nil))
		}
		return core.Hex(base.PutLengthEncodedString(core.UnHex(a[0])))
	})
}

// boundary values around every encoding threshold
var lenencBoundary = []uint64{0, 1, 249, 250, 251, 252, 253, 254, 255, 256, 65534, 65535, 65536, 65537,
	1<<24 - 2, 1<<24 - 1, 1 << 24, 1<<24 + 1, 1<<31 - 1, 1 << 31, 1<<32 - 1, 1 << 32, 1<<63 - 1, 1 << 63, 1<<63 + 1, 1<<64 - 9, 1<<64 - 4, 1<<64 - 1}

func runLenEnc(r *core.Run) {
	rd := r.Rand
	// 1. writer/reader round trip on boundary and random integers, with random suffixes
	ints := append([]uint64{}, lenencBoundary...)
	for i := 0; i < r.N(300, 20000); i++ {
		switch rd.Intn(4) {
		case 0:
			ints = append(ints, uint64(rd.Intn(300)))
		case 1:
			ints = append(ints, uint64(rd.Intn(1<<17)))
		case 2:
			ints = append(ints, uint64(rd.Intn(1<<25)))
		default:
			ints = append(ints, rd.U64())
		}
	}
	for _, n := range ints {
		r.Begin(fmt.Sprintf("lenenc-int-%d", n), true, "stream:structured", "lenenc:int-roundtrip")
		enc := r.Do(fmt.Sprintf("C12.lenenc.put %d", n))
		suffix := rd.Bytes(rd.Intn(4))
		back := r.Do("C12.lenenc.int " + core.Hex(append(core.UnHex(enc), suffix...)))
		want := fmt.Sprintf("ok %d false %d", n, len(core.UnHex(enc)))
		r.Check(back == want, "lenenc-int-roundtrip", fmt.Sprintf("LengthEncodedInt(PutLengthEncodedInt(%d)++suffix) = %q, want %q", n, back, want))
	}
	// 2. strings: NULL, empty, boundary lengths, random; round trip + exact consumption
	lens := []int{0, 1, 2, 249, 250, 251, 252, 253, 254, 255, 256, 300, 65535, 65536, 65537}
	if r.Thorough() {
		// the 2^24 threshold of the 3-byte form is covered by the integer round trip and by the theorem; the
		// string reader only looks at the prefix, so values of a megabyte exercise the same code
		lens = append(lens, 1<<20-1, 1<<20, 1<<20+1)
	}
	for i := 0; i < r.N(60, 2000); i++ {
		lens = append(lens, rd.Intn(600))
	}
	r.Begin("lenenc-str-null", true, "stream:structured", "lenenc:str-null")
	enc := r.Do("C12.lenenc.putstr null")
	back := r.Do("C12.lenenc.str " + core.Hex(append(core.UnHex(enc), 1, 2, 3)))
	r.Check(back == "ok null 1", "lenenc-str-null", "NULL does not round-trip: "+back)
	for _, l := range lens {
		v := rd.Bytes(l)
		r.Begin(fmt.Sprintf("lenenc-str-len%d", l), true, "stream:structured", "lenenc:str-roundtrip")
		enc := core.UnHex(r.Do("C12.lenenc.putstr " + core.Hex(v)))
		suffix := rd.Bytes(rd.Intn(5))
		back := r.Do("C12.lenenc.str " + core.Hex(append(append([]byte{}, enc...), suffix...)))
		want := fmt.Sprintf("ok %s %d", core.Hex(v), len(enc))
		r.Check(back == want, "lenenc-str-roundtrip", fmt.Sprintf("string of length %d does not round-trip (got %.60s)", l, back))
		r.Do("C12.lenenc.skip " + core.Hex(append(append([]byte{}, enc...), suffix...)))
		// truncated: must be an error, never a panic, never a value
		if len(enc) > 1 {
			cut := enc[:rd.Intn(len(enc))]
			cut = cut[:len(cut):len(cut)]
			r.Begin(fmt.Sprintf("lenenc-str-trunc%d-%d", l, len(cut)), true, "stream:malformed", "lenenc:str-truncated")
			got := r.Do("C12.lenenc.str " + core.Hex(cut))
			r.Check(got != core.Panic, "lenenc-str-panic", "LengthEncodedString panics on truncated input")
			r.Do("C12.lenenc.skip " + core.Hex(cut))
		}
	}
	// 3. malformed stream: every marker with every short length, huge declared lengths, random bytes
	var mal [][]byte
	mal = append(mal, []byte{})
	for _, m := range []byte{0xfb, 0xfc, 0xfd, 0xfe, 0xff, 0xfa, 0x00} {
		for l := 0; l <= 10; l++ {
			b := append([]byte{m}, rd.Bytes(l)...)
			mal = append(mal, b)
			f := append([]byte{m}, bytesOf(0xff, l)...)
			mal = append(mal, f)
		}
	}
	for _, n := range lenencBoundary {
		b := base.PutLengthEncodedInt(n)
		mal = append(mal, append(append([]byte{}, b...), rd.Bytes(rd.Intn(12))...))
	}
	for i := 0; i < r.N(300, 30000); i++ {
		mal = append(mal, rd.Bytes(rd.Intn(14)))
	}
	for i, b := range mal {
		b = b[:len(b):len(b)]
		r.Begin(fmt.Sprintf("lenenc-mal-%s", core.Hex(b)), len(b) > 0, "stream:malformed", "lenenc:malformed")
		for _, op := range []string{"C12.lenenc.int", "C12.lenenc.str", "C12.lenenc.skip"} {
			got := r.Do(op + " " + core.Hex(b))
			if !r.Check(got != core.Panic, "lenenc-panic:"+op, fmt.Sprintf("%s panics on %s", op, core.Hex(b))) {
				continue
			}
			if op == "C12.lenenc.str" && len(got) > 3 {
				var v string
				var n int
				fmt.Sscanf(got, "ok %s %d", &v, &n)
				r.Check(n >= 1 && n <= len(b), "lenenc-str-progress", fmt.Sprintf("LengthEncodedString(%s) consumed %d of %d bytes", core.Hex(b), n, len(b)))
			}
		}
		_ = i
	}
}

func bytesOf(x byte, n int) []byte {
	b := make([]byte, n)
	for i := range b {
		b[i] = x
	}
	return b
}
