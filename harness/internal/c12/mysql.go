package c12

// MySQL side of C12: ops on the real Packet / row-processing code.

import (
	"bytes"
	"context"
	"fmt"
	"net"
	"time"

	"github.com/cossacklabs/acra/decryptor/base"
	my "github.com/cossacklabs/acra/decryptor/mysql"
	mybase "github.com/cossacklabs/acra/decryptor/mysql/base"
	"github.com/cossacklabs/acra/encryptor/base/config"

	"verifharness/internal/core"
)

// streamConn is a net.Conn over a byte string (reads fail with EOF when it is exhausted).
type streamConn struct{ r *bytes.Reader }

func (c streamConn) Read(p []byte) (int, error)         { return c.r.Read(p) }
func (c streamConn) Write(p []byte) (int, error)        { return len(p), nil }
func (c streamConn) Close() error                       { return nil }
func (c streamConn) LocalAddr() net.Addr                { return nil }
func (c streamConn) RemoteAddr() net.Addr               { return nil }
func (c streamConn) SetDeadline(t time.Time) error      { return nil }
func (c streamConn) SetReadDeadline(t time.Time) error  { return nil }
func (c streamConn) SetWriteDeadline(t time.Time) error { return nil }

func ck(b []byte) uint32 {
	a := uint32(7)
	for _, x := range b {
		a = a*31 + uint32(x)
	}
	return a
}

func showBig(b []byte) string {
	k := len(b)
	if k > 16 {
		k = 16
	}
	return fmt.Sprintf("%d %d %s", len(b), ck(b), core.Hex(b[:k]))
}

// genPayload is the rule shared with the Lean driver: payload[i] = (i*7+seed) % 256.
func genPayload(n, seed int) []byte {
	p := make([]byte, n)
	for i := range p {
		p[i] = byte(i*7 + seed)
	}
	return p
}

const myMaxPayload = 1<<24 - 1

// myEncodePayload is the protocol's framing of a payload (harness-side specification).
func myEncodePayload(seq int, payload []byte) []byte {
	var out []byte
	for {
		k := len(payload)
		if k > myMaxPayload {
			k = myMaxPayload
		}
		out = append(out, byte(k), byte(k>>8), byte(k>>16), byte(seq))
		out = append(out, payload[:k]...)
		payload = payload[k:]
		seq++
		if k < myMaxPayload {
			return out
		}
	}
}

// myWireVal is what the harness subscriber returns: the transformed value in its wire form.
func myWireVal(types []uint16, i int, v []byte) []byte {
	if v == nil {
		v = []byte{}
	}
	if i < len(types) && myFixedWidth(int(types[i])) >= 0 {
		return v
	}
	return mybase.PutLengthEncodedString(v)
}

// myFixedWidth mirrors base.NumericTypesStorageBytes / extractData (-1: length-encoded or unknown).
func myFixedWidth(t int) int {
	if w, ok := mybase.NumericTypesStorageBytes[mybase.Type(t)]; ok {
		return int(w)
	}
	return -1
}

type myTrSubscriber struct {
	ts    []tr
	types []uint16
}

func (s *myTrSubscriber) ID() string { return "verif-transform" }
func (s *myTrSubscriber) OnColumn(ctx context.Context, data []byte) (context.Context, []byte, error) {
	info, ok := base.ColumnInfoFromContext(ctx)
	if !ok {
		panic("harness: no column info in context")
	}
	out, err := applyTrs(s.ts, info.Index(), data)
	if err != nil {
		return ctx, nil, err
	}
	return ctx, myWireVal(s.types, info.Index(), out), nil
}

func myCtx() context.Context {
	return base.SetAccessContextToContext(context.Background(), base.NewAccessContext())
}

func myFields(types []uint16) []*my.ColumnDescription {
	fields := make([]*my.ColumnDescription, len(types))
	for i, t := range types {
		fields[i] = &my.ColumnDescription{Type: mybase.Type(t)}
	}
	return fields
}

func init() {
	core.Register("C12.my.read", func(a []string) string {
		rd := bytes.NewReader(core.UnHex(a[0]))
		p, err := my.ReadPacket(streamConn{rd})
		if err != nil {
			return core.Err
		}
		return fmt.Sprintf("ok %s %s %d %s", core.Hex(p.VerifHeader()), showBig(p.GetData()), rd.Len(), showBig(p.Dump()))
	})
	core.Register("C12.my.relaygen", func(a []string) string {
		seq, n, seed := core.Atoi(a[0]), core.Atoi(a[1]), core.Atoi(a[2])
		sent := myEncodePayload(seq, genPayload(n, seed))
		rd := bytes.NewReader(sent)
		p, err := my.ReadPacket(streamConn{rd})
		if err != nil {
			return core.Err
		}
		d := p.Dump()
		return fmt.Sprintf("ok %s %d %d %d %v", core.Hex(p.VerifHeader()), len(p.GetData()), rd.Len(), len(d), bytes.Equal(d, sent))
	})
	core.Register("C12.my.payload.enc", func(a []string) string {
		return "ok " + showBig(myEncodePayload(core.Atoi(a[0]), genPayload(core.Atoi(a[1]), core.Atoi(a[2]))))
	})
	core.Register("C12.my.setdata", func(a []string) string {
		p := my.VerifNewPacket(append([]byte{}, core.UnHex(a[0])...), nil)
		p.SetData(core.UnHex(a[1]))
		return fmt.Sprintf("ok %s %s", core.Hex(p.VerifHeader()), showBig(p.Dump()))
	})
	core.Register("C12.my.setdata.len", func(a []string) string {
		// SetData with a payload given by its length only (contents do not matter for the header)
		p := my.VerifNewPacket(append([]byte{}, core.UnHex(a[0])...), nil)
		p.SetData(make([]byte, core.Atoi(a[1])))
		return core.OkHex(p.VerifHeader())
	})
	core.Register("C12.my.replacequery", func(a []string) string {
		p := my.VerifNewPacket(append([]byte{}, core.UnHex(a[0])...), append([]byte{}, core.UnHex(a[1])...))
		p.VerifReplaceQuery(string(core.UnHex(a[2])))
		return core.OkHex(p.Dump())
	})
	core.Register("C12.my.textrow", func(a []string) string {
		n := core.Atoi(a[0])
		ts := parseTrs(a[1])
		h := my.VerifNewHandler(quietLogger, &myTrSubscriber{ts: ts})
		out, err := h.VerifProcessTextDataRow(myCtx(), core.UnHex(a[2]), myFields(make([]uint16, n)))
		if err != nil {
			return core.Err
		}
		return core.OkHex(out)
	})
	core.Register("C12.my.binrow", func(a []string) string {
		types := parseNats(a[0])
		ts := parseTrs(a[1])
		h := my.VerifNewHandler(quietLogger, &myTrSubscriber{ts: ts, types: types})
		out, err := h.VerifProcessBinaryDataRow(myCtx(), core.UnHex(a[2]), myFields(types))
		if err != nil {
			return core.Err
		}
		return core.OkHex(out)
	})
	// rows through the real decoder → encoder subscribers without any column setting: nothing may change
	core.Register("C12.my.chain", func(a []string) string {
		types := parseNats(a[1])
		h := my.VerifNewHandler(quietLogger, my.NewDataDecoderProcessor(), my.NewDataEncoderProcessor())
		var out []byte
		var err error
		if a[0] == "text" {
			out, err = h.VerifProcessTextDataRow(myCtx(), core.UnHex(a[2]), myFields(types))
		} else {
			out, err = h.VerifProcessBinaryDataRow(myCtx(), core.UnHex(a[2]), myFields(types))
		}
		if err != nil {
			return core.Err
		}
		return core.OkHex(out)
	})
}

// ---------- harness-side specification codecs ----------

func myEncodeTextRow(r Row) []byte {
	var out []byte
	for _, c := range r {
		out = append(out, mybase.PutLengthEncodedString(c)...)
	}
	return out
}

// myLenEnc is an independent length-encoded string reader (strict).
func myLenEnc(b []byte) (val []byte, n int, ok bool) {
	if len(b) == 0 {
		return nil, 0, false
	}
	var l uint64
	switch b[0] {
	case 0xfb:
		return nil, 1, true
	case 0xfc:
		if len(b) < 3 {
			return nil, 0, false
		}
		l, n = uint64(b[1])|uint64(b[2])<<8, 3
	case 0xfd:
		if len(b) < 4 {
			return nil, 0, false
		}
		l, n = uint64(b[1])|uint64(b[2])<<8|uint64(b[3])<<16, 4
	case 0xfe:
		if len(b) < 9 {
			return nil, 0, false
		}
		for i := 0; i < 8; i++ {
			l |= uint64(b[1+i]) << (8 * i)
		}
		n = 9
	default:
		l, n = uint64(b[0]), 1
	}
	if l > uint64(len(b)-n) {
		return nil, 0, false
	}
	return append([]byte{}, b[n:n+int(l)]...), n + int(l), true
}

func myDecodeTextRow(nfields int, b []byte) (Row, bool) {
	r := Row{}
	for i := 0; i < nfields; i++ {
		v, n, ok := myLenEnc(b)
		if !ok {
			return nil, false
		}
		r = append(r, v)
		b = b[n:]
	}
	return r, len(b) == 0
}

func myEncodeBinRow(types []uint16, r Row) []byte {
	nb := (len(r) + 7 + 2) / 8
	out := make([]byte, 1+nb)
	for i, c := range r {
		if c == nil {
			out[1+(i+2)/8] |= 1 << ((i + 2) % 8)
		}
	}
	for i, c := range r {
		if c == nil {
			continue
		}
		if myFixedWidth(int(types[i])) >= 0 {
			out = append(out, c...)
		} else {
			out = append(out, mybase.PutLengthEncodedString(c)...)
		}
	}
	return out
}

func myDecodeBinRow(types []uint16, b []byte) (Row, bool) {
	nb := (len(types) + 7 + 2) / 8
	if len(b) < 1+nb || b[0] != 0 {
		return nil, false
	}
	bitmap := b[1 : 1+nb]
	b = b[1+nb:]
	r := Row{}
	for i, t := range types {
		if bitmap[(i+2)/8]&(1<<((i+2)%8)) != 0 {
			r = append(r, nil)
			continue
		}
		if w := myFixedWidth(int(t)); w >= 0 {
			if len(b) < w {
				return nil, false
			}
			r = append(r, append([]byte{}, b[:w]...))
			b = b[w:]
			continue
		}
		v, n, ok := myLenEnc(b)
		if !ok || v == nil {
			return nil, false
		}
		r = append(r, v)
		b = b[n:]
	}
	return r, len(b) == 0
}

// ---------- column definitions ----------

// myColDef builds a ColumnDefinition41 payload (canonical encoding, no default value).
func myColDef(schema, table, orgTable, name, orgName []byte, charset uint16, length uint32, typ byte, flags uint16, decimals byte) []byte {
	var out []byte
	for _, s := range [][]byte{[]byte("def"), schema, table, orgTable, name, orgName} {
		if s == nil {
			s = []byte{}
		}
		out = append(out, mybase.PutLengthEncodedString(s)...)
	}
	out = append(out, 0x0c, byte(charset), byte(charset>>8), byte(length), byte(length>>8), byte(length>>16), byte(length>>24), typ, byte(flags), byte(flags>>8), decimals, 0, 0)
	return out
}

func init() {
	// C12.my.coldef <declared type|none> <seq> <payload> [<maria 0|1>]: parse a column definition packet, let the real
	// updateFieldEncodedType rewrite it for a column `c` of table `t` with that data_type, dump it.
	core.Register("C12.my.coldef", func(a []string) string {
		payload := core.UnHex(a[2])
		hdr := []byte{byte(len(payload)), byte(len(payload) >> 8), byte(len(payload) >> 16), byte(core.Atoi(a[1]))}
		p := my.VerifNewPacket(hdr, payload)
		field, err := my.ParseResultField(p, len(a) > 3 && a[3] == "1")
		if err != nil {
			return core.Err
		}
		yaml := "schemas:\n  - table: t\n    columns:\n      - id\n      - c\n    encrypted:\n      - column: c\n"
		if a[0] != "none" {
			yaml += "        data_type: " + a[0] + "\n"
		}
		store, err := config.MapTableSchemaStoreFromConfig([]byte(yaml), config.UseMySQL)
		if err != nil {
			panic("harness: schema: " + err.Error())
		}
		my.VerifUpdateFieldEncodedType(field, store)
		return core.OkHex(field.Dump())
	})
}

// ---------- COM_STMT_EXECUTE parameters ----------

func init() {
	// C12.my.execute <nparams> <trs> <seq> <payload>: GetBindParameters → transform the non-NULL values
	// (BoundValue.SetData, as the query encryptors do in OnBind) → SetParameters → Dump
	core.Register("C12.my.execute", func(a []string) string {
		n := core.Atoi(a[0])
		ts := parseTrs(a[1])
		payload := append([]byte{}, core.UnHex(a[3])...)
		payload = payload[:len(payload):len(payload)]
		hdr := []byte{byte(len(payload)), byte(len(payload) >> 8), byte(len(payload) >> 16), byte(core.Atoi(a[2]))}
		p := my.VerifNewPacket(hdr, payload)
		vals, err := p.GetBindParameters(n)
		if err != nil {
			return core.Err
		}
		for i, v := range vals {
			if v == nil {
				return "nil-values" // new_params_bind_flag = 0: the parameters are not available
			}
			d, err := v.GetData(nil)
			if err != nil {
				return core.Err
			}
			if d == nil {
				continue
			}
			out, err := applyTrs(ts, i, d)
			if err != nil {
				return core.Err
			}
			if out == nil {
				out = []byte{}
			}
			if err := v.SetData(out, nil); err != nil {
				return core.Err
			}
		}
		if err := p.SetParameters(vals); err != nil {
			return core.Err
		}
		return core.OkHex(p.Dump())
	})
}

// myExecute builds a COM_STMT_EXECUTE payload: types[i] with flag byte, values nil = NULL (bitmap)
func myExecute(stmtID uint32, flags byte, types [][2]byte, vals Row) []byte {
	out := []byte{0x17, byte(stmtID), byte(stmtID >> 8), byte(stmtID >> 16), byte(stmtID >> 24), flags, 1, 0, 0, 0}
	bm := make([]byte, (len(vals)+7)/8)
	for i, v := range vals {
		if v == nil {
			bm[i/8] |= 1 << (i % 8)
		}
	}
	out = append(out, bm...)
	out = append(out, 1)
	for _, t := range types {
		out = append(out, t[0], t[1])
	}
	for i, v := range vals {
		if v == nil {
			continue
		}
		if myFixedWidth(int(types[i][0])) >= 0 {
			out = append(out, v...)
		} else {
			out = append(out, mybase.PutLengthEncodedString(v)...)
		}
	}
	return out
}
