package c12

import (
	"time"

	"verifharness/internal/core"
)

func init() { core.RegisterProp("C12", run) }

func run(r *core.Run) {
	r.Rule = "generated wire values (structured: writer output + suffix; boundary: every encoding threshold; malformed: markers × short lengths, huge declared lengths, random bytes); a case is non-trivial when the input is non-empty; distinct by input bytes"
	ms := map[string]int64{}
	for _, sec := range []struct {
		name string
		f    func(*core.Run)
	}{{"runCorpus", runCorpus}, {"runLenEnc", runLenEnc}, {"runPg", runPg}, {"runMysql", runMysql}, {"runBytea", runBytea}, {"runPgExt", runPgExt}, {"runPgParse", runPgParse}, {"runPgBindBig", runPgBindBig}, {"runPgDescribe", runPgDescribe}} {
		t0 := time.Now()
		sec.f(r)
		ms[sec.name] = time.Since(t0).Milliseconds()
	}
	r.Extra["section_ms"] = ms
}
