package c12

import "verifharness/internal/core"

func init() { core.RegisterProp("C12", run) }

func run(r *core.Run) {
	r.Rule = "generated wire values (structured: writer output + suffix; boundary: every encoding threshold; malformed: markers × short lengths, huge declared lengths, random bytes); a case is non-trivial when the input is non-empty; distinct by input bytes"
	runCorpus(r)
	runLenEnc(r)
	runPg(r)
	runMysql(r)
	runBytea(r)
	runPgExt(r)
}
