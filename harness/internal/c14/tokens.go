package c14

// The SQL tokenizer (sqlparser/token.go) against its Lean model (lean/AcraModel/Sql/Tokenizer.lean).
//
// Op `C14.tokens <spec> <hex>`: spec = outer[/inner][,multi] with dialects mysql | ansi | postgresql (inner =
// the package's default dialect, which the nested tokenizer of a `/*! … */` comment gets; acra-server sets it
// to the configured dialect, so inner = outer unless stated). The op runs the loop
// `for { typ, val := tkn.Scan(); …; if typ == 0 { break } }` on the real tokenizer and prints, per token,
// `id:payload-hex:Position`. The loop is cut after len(input)+2 calls – the model PROVES that at most
// len(input)+1 calls are needed (Props/C14 tokenizer_progress); a tokenizer that returns tokens without
// advancing shows up as outcome `stuck`.

import (
	"bytes"
	"fmt"
	"runtime/debug"
	"strings"
	"sync"
	"time"

	"github.com/cossacklabs/acra/sqlparser"
	"github.com/cossacklabs/acra/sqlparser/dialect"
	mydialect "github.com/cossacklabs/acra/sqlparser/dialect/mysql"
	pgdialect "github.com/cossacklabs/acra/sqlparser/dialect/postgresql"

	"verifharness/internal/c13"
	"verifharness/internal/core"
)

func dialectOf(s string) dialect.Dialect {
	switch s {
	case "mysql":
		return mydialect.NewMySQLDialect()
	case "ansi":
		return mydialect.NewMySQLDialect(mydialect.SetANSIMode(true))
	case "postgresql":
		return pgdialect.NewPostgreSQLDialect()
	}
	panic("harness: unknown dialect " + s)
}

var defaultDialectMu sync.Mutex

func tokensOp(a []string) string {
	parts := strings.Split(a[0], ",")
	multi := false
	for _, p := range parts[1:] {
		if p == "multi" {
			multi = true
		}
	}
	ds := strings.Split(parts[0], "/")
	outer := dialectOf(ds[0])
	inner := outer
	if len(ds) == 2 {
		inner = dialectOf(ds[1])
	}
	in := core.UnHex(a[1])
	defaultDialectMu.Lock()
	defer defaultDialectMu.Unlock()
	sqlparser.SetDefaultDialect(inner)
	defer sqlparser.SetDefaultDialect(mydialect.NewMySQLDialect())
	tkn := sqlparser.NewStringTokenizerWithDialect(outer, string(in))
	if multi {
		sqlparser.VerifSetMulti(tkn, true)
	}
	var out []string
	limit := len(in) + 2
	for i := 0; ; i++ {
		if i >= limit {
			return "stuck"
		}
		typ, val := tkn.Scan()
		out = append(out, fmt.Sprintf("%d:%s:%d", typ, core.Hex(val), tkn.Position))
		if typ == 0 {
			break
		}
	}
	return strings.Join(out, " ")
}

// lexOp: `C14.lex <spec> <allowComments 0|1> <force - | k> <hex>` – the loop the generated parser runs:
// `for { tok := Lex(); if tok == 0 { break } }`; after k tokens ForceEOF is set, as the grammar does for statements
// it does not parse further. Same step limit as tokensOp.
func lexOp(a []string) string {
	parts := strings.Split(a[0], ",")
	multi := false
	for _, p := range parts[1:] {
		if p == "multi" {
			multi = true
		}
	}
	ds := strings.Split(parts[0], "/")
	outer := dialectOf(ds[0])
	inner := outer
	if len(ds) == 2 {
		inner = dialectOf(ds[1])
	}
	force := -1
	if a[2] != "-" {
		fmt.Sscan(a[2], &force)
	}
	in := core.UnHex(a[3])
	defaultDialectMu.Lock()
	defer defaultDialectMu.Unlock()
	sqlparser.SetDefaultDialect(inner)
	defer sqlparser.SetDefaultDialect(mydialect.NewMySQLDialect())
	tkn := sqlparser.NewStringTokenizerWithDialect(outer, string(in))
	tkn.AllowComments = a[1] == "1"
	if multi {
		sqlparser.VerifSetMulti(tkn, true)
	}
	var out []string
	limit := len(in) + 2
	for i := 0; ; i++ {
		if i >= limit {
			return "stuck"
		}
		if force >= 0 && i >= force {
			tkn.ForceEOF = true
		}
		typ, val := sqlparser.VerifLex(tkn)
		out = append(out, fmt.Sprintf("%d:%s:%d", typ, core.Hex(val), tkn.Position))
		if typ == 0 {
			break
		}
	}
	return strings.Join(out, " ")
}

// depthOp: `C14.tokdepth <dialect> <unit-hex> <n>` – tokenises unit × n with the goroutine stack capped at 16 MiB.
// Run ONLY in an isolated child process (r.ImplIsolated): exceeding the cap is `fatal error: stack overflow`, which
// no recover() catches – the child dies and the outcome is `panic`. The stack a correct tokenizer needs does not
// depend on the input (the Scan loop is iterative; the deepest legitimate nesting is Scan → nested Scan).
func depthOp(a []string) string {
	debug.SetMaxStack(16 << 20)
	var n int
	fmt.Sscan(a[2], &n)
	in := bytes.Repeat(core.UnHex(a[1]), n)
	d := dialectOf(a[0])
	defaultDialectMu.Lock()
	defer defaultDialectMu.Unlock()
	sqlparser.SetDefaultDialect(d)
	tkn := sqlparser.NewStringTokenizerWithDialect(d, string(in))
	cnt := 0
	for i := 0; i < len(in)+2; i++ {
		typ, _ := tkn.Scan()
		cnt++
		if typ == 0 {
			return fmt.Sprintf("ok %d", cnt)
		}
	}
	return "stuck"
}

func init() {
	core.Register("C14.tokens", tokensOp)
	core.Register("C14.lex", lexOp)
	core.Register("C14.tokdepth", depthOp)
}

// ---------- generators ----------

var tokSpecs = []string{"mysql", "postgresql", "ansi", "mysql/postgresql", "postgresql/mysql", "mysql,multi", "postgresql,multi"}

// lexical boundary table: every class of the tokenizer with its unterminated / degenerate forms
func tokenBoundary() [][]byte {
	var out [][]byte
	add := func(ss ...string) {
		for _, s := range ss {
			out = append(out, []byte(s))
		}
	}
	add("", " ", "\x00", "\x00\x00", "a\x00b", "\x00a", " \x00 ", "\x00\x00\x00select", "a \x00\x00 b", ";", ";;", "a;b", "a ; b")
	// strings, all quote kinds, unterminated, doubled, escapes
	for _, q := range []string{"'", "\"", "`"} {
		add(q, q+q, q+q+q, q+"a", q+"a"+q, q+"a"+q+q, q+"a"+q+q+"b"+q, q+"\\", q+"\\"+q, q+"\\\\"+q, q+"a\\", q+"\\x", q+"\\x41"+q, q+"a\\x41"+q,
			q+"\\X"+q, q+q+q+"\\x"+q, q+"\\n\\x"+q, q+"\x00"+q, q+"\xff\x80"+q, q+"a"+q+"b", q+"a"+q+" "+q+"b"+q, "x"+q+"a"+q, q+" "+q+q+" "+q)
		for c := 0; c < 256; c++ { // every escape letter
			out = append(out, []byte(q+"\\"+string([]byte{byte(c)})+q), []byte(q+"a\\"+string([]byte{byte(c)})+"b"+q))
		}
		// identifier quotes of the other kinds inside
		for _, q2 := range []string{"'", "\"", "`"} {
			add(q+"a"+q2+"b"+q, q+"a"+q2, q+q2+q2+q, q+"a"+q2+q2+"b"+q, q+"a"+q+q2+"b"+q2)
		}
	}
	add("E'", "E''", "e'a\\n'", "E'\\x41'", "E'a''b'", "E", "e", "Ex", "E 'a'", "E\"a\"", "X'", "X''", "x'4'", "x'41'", "X'4g'", "x'41", "X'414'", "x 'a'", "B'", "b''", "b'01'", "B'012'", "b'01", "b'2'",
		"N'a'", "_binary'a'", "_utf8'a'")
	// numbers
	add("0", "00", "01", "0x", "0X", "0x1f", "0xg", "0x1g", "0xx", "0b", "0b1", "0b12", "1", "12", "1.", "1.5", "1..", "1..2", ".", "..", ".5", ".5.", ".e", ".5e", ".5e+", ".5e-1", ".5e1x", "1e", "1e+", "1e-", "1e5", "1E5", "1e+5", "1e+-5",
		"1e5e5", "1ee", "1.e5", "1.5e", "1a", "1_", "1@", "1.a", "1e5a", "0xa.5", "0x.5", "0e", "0e1", "0.", "0.e1", "9223372036854775808", "1e999", "-1", "- 1", "--1", "+1", "1-1", "1 .5", "a.5", "a.b", "a..b", "a.1e5", ". 5", "1.5.5")
	// dollar
	add("$", "$$", "$1", "$12", "$0", "$0x1", "$1a", "$a", "$e5", "$1e5", "$1.5", "$.5", "$ 1", "$$1", "$1$2", "$-1", "$$a$$", "$tag$a$tag$", "$\x00")
	// bind variables
	add(":", "::", ":::", ":a", "::a", ":::a", ":a.b", ":a.", ":1", ": a", ":_", ":@", "::1", ":a:b", "a::int", "'1'::int", "a:b", ":a1.b2..c", ":\x00")
	// system variables and @ identifiers
	add("@", "@@", "@a", "@@a", "@@a.b", "@@global.a", "@@`a`", "@@'a'", "@@\"a\"", "@@a.`b`.c", "@@.", "@@@", "@@@a", "@a.b", "@a@b", "@ a", "@@ a", "a@@b", "@@a'b", "@@`", "@@a`b`'c'\"d\"")
	// keywords / identifiers
	add("select", "SELECT", "SeLeCt", "dual", "DUAL", "Dual", "duals", "_binary", "_BINARY", "rlike", "x", "X", "b", "B", "e", "xa", "ba", "ea", "a1", "a_b", "a$b", "a#b", "_", "__", "a1b2", "é", "aé", "select*from t", "null", "NULL", "true", "unused",
		"accessible", "ACCESSIBLE", "current_timestamp", "vitess_tablets", "last_insert_id")
	// operators: every string of length ≤ 3 over the operator alphabet
	alpha := "&|<>=!-/*.?#$:;+%^~@, "
	for i := 0; i < len(alpha); i++ {
		add(alpha[i : i+1])
		for j := 0; j < len(alpha); j++ {
			add(string([]byte{alpha[i], alpha[j]}))
			for k := 0; k < len(alpha); k++ {
				add(string([]byte{alpha[i], alpha[j], alpha[k]}))
			}
		}
	}
	add("<=>", "<=>>", "<==>", "->>", "->>>", "->", "-->", "- >", "<>", "<<", "<<<", ">>", ">>=", ">=>", "!=", "!==", "! =", "&&", "&&&", "||", "|||", "a->b", "a->>b", "a<=>b")
	// comments
	add("/", "//", "// a", "// a\n", "// a\nb", "//\n", "//\r\n", "#", "# a", "#\n", "#a\nb", "-", "--", "-- a", "--a", "--\n", "-- a\nb", "--\nb", "---", "/*", "/**", "/**/", "/***/", "/*/", "/* a", "/* a *", "/* a */", "/* a */b", "/* a * / */",
		"/* a */ */", "/*a*//*b*/", "/* /* a */ */", "*/", "a/*b*/c", "/*\x00*/", "/*\xff*/")
	// version comments of every shape
	for _, body := range []string{"", " ", "1", "12", "123", "1234", "12345", "123456", "1234567", "12345 a", "12345a", "123456a", "1234567 a", " a", "a", "a b", " select 1 ", "50000 select", "50000select", "40101 SET @a=1", "\t\n a \r\n",
		"\xc2\xa0a\xc2\xa0", "\xc2\x85a", "\xe2\x80\xa8a\xe2\x80\xa9", "\xe3\x80\x80a", "\xe1\x9a\x80a", "\xd9\xa1\xd9\xa2 a", "1\xd9\xa1a", "\xd9\xa1\xd9\xa2\xd9\xa3\xd9\xa4\xd9\xa5\xd9\xa6\xd9\xa7", "\xff", "\xff a", "a\xff", "a \xff ", " \xc2", "a \xc2", "a\xc2\xa0\xc2", "a \xe2\x80", "a \xa0", "a\xe2\x80\xa8\x80",
		"\xf0\x9d\x9f\x8e1 a", "\xf0\x9d\x9f\x8e", "12345\xc2\xa0a", "*", "**", "* ", " *", "/", "/ *", "a*", "*a", "a * b", "'a'", "'a", "\"a", "`a", "a -- b", "a # b", "?", "? ?", "/*! b", "/*!b", "/* b", "--", "1.5", "$1", ":a", "::a", "a;b", ";", "\x00", "\x00a", "a\x00", " \x00 "} {
		add("/*!"+body+"*/", "/*!"+body+"*/ x", "a /*!"+body+"*/ b", "/*!"+body+"*/\x00x", "/*!"+body, "/*!"+body+"*", "/*!"+body+"*/ /*!"+body+"*/", "? /*!"+body+" ? */ ?")
	}
	add("/*!", "/*!*", "/*!/", "/*!*/", "/*!**/", "/*!*/*/", "/*! */", "/*!!*/", "/*!/**/", "/*!/*!a*/", "/*! /*! a */ */", "/*!a/*!b*/c*/", "/*!-- a*/b", "/*!# a\n*/b", "/*!'a*/'", "/*!'a'*/'b'")
	// long tokens
	for _, n := range []int{100, 4095, 4096, 4097, 20000} {
		x := strings.Repeat("a", n)
		add(x, "'"+x+"'", "'"+x, "\""+x+"\"", "`"+x+"`", "/*"+x+"*/", "/*"+x, "/*!"+x+"*/", "--"+x, strings.Repeat("1", n), "0x"+strings.Repeat("f", n), "."+strings.Repeat("1", n), ":"+x, "@@"+x, "$"+strings.Repeat("1", n),
			strings.Repeat("?", n/10), strings.Repeat(" ", n), strings.Repeat("\x00", n/10), strings.Repeat("'", n), strings.Repeat("\\", n), "'"+strings.Repeat("\\'", n/2), strings.Repeat("/*!", n/3), strings.Repeat("(", n))
	}
	return out
}

var tokAlphabet = []byte(" \t\n\r\x00'\"`\\/*!-#.:;?$@_0123456789abefxXEBn<>=&|(),+%^~\x80\xc2\xa0\xff\xe2")

func randomLexeme(rd *core.Rand) []byte {
	switch rd.Intn(14) {
	case 0:
		return rd.Bytes(1 + rd.Intn(6))
	case 1:
		return []byte(core.Pick(rd, []string{"select", "from", "where", "dual", "t", "a1", "@@x.y", "@v", "_binary", "null", "X", "b", "E"}))
	case 2:
		return []byte(core.Pick(rd, []string{"'a'", "'a''b'", "'\\n'", "'\\x41'", "\"q\"", "`i`", "`i``j`", "\"i\"\"j\"", "E'\\\\'", "x'4142'", "b'101'", "'", "\"", "`"}))
	case 3:
		return []byte(core.Pick(rd, []string{"1", "0", "0x1f", "1.5", ".5", "1e5", "1e+", "0x", "1.", "$1", "$", ":a", "::a", ":", "?", "1a"}))
	case 4:
		return []byte(core.Pick(rd, []string{"/* c */", "/*! 50000 x */", "/*!1*/", "/*!*/", "-- c\n", "# c\n", "// c\n", "/*", "/*!", "*/", "--", "#"}))
	case 5:
		return []byte(core.Pick(rd, []string{"<=>", "->>", "->", "<>", "!=", "<<", ">>", ">=", "<=", "&&", "||", "=", ",", "(", ")", ";", ".", "-", "/", "*"}))
	case 6:
		return []byte(core.Pick(rd, []string{" ", "  ", "\n", "\t", "\r\n", "\x00", "\x00\x00"}))
	default:
		n := 1 + rd.Intn(5)
		b := make([]byte, n)
		for i := range b {
			b[i] = tokAlphabet[rd.Intn(len(tokAlphabet))]
		}
		return b
	}
}

func checkTokens(r *core.Run, spec string, in []byte) {
	out := r.Do("C14.tokens " + spec + " " + core.Hex(in))
	what := fmt.Sprintf("tokenizer [%s] on %d bytes (%q…)", spec, len(in), string(in[:min(len(in), 60)]))
	r.Check(out != core.Panic, "panic:C14.tokens", what+" panics: "+firstLine(core.LastPanic))
	r.Check(out != "stuck", "stuck:C14.tokens", what+" keeps returning tokens without reaching the end of the input")
	if out == core.Panic || out == "stuck" {
		return
	}
	// direct oracles on the implementation's own output: token count, positions, payload volume
	toks := strings.Split(out, " ")
	r.Check(len(toks) <= len(in)+1, "count:C14.tokens", what+fmt.Sprintf(" returns %d tokens for %d bytes", len(toks), len(in)))
	total, qm := 0, 0
	last := -1
	for _, t := range toks {
		f := strings.Split(t, ":")
		if len(f) != 3 {
			continue
		}
		if f[1] != "-" {
			total += len(f[1]) / 2
		}
		if strings.HasPrefix(f[1], "3a76") {
			qm++
		}
		var p int
		fmt.Sscan(f[2], &p)
		r.Check(p >= last && p <= len(in)+1, "position:C14.tokens", what+" reports a position that moves backwards or leaves the input")
		last = p
	}
	r.Check(total <= len(in)+1+qm*(2+len(fmt.Sprint(len(in)))), "alloc:C14.tokens", what+fmt.Sprintf(" returns %d payload bytes for %d input bytes", total, len(in)))
	r.Tag("tokens:"+bucket(len(toks)), "spec:"+spec)
	// the parser's loop (Lex: comments skipped or kept; ForceEOF set after k tokens) on the same input
	if k := len(in) % 4; k != 3 {
		ac := []string{"0", "1", "0"}[k]
		force := "-"
		if k == 2 {
			force = fmt.Sprint(len(toks) / 2)
		}
		lo := r.Do("C14.lex " + spec + " " + ac + " " + force + " " + core.Hex(in))
		r.Check(lo != core.Panic, "panic:C14.lex", what+" panics in Lex: "+firstLine(core.LastPanic))
		r.Check(lo != "stuck", "stuck:C14.lex", what+": Lex keeps returning tokens without reaching the end of the input")
	}
}

func bucket(n int) string {
	switch {
	case n <= 1:
		return "≤1"
	case n <= 4:
		return "2-4"
	case n <= 16:
		return "5-16"
	case n <= 64:
		return "17-64"
	}
	return ">64"
}

// runTokens is the tokenizer slice of the C14 run.
func runTokens(r *core.Run) {
	rd := r.Rand
	// 0. regression corpus (defect witnesses of the tokenizer, fixed or known)
	for _, w := range tokenWitnesses {
		r.Begin("tok-witness-"+core.Hex([]byte(w)), true, "stream:tok-witness")
		for _, spec := range tokSpecs[:3] {
			checkTokens(r, spec, []byte(w))
		}
	}
	// 0b. stack depth: long runs of one lexeme, in a child process whose goroutine stacks are capped at 16 MiB.
	// Witness of the repaired recursion: every `/*!…*/` comment without a token used to nest one more Scan call
	// (3 000 000 × `/*!*/` = 15 MB ended in `fatal error: stack overflow`, which kills the whole process).
	depthUnits := []string{"/*!*/", "/*! */", "/*!50000*/", "/*!1*/ ", "/*!a*/", "/**/", "--\n", "#\n", "''", "``", "(", ";", "?", "/*!", "\x00", "a ", "1 ", ". ", "$", ":", "::a ", "@@a "}
	reps := r.N(300000, 1000000)
	for i, u := range depthUnits {
		if !r.Thorough() && i >= 5 && (i+int(rd.Intn(3)))%3 != 0 { // quick: the version-comment units always, a third of the rest
			continue
		}
		dia := []string{"mysql", "postgresql"}[i%2]
		r.Begin("tok-depth-"+core.Hex([]byte(u))+dia, true, "stream:tok-depth")
		out := r.ImplIsolated(fmt.Sprintf("C14.tokdepth %s %s %d", dia, core.Hex([]byte(u)), reps), 300*time.Second)
		what := fmt.Sprintf("tokenizer [%s] on %d × %q", dia, reps, u)
		r.Check(out != core.Panic, "stack:C14.tokens", what+" needs a goroutine stack of more than 16 MiB (stack depth grows with the input; beyond 1 GB the process dies with fatal error: stack overflow)")
		r.Check(out != "timeout" && out != "oom" && out != "stuck", "hang:C14.tokens", what+": "+out)
		r.Tag("depth-outcome:" + strings.SplitN(out, " ", 2)[0])
	}
	// 1. boundary table × dialects
	bt := tokenBoundary()
	r.Extra["tokenizer_boundary_inputs"] = len(bt)
	step := 1
	if !r.Thorough() {
		step = 3 // quick: every third entry per seed (offset by the seed), all entries over three seeds
	}
	off := rd.Intn(step)
	for i := off; i < len(bt); i += step {
		b := bt[i]
		if !r.Thorough() && len(b) > 5000 {
			continue
		}
		r.Begin("tok-b-"+core.Hex(b[:min(len(b), 48)])+fmt.Sprint(len(b)), len(b) > 0, "stream:tok-boundary")
		specs := tokSpecs
		if !r.Thorough() {
			specs = []string{tokSpecs[i%3], tokSpecs[3+i%4]}
		}
		for _, spec := range specs {
			checkTokens(r, spec, b)
		}
	}
	// 2. Acra's own statement tables, as they are and with one lexical mutation
	table := c13.TestTableStatements()
	r.Extra["tokenizer_table_statements"] = len(table)
	nt := r.N(400, len(table))
	for i := 0; i < nt && len(table) > 0; i++ {
		s := []byte(table[(i+rd.Intn(len(table)))%len(table)])
		if r.Thorough() {
			s = []byte(table[i])
		}
		r.Begin("tok-t-"+core.Hex(s[:min(len(s), 48)])+fmt.Sprint(len(s)), true, "stream:tok-table")
		checkTokens(r, tokSpecs[i%3], s)
		m := mutate(rd, s)
		r.Begin("tok-tm-"+core.Hex(m[:min(len(m), 48)])+fmt.Sprint(len(m), i), len(m) > 0, "stream:tok-table-mutation")
		checkTokens(r, tokSpecs[i%len(tokSpecs)], m)
	}
	// 3. lexeme soup and random bytes
	for i := 0; i < r.N(1500, 60000); i++ {
		var b []byte
		if i%5 == 4 {
			b = rd.Bytes(rd.Intn(40))
		} else {
			for n := 1 + rd.Intn(8); n > 0; n-- {
				b = append(b, randomLexeme(rd)...)
			}
		}
		r.Begin("tok-r-"+core.Hex(b), len(b) > 0, "stream:tok-random")
		checkTokens(r, tokSpecs[i%len(tokSpecs)], bytes.Clone(b))
	}
}

// tokenWitnesses: inputs of tokenizer defects (regression corpus; run first on every run).
var tokenWitnesses = []string{
	// ExtractMysqlComment sliced with -1 for a version comment holding only (at most five) digits – repaired
	// (repo-patches 52 of the C09/C14 builder: "fix: ExtractMysqlComment no longer slices with -1 …")
	"/*!*/", "/*!123*/", "select 1 /*!99999*/", "/*!12345*/ x",
	// Scan recursed once per version comment without a token (stack depth ∝ input; repaired: repo-patches 61) – short
	// forms here (same tokens before and after the repair), the long form is the tok-depth stream
	"/*!*//*!*//*!*/", "/*! *//*!1*/ /*!22*/a/*!*/", "/*!*/ /*!*/ x /*!*/",
}
