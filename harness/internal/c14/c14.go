// Package c14: implementation-side ops, generators and oracles for property C14.
package c14
