// Package c14: no input can crash a handler or make it consume unbounded resources (C14).
//
// The decoders that have Lean models carry no-panic/termination THEOREMS (Props/C14.lean collects
// them; their correspondence runs on the malformed streams of C01/C03/C10/C12/C20 …). This package
// adds (a) a sweep of every registered decoder op over a shared malformed stream, compared with the
// model where one exists, and (b) boundary-directed and mutation fuzzing of the decoders that are
// NOT modelled (SQL parsers of both dialects, pg_query, YAML configuration of encryptor and
// firewall, the ASN.1 key-ring reader) under a per-op timeout and memory limit. (b) supports the
// search for failing inputs; it is exploration, not a theorem, and the evidence says so.
package c14

import (
	"bytes"
	"fmt"
	"os"
	"path/filepath"
	"strings"
	"time"

	acracensor "github.com/cossacklabs/acra/acra-censor"
	"github.com/cossacklabs/acra/encryptor/base/config"
	encmysql "github.com/cossacklabs/acra/encryptor/mysql"
	"github.com/cossacklabs/acra/keystore/v2/keystore/asn1"
	"github.com/cossacklabs/acra/sqlparser"
	mydialect "github.com/cossacklabs/acra/sqlparser/dialect/mysql"
	pgdialect "github.com/cossacklabs/acra/sqlparser/dialect/postgresql"
	pg_query "github.com/cossacklabs/pg_query_go/v5"

	"verifharness/internal/core"
	env "verifharness/internal/envops"
)

func outcome(err error) string {
	if err != nil {
		return core.Err
	}
	return "ok"
}

func init() {
	core.RegisterProp("C14", run)
	core.Register("C14.sql", func(a []string) string { // dialect text
		q := string(core.UnHex(a[1]))
		var st sqlparser.Statement
		var err error
		if a[0] == "mysql" {
			st, err = sqlparser.ParseWithDialect(mydialect.NewMySQLDialect(), q)
		} else {
			st, err = sqlparser.ParseWithDialect(pgdialect.NewPostgreSQLDialect(), q)
		}
		if err != nil {
			return core.Err
		}
		_ = sqlparser.String(st) // re-serialisation walks the whole tree
		_, _ = sqlparser.RedactSQLQuery(q)
		return "ok"
	})
	core.Register("C14.sqlraw", func(a []string) string { // HandleRawSQLQuery in both parser modes
		q := string(core.UnHex(a[0]))
		_, _, _, e1 := sqlparser.New(sqlparser.ModeStrict).HandleRawSQLQuery(q)
		_, _, _, e2 := sqlparser.New(sqlparser.ModeDefault).HandleRawSQLQuery(q)
		return outcome(e1) + " " + outcome(e2)
	})
	core.Register("C14.pgquery", func(a []string) string {
		_, err := pg_query.Parse(string(core.UnHex(a[0])))
		return outcome(err)
	})
	core.Register("C14.censorconfig", func(a []string) string {
		// query_capture handlers create their log files where the (mutated) configuration says: keep them in a
		// scratch directory, never in the working directory of the check
		restore := chdirScratch()
		defer restore()
		c := acracensor.NewAcraCensor()
		defer c.ReleaseAll()
		return outcome(c.LoadConfiguration(core.UnHex(a[0])))
	})
	core.Register("C14.encconfig", func(a []string) string {
		_, e1 := config.MapTableSchemaStoreFromConfig(core.UnHex(a[0]), config.UsePostgreSQL)
		_, e2 := config.MapTableSchemaStoreFromConfig(core.UnHex(a[0]), config.UseMySQL)
		return outcome(e1) + " " + outcome(e2)
	})
	// C14.mycomment <sql>: a statement with MySQL version comments on every server path that tokenizes client
	// SQL with Acra's own parser – AcraCensor.HandleQuery (both proxies call it for every client statement;
	// strict parser), HandleRawSQLQuery (normalisation / redaction; both modes), the MySQL proxy's query object
	// (NewOnQueryObjectFromQuery(..).Statement(), what the query observers call) and the dialect parsers.
	// The tokenizer hands every `/*!…*/` to sqlparser.ExtractMysqlComment (Tokenizer.scanMySQLSpecificComment).
	core.Register("C14.mycomment", func(a []string) string {
		q := string(core.UnHex(a[0]))
		c := commentCensor()
		e0 := c.HandleQuery(q)
		_, _, _, e1 := sqlparser.New(sqlparser.ModeStrict).HandleRawSQLQuery(q)
		_, _, _, e2 := sqlparser.New(sqlparser.ModeDefault).HandleRawSQLQuery(q)
		_, e3 := encmysql.NewOnQueryObjectFromQuery(q, sqlparser.New(sqlparser.ModeDefault)).Statement()
		_, e4 := sqlparser.ParseWithDialect(mydialect.NewMySQLDialect(), q)
		_, e5 := sqlparser.ParseWithDialect(pgdialect.NewPostgreSQLDialect(), q)
		return outcome(e0) + " " + outcome(e1) + " " + outcome(e2) + " " + outcome(e3) + " " + outcome(e4) + " " + outcome(e5)
	})
	// C14.extractcomment <comment>: sqlparser.ExtractMysqlComment itself on a complete comment `/*!…*/`
	// (its documented domain; the tokenizer never calls it with anything else) → ok <version> <inner SQL>
	core.Register("C14.extractcomment", func(a []string) string {
		v, sql := sqlparser.ExtractMysqlComment(string(core.UnHex(a[0])))
		return "ok " + core.Hex([]byte(v)) + " " + core.Hex([]byte(sql))
	})
	core.Register("C14.asn1", func(a []string) string {
		b := core.UnHex(a[0])
		_, e1 := asn1.UnmarshalVerifiedContainer(b)
		_, e2 := asn1.UnmarshalKeyRing(b)
		_, e3 := asn1.UnmarshalKeyDirectory(b)
		_, e4 := asn1.UnmarshalEncryptedKeys(b)
		return outcome(e1) + " " + outcome(e2) + " " + outcome(e3) + " " + outcome(e4)
	})
}

var theCommentCensor *acracensor.AcraCensor

// commentCensor: a firewall as a deployment would configure it (deny list, then allow everything else).
func commentCensor() *acracensor.AcraCensor {
	if theCommentCensor == nil {
		c := acracensor.NewAcraCensor()
		if err := c.LoadConfiguration([]byte("ignore_parse_error: false\nversion: 0.85.0\nhandlers:\n  - handler: deny\n    queries:\n      - SELECT 1 FROM forbidden\n  - handler: allowall\n")); err != nil {
			panic("harness: censor configuration: " + err.Error())
		}
		theCommentCensor = c
	}
	return theCommentCensor
}

// ---------- seeds ----------

var sqlSeeds = []string{
	"select a, b from t where c = 'x' and d in (1, 2, 3) order by a limit 10",
	"insert into t (a, b) values (1, 'x'), (2, E'y\\n')",
	"update t set a = 1, b = X'ab' where c = 0x1f and d = b'101'",
	"delete from t where a = (select max(a) from u) returning *",
	"select * from t1 join t2 on t1.a = t2.b left join t3 using (c) where t1.x between 1 and 2",
	"select case when a > 1 then 'x' else 'y' end, cast(a as char(10)), interval 1 day from t",
	"prepare s from 'select 1'; execute s using @a",
	"select \"a\" from \"T\" where \"b\" = $1 /* c */ -- d",
	"create table t (a int primary key, b varchar(10) default 'q')",
	"select a from t union all select b from u order by 1",
}

func readSeeds(glob string) [][]byte {
	var out [][]byte
	ms, _ := filepath.Glob(glob)
	for _, m := range ms {
		if b, err := os.ReadFile(m); err == nil && len(b) < 1<<16 {
			out = append(out, b)
		}
	}
	return out
}

// mutate returns a structurally damaged copy of a seed.
func mutate(rd *core.Rand, s []byte) []byte {
	x := append([]byte{}, s...)
	for n := 1 + rd.Intn(3); n > 0 && len(x) > 0; n-- {
		switch rd.Intn(8) {
		case 0:
			x[rd.Intn(len(x))] ^= 1 << uint(rd.Intn(8))
		case 1:
			x = x[:rd.Intn(len(x))]
		case 2:
			i := rd.Intn(len(x))
			x = append(x[:i:i], append(rd.Bytes(1+rd.Intn(4)), x[i:]...)...)
		case 3: // duplicate a chunk
			i := rd.Intn(len(x))
			j := i + rd.Intn(len(x)-i)
			x = append(x[:j:j], append(append([]byte{}, x[i:j]...), x[j:]...)...)
		case 4: // delete a chunk
			i := rd.Intn(len(x))
			j := i + rd.Intn(len(x)-i)
			x = append(x[:i:i], x[j:]...)
		case 5:
			i := rd.Intn(len(x))
			x[i] = []byte{0, 0xff, '\'', '"', '\\', '(', ')', '%', ':', '-', '\n', '{', '['}[rd.Intn(13)]
		case 6: // splice in boundary number
			i := rd.Intn(len(x))
			n := []string{"0", "-1", "9223372036854775807", "9223372036854775808", "18446744073709551616", "1e999", "0x", "4294967296"}[rd.Intn(8)]
			x = append(x[:i:i], append([]byte(n), x[i:]...)...)
		default:
			i := rd.Intn(len(x))
			x = append(x[:i:i], append(bytes.Repeat([]byte{x[i]}, 1+rd.Intn(64)), x[i:]...)...)
		}
	}
	return x
}

func run(r *core.Run) {
	r.Rule = "SQL tokenizer (modelled, proved): boundary table for every lexical class × dialects mysql/ansi/postgresql (± other default dialect for the nested /*! */ tokenizer, ± multi), Acra's parser test tables ± one mutation, lexeme soup and random bytes – real Scan and Lex loops (cut after |input|+2 calls ⇒ `stuck`) against the model, oracles: no panic, not stuck, ≤ |input|+1 tokens, monotone positions, payload bound; non-trivial = non-empty input, distinct by input bytes. Decoders without a Lean model (SQL parser of both dialects incl. re-serialisation and redaction, pg_query, encryptor/censor YAML, ASN.1 key-ring reader) on seeds from the repository (configs/, tests/, statement tables) × 8 mutation operators + deep nesting + garbage, each under a timeout and a heap watchdog; plus a sweep of the modelled envelope decoders on the same garbage compared with the model; non-trivial = non-empty input; distinct by input bytes. Exploration (search support), not a theorem."
	rd := r.Rand
	guard := func(op string, in []byte, line string, isolated bool) {
		var out string
		if isolated {
			out = r.ImplIsolated(line, 180*time.Second)
		} else {
			done := make(chan string, 1)
			go func() { done <- r.Impl(line) }()
			select {
			case out = <-done:
			case <-time.After(120 * time.Second):
				out = "timeout"
			}
		}
		r.Tag("op:"+op, "outcome:"+strings.SplitN(out, " ", 2)[0])
		what := fmt.Sprintf("%s on %d bytes (%q…)", op, len(in), string(in[:min(len(in), 60)]))
		r.Check(out != core.Panic, "panic:"+op, what+" panics: "+firstLine(core.LastPanic))
		r.Check(out != "timeout" && out != "oom", "hang:"+op, what+" does not terminate / exhausts memory: "+out)
	}
	// 0. regression corpus + boundary table: MySQL version comments (`/*!NNNNN text */`), which the tokenizer
	// of Acra's own SQL parser hands to ExtractMysqlComment – on every path that parses client SQL
	versionComments(r, guard)
	// 0. the SQL tokenizer against its Lean model (proof level; see tokens.go)
	runTokens(r)
	if os.Getenv("VERIF_C14_ONLY") == "tokens" { // development aid: only the tokenizer slice
		return
	}
	if os.Getenv("VERIF_C14_ONLY") == "censor" { // development aid: only the censor slice
		runCensorMatch(r)
		return
	}
	// 1. SQL
	var sql [][]byte
	for _, s := range sqlSeeds {
		sql = append(sql, []byte(s))
	}
	n := r.N(1500, 60000)
	for i := 0; i < n; i++ {
		x := mutate(rd, core.Pick(rd, sql))
		r.Begin("sql-"+core.Hex(x), len(x) > 0, "stream:sql-mutation")
		guard("C14.sql", x, "C14.sql "+[]string{"mysql", "postgresql"}[i%2]+" "+core.Hex(x), false)
		if i%4 == 0 {
			guard("C14.sqlraw", x, "C14.sqlraw "+core.Hex(x), false)
		}
		if i%8 == 0 {
			guard("C14.pgquery", x, "C14.pgquery "+core.Hex(x), false)
		}
	}
	// deep nesting: parentheses, sub-selects, unary operators, long IN lists, long strings
	depths := []int{10, 200, 2000}
	if r.Thorough() {
		depths = append(depths, 20000, 100000)
	}
	for _, d := range depths {
		nest := []string{
			"select " + strings.Repeat("(", d) + "1" + strings.Repeat(")", d),
			"select a from t where " + strings.Repeat("not ", d) + "b",
			"select " + strings.Repeat("-", d) + "1",
			"select a from t where b in (" + strings.Repeat("1,", d) + "1)",
			"select '" + strings.Repeat("x", d*10) + "'",
			"select * from " + strings.Repeat("(select * from ", min(d, 3000)) + "t" + strings.Repeat(") as s", min(d, 3000)),
			"select 1" + strings.Repeat(" union select 1", min(d, 5000)),
		}
		for k, q := range nest {
			r.Begin(fmt.Sprintf("sql-nest-%d-%d", d, k), true, "stream:sql-nesting")
			for _, dia := range []string{"mysql", "postgresql"} {
				guard("C14.sql", []byte(q), "C14.sql "+dia+" "+core.Hex([]byte(q)), true)
			}
			guard("C14.sqlraw", []byte(q), "C14.sqlraw "+core.Hex([]byte(q)), true)
		}
	}
	// 2. YAML configurations
	enc := readSeeds("/repo/configs/acra-encryptor*.yaml")
	enc = append(enc, readSeeds("/repo/tests/*encryptor*.yaml")...)
	cen := readSeeds("/repo/configs/acra-censor*.yaml")
	cen = append(cen, readSeeds("/repo/tests/*censor*.yaml")...)
	cen = append(cen, readSeeds("/repo/acra-censor/*.yaml")...)
	r.Extra["yaml_seeds"] = map[string]int{"encryptor": len(enc), "censor": len(cen)}
	for i := 0; i < r.N(300, 6000); i++ {
		if len(enc) > 0 {
			x := mutate(rd, core.Pick(rd, enc))
			r.Begin("encconfig-"+core.Hex(x[:min(len(x), 40)])+fmt.Sprint(len(x), i), true, "stream:yaml-mutation")
			guard("C14.encconfig", x, "C14.encconfig "+core.Hex(x), false)
		}
		if len(cen) > 0 {
			x := mutate(rd, core.Pick(rd, cen))
			r.Begin("censorconfig-"+core.Hex(x[:min(len(x), 40)])+fmt.Sprint(len(x), i), true, "stream:yaml-mutation")
			guard("C14.censorconfig", x, "C14.censorconfig "+core.Hex(x), false)
		}
	}
	// 3. ASN.1 key-ring reader: mutations of DER-looking seeds and garbage
	der := [][]byte{
		{0x30, 0x03, 0x02, 0x01, 0x01},
		{0x30, 0x80, 0x00, 0x00},
		{0x30, 0x84, 0xff, 0xff, 0xff, 0xff},
		{0x69, 0x6e, 0x30, 0x0a, 0x04, 0x03, 1, 2, 3, 0x30, 0x03, 0x02, 0x01, 0x00},
	}
	for i := 0; i < r.N(600, 30000); i++ {
		x := mutate(rd, core.Pick(rd, der))
		if i%3 == 0 {
			x = rd.Bytes(rd.Intn(64))
		}
		r.Begin("asn1-"+core.Hex(x), len(x) > 0, "stream:asn1")
		guard("C14.asn1", x, "C14.asn1 "+core.Hex(x), false)
	}
	// 3b. bytea text decoders (modelled in Wire/Bytea.lean): multi-byte characters × complete/truncated escapes, bad hex
	for _, ch := range []string{"é", "€", "😀", "éé", "a€b", ""} {
		for _, tail := range []string{"\\", "\\1", "\\12", "\\123", "\\12x", "\\\\", "\\1é", "x\\12", "\\x", "\\x4", "\\xZZ"} {
			b := []byte(ch + tail)
			r.Begin("bytea-"+core.Hex(b), true, "stream:bytea-boundary")
			for _, op := range []string{"C12.bytea.octal.dec ", "C12.bytea.escaped.dec "} {
				out := r.Do(op + core.Hex(b))
				r.Check(out != core.Panic, "panic:"+strings.TrimSpace(op), fmt.Sprintf("%s panics on %q", op, b))
			}
		}
	}
	// 4. sweep of the modelled envelope decoders on garbage / tag-rich input, compared with the model
	kv := env.NewKV(rd, 1, 1)
	for i := 0; i < r.N(400, 20000); i++ {
		x := env.Junk(rd, 220)
		x = x[:len(x):len(x)]
		r.Begin("env-"+core.Hex(x), len(x) > 0, "stream:envelope-garbage")
		for _, op := range []string{"struct.validate", "struct.extract", "block.extract", "container.deser", "container.extract", "handler.match"} {
			out := r.Do("C01." + op + " " + core.Hex(x))
			r.Check(out != core.Panic, "panic:"+op, op+" panics on tag-rich garbage")
		}
		for _, op := range []string{"handler.reveal", "detector.oncolumn", "detector.compat"} {
			out := r.Do(fmt.Sprintf("C01.%s %s %s", op, kv.Tokens(), core.Hex(x)))
			r.Check(out != core.Panic, "panic:"+op, op+" panics on tag-rich garbage")
		}
	}
	// 5. the acra-censor pattern matcher: nil combinations of the pointer comparators against the model, and
	// pattern × statement pairs through AcraCensor.HandleQuery (censor.go)
	runCensorMatch(r)
	// 6. generated client sessions through the real proxies: no proxy goroutine may panic
	runProxySessions(r)
}

// commentWitnesses: statements that crashed the pinned tree (ExtractMysqlComment sliced sql[0:-1] when
// nothing but at most five digits followed `/*!`) – fixed; kept as the regression corpus, run first.
var commentWitnesses = []string{"/*!123*/", "/*!*/", "/*!5*/", "/*!12345*/", "select 1 /*!99999*/", "select /*!40101*/ 1", "/*!1*//*!22*/"}

// versionComments: corpus, then the boundary table – every digit count 0..7 × what follows the digits
// (nothing, text with and without a space, a star, non-ASCII digits) × terminated or not × where the
// comment stands in the statement (alone, leading, inside, trailing, twice, nested).
func versionComments(r *core.Run, guard func(op string, in []byte, line string, isolated bool)) {
	one := func(tag, q string) {
		r.Begin("mycomment-"+core.Hex([]byte(q)), true, "stream:"+tag)
		guard("C14.mycomment", []byte(q), "C14.mycomment "+core.Hex([]byte(q)), false)
	}
	for _, q := range commentWitnesses {
		one("corpus-version-comment", q)
	}
	var comments []string
	tails := []string{"", " ", "x", " x", " select 1 ", "select 1", "*", "**", " *", "/", "\u0663", "\u0663\u0663 1", "'", "\x00", "-- x", "/* y"}
	for digits := 0; digits <= 7; digits++ {
		ver := "1234567"[:digits]
		for _, t := range tails {
			for _, end := range []string{"*/", "", "*", "/", "* /"} {
				comments = append(comments, "/*!"+ver+t+end)
			}
		}
	}
	comments = append(comments, "/*!", "/*", "/*!*", "/*!/", "/*!*/*/", "/*!99999 /*!1*/ */", "/*!12345/*!*/*/", "/*! 12345 select 1*/", "/*!000000*/", "/*!99999999999999999999*/")
	frames := []string{"%s", "%s select 1", "select %s 1", "select 1 %s", "select 1 from t where a = 1 %s and b = 2", "%s%s", "select '%s'", "-- %s", "select 1; %s", "insert into t values (%s)"}
	rd := r.Rand
	n := 0
	for _, c := range comments {
		// the comment alone always; the other positions sampled (all of them in the thorough tier)
		for fi, f := range frames {
			if fi > 0 && !r.Thorough() && !rd.Chance(12) {
				continue
			}
			one("boundary-version-comment", strings.ReplaceAll(f, "%s", c))
			n++
		}
		// the decoder itself on its documented domain (complete comments): compared with the model for ASCII
		if strings.HasPrefix(c, "/*!") && strings.HasSuffix(c, "*/") && len(c) >= 5 {
			r.Begin("extractcomment-"+core.Hex([]byte(c)), true, "stream:boundary-version-comment")
			var out string
			if isASCII(c) {
				out = r.Do("C14.extractcomment " + core.Hex([]byte(c)))
			} else {
				out = r.Impl("C14.extractcomment " + core.Hex([]byte(c)))
			}
			r.Tag("op:C14.extractcomment", "outcome:"+strings.SplitN(out, " ", 2)[0])
			r.Check(out != core.Panic, "panic:C14.extractcomment", fmt.Sprintf("ExtractMysqlComment(%q) panics: %s", c, firstLine(core.LastPanic)))
		}
	}
	// random comment bodies from a comment-relevant alphabet
	alpha := []byte("0123456789 */!x\n")
	for i := 0; i < r.N(300, 20000); i++ {
		b := make([]byte, rd.Intn(10))
		for j := range b {
			b[j] = alpha[rd.Intn(len(alpha))]
		}
		c := "/*!" + string(b) + "*/"
		one("random-version-comment", strings.ReplaceAll(core.Pick(rd, frames), "%s", c))
		if !strings.Contains(string(b), "*/") {
			r.Begin("extractcomment-"+core.Hex([]byte(c)), true, "stream:random-version-comment")
			out := r.Do("C14.extractcomment " + core.Hex([]byte(c)))
			r.Check(out != core.Panic, "panic:C14.extractcomment", fmt.Sprintf("ExtractMysqlComment(%q) panics: %s", c, firstLine(core.LastPanic)))
		}
	}
	r.Extra["version_comment_cases"] = n
}

func isASCII(s string) bool {
	for i := 0; i < len(s); i++ {
		if s[i] >= 0x80 {
			return false
		}
	}
	return true
}

var scratchDir string

// chdirScratch changes into a per-process scratch directory and returns the function that changes back.
func chdirScratch() func() {
	if scratchDir == "" {
		d, err := os.MkdirTemp("", "verif-c14-")
		if err != nil {
			panic("harness: " + err.Error())
		}
		scratchDir = d
	}
	old, err := os.Getwd()
	if err != nil || os.Chdir(scratchDir) != nil {
		return func() {}
	}
	return func() {
		os.Chdir(old)
		if es, err := os.ReadDir(scratchDir); err == nil && len(es) > 256 {
			for _, e := range es {
				os.RemoveAll(filepath.Join(scratchDir, e.Name()))
			}
		}
	}
}

func firstLine(s string) string {
	if i := strings.IndexByte(s, '\n'); i >= 0 {
		return s[:i]
	}
	return s
}
