package c10

import (
	"bytes"
	"encoding/binary"
	"fmt"
	"math"
	"strconv"
	"strings"

	"github.com/cossacklabs/acra/pseudonymization"

	"verifharness/internal/core"
)

func init() { core.RegisterProp("C10", run) }

var tyNames = []string{"int32", "int64", "str", "bytes", "email"}

type ctxT struct{ cid, ac string } // hex

var contexts = []ctxT{
	{core.Hex([]byte("client_a")), "-"},
	{core.Hex([]byte("client_b")), "-"},
	{core.Hex([]byte("client_a")), core.Hex([]byte("zone1"))}, // legacy zone context
	{core.Hex([]byte("Y")), "-"},
	{core.Hex([]byte("clientY")), "-"}, // data‖"client"‖id is ambiguous across contexts: "x"+"clientY" vs "xclient"+"Y"
	{"-", "-"},
}

func i32(v int32) []byte { b := make([]byte, 4); binary.LittleEndian.PutUint32(b, uint32(v)); return b }
func i64(v int64) []byte { b := make([]byte, 8); binary.LittleEndian.PutUint64(b, uint64(v)); return b }

var boundaryI32 = []int32{0, 1, -1, 2, math.MaxInt32, math.MinInt32, math.MaxInt32 - 1, math.MinInt32 + 1, 255, 256, 65535, 65536}
var boundaryI64 = []int64{0, 1, -1, math.MaxInt64, math.MinInt64, math.MaxInt32, math.MinInt32, int64(math.MaxInt32) + 1, int64(math.MinInt32) - 1, 1 << 32, 1<<32 + 1}

func genValue(rd *core.Rand, ty string) []byte {
	switch ty {
	case "int32":
		if rd.Chance(50) {
			return i32(core.Pick(rd, boundaryI32))
		}
		return i32(int32(rd.U64()))
	case "int64":
		if rd.Chance(50) {
			return i64(core.Pick(rd, boundaryI64))
		}
		return i64(int64(rd.U64()))
	case "str":
		switch rd.Intn(6) {
		case 0:
			return []byte{}
		case 1:
			return []byte{byte('a' + rd.Intn(3))}
		case 2:
			return []byte(strings.Repeat("x", 100+rd.Intn(300)))
		case 3:
			return []byte("xclient") // with the ambiguous contexts above
		case 4:
			return []byte("x")
		}
		return []byte(fmt.Sprintf("value-%d", rd.Intn(6)))
	case "bytes":
		switch rd.Intn(4) {
		case 0:
			return []byte{}
		case 1:
			return []byte{byte(rd.Intn(2))}
		case 2:
			return rd.Bytes(1 + rd.Intn(64))
		}
		return []byte{0xff, 0xfe, byte(rd.Intn(3))}
	case "email":
		switch rd.Intn(5) {
		case 0:
			return []byte(strings.Repeat("e", rd.Intn(13))) // every short length incl. 0,1,2 (defect #4) and the threshold 8
		case 1:
			return []byte("a@b.cdef")
		case 2:
			return []byte("a@b.cde")
		case 3:
			return []byte(fmt.Sprintf("user%d@example.com", rd.Intn(4)))
		}
		return []byte(strings.Repeat("m", 13+rd.Intn(80)))
	}
	panic("harness: type")
}

// independent (Go-side) shape oracle – the property statement, judged on the implementation's output
func shapeOracle(ty string, v, t []byte) string {
	switch ty {
	case "int32":
		if len(t) != 4 {
			return "int32 token is not 4 bytes"
		}
	case "int64":
		if len(t) != 8 {
			return "int64 token is not 8 bytes"
		}
	case "bytes":
		if len(t) != len(v) {
			return "bytes token has another length"
		}
	case "str":
		if len(t) != len(v) {
			return "string token has another length"
		}
		for _, c := range t {
			if !strings.ContainsRune(pseudonymization.VerifCharset(), rune(c)) {
				return "string token has a character outside the charset"
			}
		}
	case "email":
		if len(t) != len(v) {
			return "e-mail token has another length"
		}
		if len(v) >= 4 {
			all, _ := pseudonymization.VerifTLDs()
			okTLD := false
			for _, tld := range all {
				if bytes.HasSuffix(t, []byte(tld)) {
					okTLD = true
				}
			}
			if !okTLD {
				return "e-mail token does not end in a listed TLD"
			}
			if bytes.Count(t, []byte("@")) != 1 {
				return "e-mail token does not contain exactly one @"
			}
		}
	}
	return ""
}

type item struct {
	s     string // protocol item
	kind  byte   // A D T U M R
	cons  bool
	ctx   int
	ty    string
	v     []byte
	owner int // for D: index of the thread whose token is looked up (-1: unknown token), foreign when ctx differs
}

func itemA(cons bool, c int, ty string, v []byte) item {
	m := "r"
	if cons {
		m = "c"
	}
	return item{s: fmt.Sprintf("A:%s:%s:%s:%s:%s:_", m, contexts[c].cid, contexts[c].ac, ty, core.Hex(v)), kind: 'A', cons: cons, ctx: c, ty: ty, v: v}
}
func itemD(c int, ty string, tok []byte) item {
	return item{s: fmt.Sprintf("D:%s:%s:%s:%s", contexts[c].cid, contexts[c].ac, ty, core.Hex(tok)), kind: 'D', ctx: c, ty: ty, v: tok, owner: -1}
}
func itemT(cons bool, c int, ty string, text []byte) item {
	m := "r"
	if cons {
		m = "c"
	}
	return item{s: fmt.Sprintf("T:%s:%s:%s:%s:%s:_", m, contexts[c].cid, contexts[c].ac, ty, core.Hex(text)), kind: 'T', cons: cons, ctx: c, ty: ty, v: text}
}
func itemU(c int, ty string, text []byte) item {
	return item{s: fmt.Sprintf("U:%s:%s:%s:%s", contexts[c].cid, contexts[c].ac, ty, core.Hex(text)), kind: 'U', ctx: c, ty: ty, v: text}
}
func itemM(action, sel string) item { return item{s: "M:" + action + ":" + sel, kind: 'M'} }
func itemR(i int) item              { return item{s: fmt.Sprintf("R:%d", i), kind: 'R'} }

func strs(items []item) []string {
	out := make([]string, len(items))
	for i, it := range items {
		out[i] = it.s
	}
	return out
}

// effective context identity (zone overrides client id)
func sameCtx(a, b int) bool {
	x, y := contexts[a], contexts[b]
	if x.ac != "-" || y.ac != "-" {
		return x.ac == y.ac
	}
	return x.cid == y.cid
}

func okTok(res string) ([]byte, bool) {
	if strings.HasPrefix(res, "ok.") {
		return core.UnHex(res[3:]), true
	}
	return nil, false
}

// execTrace runs a trace on the implementation (phase 1: learn the candidates), then runs the
// annotated line on implementation AND model (phase 2: correspondence). Returns per-thread results.
func execTrace(r *core.Run, mode, kind, seed string, items []item) []string {
	_, cands, _ := runTrace(mode, kind, seed, strs(items))
	line := fmt.Sprintf("C10.trace %s %s %s %s", mode, kind, seed, strings.Join(withCands(strs(items), cands), " "))
	out := r.Do(line)
	resPart := strings.SplitN(out, ";", 2)[0]
	if resPart == "" {
		return nil
	}
	return strings.Split(resPart, ",")
}

// judge applies the direct property oracles to a SEQUENTIAL trace's results.
func judge(r *core.Run, items []item, res []string) {
	type key struct {
		ctx int
		ty  string
		v   string
	}
	canon := func(c int) int { // representative of the effective context
		for i := range contexts {
			if sameCtx(i, c) {
				return i
			}
		}
		return c
	}
	tokenOf := map[key]string{} // consistent: value → token (since the last maintenance)
	valueOf := map[key]string{} // token → value (since the last maintenance)
	th := 0
	for _, it := range items {
		switch it.kind {
		case 'M':
			tokenOf = map[key]string{}
			valueOf = map[key]string{}
		case 'A':
			out := res[th]
			th++
			r.Check(out != "panic", "anonymize-panic:"+it.ty+fmt.Sprintf(":len%d", len(it.v)), fmt.Sprintf("tokenization of a %d-byte %s value panics", len(it.v), it.ty))
			tok, ok := okTok(out)
			if !ok {
				continue
			}
			if msg := shapeOracle(it.ty, it.v, tok); msg != "" {
				r.Fail("token-shape:"+it.ty, fmt.Sprintf("%s (value %s, token %s)", msg, core.Hex(it.v), core.Hex(tok)))
			}
			c := canon(it.ctx)
			if it.cons {
				k := key{c, it.ty, string(it.v)}
				if prev, seen := tokenOf[k]; seen {
					r.Check(prev == string(tok), "consistent-token-differs", fmt.Sprintf("consistent tokenization of %s %s gave %s then %s", it.ty, core.Hex(it.v), core.Hex([]byte(prev)), core.Hex(tok)))
				}
				tokenOf[k] = string(tok)
			}
			tk := key{c, it.ty, string(tok)}
			if pv, seen := valueOf[tk]; seen {
				r.Check(pv == string(it.v), "token-shared", fmt.Sprintf("values %s and %s share the %s token %s in one context", core.Hex([]byte(pv)), core.Hex(it.v), it.ty, core.Hex(tok)))
			}
			valueOf[tk] = string(it.v)
		case 'D':
			out := res[th]
			th++
			got, ok := okTok(out)
			r.Check(out != "panic", "deanonymize-panic", "Deanonymize panics")
			if !ok {
				if it.owner == -2 {
					r.Fail("foreign-or-unknown-gets-token", fmt.Sprintf("detokenizing the unknown/foreign %s token %s returned %s instead of the token", it.ty, core.Hex(it.v), out))
				}
				continue
			}
			if want, known := valueOf[key{canon(it.ctx), it.ty, string(it.v)}]; known {
				r.Check(string(got) == want, "owner-roundtrip", fmt.Sprintf("owner detokenizes %s token %s to %s, original was %s", it.ty, core.Hex(it.v), core.Hex(got), core.Hex([]byte(want))))
			} else if it.owner == -2 { // token certainly unknown in this context (foreign or never issued, no maintenance interplay)
				r.Check(bytes.Equal(got, it.v), "foreign-or-unknown-gets-token", fmt.Sprintf("detokenizing the unknown/foreign %s token %s gave %s", it.ty, core.Hex(it.v), core.Hex(got)))
			}
		case 'T', 'U':
			th++
		}
	}
}

func run(r *core.Run) {
	r.Rule = "sequences of tokenize/detokenize/maintenance requests (structured: owner/foreign/unknown detokenization of tokens just issued, repeated consistent requests; boundary: integer limits, empty/1-byte/long strings, every e-mail length 0..12; malformed: decimal texts out of range / not numeric, type confusion) over memory and BoltDB stores ± encryption, sequentially and under seeded schedules of atomic store steps; a case is non-trivial when at least one token is issued; distinct by the op list"
	corpus(r)
	plantCases(r)
	genCases(r)
	seqCases(r)
	dataTokCases(r)
	concCases(r)
	freeRunning(r)
}

// ---------- regression corpus: defect witnesses, always run first ----------

func corpus(r *core.Run) {
	// §8 #4: e-mail values of 0–2 bytes (slice [:-2] in randomEmail)
	for _, n := range []int{0, 1, 2, 3, 4, 7, 8} {
		for _, cons := range []bool{true, false} {
			v := []byte(strings.Repeat("a", n))
			its := []item{itemA(cons, 0, "email", v)}
			r.Begin(fmt.Sprintf("corpus-email-%d-%v", n, cons), true, "stream:corpus", "corpus:short-email")
			res := execTrace(r, "seq", "mem", "7", its)
			judge(r, its, res)
		}
	}
	// §8 #15: out-of-range decimal for an int32 column
	for _, text := range []string{"4294967297", "2147483648", "-2147483649", "9223372036854775807"} {
		its := []item{itemT(true, 0, "int32", []byte(text))}
		r.Begin("corpus-int32-range-"+text, true, "stream:corpus", "corpus:int32-range")
		res := execTrace(r, "seq", "mem", "7", its)
		judgeDataTok(r, its, res)
	}
}

// ---------- damaged store content: short / odd-length / wrong-type records under the looked-up id ----------

func itemP(which string, c int, ty string, key []byte, rty string, data []byte) item {
	return item{s: fmt.Sprintf("P:%s:%s:%s:%s:%s:%s:%s", which, contexts[c].cid, contexts[c].ac, ty, core.Hex(key), rty, core.Hex(data)), kind: 'P', ctx: c, ty: ty, v: key}
}

var recordLens = []int{0, 1, 2, 3, 4, 5, 7, 8, 9, 12, 16}

func wantLen(ty string) int {
	switch ty {
	case "int32":
		return 4
	case "int64":
		return 8
	}
	return -1
}

// plantWitnesses: the records that crashed the pinned tree (decodeInt32/decodeInt64 read 4/8 bytes of a
// shorter stored value) – fixed; regression corpus.
func plantWitnesses(r *core.Run) {
	for _, w := range []struct {
		ty string
		n  int
	}{{"int32", 0}, {"int32", 3}, {"int64", 0}, {"int64", 4}, {"int64", 7}} {
		for _, kind := range []string{"mem", "bolt"} {
			key := i32(7)
			if w.ty == "int64" {
				key = i64(7)
			}
			data := bytes.Repeat([]byte{1}, w.n)
			plantOne(r, "corpus", kind, "7", "h", 0, w.ty, key, w.ty, data, false)
			plantOne(r, "corpus", kind, "7", "t", 0, w.ty, key, w.ty, data, false)
		}
	}
}

// plantOne plants one record and sends the request that reads it (Anonymize-consistently for an `h`
// record, Deanonymize for a `t` record; `text` = through DataTokenizer.Tokenize/Detokenize).
// Oracle (on the implementation's result): never a panic; an integer is only ever returned from a record
// of exactly 4/8 bytes; a `t` record of another type is refused; whatever is returned is the record's
// content (never bytes from anywhere else).
func plantOne(r *core.Run, stream, kind, seed, which string, c int, ty string, key []byte, rty string, data []byte, text bool) {
	its := []item{itemP(which, c, ty, key, rty, data)}
	isInt := ty == "int32" || ty == "int64"
	var txt []byte
	if isInt && text {
		if ty == "int32" {
			txt = []byte(strconv.FormatInt(int64(int32(binary.LittleEndian.Uint32(key))), 10))
		} else {
			txt = []byte(strconv.FormatInt(int64(binary.LittleEndian.Uint64(key)), 10))
		}
	} else if text {
		txt = key
	}
	switch {
	case which == "h" && text:
		its = append(its, itemT(true, c, ty, txt))
	case which == "h":
		its = append(its, itemA(true, c, ty, key))
	case text:
		its = append(its, itemU(c, ty, txt))
	default:
		its = append(its, itemD(c, ty, key))
	}
	r.Begin(fmt.Sprintf("plant:%s:%s:%s", kind, seed, strings.Join(strs(its), " ")), true, "stream:"+stream, "store:"+kind, "plant:"+which+":"+ty+"<-"+rty, fmt.Sprintf("plant-len:%d", len(data)))
	var res []string
	if rty == "raw" {
		// not a TokenValue encoding at all: the protobuf decoder is not modelled – implementation and oracle only
		out := r.Impl(fmt.Sprintf("C10.trace seq %s %s %s", kind, seed, strings.Join(strs(its), " ")))
		res = strings.Split(strings.SplitN(out, ";", 2)[0], ",")
	} else {
		res = execTrace(r, "seq", kind, seed, its)
	}
	if len(res) != 1 {
		r.Fail("harness-plant", "unexpected trace result "+strings.Join(res, ","))
		return
	}
	out := res[0]
	what := fmt.Sprintf("%s request for a %s value with a planted %d-byte `%s.` record of type %s (store %s)", map[string]string{"h": "tokenize", "t": "detokenize"}[which], ty, len(data), which, rty, kind)
	if !r.Check(out != "panic", fmt.Sprintf("stored-record-panic:%s:len%d", ty, len(data)), what+" panics: "+core.LastPanic) {
		return
	}
	got, ok := okTok(out)
	if !ok {
		return // an error is always acceptable for a damaged store
	}
	enc := strings.HasSuffix(kind, "+enc")
	planted := !(enc && which == "h" && len(data) == 0) // the encrypting wrapper cannot store an empty payload
	if !planted {
		return
	}
	if which == "t" && rty != ty {
		// a record of another type (or no TokenValue at all) must not be delivered as a value of this type
		// (`raw` bytes may happen to decode as a TokenValue of the requested type – then the value is inside them)
		if rty != "raw" {
			r.Fail("stored-record-type-confusion:"+ty, what+" returned "+out)
		}
		return
	}
	if text && isInt {
		// decimal text of the stored integer
		bits := 32
		if ty == "int64" {
			bits = 64
		}
		i, err := strconv.ParseInt(string(got), 10, bits)
		r.Check(err == nil && len(data) == wantLen(ty) && bytes.Equal(map[bool][]byte{true: i32(int32(i)), false: i64(i)}[ty == "int32"], data), "stored-record-misread:"+ty, what+" returned "+string(got))
		return
	}
	if n := wantLen(ty); n >= 0 {
		r.Check(len(data) == n && bytes.Equal(got, data), "stored-record-misread:"+ty, what+" returned "+out+" from a record of "+fmt.Sprint(len(data))+" bytes")
	} else if rty != "raw" {
		r.Check(bytes.Equal(got, data), "stored-record-misread:"+ty, what+" returned "+out+", the record holds "+core.Hex(data))
	}
}

func plantCases(r *core.Run) {
	plantWitnesses(r)
	rd := r.Rand
	// boundary table: every type × record length × store back end (± encryption), both records, both entry points
	for _, ty := range tyNames {
		for _, n := range recordLens {
			for _, which := range []string{"h", "t"} {
				kind := core.Pick(rd, StoreKinds)
				if !r.Thorough() && n != 0 && n != 3 && n != 4 && n != 7 && n != 8 && rd.Chance(50) {
					continue
				}
				key := genValue(rd, ty)
				data := rd.Bytes(n)
				plantOne(r, "boundary", kind, strconv.Itoa(rd.Intn(1<<30)), which, rd.Intn(len(contexts)), ty, key, ty, data, rd.Chance(40))
			}
		}
	}
	// a record of ANOTHER type under the id; records that are no TokenValue encoding at all
	for i := 0; i < r.N(120, 3000); i++ {
		ty, rty := core.Pick(rd, tyNames), core.Pick(rd, append([]string{"raw", "raw"}, tyNames...))
		kind := core.Pick(rd, StoreKinds)
		data := rd.Bytes(core.Pick(rd, recordLens))
		if rd.Chance(30) {
			data = genValue(rd, core.Pick(rd, tyNames)) // a well-formed value of some type
		}
		which := core.Pick(rd, []string{"h", "t", "t"})
		if which == "h" {
			rty = ty // an `h.` record has no type field
		}
		plantOne(r, "malformed", kind, strconv.Itoa(rd.Intn(1<<30)), which, rd.Intn(len(contexts)), ty, genValue(rd, ty), rty, data, rd.Chance(30))
	}
}

// ---------- generator image: every candidate the real generator draws is in the model's image ----------

func genCases(r *core.Run) {
	rd := r.Rand
	for i := 0; i < r.N(400, 8000); i++ {
		ty := core.Pick(rd, tyNames)
		n := rd.Intn(14)
		if rd.Chance(20) {
			n = rd.Intn(200)
		}
		if ty == "int32" {
			n = 4
		} else if ty == "int64" {
			n = 8
		}
		seed := strconv.Itoa(rd.Intn(1 << 30))
		cand, out := genCandidate(ty, n, seed)
		r.Begin(fmt.Sprintf("gen-%s-%d-%s", ty, n, seed), true, "stream:structured", "gen:"+ty)
		r.Do(fmt.Sprintf("C10.gen %s %d %s %s", ty, n, seed, core.Hex(cand)))
		if !r.Check(out != "panic", fmt.Sprintf("anonymize-panic:%s:len%d", ty, n), fmt.Sprintf("the %s generator panics for a %d-byte value", ty, n)) {
			continue
		}
		if msg := shapeOracle(ty, make([]byte, n), cand); msg != "" {
			r.Fail("token-shape:"+ty, msg+" (token "+core.Hex(cand)+")")
		}
	}
}

// ---------- sequential traces ----------

func seqCases(r *core.Run) {
	rd := r.Rand
	for n := 0; n < r.N(160, 2000); n++ {
		kind := core.Pick(rd, StoreKinds)
		seed := strconv.Itoa(rd.Intn(1 << 30))
		if rd.Chance(6) {
			seed = "z0" // constant randomness: every candidate collides with the previous one
		}
		// phase A: tokenization requests (some repeated), then run them to learn the tokens
		var items []item
		nA := 1 + rd.Intn(6)
		for i := 0; i < nA; i++ {
			ty := core.Pick(rd, tyNames)
			c := rd.Intn(len(contexts))
			v := genValue(rd, ty)
			if len(items) > 0 && rd.Chance(35) { // repeat an earlier value (maybe other mode / context)
				p := items[rd.Intn(len(items))]
				ty, v = p.ty, p.v
				if rd.Chance(60) {
					c = p.ctx
				}
			}
			items = append(items, itemA(rd.Chance(60), c, ty, v))
		}
		res, _, _ := runTrace("seq", kind, seed, strs(items))
		// phase B: append detokenizations (owner, foreign, unknown), maintenance, more tokenizations
		nB := rd.Intn(8)
		for i := 0; i < nB; i++ {
			switch rd.Intn(10) {
			case 0, 1, 2, 3: // owner
				j := rd.Intn(nA)
				if tok, ok := okTok(res[j]); ok {
					d := itemD(items[j].ctx, items[j].ty, tok)
					d.owner = j
					items = append(items, d)
				}
			case 4, 5: // foreign context
				j := rd.Intn(nA)
				if tok, ok := okTok(res[j]); ok {
					c := rd.Intn(len(contexts))
					d := itemD(c, items[j].ty, tok)
					d.owner = j
					items = append(items, d)
				}
			case 6: // unknown token / wrong type
				ty := core.Pick(rd, tyNames)
				d := itemD(rd.Intn(len(contexts)), ty, genValue(rd, ty))
				items = append(items, d)
			case 7:
				items = append(items, itemM(core.Pick(rd, []string{"disable", "enable", "remove"}), core.Pick(rd, []string{"all", "dis", "ena"})))
			default:
				j := rd.Intn(nA)
				items = append(items, itemA(rd.Chance(70), items[j].ctx, items[j].ty, items[j].v))
			}
		}
		nontrivial := false
		for _, x := range res {
			if strings.HasPrefix(x, "ok.") {
				nontrivial = true
			}
		}
		r.Begin("seq:"+kind+":"+seed+":"+strings.Join(strs(items), " "), nontrivial, "stream:structured", "store:"+kind, fmt.Sprintf("seq-len:%d", len(items)/4*4))
		out := execTrace(r, "seq", kind, seed, items)
		judge(r, items, out)
	}
	// targeted: a token of one context looked up under every other context, and never-issued tokens
	for n := 0; n < r.N(40, 400); n++ {
		kind := core.Pick(rd, StoreKinds)
		seed := strconv.Itoa(rd.Intn(1 << 30))
		ty := core.Pick(rd, tyNames)
		v := genValue(rd, ty)
		if ty == "email" && len(v) < 3 {
			v = []byte("abc@d.com")
		}
		c := rd.Intn(len(contexts))
		items := []item{itemA(rd.Bool(), c, ty, v)}
		res, _, _ := runTrace("seq", kind, seed, strs(items))
		tok, ok := okTok(res[0])
		if !ok {
			continue
		}
		for o := range contexts {
			d := itemD(o, ty, tok)
			if !sameCtx(o, c) {
				d.owner = -2
			}
			items = append(items, d)
		}
		u := itemD(c, ty, genValue(rd, ty))
		if !bytes.Equal(u.v, tok) {
			u.owner = -2
		}
		items = append(items, u)
		// maintenance round trip
		items = append(items, itemM("disable", "all"), itemD(c, ty, tok), itemA(true, c, ty, v), itemM("enable", "all"), itemD(c, ty, tok), itemM("remove", "all"), itemD(c, ty, tok))
		r.Begin("foreign:"+kind+":"+seed+":"+strings.Join(strs(items), " "), true, "stream:structured", "store:"+kind, "seq:foreign+maintenance")
		out := execTrace(r, "seq", kind, seed, items)
		judge(r, items, out)
		// direct maintenance oracle: disabled → token itself; enabled → value; removed → token itself
		nD := len(contexts) + 1
		if len(out) >= nD+5 {
			exp := []struct {
				i    int
				want []byte
				what string
			}{{nD + 1, tok, "disabled token must come back as is"}, {nD + 3, v, "re-enabled token must detokenize"}, {nD + 4, tok, "removed token must come back as is"}}
			for _, e := range exp {
				got, ok := okTok(out[e.i])
				r.Check(ok && bytes.Equal(got, e.want), "maintenance-effect", e.what+": got "+out[e.i])
			}
		}
	}
}

// ---------- DataTokenizer ----------

var decimalTexts = []string{"0", "1", "-1", "+5", "007", "-0", "2147483647", "2147483648", "-2147483648", "-2147483649", "4294967296", "4294967297",
	"9223372036854775807", "9223372036854775808", "-9223372036854775808", "-9223372036854775809", "18446744073709551617", "", "-", "+", "12a", " 1", "1 ", "1_000", "0x10", "1e3", "１"}

func judgeDataTok(r *core.Run, items []item, res []string) {
	th := 0
	for _, it := range items {
		switch it.kind {
		case 'A', 'D', 'U':
			th++
		case 'T':
			out := res[th]
			th++
			r.Check(out != "panic", "anonymize-panic:"+it.ty+fmt.Sprintf(":len%d", len(it.v)), "DataTokenizer.Tokenize panics")
			if it.ty != "int32" && it.ty != "int64" {
				continue
			}
			bits := 32
			if it.ty == "int64" {
				bits = 64
			}
			_, err := strconv.ParseInt(string(it.v), 10, bits)
			tok, ok := okTok(out)
			if err != nil {
				r.Check(!ok, "int-out-of-range-accepted:"+it.ty, fmt.Sprintf("Tokenize accepts %q for an %s column (got token %s)", it.v, it.ty, string(tok)))
			} else if ok {
				_, e2 := strconv.ParseInt(string(tok), 10, bits)
				r.Check(e2 == nil, "int-token-out-of-range:"+it.ty, fmt.Sprintf("token %q is not a decimal %s", tok, it.ty))
			}
		}
	}
}

func dataTokCases(r *core.Run) {
	rd := r.Rand
	for n := 0; n < r.N(120, 1200); n++ {
		kind := core.Pick(rd, StoreKinds)
		seed := strconv.Itoa(rd.Intn(1 << 30))
		ty := core.Pick(rd, tyNames)
		c := rd.Intn(len(contexts))
		var text []byte
		tags := []string{"stream:structured"}
		switch {
		case ty == "int32" || ty == "int64":
			if rd.Chance(60) {
				text = []byte(core.Pick(rd, decimalTexts))
				tags = []string{"stream:boundary"}
			} else if rd.Chance(50) {
				text = []byte(strconv.FormatInt(int64(rd.U64())>>uint(rd.Intn(64)), 10))
			} else {
				text = rd.Bytes(rd.Intn(6))
				tags = []string{"stream:malformed"}
			}
		default:
			text = genValue(rd, ty)
		}
		cons := rd.Chance(60)
		items := []item{itemT(cons, c, ty, text)}
		res, _, _ := runTrace("seq", kind, seed, strs(items))
		if tok, ok := okTok(res[0]); ok {
			items = append(items, itemU(c, ty, tok))       // owner gets the original text back (canonical form for ints)
			items = append(items, itemU((c+1)%2, ty, tok)) // another client gets the token
			if cons {
				items = append(items, itemT(true, c, ty, text))
			}
		}
		items = append(items, itemU(c, ty, []byte(core.Pick(rd, decimalTexts))))
		r.Begin("datatok:"+kind+":"+seed+":"+strings.Join(strs(items), " "), true, append(tags, "store:"+kind, "datatok:"+ty)...)
		out := execTrace(r, "seq", kind, seed, items)
		judgeDataTok(r, items, out)
		if tok, ok := okTok(res[0]); ok && len(out) >= 3 {
			want := text
			if ty == "int32" || ty == "int64" {
				i, _ := strconv.ParseInt(string(text), 10, 64)
				want = []byte(strconv.FormatInt(i, 10))
			}
			got, ok2 := okTok(out[1])
			r.Check(ok2 && bytes.Equal(got, want), "datatok-owner-roundtrip:"+ty, fmt.Sprintf("Detokenize(Tokenize(%q)) = %s, want %q", text, out[1], want))
			got, ok2 = okTok(out[2])
			r.Check(ok2 && bytes.Equal(got, tok), "datatok-foreign", fmt.Sprintf("another client detokenizes %q to %s", tok, out[2]))
			if cons && len(out) >= 4 {
				got, ok2 = okTok(out[3])
				r.Check(ok2 && bytes.Equal(got, tok), "consistent-token-differs", fmt.Sprintf("consistent Tokenize(%q) gave %q then %s", text, tok, out[3]))
			}
		}
	}
}

// ---------- concurrent requests under seeded schedules of atomic store steps ----------

func concCases(r *core.Run) {
	rd := r.Rand
	for n := 0; n < r.N(150, 2500); n++ {
		kind := core.Pick(rd, StoreKinds)
		seed := strconv.Itoa(rd.Intn(1 << 30))
		if rd.Chance(5) {
			seed = "z0"
		}
		nT := 2 + rd.Intn(4)
		// overlapping values: few distinct values, one or two contexts
		ty := core.Pick(rd, tyNames)
		vals := [][]byte{genValue(rd, ty), genValue(rd, ty)}
		if ty == "email" {
			vals = [][]byte{[]byte("alice@example.com"), []byte("bob@example.org"), []byte("abc")}
		}
		var items []item
		for i := 0; i < nT; i++ {
			c := rd.Intn(2)
			v := core.Pick(rd, vals)
			if rd.Chance(85) {
				items = append(items, itemA(rd.Chance(80), c, ty, v))
			} else {
				items = append(items, itemD(c, ty, v))
			}
		}
		// schedule: random picks, enough to usually finish everything; maintenance sometimes in between
		steps := rd.Intn(nT * 8)
		for i := 0; i < steps; i++ {
			if rd.Chance(4) {
				items = append(items, itemM(core.Pick(rd, []string{"disable", "enable", "remove"}), core.Pick(rd, []string{"all", "dis", "ena"})))
			} else {
				items = append(items, itemR(rd.Intn(nT)))
			}
		}
		r.Begin("conc:"+kind+":"+seed+":"+strings.Join(strs(items), " "), true, "stream:structured", "store:"+kind, fmt.Sprintf("conc-threads:%d", nT))
		out := execTrace(r, "conc", kind, seed, items)
		hasM := false
		for _, it := range items {
			if it.kind == 'M' {
				hasM = true
			}
		}
		// direct oracles on a maintenance-free concurrent run: consistent requests for one value in one
		// context agree; different values never share a token
		if hasM || len(out) < nT {
			continue
		}
		type key struct {
			c  bool
			v  string
			ty string
		}
		tokenOf := map[key]string{}
		valueOf := map[key]string{}
		for i := 0; i < nT; i++ {
			it := items[i]
			if it.kind != 'A' {
				continue
			}
			r.Check(out[i] != "panic", fmt.Sprintf("anonymize-panic:%s:len%d", it.ty, len(it.v)), "tokenization panics")
			tok, ok := okTok(out[i])
			if !ok {
				continue
			}
			cz := sameCtx(it.ctx, 0)
			if it.cons {
				k := key{cz, string(it.v), ty}
				if p, seen := tokenOf[k]; seen {
					r.Check(p == string(tok), "consistent-token-differs", fmt.Sprintf("concurrent consistent tokenizations of %s returned %s and %s", core.Hex(it.v), core.Hex([]byte(p)), core.Hex(tok)))
				}
				tokenOf[k] = string(tok)
			}
			tk := key{cz, string(tok), ty}
			if p, seen := valueOf[tk]; seen {
				r.Check(p == string(it.v), "token-shared", fmt.Sprintf("values %s and %s share token %s", core.Hex([]byte(p)), core.Hex(it.v), core.Hex(tok)))
			}
			valueOf[tk] = string(it.v)
		}
	}
}
