// Package c10: implementation-side ops, generators and oracles for property C10.
package c10
