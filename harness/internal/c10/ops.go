// Package c10: implementation-side ops, generators and oracles for property C10 (tokenization).
//
// The implementation side runs the REAL pseudoanonymizer (pseudonymization.VerifNewPseudoanonymizer
// = the package's own struct) over the real memory / BoltDB token stores, with and without the real
// encrypting wrapper (storage.WrapStorageWithEncryption + NewSCellEncryptor over a fixed test key).
// Two thin wrappers observe it:
//   - recAnonymizer wraps the package's real random generator and records every candidate drawn
//     (also those rejected by the retry loop), so that the model can be run on the same random stream;
//   - gateStore wraps the token store: before each Save/Get the calling goroutine waits for the
//     scheduler's grant, so that concurrent requests interleave exactly as a given schedule says
//     (each store call is one atomic step), and every call is recorded.
package c10

import (
	crand "crypto/rand"
	"crypto/sha256"
	"encoding/binary"
	"encoding/hex"
	"fmt"
	"io"
	"os"
	"path/filepath"
	"strconv"
	"strings"
	"sync"
	"time"

	bolt "go.etcd.io/bbolt"

	"github.com/cossacklabs/acra/encryptor/base/config"
	"github.com/cossacklabs/acra/pseudonymization"
	"github.com/cossacklabs/acra/pseudonymization/common"
	"github.com/cossacklabs/acra/pseudonymization/storage"

	"verifharness/internal/core"
)

// ---------- stores ----------

type fixedKeys struct{}

func (fixedKeys) GetClientIDSymmetricKeys(id []byte) ([][]byte, error) {
	return [][]byte{[]byte("token-store-key-" + string(id))}, nil
}
func (fixedKeys) GetClientIDSymmetricKey(id []byte) ([]byte, error) {
	return []byte("token-store-key-" + string(id)), nil
}

var StoreKinds = []string{"mem", "bolt", "mem+enc", "bolt+enc"}

var storeCounter int

func newStore(kind string) (common.TokenStorage, func()) {
	var st common.TokenStorage
	cleanup := func() {}
	switch strings.TrimSuffix(kind, "+enc") {
	case "mem":
		m, err := storage.NewMemoryTokenStorage()
		if err != nil {
			panic("harness: " + err.Error())
		}
		st = m
	case "bolt":
		dir, err := os.MkdirTemp("", "vh-c10-")
		if err != nil {
			panic("harness: " + err.Error())
		}
		db, err := bolt.Open(filepath.Join(dir, "tokens.db"), 0o600, &bolt.Options{Timeout: 2 * time.Second, NoSync: true, NoFreelistSync: true})
		if err != nil {
			panic("harness: " + err.Error())
		}
		st = storage.NewBoltDBTokenStorage(db)
		cleanup = func() { db.Close(); os.RemoveAll(dir) }
	default:
		panic("harness: unknown store kind " + kind)
	}
	// every second store refreshes the last-access time on EVERY read (granularity 0, a legal setting): the
	// refresh path rewrites the stored record and must not change what later reads return
	storeCounter++
	if g, ok := st.(interface {
		SetAccessTimeGranularity(time.Duration) error
	}); ok && storeCounter%2 == 1 {
		if err := g.SetAccessTimeGranularity(0); err != nil {
			panic("harness: " + err.Error())
		}
	}
	if strings.HasSuffix(kind, "+enc") {
		enc, err := storage.NewSCellEncryptor(fixedKeys{})
		if err != nil {
			panic("harness: " + err.Error())
		}
		st = storage.WrapStorageWithEncryption(st, enc)
	}
	return st, cleanup
}

// ---------- deterministic randomness ----------

type lockedReader struct {
	mu sync.Mutex
	r  io.Reader
}

func (l *lockedReader) Read(p []byte) (int, error) {
	l.mu.Lock()
	defer l.mu.Unlock()
	return l.r.Read(p)
}

type constReader byte

func (c constReader) Read(p []byte) (int, error) {
	for i := range p {
		p[i] = byte(c)
	}
	return len(p), nil
}

var randMu sync.Mutex

// withRand runs f with crypto/rand.Reader replaced (Acra reads it directly, also through its
// math/rand source), so a trace replays exactly. seed "zN" = the constant byte N (forces collisions).
func withRand(seed string, f func()) {
	randMu.Lock()
	defer randMu.Unlock()
	old := crand.Reader
	defer func() { crand.Reader = old }()
	if strings.HasPrefix(seed, "z") {
		crand.Reader = constReader(core.Atoi(seed[1:]))
	} else {
		crand.Reader = &lockedReader{r: core.NewRand(core.AtoU64(seed))}
	}
	f()
}

// ---------- value encoding (the model works on encodeToBytes' output) ----------

var typeOf = map[string]common.TokenType{"int32": common.TokenType_Int32, "int64": common.TokenType_Int64,
	"str": common.TokenType_String, "bytes": common.TokenType_Bytes, "email": common.TokenType_Email}

func toGo(ty string, enc []byte) interface{} {
	switch ty {
	case "int32":
		if len(enc) != 4 {
			panic("harness: int32 value must be 4 bytes")
		}
		return int32(binary.LittleEndian.Uint32(enc))
	case "int64":
		if len(enc) != 8 {
			panic("harness: int64 value must be 8 bytes")
		}
		return int64(binary.LittleEndian.Uint64(enc))
	case "str":
		return string(enc)
	case "email":
		return common.Email(enc)
	case "bytes":
		return append([]byte{}, enc...)
	}
	panic("harness: bad type " + ty)
}

func fromGo(v interface{}) []byte {
	switch x := v.(type) {
	case int32:
		b := make([]byte, 4)
		binary.LittleEndian.PutUint32(b, uint32(x))
		return b
	case int64:
		b := make([]byte, 8)
		binary.LittleEndian.PutUint64(b, uint64(x))
		return b
	case string:
		return []byte(x)
	case common.Email:
		return []byte(x)
	case []byte:
		return x
	}
	panic(fmt.Sprintf("harness: unexpected token value %T", v))
}

// ---------- recording anonymizer ----------

type recAnonymizer struct {
	inner common.Anonymizer
	cands [][]byte
}

func (r *recAnonymizer) rec(v interface{}, err error) {
	if err == nil {
		r.cands = append(r.cands, append([]byte{}, fromGo(v)...))
	}
}
func (r *recAnonymizer) Anonymize(data interface{}, ctx common.TokenContext, t common.TokenType) (interface{}, error) {
	v, err := r.inner.Anonymize(data, ctx, t)
	r.rec(v, err)
	return v, err
}
func (r *recAnonymizer) AnonymizeInt32(v int32, ctx common.TokenContext) (int32, error) {
	x, err := r.inner.AnonymizeInt32(v, ctx)
	r.rec(x, err)
	return x, err
}
func (r *recAnonymizer) AnonymizeInt64(v int64, ctx common.TokenContext) (int64, error) {
	x, err := r.inner.AnonymizeInt64(v, ctx)
	r.rec(x, err)
	return x, err
}
func (r *recAnonymizer) AnonymizeBytes(v []byte, ctx common.TokenContext) ([]byte, error) {
	x, err := r.inner.AnonymizeBytes(v, ctx)
	r.rec(x, err)
	return x, err
}
func (r *recAnonymizer) AnonymizeStr(v string, ctx common.TokenContext) (string, error) {
	x, err := r.inner.AnonymizeStr(v, ctx)
	r.rec(x, err)
	return x, err
}
func (r *recAnonymizer) AnonymizeEmail(v common.Email, ctx common.TokenContext) (common.Email, error) {
	x, err := r.inner.AnonymizeEmail(v, ctx)
	r.rec(x, err)
	return x, err
}

// ---------- gated, recording store ----------

type session struct {
	store   common.TokenStorage
	events  []string
	threads []*thread
}

type thread struct {
	s        *session
	atGate   chan struct{} // thread → scheduler: waiting before a store call
	grant    chan struct{} // scheduler → thread: perform the call
	finished chan struct{}
	result   string
	an       *recAnonymizer
	done     bool
}

type gateStore struct{ t *thread }

func keyStr(id []byte, ctx common.TokenContext) string {
	agg := common.AggregateTokenContextToBytes(ctx)
	pre := "?"
	if len(id) > 0 {
		pre = string(id[0])
	}
	h := []byte{}
	if len(id) > 2 {
		h = id[2:]
	}
	if len(h) > 4 {
		h = h[:4]
	}
	return hex.EncodeToString(agg[:2]) + pre + core.Hex(h)
}

func (g gateStore) Save(id []byte, ctx common.TokenContext, data []byte) error {
	g.t.atGate <- struct{}{}
	<-g.t.grant
	err := g.t.s.store.Save(id, ctx, data)
	switch err {
	case nil:
		g.t.s.events = append(g.t.s.events, "S"+keyStr(id, ctx)+"1")
	case common.ErrTokenExists:
		g.t.s.events = append(g.t.s.events, "S"+keyStr(id, ctx)+"0")
	default:
		g.t.s.events = append(g.t.s.events, "S"+keyStr(id, ctx)+"E")
	}
	return err
}

func (g gateStore) Get(id []byte, ctx common.TokenContext) ([]byte, error) {
	g.t.atGate <- struct{}{}
	<-g.t.grant
	d, err := g.t.s.store.Get(id, ctx)
	switch err {
	case nil:
		g.t.s.events = append(g.t.s.events, "G"+keyStr(id, ctx)+"f")
	case common.ErrTokenNotFound:
		g.t.s.events = append(g.t.s.events, "G"+keyStr(id, ctx)+"n")
	case common.ErrTokenDisabled:
		g.t.s.events = append(g.t.s.events, "G"+keyStr(id, ctx)+"d")
	default:
		g.t.s.events = append(g.t.s.events, "G"+keyStr(id, ctx)+"E")
	}
	return d, err
}
func (g gateStore) Stat(id []byte, ctx common.TokenContext) (common.TokenMetadata, error) {
	return g.t.s.store.Stat(id, ctx)
}
func (g gateStore) VisitMetadata(cb func(int, common.TokenMetadata) (common.TokenAction, error)) error {
	return g.t.s.store.VisitMetadata(cb)
}
func (g gateStore) SetAccessTimeGranularity(d time.Duration) error {
	return g.t.s.store.SetAccessTimeGranularity(d)
}

func resStr(v interface{}, err error) string {
	if err != nil {
		return "err"
	}
	return "ok." + core.Hex(fromGo(v))
}

// spawn starts a request as a goroutine and waits until it blocks at its first store call or ends.
func (s *session) spawn(body func(p common.Pseudoanonymizer) string) *thread {
	t := &thread{s: s, atGate: make(chan struct{}), grant: make(chan struct{}), finished: make(chan struct{})}
	t.an = &recAnonymizer{inner: pseudonymization.VerifNewAnonymizer()}
	p := pseudonymization.VerifNewPseudoanonymizer(gateStore{t}, t.an)
	s.threads = append(s.threads, t)
	go func() {
		defer close(t.finished)
		defer func() {
			if r := recover(); r != nil {
				core.LastPanic = fmt.Sprint(r)
				t.result = "panic"
			}
		}()
		t.result = body(p)
	}()
	t.waitQuiet()
	return t
}

// waitQuiet blocks until the thread is at a gate or has finished.
func (t *thread) waitQuiet() {
	select {
	case <-t.atGate:
	case <-t.finished:
		t.done = true
	}
}

// step grants one store call (no-op for a finished thread; a no-event step of the model – a panic in
// the generator – happens on the implementation side inside spawn / the previous step).
func (t *thread) step() {
	if t.done {
		return
	}
	t.grant <- struct{}{}
	t.waitQuiet()
}

func (t *thread) complete() {
	for !t.done {
		t.step()
	}
}

func ctxOf(cid, ac string) common.TokenContext {
	return common.TokenContext{ClientID: core.UnHex(cid), AdditionalContext: core.UnHex(ac)}
}

func setting(ty string, consistent bool) config.ColumnEncryptionSetting {
	return &config.BasicColumnEncryptionSetting{Name: "col", TokenType: ty, ConsistentTokenization: &consistent}
}

func bytesRes(b []byte, err error) string {
	if err != nil {
		return "err"
	}
	return "ok." + core.Hex(b)
}

var actionOf = map[string]common.TokenAction{"disable": common.TokenDisable, "enable": common.TokenEnable, "remove": common.TokenRemove, "continue": common.TokenContinue}

// runTrace executes the items of a `C10.trace` line; see Driver/C10.lean for the format. It returns
// the per-thread results, the candidates each thread drew and the recorded store events.
func runTrace(mode, kind, seed string, items []string) (results []string, cands [][][]byte, events []string) {
	withRand(seed, func() {
		st, cleanup := newStore(kind)
		defer cleanup()
		s := &session{store: st}
		seq := mode == "seq"
		add := func(body func(p common.Pseudoanonymizer) string) {
			t := s.spawn(body)
			if seq {
				t.complete()
			}
		}
		for _, it := range items {
			f := strings.Split(it, ":")
			switch f[0] {
			case "A":
				ctx, ty, v, cons := ctxOf(f[2], f[3]), f[4], core.UnHex(f[5]), f[1] == "c"
				add(func(p common.Pseudoanonymizer) string {
					if cons {
						return resStr(p.AnonymizeConsistently(toGo(ty, v), ctx, typeOf[ty]))
					}
					return resStr(p.Anonymize(toGo(ty, v), ctx, typeOf[ty]))
				})
			case "D":
				ctx, ty, v := ctxOf(f[1], f[2]), f[3], core.UnHex(f[4])
				add(func(p common.Pseudoanonymizer) string {
					return resStr(p.Deanonymize(toGo(ty, v), ctx, typeOf[ty]))
				})
			case "T":
				ctx, ty, text, cons := ctxOf(f[2], f[3]), f[4], core.UnHex(f[5]), f[1] == "c"
				add(func(p common.Pseudoanonymizer) string {
					dt, _ := pseudonymization.NewDataTokenizer(p)
					return bytesRes(dt.Tokenize(text, ctx, setting(ty, cons)))
				})
			case "U":
				ctx, ty, text := ctxOf(f[1], f[2]), f[3], core.UnHex(f[4])
				add(func(p common.Pseudoanonymizer) string {
					dt, _ := pseudonymization.NewDataTokenizer(p)
					return bytesRes(dt.Detokenize(text, ctx, setting(ty, false)))
				})
			case "P":
				// P:<h|t>:cid:ac:ty:key:rty:data – plant a record in the REAL store under the id the tokenizer
				// will look up: `h` = the consistent-token record of value `key`, payload = data as is;
				// `t` = the record of token `key`, payload = EncodeTokenValue{Value: data, Type: rty}
				// (rty "raw": data as is, not a TokenValue encoding at all). Models a damaged store or a
				// record of another type found under the id.
				ctx, ty, key, rty, data := ctxOf(f[2], f[3]), f[4], core.UnHex(f[5]), f[6], core.UnHex(f[7])
				id := recordID(f[1], key, ctx, typeOf[ty])
				payload := data
				if f[1] == "t" && rty != "raw" {
					enc, err := common.EncodeTokenValue(&common.TokenValue{Value: data, Type: typeOf[rty]})
					if err != nil {
						panic("harness: " + err.Error())
					}
					payload = enc
				}
				_ = s.store.Save(id, ctx, payload) // an occupied id keeps its record (the model's insert-if-absent)
			case "M":
				action, ok := actionOf[f[1]]
				if !ok {
					panic("harness: bad maintenance action " + f[1])
				}
				sel := f[2]
				err := s.store.VisitMetadata(func(n int, md common.TokenMetadata) (common.TokenAction, error) {
					switch sel {
					case "all":
						return action, nil
					case "dis":
						if md.Disabled {
							return action, nil
						}
					case "ena":
						if !md.Disabled {
							return action, nil
						}
					default:
						panic("harness: bad selector " + sel)
					}
					return common.TokenContinue, nil
				})
				if err != nil {
					s.events = append(s.events, "VE")
				} else {
					s.events = append(s.events, "V")
				}
			case "R":
				i := core.Atoi(f[1])
				if i < len(s.threads) {
					s.threads[i].step()
				}
			default:
				panic("harness: bad trace item " + it)
			}
		}
		for _, t := range s.threads {
			t.complete()
		}
		for _, t := range s.threads {
			results = append(results, t.result)
			cands = append(cands, t.an.cands)
		}
		events = s.events
	})
	return
}

// recordID recomputes pseudoanonymizer.generateDataID + generateKeyForHash/generateKeyForToken (the ids are
// validated by the run itself: a planted record is only ever read when the real tokenizer asks for this id).
func recordID(prefix string, data []byte, ctx common.TokenContext, ty common.TokenType) []byte {
	const delim = "tokenizator hash delimiter"
	h := sha256.New()
	h.Write([]byte(delim))
	h.Write(data)
	if len(ctx.AdditionalContext) != 0 {
		h.Write([]byte("zone"))
		h.Write(ctx.AdditionalContext)
	} else {
		h.Write([]byte("client"))
		h.Write(ctx.ClientID)
	}
	h.Write([]byte(delim))
	h.Write([]byte(strconv.Itoa(int(ty))))
	return append([]byte(prefix+"."), h.Sum(nil)...)
}

func candStr(cs [][]byte) string {
	if len(cs) == 0 {
		return "_"
	}
	out := make([]string, len(cs))
	for i, c := range cs {
		out[i] = core.Hex(c)
	}
	return strings.Join(out, ",")
}

// withCands rewrites the A/T items of a trace so that they carry the candidates the implementation drew.
func withCands(items []string, cands [][][]byte) []string {
	out := make([]string, len(items))
	th := 0
	for i, it := range items {
		f := strings.Split(it, ":")
		switch f[0] {
		case "A", "T":
			f[6] = candStr(cands[th])
			th++
		case "D", "U":
			th++
		}
		out[i] = strings.Join(f, ":")
	}
	return out
}

func init() {
	// C10.trace <seq|conc> <storekind> <seed> item…  →  results ; events
	// The candidate fields of the line are ignored by the implementation (it draws its own from the
	// seeded reader – the same ones, because the run is deterministic given seed and schedule).
	core.Register("C10.trace", func(a []string) string {
		res, _, ev := runTrace(a[0], a[1], a[2], a[3:])
		return strings.Join(res, ",") + ";" + strings.Join(ev, ",")
	})
	// C10.gen <type> <n> <seed> <candidate>: regenerate the candidate with the real generator from the
	// seeded reader; "ok" when it is the candidate of the line, "panic" when the generator panics.
	// The model answers "ok" when the candidate is in the image of its generator (and has the shape).
	core.Register("C10.gen", func(a []string) string {
		c, out := genCandidate(a[0], core.Atoi(a[1]), a[2])
		if out != "ok" {
			return out
		}
		if core.Hex(c) != a[3] {
			return "differ"
		}
		return "ok"
	})
	core.Register("C10.parseint", func(a []string) string {
		i, err := strconv.ParseInt(string(core.UnHex(a[1])), 10, core.Atoi(a[0]))
		if err != nil {
			return "err"
		}
		return "ok " + strconv.FormatInt(i, 10)
	})
}

// genCandidate draws one candidate for a value of n bytes with the real generator.
func genCandidate(ty string, n int, seed string) (cand []byte, out string) {
	out = "ok"
	withRand(seed, func() {
		defer func() {
			if r := recover(); r != nil {
				core.LastPanic = fmt.Sprint(r)
				out = "panic"
			}
		}()
		a := pseudonymization.VerifNewAnonymizer()
		var v interface{}
		switch ty {
		case "int32":
			v = int32(0)
		case "int64":
			v = int64(0)
		case "str":
			v = string(make([]byte, n))
		case "email":
			v = common.Email(make([]byte, n))
		case "bytes":
			v = make([]byte, n)
		}
		x, err := a.Anonymize(v, common.TokenContext{}, typeOf[ty])
		if err != nil {
			out = "err"
			return
		}
		cand = fromGo(x)
	})
	return
}
