package c10

import (
	"fmt"
	"sync"

	"github.com/cossacklabs/acra/pseudonymization"
	"github.com/cossacklabs/acra/pseudonymization/common"

	"verifharness/internal/core"
)

// freeRunning: N goroutines hammer ONE real pseudoanonymizer/store with overlapping values, with no
// scheduler in between (the store's own mutex / bbolt transactions provide the atomicity the model
// assumes). Oracles only: consistency, uniqueness, owner round trip. This monitors the assumption
// "every store call is atomic" that the all-schedules theorems rest on.
func freeRunning(r *core.Run) {
	rd := r.Rand
	for n := 0; n < r.N(12, 100); n++ {
		kind := core.Pick(rd, StoreKinds)
		st, cleanup := newStore(kind)
		p, err := pseudonymization.NewPseudoanonymizer(st)
		if err != nil {
			panic("harness: " + err.Error())
		}
		nG := 2 + rd.Intn(7)
		ty := core.Pick(rd, []string{"int32", "int64", "str", "bytes", "email"})
		vals := make([][]byte, 1+rd.Intn(3))
		for i := range vals {
			vals[i] = genValue(rd, ty)
			if ty == "email" && len(vals[i]) < 3 {
				vals[i] = []byte(fmt.Sprintf("u%d@example.com", i))
			}
		}
		ctx := common.TokenContext{ClientID: []byte("client_a")}
		type res struct {
			v, tok []byte
			err    error
			pan    bool
		}
		perG := 1 + rd.Intn(4)
		out := make([][]res, nG)
		picks := make([][]int, nG)
		for g := range picks {
			for j := 0; j < perG; j++ {
				picks[g] = append(picks[g], rd.Intn(len(vals)))
			}
		}
		var wg sync.WaitGroup
		start := make(chan struct{})
		for g := 0; g < nG; g++ {
			wg.Add(1)
			go func(g int) {
				defer wg.Done()
				<-start
				for _, pi := range picks[g] {
					func() {
						rr := res{v: vals[pi]}
						defer func() {
							if e := recover(); e != nil {
								rr.pan = true
							}
							out[g] = append(out[g], rr)
						}()
						x, err := p.AnonymizeConsistently(toGo(ty, vals[pi]), ctx, typeOf[ty])
						rr.err = err
						if err == nil {
							rr.tok = fromGo(x)
						}
					}()
				}
			}(g)
		}
		close(start)
		wg.Wait()
		r.Begin(fmt.Sprintf("free:%s:%s:%d:%d:%d", kind, ty, nG, perG, n), true, "stream:structured", "store:"+kind, "free-running")
		tokenOf := map[string]string{}
		valueOf := map[string]string{}
		for g := range out {
			for _, rr := range out[g] {
				if !r.Check(!rr.pan, fmt.Sprintf("anonymize-panic:%s:len%d", ty, len(rr.v)), "concurrent tokenization panics") || rr.err != nil {
					continue
				}
				if p, seen := tokenOf[string(rr.v)]; seen {
					r.Check(p == string(rr.tok), "consistent-token-differs", fmt.Sprintf("free-running goroutines on %s store: consistent tokenizations of %s returned %s and %s", kind, core.Hex(rr.v), core.Hex([]byte(p)), core.Hex(rr.tok)))
				}
				tokenOf[string(rr.v)] = string(rr.tok)
				if p, seen := valueOf[string(rr.tok)]; seen {
					r.Check(p == string(rr.v), "token-shared", fmt.Sprintf("values %s and %s share token %s", core.Hex([]byte(p)), core.Hex(rr.v), core.Hex(rr.tok)))
				}
				valueOf[string(rr.tok)] = string(rr.v)
			}
		}
		for tok, v := range valueOf {
			x, err := p.Deanonymize(toGo(ty, []byte(tok)), ctx, typeOf[ty])
			r.Check(err == nil && string(fromGo(x)) == v, "owner-roundtrip", fmt.Sprintf("after a concurrent run the owner detokenizes %s to %v (err %v), original %s", core.Hex([]byte(tok)), x, err, core.Hex([]byte(v))))
		}
		cleanup()
	}
}
