module verifharness

go 1.23.0

require (
	github.com/cossacklabs/acra v0.0.0
	github.com/cossacklabs/pg_query_go/v5 v5.1.0
	github.com/cossacklabs/themis/gothemis v0.14.0
	github.com/jackc/pgx/v5 v5.7.2
	github.com/sirupsen/logrus v1.6.0
	go.etcd.io/bbolt v1.3.6
)

require (
	contrib.go.opencensus.io/exporter/jaeger v0.2.1 // indirect
	github.com/beorn7/perks v1.0.1 // indirect
	github.com/cespare/xxhash/v2 v2.2.0 // indirect
	github.com/go-redis/redis/v7 v7.0.1 // indirect
	github.com/go-sql-driver/mysql v1.5.0 // indirect
	github.com/golang/groupcache v0.0.0-20210331224755-41bb18bfe9da // indirect
	github.com/golang/protobuf v1.5.3 // indirect
	github.com/lib/pq v1.10.9 // indirect
	github.com/matttproud/golang_protobuf_extensions v1.0.1 // indirect
	github.com/philhofer/fwd v1.1.1 // indirect
	github.com/prometheus/client_golang v1.11.1 // indirect
	github.com/prometheus/client_model v0.2.0 // indirect
	github.com/prometheus/common v0.26.0 // indirect
	github.com/prometheus/procfs v0.6.0 // indirect
	github.com/tinylib/msgp v1.1.6 // indirect
	github.com/uber/jaeger-client-go v2.25.0+incompatible // indirect
	go.opencensus.io v0.24.0 // indirect
	golang.org/x/crypto v0.36.0 // indirect
	golang.org/x/net v0.38.0 // indirect
	golang.org/x/sync v0.12.0 // indirect
	golang.org/x/sys v0.31.0 // indirect
	google.golang.org/api v0.107.0 // indirect
	google.golang.org/grpc v1.56.3 // indirect
	google.golang.org/protobuf v1.33.0 // indirect
	gopkg.in/yaml.v2 v2.4.0 // indirect
)

replace github.com/cossacklabs/acra => /repo

replace github.com/cossacklabs/themis/gothemis => ../gothemis
