module verifharness

go 1.23.0

require (
	github.com/cossacklabs/acra v0.0.0
	github.com/cossacklabs/pg_query_go/v5 v5.1.0
	github.com/cossacklabs/themis/gothemis v0.14.0
	github.com/gin-gonic/gin v1.9.1
	github.com/jackc/pgx/v5 v5.7.2
	github.com/sirupsen/logrus v1.6.0
	go.etcd.io/bbolt v1.3.6
	google.golang.org/grpc v1.56.3
	gopkg.in/yaml.v2 v2.4.0
)

require (
	contrib.go.opencensus.io/exporter/jaeger v0.2.1 // indirect
	github.com/KyleBanks/depth v1.2.1 // indirect
	github.com/armon/go-metrics v0.4.0 // indirect
	github.com/armon/go-radix v1.0.0 // indirect
	github.com/aws/aws-sdk-go-v2 v1.16.6 // indirect
	github.com/aws/aws-sdk-go-v2/config v1.15.12 // indirect
	github.com/aws/aws-sdk-go-v2/credentials v1.12.7 // indirect
	github.com/aws/aws-sdk-go-v2/feature/ec2/imds v1.12.7 // indirect
	github.com/aws/aws-sdk-go-v2/internal/configsources v1.1.13 // indirect
	github.com/aws/aws-sdk-go-v2/internal/endpoints/v2 v2.4.7 // indirect
	github.com/aws/aws-sdk-go-v2/internal/ini v1.3.14 // indirect
	github.com/aws/aws-sdk-go-v2/service/internal/presigned-url v1.9.7 // indirect
	github.com/aws/aws-sdk-go-v2/service/kms v1.17.4 // indirect
	github.com/aws/aws-sdk-go-v2/service/sso v1.11.10 // indirect
	github.com/aws/aws-sdk-go-v2/service/sts v1.16.8 // indirect
	github.com/aws/smithy-go v1.12.0 // indirect
	github.com/beorn7/perks v1.0.1 // indirect
	github.com/cenkalti/backoff/v3 v3.0.0 // indirect
	github.com/cespare/xxhash/v2 v2.2.0 // indirect
	github.com/fatih/color v1.16.0 // indirect
	github.com/gabriel-vasile/mimetype v1.4.2 // indirect
	github.com/gin-contrib/sse v0.1.0 // indirect
	github.com/go-openapi/jsonpointer v0.19.6 // indirect
	github.com/go-openapi/jsonreference v0.20.2 // indirect
	github.com/go-openapi/spec v0.20.9 // indirect
	github.com/go-openapi/swag v0.22.4 // indirect
	github.com/go-playground/locales v0.14.1 // indirect
	github.com/go-playground/universal-translator v0.18.1 // indirect
	github.com/go-playground/validator/v10 v10.14.0 // indirect
	github.com/go-redis/redis/v7 v7.0.1 // indirect
	github.com/go-sql-driver/mysql v1.5.0 // indirect
	github.com/golang/groupcache v0.0.0-20210331224755-41bb18bfe9da // indirect
	github.com/golang/protobuf v1.5.3 // indirect
	github.com/golang/snappy v0.0.4 // indirect
	github.com/hashicorp/consul/api v1.18.0 // indirect
	github.com/hashicorp/errwrap v1.1.0 // indirect
	github.com/hashicorp/go-cleanhttp v0.5.2 // indirect
	github.com/hashicorp/go-hclog v1.6.3 // indirect
	github.com/hashicorp/go-immutable-radix v1.3.1 // indirect
	github.com/hashicorp/go-multierror v1.1.1 // indirect
	github.com/hashicorp/go-plugin v1.4.3 // indirect
	github.com/hashicorp/go-retryablehttp v0.7.7 // indirect
	github.com/hashicorp/go-rootcerts v1.0.2 // indirect
	github.com/hashicorp/go-secure-stdlib/mlock v0.1.1 // indirect
	github.com/hashicorp/go-secure-stdlib/parseutil v0.1.1 // indirect
	github.com/hashicorp/go-secure-stdlib/strutil v0.1.1 // indirect
	github.com/hashicorp/go-sockaddr v1.0.2 // indirect
	github.com/hashicorp/go-uuid v1.0.2 // indirect
	github.com/hashicorp/go-version v1.2.1 // indirect
	github.com/hashicorp/golang-lru v0.5.4 // indirect
	github.com/hashicorp/hcl v1.0.0 // indirect
	github.com/hashicorp/serf v0.10.1 // indirect
	github.com/hashicorp/vault/api v1.3.0 // indirect
	github.com/hashicorp/vault/sdk v0.3.0 // indirect
	github.com/hashicorp/yamux v0.0.0-20180604194846-3520598351bb // indirect
	github.com/josharian/intern v1.0.0 // indirect
	github.com/leodido/go-urn v1.2.4 // indirect
	github.com/lib/pq v1.10.9 // indirect
	github.com/mailru/easyjson v0.7.7 // indirect
	github.com/mattn/go-colorable v0.1.13 // indirect
	github.com/mattn/go-isatty v0.0.20 // indirect
	github.com/matttproud/golang_protobuf_extensions v1.0.1 // indirect
	github.com/mitchellh/copystructure v1.0.0 // indirect
	github.com/mitchellh/go-testing-interface v1.0.0 // indirect
	github.com/mitchellh/mapstructure v1.5.0 // indirect
	github.com/mitchellh/reflectwalk v1.0.0 // indirect
	github.com/oklog/run v1.0.0 // indirect
	github.com/pelletier/go-toml/v2 v2.0.8 // indirect
	github.com/philhofer/fwd v1.1.1 // indirect
	github.com/pierrec/lz4 v2.5.2+incompatible // indirect
	github.com/prometheus/client_golang v1.11.1 // indirect
	github.com/prometheus/client_model v0.2.0 // indirect
	github.com/prometheus/common v0.26.0 // indirect
	github.com/prometheus/procfs v0.6.0 // indirect
	github.com/ryanuber/go-glob v1.0.0 // indirect
	github.com/swaggo/files v0.0.0-20190704085106-630677cd5c14 // indirect
	github.com/swaggo/gin-swagger v1.3.0 // indirect
	github.com/swaggo/swag v1.16.1 // indirect
	github.com/tinylib/msgp v1.1.6 // indirect
	github.com/uber/jaeger-client-go v2.25.0+incompatible // indirect
	github.com/ugorji/go/codec v1.2.11 // indirect
	go.opencensus.io v0.24.0 // indirect
	go.uber.org/atomic v1.10.0 // indirect
	golang.org/x/crypto v0.36.0 // indirect
	golang.org/x/net v0.38.0 // indirect
	golang.org/x/sync v0.12.0 // indirect
	golang.org/x/sys v0.31.0 // indirect
	golang.org/x/text v0.23.0 // indirect
	golang.org/x/time v0.1.0 // indirect
	golang.org/x/tools v0.21.1-0.20240508182429-e35e4ccd0d2d // indirect
	google.golang.org/api v0.107.0 // indirect
	google.golang.org/genproto v0.0.0-20230410155749-daa745c078e1 // indirect
	google.golang.org/protobuf v1.33.0 // indirect
	gopkg.in/square/go-jose.v2 v2.5.1 // indirect
	gopkg.in/yaml.v3 v3.0.1 // indirect
)

replace github.com/cossacklabs/acra => /repo

replace github.com/cossacklabs/themis/gothemis => ../gothemis
